package c08

import (
	"context"
	"errors"
	"fmt"
	"io"
	"net"
	"os"
	"strconv"
	"strings"
	"sync"
	"time"

	"github.com/saucelabs/forwarder"
	"github.com/saucelabs/forwarder/bind"
	"github.com/saucelabs/forwarder/proxyproto"
	"github.com/saucelabs/forwarder/verifharness/core"
	"github.com/spf13/pflag"
)

// Operation sequences on one accepted connection (Model/C08Seq.lean).
//
// The peer's stream is a concatenation of pieces {rejected header, well-formed v1 header, well-formed
// v2 header, payload, anything the header generators produce} in any order; it is sent in 1-4 writes,
// or only up to a point inside its first piece (the rest arrives at the event `m`).  The listener is
// configured with a generated read-header timeout (0 = no limit, tiny, the 5 s default, …) in every
// way the product does it.  The application then makes a generated sequence of calls — Read with
// various buffers, RemoteAddr, LocalAddr, Write, Header, SetDeadline, Close — from one or several
// goroutines, going on after errors.  Every answer is compared with the automaton of the model and
// the property's clauses are judged on the answers themselves.

type seqCase struct {
	Kind    string   `json:"kind"` // "opseq"
	Bytes   string   `json:"bytes_hex"`
	Pieces  []string `json:"pieces,omitempty"`    // what the stream was put together from (informational)
	StallAt int      `json:"stall_at"`            // -1: the whole stream is sent, then the peer closes its write side; k: only k bytes, the rest at `m`
	Cuts    []int    `json:"cuts,omitempty"`      // write boundaries
	GapUS   int      `json:"gap_us,omitempty"`    // pause between writes
	Via     string   `json:"via"`                 // "conn" | "connfu" (proxyproto.Listener fields) | "listener" (forwarder.Listener from ListenerConfig) | "flag" (… filled by the flag set of command/run)
	Timeout string   `json:"read_header_timeout"` // Go duration text; "default" = DefaultProxyProtocolConfig / no flag given
	Track   bool     `json:"track_traffic,omitempty"`
	Ops     []string `json:"ops"`               // r<buf> | w | ra | la | h | sd<ms> | sdc | c | m
	Callers int      `json:"callers,omitempty"` // > 1: the calls other than Read are dealt to that many more goroutines started together
	Note    string   `json:"note,omitempty"`
}

const (
	relSeq       = "calls on one accepted connection, in order (Read / Write / RemoteAddr / LocalAddr / Header / SetDeadline / Close, peer's late bytes) = Model.C08 SConn.run .latch <read-header timeout>"
	seqDeadline  = 5 * time.Second
	seqShortDLMS = 300
	seqTries     = 3
)

// seqTimeoutMS: the configured duration in ms as the model takes it (0 = no limit).
func seqTimeoutMS(text string) int {
	if text == "default" {
		return int(forwarder.DefaultProxyProtocolConfig().ReadHeaderTimeout / time.Millisecond)
	}
	d, err := time.ParseDuration(text)
	if err != nil {
		if n, err2 := strconv.Atoi(text); err2 == nil && n == 0 { // pflag's duration accepts a bare 0
			return 0
		}
		core.Fatalf("C08: bad timeout text %q", text)
	}
	return int(d / time.Millisecond)
}

// seqListen builds the listener the way the case says and returns it with its address.
func seqListen(sc seqCase) (net.Listener, error) {
	switch sc.Via {
	case "conn", "connfu":
		l, err := net.Listen("tcp", "127.0.0.1:0")
		if err != nil {
			return nil, err
		}
		d := forwarder.DefaultProxyProtocolConfig().ReadHeaderTimeout
		if sc.Timeout != "default" {
			d = time.Duration(seqTimeoutMS(sc.Timeout)) * time.Millisecond
		}
		return &proxyproto.Listener{Listener: l, ReadHeaderTimeout: d, TestingSkipConnfu: sc.Via == "conn"}, nil
	case "listener", "flag":
		cfg := forwarder.DefaultProxyProtocolConfig()
		if sc.Via == "flag" {
			// the flag set command/run registers: --proxy-protocol-listener, --proxy-protocol-read-header-timeout
			fs := pflag.NewFlagSet("run", pflag.ContinueOnError)
			fs.SetOutput(io.Discard)
			var enabled bool
			bind.ProxyProtocol(fs, &enabled, cfg)
			args := []string{"--proxy-protocol-listener"}
			if sc.Timeout != "default" {
				args = append(args, "--proxy-protocol-read-header-timeout", sc.Timeout)
			}
			if err := fs.Parse(args); err != nil {
				return nil, fmt.Errorf("flag set refuses %v: %w", args, err)
			}
			if !enabled {
				return nil, errors.New("--proxy-protocol-listener did not enable the PROXY protocol")
			}
		} else if sc.Timeout != "default" {
			cfg.ReadHeaderTimeout = time.Duration(seqTimeoutMS(sc.Timeout)) * time.Millisecond
		}
		l := &forwarder.Listener{ListenerConfig: forwarder.ListenerConfig{Address: "127.0.0.1:0", ProxyProtocolConfig: cfg, TrackTraffic: sc.Track}}
		if err := l.Listen(); err != nil {
			return nil, err
		}
		return l, nil
	}
	return nil, fmt.Errorf("unknown via %q", sc.Via)
}

// seqErrClass: the enum compared with the model.  "more?" is readUntilCRLF's own text, which hides
// why the read returned nothing (end of stream, deadline, closed socket).
func seqErrClass(err error) string {
	switch {
	case err == nil:
		return "none"
	case strings.Contains(err.Error(), "expected to read more bytes"):
		return "more?"
	case strings.Contains(err.Error(), "header read timeout"), errors.Is(err, os.ErrDeadlineExceeded), errors.Is(err, context.DeadlineExceeded):
		return "timeout"
	case errors.Is(err, net.ErrClosed), errors.Is(err, io.ErrClosedPipe), strings.Contains(err.Error(), "use of closed"):
		return "closed"
	case errors.Is(err, io.EOF), errors.Is(err, io.ErrUnexpectedEOF):
		return "short"
	}
	var ne net.Error
	if errors.As(err, &ne) && ne.Timeout() {
		return "timeout"
	}
	return "refused"
}

type seqObs struct {
	outs    []string // one answer per op
	mops    []string // the ops as the model is asked (a Read that delivered n bytes is r<n>)
	back    []byte   // what the peer received
	sawEOF  bool
	problem string
}

func runSeq(sc seqCase, stream []byte) (o seqObs) {
	lst, err := seqListen(sc)
	if err != nil {
		o.problem = "listener: " + err.Error()
		return o
	}
	defer lst.Close()
	peer, err := net.Dial("tcp", lst.Addr().String())
	if err != nil {
		core.Fatalf("C08: dial: %v", err)
	}
	defer peer.Close()
	conn, err := lst.Accept()
	if err != nil {
		core.Fatalf("C08: accept: %v", err)
	}
	defer conn.Close()
	sockRemote, sockLocal := peer.LocalAddr(), peer.RemoteAddr()
	g := newGuard(seqDeadline, peer, closerFunc(func() error { return conn.Close() }))
	defer g.stop()

	first, rest := stream, []byte(nil)
	if sc.StallAt >= 0 && sc.StallAt <= len(stream) {
		first, rest = stream[:sc.StallAt], stream[sc.StallAt:]
	}
	send := func(b []byte, base int) {
		var cuts []int
		for _, c := range sc.Cuts {
			cuts = append(cuts, c-base)
		}
		for i, seg := range segments(b, cuts) {
			if i > 0 && sc.GapUS > 0 {
				time.Sleep(time.Duration(sc.GapUS) * time.Microsecond)
			}
			if len(seg) > 0 {
				if _, err := peer.Write(seg); err != nil {
					return
				}
			}
		}
	}
	moreCh, moreDone := make(chan struct{}), make(chan struct{})
	var moreOnce sync.Once
	more := func() { moreOnce.Do(func() { close(moreCh) }); <-moreDone }
	go func() {
		defer close(moreDone)
		send(first, 0)
		if sc.StallAt >= 0 {
			<-moreCh
			send(rest, len(first))
		}
		peer.(*net.TCPConn).CloseWrite()
	}()
	backDone := make(chan struct{})
	go func() {
		defer close(backDone)
		o.back, _ = io.ReadAll(peer)
	}()
	if to := seqTimeoutMS(sc.Timeout); sc.StallAt < 0 && to > 0 && to < 1000 {
		// a tiny timeout runs from the first call: the complete stream is in the socket by then (the
		// cases with late bytes are the ones that race the timeout, by design with a wide margin)
		<-moreDone
	}

	n := len(sc.Ops)
	o.outs, o.mops = make([]string, n), make([]string, n)
	copy(o.mops, sc.Ops)
	do := func(i int) {
		op := sc.Ops[i]
		switch {
		case op == "ra":
			o.outs[i] = "a:" + canonAddr(conn.RemoteAddr(), sockRemote)
		case op == "la":
			o.outs[i] = "a:" + canonAddr(conn.LocalAddr(), sockLocal)
		case op == "w":
			if _, err := conn.Write([]byte("pong")); err != nil {
				o.outs[i] = "e:" + seqErrClass(err)
			} else {
				o.outs[i] = "w"
			}
		case op == "h":
			pc, ok := conn.(*proxyproto.Conn)
			if !ok {
				o.outs[i] = "not-a-proxyproto-conn"
				return
			}
			if h, err := pc.Header(); err != nil {
				o.outs[i] = "e:" + seqErrClass(err)
			} else {
				o.outs[i] = fmt.Sprintf("h:%d", h.Version)
			}
		case op == "sdc":
			conn.SetDeadline(time.Time{})
			o.outs[i] = "ok"
		case strings.HasPrefix(op, "sd"):
			ms, _ := strconv.Atoi(op[2:])
			conn.SetDeadline(time.Now().Add(time.Duration(ms) * time.Millisecond))
			o.outs[i] = "ok"
		case op == "c":
			conn.Close()
			o.outs[i] = "ok"
		case op == "m":
			more()
			time.Sleep(2 * time.Millisecond)
			o.outs[i] = "m"
		case strings.HasPrefix(op, "r"):
			k, _ := strconv.Atoi(op[1:])
			buf := make([]byte, k)
			got, err := conn.Read(buf)
			switch {
			case got > 0:
				o.outs[i] = "d:" + core.Hex(buf[:got])
				o.mops[i] = "r" + strconv.Itoa(got)
				if err != nil {
					o.problem = fmt.Sprintf("Read returned %d bytes and the error %v", got, err)
				}
			case err == io.EOF:
				o.outs[i] = "eof"
				o.sawEOF = true
			case err == nil:
				o.outs[i] = "d:_"
			default:
				o.outs[i] = "e:" + seqErrClass(err)
			}
		default:
			core.Fatalf("C08: unknown op %q", op)
		}
	}
	if sc.Callers <= 1 {
		for i := range sc.Ops {
			do(i)
		}
	} else {
		// Reads stay in one goroutine, in order; every other call is dealt to the other callers
		lanes := make([][]int, sc.Callers)
		k := 0
		for i, op := range sc.Ops {
			if strings.HasPrefix(op, "r") && op != "ra" {
				lanes[0] = append(lanes[0], i)
			} else {
				lanes[1+k%(sc.Callers-1)] = append(lanes[1+k%(sc.Callers-1)], i)
				k++
			}
		}
		start := make(chan struct{})
		var wg sync.WaitGroup
		for _, lane := range lanes {
			wg.Add(1)
			go func(lane []int) {
				defer wg.Done()
				<-start
				for _, i := range lane {
					do(i)
				}
			}(lane)
		}
		close(start)
		wg.Wait()
	}
	moreOnce.Do(func() { close(moreCh) })
	conn.Close()
	select {
	case <-backDone:
	case <-time.After(seqDeadline):
		o.problem = "hang: the peer's connection did not end after the application closed its side"
	}
	if g.stop() && o.problem == "" {
		o.problem = "hang: a call was still waiting when the harness closed the sockets at its deadline; answers so far: " + strings.Join(o.outs, ";")
	}
	return o
}

func hasOp(ops []string, op string) bool {
	for _, x := range ops {
		if x == op {
			return true
		}
	}
	return false
}

type closerFunc func() error

func (f closerFunc) Close() error { return f() }

// seqSame: the implementation's answer against the model's.
func seqSame(impl, model string) bool {
	model = strings.Replace(model, "e!", "e:", 1)
	if impl == "e:more?" {
		return model == "e:short" || model == "e:timeout" || model == "e:closed"
	}
	if strings.HasPrefix(impl, "h:") && strings.HasPrefix(model, "h:") {
		return impl == model
	}
	return impl == model
}

type seqVerdict struct {
	disagree string // model's answers when they differ
	clause   string
	detail   string
	crash    string
}

func (v seqVerdict) bad() bool { return v.disagree != "" || v.clause != "" || v.crash != "" }

func judgeSeq(ctx *core.Ctx, sc seqCase, stream []byte, o seqObs, spec specInfo) (v seqVerdict, impl string) {
	impl = strings.Join(o.outs, ";")
	if o.problem != "" {
		v.crash = o.problem
		return v, impl
	}
	for _, x := range o.outs {
		if strings.HasPrefix(x, "a:panic") || strings.HasPrefix(x, "a:other") || x == "a:nil" {
			v.clause, v.detail = clauseText("no-missing-address"), x
			return v, impl
		}
	}
	// the clauses, on the answers alone
	failedAt, okAt := -1, -1 // first answer that shows the header phase failed / succeeded
	closed := false          // the application has closed the connection itself: errors prove nothing from then on
	var data []byte
	var ras, las []string
	for i, x := range o.outs {
		op := sc.Ops[i]
		isErr := strings.HasPrefix(x, "e:")
		isOK := strings.HasPrefix(x, "d:") || x == "eof" || x == "w" || strings.HasPrefix(x, "h:") || (strings.HasPrefix(x, "a:") && x != "a:sock")
		if op == "c" {
			closed = true
		}
		if isErr && okAt < 0 && failedAt < 0 && !closed {
			failedAt = i
		}
		if isOK && okAt < 0 {
			okAt = i
		}
		if failedAt >= 0 && i > failedAt {
			switch {
			case strings.HasPrefix(x, "d:") || x == "eof":
				v.clause = "once the header phase of a connection has failed, every later Read fails and delivers nothing (the failure is sticky: nothing behind the bad prefix is read as a header)"
				v.detail = fmt.Sprintf("call %d (%s) failed with %s; call %d (%s) answered %s", failedAt, sc.Ops[failedAt], o.outs[failedAt], i, op, x)
			case strings.HasPrefix(x, "a:") && x != "a:sock":
				v.clause = "once the header phase of a connection has failed, RemoteAddr/LocalAddr stay the socket's own"
				v.detail = fmt.Sprintf("call %d (%s) failed with %s; call %d (%s) answered %s", failedAt, sc.Ops[failedAt], o.outs[failedAt], i, op, x)
			case x == "w" || strings.HasPrefix(x, "h:"):
				v.clause = "once the header phase of a connection has failed, every later call fails"
				v.detail = fmt.Sprintf("call %d (%s) failed with %s; call %d (%s) answered %s", failedAt, sc.Ops[failedAt], o.outs[failedAt], i, op, x)
			}
			if v.clause != "" {
				return v, impl
			}
		}
		if d, ok := strings.CutPrefix(x, "d:"); ok {
			data = append(data, core.MustUnHex(d)...)
		}
		if op == "ra" {
			ras = append(ras, x)
		}
		if op == "la" {
			las = append(las, x)
		}
	}
	for _, xs := range [][]string{ras, las} {
		for _, x := range xs {
			if x != xs[0] {
				v.clause = "RemoteAddr/LocalAddr give the same answer on every call of a connection"
				v.detail = fmt.Sprintf("%v", xs)
				return v, impl
			}
		}
	}
	if spec.mustFail && len(data) > 0 {
		v.clause, v.detail = clauseText("malformed-fails"), "payload delivered: "+core.Hex(data)
		return v, impl
	}
	return v, impl
}

func checkSeq(ctx *core.Ctx, sc seqCase) {
	stream := core.MustUnHex(sc.Bytes)
	if sc.Callers < 1 {
		sc.Callers = 1
	}
	toMS := seqTimeoutMS(sc.Timeout)
	spec := askSpec(ctx, sc.Bytes)
	key := fmt.Sprintf("opseq:%s|%d|%v|%s|%s|%v|%d", sc.Bytes, sc.StallAt, sc.Cuts, sc.Via, sc.Timeout, sc.Ops, sc.Callers)
	ctx.Case(key, true)
	ctx.Count("opseq/via/" + sc.Via)
	ctx.Count("opseq/timeout/" + sc.Timeout)
	ctx.Count(fmt.Sprintf("opseq/callers=%d", sc.Callers))
	ctx.Count(fmt.Sprintf("opseq/ops=%d", len(sc.Ops)))
	ctx.Count("opseq/stream/" + strings.Join(sc.Pieces, "+"))
	if sc.StallAt >= 0 {
		ctx.Count("opseq/late-bytes")
	}
	if d := directRead(stream, false); strings.HasPrefix(d.head, "panic") {
		ctx.Crash("no header, however unusual, crashes the process", "", sc, d.head)
		return
	}
	wire, later := sc.Bytes, "_"
	if sc.StallAt >= 0 && sc.StallAt <= len(stream) {
		wire, later = core.Hex(stream[:sc.StallAt]), core.Hex(stream[sc.StallAt:])
	}
	var v seqVerdict
	var impl, want string
	for try := 0; try < seqTries; try++ {
		o := runSeq(sc, stream)
		var model string
		if o.problem == "" {
			model = ctx.Model.MustAsk("C08", "seq", strconv.Itoa(toMS), core.B01(sc.StallAt < 0), wire, later, core.JoinList(o.mops))
		}
		v, impl = judgeSeq(ctx, sc, stream, o, spec)
		if o.problem == "" {
			f := strings.Fields(model) // parses=.. phase=.. outs
			if len(f) != 3 {
				core.Fatalf("C08: unexpected seq answer %q", model)
			}
			mouts := core.SplitList2(f[2])
			want = f[0] + " " + f[1] + " " + strings.ReplaceAll(f[2], "e!", "e:")
			same := len(mouts) == len(o.outs)
			for i := 0; same && i < len(mouts); i++ {
				same = seqSame(o.outs[i], mouts[i])
			}
			if !same {
				v.disagree = want
			} else if try == 0 {
				ctx.Count("opseq/phase/" + strings.TrimPrefix(f[1], "phase="))
			}
			// what the peer received: one "pong" per Write that succeeded, when the connection was read to its end
			if v.clause == "" && o.sawEOF && !hasOp(sc.Ops, "c") {
				wn := 0
				for _, x := range o.outs {
					if x == "w" {
						wn++
					}
				}
				if string(o.back) != strings.Repeat("pong", wn) {
					v.clause = "what the application writes on an accepted connection reaches the peer"
					v.detail = fmt.Sprintf("peer received %q after %d writes", o.back, wn)
				}
			}
		}
		if !v.bad() {
			break
		}
	}
	switch {
	case v.crash != "":
		ctx.Crash("every call on the connection returns (no hang, consistent answers)", "", sc, v.crash)
	case v.clause != "":
		ctx.SpecFail(v.clause, "", sc, impl, v.detail)
		if v.disagree != "" {
			ctx.Disagree(relSeq, sc, impl, v.disagree)
		}
	case v.disagree != "":
		ctx.Disagree(relSeq, sc, impl, v.disagree)
	default:
		ctx.TraceValidated()
	}
}

// ---------------------------------------------------------------------------------------------
// generator
// ---------------------------------------------------------------------------------------------

func seqValidV1(r *core.Rand) []byte {
	switch r.Intn(4) {
	case 0:
		return []byte(fmt.Sprintf("PROXY TCP6 %x::%x %x:%x::%x %d %d\r\n", 1+r.Intn(0xffff), r.Intn(0x10000), 1+r.Intn(0xffff), r.Intn(0x10000), 1+r.Intn(0xffff), r.Intn(65536), r.Intn(65536)))
	case 1:
		return []byte(core.Pick(r, []string{"PROXY TCP6 ::1 ::2 1 2\r\n", "PROXY TCP6 :: :: 1 2\r\n", "PROXY UNKNOWN\r\n", "PROXY UNKNOWN 1.2.3.4 5.6.7.8 1 2\r\n"}))
	}
	return []byte(fmt.Sprintf("PROXY TCP4 %d.%d.%d.%d %d.%d.%d.%d %d %d\r\n", r.Intn(256), r.Intn(256), r.Intn(256), r.Intn(256), r.Intn(256), r.Intn(256), r.Intn(256), r.Intn(256), r.Intn(65536), r.Intn(65536)))
}

func seqValidV2(r *core.Rand) []byte {
	switch r.Intn(4) {
	case 0:
		body := append(r.Bytes(36), genTLVs(r, 30)...)
		return v2Header(0x21, core.Pick(r, []byte{0x21, 0x22}), body, len(body))
	case 1:
		body := genTLVs(r, 20)
		return v2Header(0x20, core.Pick(r, []byte{0x00, 0x11}), body, len(body))
	}
	body := append(r.Bytes(12), genTLVs(r, 30)...)
	return v2Header(0x21, core.Pick(r, []byte{0x11, 0x12}), body, len(body))
}

// seqRejected: a complete prefix ReadHeader refuses (no signature, v1 lines with a bad field, v2
// headers with a refused family / length / version).
func seqRejected(r *core.Rand) ([]byte, string) {
	switch r.Intn(12) {
	case 0:
		return []byte(core.Pick(r, []string{"GET / HTTP/1.", "GET http://a.test/ HTTP/1.1\r\nHost: a.test\r\n\r\n", "CONNECT a.test:443 HTTP/1.1\r\n\r\n", "\x16\x03\x01\x02\x00\x01\x00\x01\xfc\x03\x03\x00\x00", "PROXY\tTCP4 1.2.3.4 ", "\r\n\r\n\x00\r\nQUIT\r\x21\x11\x00\x0c"})), "nosig"
	case 1:
		return r.Bytes(r.Range(13, 40)), "nosig"
	case 2:
		return []byte(fmt.Sprintf("PROXY TCP4 %s 192.168.1.1 22 2345\r\n", core.Pick(r, []string{"NOT-AN-IP", "1.2.3", "1.2.3.256", "01.2.3.4", "::1", "1.2.3.4.5"}))), "v1-badip"
	case 3:
		return []byte(fmt.Sprintf("PROXY TCP6 2001:db8::1 %s 22 2345\r\n", core.Pick(r, []string{"2001:db8:::1", "g::1", "1.2.3.4", "::1%eth0", "1:2:3:4:5:6:7:8:9"}))), "v1-badip"
	case 4:
		return []byte(fmt.Sprintf("PROXY TCP4 1.2.3.4 5.6.7.8 %s\r\n", core.Pick(r, []string{"x 1", "1 x", "1", "", "1 2x", "0x10 2"}))), "v1-badport"
	case 5:
		return []byte(core.Pick(r, []string{"PROXY TCP5 1.2.3.4 5.6.7.8 1 2\r\n", "PROXY UDP4 1.2.3.4 5.6.7.8 1 2\r\n", "PROXY tcp4 1.2.3.4 5.6.7.8 1 2\r\n", "PROXY  TCP4 1.2.3.4 5.6.7.8 1 2\r\n"})), "v1-proto"
	case 6:
		return []byte("PROXY TCP4 " + strings.Repeat("1", 97+r.Intn(30))), "v1-toolong"
	case 7:
		n := core.Pick(r, []int{0, 0, 216, 4})
		return v2Header(0x21, core.Pick(r, []byte{0x31, 0x32}), r.Bytes(n), n), "v2-unix"
	case 8:
		return v2Header(0x21, core.Pick(r, []byte{0x11, 0x21, 0x00, 0x12}), nil, 0), "v2-zero"
	case 9:
		n := core.Pick(r, []int{4, 11, 1})
		if r.Bool() {
			n = core.Pick(r, []int{12, 35, 20})
			return v2Header(0x21, 0x21, r.Bytes(n), n), "v2-short6"
		}
		return v2Header(0x21, 0x11, r.Bytes(n), n), "v2-short4"
	case 10:
		return v2Header(core.Pick(r, []byte{0x11, 0x31, 0x01, 0xf1}), 0x11, r.Bytes(12), 12), "v2-version"
	default:
		return v2Header(0x21, 0x11, nil, 2049+r.Intn(3000)), "v2-toolong"
	}
}

func seqPayload(r *core.Rand) []byte {
	switch r.Intn(4) {
	case 0:
		return []byte("GET http://origin.test/ HTTP/1.1\r\nHost: origin.test\r\n\r\n")
	case 1:
		return []byte("hello")
	}
	if p := genPayload(r); len(p) > 0 {
		return p
	}
	return []byte("x")
}

var seqTimeouts = []string{"0", "0s", "0", "0ms", "40ms", "150ms", "2s", "default", "default", "5s", "1m"}

func genSeqCase(r *core.Rand) seqCase {
	sc := seqCase{Kind: "opseq", StallAt: -1}
	// the stream
	var stream []byte
	var firstLen int
	add := func(b []byte, tag string) {
		if len(stream) == 0 {
			firstLen = len(b)
		}
		stream = append(stream, b...)
		sc.Pieces = append(sc.Pieces, tag)
	}
	piece := func() {
		switch r.Intn(10) {
		case 0, 1, 2:
			b, tag := seqRejected(r)
			add(b, "rejected:"+tag)
		case 3, 4:
			add(seqValidV1(r), "v1")
		case 5, 6:
			add(seqValidV2(r), "v2")
		case 7:
			b, _ := genStream(r)
			if len(b) == 0 {
				b = []byte("?")
			}
			add(b, "generated")
		default:
			add(seqPayload(r), "payload")
		}
	}
	switch r.Intn(10) {
	case 0, 1, 2, 3: // a rejected header, then something that would be accepted, then payload
		b, tag := seqRejected(r)
		add(b, "rejected:"+tag)
		if r.Bool() {
			add(seqValidV1(r), "v1")
		} else {
			add(seqValidV2(r), "v2")
		}
		add(seqPayload(r), "payload")
	case 4, 5: // well-formed header, then a second header as payload
		if r.Bool() {
			add(seqValidV1(r), "v1")
		} else {
			add(seqValidV2(r), "v2")
		}
		for i, n := 0, r.Intn(3); i < n; i++ {
			piece()
		}
	default:
		for i, n := 0, r.Range(1, 4); i < n; i++ {
			piece()
		}
	}
	sc.Bytes = core.Hex(stream)
	sc.Cuts = genCuts(r, len(stream))
	if len(sc.Cuts) > 0 && r.Chance(40) {
		sc.GapUS = core.Pick(r, []int{100, 300, 1000})
	}
	// the listener
	sc.Via = core.Pick(r, []string{"conn", "conn", "connfu", "listener", "flag"})
	sc.Timeout = core.Pick(r, seqTimeouts)
	if sc.Via == "listener" || sc.Via == "flag" {
		sc.Track = r.Bool()
	}
	toMS := seqTimeoutMS(sc.Timeout)
	// late bytes: the peer stops inside its first piece
	stall := r.Chance(12) && firstLen >= 2
	if stall {
		// at most 12 bytes: no header is complete before the rest arrives, so a call made before `m` stalls
		// in the header phase (stalls deeper inside a header are the trickle cases' business)
		sc.StallAt = r.Range(1, min(firstLen-1, 12))
		var cuts []int
		for _, c := range sc.Cuts {
			if c != sc.StallAt {
				cuts = append(cuts, c)
			}
		}
		sc.Cuts = cuts
	}
	// the calls
	call := func() string {
		switch r.Intn(12) {
		case 0, 1, 2, 3:
			return "r" + strconv.Itoa(core.Pick(r, []int{1, 2, 7, 13, 64, 300, 4096}))
		case 4, 5:
			return "ra"
		case 6:
			return "la"
		case 7, 8:
			return "w"
		case 9:
			if sc.Via == "conn" {
				return "h"
			}
			return "ra"
		case 10:
			return "r64"
		default:
			return "la"
		}
	}
	n := r.Range(2, 9)
	if stall {
		cutsItself := toMS > 0 && toMS <= 150
		if !cutsItself || r.Bool() {
			sc.Ops = append(sc.Ops, "sd"+strconv.Itoa(seqShortDLMS))
		}
		k := r.Intn(3) // calls before the rest arrives
		for i := 0; i < k; i++ {
			sc.Ops = append(sc.Ops, call())
		}
		sc.Ops = append(sc.Ops, "m")
		if r.Chance(70) {
			sc.Ops = append(sc.Ops, core.Pick(r, []string{"sdc", "sd4000"}))
		}
		for i := 0; i < n; i++ {
			sc.Ops = append(sc.Ops, call())
		}
		return sc
	}
	closeAt := -1
	if r.Chance(12) {
		closeAt = r.Intn(n)
	}
	plain := true
	for i := 0; i < n; i++ {
		switch {
		case i == closeAt:
			sc.Ops = append(sc.Ops, "c")
			plain = false
		case r.Chance(8):
			sc.Ops = append(sc.Ops, core.Pick(r, []string{"sd4000", "sdc"}))
			plain = false
		default:
			sc.Ops = append(sc.Ops, call())
		}
	}
	if plain && r.Chance(30) {
		sc.Callers = core.Pick(r, []int{2, 3, 4})
	}
	return sc
}

// seqFixed: the sequences martian makes on a connection (RemoteAddr for the log line, then Read), for
// every timeout setting and every way of configuring it, on a rejected header followed by a well-formed one.
func seqFixed() []seqCase {
	var out []seqCase
	bad := []string{"GET / HTTP/1.", "PROXY TCP4 NOT-AN-IP 192.168.1.1 22 2345\r\n", "\r\n\r\n\x00\r\nQUIT\n\x21\x31\x00\x00", "\r\n\r\n\x00\r\nQUIT\n\x21\x11\x00\x00"}
	good := []string{"PROXY TCP4 9.9.9.9 8.8.8.8 99 88\r\n", "\r\n\r\n\x00\r\nQUIT\n\x21\x11\x00\x0c\x09\x09\x09\x09\x08\x08\x08\x08\x00\x63\x00\x58"}
	i := 0
	for _, to := range []string{"0", "40ms", "default"} {
		for _, via := range []string{"conn", "connfu", "listener", "flag"} {
			for _, ops := range [][]string{{"ra", "r4096", "ra", "r4096"}, {"r64", "r64", "r64", "ra"}, {"w", "la", "r1", "r1"}} {
				b, gd := bad[i%len(bad)], good[(i/len(bad))%len(good)]
				i++
				out = append(out, seqCase{Kind: "opseq", Bytes: core.HexS(b + gd + "hello"), Pieces: []string{"rejected", "valid", "payload"}, StallAt: -1,
					Via: via, Timeout: to, Ops: ops, Note: "fixed"})
			}
		}
	}
	return out
}
