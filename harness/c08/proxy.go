package c08

import (
	"bufio"
	"bytes"
	"context"
	"encoding/json"
	"fmt"
	"io"
	"net"
	"net/http"
	"os"
	"os/exec"
	"strconv"
	"strings"
	"sync"
	"time"

	"github.com/saucelabs/forwarder"
	"github.com/saucelabs/forwarder/bind"
	"github.com/saucelabs/forwarder/log"
	"github.com/saucelabs/forwarder/verifharness/core"
	"github.com/spf13/pflag"
)

// The full proxy (forwarder.NewHTTPProxy with ProxyProtocolConfig) runs in a child process: its
// accept loop dereferences conn.RemoteAddr() in a goroutine the harness cannot guard, so a header
// that makes the address nil (the repaired defect F4) kills the whole process.  The child reports
// one result line per header as it goes, so a crash names the header that caused it.

const childEnv = "FWDCHECK_C08_PROXY_CHILD"

type proxyCase struct {
	Kind   string `json:"kind"`       // "proxy" | "proxy-crash"
	Header string `json:"header_hex"` // PROXY header sent before the HTTP request (may be several headers in a row)
	// RHT: value given to --proxy-protocol-read-header-timeout through the flag set command/run registers
	// ("default" = flag not given); empty = ProxyProtocolConfig{ReadHeaderTimeout: 2s} set directly
	RHT string `json:"read_header_timeout,omitempty"`
}

type proxyResult struct {
	XFF     string `json:"xff"`    // X-Forwarded-For values the origin saw, joined with "|"
	Status  int    `json:"status"` // status the client got (0 = none)
	Err     string `json:"err,omitempty"`
	Reached bool   `json:"reached,omitempty"` // the request reached the origin
}

const childRHTEnv = "FWDCHECK_C08_PROXY_RHT"

func childInit() {
	if os.Getenv(childEnv) == "" {
		return
	}
	if os.Getenv(childEnv) == "trickle" {
		childTrickle()
		os.Exit(0)
	}
	var hdrs []string
	if err := json.NewDecoder(os.Stdin).Decode(&hdrs); err != nil {
		fmt.Fprintln(os.Stderr, "child: bad input:", err)
		os.Exit(3)
	}
	childServe(hdrs)
	os.Exit(0)
}

func childServe(hdrs []string) {
	var mu sync.Mutex
	seen := map[string]string{}
	ol, err := net.Listen("tcp", "127.0.0.1:0")
	if err != nil {
		fmt.Fprintln(os.Stderr, "child: listen:", err)
		os.Exit(3)
	}
	go http.Serve(ol, http.HandlerFunc(func(w http.ResponseWriter, r *http.Request) {
		mu.Lock()
		seen[r.URL.Path] = strings.Join(r.Header.Values("X-Forwarded-For"), "|")
		mu.Unlock()
		w.Header().Set("Connection", "close")
		io.WriteString(w, "ok")
	}))
	cfg := forwarder.DefaultHTTPProxyConfig()
	cfg.Address = "127.0.0.1:0"
	cfg.ProxyProtocolConfig = &forwarder.ProxyProtocolConfig{ReadHeaderTimeout: 2 * time.Second}
	if rht := os.Getenv(childRHTEnv); rht != "" {
		// the way command/run does it: DefaultProxyProtocolConfig filled by the registered flags
		ppc := forwarder.DefaultProxyProtocolConfig()
		fs := pflag.NewFlagSet("run", pflag.ContinueOnError)
		var enabled bool
		bind.ProxyProtocol(fs, &enabled, ppc)
		args := []string{"--proxy-protocol-listener"}
		if rht != "default" {
			args = append(args, "--proxy-protocol-read-header-timeout", rht)
		}
		if err := fs.Parse(args); err != nil || !enabled {
			fmt.Fprintln(os.Stderr, "child: flags:", args, err)
			os.Exit(3)
		}
		cfg.ProxyProtocolConfig = ppc
	}
	cfg.ProxyLocalhost = forwarder.AllowProxyLocalhost
	p, err := forwarder.NewHTTPProxy(cfg, nil, nil, nil, log.NopLogger, nil)
	if err != nil {
		fmt.Fprintln(os.Stderr, "child: NewHTTPProxy:", err)
		os.Exit(3)
	}
	ctx, cancel := context.WithCancel(context.Background())
	defer cancel()
	go p.Run(ctx)
	addrs, _ := p.Addr()
	out := make([]proxyResult, len(hdrs))
	enc := json.NewEncoder(os.Stdout)
	for i, hx := range hdrs {
		h, _ := core.UnHex(hx)
		path := "/c" + strconv.Itoa(i)
		c, err := net.Dial("tcp", addrs[0])
		if err != nil {
			out[i].Err = "dial: " + err.Error()
			enc.Encode(out[i])
			continue
		}
		c.SetDeadline(time.Now().Add(4 * time.Second))
		req := fmt.Sprintf("GET http://%s%s HTTP/1.1\r\nHost: %s\r\nConnection: close\r\n\r\n", ol.Addr().String(), path, ol.Addr().String())
		c.Write(append(h, []byte(req)...))
		resp, err := http.ReadResponse(bufio.NewReader(c), nil)
		if err != nil {
			out[i].Err = "response: " + err.Error()
		} else {
			out[i].Status = resp.StatusCode
			io.Copy(io.Discard, resp.Body)
			resp.Body.Close()
		}
		c.Close()
		// a header that kills the accept loop does so asynchronously: leave it a moment
		time.Sleep(30 * time.Millisecond)
		mu.Lock()
		out[i].XFF, out[i].Reached = seen[path]
		mu.Unlock()
		enc.Encode(out[i])
	}
}

// proxyBatch runs the headers through a fresh proxy in a child process.  When the child dies, res
// holds the results it had reported: hdrs[len(res)] is the header it died on.
func proxyBatch(hdrs []string) (res []proxyResult, crashed bool, diag string) {
	return proxyBatchRHT(hdrs, "")
}

func proxyBatchRHT(hdrs []string, rht string) (res []proxyResult, crashed bool, diag string) {
	exe, err := os.Executable()
	if err != nil {
		core.Fatalf("C08: os.Executable: %v", err)
	}
	in, _ := json.Marshal(hdrs)
	cmd := exec.Command(exe)
	cmd.Env = append(os.Environ(), childEnv+"=1", childRHTEnv+"="+rht)
	cmd.Stdin = bytes.NewReader(in)
	var stdout, stderr bytes.Buffer
	cmd.Stdout, cmd.Stderr = &stdout, &stderr
	done := make(chan error, 1)
	if err := cmd.Start(); err != nil {
		core.Fatalf("C08: cannot start child: %v", err)
	}
	go func() { done <- cmd.Wait() }()
	select {
	case err = <-done:
	case <-time.After(time.Duration(30+5*len(hdrs)) * time.Second):
		cmd.Process.Kill()
		<-done
		return parseResults(stdout.Bytes()), true, "child did not finish (hang)"
	}
	if err != nil {
		if ee, ok := err.(*exec.ExitError); ok && ee.ExitCode() == 3 {
			core.Fatalf("C08: proxy child could not set itself up: %s", stderr.String())
		}
		d := stderr.String()
		if i := strings.Index(d, "panic:"); i >= 0 {
			d = d[i:]
		}
		if len(d) > 700 {
			d = d[:700]
		}
		return parseResults(stdout.Bytes()), true, fmt.Sprintf("child died (%v): %s", err, d)
	}
	res = parseResults(stdout.Bytes())
	if len(res) != len(hdrs) {
		core.Fatalf("C08: unreadable child output %q", stdout.String())
	}
	return res, false, ""
}

// parseResults reads the complete result lines the child wrote.
func parseResults(b []byte) []proxyResult {
	var res []proxyResult
	for _, ln := range bytes.Split(b, []byte("\n")) {
		var r proxyResult
		if len(bytes.TrimSpace(ln)) == 0 || json.Unmarshal(ln, &r) != nil {
			continue
		}
		res = append(res, r)
	}
	return res
}

// reqAfterHeader stands for the HTTP request the child sends after the header (the real one names
// the origin's port); the header's reading does not depend on the difference.
const reqAfterHeader = "GET http://127.0.0.1:65535/c0 HTTP/1.1\r\nHost: 127.0.0.1:65535\r\nConnection: close\r\n\r\n"

// hostOf: the host part of what RemoteAddr().String() gives for a model address.
func hostOf(sel string) (string, bool) {
	if sel == "sock" {
		return "127.0.0.1", true
	}
	p := strings.Split(sel, ":")
	if len(p) != 3 {
		return "", false // "nil": no address to speak of
	}
	return net.IP(core.MustUnHex(p[1])).String(), true
}

// evalProxy compares what one connection through the full proxy did with the model: an accepted
// header makes the origin see the advertised source (the socket's own for address-less headers) in
// X-Forwarded-For, a refused one makes that connection fail.
func evalProxy(ctx *core.Ctx, c proxyCase, r proxyResult) {
	ctx.Case("proxy:"+c.Header+"|"+c.RHT, true)
	ctx.Count("proxy/cases")
	if c.RHT != "" {
		ctx.Count("proxy/read-header-timeout/" + c.RHT)
	}
	hx := c.Header + core.HexS(reqAfterHeader)
	mHead, mAddrs, _ := modelParts(ctx.Model.MustAsk("C08", "read", hx))
	spec := askSpec(ctx, hx)
	if spec.shape != "" {
		ctx.Count("proxy/shape/" + spec.shape)
	}
	impl := fmt.Sprintf("status=%d reached-origin=%v xff=%q err=%s", r.Status, r.Reached, r.XFF, r.Err)
	const rel = "full proxy: origin sees the advertised source in X-Forwarded-For; a refused header fails that connection"
	if !strings.HasPrefix(mHead, "ok") {
		ctx.Count("proxy/model-refuses")
		if r.Status != 0 || r.Reached {
			ctx.Disagree(rel, c, impl, "no response, nothing sent to the origin ("+mHead+")")
			if spec.mustFail {
				ctx.SpecFail(clauseText("malformed-fails"), "", c, impl, "")
			} else if r.Reached {
				ctx.SpecFail("a connection whose header is refused is not served: nothing behind the refused header is read as a header or as a request", "", c, impl, "")
			}
			return
		}
		if strings.Contains(r.Err, "i/o timeout") {
			ctx.SpecFail("a refused header closes that connection (the client sees it end within 4 s)", "", c, impl, "")
			return
		}
		ctx.TraceValidated()
		return
	}
	ctx.Count("proxy/model-accepts")
	want, ok := hostOf(strings.TrimPrefix(strings.Fields(mAddrs)[0], "ra="))
	if !ok {
		ctx.Disagree(rel, c, impl, "model: "+mAddrs)
		return
	}
	if r.Status != 200 || r.XFF != want {
		ctx.Disagree(rel, c, impl, fmt.Sprintf("status=200 xff=%q", want))
		if spec.wf && !(spec.mayReject && r.Status == 0) {
			ctx.SpecFail("RemoteAddr/LocalAddr are the header's source/destination (origin sees X-Forwarded-For = advertised source)", "", c, impl, "want "+want)
		}
		return
	}
	ctx.TraceValidated()
}

const goodHeader = "PROXY TCP4 1.2.3.4 5.6.7.8 1000 2000\r\n"

// checkProxy sends one header (and then a well-formed one) to a fresh full proxy.
func checkProxy(ctx *core.Ctx, c proxyCase) {
	res, crashed, diag := proxyBatchRHT([]string{c.Header, core.HexS(goodHeader)}, c.RHT)
	if crashed {
		ctx.Case("proxy:"+c.Header, true)
		ctx.Crash("no header, however unusual, crashes the process (full proxy: accept loop)", "", c, diag)
		return
	}
	evalProxy(ctx, c, res[0])
	if res[1].Status != 200 || res[1].XFF != "1.2.3.4" {
		ctx.SpecFail("a header makes only its own connection fail (the next connection is served)", "", c, fmt.Sprintf("next connection: %+v", res[1]), "")
	}
}

// checkProxyCrash sends one header to the full proxy and then a well-formed request: the process
// must survive and keep serving.
func checkProxyCrash(ctx *core.Ctx, c proxyCase) {
	ctx.Case("proxy-crash:"+c.Header, true)
	ctx.Count("proxy/liveness")
	res, crashed, diag := proxyBatch([]string{c.Header, core.HexS(goodHeader)})
	if crashed {
		ctx.Crash("no header, however unusual, crashes the process (full proxy: accept loop)", "", c, diag)
		return
	}
	if res[1].Status != 200 || res[1].XFF != "1.2.3.4" {
		ctx.SpecFail("a bad header makes only that connection fail (the next connection is served)", "", c, fmt.Sprintf("next connection: %+v", res[1]), "")
		return
	}
	ctx.TraceValidated()
}

// runProxyBatches runs the cases through full proxies (chunks of at most 48 headers, each chunk in
// its own child process and closed by a well-formed header; 8 children at a time).  A child that
// dies names the header it died on: that header is filed as a crash with a replayable case.
func runProxyBatches(ctx *core.Ctx, cases []proxyCase) {
	const chunk = 48
	var chunks [][]proxyCase
	for i := 0; i < len(cases); i += chunk {
		chunks = append(chunks, cases[i:min(i+chunk, len(cases))])
	}
	parallel(chunks, 8, func(cs []proxyCase) {
		for len(cs) > 0 {
			hdrs := make([]string, 0, len(cs)+1)
			for _, c := range cs {
				hdrs = append(hdrs, c.Header)
			}
			hdrs = append(hdrs, core.HexS(goodHeader))
			res, crashed, diag := proxyBatch(hdrs)
			for i := 0; i < len(res) && i < len(cs); i++ {
				evalProxy(ctx, cs[i], res[i])
			}
			if !crashed {
				ctx.Case("proxy-liveness:"+cs[0].Header, true)
				ctx.Count("proxy/liveness")
				last := res[len(res)-1]
				if last.Status != 200 || last.XFF != "1.2.3.4" {
					ctx.SpecFail("a header makes only its own connection fail (the next connection is served)", "", cs, fmt.Sprintf("connection after the batch: %+v", last), "")
				} else {
					ctx.TraceValidated()
				}
				return
			}
			k := len(res)
			if k >= len(cs) {
				// died on the closing well-formed header: nothing to attribute it to but the batch
				ctx.Crash("no header, however unusual, crashes the process (full proxy)", "", cs, diag)
				return
			}
			culprit := proxyCase{Kind: "proxy-crash", Header: cs[k].Header}
			ctx.Case("proxy-crash:"+culprit.Header, true)
			ctx.Count("proxy/child-died")
			ctx.Crash("no header, however unusual, crashes the process (full proxy: accept loop)", "", culprit, diag)
			cs = cs[k+1:] // the rest of the chunk goes to a fresh child
		}
	})
}

var proxyHeaders = []string{
	"PROXY TCP4 1.2.3.4 5.6.7.8 1000 2000\r\n",
	"PROXY TCP4 255.255.255.255 255.255.255.255 65535 65535\r\n",
	"PROXY TCP6 2001:db8::68 2001:db8::1 40000 443\r\n",
	"PROXY TCP6 ::ffff:9.8.7.6 ::1 1 2\r\n",
	"PROXY TCP6 :: :: 1 2\r\n",   // 22 bytes (regression target F5): the request line must not lose its first bytes
	"PROXY TCP6 ::1 :: 1 2\r\n",  // 23 bytes
	"PROXY TCP6 1:: ::2 0 9\r\n", // 24 bytes
	"PROXY UNKNOWN\r\n",
	"PROXY UNKNOWN ff:: 1 2 whatever\r\n",
	"PROXY TCP4 1.2.3.4 5.6.7.8 1000\r\n", // refused: that connection fails, the proxy lives
	"\r\n\r\n\x00\r\nQUIT\n\x20\x00\x00\x00",
	"\r\n\r\n\x00\r\nQUIT\n\x21\x11\x00\x0c\x01\x02\x03\x04\x05\x06\x07\x08\x00\x50\x01\xbb",
	"\r\n\r\n\x00\r\nQUIT\n\x21\x21\x00\x27\x20\x01\x0d\xb8\x00\x00\x00\x00\x00\x00\x00\x00\x00\x00\x00\x01\x20\x01\x0d\xb8\x00\x00\x00\x00\x00\x00\x00\x00\x00\x00\x00\x02\xc0\x00\x01\xbb\x04\x00\x00",
	"\r\n\r\n\x00\r\nQUIT\n\x20\x11\x00\x0c\x01\x02\x03\x04\x05\x06\x07\x08\x00\x50\x01\xbb",
	"\r\n\r\n\x00\r\nQUIT\n\x21\x00\x00\x02\x01\x02", // the F4 witness: PROXY, AF_UNSPEC, two bytes
	"\r\n\r\n\x00\r\nQUIT\n\x22\x11\x00\x00",         // command nibble 2
}

// runProxySticky: through the full proxy, for several settings of --proxy-protocol-read-header-timeout
// (0 = no limit among them): a refused header followed by a well-formed header and a request.  martian
// asks RemoteAddr for its log line and then peeks the request: the connection must end unserved, nothing
// reaches the origin, and the next connection is served; well-formed headers are served as advertised.
func runProxySticky(ctx *core.Ctx) {
	bad := []string{"GET / HTTP/1.", "PROXY TCP4 NOT-AN-IP 192.168.1.1 22 2345\r\n", "PROXY TCP4 1.2.3.4 5.6.7.8 1000\r\n", "PROXY TCP5 1.2.3.4 5.6.7.8 1 2\r\n",
		"\r\n\r\n\x00\r\nQUIT\n\x21\x31\x00\x00", "\r\n\r\n\x00\r\nQUIT\n\x21\x11\x00\x00", "\r\n\r\n\x00\r\nQUIT\n\x11\x11\x00\x00", "\r\n\r\n\x00\r\nQUIT\n\x21\x11\x00\x04\x01\x02\x03\x04"}
	good := []string{"PROXY TCP4 9.9.9.9 8.8.8.8 99 88\r\n", "PROXY TCP6 2001:db8::9 2001:db8::8 99 88\r\n",
		"\r\n\r\n\x00\r\nQUIT\n\x21\x11\x00\x0c\x09\x09\x09\x09\x08\x08\x08\x08\x00\x63\x00\x58"}
	rhts := []string{"0", "0s", "200ms", "default"}
	n := 0
	parallel(rhts, len(rhts), func(rht string) {
		var cs []proxyCase
		for _, b := range bad {
			for _, g := range good {
				cs = append(cs, proxyCase{Kind: "proxy", Header: core.HexS(b + g), RHT: rht})
			}
			cs = append(cs, proxyCase{Kind: "proxy", Header: core.HexS(b), RHT: rht})
		}
		for _, g := range good {
			cs = append(cs, proxyCase{Kind: "proxy", Header: core.HexS(g), RHT: rht})
		}
		n = len(cs)
		hdrs := make([]string, 0, len(cs)+1)
		for _, c := range cs {
			hdrs = append(hdrs, c.Header)
		}
		hdrs = append(hdrs, core.HexS(goodHeader))
		res, crashed, diag := proxyBatchRHT(hdrs, rht)
		for i := 0; i < len(res) && i < len(cs); i++ {
			evalProxy(ctx, cs[i], res[i])
		}
		ctx.Case("proxy-liveness:rht="+rht, true)
		ctx.Count("proxy/liveness")
		if crashed {
			ctx.Crash("no header, however unusual, crashes the process (full proxy)", "", cs, diag)
			return
		}
		if last := res[len(res)-1]; last.Status != 200 || last.XFF != "1.2.3.4" {
			ctx.SpecFail("a header makes only its own connection fail (the next connection is served)", "", cs, fmt.Sprintf("connection after the batch: %+v", last), "")
			return
		}
		ctx.TraceValidated()
	})
	ctx.Extra("full_proxy_header_sequences", fmt.Sprintf("%d streams x --proxy-protocol-read-header-timeout in %v (parsed by the flag set command/run registers) through forwarder.NewHTTPProxy: refused header alone, refused header + well-formed header + request (must end unserved, origin not reached), well-formed header", n, rhts))
}

func runProxyCases(ctx *core.Ctx) {
	var sticky sync.WaitGroup
	sticky.Add(1)
	go func() { defer sticky.Done(); runProxySticky(ctx) }()
	defer sticky.Wait()
	var cases []proxyCase
	for _, h := range proxyHeaders {
		cases = append(cases, proxyCase{Kind: "proxy", Header: core.HexS(h)})
	}
	for i, n := 0, ctx.N(4, 60); i < n; i++ {
		r := ctx.Rng.Sub()
		var h []byte
		if r.Bool() {
			k := core.Pick(r, []string{"TCP4", "TCP6"})
			a := genV4Text
			if k == "TCP6" {
				a = genV6Text
			}
			h = []byte(fmt.Sprintf("PROXY %s %s %s %d %d\r\n", k, a(r), a(r), r.Intn(65536), r.Intn(65536)))
		} else {
			fam := core.Pick(r, []byte{0x11, 0x21})
			n := 12
			if fam == 0x21 {
				n = 36
			}
			body := append(r.Bytes(n), genTLVs(r, 30)...)
			h = v2Header(0x21, fam, body, len(body))
		}
		cases = append(cases, proxyCase{Kind: "proxy", Header: core.Hex(h)})
	}
	// the short TCP6 lines (a sample in the quick tier)
	for i, l := range shortTCP6Lines() {
		if ctx.Quick() && i%6 != 0 {
			continue
		}
		cases = append(cases, proxyCase{Kind: "proxy", Header: core.HexS(l)})
	}
	// v2: every command nibble x family byte (quick: the 26 regression families) through the accept
	// loop of the full proxy, where a nil RemoteAddr used to kill the process
	fams := regressFamilies
	if !ctx.Quick() {
		fams = make([]byte, 256)
		for i := range fams {
			fams[i] = byte(i)
		}
	}
	for cmd := 0; cmd < 16; cmd++ {
		for _, fam := range fams {
			r := ctx.Rng.Sub()
			n := core.Pick(r, []int{0, 2, 12, 36})
			switch fam {
			case 0x11, 0x12:
				n = core.Pick(r, []int{12, 12, 20, 4})
			case 0x21, 0x22:
				n = core.Pick(r, []int{36, 36, 40, 12})
			case 0x31, 0x32:
				n = 216
			}
			cases = append(cases, proxyCase{Kind: "proxy", Header: core.Hex(v2Header(byte(0x20|cmd), fam, r.Bytes(n), n))})
		}
	}
	ctx.Extra("full_proxy", fmt.Sprintf("%d headers through forwarder.NewHTTPProxy in child processes (v2 command nibble x %d family bytes, short TCP6 lines, fixed and generated well-formed headers)", len(cases), len(fams)))
	ctx.Sample(cases[0])
	runProxyBatches(ctx, cases)
}
