package c08

import (
	"bufio"
	"bytes"
	"context"
	"encoding/json"
	"fmt"
	"io"
	"net"
	"net/http"
	"os"
	"os/exec"
	"strconv"
	"strings"
	"sync"
	"time"

	"github.com/saucelabs/forwarder"
	"github.com/saucelabs/forwarder/log"
	"github.com/saucelabs/forwarder/verifharness/core"
)

// The full proxy (forwarder.NewHTTPProxy with ProxyProtocolConfig) runs in a child process: its
// accept loop dereferences conn.RemoteAddr() in a goroutine the harness cannot guard, so a header
// that makes the address nil (F4) kills the whole process.

const childEnv = "FWDCHECK_C08_PROXY_CHILD"

type proxyCase struct {
	Kind   string `json:"kind"`       // "proxy" | "proxy-crash"
	Header string `json:"header_hex"` // PROXY header sent before the HTTP request
}

type proxyResult struct {
	XFF    string `json:"xff"`    // X-Forwarded-For values the origin saw, joined with "|"
	Status int    `json:"status"` // status the client got (0 = none)
	Err    string `json:"err,omitempty"`
}

func childInit() {
	if os.Getenv(childEnv) == "" {
		return
	}
	var hdrs []string
	if err := json.NewDecoder(os.Stdin).Decode(&hdrs); err != nil {
		fmt.Fprintln(os.Stderr, "child: bad input:", err)
		os.Exit(3)
	}
	res := childServe(hdrs)
	json.NewEncoder(os.Stdout).Encode(res)
	os.Exit(0)
}

func childServe(hdrs []string) []proxyResult {
	var mu sync.Mutex
	seen := map[string]string{}
	ol, err := net.Listen("tcp", "127.0.0.1:0")
	if err != nil {
		fmt.Fprintln(os.Stderr, "child: listen:", err)
		os.Exit(3)
	}
	go http.Serve(ol, http.HandlerFunc(func(w http.ResponseWriter, r *http.Request) {
		mu.Lock()
		seen[r.URL.Path] = strings.Join(r.Header.Values("X-Forwarded-For"), "|")
		mu.Unlock()
		w.Header().Set("Connection", "close")
		io.WriteString(w, "ok")
	}))
	cfg := forwarder.DefaultHTTPProxyConfig()
	cfg.Address = "127.0.0.1:0"
	cfg.ProxyProtocolConfig = &forwarder.ProxyProtocolConfig{ReadHeaderTimeout: 2 * time.Second}
	cfg.ProxyLocalhost = forwarder.AllowProxyLocalhost
	p, err := forwarder.NewHTTPProxy(cfg, nil, nil, nil, log.NopLogger, nil)
	if err != nil {
		fmt.Fprintln(os.Stderr, "child: NewHTTPProxy:", err)
		os.Exit(3)
	}
	ctx, cancel := context.WithCancel(context.Background())
	defer cancel()
	go p.Run(ctx)
	addrs, _ := p.Addr()
	out := make([]proxyResult, len(hdrs))
	for i, hx := range hdrs {
		h, _ := core.UnHex(hx)
		path := "/c" + strconv.Itoa(i)
		c, err := net.Dial("tcp", addrs[0])
		if err != nil {
			out[i].Err = "dial: " + err.Error()
			continue
		}
		c.SetDeadline(time.Now().Add(4 * time.Second))
		req := fmt.Sprintf("GET http://%s%s HTTP/1.1\r\nHost: %s\r\nConnection: close\r\n\r\n", ol.Addr().String(), path, ol.Addr().String())
		c.Write(append(h, []byte(req)...))
		resp, err := http.ReadResponse(bufio.NewReader(c), nil)
		if err != nil {
			out[i].Err = "response: " + err.Error()
		} else {
			out[i].Status = resp.StatusCode
			io.Copy(io.Discard, resp.Body)
			resp.Body.Close()
		}
		c.Close()
		// a header that kills the accept loop does so asynchronously: leave it a moment
		time.Sleep(30 * time.Millisecond)
		mu.Lock()
		out[i].XFF = seen[path]
		mu.Unlock()
	}
	return out
}

// proxyBatch runs the headers through a fresh proxy in a child process.
func proxyBatch(hdrs []string) (res []proxyResult, crashed bool, diag string) {
	exe, err := os.Executable()
	if err != nil {
		core.Fatalf("C08: os.Executable: %v", err)
	}
	in, _ := json.Marshal(hdrs)
	cmd := exec.Command(exe)
	cmd.Env = append(os.Environ(), childEnv+"=1")
	cmd.Stdin = bytes.NewReader(in)
	var stdout, stderr bytes.Buffer
	cmd.Stdout, cmd.Stderr = &stdout, &stderr
	done := make(chan error, 1)
	if err := cmd.Start(); err != nil {
		core.Fatalf("C08: cannot start child: %v", err)
	}
	go func() { done <- cmd.Wait() }()
	select {
	case err = <-done:
	case <-time.After(time.Duration(20+6*len(hdrs)) * time.Second):
		cmd.Process.Kill()
		<-done
		return nil, true, "child did not finish (hang)"
	}
	if err != nil {
		if ee, ok := err.(*exec.ExitError); ok && ee.ExitCode() == 3 {
			core.Fatalf("C08: proxy child could not set itself up: %s", stderr.String())
		}
		d := stderr.String()
		if i := strings.Index(d, "panic:"); i >= 0 {
			d = d[i:]
		}
		if len(d) > 700 {
			d = d[:700]
		}
		return nil, true, fmt.Sprintf("child died (%v): %s", err, d)
	}
	if err := json.Unmarshal(stdout.Bytes(), &res); err != nil || len(res) != len(hdrs) {
		core.Fatalf("C08: unreadable child output %q", stdout.String())
	}
	return res, false, ""
}

// expectedXFF: the host part of what RemoteAddr().String() gives for the model's remote address.
func expectedXFF(ctx *core.Ctx, hx string) (string, bool) {
	ans := ctx.Model.MustAsk("C08", "addrs", hx)
	f := strings.Fields(ans)
	if len(f) != 2 {
		return "", false
	}
	r := strings.TrimPrefix(f[0], "remote=")
	switch {
	case r == "sock":
		return "127.0.0.1", true
	case r == "nil":
		return "", false
	}
	p := strings.Split(r, ":")
	if len(p) != 3 {
		return "", false
	}
	ip := core.MustUnHex(p[1])
	return net.IP(ip).String(), true
}

func evalProxy(ctx *core.Ctx, c proxyCase, r proxyResult) {
	ctx.Case("proxy:"+c.Header, true)
	ctx.Count("proxy/cases")
	want, ok := expectedXFF(ctx, c.Header+core.HexS("GET http://x/ HTTP/1.1\r\n\r\n"))
	impl := fmt.Sprintf("status=%d xff=%q err=%s", r.Status, r.XFF, r.Err)
	if !ok {
		ctx.Count("proxy/no-address-in-model")
		return
	}
	if r.Status != 200 || r.XFF != want {
		ctx.Disagree("full proxy: origin sees the advertised source in X-Forwarded-For", c, impl, fmt.Sprintf("status=200 xff=%q", want))
		spec := askSpec(ctx, c.Header)
		if spec.wf {
			ctx.SpecFail("RemoteAddr/LocalAddr are the header's source/destination (origin sees X-Forwarded-For = advertised source)", spec.class, c, impl, "want "+want)
		}
		return
	}
	ctx.TraceValidated()
}

func checkProxy(ctx *core.Ctx, c proxyCase) {
	// a header for which the model reports a nil address would take the child down: that is the crash case
	if _, ok := expectedXFF(ctx, c.Header+core.HexS("GET / HTTP/1.1\r\n\r\n")); !ok {
		checkProxyCrash(ctx, c)
		return
	}
	res, crashed, diag := proxyBatch([]string{c.Header})
	if crashed {
		ctx.Crash("no header, however unusual, crashes the process (full proxy)", askSpec(ctx, c.Header).class, c, diag)
		return
	}
	evalProxy(ctx, c, res[0])
}

// checkProxyCrash sends one header to the full proxy and then a well-formed request: the process
// must survive and keep serving.
func checkProxyCrash(ctx *core.Ctx, c proxyCase) {
	ctx.Case("proxy-crash:"+c.Header, true)
	ctx.Count("proxy/liveness")
	good := core.HexS("PROXY TCP4 1.2.3.4 5.6.7.8 1000 2000\r\n")
	res, crashed, diag := proxyBatch([]string{c.Header, good})
	spec := askSpec(ctx, c.Header)
	if crashed {
		ctx.Crash("no header, however unusual, crashes the process (full proxy: accept loop)", spec.class, c, diag)
		return
	}
	if res[1].Status != 200 || res[1].XFF != "1.2.3.4" {
		ctx.SpecFail("a bad header makes only that connection fail (the next connection is served)", spec.class, c, fmt.Sprintf("next connection: %+v", res[1]), "")
		return
	}
	ctx.TraceValidated()
}

var proxyHeaders = []string{
	"PROXY TCP4 1.2.3.4 5.6.7.8 1000 2000\r\n",
	"PROXY TCP4 255.255.255.255 255.255.255.255 65535 65535\r\n",
	"PROXY TCP6 2001:db8::68 2001:db8::1 40000 443\r\n",
	"PROXY TCP6 ::ffff:9.8.7.6 ::1 1 2\r\n",
	"PROXY UNKNOWN\r\n",
	"PROXY UNKNOWN ff:: 1 2 whatever\r\n",
	"\r\n\r\n\x00\r\nQUIT\n\x20\x00\x00\x00",
	"\r\n\r\n\x00\r\nQUIT\n\x21\x11\x00\x0c\x01\x02\x03\x04\x05\x06\x07\x08\x00\x50\x01\xbb",
	"\r\n\r\n\x00\r\nQUIT\n\x21\x21\x00\x27\x20\x01\x0d\xb8\x00\x00\x00\x00\x00\x00\x00\x00\x00\x00\x00\x01\x20\x01\x0d\xb8\x00\x00\x00\x00\x00\x00\x00\x00\x00\x00\x00\x02\xc0\x00\x01\xbb\x04\x00\x00",
	"\r\n\r\n\x00\r\nQUIT\n\x20\x11\x00\x0c\x01\x02\x03\x04\x05\x06\x07\x08\x00\x50\x01\xbb",
}

func runProxyCases(ctx *core.Ctx) {
	var cases []proxyCase
	for _, h := range proxyHeaders {
		cases = append(cases, proxyCase{Kind: "proxy", Header: core.HexS(h)})
	}
	for i, n := 0, ctx.N(4, 60); i < n; i++ {
		r := ctx.Rng.Sub()
		var h []byte
		if r.Bool() {
			k := core.Pick(r, []string{"TCP4", "TCP6"})
			a := genV4Text
			if k == "TCP6" {
				a = genV6Text
			}
			h = []byte(fmt.Sprintf("PROXY %s %s %s %d %d\r\n", k, a(r), a(r), r.Intn(65536), r.Intn(65536)))
		} else {
			fam := core.Pick(r, []byte{0x11, 0x21})
			n := 12
			if fam == 0x21 {
				n = 36
			}
			body := append(r.Bytes(n), genTLVs(r, 30)...)
			h = v2Header(0x21, fam, body, len(body))
		}
		cases = append(cases, proxyCase{Kind: "proxy", Header: core.Hex(h)})
	}
	// keep only headers the model accepts with an address (anything else belongs to the liveness case)
	var safe []proxyCase
	var hdrs []string
	for _, c := range cases {
		if _, ok := expectedXFF(ctx, c.Header+core.HexS("GET / HTTP/1.1\r\n\r\n")); ok {
			safe = append(safe, c)
			hdrs = append(hdrs, c.Header)
		}
	}
	ctx.Sample(safe[0])
	res, crashed, diag := proxyBatch(hdrs)
	if crashed {
		// find the culprit alone
		for _, c := range safe {
			checkProxy(ctx, c)
		}
		if ctx.NumFindings() == 0 {
			ctx.Crash("no header, however unusual, crashes the process (full proxy)", "", safe, diag)
		}
	} else {
		for i, c := range safe {
			evalProxy(ctx, c, res[i])
		}
	}
	// liveness: malformed header, then the F4 witness (command PROXY, family 0x00, two bytes)
	checkProxyCrash(ctx, proxyCase{Kind: "proxy-crash", Header: core.HexS("PROXY TCP4 1.2.3.4 5.6.7.8 1000\r\n")})
	checkProxyCrash(ctx, proxyCase{Kind: "proxy-crash", Header: core.HexS("\r\n\r\n\x00\r\nQUIT\n\x21\x00\x00\x02\x01\x02")})
}
