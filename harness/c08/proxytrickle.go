package c08

import (
	"bufio"
	"bytes"
	"context"
	"encoding/json"
	"fmt"
	"io"
	"net"
	"net/http"
	"os"
	"os/exec"
	"strings"
	"sync"
	"time"

	"github.com/saucelabs/forwarder"
	"github.com/saucelabs/forwarder/log"
	"github.com/saucelabs/forwarder/verifharness/core"
)

// Trickled headers through the full proxy (forwarder.NewHTTPProxy with ProxyProtocolConfig, in a child
// process like the other full-proxy cases): the accept loop's goroutine blocks in RemoteAddr() while
// the header trickles in; a header that is complete in time is served (X-Forwarded-For = advertised
// source), one that is not is cut off at the header timeout - the client sees the connection end
// without a response, not before the timeout and within the slack.

type ptrickleCase struct {
	Kind      string  `json:"kind"` // "ptrickle"
	Header    string  `json:"header_hex"`
	Steps     []tstep `json:"steps"` // pieces of the header; the HTTP request follows the last piece
	TimeoutMS int     `json:"timeout_ms"`
	Note      string  `json:"note,omitempty"`
}

type ptrickleIn struct {
	TimeoutMS int            `json:"timeout_ms"`
	LimitMS   int            `json:"limit_ms"` // per connection: the client gives up
	Cases     []ptrickleCase `json:"cases"`
}

type ptrickleResult struct {
	Status   int    `json:"status"`
	XFF      string `json:"xff"`
	Err      string `json:"err,omitempty"`
	EndMS    int    `json:"end_ms"`  // when the response / the end of the connection was seen, from just before the dial
	DialMS   int    `json:"dial_ms"` // how long the dial took
	SentMS   []int  `json:"sent_ms"` // when each piece was about to be written, from just after the dial
	GaveUp   bool   `json:"gave_up"` // the client's own limit passed
	NextOK   bool   `json:"next_ok"` // (last entry only) a well-formed connection after all of them was served
	NextInfo string `json:"next_info,omitempty"`
}

func childTrickle() {
	var in ptrickleIn
	if err := json.NewDecoder(os.Stdin).Decode(&in); err != nil {
		fmt.Fprintln(os.Stderr, "child: bad input:", err)
		os.Exit(3)
	}
	var mu sync.Mutex
	seen := map[string]string{}
	ol, err := net.Listen("tcp", "127.0.0.1:0")
	if err != nil {
		fmt.Fprintln(os.Stderr, "child: listen:", err)
		os.Exit(3)
	}
	go http.Serve(ol, http.HandlerFunc(func(w http.ResponseWriter, r *http.Request) {
		mu.Lock()
		seen[r.URL.Path] = strings.Join(r.Header.Values("X-Forwarded-For"), "|")
		mu.Unlock()
		w.Header().Set("Connection", "close")
		io.WriteString(w, "ok")
	}))
	cfg := forwarder.DefaultHTTPProxyConfig()
	cfg.Address = "127.0.0.1:0"
	cfg.ProxyProtocolConfig = &forwarder.ProxyProtocolConfig{ReadHeaderTimeout: time.Duration(in.TimeoutMS) * time.Millisecond}
	cfg.ProxyLocalhost = forwarder.AllowProxyLocalhost
	p, err := forwarder.NewHTTPProxy(cfg, nil, nil, nil, log.NopLogger, nil)
	if err != nil {
		fmt.Fprintln(os.Stderr, "child: NewHTTPProxy:", err)
		os.Exit(3)
	}
	ctx, cancel := context.WithCancel(context.Background())
	defer cancel()
	go p.Run(ctx)
	addrs, _ := p.Addr()
	limit := time.Duration(in.LimitMS) * time.Millisecond
	one := func(i int, header []byte, steps []tstep) ptrickleResult {
		var r ptrickleResult
		path := fmt.Sprintf("/t%d", i)
		req := fmt.Sprintf("GET http://%s%s HTTP/1.1\r\nHost: %s\r\nConnection: close\r\n\r\n", ol.Addr().String(), path, ol.Addr().String())
		tDial := time.Now()
		c, err := net.Dial("tcp", addrs[0])
		if err != nil {
			r.Err = "dial: " + err.Error()
			return r
		}
		defer c.Close()
		t0 := time.Now()
		r.DialMS = int(t0.Sub(tDial) / time.Millisecond)
		c.SetDeadline(t0.Add(limit))
		stop := make(chan struct{})
		var wg sync.WaitGroup
		sent := make([]int, len(steps))
		wg.Add(1)
		go func() {
			defer wg.Done()
			pieces := stepBytes(header, steps)
			for k, pc := range pieces {
				if d := time.Until(t0.Add(time.Duration(steps[k].AtMS) * time.Millisecond)); d > 0 {
					select {
					case <-stop:
						return
					case <-time.After(d):
					}
				}
				sent[k] = int(time.Since(t0) / time.Millisecond)
				if k == len(pieces)-1 {
					pc = append(append([]byte{}, pc...), req...)
				}
				if _, err := c.Write(pc); err != nil {
					return
				}
			}
		}()
		resp, err := http.ReadResponse(bufio.NewReader(c), nil)
		r.EndMS = int(time.Since(tDial) / time.Millisecond)
		if err != nil {
			r.Err = "response: " + err.Error()
			var ne net.Error
			if errorsAs(err, &ne) && ne.Timeout() {
				r.GaveUp = true
			}
		} else {
			r.Status = resp.StatusCode
			io.Copy(io.Discard, resp.Body)
			resp.Body.Close()
		}
		close(stop)
		c.Close()
		wg.Wait()
		r.SentMS = sent
		time.Sleep(30 * time.Millisecond)
		mu.Lock()
		r.XFF = seen[path]
		mu.Unlock()
		return r
	}
	out := make([]ptrickleResult, len(in.Cases))
	var wg sync.WaitGroup
	for i, cs := range in.Cases {
		wg.Add(1)
		go func() {
			defer wg.Done()
			h, _ := core.UnHex(cs.Header)
			out[i] = one(i, h, cs.Steps)
		}()
	}
	wg.Wait()
	if len(out) > 0 {
		// a connection after all of them: the proxy still serves
		g := []byte(goodHeader)
		r := one(len(in.Cases), g, []tstep{{AtMS: 0, N: len(g)}})
		out[len(out)-1].NextOK = r.Status == 200 && r.XFF == "1.2.3.4"
		out[len(out)-1].NextInfo = fmt.Sprintf("%+v", r)
	}
	json.NewEncoder(os.Stdout).Encode(out)
}

func errorsAs(err error, target *net.Error) bool {
	for err != nil {
		if ne, ok := err.(net.Error); ok {
			*target = ne
			return true
		}
		u, ok := err.(interface{ Unwrap() error })
		if !ok {
			return false
		}
		err = u.Unwrap()
	}
	return false
}

// proxyTrickleBatch runs the cases concurrently against one fresh proxy in a child process.
func proxyTrickleBatch(in ptrickleIn) (res []ptrickleResult, diag string) {
	exe, err := os.Executable()
	if err != nil {
		core.Fatalf("C08: os.Executable: %v", err)
	}
	b, _ := json.Marshal(in)
	cmd := exec.Command(exe)
	cmd.Env = append(os.Environ(), childEnv+"=trickle")
	cmd.Stdin = bytes.NewReader(b)
	var stdout, stderr bytes.Buffer
	cmd.Stdout, cmd.Stderr = &stdout, &stderr
	if err := cmd.Start(); err != nil {
		core.Fatalf("C08: cannot start child: %v", err)
	}
	done := make(chan error, 1)
	go func() { done <- cmd.Wait() }()
	select {
	case err = <-done:
	case <-time.After(time.Duration(in.LimitMS)*time.Millisecond*2 + 30*time.Second):
		cmd.Process.Kill()
		<-done
		return nil, "child did not finish (hang)"
	}
	if err != nil {
		if ee, ok := err.(*exec.ExitError); ok && ee.ExitCode() == 3 {
			core.Fatalf("C08: proxy child could not set itself up: %s", stderr.String())
		}
		d := stderr.String()
		if i := strings.Index(d, "panic:"); i >= 0 {
			d = d[i:]
		}
		if len(d) > 700 {
			d = d[:700]
		}
		return nil, fmt.Sprintf("child died (%v): %s", err, d)
	}
	if json.Unmarshal(bytes.TrimSpace(stdout.Bytes()), &res) != nil || len(res) != len(in.Cases) {
		core.Fatalf("C08: unreadable child output %q", stdout.String())
	}
	return res, ""
}

const relPTimed = "full proxy, trickled header: served (X-Forwarded-For = advertised source) iff Model.C08 readTimed .total accepts the header on the client's schedule; otherwise the connection ends without a response at the header timeout"

type pverdict struct {
	clause, detail, want string
	inconclusive         bool
	impl                 string
	model                string
}

func (v pverdict) failed() bool { return v.clause != "" || v.want != "" }

func judgeProxyTrickle(ctx *core.Ctx, c ptrickleCase, r ptrickleResult) pverdict {
	h := core.MustUnHex(c.Header)
	sched := schedText(h, c.Steps)
	m := askTimed(ctx, "total", c.TimeoutMS, "-", sched)
	perRead := askTimed(ctx, "perread", c.TimeoutMS, "-", sched)
	v := pverdict{model: m.kind}
	v.impl = fmt.Sprintf("status=%d xff=%q err=%s end=%dms dial=%dms client-wrote-at=%v client-gave-up=%v", r.Status, r.XFF, r.Err, r.EndMS, r.DialMS, r.SentMS, r.GaveUp)
	like := ""
	if perRead.kind != m.kind {
		like = fmt.Sprintf(" (a deadline re-armed at every read - Model.C08 readTimed .perRead - answers %s at %d ms)", perRead.kind, perRead.t)
	}
	slackMS := int(stallSlack / time.Millisecond)
	switch m.kind {
	case "timedout":
		switch {
		case r.Status != 0:
			v.want = "no response: timed out at " + core.Itoa(m.t) + " ms"
			v.clause = "a late header makes the connection fail no later than the header timeout (served although the header's last byte arrived after the deadline)"
			v.detail = "deadline " + core.Itoa(c.TimeoutMS) + " ms" + like
		case r.GaveUp || r.EndMS > r.DialMS+c.TimeoutMS+slackMS:
			v.want = "connection ended at " + core.Itoa(m.t) + " ms"
			v.clause = "a late header makes the connection fail no later than the header timeout (not cut off within header timeout + slack)"
			v.detail = fmt.Sprintf("deadline %d ms, slack %d ms%s", c.TimeoutMS, slackMS, like)
		case r.EndMS < c.TimeoutMS:
			v.clause = "the header read is not cut off before the header timeout"
			v.detail = fmt.Sprintf("connection ended %d ms after the dial began, deadline %d ms", r.EndMS, c.TimeoutMS)
		}
	case "accepted":
		want, ok := hostOf(m.remote)
		if r.Status != 200 || !ok || r.XFF != want {
			// our own client late?  (the completing piece is the last one)
			if n := len(r.SentMS); r.Status == 0 && n > 0 && r.SentMS[n-1]+int(trickleGuard/time.Millisecond) > c.TimeoutMS {
				v.inconclusive = true
				return v
			}
			v.want = fmt.Sprintf("status=200 xff=%q", want)
			v.clause = "the header read is not cut off before the header timeout (a header complete before the deadline is served, origin sees X-Forwarded-For = advertised source)"
			v.detail = "want " + want
		}
	default:
		if r.Status != 0 {
			v.want = "no response (" + m.kind + ")"
		}
	}
	return v
}

func fileProxyTrickle(ctx *core.Ctx, c ptrickleCase, v pverdict) {
	ctx.Case(fmt.Sprintf("ptrickle:%s|%v|%d", c.Header, c.Steps, c.TimeoutMS), true)
	ctx.Count("ptrickle/cases")
	if c.Note != "" {
		ctx.Count("ptrickle/gen/" + c.Note)
	}
	ctx.Count("ptrickle/model/" + v.model)
	switch {
	case v.inconclusive:
		ctx.Count("ptrickle/inconclusive")
	case v.failed():
		if v.want != "" {
			ctx.Disagree(relPTimed, c, v.impl, v.want)
		}
		if v.clause != "" {
			ctx.SpecFail(v.clause, "", c, v.impl, v.detail)
		}
	default:
		ctx.TraceValidated()
	}
}

// checkProxyTrickle runs the cases concurrently through one fresh full proxy; the ones that fail are
// run again (a failure counts when it shows trickleTries times).
func checkProxyTrickle(ctx *core.Ctx, cs []ptrickleCase) {
	for try := 1; len(cs) > 0; try++ {
		in := ptrickleIn{TimeoutMS: cs[0].TimeoutMS, LimitMS: cs[0].TimeoutMS + int(stallSlack/time.Millisecond) + 500, Cases: cs}
		for _, c := range cs {
			for _, s := range c.Steps {
				if s.AtMS < c.TimeoutMS+200 {
					in.LimitMS = max(in.LimitMS, s.AtMS+int(stallSlack/time.Millisecond)+500)
				}
			}
		}
		res, diag := proxyTrickleBatch(in)
		if diag != "" {
			ctx.Crash("no header, however unusual, crashes the process (full proxy, trickled headers)", "", cs, diag)
			return
		}
		var again []ptrickleCase
		for i, c := range cs {
			v := judgeProxyTrickle(ctx, c, res[i])
			if (v.failed() || v.inconclusive) && try < trickleTries {
				again = append(again, c)
				continue
			}
			if try > 1 && !v.failed() && !v.inconclusive {
				ctx.Count("ptrickle/passed-on-repetition")
			}
			fileProxyTrickle(ctx, c, v)
		}
		last := res[len(res)-1]
		ctx.Case(fmt.Sprintf("ptrickle-liveness:%d:%s", try, cs[0].Header), true)
		if !last.NextOK {
			ctx.SpecFail("a header makes only its own connection fail (the next connection is served)", "", cs, "connection after the batch: "+last.NextInfo, "")
		} else {
			ctx.TraceValidated()
		}
		cs = again
	}
}

func genProxyTrickleCases(r *core.Rand, quick bool) []ptrickleCase {
	const T = trickleTimeoutMS
	var out []ptrickleCase
	hs := trickleHeaders(r, 0)
	for i, h := range hs {
		if strings.HasPrefix(h.name, "v2-local") && quick {
			continue
		}
		n := len(h.b)
		a, b := h.offs[(i*3)%len(h.offs)], h.offs[len(h.offs)-1-(i%3)]
		if a >= b {
			a, b = h.offs[0], h.offs[len(h.offs)-1]
		}
		add := func(steps []tstep, note string) {
			out = append(out, ptrickleCase{Kind: "ptrickle", Header: core.Hex(h.b), Steps: steps, TimeoutMS: T, Note: note})
		}
		add(cutSteps(n, []int{a, b}, []int{0, T * 2 / 3, T * 4 / 3}), "two-pauses/late")
		add(cutSteps(n, []int{a, b}, []int{0, T / 4, T / 2}), "two-pauses/in-time")
		if !quick || i%3 == 0 {
			var steps []tstep
			for pos, t := 0, 0; pos < n && t <= 10*T; pos, t = pos+1, t+100 {
				steps = append(steps, tstep{AtMS: t, N: 1})
			}
			add(steps, "uniform/1B-every-100ms")
			add(cutSteps(n, []int{b}, []int{0, T + 120}), "one-pause/late")
		}
	}
	return out
}
