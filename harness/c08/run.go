package c08

import (
	"bytes"
	"context"
	"errors"
	"fmt"
	"io"
	"net"
	"os"
	"strings"
	"sync"
	"time"

	"github.com/saucelabs/forwarder/proxyproto"
	"github.com/saucelabs/forwarder/verifharness/core"
)

// ---------------------------------------------------------------------------------------------
// listeners under the code under test
// ---------------------------------------------------------------------------------------------

// pipeListener hands out the server ends of net.Pipe pairs.
type pipeListener struct {
	ch     chan net.Conn
	closed chan struct{}
	once   sync.Once
}

func newPipeListener() *pipeListener {
	return &pipeListener{ch: make(chan net.Conn, 1), closed: make(chan struct{})}
}

func (p *pipeListener) Accept() (net.Conn, error) {
	select {
	case c := <-p.ch:
		return c, nil
	case <-p.closed:
		return nil, net.ErrClosed
	}
}
func (p *pipeListener) Close() error   { p.once.Do(func() { close(p.closed) }); return nil }
func (p *pipeListener) Addr() net.Addr { return pipeAddr{} }

type pipeAddr struct{}

func (pipeAddr) Network() string { return "pipe" }
func (pipeAddr) String() string  { return "pipe" }

// tapListener remembers the raw accepted connection (the socket whose addresses are the fallback).
type tapListener struct {
	net.Listener
	raw net.Conn
}

func (t *tapListener) Accept() (net.Conn, error) {
	c, err := t.Listener.Accept()
	t.raw = c
	return c, err
}

// ---------------------------------------------------------------------------------------------
// canonical forms
// ---------------------------------------------------------------------------------------------

func encIPPort(kind string, ip net.IP, port int) string {
	return fmt.Sprintf("%s:%s:%d", kind, core.Hex([]byte(ip)), port)
}

// canonAddr renders what LocalAddr/RemoteAddr returned: "nil", "sock" (= the socket's own
// address) or family:iphex:port. Never dereferences a nil address.
func canonAddr(a net.Addr, sock net.Addr) (s string) {
	defer func() {
		if p := recover(); p != nil {
			s = fmt.Sprintf("panic:%v", p)
		}
	}()
	if a == nil {
		return "nil"
	}
	switch v := a.(type) {
	case *net.TCPAddr:
		if v == nil {
			return "nil"
		}
		if sock != nil && sock.Network() == "tcp" && sock.String() == v.String() {
			return "sock"
		}
		return encIPPort("tcp", v.IP, v.Port)
	case *net.UDPAddr:
		if v == nil {
			return "nil"
		}
		return encIPPort("udp", v.IP, v.Port)
	}
	if sock != nil && a.Network() == sock.Network() && a.String() == sock.String() {
		return "sock"
	}
	return "other:" + a.Network() + ":" + a.String()
}

func encHdrAddr(a net.Addr) string {
	if a == nil {
		return "nil"
	}
	switch v := a.(type) {
	case *net.TCPAddr:
		if v == nil {
			return "nil"
		}
		return encIPPort("tcp", v.IP, v.Port)
	case *net.UDPAddr:
		if v == nil {
			return "nil"
		}
		return encIPPort("udp", v.IP, v.Port)
	}
	return "other"
}

func encHeader(h *proxyproto.Header) string {
	return fmt.Sprintf("v=%d local=%s src=%s dst=%s tlv=%s unk=%s", h.Version, core.B01(h.IsLocal), encHdrAddr(h.Source), encHdrAddr(h.Destination),
		core.Hex(h.RawTLVs), core.Hex(h.Unknown))
}

// errClass maps a header-read error to the enum compared with the model: "short" = the stream
// ended or stalled inside the header, "refused" = anything else.
func errClass(err error) string {
	if err == nil {
		return "none"
	}
	if errors.Is(err, io.EOF) || errors.Is(err, io.ErrUnexpectedEOF) || errors.Is(err, context.DeadlineExceeded) ||
		errors.Is(err, io.ErrClosedPipe) || strings.Contains(err.Error(), "expected to read more bytes") {
		return "short"
	}
	var ne net.Error
	if errors.As(err, &ne) && ne.Timeout() {
		return "short"
	}
	return "refused"
}

// modelParts splits the model's `read` answer "head | ra=.. la=.. | detail".
func modelParts(ans string) (head, addrs, detail string) {
	p := strings.SplitN(ans, " | ", 3)
	for len(p) < 3 {
		p = append(p, "")
	}
	head = p[0]
	if strings.HasPrefix(head, "err ") {
		if head == "err short" {
			head = "err short"
		} else {
			head = "err refused"
		}
	}
	return head, p[1], p[2]
}

// ---------------------------------------------------------------------------------------------
// direct ReadHeader (also the pre-flight that keeps a panicking reader out of foreign goroutines)
// ---------------------------------------------------------------------------------------------

type directObs struct {
	head   string // "ok consumed=.. rest=.." | "err short|refused" | "panic …"
	detail string
}

func directRead(stream []byte, oneByte bool) (o directObs) {
	defer func() {
		if p := recover(); p != nil {
			o = directObs{head: fmt.Sprintf("panic %v", p)}
		}
	}()
	br := bytes.NewReader(stream)
	var rd io.Reader = br
	if oneByte {
		rd = oneByteReader{br}
	}
	h, err := proxyproto.ReadHeader(rd)
	if err != nil {
		return directObs{head: "err " + errClass(err)}
	}
	if h == nil {
		return directObs{head: "nil-header-without-error"}
	}
	rest := stream[len(stream)-br.Len():]
	return directObs{head: fmt.Sprintf("ok consumed=%d rest=%s", len(stream)-len(rest), core.Hex(rest)), detail: encHeader(h)}
}

type oneByteReader struct{ r io.Reader }

func (o oneByteReader) Read(p []byte) (int, error) {
	if len(p) == 0 {
		return 0, nil
	}
	return o.r.Read(p[:1])
}

// ---------------------------------------------------------------------------------------------
// one connection through proxyproto.Listener
// ---------------------------------------------------------------------------------------------

type connObs struct {
	accepted bool
	errClass string
	remote   string
	local    string
	payload  []byte
	detail   string // header fields when *proxyproto.Conn is reachable
	problem  string // hang / unexpected machinery condition
	wrote    bool   // peer received what the server wrote
}

const connDeadline = 6 * time.Second

func segments(b []byte, cuts []int) [][]byte {
	var out [][]byte
	prev := 0
	for _, c := range cuts {
		if c > prev && c < len(b) {
			out = append(out, b[prev:c])
			prev = c
		}
	}
	return append(out, b[prev:])
}

// runConn sends stream (cut at cuts) to a fresh proxyproto.Listener and reports what the
// application side saw.
func runConn(cc connCase, stream []byte) connObs {
	var o connObs
	var inner net.Listener
	var pl *pipeListener
	if cc.Via == "pipe" {
		pl = newPipeListener()
		inner = pl
	} else {
		l, err := net.Listen("tcp", "127.0.0.1:0")
		if err != nil {
			core.Fatalf("C08: listen: %v", err)
		}
		inner = l
	}
	tap := &tapListener{Listener: inner}
	lst := &proxyproto.Listener{Listener: tap, ReadHeaderTimeout: 3 * time.Second, TestingSkipConnfu: !cc.Connfu}
	defer lst.Close()

	// peer
	var peer net.Conn
	if pl != nil {
		a, b := net.Pipe()
		peer = a
		pl.ch <- b
	} else {
		c, err := net.Dial("tcp", inner.Addr().String())
		if err != nil {
			core.Fatalf("C08: dial: %v", err)
		}
		peer = c
	}
	defer peer.Close()
	peer.SetDeadline(time.Now().Add(connDeadline))

	conn, err := lst.Accept()
	if err != nil {
		core.Fatalf("C08: accept: %v", err)
	}
	defer conn.Close()
	conn.SetDeadline(time.Now().Add(connDeadline))
	raw := tap.raw
	// the deadline set above belongs to the implementation once it is handed the connection (it may
	// re-arm or clear it): the harness's own bound on every wait below is the guard
	g := newGuard(connDeadline+500*time.Millisecond, raw, peer)
	defer g.stop()

	peerDone := make(chan []byte, 1)
	go func() {
		for i, seg := range segments(stream, cc.Cuts) {
			if i > 0 && cc.GapUS > 0 {
				time.Sleep(time.Duration(cc.GapUS) * time.Microsecond)
			}
			if len(seg) == 0 {
				continue
			}
			if _, err := peer.Write(seg); err != nil {
				break
			}
		}
		var back []byte
		if tc, ok := peer.(*net.TCPConn); ok {
			tc.CloseWrite()
			back, _ = io.ReadAll(peer)
		} else {
			peer.Close()
		}
		peerDone <- back
	}()

	readAll := func() {
		buf := make([]byte, 1+int(cc.BufLen))
		for {
			n, err := conn.Read(buf)
			o.payload = append(o.payload, buf[:n]...)
			if err != nil {
				if err == io.EOF {
					o.accepted = true
				} else {
					o.errClass = errClass(err)
					var ne net.Error
					if errors.As(err, &ne) && ne.Timeout() && !strings.Contains(err.Error(), "header read timeout") {
						o.problem = "hang: read deadline of the harness expired: " + err.Error()
					}
					if g.fired.Load() {
						o.problem = "hang: still waiting when the harness closed the sockets at its deadline: " + err.Error()
					}
				}
				return
			}
		}
	}
	addrs := func() {
		o.remote = canonAddr(conn.RemoteAddr(), raw.RemoteAddr())
		o.local = canonAddr(conn.LocalAddr(), raw.LocalAddr())
	}
	switch cc.First {
	case "addr":
		addrs()
		readAll()
	case "write":
		if cc.Via == "tcp" {
			conn.Write([]byte("pong"))
			o.wrote = true
		}
		readAll()
		addrs()
	default:
		readAll()
		addrs()
	}
	// asking again must give the same answer
	if r2 := canonAddr(conn.RemoteAddr(), raw.RemoteAddr()); r2 != o.remote {
		o.problem = "RemoteAddr changed between calls: " + o.remote + " then " + r2
	}
	if pc, ok := conn.(*proxyproto.Conn); ok {
		h, herr := pc.Header()
		if herr == nil {
			o.detail = encHeader(&h)
		}
		if (herr == nil) != o.accepted && o.problem == "" {
			o.problem = fmt.Sprintf("Header() error %v but Read accepted=%v", herr, o.accepted)
		}
	}
	conn.Close()
	select {
	case back := <-peerDone:
		if o.wrote && o.accepted && string(back) != "pong" {
			o.problem = fmt.Sprintf("peer received %q instead of what the server wrote", back)
		}
	case <-time.After(connDeadline):
		o.problem = "hang: peer did not finish"
	}
	return o
}

func (o connObs) head(total int) string {
	if o.accepted {
		return fmt.Sprintf("ok consumed=%d rest=%s", total-len(o.payload), core.Hex(o.payload))
	}
	return "err " + o.errClass
}

// ---------------------------------------------------------------------------------------------
// stalled peer
// ---------------------------------------------------------------------------------------------

type stallObs struct {
	elapsed    time.Duration
	errClass   string
	failed     bool // the header read failed (timeout / EOF / refused)
	accepted   bool // the header was accepted; the application is waiting for payload
	remote     string
	peerClosed bool
	peerWait   time.Duration
}

const stallSlack = 1500 * time.Millisecond

func runStall(sc stallCase, prefix []byte) stallObs {
	var o stallObs
	l, err := net.Listen("tcp", "127.0.0.1:0")
	if err != nil {
		core.Fatalf("C08: listen: %v", err)
	}
	tap := &tapListener{Listener: l}
	to := time.Duration(sc.TimeoutMS) * time.Millisecond
	lst := &proxyproto.Listener{Listener: tap, ReadHeaderTimeout: to, TestingSkipConnfu: !sc.Connfu}
	defer lst.Close()
	peer, err := net.Dial("tcp", l.Addr().String())
	if err != nil {
		core.Fatalf("C08: dial: %v", err)
	}
	defer peer.Close()
	conn, err := lst.Accept()
	if err != nil {
		core.Fatalf("C08: accept: %v", err)
	}
	defer conn.Close()
	if len(prefix) > 0 {
		peer.Write(prefix)
	}
	// the harness's own deadline: past it the call is still waiting (for payload, if the header was accepted)
	conn.SetDeadline(time.Now().Add(to + stallSlack))
	// ... which the implementation may re-arm or clear; the guard is the harness's own bound
	g := newGuard(to+stallSlack+300*time.Millisecond, tap.raw, peer)
	defer g.stop()
	t0 := time.Now()
	buf := make([]byte, 64)
	var rerr error
	if sc.Via == "addr" {
		// the accept loop's way in: RemoteAddr blocks for the header
		a := conn.RemoteAddr()
		o.elapsed = time.Since(t0)
		o.remote = canonAddr(a, tap.raw.RemoteAddr())
		_, rerr = conn.Read(buf)
	} else {
		_, rerr = conn.Read(buf)
		o.elapsed = time.Since(t0)
		o.remote = canonAddr(conn.RemoteAddr(), tap.raw.RemoteAddr())
	}
	o.errClass = errClass(rerr)
	waiting := rerr != nil && (errors.Is(rerr, os.ErrDeadlineExceeded) && !errors.Is(rerr, context.DeadlineExceeded) || g.fired.Load())
	if pc, ok := conn.(*proxyproto.Conn); ok {
		_, herr := pc.Header()
		o.accepted = herr == nil
		o.failed = herr != nil && !(waiting && strings.Contains(herr.Error(), "i/o timeout"))
	} else {
		// behind connfu the header is not reachable: data delivered, or still waiting at the
		// harness's deadline, counts as accepted (the *Conn cases tell the two waits apart)
		o.accepted = rerr == nil || waiting
		o.failed = rerr != nil && !waiting
	}
	if !o.failed {
		return o
	}
	// the timeout closes the connection: the peer must see EOF/reset without the application closing
	t1 := time.Now()
	peer.SetReadDeadline(time.Now().Add(2 * time.Second))
	_, perr := peer.Read(buf)
	o.peerWait = time.Since(t1)
	var ne net.Error
	o.peerClosed = perr != nil && !(errors.As(perr, &ne) && ne.Timeout())
	return o
}

// ---------------------------------------------------------------------------------------------
// concurrent callers on one connection
// ---------------------------------------------------------------------------------------------

type concObs struct {
	remotes []string
	locals  []string
	payload []byte
	readErr string
	details []string
	back    []byte
	problem string
}

func runConc(cc concCase, stream []byte) concObs {
	var o concObs
	l, err := net.Listen("tcp", "127.0.0.1:0")
	if err != nil {
		core.Fatalf("C08: listen: %v", err)
	}
	tap := &tapListener{Listener: l}
	lst := &proxyproto.Listener{Listener: tap, ReadHeaderTimeout: 3 * time.Second, TestingSkipConnfu: true}
	defer lst.Close()
	peer, err := net.Dial("tcp", l.Addr().String())
	if err != nil {
		core.Fatalf("C08: dial: %v", err)
	}
	defer peer.Close()
	peer.SetDeadline(time.Now().Add(connDeadline))
	conn, err := lst.Accept()
	if err != nil {
		core.Fatalf("C08: accept: %v", err)
	}
	defer conn.Close()
	conn.SetDeadline(time.Now().Add(connDeadline))
	raw := tap.raw
	pc := conn.(*proxyproto.Conn)

	var mu sync.Mutex
	var wg sync.WaitGroup
	start := make(chan struct{})
	note := func(r, l, d string) {
		mu.Lock()
		if r != "" {
			o.remotes = append(o.remotes, r)
		}
		if l != "" {
			o.locals = append(o.locals, l)
		}
		if d != "" {
			o.details = append(o.details, d)
		}
		mu.Unlock()
	}
	wg.Add(4)
	go func() { // reader
		defer wg.Done()
		<-start
		buf := make([]byte, 7)
		for {
			n, err := conn.Read(buf)
			mu.Lock()
			o.payload = append(o.payload, buf[:n]...)
			mu.Unlock()
			if err != nil {
				if err != io.EOF {
					mu.Lock()
					o.readErr = errClass(err)
					mu.Unlock()
				}
				return
			}
		}
	}()
	go func() { // writer
		defer wg.Done()
		<-start
		conn.Write([]byte("pong"))
		note(canonAddr(conn.RemoteAddr(), raw.RemoteAddr()), "", "")
	}()
	go func() {
		defer wg.Done()
		<-start
		for i := 0; i < 3; i++ {
			note(canonAddr(conn.RemoteAddr(), raw.RemoteAddr()), canonAddr(conn.LocalAddr(), raw.LocalAddr()), "")
		}
	}()
	go func() {
		defer wg.Done()
		<-start
		note("", canonAddr(conn.LocalAddr(), raw.LocalAddr()), "")
		if h, err := pc.Header(); err == nil {
			note("", "", encHeader(&h))
		} else {
			note("", "", "err "+errClass(err))
		}
		note(canonAddr(conn.RemoteAddr(), raw.RemoteAddr()), "", "")
	}()
	close(start)
	time.Sleep(2 * time.Millisecond) // let the callers pile up on the header read
	for i, seg := range segments(stream, cc.Cuts) {
		if i > 0 {
			time.Sleep(time.Duration(cc.GapUS) * time.Microsecond)
		}
		if len(seg) > 0 {
			peer.Write(seg)
		}
	}
	peer.(*net.TCPConn).CloseWrite()
	done := make(chan struct{})
	go func() { wg.Wait(); close(done) }()
	select {
	case <-done:
	case <-time.After(connDeadline + time.Second):
		o.problem = "hang: concurrent callers did not return"
		return o
	}
	conn.Close()
	o.back, _ = io.ReadAll(peer)
	return o
}
