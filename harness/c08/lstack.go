package c08

import (
	"bytes"
	"crypto/tls"
	"errors"
	"fmt"
	"io"
	"net"
	"strings"
	"sync"
	"sync/atomic"
	"time"

	"github.com/saucelabs/forwarder"
	"github.com/saucelabs/forwarder/verifharness/core"
	"github.com/saucelabs/forwarder/verifharness/rig"
)

// lstack.go drives forwarder.Listener - the product's own stacking of an accepted socket (net.go
// Listen/Accept: TCP, PROXY protocol, bandwidth limiter, connection tracker, TLS) - in every combination
// {plain, TLS} x {no limit, read limit, write limit, both} x {traffic tracking off, on}, with the
// listener-wide token buckets in DEBT: a load connection of the same listener has just moved the whole
// burst plus DebtMS worth of the configured rate in every limited direction.  Then
//
//	(a) a new connection sends a well-formed v1/v2 header and its payload at once: the header must be
//	    accepted with the advertised addresses and the payload delivered - throttled is fine, lost or
//	    timed out is not (Model/C08Stack.lean: nothing is below the PROXY layer in the product's order,
//	    Theorems (h): c08_header_not_rate_limited, c08_stack_wellformed_accepted_despite_debt);
//	(b) another new connection sends part of a header and stalls: it must fail at the header timeout
//	    (c08_stack_timeout_enforced).
//
// Every wait is bounded by the case's own deadlines.  A failure is filed when it shows lstackTries
// times in a row.

type lstackCase struct {
	Kind       string `json:"kind"` // "lstack"
	TLS        bool   `json:"tls"`
	ReadLimit  int    `json:"read_limit"`  // bytes/s the peers may read (the listener's tx bucket); 0 = none
	WriteLimit int    `json:"write_limit"` // bytes/s the peers may write (the rx bucket, the one reads wait in); 0 = none
	Track      bool   `json:"track_traffic"`
	HeaderMS   int    `json:"proxy_header_timeout_ms"`
	DebtMS     int    `json:"limiter_debt_ms"` // how far beyond the burst the load connection goes, in time at the configured rate
	Header     string `json:"header_hex"`
	Payload    string `json:"payload_hex"`
	StallAt    int    `json:"stall_at"` // the stalling connection sends this many bytes of the header (-1: no such connection)
	Note       string `json:"note,omitempty"`
}

const (
	relStack     = "forwarder.Listener, limiter in debt: header read of a new connection = Model.C08 stackRead (productStack cfg) (accepted at once with the advertised addresses, payload = unread rest; a stalled header times out)"
	relStackLoad = "forwarder.Listener, limiter in debt: the payload of the new connection is throttled by the debt the load connection left in the listener-wide bucket (Model.C08 throttle)"
	lstackBurst  = 4 << 20 // ratelimit.defaultMaxBurstSize: the burst of every limit below 256 MiB/s
	lstackTries  = 3
	loadHeader   = "PROXY TCP4 10.9.8.7 10.6.5.4 999 888\r\n"
)

var (
	lstackTLSOnce sync.Once
	lstackTLSSrv  *tls.Config
	lstackTLSCli  *tls.Config
	lstackTLSErr  error
)

func lstackTLS() (*tls.Config, *tls.Config, error) {
	lstackTLSOnce.Do(func() {
		ca, err := rig.NewCA("verif c08 stack CA")
		if err != nil {
			lstackTLSErr = err
			return
		}
		leaf, err := ca.ValidLeaf("127.0.0.1")
		if err != nil {
			lstackTLSErr = err
			return
		}
		lstackTLSSrv = &tls.Config{Certificates: []tls.Certificate{leaf}}
		lstackTLSCli = &tls.Config{RootCAs: ca.Pool(), ServerName: "127.0.0.1"}
	})
	return lstackTLSSrv, lstackTLSCli, lstackTLSErr
}

// rawCounter counts the raw bytes (below TLS) the harness's end of a connection sends and receives.
type rawCounter struct {
	net.Conn
	rx, tx atomic.Int64
}

func (c *rawCounter) Read(p []byte) (int, error) {
	n, err := c.Conn.Read(p)
	c.rx.Add(int64(n))
	return n, err
}

func (c *rawCounter) Write(p []byte) (int, error) {
	n, err := c.Conn.Write(p)
	c.tx.Add(int64(n))
	return n, err
}

type lenv struct {
	c   lstackCase
	l   *forwarder.Listener
	cli *tls.Config
}

func newLEnv(c lstackCase) (*lenv, error) {
	e := &lenv{c: c}
	e.l = &forwarder.Listener{
		ListenerConfig: forwarder.ListenerConfig{
			Address:             "127.0.0.1:0",
			TrackTraffic:        c.Track,
			ProxyProtocolConfig: &forwarder.ProxyProtocolConfig{ReadHeaderTimeout: time.Duration(c.HeaderMS) * time.Millisecond},
			ReadLimit:           forwarder.SizeSuffix(c.ReadLimit),
			WriteLimit:          forwarder.SizeSuffix(c.WriteLimit),
		},
	}
	if c.TLS {
		srv, cli, err := lstackTLS()
		if err != nil {
			core.Fatalf("C08: stack TLS material: %v", err)
		}
		e.l.TLSConfig, e.cli = srv, cli
	}
	if err := e.l.Listen(); err != nil {
		return nil, err
	}
	return e, nil
}

// pair: the harness dials, writes `first` raw (the PROXY header and what the case sends with it) and
// accepts; one pair at a time per listener, so the accepted connection is the dialled one.
func (e *lenv) pair(first []byte) (net.Conn, *rawCounter, error) {
	c, err := net.DialTimeout("tcp", e.l.Addr().String(), 5*time.Second)
	if err != nil {
		return nil, nil, err
	}
	raw := &rawCounter{Conn: c}
	if len(first) > 0 {
		if _, err := c.Write(first); err != nil {
			c.Close()
			return nil, nil, err
		}
	}
	type acc struct {
		c   net.Conn
		err error
	}
	ch := make(chan acc, 1)
	go func() { s, err := e.l.Accept(); ch <- acc{s, err} }()
	select {
	case a := <-ch:
		if a.err != nil {
			c.Close()
			return nil, nil, a.err
		}
		return a.c, raw, nil
	case <-time.After(5 * time.Second):
		c.Close()
		return nil, nil, errors.New("Accept did not return within 5 s of a connection being established")
	}
}

func waitFor(d time.Duration, cond func() bool) bool {
	end := time.Now().Add(d)
	for !cond() {
		if time.Now().After(end) {
			return false
		}
		time.Sleep(200 * time.Microsecond)
	}
	return true
}

// loadObs: what the load connection left behind.
type loadObs struct {
	rxDebt, txDebt time.Duration // lower bounds of the buckets' debts at `at` (from the raw bytes moved and the time it took)
	at             time.Time
	problem        string
}

// load puts every configured bucket of the listener into debt through one connection: the whole burst
// (less a few hundred bytes) without a wait, then one more piece worth DebtMS of the rate, which the
// product reads / writes in one call and so reserves at once.
func (e *lenv) load() (stop func(), o loadObs) {
	c := e.c
	srv, raw, err := e.pair([]byte(loadHeader))
	if err != nil {
		return func() {}, loadObs{problem: "load connection: " + err.Error()}
	}
	var pc net.Conn = raw
	if c.TLS {
		pc = tls.Client(raw, e.cli)
	}
	stop = func() { pc.Close(); raw.Close(); srv.Close() }
	limit := time.Now().Add(12 * time.Second)
	srv.SetDeadline(limit)
	raw.SetDeadline(limit)
	tStart := time.Now()

	var srvRead, peerRead atomic.Int64
	sink := func(c net.Conn, n *atomic.Int64) {
		buf := make([]byte, 128<<10)
		for {
			k, err := c.Read(buf)
			n.Add(int64(k))
			if err != nil {
				return
			}
		}
	}
	go sink(srv, &srvRead)
	go sink(pc, &peerRead)

	const target = lstackBurst - 256
	step := func(moved int64) int {
		rem := target - moved
		if rem < 256 {
			return 0
		}
		n := rem * 9 / 10
		if n > 32<<10 {
			n = 32 << 10
		}
		return int(n)
	}
	zeros := make([]byte, 32<<10)
	var peerSent, srvSent int64
	if c.WriteLimit > 0 {
		for {
			n := step(raw.tx.Load()) // the PROXY header was written below the counter
			if n == 0 {
				break
			}
			if _, err := pc.Write(zeros[:n]); err != nil {
				return stop, loadObs{problem: "load connection, peer write: " + err.Error()}
			}
			peerSent += int64(n)
		}
		if !waitFor(5*time.Second, func() bool { return srvRead.Load() == peerSent }) {
			return stop, loadObs{problem: fmt.Sprintf("load connection: the server side read %d of the %d bytes sent within the burst in 5 s", srvRead.Load(), peerSent)}
		}
	}
	if c.ReadLimit > 0 {
		for {
			if !waitFor(5*time.Second, func() bool { return peerRead.Load() == srvSent }) {
				return stop, loadObs{problem: fmt.Sprintf("load connection: the peer received %d of the %d bytes written within the burst in 5 s", peerRead.Load(), srvSent)}
			}
			n := step(raw.rx.Load())
			if n == 0 {
				break
			}
			if _, err := srv.Write(zeros[:n]); err != nil {
				return stop, loadObs{problem: "load connection, server write: " + err.Error()}
			}
			srvSent += int64(n)
		}
	}
	// the piece that crosses the burst: one write of at most 16000 bytes = one TLS record = one segment
	piece := func(limit int) int {
		n := limit*c.DebtMS/1000 + 512
		if n > 16000 {
			n = 16000
		}
		return n
	}
	if c.WriteLimit > 0 {
		if _, err := pc.Write(zeros[:piece(c.WriteLimit)]); err != nil {
			return stop, loadObs{problem: "load connection, peer write: " + err.Error()}
		}
	}
	var txPiece int
	if c.ReadLimit > 0 {
		txPiece = piece(c.ReadLimit)
		go srv.Write(zeros[:txPiece]) // returns when the bucket has paid
	}
	time.Sleep(40 * time.Millisecond) // the blocked Read of the server side picks the piece up and reserves for it
	if c.ReadLimit > 0 && !waitFor(2*time.Second, func() bool { return peerRead.Load() == srvSent+int64(txPiece) }) {
		return stop, loadObs{problem: "load connection: the piece beyond the burst did not reach the peer in 2 s"}
	}
	o.at = time.Now()
	el := o.at.Sub(tStart)
	debt := func(moved int64, limit int) time.Duration {
		d := time.Duration(float64(moved-lstackBurst)/float64(limit)*float64(time.Second)) - el
		if d < 0 {
			d = 0
		}
		return d
	}
	if c.WriteLimit > 0 {
		o.rxDebt = debt(raw.tx.Load(), c.WriteLimit)
	}
	if c.ReadLimit > 0 {
		o.txDebt = debt(raw.rx.Load(), c.ReadLimit)
	}
	return stop, o
}

// lstackObs: what the two connections of a case did.
type lstackObs struct {
	accepted  bool
	remote    string
	local     string
	payload   []byte
	addrMS    int64
	payloadMS int64
	readErr   string
	ponged    bool

	stallRan     bool
	stallFailed  bool
	stallRemote  string
	stallMS      int64
	stallClosed  bool
	stallReadErr string

	rxDebt, txDebt time.Duration
	problem        string // machinery / liveness
	loadSlow       bool
}

func (o lstackObs) String() string {
	s := fmt.Sprintf("accepted=%v ra=%s la=%s rest=%s (addresses after %d ms, payload after %d ms", o.accepted, o.remote, o.local, core.Hex(o.payload), o.addrMS, o.payloadMS)
	if o.readErr != "" {
		s += ", read: " + o.readErr
	}
	s += fmt.Sprintf("; rx bucket in debt for >= %d ms, tx bucket for >= %d ms)", o.rxDebt.Milliseconds(), o.txDebt.Milliseconds())
	if o.stallRan {
		s += fmt.Sprintf(" | stalled peer: failed=%v ra=%s after %d ms peer-closed=%v", o.stallFailed, o.stallRemote, o.stallMS, o.stallClosed)
	}
	return s
}

func runLStack(c lstackCase) (o lstackObs) {
	header, payload := core.MustUnHex(c.Header), core.MustUnHex(c.Payload)
	e, err := newLEnv(c)
	if err != nil {
		o.problem = "listener does not start: " + err.Error()
		return o
	}
	defer e.l.Close()
	to := time.Duration(c.HeaderMS) * time.Millisecond

	if c.ReadLimit > 0 || c.WriteLimit > 0 {
		stop, lo := e.load()
		defer stop()
		if lo.problem != "" {
			o.problem = lo.problem
			return o
		}
		o.rxDebt, o.txDebt = lo.rxDebt, lo.txDebt
		if c.WriteLimit > 0 && lo.rxDebt < 5*to/2 || c.ReadLimit > 0 && lo.txDebt < 5*to/2 {
			o.loadSlow = true
			return o
		}
	}

	// ---- (a) header + payload at once ----
	first := append([]byte{}, header...)
	if !c.TLS {
		first = append(first, payload...)
	}
	srv, raw, err := e.pair(first)
	if err != nil {
		o.problem = "a connection to the listener is accepted: " + err.Error()
		return o
	}
	sockRemote, sockLocal := raw.LocalAddr(), raw.RemoteAddr()
	bound := 2*(o.rxDebt+o.txDebt) + 8*time.Second
	g := newGuard(bound+time.Second, raw)
	defer g.stop()
	srv.SetDeadline(time.Now().Add(bound))
	raw.SetDeadline(time.Now().Add(bound))
	var wg sync.WaitGroup
	wg.Add(1)
	go func() { // the server
		defer wg.Done()
		defer srv.Close()
		t0 := time.Now()
		o.remote = canonAddr(srv.RemoteAddr(), sockRemote)
		o.local = canonAddr(srv.LocalAddr(), sockLocal)
		o.addrMS = time.Since(t0).Milliseconds()
		buf := make([]byte, len(payload))
		n, err := io.ReadFull(srv, buf)
		o.payloadMS = time.Since(t0).Milliseconds()
		o.payload = buf[:n]
		if err != nil {
			o.readErr = err.Error()
			return
		}
		o.accepted = true
		if _, err := srv.Write([]byte("pong")); err != nil {
			o.readErr = "write: " + err.Error()
			return
		}
		// whatever else the application can read before the peer's FIN belongs to the payload too
		more, _ := io.ReadAll(io.LimitReader(srv, 4096))
		o.payload = append(o.payload, more...)
	}()
	peerDone := make(chan struct{})
	go func() { // the peer
		defer close(peerDone)
		var pc net.Conn = raw
		if c.TLS {
			tc := tls.Client(raw, e.cli)
			if _, err := tc.Write(payload); err != nil {
				return
			}
			pc = tc
		}
		var pong [4]byte
		if _, err := io.ReadFull(pc, pong[:]); err == nil && string(pong[:]) == "pong" {
			o.ponged = true
		}
		if tc, ok := pc.(*tls.Conn); ok {
			tc.CloseWrite()
		} else {
			raw.Conn.(*net.TCPConn).CloseWrite()
		}
	}()

	// ---- (b) a peer that stalls inside the header ----
	var swg sync.WaitGroup
	if c.StallAt >= 0 && c.StallAt < len(header) {
		ssrv, sraw, err := e.pair(header[:c.StallAt])
		if err != nil {
			o.problem = "a second connection to the listener is accepted: " + err.Error()
		} else {
			o.stallRan = true
			sg := newGuard(to+stallSlack+3*time.Second, sraw)
			defer sg.stop()
			ssrv.SetDeadline(time.Now().Add(to + stallSlack + 2*time.Second))
			swg.Add(1)
			go func() {
				defer swg.Done()
				defer ssrv.Close()
				t0 := time.Now()
				o.stallRemote = canonAddr(ssrv.RemoteAddr(), sraw.LocalAddr())
				o.stallMS = time.Since(t0).Milliseconds()
				var one [1]byte
				_, err := ssrv.Read(one[:])
				if err != nil {
					o.stallFailed = true
					o.stallReadErr = err.Error()
				}
				// the timeout closes the connection: the peer sees EOF / a reset without the application closing
				sraw.SetReadDeadline(time.Now().Add(2 * time.Second))
				_, perr := sraw.Read(one[:])
				var ne net.Error
				o.stallClosed = perr != nil && !(errors.As(perr, &ne) && ne.Timeout())
			}()
		}
	}

	done := make(chan struct{})
	go func() { wg.Wait(); <-peerDone; swg.Wait(); close(done) }()
	select {
	case <-done:
	case <-time.After(bound + 3*time.Second):
		o.problem = "hang: the connections of the case did not finish within their deadline"
		return o
	}
	if g.fired.Load() && o.problem == "" {
		o.problem = "hang: still waiting when the harness closed the sockets at its deadline (" + o.readErr + ")"
	}
	return o
}

type lstackVerdict struct {
	kind   string // "" | "disagree" | "spec" | "crash"
	rel    string
	impl   string
	want   string
	detail string
}

func judgeLStack(ctx *core.Ctx, c lstackCase, o lstackObs, mAcc, mStall string) lstackVerdict {
	stream := c.Header + c.Payload
	if o.problem != "" {
		return lstackVerdict{kind: "crash", rel: "connections through forwarder.Listener answer (no hang, no failed accept), with the limiter in debt", detail: o.problem}
	}
	for _, a := range []string{o.remote, o.local} {
		if strings.HasPrefix(a, "panic") || strings.HasPrefix(a, "other") {
			return lstackVerdict{kind: "crash", rel: "RemoteAddr/LocalAddr return a usable address", detail: o.remote + " / " + o.local}
		}
	}
	impl := o.String()
	// the property's clauses on what the application saw
	ans := ctx.Model.MustAsk("C08", "holds", stream, core.B01(o.accepted), o.remote, o.local, core.Hex(o.payload))
	if ans != "true" {
		clause := "?"
		if f := strings.Fields(ans); len(f) >= 2 {
			clause = f[1]
		}
		return lstackVerdict{kind: "spec", rel: clauseText(clause) + " - in every listener stacking, whatever the state of the bandwidth limiter", impl: impl, detail: ans + " (" + c.Note + ")"}
	}
	if o.accepted && !o.ponged {
		return lstackVerdict{kind: "spec", rel: "the accepted connection carries the application's answer back to the peer", impl: impl, detail: "the peer did not receive the 4 bytes the server wrote"}
	}
	if o.stallRan && mStall == "timedout" {
		to := int64(c.HeaderMS)
		switch {
		case !o.stallFailed || o.stallMS > to+stallSlack.Milliseconds()-50:
			return lstackVerdict{kind: "spec", rel: "a late header makes the connection fail no later than the header timeout (+1.4 s slack) - in every listener stacking", impl: impl, detail: o.stallReadErr}
		case !o.stallClosed:
			return lstackVerdict{kind: "spec", rel: "a late header closes that connection (the peer sees EOF/reset within 2 s of the failure)", impl: impl}
		case o.stallRemote != "sock" || o.stallMS < to/3:
			return lstackVerdict{kind: "disagree", rel: relStack, impl: impl, want: fmt.Sprintf("stalled peer: failed=true ra=sock after about %d ms", to)}
		}
	}
	// correspondence with the model's reading of the product's stack
	got := fmt.Sprintf("accepted rest=%s ra=%s la=%s", core.Hex(o.payload), o.remote, o.local)
	if !o.accepted {
		got = "failed"
	}
	if got != mAcc {
		return lstackVerdict{kind: "disagree", rel: relStack, impl: impl, want: mAcc}
	}
	if c.WriteLimit > 0 && time.Duration(o.payloadMS)*time.Millisecond < o.rxDebt/2 {
		return lstackVerdict{kind: "disagree", rel: relStackLoad, impl: impl, want: fmt.Sprintf("payload no earlier than %d ms", (o.rxDebt / 2).Milliseconds())}
	}
	return lstackVerdict{}
}

func askStack(ctx *core.Ctx, c lstackCase, order string, sched string) string {
	rx := "-"
	if c.WriteLimit > 0 {
		rx = fmt.Sprintf("%d:%d:%d", 1000000/c.WriteLimit, lstackBurst, c.DebtMS*1000)
	}
	// time unit: microseconds
	return ctx.Model.MustAsk("C08", "stack", order, "1", core.Itoa(c.ReadLimit), core.Itoa(c.WriteLimit), core.B01(c.Track), core.B01(c.TLS),
		core.Itoa(c.HeaderMS*1000), "0", rx, sched)
}

// stackOutcome strips layers/time from a `stack` answer: "accepted rest=.. ra=.. la=.." | "timedout" | "refused"
func stackOutcome(ans string) (layers, below, out string) {
	f := strings.Fields(ans)
	var keep []string
	for _, x := range f {
		switch {
		case strings.HasPrefix(x, "layers="):
			layers = strings.TrimPrefix(x, "layers=")
		case strings.HasPrefix(x, "below="):
			below = strings.TrimPrefix(x, "below=")
		case strings.HasPrefix(x, "delay="), strings.HasPrefix(x, "t="):
		default:
			keep = append(keep, x)
		}
	}
	if len(keep) > 0 && keep[0] != "accepted" {
		keep = keep[:1]
	}
	return layers, below, strings.Join(keep, " ")
}

func checkLStack(ctx *core.Ctx, c lstackCase) {
	header := core.MustUnHex(c.Header)
	stream := c.Header + c.Payload
	ctx.Case(fmt.Sprintf("lstack:%s|%s|tls=%v|rl=%d|wl=%d|track=%v|%d|%d|%d", c.Header, c.Payload, c.TLS, c.ReadLimit, c.WriteLimit, c.Track, c.HeaderMS, c.DebtMS, c.StallAt), true)
	name := "plain"
	if c.TLS {
		name = "tls"
	}
	switch {
	case c.ReadLimit > 0 && c.WriteLimit > 0:
		name += "+read-limit+write-limit"
	case c.ReadLimit > 0:
		name += "+read-limit"
	case c.WriteLimit > 0:
		name += "+write-limit"
	}
	if c.Track {
		name += "+track"
	}
	ctx.Count("lstack/stack/proxy+" + name)
	if bytes.HasPrefix(header, v2Sig) {
		ctx.Count("lstack/header/v2")
	} else {
		ctx.Count("lstack/header/v1")
	}

	layers, below, mAcc := stackOutcome(askStack(ctx, c, "product", "0:"+stream))
	_, _, mSwapped := stackOutcome(askStack(ctx, c, "limiter-first", "0:"+stream))
	ctx.Count("lstack/model/layers=" + layers + "/below-proxy=" + below)
	if !strings.HasPrefix(mAcc, "accepted") {
		ctx.Count("lstack/skipped-header-not-accepted-by-the-model")
		return
	}
	if mSwapped == "timedout" {
		ctx.Count("lstack/tells-product-order-from-limiter-first")
	}
	mStall := ""
	if c.StallAt >= 0 && c.StallAt < len(header) {
		sched := "~"
		if c.StallAt > 0 {
			sched = "0:" + core.Hex(header[:c.StallAt])
		}
		_, _, mStall = stackOutcome(askStack(ctx, c, "product", sched))
		ctx.Count("lstack/stall/model-" + mStall)
	}
	if d := directRead(core.MustUnHex(stream), false); strings.HasPrefix(d.head, "panic") {
		ctx.Crash("no header, however unusual, crashes the process", "", c, d.head)
		return
	}

	var v lstackVerdict
	slow := 0
	for try := 0; try < lstackTries+2; try++ {
		o := runLStack(c)
		if o.loadSlow {
			// the harness itself took too long to put the bucket into debt (judged from its own clock): no verdict
			slow++
			ctx.Count("lstack/load-too-slow-retried")
			if slow > 2 {
				ctx.Count("lstack/load-too-slow-given-up")
				return
			}
			continue
		}
		v = judgeLStack(ctx, c, o, mAcc, mStall)
		if v.kind == "" {
			if o.rxDebt > 0 {
				ctx.Count("lstack/rx-bucket-in-debt-confirmed-by-throttled-payload")
			}
			ctx.TraceValidated()
			return
		}
		if try-slow >= lstackTries-1 {
			break
		}
		ctx.Count("lstack/retried")
	}
	switch v.kind {
	case "spec":
		ctx.SpecFail(v.rel, "", c, v.impl, v.detail)
	case "disagree":
		ctx.Disagree(v.rel, c, v.impl, v.want)
	case "crash":
		ctx.Crash(v.rel, "", c, v.detail)
	}
}

// genLStackCases: every stacking x (a v1 and a v2 header in the quick tier, more in the thorough one).
func genLStackCases(r *core.Rand, quick bool) []lstackCase {
	per := 1
	if !quick {
		per = 4
	}
	hs := trickleHeaders(r, 6)
	var v1s, v2s []thdr
	for _, h := range hs {
		if bytes.HasPrefix(h.b, v2Sig) {
			v2s = append(v2s, h)
		} else {
			v1s = append(v1s, h)
		}
	}
	limits := []int{4096, 8192, 16384}
	var out []lstackCase
	for _, useTLS := range []bool{false, true} {
		for lim := 0; lim < 4; lim++ {
			for _, track := range []bool{false, true} {
				for k := 0; k < 2*per; k++ {
					h := core.Pick(r, v1s)
					if k%2 == 1 {
						h = core.Pick(r, v2s)
					}
					c := lstackCase{Kind: "lstack", TLS: useTLS, Track: track, HeaderMS: core.Pick(r, []int{100, 150}),
						DebtMS: core.Pick(r, []int{900, 1200}), Header: core.Hex(h.b), Note: h.name}
					if lim&1 != 0 {
						c.ReadLimit = core.Pick(r, limits)
					}
					if lim&2 != 0 {
						c.WriteLimit = core.Pick(r, limits)
					}
					if lim == 0 {
						c.DebtMS = 0
					}
					p := genPayload(r)
					if len(p) == 0 || len(p) > 200 {
						p = []byte("GET / HTTP/1.1\r\nHost: payload.test\r\n\r\n")
					}
					c.Payload = core.Hex(p)
					c.StallAt = core.Pick(r, []int{0, 1, 5, 12, 13, len(h.b) / 2, len(h.b) - 1})
					out = append(out, c)
				}
			}
		}
	}
	return out
}
