package c08

import (
	"bytes"
	"context"
	"errors"
	"fmt"
	"io"
	"net"
	"sort"
	"strings"
	"sync"
	"sync/atomic"
	"time"

	"github.com/saucelabs/forwarder/proxyproto"
	"github.com/saucelabs/forwarder/verifharness/core"
)

// Trickled headers: the peer delivers the header in pieces with pauses that are each shorter than the
// header timeout.  The property bounds the header read as a whole (Model/C08.lean, section "Time":
// `readTimed .total`): a header whose last byte arrives by the deadline gets the reader's verdict, one
// whose last byte arrives later is cut off at the deadline - never earlier, and no later than the
// deadline plus a generous slack.  Every wait of the harness has a deadline of its own (the guard
// closes the sockets of the case), whatever the implementation does with deadlines.

type tstep struct {
	AtMS int `json:"at_ms"` // when the peer writes, relative to the first use of the connection (<= 0: before it)
	N    int `json:"n"`     // how many further bytes of bytes_hex
}

type trickleCase struct {
	Kind      string  `json:"kind"`      // "trickle"
	Bytes     string  `json:"bytes_hex"` // header + payload; bytes not covered by the steps are never sent
	Steps     []tstep `json:"steps"`
	TimeoutMS int     `json:"timeout_ms"`
	Via       string  `json:"via"`                // "conn" = *proxyproto.Conn over TCP | "pipe" = *proxyproto.Conn over net.Pipe | "listener" = behind connfu.Combine over TCP (as forwarder.Listener stacks it)
	Call      string  `json:"call"`               // first call: "read" | "write" | "remote" | "local" | "header" | "writeto" | "readfrom" | "all" (Read, Write, RemoteAddr, LocalAddr at once)
	CtxMS     int     `json:"ctx_ms,omitempty"`   // call = "header": HeaderContext with a context that ends after CtxMS ...
	CtxKind   string  `json:"ctx_kind,omitempty"` // ... "deadline" | "cancel"
	Note      string  `json:"note,omitempty"`
}

const (
	relTimed      = "trickled header: outcome of the header read (accepted / refused / timed out) = Model.C08 readTimed .total on the peer's schedule"
	trickleGuard  = 40 * time.Millisecond // scheduling allowance when judging from the times actually measured
	trickleTries  = 3
	trickleEnough = 6 // confirmed failures after which the remaining trickle cases are skipped
)

var trickleConfirmed atomic.Int32

// guard closes the sockets of a case when the case's deadline passes, so that no call on the
// implementation waits without bound.
type guard struct {
	timer *time.Timer
	fired atomic.Bool
}

func newGuard(d time.Duration, cs ...io.Closer) *guard {
	g := &guard{}
	g.timer = time.AfterFunc(d, func() {
		g.fired.Store(true)
		for _, c := range cs {
			if c != nil {
				c.Close()
			}
		}
	})
	return g
}

func (g *guard) stop() bool { g.timer.Stop(); return g.fired.Load() }

// bounded runs fn and reports whether it returned within d (fn is left running otherwise).
func bounded(d time.Duration, fn func()) bool {
	done := make(chan struct{})
	go func() { defer close(done); fn() }()
	select {
	case <-done:
		return true
	case <-time.After(d):
		return false
	}
}

func isHdrTimeout(err error) bool {
	if err == nil {
		return false
	}
	if errors.Is(err, context.DeadlineExceeded) || errors.Is(err, context.Canceled) || strings.Contains(err.Error(), "header read timeout") {
		return true
	}
	var ne net.Error
	return errors.As(err, &ne) && ne.Timeout()
}

type callObs struct {
	name    string
	entered time.Duration // when the call was about to be made (from t0)
	ret     time.Duration // when it returned (-1: not before the case's deadline)
	kind    string        // "ok" | "timeout" | "refused" | "closed-by-harness"
	addr    string
	err     string
}

type sentObs struct {
	before, after time.Duration // around the peer's Write (after < 0: the write failed)
}

type trickleObs struct {
	calls      []callObs
	sent       []sentObs
	guardFired bool
	outcome    string // "accepted" | "timeout" | "refused" | "blocked"
	remote     string
	local      string
	payload    []byte
	back       []byte        // what the peer received
	peerClosed time.Duration // when the peer saw the connection end (-1: never, within the case)
	again      string        // a second Read after a failed header read
	problem    string
}

func (o trickleObs) String() string {
	var cs []string
	for _, c := range o.calls {
		r := "never"
		if c.ret >= 0 {
			r = c.ret.Round(time.Millisecond).String()
		}
		cs = append(cs, fmt.Sprintf("%s:%s@%s", c.name, c.kind, r))
	}
	var ss []string
	for _, s := range o.sent {
		if s.after < 0 {
			ss = append(ss, s.before.Round(time.Millisecond).String()+"(failed)")
		} else {
			ss = append(ss, s.before.Round(time.Millisecond).String())
		}
	}
	pc := "never"
	if o.peerClosed >= 0 {
		pc = o.peerClosed.Round(time.Millisecond).String()
	}
	return fmt.Sprintf("outcome=%s calls=[%s] remote=%s local=%s payload=%s peer-saw-close=%s peer-wrote-at=[%s] case-deadline-hit=%v",
		o.outcome, strings.Join(cs, " "), o.remote, o.local, core.Hex(o.payload), pc, strings.Join(ss, " "), o.guardFired)
}

// stepBytes cuts the stream as the steps say.
func stepBytes(stream []byte, steps []tstep) [][]byte {
	var out [][]byte
	pos := 0
	for _, s := range steps {
		n := s.N
		if n < 0 {
			n = 0
		}
		if pos+n > len(stream) {
			n = len(stream) - pos
		}
		out = append(out, stream[pos:pos+n])
		pos += n
	}
	return out
}

func schedText(stream []byte, steps []tstep) string {
	var es []string
	for i, b := range stepBytes(stream, steps) {
		es = append(es, fmt.Sprintf("%d:%s", max(steps[i].AtMS, 0), core.Hex(b)))
	}
	return core.JoinList(es)
}

// timedAns is the model's `timed` answer.
type timedAns struct {
	kind   string // "accepted" | "refused" | "timedout"
	t      int
	remote string
	local  string
}

func askTimed(ctx *core.Ctx, pol string, timeoutMS int, limit string, sched string) timedAns {
	ans := ctx.Model.MustAsk("C08", "timed", pol, core.Itoa(timeoutMS), "0", limit, sched)
	f := strings.Fields(ans)
	if len(f) < 2 || !strings.HasPrefix(f[1], "t=") {
		core.Fatalf("C08: unexpected timed answer %q", ans)
	}
	a := timedAns{kind: f[0]}
	fmt.Sscanf(f[1], "t=%d", &a.t)
	for _, x := range f[2:] {
		if v, ok := strings.CutPrefix(x, "ra="); ok {
			a.remote = v
		}
		if v, ok := strings.CutPrefix(x, "la="); ok {
			a.local = v
		}
	}
	return a
}

// runTrickle plays the peer's schedule against one connection of a fresh proxyproto.Listener.
// caseDeadline bounds everything.
func runTrickle(tc trickleCase, stream []byte, caseDeadline time.Duration, closeAfter bool) trickleObs {
	o := trickleObs{peerClosed: -1}
	to := time.Duration(tc.TimeoutMS) * time.Millisecond
	var inner net.Listener
	var pl *pipeListener
	if tc.Via == "pipe" {
		pl = newPipeListener()
		inner = pl
	} else {
		l, err := net.Listen("tcp", "127.0.0.1:0")
		if err != nil {
			core.Fatalf("C08: listen: %v", err)
		}
		inner = l
	}
	tap := &tapListener{Listener: inner}
	lst := &proxyproto.Listener{Listener: tap, ReadHeaderTimeout: to, TestingSkipConnfu: tc.Via != "listener"}
	defer lst.Close()
	var peer net.Conn
	if pl != nil {
		a, b := net.Pipe()
		peer = a
		pl.ch <- b
	} else {
		c, err := net.Dial("tcp", inner.Addr().String())
		if err != nil {
			core.Fatalf("C08: dial: %v", err)
		}
		peer = c
	}
	defer peer.Close()
	conn, err := lst.Accept()
	if err != nil {
		core.Fatalf("C08: accept: %v", err)
	}
	defer conn.Close()
	raw := tap.raw
	defer raw.Close()
	g := newGuard(caseDeadline, raw, peer)
	defer g.stop()

	pieces := stepBytes(stream, tc.Steps)
	o.sent = make([]sentObs, len(pieces))
	// bytes that are to be in the socket before the first use
	first := 0
	if tc.Via != "pipe" {
		for first < len(pieces) && tc.Steps[first].AtMS <= 0 {
			if len(pieces[first]) > 0 {
				peer.Write(pieces[first])
			}
			first++
		}
	}

	var mu sync.Mutex
	stop := make(chan struct{})
	var bg sync.WaitGroup
	t0 := time.Now()
	// the peer's reader: what the server wrote, and when the connection ended
	bg.Add(1)
	go func() {
		defer bg.Done()
		buf := make([]byte, 256)
		for {
			n, err := peer.Read(buf)
			mu.Lock()
			o.back = append(o.back, buf[:n]...)
			if err != nil {
				if !g.fired.Load() {
					select {
					case <-stop:
					default:
						o.peerClosed = time.Since(t0)
					}
				}
				mu.Unlock()
				return
			}
			mu.Unlock()
		}
	}()
	// the peer's writer
	bg.Add(1)
	go func() {
		defer bg.Done()
		for i := first; i < len(pieces); i++ {
			if d := time.Until(t0.Add(time.Duration(tc.Steps[i].AtMS) * time.Millisecond)); d > 0 {
				select {
				case <-stop:
					return
				case <-time.After(d):
				}
			}
			s := sentObs{before: time.Since(t0), after: -1}
			var err error
			if len(pieces[i]) > 0 {
				_, err = peer.Write(pieces[i])
			}
			if err == nil {
				s.after = time.Since(t0)
			}
			mu.Lock()
			o.sent[i] = s
			mu.Unlock()
			if err != nil {
				return
			}
		}
		if closeAfter {
			// everything is out: end of stream, so that the application's reads end
			if tcp, ok := peer.(*net.TCPConn); ok {
				tcp.CloseWrite()
			} else {
				peer.Close()
			}
		}
	}()

	pc, _ := conn.(*proxyproto.Conn)
	classify := func(err error) string {
		switch {
		case err == nil || err == io.EOF:
			return "ok"
		case g.fired.Load():
			return "closed-by-harness"
		case isHdrTimeout(err):
			return "timeout"
		}
		return "refused"
	}
	var payload []byte
	readAll := func() error {
		buf := make([]byte, 64)
		for {
			n, err := conn.Read(buf)
			mu.Lock()
			payload = append(payload, buf[:n]...)
			mu.Unlock()
			if err != nil {
				return err
			}
		}
	}
	call := func(name string) callObs {
		c := callObs{name: name, ret: -1}
		c.entered = time.Since(t0)
		var err error
		switch name {
		case "read":
			buf := make([]byte, 64)
			var n int
			n, err = conn.Read(buf)
			mu.Lock()
			payload = append(payload, buf[:n]...)
			mu.Unlock()
		case "write":
			_, err = conn.Write([]byte("pong"))
		case "remote":
			c.addr = canonAddr(conn.RemoteAddr(), raw.RemoteAddr())
		case "local":
			c.addr = canonAddr(conn.LocalAddr(), raw.LocalAddr())
		case "header":
			cx := context.Background()
			if tc.CtxMS > 0 {
				var cancel context.CancelFunc
				if tc.CtxKind == "cancel" {
					cx, cancel = context.WithCancel(cx)
					tm := time.AfterFunc(time.Until(t0.Add(time.Duration(tc.CtxMS)*time.Millisecond)), cancel)
					defer tm.Stop()
				} else {
					cx, cancel = context.WithDeadline(cx, t0.Add(time.Duration(tc.CtxMS)*time.Millisecond))
				}
				defer cancel()
			}
			_, err = pc.HeaderContext(cx)
		case "writeto":
			var b bytes.Buffer
			_, err = conn.(io.WriterTo).WriteTo(&b)
			mu.Lock()
			payload = append(payload, b.Bytes()...)
			mu.Unlock()
		case "readfrom":
			// (a reader that is not an *os.File / *net.TCPConn: the generic copy loop over Write)
			_, err = conn.(io.ReaderFrom).ReadFrom(struct{ io.Reader }{strings.NewReader("pong")})
		}
		c.ret = time.Since(t0)
		c.kind = classify(err)
		if err != nil && err != io.EOF {
			c.err = err.Error()
		}
		return c
	}
	if _, ok := conn.(io.WriterTo); !ok && tc.Call == "writeto" {
		tc.Call = "read"
	}
	if _, ok := conn.(io.ReaderFrom); !ok && tc.Call == "readfrom" {
		tc.Call = "write"
	}
	names := []string{tc.Call}
	if tc.Call == "all" {
		names = []string{"read", "write", "remote", "local"}
	}
	res := make([]callObs, len(names))
	var wg sync.WaitGroup
	for i, n := range names {
		res[i] = callObs{name: n, ret: -1, kind: "blocked"}
		wg.Add(1)
		go func() {
			defer wg.Done()
			c := call(n)
			mu.Lock()
			res[i] = c
			mu.Unlock()
		}()
	}
	// the guard releases them at the case's deadline; a second more is the hard limit
	returned := bounded(caseDeadline+time.Second, wg.Wait)
	o.guardFired = g.fired.Load()
	mu.Lock()
	o.calls = append([]callObs{}, res...)
	mu.Unlock()
	if !returned {
		o.outcome = "blocked"
		o.problem = "calls did not return even after the harness closed the sockets"
		close(stop)
		return o
	}
	// outcome of the header read as the callers saw it
	o.outcome = "accepted"
	for _, c := range o.calls {
		switch c.kind {
		case "timeout":
			o.outcome = "timeout"
		case "refused":
			if o.outcome == "accepted" {
				o.outcome = "refused"
			}
		case "closed-by-harness":
			o.outcome = "blocked"
		}
	}
	// the rest, now that the header read is over (every call below returns from the cached result or
	// from the socket; the guard still bounds them)
	if !bounded(caseDeadline+time.Second, func() {
		if o.outcome == "blocked" {
			return
		}
		o.remote = canonAddr(conn.RemoteAddr(), raw.RemoteAddr())
		o.local = canonAddr(conn.LocalAddr(), raw.LocalAddr())
		onlyAddr := true
		for _, c := range o.calls {
			if c.name != "remote" && c.name != "local" {
				onlyAddr = false
			}
			if c.addr != "" && ((c.name == "remote" && c.addr != o.remote) || (c.name == "local" && c.addr != o.local)) {
				o.problem = fmt.Sprintf("%s answered %s, then %s/%s", c.name, c.addr, o.remote, o.local)
			}
		}
		if o.outcome == "accepted" && tc.Call != "writeto" {
			err := readAll()
			if err != io.EOF {
				k := classify(err)
				if onlyAddr && (k == "timeout" || k == "refused") {
					// the address calls do not say whether the header was accepted; the read does
					o.outcome = k
				} else if k != "closed-by-harness" {
					o.problem = "read after the header: " + err.Error()
				}
			}
		}
		if o.outcome != "accepted" {
			_, err := conn.Read(make([]byte, 8))
			o.again = classify(err)
		}
	}) {
		o.problem = "calls after the header read did not return"
	}
	if o.outcome == "timeout" || o.outcome == "refused" {
		// the implementation closes the connection: the peer sees it end without the application closing
		end := time.Now().Add(2 * time.Second)
		for time.Now().Before(end) && !g.fired.Load() {
			mu.Lock()
			pcl := o.peerClosed
			mu.Unlock()
			if pcl >= 0 {
				break
			}
			time.Sleep(5 * time.Millisecond)
		}
	}
	close(stop)
	conn.Close()
	raw.Close()
	// the peer's reader drains what the server wrote and then sees the end
	if !bounded(2*time.Second, bg.Wait) {
		peer.Close()
		bounded(2*time.Second, bg.Wait)
	}
	mu.Lock()
	o.payload = append([]byte{}, payload...)
	mu.Unlock()
	return o
}

// trickleVerdict judges one attempt.  "" = fine; "retry" = the attempt says nothing (the harness's own
// peer was late); anything else = clause that failed.
type trickleVerdict struct {
	clause   string
	detail   string
	disagree string // model's outcome when the implementation's differs
}

func judgeTrickle(tc trickleCase, o trickleObs, m timedAns, complete int, completeStep int, perRead timedAns) (v trickleVerdict, retry bool) {
	ms := func(n int) time.Duration { return time.Duration(n) * time.Millisecond }
	dl := ms(tc.TimeoutMS)
	if tc.CtxMS > 0 && tc.CtxMS < tc.TimeoutMS {
		dl = ms(tc.CtxMS)
	}
	like := ""
	if perRead.kind != m.kind {
		like = fmt.Sprintf(" (a deadline re-armed at every read - Model.C08 readTimed .perRead - answers %s at %d ms)", perRead.kind, perRead.t)
	}
	if o.problem != "" {
		return trickleVerdict{clause: "the connection answers (no hang, consistent answers)", detail: o.problem}, false
	}
	var firstEntered time.Duration = -1
	for _, c := range o.calls {
		if firstEntered < 0 || c.entered < firstEntered {
			firstEntered = c.entered
		}
	}
	if m.kind == "timedout" {
		// the header is incomplete at the deadline: every call fails/returns at the deadline - not earlier,
		// and within the slack
		if o.outcome == "blocked" || o.guardFired {
			return trickleVerdict{clause: "a late header makes the connection fail no later than the header timeout (not cut off within header timeout + slack)",
				detail: fmt.Sprintf("deadline %s, slack %s%s", dl, stallSlack, like), disagree: "timedout"}, false
		}
		if o.outcome == "accepted" || o.outcome == "refused" {
			// conclusive only if the completing bytes really left after the implementation's deadline
			if completeStep >= 0 && completeStep < len(o.sent) && o.sent[completeStep].before < firstEntered+dl+trickleGuard {
				return trickleVerdict{}, true
			}
			return trickleVerdict{clause: "a late header makes the connection fail no later than the header timeout (header " + o.outcome + " although its last byte arrived after the deadline)",
				detail: fmt.Sprintf("deadline %s; the header was complete %d ms after the first use%s", dl, complete, like), disagree: "timedout"}, false
		}
		for _, c := range o.calls {
			if c.ret < dl {
				return trickleVerdict{clause: "the header read is not cut off before the header timeout", detail: fmt.Sprintf("%s returned after %s, deadline %s", c.name, c.ret, dl), disagree: "timedout"}, false
			}
			if c.ret > dl+stallSlack {
				return trickleVerdict{clause: "a late header makes the connection fail no later than the header timeout (not cut off within header timeout + slack)",
					detail: fmt.Sprintf("%s returned after %s, deadline %s, slack %s%s", c.name, c.ret, dl, stallSlack, like), disagree: "timedout"}, false
			}
		}
		if o.remote != "sock" || o.local != "sock" {
			return trickleVerdict{clause: "a connection whose header read failed reports the socket's own addresses", detail: o.remote + " / " + o.local}, false
		}
		if o.again != "timeout" {
			return trickleVerdict{clause: "a late header makes the connection fail (later calls fail the same way)", detail: "second Read: " + o.again}, false
		}
		if o.peerClosed < 0 {
			return trickleVerdict{clause: "a late header closes that connection (the peer sees EOF/reset within 2 s of the failure)"}, false
		}
		if o.peerClosed < dl {
			return trickleVerdict{clause: "the header read is not cut off before the header timeout", detail: fmt.Sprintf("peer saw the connection end after %s, deadline %s", o.peerClosed, dl)}, false
		}
		return trickleVerdict{}, false
	}
	// the header is complete in time: the reader's own verdict, not a time-out
	want := "accepted"
	if m.kind == "refused" {
		want = "refused"
	}
	if o.outcome == want && !o.guardFired {
		return trickleVerdict{}, false
	}
	if o.guardFired && o.outcome != "timeout" {
		o.outcome = "blocked"
	}
	if o.outcome == "blocked" {
		return trickleVerdict{clause: "the connection answers (no hang, consistent answers)", detail: "the header was complete in time, yet the call had not returned when the case's deadline passed", disagree: m.kind}, false
	}
	if o.outcome == "timeout" {
		if completeStep < 0 || completeStep >= len(o.sent) || o.sent[completeStep].after < 0 || o.sent[completeStep].after+trickleGuard > firstEntered+dl {
			return trickleVerdict{}, true // our own peer was late
		}
		return trickleVerdict{clause: "the header read is not cut off before the header timeout (a header complete before the deadline gets the reader's verdict)",
			detail: fmt.Sprintf("header complete %s after the first use, deadline %s", o.sent[completeStep].after, dl), disagree: m.kind}, false
	}
	return trickleVerdict{clause: "", disagree: m.kind}, false
}

func checkTrickle(ctx *core.Ctx, tc trickleCase) {
	stream := core.MustUnHex(tc.Bytes)
	if tc.Via == "" {
		tc.Via = "conn"
	}
	if tc.Call == "" {
		tc.Call = "read"
	}
	if tc.Via == "listener" && tc.Call == "header" || tc.Via != "listener" && (tc.Call == "writeto" || tc.Call == "readfrom") || tc.Via == "pipe" && (tc.Call == "write" || tc.Call == "all") {
		tc.Call = "read"
	}
	if tc.Call != "header" {
		tc.CtxMS = 0
	}
	sort.SliceStable(tc.Steps, func(i, j int) bool { return tc.Steps[i].AtMS < tc.Steps[j].AtMS })
	sched := schedText(stream, tc.Steps)
	limit := "-"
	if tc.CtxMS > 0 {
		limit = core.Itoa(tc.CtxMS)
	}
	m := askTimed(ctx, "total", tc.TimeoutMS, limit, sched)
	unbounded := askTimed(ctx, "total", 1<<30, "-", sched) // when the header is complete, if ever
	perRead := askTimed(ctx, "perread", tc.TimeoutMS, limit, sched)
	complete, completeStep := -1, -1
	if unbounded.kind != "timedout" {
		complete = unbounded.t
		sentN := 0
		// the step that completes it: the first whose arrival lets the reader decide
		pieces := stepBytes(stream, tc.Steps)
		for i := range pieces {
			sentN += len(pieces[i])
			if a := askTimed(ctx, "total", 1<<30, "-", schedText(stream[:sentN], tc.Steps[:i+1])); a.kind != "timedout" {
				completeStep = i
				break
			}
		}
	}
	ctx.Case(fmt.Sprintf("trickle:%s|%v|%d|%s|%s|%d%s", tc.Bytes, tc.Steps, tc.TimeoutMS, tc.Via, tc.Call, tc.CtxMS, tc.CtxKind), true)
	ctx.Count("trickle/via/" + tc.Via)
	ctx.Count("trickle/call/" + tc.Call)
	ctx.Count("trickle/model/" + m.kind)
	if perRead.kind != m.kind {
		ctx.Count("trickle/tells-total-from-per-read-deadline")
	}
	if tc.CtxMS > 0 {
		ctx.Count("trickle/caller-context/" + tc.CtxKind)
	}
	if tc.Note != "" {
		ctx.Count("trickle/gen/" + tc.Note)
	}
	if d := directRead(stream, false); strings.HasPrefix(d.head, "panic") {
		ctx.Crash("no header, however unusual, crashes the process", "", tc, d.head)
		return
	}
	ms := func(n int) time.Duration { return time.Duration(n) * time.Millisecond }
	dl := tc.TimeoutMS
	if tc.CtxMS > 0 && tc.CtxMS < dl {
		dl = tc.CtxMS
	}
	caseDeadline := ms(dl) + stallSlack + 200*time.Millisecond
	if m.kind != "timedout" {
		last := 0
		for _, s := range tc.Steps {
			last = max(last, s.AtMS)
		}
		caseDeadline = ms(max(dl, last)) + stallSlack + 200*time.Millisecond
	}
	allSent := 0
	for _, s := range tc.Steps {
		allSent += s.N
	}
	if trickleConfirmed.Load() >= trickleEnough {
		// the run has failed already, several times over: the remaining schedules would only repeat it
		ctx.Count("trickle/skipped-after-confirmed-failures")
		return
	}
	var v trickleVerdict
	var o trickleObs
	inconclusive, fails := 0, 0
	for {
		o = runTrickle(tc, stream, caseDeadline, allSent >= len(stream))
		var retry bool
		v, retry = judgeTrickle(tc, o, m, complete, completeStep, perRead)
		if retry {
			inconclusive++
			ctx.Count("trickle/attempt-inconclusive(own peer late)")
			if inconclusive >= 3 {
				ctx.Count("trickle/inconclusive")
				return
			}
			continue
		}
		if v.clause == "" && v.disagree == "" {
			if fails > 0 {
				ctx.Count("trickle/passed-on-repetition")
			}
			break
		}
		// a failure counts when it repeats
		fails++
		if fails >= trickleTries {
			trickleConfirmed.Add(1)
			break
		}
	}
	impl := o.String()
	if v.disagree != "" {
		ctx.Disagree(relTimed, tc, impl, fmt.Sprintf("%s at %d ms", m.kind, m.t))
	}
	if v.clause != "" {
		if strings.HasPrefix(v.clause, "the connection answers") {
			ctx.Crash(v.clause, "", tc, v.detail+" | "+impl)
		} else {
			ctx.SpecFail(v.clause, "", tc, impl, v.detail)
		}
		return
	}
	if v.disagree != "" {
		return
	}
	if o.outcome == "accepted" {
		// addresses as advertised, payload exact - judged like any other connection
		if m.remote != "" && (o.remote != m.remote || o.local != m.local) {
			ctx.Disagree(relTimed, tc, impl, "ra="+m.remote+" la="+m.local)
		}
		if allSent >= len(stream) {
			if !holds(ctx, tc, tc.Bytes, true, o.remote, o.local, o.payload, impl) {
				return
			}
		}
		for _, c := range o.calls {
			if c.name == "write" || c.name == "readfrom" {
				if string(o.back) != "pong" {
					ctx.SpecFail("what the application writes reaches the peer", "", tc, impl, fmt.Sprintf("peer received %q", o.back))
					return
				}
			}
		}
	}
	ctx.TraceValidated()
}

// ---------------------------------------------------------------------------------------------
// generation
// ---------------------------------------------------------------------------------------------

// thdr is a header with the offsets at which a pause is structurally interesting.
type thdr struct {
	name string
	b    []byte
	offs []int
}

func normOffs(n int, offs []int) []int {
	set := map[int]bool{}
	for _, o := range offs {
		if o > 0 && o < n {
			set[o] = true
		}
	}
	var out []int
	for o := range set {
		out = append(out, o)
	}
	sort.Ints(out)
	return out
}

// v1Offs: inside the signature, around the 13-byte identifier read, the end of the optimistic read
// (22 bytes for TCP6, 32 for TCP4), inside the addresses, before the final CRLF, between CR and LF.
func v1Offs(h []byte) []int {
	n := len(h)
	return normOffs(n, []int{1, 3, 5, 6, 10, 11, 12, 13, 14, 21, 22, 23, 31, 32, 33, n / 2, n - 4, n - 3, n - 2, n - 1})
}

// v2Offs: inside the signature, the identifier read (13), inside the fixed part, between the fixed part
// and the addresses (16), inside and after the addresses, inside the TLV header and value, the last byte.
func v2Offs(h []byte, addrLen int) []int {
	n := len(h)
	a := 16 + addrLen
	return normOffs(n, []int{1, 4, 5, 11, 12, 13, 14, 15, 16, 17, 20, 16 + addrLen/2, a - 1, a, a + 1, a + 2, a + 3, a + 4, (a + n) / 2, n - 1})
}

func trickleHeaders(r *core.Rand, extra int) []thdr {
	tlv := func(t byte, v []byte) []byte { return append([]byte{t, byte(len(v) >> 8), byte(len(v))}, v...) }
	v24 := v2Header(0x21, 0x11, append([]byte{10, 1, 2, 3, 10, 4, 5, 6, 0x1f, 0x90, 0x01, 0xbb}, append(tlv(0x01, []byte("h2")), tlv(0xe0, []byte("trickle-id-0123456789"))...)...), 0)
	v24[14], v24[15] = byte((len(v24)-16)>>8), byte(len(v24)-16)
	v26b := append(append([]byte{}, bytes.Repeat([]byte{0x20, 0x01}, 8)...), bytes.Repeat([]byte{0xfe, 0x80}, 8)...)
	v26b = append(v26b, 0xc0, 0x00, 0x01, 0xbb)
	v26 := v2Header(0x21, 0x21, append(v26b, tlv(0x04, make([]byte, 9))...), 36+12)
	hs := []thdr{
		{name: "v1-tcp4", b: []byte("PROXY TCP4 192.168.100.200 10.20.30.40 65535 443\r\n")},
		{name: "v1-tcp4-min", b: []byte("PROXY TCP4 1.1.1.1 2.2.2.2 1 2\r\n")},
		{name: "v1-tcp6-22", b: []byte("PROXY TCP6 :: :: 1 2\r\n")},
		{name: "v1-tcp6-23", b: []byte("PROXY TCP6 ::1 :: 1 2\r\n")},
		{name: "v1-tcp6", b: []byte("PROXY TCP6 2001:db8::68 fe80::1 40000 443\r\n")},
		{name: "v1-unknown", b: []byte("PROXY UNKNOWN some tail\r\n")},
		{name: "v2-tcp4-tlv", b: v24},
		{name: "v2-tcp6-tlv", b: v26},
		{name: "v2-local", b: v2Header(0x20, 0x00, nil, 0)},
		{name: "v2-local-tlv", b: v2Header(0x20, 0x00, tlv(0x04, make([]byte, 5)), 8)},
	}
	for i := 0; i < extra; i++ {
		if r.Bool() {
			k := core.Pick(r, []string{"TCP4", "TCP6"})
			a := genV4Text
			if k == "TCP6" {
				a = genV6Text
			}
			hs = append(hs, thdr{name: "v1-gen", b: []byte(fmt.Sprintf("PROXY %s %s %s %d %d\r\n", k, a(r), a(r), r.Intn(65536), r.Intn(65536)))})
		} else {
			fam, n := byte(0x11), 12
			if r.Bool() {
				fam, n = 0x21, 36
			}
			body := append(r.Bytes(n), genTLVs(r, 40)...)
			hs = append(hs, thdr{name: "v2-gen", b: v2Header(0x21, fam, body, len(body))})
		}
	}
	for i := range hs {
		h := hs[i].b
		if bytes.HasPrefix(h, v2Sig) {
			al := 0
			switch h[13] {
			case 0x11, 0x12:
				al = 12
			case 0x21, 0x22:
				al = 36
			}
			hs[i].offs = v2Offs(h, al)
		} else {
			hs[i].offs = v1Offs(h)
		}
	}
	return hs
}

// cutSteps: the stream cut at cuts, piece i sent at times[i].
func cutSteps(n int, cuts []int, times []int) []tstep {
	var out []tstep
	prev := 0
	for i, c := range append(append([]int{}, cuts...), n) {
		out = append(out, tstep{AtMS: times[i], N: c - prev})
		prev = c
	}
	return out
}

const trickleTimeoutMS = 300

var (
	trickleCalls = []string{"read", "remote", "write", "local", "header", "all", "read", "remote"}
	trickleVias  = []string{"conn", "listener", "pipe", "conn", "listener"}
)

// genTrickleCases: the schedules named in the property - pauses at every structurally interesting
// offset, each shorter than the timeout: one pause in time; one pause too long; two pauses that only
// together exceed the timeout; uniform trickles of one / a few bytes; a complete header just before and
// just after the deadline in several pieces; refused headers; callers with a context of their own.
func genTrickleCases(r *core.Rand, quick bool) []trickleCase {
	const T = trickleTimeoutMS
	var out []trickleCase
	k := 0
	add := func(h thdr, steps []tstep, note string, payload []byte) *trickleCase {
		stream := append(append([]byte{}, h.b...), payload...)
		if len(steps) > 0 {
			// the payload travels with the last piece
			steps[len(steps)-1].N += len(payload)
		}
		tc := trickleCase{Kind: "trickle", Bytes: core.Hex(stream), Steps: steps, TimeoutMS: T, Via: trickleVias[k%len(trickleVias)], Call: trickleCalls[k%len(trickleCalls)], Note: note}
		if tc.Via == "listener" {
			switch tc.Call {
			case "header":
				tc.Call = core.Pick(r, []string{"writeto", "readfrom"})
			}
		}
		k++
		out = append(out, tc)
		return &out[len(out)-1]
	}
	extra := 0
	if !quick {
		extra = 12
	}
	hs := trickleHeaders(r, extra)
	pay := func() []byte {
		return core.Pick(r, [][]byte{[]byte("hello"), []byte("GET / HTTP/1.1\r\nHost: h\r\n\r\n"), nil, []byte("\r\n")})
	}
	for _, h := range hs {
		n := len(h.b)
		// one pause, in time (0.6 T) and too long (T + 120), at every offset
		for i, a := range h.offs {
			if !quick || i%2 == k%2 {
				add(h, cutSteps(n, []int{a}, []int{0, T * 6 / 10}), "one-pause/in-time", pay())
			}
			if !quick || i%3 == k%3 {
				add(h, cutSteps(n, []int{a}, []int{0, T + 120}), "one-pause/late", pay())
			}
		}
		// two pauses of 2T/3 each: neither exceeds the timeout, together they do
		var pairs [][2]int
		for i := 0; i < len(h.offs); i++ {
			for j := i + 1; j < len(h.offs); j++ {
				if !quick || j == i+1 {
					pairs = append(pairs, [2]int{h.offs[i], h.offs[j]})
				}
			}
		}
		if quick {
			for x := 0; x < 4 && len(h.offs) >= 2; x++ {
				i := r.Intn(len(h.offs) - 1)
				j := i + 1 + r.Intn(len(h.offs)-1-i)
				pairs = append(pairs, [2]int{h.offs[i], h.offs[j]})
			}
		}
		for _, p := range pairs {
			first := 0
			if r.Chance(30) {
				first = T / 10 // nothing in the socket yet at the first use
			}
			add(h, cutSteps(n, []int{p[0], p[1]}, []int{first, first + T*2/3, first + T*4/3}), "two-pauses/late", pay())
		}
		// uniform trickle: step bytes every d ms
		for _, sd := range [][2]int{{1, 100}, {1, T / 2}, {2, T * 2 / 3}, {3, 100}, {7, T * 2 / 3}, {1, 5}, {2, 10}, {5, 40}} {
			step, d := sd[0], sd[1]
			var steps []tstep
			for pos, t := 0, 0; pos < n; pos, t = pos+step, t+d {
				steps = append(steps, tstep{AtMS: t, N: min(step, n-pos)})
			}
			done := steps[len(steps)-1].AtMS
			if done > T-110 && done < T+110 {
				continue // too close to the deadline to call
			}
			if done > 20*T {
				// total ≫ timeout is enough: no need to plan minutes of it
				cut := 0
				for cut < len(steps) && steps[cut].AtMS <= 20*T {
					cut++
				}
				steps = steps[:cut]
				add(h, steps, fmt.Sprintf("uniform/%dB-every-%dms", step, d), nil).Bytes = core.Hex(h.b)
				continue
			}
			add(h, steps, fmt.Sprintf("uniform/%dB-every-%dms", step, d), pay())
		}
		// complete just before / just after the deadline, in several pieces at structural offsets
		for _, end := range []int{T - 110, T + 110} {
			m := min(len(h.offs), core.Pick(r, []int{2, 3, 4}))
			cuts := map[int]bool{}
			for len(cuts) < m {
				cuts[core.Pick(r, h.offs)] = true
			}
			var cs []int
			for c := range cuts {
				cs = append(cs, c)
			}
			sort.Ints(cs)
			times := make([]int, len(cs)+1)
			for i := range times {
				times[i] = end * i / len(cs)
			}
			note := "several-pieces/just-before"
			if end > T {
				note = "several-pieces/just-after"
			}
			add(h, cutSteps(n, cs, times), note, pay())
		}
	}
	// headers that are complete but refused: the refusal comes when the last byte is there, a late
	// one is a time-out like any other
	for _, s := range []string{"PROXY TCP4 1.2.3.4 5.6.7.8 1000\r\n", "PROXY TCP4 1.2.3.4 5.6.7.8 10 x\r\n", "PROXY TCP6 ::1 1.2.3.4.5 1 2\r\n",
		"\r\n\r\n\x00\r\nQUIT\n\x31\x11\x00\x0c", "\r\n\r\n\x00\r\nQUIT\n\x21\x31\x00\x04\x01\x02\x03\x04", "\r\n\r\n\x00\r\nQUIT\n\x21\x11\x00\x04\x01\x02\x03\x04"} {
		h := thdr{name: "refused", b: []byte(s)}
		n := len(h.b)
		a, b := n/3, n-1
		add(h, cutSteps(n, []int{a, b}, []int{0, T / 4, T / 2}), "refused-header/in-time", nil)
		add(h, cutSteps(n, []int{a, b}, []int{0, T * 2 / 3, T * 4 / 3}), "refused-header/late", nil)
	}
	// the caller's own context (HeaderContext): the sooner of the two deadlines applies
	for i, h := range hs {
		if quick && i%3 != 0 {
			continue
		}
		n := len(h.b)
		a, b := h.offs[len(h.offs)/3], h.offs[len(h.offs)-1]
		for _, kind := range []string{"deadline", "cancel"} {
			// context ends at T/2, header complete at 5T/6 (< T): cut at T/2
			c := add(h, cutSteps(n, []int{a, b}, []int{0, T * 5 / 12, T * 5 / 6}), "caller-context/sooner", nil)
			c.Via, c.Call, c.CtxMS, c.CtxKind = core.Pick(r, []string{"conn", "pipe"}), "header", T/2, kind
			// context ends at T/2, header complete at T/6: accepted
			c = add(h, cutSteps(n, []int{a, b}, []int{0, T / 12, T / 6}), "caller-context/in-time", nil)
			c.Via, c.Call, c.CtxMS, c.CtxKind = "conn", "header", T/2, kind
			// context ends at 2T: the header timeout applies
			c = add(h, cutSteps(n, []int{a, b}, []int{0, T * 2 / 3, T * 4 / 3}), "caller-context/later-than-timeout", nil)
			c.Via, c.Call, c.CtxMS, c.CtxKind = "conn", "header", 2*T, kind
		}
	}
	return out
}
