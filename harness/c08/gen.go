package c08

import (
	"fmt"
	"strings"

	"github.com/saucelabs/forwarder/verifharness/core"
)

// ---------------------------------------------------------------------------------------------
// textual IP addresses
// ---------------------------------------------------------------------------------------------

var fixedV4 = []string{"0.0.0.0", "1.1.1.1", "255.255.255.255", "127.0.0.1", "10.0.0.1", "192.168.100.200", "9.99.199.0", "1.2.3.4"}

func genV4Text(r *core.Rand) string {
	if r.Chance(40) {
		return core.Pick(r, fixedV4)
	}
	var p [4]string
	for i := range p {
		switch r.Intn(5) {
		case 0:
			p[i] = core.Itoa(r.Intn(10))
		case 1:
			p[i] = core.Itoa(10 + r.Intn(90))
		default:
			p[i] = core.Itoa(r.Intn(256))
		}
	}
	return strings.Join(p[:], ".")
}

var badV4 = []string{"01.2.3.4", "1.2.3.04", "1.2.3", "1.2.3.4.5", "256.1.1.1", "1.2.3.256", "1..2.3", ".1.2.3", "1.2.3.", "1.2.3.4 ", "a.b.c.d",
	"1.2.3.-4", "+1.2.3.4", "1.2.3.4x", "0x1.2.3.4", "1.2.3.1000", "00.0.0.0", "0.0.0.00", "1", "", ".", "...", "1.2.3.4/8", "1.2.3.4:80", "١.2.3.4"}

func hexGroup(r *core.Rand, v int) string {
	s := fmt.Sprintf("%x", v)
	switch r.Intn(6) {
	case 0:
		s = fmt.Sprintf("%04x", v)
	case 1:
		s = strings.ToUpper(s)
	case 2:
		s = fmt.Sprintf("%04X", v)
	case 3:
		if len(s) < 3 {
			s = "0" + s
		}
	}
	return s
}

var fixedV6 = []string{"::", "::1", "1::", "::ffff:1.2.3.4", "1:2:3:4:5:6:7::", "::2:3:4:5:6:7:8", "1:2:3:4:5:6:7:8",
	"ffff:ffff:ffff:ffff:ffff:ffff:ffff:ffff", "0000:0000:0000:0000:0000:0000:0000:0000", "ffff:ffff:ffff:ffff:ffff:ffff:255.255.255.255",
	"2001:db8::68", "fe80::1", "1:2:3:4:5:6:1.2.3.4", "::1.2.3.4", "64:ff9b::192.0.2.33", "1::8", "1:2::7:8", "::0", "0::", "0::0", "a::B", "::FFFF:0.0.0.0",
	"1:0:0:0:0:0:0:8", "1:2:3:4::6:7:8", "2001:DB8:0:0:8:800:200C:417A"}

var badV6 = []string{":::", "1:::2", "::1::", "1::2::3", "12345::", "1:2:3:4:5:6:7:8:9", "1:2:3:4:5:6:7", ":1:2:3:4:5:6:7:8", "1:2:3:4:5:6:7:8:", "1:2:3:4:5:6:7:",
	"::1.2.3", "::1.2.3.4.5", "1.2.3.4::", "::01.2.3.4", "g::", ":", "::g", "::%", "%", "fe80::1%eth0", "fe80::1%", "%eth0", "1:2:3:4:5:1.2.3.4", "::1:2:3:4:5:6:1.2.3.4",
	"1:2:3:4:5:6:7::8", "1:2:3:4:5:6:7:1.2.3.4", "::1.2.3.4:5", "::256.1.1.1", "::1.2.3.", "::.1.2.3", "1:2:3:4:5:6:7:8::", "::1:2:3:4:5:6:7:8", "::1:2:3:4:5:6:7",
	"1::2:3:4:5:6:7:8", "1:2:3:4:5:6::7:8", ":: ", " ::", "::1 ", "[::1]", "::1/128", "1:2:3:4:5:6:7:00008", "10000::", "::ffff:1.2.3.4.", "::ab.1.1.1", "::1234.1.1.1", "::12345.1.1.1",
	"::\r", "::\n", "\r\n::"}

func genV6Text(r *core.Rand) string {
	if r.Chance(35) {
		return core.Pick(r, fixedV6)
	}
	var g [8]int
	for i := range g {
		switch r.Intn(4) {
		case 0:
			g[i] = 0
		case 1:
			g[i] = r.Intn(16)
		default:
			g[i] = r.Intn(65536)
		}
	}
	// optional zero run to compress
	lo, hi := -1, -1
	if r.Chance(60) {
		lo = r.Intn(8)
		hi = lo + 1 + r.Intn(8-lo)
		for i := lo; i < hi; i++ {
			g[i] = 0
		}
	}
	embed := r.Chance(20) && (hi <= 6)
	n := 8
	if embed {
		n = 6
	}
	var parts []string
	for i := 0; i < n; i++ {
		parts = append(parts, hexGroup(r, g[i]))
	}
	var s string
	if lo >= 0 && hi <= n && r.Chance(85) {
		s = strings.Join(parts[:lo], ":") + "::" + strings.Join(parts[hi:], ":")
		if embed {
			if hi < n {
				s += ":"
			}
			s += fmt.Sprintf("%d.%d.%d.%d", g[6]>>8, g[6]&255, g[7]>>8, g[7]&255)
		}
	} else {
		s = strings.Join(parts, ":")
		if embed {
			s += fmt.Sprintf(":%d.%d.%d.%d", g[6]>>8, g[6]&255, g[7]>>8, g[7]&255)
		}
	}
	return s
}

func mutateText(r *core.Rand, s string, alphabet string) string {
	b := []byte(s)
	switch r.Intn(4) {
	case 0:
		if len(b) > 0 {
			i := r.Intn(len(b))
			b = append(b[:i], b[i+1:]...)
		}
	case 1:
		i := r.Intn(len(b) + 1)
		b = append(b[:i], append([]byte{alphabet[r.Intn(len(alphabet))]}, b[i:]...)...)
	case 2:
		if len(b) > 0 {
			b[r.Intn(len(b))] = alphabet[r.Intn(len(alphabet))]
		}
	default:
		if len(b) > 1 {
			i := r.Intn(len(b) - 1)
			b[i], b[i+1] = b[i+1], b[i]
		}
	}
	return string(b)
}

const ipAlphabet = "0123456789abcdefABCDEF:.:.%gx 0:"

// genIPText produces strings for the ParseIP differential: valid of both families, the fixed
// edge lists, one-character mutations of valid strings and strings over the address alphabet.
func genIPText(r *core.Rand) string {
	switch r.Intn(10) {
	case 0, 1:
		return genV4Text(r)
	case 2, 3, 4:
		return genV6Text(r)
	case 5:
		return core.Pick(r, badV4)
	case 6:
		return core.Pick(r, badV6)
	case 7, 8:
		if r.Bool() {
			return mutateText(r, genV4Text(r), ipAlphabet)
		}
		return mutateText(r, genV6Text(r), ipAlphabet)
	default:
		n := r.Range(0, 20)
		var b strings.Builder
		for i := 0; i < n; i++ {
			b.WriteByte(ipAlphabet[r.Intn(len(ipAlphabet))])
		}
		return b.String()
	}
}

// ---------------------------------------------------------------------------------------------
// ports / strconv.Atoi
// ---------------------------------------------------------------------------------------------

var fixedPorts = []string{"0", "1", "2", "3", "80", "443", "1000", "65535", "00080", "007", "0000000000000000080"}

var oddPorts = []string{"+80", "-1", "-0", "+0", "65536", "99999", "70000", "9223372036854775807", "9223372036854775808", "-9223372036854775808",
	"-9223372036854775809", "18446744073709551616", "999999999999999999", "1000000000000000000", "+", "-", "", "1_000", "0x10", " 1", "1 ", "１", "12a", "a", "+-1", "--1", "1e3", "1.0",
	"000000000000000000000000000001", "+000000000000000000123", "-000000000000000000123", "\r", "2\r", "2\n"}

func genPort(r *core.Rand) (string, bool) {
	switch r.Intn(8) {
	case 0, 1, 2:
		return core.Pick(r, fixedPorts), true
	case 3, 4, 5:
		return core.Itoa(r.Intn(65536)), true
	default:
		return core.Pick(r, oddPorts), false
	}
}

func genAtoiText(r *core.Rand) string {
	switch r.Intn(6) {
	case 0:
		return core.Pick(r, fixedPorts)
	case 1, 2:
		return core.Pick(r, oddPorts)
	case 3:
		n := r.Range(15, 22)
		var b strings.Builder
		if r.Chance(40) {
			b.WriteByte("+-"[r.Intn(2)])
		}
		for i := 0; i < n; i++ {
			b.WriteByte(byte('0' + r.Intn(10)))
		}
		return b.String()
	case 4:
		return mutateText(r, core.Pick(r, oddPorts), "0123456789+-_ x")
	default:
		n := r.Range(0, 8)
		var b strings.Builder
		for i := 0; i < n; i++ {
			b.WriteByte("0123456789+-_ "[r.Intn(14)])
		}
		return b.String()
	}
}

// ---------------------------------------------------------------------------------------------
// v1 lines
// ---------------------------------------------------------------------------------------------

func genV1(r *core.Rand) ([]byte, string) {
	switch r.Intn(20) {
	case 0, 1, 2: // UNKNOWN with tails around the 107 limit
		total := core.Pick(r, []int{15, 16, 17, 30, 60, 105, 106, 107, 108, 109, 120})
		tailLen := total - 15
		var tail []byte
		for i := 0; i < tailLen; i++ {
			c := byte(32 + r.Intn(95))
			if r.Chance(3) {
				c = '\r'
			}
			if r.Chance(3) {
				c = '\n'
			}
			tail = append(tail, c)
		}
		if tailLen > 0 && r.Chance(70) {
			tail[0] = ' '
		}
		return []byte("PROXY UNKNOWN" + string(tail) + "\r\n"), fmt.Sprintf("v1/unknown/%d", total)
	case 3: // structural oddities
		s := core.Pick(r, []string{
			"PROXY TCP4 1.1.1.1 2.2.2.2 1 2 extra\r\n", "PROXY TCP4 1.1.1.1 2.2.2.2 1\r\n", "PROXY TCP4  1.1.1.1 2.2.2.2 1 2\r\n", "PROXY TCP4 1.1.1.1 2.2.2.2 1 2 \r\n",
			"proxy TCP4 1.1.1.1 2.2.2.2 1 2\r\n", "PROXY TCP5 1.1.1.1 2.2.2.2 1 2\r\n", "PROXY TCP4 1.1.1.1 2.2.2.2 1 2\n", "PROXY TCP4 1.1.1.1 2.2.2.2 1 2\r",
			"PROXY TCP4 1.1.1.1 2.2.2.2 1 2", "PROXY  TCP4 1.1.1.1 2.2.2.2 1 2\r\n", "PROXY TCP4\r\n", "PROXY \r\n", "PROXY\r\n", "PROXY TCP6 ::1 ::1 1 2 extra stuff here\r\n",
			"PROXY TCP4 :: :: 1 2\r\n", "PROXY TCP4 :: :: 1 2 \r\n", "PROXY TCP6 1.1.1.1 2.2.2.2 10 20\r\n", "PROXY TCP6 :: :: 1 2 \r\n", "PROXY TCP4 1.1.1.1 ::1 1 2\r\n",
			"PROXY TCP4 1.1.1.1 1.1.1.1 2 3\r\n", "PROXY TCP6 ::1 ::1 2 3\r\n", "PROXY UNKNOWN\r\n", "PROXY UNKNOWN", "PROXY UNKNOW\r\n\r\n", "PROXY TCP4 1.1.1.1 2.2.2.2 1 2\r\r\n",
			"PROXY TCP4 255.255.255.255 255.255.255.255 65535 65535\r\n",
			"PROXY TCP6 ffff:ffff:ffff:ffff:ffff:ffff:ffff:ffff ffff:ffff:ffff:ffff:ffff:ffff:ffff:ffff 65535 65535\r\n",
			"PROXY TCP6 ffff:ffff:ffff:ffff:ffff:ffff:255.255.255.255 ffff:ffff:ffff:ffff:ffff:ffff:255.255.255.255 65535 65535\r\n",
			"PROXY TCP6 ffff:ffff:ffff:ffff:ffff:ffff:ffff:ffff ffff:ffff:ffff:ffff:ffff:ffff:ffff:ffff 65535 65535 xx\r\n",
			"PROXY TCP6 ffff:ffff:ffff:ffff:ffff:ffff:ffff:ffff ffff:ffff:ffff:ffff:ffff:ffff:ffff:ffff 65535 65535 xxx\r\n",
			"PROXY TCP6 ffff:ffff:ffff:ffff:ffff:ffff:ffff:ffff ffff:ffff:ffff:ffff:ffff:ffff:ffff:ffff 65535 65535 xxxx\r\n",
		})
		return []byte(s), "v1/structural"
	}
	six := r.Chance(50)
	kind := "TCP4"
	if six {
		kind = "TCP6"
	}
	note := "v1/" + strings.ToLower(kind)
	addr := func() string {
		switch {
		case r.Chance(82):
			if six {
				if r.Chance(30) {
					return core.Pick(r, []string{"::", "::1", "1::", "::2", "a::", "::0"}) // short forms: lines of 22..25 bytes
				}
				return genV6Text(r)
			}
			return genV4Text(r)
		case r.Chance(40):
			note += "/xfam"
			if six {
				return genV4Text(r)
			}
			return genV6Text(r)
		default:
			note += "/badip"
			if six {
				return core.Pick(r, badV6)
			}
			return core.Pick(r, badV4)
		}
	}
	a1, a2 := addr(), addr()
	p1, ok1 := genPort(r)
	p2, ok2 := genPort(r)
	if six && r.Chance(35) {
		p1, p2 = core.Itoa(r.Intn(10)), core.Itoa(r.Intn(10)) // keep short-form lines short
		ok1, ok2 = true, true
	}
	if !ok1 || !ok2 {
		note += "/oddport"
	}
	return []byte("PROXY " + kind + " " + a1 + " " + a2 + " " + p1 + " " + p2 + "\r\n"), note
}

// ---------------------------------------------------------------------------------------------
// v2 headers
// ---------------------------------------------------------------------------------------------

var v2Sig = []byte("\r\n\r\n\x00\r\nQUIT\n")

func genTLVs(r *core.Rand, budget int) []byte {
	var out []byte
	for budget >= 3 && r.Chance(70) {
		n := r.Intn(min(budget-3, 40) + 1)
		out = append(out, byte(r.Intn(256)), byte(n>>8), byte(n))
		out = append(out, r.Bytes(n)...)
		budget -= 3 + n
	}
	return out
}

// v2Header builds a v2 header: ver/cmd byte, family byte, body; announced = length field.
func v2Header(vc, fam byte, body []byte, announced int) []byte {
	h := append([]byte{}, v2Sig...)
	h = append(h, vc, fam, byte(announced>>8), byte(announced))
	return append(h, body...)
}

func genV2(r *core.Rand) ([]byte, string) {
	vc := byte(0x20)
	switch r.Intn(10) {
	case 0, 1:
		vc |= 0 // LOCAL
	case 2:
		vc |= byte(2 + r.Intn(14))
	default:
		vc |= 1
	}
	if r.Chance(4) {
		vc = byte(r.Intn(256)) // version nibble varies
	}
	var fam byte
	switch r.Intn(10) {
	case 0, 1, 2:
		fam = 0x11
	case 3:
		fam = 0x12
	case 4, 5:
		fam = 0x21
	case 6:
		fam = 0x22
	case 7:
		fam = core.Pick(r, []byte{0x00, 0x01, 0x02, 0x10, 0x20, 0x31, 0x32, 0x30})
	default:
		fam = byte(r.Intn(256))
	}
	addrLen := 0
	switch fam {
	case 0x11, 0x12:
		addrLen = 12
	case 0x21, 0x22:
		addrLen = 36
	case 0x31, 0x32:
		addrLen = 216
	}
	var n int
	switch r.Intn(12) {
	case 0:
		n = 0
	case 1:
		n = addrLen
	case 2:
		n = max(addrLen-1, 0)
	case 3:
		n = addrLen + 1
	case 4:
		n = core.Pick(r, []int{1, 11, 12, 13, 35, 36, 37, 215, 216, 217})
	case 5:
		n = core.Pick(r, []int{2046, 2047, 2048})
	case 6:
		n = core.Pick(r, []int{2049, 2050, 4096, 65535})
	default:
		n = addrLen + r.Intn(60)
	}
	body := make([]byte, 0, n)
	if n <= 2048 {
		addr := r.Bytes(min(addrLen, n))
		if r.Chance(30) && len(addr) >= 12 {
			copy(addr, []byte{0, 0, 0, 0, 0, 0, 0, 0, 0, 0, 0xff, 0xff}) // v4-mapped / zero-heavy addresses
		}
		body = append(body, addr...)
		if n > len(body) {
			t := genTLVs(r, n-len(body))
			body = append(body, t...)
			body = append(body, r.Bytes(n-len(body))...)
		}
	} else if n <= 2050 && r.Bool() {
		body = r.Bytes(n) // just past the limit, complete: must be refused, not read
	} else {
		body = r.Bytes(r.Intn(64)) // announced more than allowed; a few bytes follow
	}
	note := fmt.Sprintf("v2/cmd%x", vc&0x0f)
	return v2Header(vc, fam, body, n), note
}

// ---------------------------------------------------------------------------------------------
// payloads, mutations, segmentation
// ---------------------------------------------------------------------------------------------

func genPayload(r *core.Rand) []byte {
	switch r.Intn(8) {
	case 0:
		return nil
	case 1:
		return []byte("GET / HTTP/1.1\r\nHost: example.test\r\n\r\n")
	case 2:
		return []byte("\r\n")
	case 3:
		return append([]byte("\r\n"), r.Bytes(r.Intn(20))...)
	case 4:
		return append(r.Bytes(1), []byte("\r\nPROXY TCP4 9.9.9.9 8.8.8.8 7 6\r\nabc")...)
	case 5:
		b := r.Bytes(r.Range(1, 3))
		return b
	case 6:
		return append([]byte{}, v2Header(0x21, 0x11, r.Bytes(12), 12)...) // a second header as payload
	default:
		return r.Bytes(r.Range(1, 80))
	}
}

func mutateBytes(r *core.Rand, b []byte) ([]byte, string) {
	b = append([]byte{}, b...)
	switch r.Intn(6) {
	case 0:
		if len(b) > 0 {
			i := r.Intn(min(len(b), 40))
			b[i] ^= byte(1 << r.Intn(8))
		}
		return b, "mut/flip"
	case 1:
		if len(b) > 0 {
			i := r.Intn(min(len(b), 40))
			b = append(b[:i], b[i+1:]...)
		}
		return b, "mut/delete"
	case 2:
		i := r.Intn(min(len(b), 40) + 1)
		b = append(b[:i], append([]byte{byte(r.Intn(256))}, b[i:]...)...)
		return b, "mut/insert"
	case 3:
		if len(b) > 0 {
			b = b[:r.Intn(len(b))]
		}
		return b, "mut/truncate"
	case 4:
		pre := r.Bytes(r.Range(1, 20))
		if r.Bool() {
			pre = []byte(core.Pick(r, []string{"GET / HTTP/1.1\r\n", "\x16\x03\x01", "PROXY", "\r\n\r\n\x00\r\nQUIT", " ", "\r\n"}))
		}
		return append(pre, b...), "mut/prefix"
	default:
		return r.Bytes(r.Range(0, 40)), "mut/garbage"
	}
}

var hotCuts = []int{1, 5, 6, 10, 11, 12, 13, 14, 15, 16, 17, 21, 22, 23, 24, 25, 28, 29, 30, 31, 32, 33, 52, 106, 107, 108}

// genCuts returns 0-3 increasing cut offsets (1-4 writes), biased to the boundaries the reader uses.
func genCuts(r *core.Rand, n int) []int {
	if n < 2 {
		return nil
	}
	k := r.Intn(4)
	set := map[int]bool{}
	for i := 0; i < k; i++ {
		var c int
		if r.Chance(55) {
			c = core.Pick(r, hotCuts)
		} else {
			c = r.Range(1, n-1)
		}
		if c >= 1 && c <= n-1 {
			set[c] = true
		}
	}
	var cuts []int
	for c := 1; c < n; c++ {
		if set[c] {
			cuts = append(cuts, c)
		}
	}
	return cuts
}

// genStream = header (+mutation) + payload.
func genStream(r *core.Rand) ([]byte, string) {
	var h []byte
	var note string
	if r.Chance(50) {
		h, note = genV1(r)
	} else {
		h, note = genV2(r)
	}
	if r.Chance(16) {
		var m string
		h, m = mutateBytes(r, h)
		note += "/" + m
	}
	return append(h, genPayload(r)...), note
}

// ---------------------------------------------------------------------------------------------
// regression targets: the input shapes of the repaired defects F5 and F4, enumerated on every run
// ---------------------------------------------------------------------------------------------

var shortV6 = []string{"::", "::1", "1::", "::2", "a::", "::0", "f::"}

// shortTCP6Lines: every `PROXY TCP6 a b p q\r\n` of at most 24 bytes over the short spellings
// (22 bytes = the shortest line there is; 22 and 23 are the lengths the old 24-byte optimistic
// read over-read, 24 is the first it did not).
func shortTCP6Lines() []string {
	var out []string
	for _, a := range shortV6 {
		for _, b := range shortV6 {
			for _, pq := range [][2]string{{"1", "2"}, {"0", "9"}, {"10", "2"}, {"1", "20"}} {
				l := "PROXY TCP6 " + a + " " + b + " " + pq[0] + " " + pq[1] + "\r\n"
				if len(l) <= 24 {
					out = append(out, l)
				}
			}
		}
	}
	// the 22-byte line with every pair of one-digit ports
	for p := 0; p < 10; p++ {
		for q := 0; q < 10; q++ {
			if l := fmt.Sprintf("PROXY TCP6 :: :: %d %d\r\n", p, q); l != out[0] && l != out[1] {
				out = append(out, l)
			}
		}
	}
	return out
}

// regressFamilies: every listed family byte, AF_UNSPEC with each transport nibble, and unlisted
// bytes around them.
var regressFamilies = []byte{0x00, 0x01, 0x02, 0x03, 0x0f, 0x10, 0x11, 0x12, 0x13, 0x1f, 0x20, 0x21, 0x22, 0x23, 0x30, 0x31, 0x32, 0x33, 0x40, 0x41, 0x7f, 0x80, 0x91, 0xa2, 0xf0, 0xff}

func regressConnCases(r *core.Rand) []connCase {
	var out []connCase
	payloads := [][]byte{nil, []byte("hello"), []byte("\r\n"), []byte("\r\nX"), []byte("GET / HTTP/1.1\r\nHost: h\r\n\r\n")}
	for _, l := range shortTCP6Lines() {
		for _, p := range payloads {
			stream := append([]byte(l), p...)
			via := "pipe"
			if r.Chance(25) {
				via = "tcp"
			}
			cc := connCase{Kind: "conn", Bytes: core.Hex(stream), Via: via, Note: fmt.Sprintf("regress/v1-tcp6-%d", len(l)), Cuts: genCuts(r, len(stream)),
				First: core.Pick(r, []string{"read", "addr", "write"}), BufLen: uint8(core.Pick(r, []int{0, 6, 63}))}
			out = append(out, cc)
			if len(p) > 0 && len(l) <= 23 {
				// the payload arrives in a later write: an over-reading header read would wait for it
				out = append(out, connCase{Kind: "conn", Bytes: core.Hex(stream), Via: "tcp", Note: fmt.Sprintf("regress/v1-tcp6-%d/late-payload", len(l)),
					Cuts: []int{len(l)}, GapUS: 300, First: core.Pick(r, []string{"read", "addr"}), BufLen: 63, Connfu: r.Chance(30)})
			}
		}
	}
	// one byte short of the shortest line: 21 bytes ending in CRLF cannot be a TCP6 line; the reader
	// must ask for the 22nd byte before deciding (stream ends: "short"; more follows: scan on)
	for _, l := range []string{"PROXY TCP6 :: :: 1 2\r\n", "PROXY TCP6 :: :: 0 9\r\n"} {
		for i := 11; i < 20; i++ {
			for _, p := range [][]byte{nil, []byte("hello"), []byte("\r\n")} {
				stream := append([]byte(l[:i]+l[i+1:]), p...)
				out = append(out, connCase{Kind: "conn", Bytes: core.Hex(stream), Via: "pipe", Note: "regress/v1-tcp6-21", Cuts: genCuts(r, len(stream)),
					First: core.Pick(r, []string{"read", "addr"}), BufLen: 63})
			}
		}
	}
	for cmd := 0; cmd < 16; cmd++ {
		for _, fam := range regressFamilies {
			for _, n := range []int{0, 1, 2, 12, 36, 216} {
				body := r.Bytes(n)
				stream := append(v2Header(byte(0x20|cmd), fam, body, n), genPayload(r)...)
				via := "pipe"
				if r.Chance(12) {
					via = "tcp"
				}
				out = append(out, connCase{Kind: "conn", Bytes: core.Hex(stream), Via: via, Note: fmt.Sprintf("regress/v2-cmd%x", cmd), Cuts: genCuts(r, len(stream)),
					First: core.Pick(r, []string{"read", "addr", "addr", "write"}), BufLen: uint8(core.Pick(r, []int{0, 63})), Connfu: via == "tcp" && r.Chance(30)})
			}
		}
	}
	return out
}
