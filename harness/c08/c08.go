// Package c08 ties the Lean model of the PROXY-protocol reader (Model/C08.lean) to
// /repo/proxyproto: the exported ReadHeader, and Listener/Conn over loopback TCP and net.Pipe with
// generated headers, payloads and segmentations; plus a few runs through the full proxy.
package c08

import (
	"encoding/json"
	"fmt"
	"net"
	"sort"
	"strconv"
	"strings"
	"sync"
	"time"

	"github.com/saucelabs/forwarder/verifharness/core"
)

func init() {
	childInit()
	core.Register("C08", core.Scenario{Run: Run, Replay: Replay})
}

type ipCase struct {
	Kind string `json:"kind"` // "ip"
	Text string `json:"text_hex"`
}

type atoiCase struct {
	Kind string `json:"kind"` // "atoi"
	Text string `json:"text_hex"`
}

type connCase struct {
	Kind   string `json:"kind"`              // "conn"
	Bytes  string `json:"bytes_hex"`         // everything the peer sends (header + payload), then it closes its write side
	Cuts   []int  `json:"cuts,omitempty"`    // write boundaries
	Via    string `json:"via"`               // "tcp" | "pipe"
	Connfu bool   `json:"connfu,omitempty"`  // listener wraps the connection with connfu.Combine
	GapUS  int    `json:"gap_us,omitempty"`  // pause between writes
	First  string `json:"first,omitempty"`   // first call on the accepted connection: "read" | "addr" | "write"
	BufLen uint8  `json:"buf_len,omitempty"` // application read buffer = 1 + BufLen bytes
	Note   string `json:"note,omitempty"`
}

type stallCase struct {
	Kind      string `json:"kind"`      // "stall"
	Bytes     string `json:"bytes_hex"` // what the peer sends before it goes silent (connection stays open)
	TimeoutMS int    `json:"timeout_ms"`
	Via       string `json:"via"` // "read" | "addr": first call on the connection
	Connfu    bool   `json:"connfu,omitempty"`
}

type concCase struct {
	Kind  string `json:"kind"` // "conc"
	Bytes string `json:"bytes_hex"`
	Cuts  []int  `json:"cuts,omitempty"`
	GapUS int    `json:"gap_us"`
}

const (
	relRead  = "proxyproto.ReadHeader(stream) = Model.C08.readHeader (outcome, header fields, unread rest)"
	relConn  = "Listener/Conn observation (accepted, RemoteAddr, LocalAddr, payload read) = Model.C08 readHeader/remoteSel/localSel"
	relIP    = "net.ParseIP = Model.C08.parseIP"
	relAtoi  = "strconv.Atoi = Model.C08.atoi"
	relStall = "stalled peer: header read fails with the stream-ended class"
	relConc  = "concurrent callers: one header read, same answers (Model.C08 Conn.run)"
)

// ---------------------------------------------------------------------------------------------

func checkIP(ctx *core.Ctx, c ipCase) {
	txt := string(core.MustUnHex(c.Text))
	impl := "none"
	if ip := net.ParseIP(txt); ip != nil {
		impl = "ok " + core.Hex([]byte(ip))
	}
	model := ctx.Model.MustAsk("C08", "parseip", c.Text)
	ctx.Case("ip:"+c.Text, impl != "none")
	if impl == "none" {
		ctx.Count("ip/rejected")
	} else if strings.Contains(txt, ":") {
		ctx.Count("ip/v6-accepted")
	} else {
		ctx.Count("ip/v4-accepted")
	}
	if impl != model {
		ctx.Disagree(relIP, c, impl, model)
	}
}

func checkAtoi(ctx *core.Ctx, c atoiCase) {
	txt := string(core.MustUnHex(c.Text))
	impl := "none"
	if n, err := strconv.Atoi(txt); err == nil {
		impl = "ok " + strconv.Itoa(n)
	}
	model := ctx.Model.MustAsk("C08", "atoi", c.Text)
	ctx.Case("atoi:"+c.Text, impl != "none")
	ctx.Count("atoi/" + strings.Fields(impl)[0])
	if impl != model {
		ctx.Disagree(relAtoi, c, impl, model)
	}
}

// specInfo is the model's protocol-level reading of an input.
type specInfo struct {
	wf        bool
	shape     string // regression shape of the input (inputs of the repaired defects F5/F4); informational
	mustFail  bool
	mayReject bool
}

func askSpec(ctx *core.Ctx, hx string) specInfo {
	ans := ctx.Model.MustAsk("C08", "spec", hx)
	var s specInfo
	s.wf = strings.HasPrefix(ans, "wf ")
	for _, f := range strings.Fields(ans) {
		if v, ok := strings.CutPrefix(f, "shape="); ok && v != "-" {
			s.shape = v
		}
		if f == "must-fail=1" {
			s.mustFail = true
		}
		if f == "may-reject=1" {
			s.mayReject = true
		}
	}
	return s
}

// holds evaluates the property clauses (Lean `holdsObs`) on an observation and files a SpecFail.
func holds(ctx *core.Ctx, cs any, hx string, accepted bool, remote, local string, payload []byte, implDesc string) bool {
	if strings.HasPrefix(remote, "panic") || strings.HasPrefix(local, "panic") || strings.HasPrefix(remote, "other") || strings.HasPrefix(local, "other") {
		ctx.Crash("RemoteAddr/LocalAddr return a usable address", "", cs, remote+" / "+local)
		return false
	}
	ans := ctx.Model.MustAsk("C08", "holds", hx, core.B01(accepted), remote, local, core.Hex(payload))
	if ans == "true" {
		return true
	}
	f := strings.Fields(ans) // false <clause>
	clause := "?"
	if len(f) >= 2 {
		clause = f[1]
	}
	ctx.SpecFail(clauseText(clause), "", cs, implDesc, ans)
	return false
}

func clauseText(c string) string {
	switch c {
	case "no-missing-address":
		return "an accepted connection never reports a missing (nil) address"
	case "malformed-fails":
		return "a malformed, oversized or truncated header makes the connection fail"
	case "no-header-byte-leaked":
		return "no part of the header is visible as payload"
	case "well-formed-accepted":
		return "a well-formed header is accepted"
	case "addresses-as-advertised":
		return "RemoteAddr/LocalAddr are the header's source/destination (socket addresses for LOCAL/UNKNOWN)"
	case "payload-exact":
		return "the application reads exactly the bytes that follow the header"
	}
	return c
}

func checkConn(ctx *core.Ctx, cc connCase) {
	stream := core.MustUnHex(cc.Bytes)
	if cc.Via != "pipe" {
		cc.Via = "tcp"
	}
	model := ctx.Model.MustAsk("C08", "read", cc.Bytes)
	mHead, mAddrs, mDetail := modelParts(model)
	spec := askSpec(ctx, cc.Bytes)

	key := fmt.Sprintf("conn:%s|%v|%s|%v", cc.Bytes, cc.Cuts, cc.Via, cc.Connfu)
	nontrivial := strings.HasPrefix(mHead, "ok") || (mHead != "err refused" || len(stream) >= 13 && (strings.HasPrefix(string(stream), "PROXY ") || strings.HasPrefix(string(stream), string(v2Sig))))
	ctx.Case(key, nontrivial)
	note := cc.Note
	if note == "" {
		note = "replayed"
	}
	np := strings.Split(note, "/")
	if len(np) >= 2 {
		ctx.Count("conn/gen/" + np[0] + "/" + np[1])
		seen := map[string]bool{}
		for i := 2; i < len(np); i++ {
			t := np[i]
			if t == "mut" && i+1 < len(np) {
				t = "mut-" + np[i+1]
				i++
			}
			if !seen[t] {
				ctx.Count("conn/tag/" + t)
				seen[t] = true
			}
		}
	} else {
		ctx.Count("conn/gen/" + note)
	}
	ctx.Count("conn/via/" + cc.Via)
	ctx.Count(fmt.Sprintf("conn/writes=%d", len(segments(stream, cc.Cuts))))
	ctx.Count("conn/model/" + strings.Fields(model)[0] + "/" + lastField(model, strings.HasPrefix(model, "err")))
	if spec.wf {
		ctx.Count("conn/domain/well-formed")
	} else {
		ctx.Count("conn/domain/other")
	}
	if spec.shape != "" {
		ctx.Count("conn/shape/" + spec.shape)
	}

	// 1. exported ReadHeader on the same bytes, in this goroutine (a panic is recoverable here and
	//    tells us not to hand the input to the connection's own goroutine).
	d := directRead(stream, len(cc.Cuts)%2 == 1)
	if strings.HasPrefix(d.head, "panic") || strings.HasPrefix(d.head, "nil-header") {
		ctx.Crash("no header, however unusual, crashes the process", "", cc, "ReadHeader: "+d.head)
		return
	}
	if model == "panic" {
		ctx.Disagree(relRead, cc, d.head+" | "+d.detail, model)
		return
	}
	if d.head != mHead || (strings.HasPrefix(d.head, "ok") && d.detail != mDetail) {
		ctx.Disagree(relRead, cc, d.head+" | "+d.detail, mHead+" | "+mDetail)
	}

	// 2. through Listener/Conn
	o := runConn(cc, stream)
	if o.problem != "" {
		ctx.Crash("the connection answers (no hang, consistent answers)", "", cc, o.problem)
		return
	}
	implAddrs := "ra=" + o.remote + " la=" + o.local
	impl := o.head(len(stream)) + " | " + implAddrs
	want := mHead + " | " + mAddrs
	if !cc.Connfu {
		if o.accepted {
			impl += " | " + o.detail
			want += " | " + mDetail
		}
	}
	agree := impl == want
	if !agree {
		ctx.Disagree(relConn, cc, impl, want)
	}
	ok := holds(ctx, cc, cc.Bytes, o.accepted, o.remote, o.local, o.payload, impl)
	if agree && ok {
		ctx.TraceValidated()
	}
}

func lastField(ans string, isErr bool) string {
	if !isErr {
		f := strings.Fields(ans)
		for _, x := range f {
			if strings.HasPrefix(x, "v=") {
				return x
			}
		}
		return "-"
	}
	f := strings.Fields(ans)
	return f[len(f)-1]
}

func checkStall(ctx *core.Ctx, sc stallCase) {
	prefix := core.MustUnHex(sc.Bytes)
	model := ctx.Model.MustAsk("C08", "read", sc.Bytes)
	mHead, mAddrs, _ := modelParts(model)
	spec := askSpec(ctx, sc.Bytes)
	ctx.Case(fmt.Sprintf("stall:%s|%d|%s", sc.Bytes, sc.TimeoutMS, sc.Via), true)
	ctx.Count("stall/" + sc.Via)
	ctx.Count(fmt.Sprintf("stall/sent=%d", len(prefix)))
	if spec.shape != "" {
		ctx.Count("stall/shape/" + spec.shape)
	}
	if mHead == "err refused" {
		ctx.Count("stall/skipped-refused-outright")
		return
	}
	if d := directRead(prefix, false); strings.HasPrefix(d.head, "panic") {
		ctx.Crash("no header, however unusual, crashes the process", "", sc, d.head)
		return
	}
	o := runStall(sc, prefix)
	to := time.Duration(sc.TimeoutMS) * time.Millisecond
	impl := fmt.Sprintf("failed=%v accepted=%v class=%s remote=%s elapsed=%s peer-closed=%v", o.failed, o.accepted, o.errClass, o.remote, o.elapsed.Round(time.Millisecond), o.peerClosed)
	// correspondence: the model either runs out of input (the read must fail as "short") or accepts
	// (the application then waits for payload)
	if mHead == "err short" {
		ctx.Count("stall/model-short")
		if !o.failed || o.errClass != "short" || o.remote != "sock" {
			ctx.Disagree(relStall, sc, impl, "failed=true class=short remote=sock")
		}
		if o.failed && o.elapsed < to/3 {
			ctx.Disagree("stalled peer: the header read waits for the configured timeout", sc, impl, "elapsed ≥ timeout/3")
		}
	} else {
		ctx.Count("stall/model-accepts")
		want := strings.TrimPrefix(strings.Fields(mAddrs)[0], "ra=")
		if !o.accepted || o.remote != want {
			ctx.Disagree(relStall, sc, impl, "accepted=true remote="+want)
		}
	}
	// the property: a complete well-formed header is accepted even if nothing follows; anything
	// else that is still incomplete when the timeout expires fails, and the connection is closed
	fine := true
	complete := spec.wf && !spec.mustFail
	switch {
	case complete:
		if !o.accepted && !spec.mayReject {
			ctx.SpecFail(clauseText("well-formed-accepted"), "", sc, impl, "complete well-formed header followed by silence")
			fine = false
		}
	case o.accepted:
		// accepted although not well-formed by the protocol text: allowed, the other clauses apply
		if o.remote == "nil" {
			ctx.SpecFail(clauseText("no-missing-address"), "", sc, impl, "")
			fine = false
		}
	default:
		if !o.failed || o.elapsed > to+stallSlack-50*time.Millisecond {
			ctx.SpecFail("a late header makes the connection fail no later than the header timeout (+1.4 s slack)", "", sc, impl, "")
			fine = false
		} else if !o.peerClosed {
			ctx.SpecFail("a late header closes that connection (the peer sees EOF/reset within 2 s of the failure)", "", sc, impl, "")
			fine = false
		}
	}
	if fine {
		ctx.TraceValidated()
	}
}

func checkConc(ctx *core.Ctx, cc concCase) {
	stream := core.MustUnHex(cc.Bytes)
	spec := askSpec(ctx, cc.Bytes)
	ctx.Case(fmt.Sprintf("conc:%s|%v", cc.Bytes, cc.Cuts), true)
	ctx.Count("conc/cases")
	if spec.shape != "" {
		ctx.Count("conc/shape/" + spec.shape)
	}
	if d := directRead(stream, false); strings.HasPrefix(d.head, "panic") {
		ctx.Crash("no header, however unusual, crashes the process", "", cc, d.head)
		return
	}
	o := runConc(cc, stream)
	if o.problem != "" {
		ctx.Crash("concurrent callers all return", "", cc, o.problem)
		return
	}
	// model: any interleaving is a list of ops; one of them, with the payload read in one piece
	ans := ctx.Model.MustAsk("C08", "conn", cc.Bytes, "ra,la,w,h,ra,r100000,la,ra")
	f := strings.SplitN(ans, " ", 2)
	if len(f) != 2 {
		core.Fatalf("C08: unexpected conn answer %q", ans)
	}
	outs := core.SplitList2(f[1])
	mRemote := strings.TrimPrefix(outs[0], "a:")
	mLocal := strings.TrimPrefix(outs[1], "a:")
	mData := ""
	for _, x := range outs {
		if v, ok := strings.CutPrefix(x, "d:"); ok {
			mData = v
		}
	}
	uniq := func(xs []string) []string {
		m := map[string]bool{}
		for _, x := range xs {
			m[x] = true
		}
		var out []string
		for x := range m {
			out = append(out, x)
		}
		sort.Strings(out)
		return out
	}
	ur, ul := uniq(o.remotes), uniq(o.locals)
	accepted := o.readErr == ""
	impl := fmt.Sprintf("runs=1 remote=%v local=%v accepted=%v payload=%s back=%q", ur, ul, accepted, core.Hex(o.payload), o.back)
	wantAcc := true
	for _, x := range outs {
		if strings.HasPrefix(x, "e:") || x == "panic" {
			wantAcc = false
		}
	}
	want := fmt.Sprintf("%s remote=[%s] local=[%s] accepted=%v payload=%s back=%q", f[0], mRemote, mLocal, wantAcc, ifs(wantAcc, orU(mData), "_"), ifs(wantAcc, "pong", ""))
	agree := impl == want
	if !agree {
		ctx.Disagree(relConc, cc, impl, want)
	}
	if len(ur) != 1 || len(ul) != 1 {
		ctx.SpecFail("concurrent callers get one consistent answer", "", cc, impl, "")
		return
	}
	if holds(ctx, cc, cc.Bytes, accepted, ur[0], ul[0], o.payload, impl) && agree {
		ctx.TraceValidated()
	}
}

func ifs(c bool, a, b string) string {
	if c {
		return a
	}
	return b
}

func orU(s string) string {
	if s == "" {
		return "_"
	}
	return s
}

// ---------------------------------------------------------------------------------------------

// parallel runs fn over the items on a fixed number of workers (cases are generated sequentially
// from the seed; only their execution is concurrent).
func parallel[T any](items []T, workers int, fn func(T)) {
	var wg sync.WaitGroup
	ch := make(chan T)
	for w := 0; w < workers; w++ {
		wg.Add(1)
		go func() {
			defer wg.Done()
			for it := range ch {
				fn(it)
			}
		}()
	}
	for _, it := range items {
		ch <- it
	}
	close(ch)
	wg.Wait()
}

var shortHeaders = []string{
	"PROXY TCP4 1.1.1.1 1.1.1.1 2 3\r\n",
	"PROXY TCP6 ::1 ::1 2 3\r\n",
	"PROXY TCP6 1::2 3::4 10 20\r\n",
	"PROXY TCP6 :: :: 1 2\r\n",  // 22 bytes: the shortest TCP6 line (regression target F5)
	"PROXY TCP6 ::1 :: 1 2\r\n", // 23 bytes
	"PROXY UNKNOWN\r\n",
	"PROXY UNKNOWN ignored tail\r\n",
	"\r\n\r\n\x00\r\nQUIT\n\x20\x00\x00\x00",
	"\r\n\r\n\x00\r\nQUIT\n\x21\x00\x00\x02\x01\x02", // PROXY, AF_UNSPEC: accepted without addresses (regression target F4)
	"\r\n\r\n\x00\r\nQUIT\n\x22\x11\x00\x00",         // command nibble 2, no remainder: likewise
	"\r\n\r\n\x00\r\nQUIT\n\x21\x11\x00\x0c\x01\x02\x03\x04\x05\x06\x07\x08\x00\x50\x01\xbb",
	"\r\n\r\n\x00\r\nQUIT\n\x21\x21\x00\x27\x20\x01\x0d\xb8\x00\x00\x00\x00\x00\x00\x00\x00\x00\x00\x00\x01\x20\x01\x0d\xb8\x00\x00\x00\x00\x00\x00\x00\x00\x00\x00\x00\x02\xc0\x00\x01\xbb\x04\x00\x00",
}

func genConnCase(r *core.Rand, via string) connCase {
	stream, note := genStream(r)
	cc := connCase{Kind: "conn", Bytes: core.Hex(stream), Via: via, Note: note, Cuts: genCuts(r, len(stream)),
		First: core.Pick(r, []string{"read", "read", "addr", "write"}), BufLen: uint8(core.Pick(r, []int{0, 1, 6, 63, 255}))}
	if via == "tcp" {
		cc.Connfu = r.Chance(35)
		if len(cc.Cuts) > 0 && r.Chance(50) {
			cc.GapUS = core.Pick(r, []int{100, 300, 1000})
		}
	} else {
		cc.Connfu = r.Chance(15)
	}
	return cc
}

func Run(ctx *core.Ctx) {
	ctx.SetRule("streams = generated v1 lines (TCP4/TCP6/UNKNOWN; min..max-length addresses, ::-forms, embedded IPv4, leading zeros, signs, out-of-range ports, lines up to and past 107 bytes) " +
		"and v2 headers (every command x family byte, lengths 0..2048+, TLV tails; the address-less ones - PROXY with an unlisted family, command nibble >= 2 - through the API and through the full proxy), " +
		"every TCP6 line of 22-24 bytes over the short address spellings with and without payload, 16% mutated (flip/delete/insert/truncate/prefix/garbage), followed by a payload; each sent in 1-4 writes " +
		"over loopback TCP or net.Pipe to proxyproto.Listener and read back through Conn (RemoteAddr, LocalAddr, Read, Header) and through the exported ReadHeader; " +
		"plus forwarder.Listener in every stacking the product builds around the PROXY layer (TLS, read/write limits, traffic tracking) with the bandwidth limiter in debt (new connection with header + payload at once; peer stalling inside the header; compared with Model.C08 stackRead), " +
		"net.ParseIP/strconv.Atoi texts, stalled peers, headers trickled with pauses shorter than the header timeout (compared with Model.C08 readTimed), 4 concurrent callers, " +
		"generated sequences of calls (Read/Write/RemoteAddr/LocalAddr/Header/SetDeadline/Close, going on after errors, 1-4 goroutines) on connections whose stream is several pieces (refused header, well-formed v1/v2, payload) in any order, under every read-header timeout setting incl. 0 = no limit and every way of configuring it (compared with Model.C08 SConn.run), and runs through the full proxy. " +
		"A connection case is non-trivial when the input carries a PROXY signature or the model does not answer 'refused'; an ip/atoi case when Go accepts the text. distinct = distinct canonical inputs (bytes, cuts, transport)")
	for _, c := range core.LoadCorpus(ctx.Root, "C08") {
		Replay(ctx, c)
	}
	workers := 16

	// net.ParseIP / strconv.Atoi against the model
	var ips []ipCase
	for _, s := range append(append(append([]string{}, fixedV4...), fixedV6...), append(badV4, badV6...)...) {
		ips = append(ips, ipCase{Kind: "ip", Text: core.HexS(s)})
	}
	for i, n := 0, ctx.N(20000, 400000); i < n; i++ {
		ips = append(ips, ipCase{Kind: "ip", Text: core.HexS(genIPText(ctx.Rng.Sub()))})
	}
	parallel(ips, workers, func(c ipCase) { checkIP(ctx, c) })
	var ats []atoiCase
	for _, s := range append(append([]string{}, fixedPorts...), oddPorts...) {
		ats = append(ats, atoiCase{Kind: "atoi", Text: core.HexS(s)})
	}
	for i, n := 0, ctx.N(6000, 100000); i < n; i++ {
		ats = append(ats, atoiCase{Kind: "atoi", Text: core.HexS(genAtoiText(ctx.Rng.Sub()))})
	}
	parallel(ats, workers, func(c atoiCase) { checkAtoi(ctx, c) })

	// the whole v2 command x family space (4096 combinations) with a length that fits every family
	var conns []connCase
	for vc := 0; vc < 16; vc++ {
		for fam := 0; fam < 256; fam++ {
			r := ctx.Rng.Sub()
			n := core.Pick(r, []int{36, 40, 12, 216, 0, 52})
			body := r.Bytes(n)
			stream := append(v2Header(byte(0x20|vc), byte(fam), body, n), genPayload(r)...)
			conns = append(conns, connCase{Kind: "conn", Bytes: core.Hex(stream), Via: "pipe", Note: "v2/space", Cuts: genCuts(r, len(stream)), First: core.Pick(r, []string{"read", "addr"}), BufLen: 63})
		}
	}
	ctx.Extra("exhaustive_subspaces", []string{"v2 command nibble x family byte (16 x 256) with one generated length/body each",
		"regression targets: every `PROXY TCP6 a b p q` line of 22-24 bytes over 7 short address spellings x 4 port pairs (the 22-byte line with all 100 one-digit port pairs) x 5 payloads; v2 command nibble (16) x 26 family bytes x 6 lengths"})
	conns = append(conns, regressConnCases(ctx.Rng.Sub())...)

	// every split point of short headers: singles always, pairs and triples in the thorough tier
	for _, h := range shortHeaders {
		stream := append([]byte(h), []byte("hello")...)
		n := len(stream)
		for a := 1; a < n; a++ {
			conns = append(conns, connCase{Kind: "conn", Bytes: core.Hex(stream), Via: "pipe", Note: "split/1", Cuts: []int{a}, BufLen: 63})
			if ctx.Quick() {
				continue
			}
			for b := a + 1; b < n; b++ {
				conns = append(conns, connCase{Kind: "conn", Bytes: core.Hex(stream), Via: "pipe", Note: "split/2", Cuts: []int{a, b}, BufLen: 63})
				if n > 40 {
					continue
				}
				for c := b + 1; c < n; c++ {
					conns = append(conns, connCase{Kind: "conn", Bytes: core.Hex(stream), Via: "pipe", Note: "split/3", Cuts: []int{a, b, c}, BufLen: 63})
				}
			}
		}
	}
	if !ctx.Quick() {
		ctx.Extra("exhaustive_split_points", "every 1- and 2-cut segmentation of 12 short headers + 5 payload bytes; every 3-cut segmentation of those up to 40 bytes")
	} else {
		ctx.Extra("exhaustive_split_points", "every 1-cut segmentation of 12 short headers + 5 payload bytes")
	}
	for i, n := 0, ctx.N(24000, 400000); i < n; i++ {
		conns = append(conns, genConnCase(ctx.Rng.Sub(), "pipe"))
	}
	for i, n := 0, ctx.N(8000, 150000); i < n; i++ {
		conns = append(conns, genConnCase(ctx.Rng.Sub(), "tcp"))
	}
	// slow but in time: three writes 30 ms apart
	for i, n := 0, ctx.N(6, 60); i < n; i++ {
		cc := genConnCase(ctx.Rng.Sub(), "tcp")
		cc.GapUS = 30000
		if len(cc.Cuts) == 0 && len(cc.Bytes) > 8 {
			cc.Cuts = []int{1, 3}
		}
		cc.Note += "/slow"
		conns = append(conns, cc)
	}
	for i := 0; i < 3 && i < len(conns); i++ {
		ctx.Sample(conns[len(conns)-1-i])
	}
	parallel(conns, workers, func(c connCase) { checkConn(ctx, c) })

	// stalled peers
	var stalls []stallCase
	for i, n := 0, ctx.N(28, 400); i < n; i++ {
		r := ctx.Rng.Sub()
		var h []byte
		if i%4 == 3 {
			h, _ = genStream(r)
		} else {
			h = []byte(core.Pick(r, shortHeaders))
		}
		k := 0
		if len(h) > 0 {
			k = r.Intn(len(h))
		}
		if i < 2 {
			k = 0
		}
		stalls = append(stalls, stallCase{Kind: "stall", Bytes: core.Hex(h[:k]), TimeoutMS: 150, Via: core.Pick(r, []string{"read", "addr"}), Connfu: r.Chance(30)})
	}
	// regression targets: a complete 22/23-byte TCP6 line, or an address-less v2 header, then silence:
	// the header is complete, the connection must be accepted (F5: the optimistic read waited for
	// payload; F4: RemoteAddr was nil)
	for _, h := range []string{"PROXY TCP6 :: :: 1 2\r\n", "PROXY TCP6 ::1 :: 1 2\r\n", "PROXY TCP6 :: 1:: 0 9\r\n",
		"\r\n\r\n\x00\r\nQUIT\n\x21\x00\x00\x02\x01\x02", "\r\n\r\n\x00\r\nQUIT\n\x2f\x41\x00\x00"} {
		for _, via := range []string{"read", "addr"} {
			stalls = append(stalls, stallCase{Kind: "stall", Bytes: core.HexS(h), TimeoutMS: 150, Via: via, Connfu: via == "addr" && len(h)%2 == 0})
		}
	}
	ctx.Sample(stalls[0])
	parallel(stalls, 32, func(c stallCase) { checkStall(ctx, c) })

	// trickled headers: pauses that are each shorter than the timeout
	trickles := genTrickleCases(ctx.Rng.Sub(), ctx.Quick())
	ctx.Sample(trickles[0])
	ptrickles := genProxyTrickleCases(ctx.Rng.Sub(), ctx.Quick())
	ctx.Extra("trickled_headers", fmt.Sprintf("%d schedules against Listener/Conn (header timeout %d ms; one pause in time / too long, two pauses of 2/3 timeout, uniform trickles, complete just before / just after the deadline, refused headers, caller contexts; first call Read, Write, RemoteAddr, LocalAddr, Header, WriteTo, ReadFrom or four callers at once; *Conn over TCP and net.Pipe, behind connfu), %d through the full proxy; every wait bounded by the case's own deadline, a failure is filed when it shows %d times in a row",
		len(trickles), trickleTimeoutMS, len(ptrickles), trickleTries))
	lstacks := genLStackCases(ctx.Rng.Sub(), ctx.Quick())
	ctx.Sample(lstacks[len(lstacks)-1])
	ctx.Extra("listener_stackings", fmt.Sprintf("%d cases against forwarder.Listener (net.go Listen/Accept) with the PROXY protocol on: {plain, TLS} x {no limit, read limit, write limit, both; 4-16 KiB/s} x {traffic tracking off, on}, v1 and v2 headers; "+
		"the listener-wide token buckets put into debt (burst of 4 MiB + 0.9-1.2 s of the rate moved by a load connection of the same listener) before a new connection sends header + payload at once, and another stalls inside its header; "+
		"compared with Model.C08 stackRead (productStack cfg); a failure is filed when it shows %d times in a row", len(lstacks), lstackTries))
	var pwg sync.WaitGroup
	pwg.Add(2)
	go func() { defer pwg.Done(); checkProxyTrickle(ctx, ptrickles) }()
	go func() { defer pwg.Done(); parallel(lstacks, 16, func(c lstackCase) { checkLStack(ctx, c) }) }()
	parallel(trickles, 32, func(c trickleCase) { checkTrickle(ctx, c) })
	pwg.Wait()

	// operation sequences on one connection: streams of several pieces, every read-header timeout setting
	seqs := seqFixed()
	for i, n := 0, ctx.N(2500, 60000); i < n; i++ {
		seqs = append(seqs, genSeqCase(ctx.Rng.Sub()))
	}
	ctx.Sample(seqs[len(seqs)-1])
	ctx.Extra("operation_sequences", fmt.Sprintf("%d connections: stream = 1-4 pieces of {rejected header (no signature, bad v1 field, over-long v1 line, v2 AF_UNIX / zero length / short address block / version / length > 2048), well-formed v1, well-formed v2, payload, generated header} in any order, sent in 1-4 writes or only 1-12 bytes of it with the rest arriving later; "+
		"read-header timeout in {0, 0s, 0ms, 40ms, 150ms, 2s, 5s, 1m, default} set through proxyproto.Listener's fields (with and without connfu), forwarder.Listener's ListenerConfig.ProxyProtocolConfig, or the flag set command/run registers (bind.ProxyProtocol: --proxy-protocol-read-header-timeout); "+
		"2-12 calls in generated order (Read with 1-4096 byte buffers, RemoteAddr, LocalAddr, Write, Header, SetDeadline, Close, going on after errors) from 1-4 goroutines; every answer compared with Model.C08 SConn.run .latch; a failure is filed when it shows %d times in a row", len(seqs), seqTries))
	parallel(seqs, 32, func(c seqCase) { checkSeq(ctx, c) })

	// concurrent callers
	var concs []concCase
	for i, n := 0, ctx.N(16, 400); i < n; i++ {
		r := ctx.Rng.Sub()
		var stream []byte
		if i%3 == 2 {
			stream, _ = genStream(r)
		} else {
			stream = append([]byte(core.Pick(r, shortHeaders)), genPayload(r)...)
		}
		cuts := genCuts(r, len(stream))
		concs = append(concs, concCase{Kind: "conc", Bytes: core.Hex(stream), Cuts: cuts, GapUS: core.Pick(r, []int{200, 1000, 3000})})
	}
	ctx.Sample(concs[0])
	parallel(concs, 8, func(c concCase) { checkConc(ctx, c) })

	runProxyCases(ctx)
}

func Replay(ctx *core.Ctx, raw json.RawMessage) {
	var k struct {
		Kind string `json:"kind"`
	}
	json.Unmarshal(raw, &k)
	switch k.Kind {
	case "ip":
		var c ipCase
		json.Unmarshal(raw, &c)
		checkIP(ctx, c)
	case "atoi":
		var c atoiCase
		json.Unmarshal(raw, &c)
		checkAtoi(ctx, c)
	case "conn":
		var c connCase
		json.Unmarshal(raw, &c)
		checkConn(ctx, c)
	case "stall":
		var c stallCase
		json.Unmarshal(raw, &c)
		checkStall(ctx, c)
	case "conc":
		var c concCase
		json.Unmarshal(raw, &c)
		checkConc(ctx, c)
	case "opseq":
		var c seqCase
		json.Unmarshal(raw, &c)
		checkSeq(ctx, c)
	case "trickle":
		var c trickleCase
		json.Unmarshal(raw, &c)
		checkTrickle(ctx, c)
	case "lstack":
		var c lstackCase
		json.Unmarshal(raw, &c)
		checkLStack(ctx, c)
	case "ptrickle":
		var c ptrickleCase
		json.Unmarshal(raw, &c)
		checkProxyTrickle(ctx, []ptrickleCase{c})
	case "proxy":
		var c proxyCase
		json.Unmarshal(raw, &c)
		checkProxy(ctx, c)
	case "proxy-crash":
		var c proxyCase
		json.Unmarshal(raw, &c)
		checkProxyCrash(ctx, c)
	default:
		core.Fatalf("C08: unknown case kind %q", k.Kind)
	}
}
