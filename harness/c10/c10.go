// Package c10 — "HTTP/2 relay preserves every stream's headers, data, END_STREAM, order, delivery".
// Rig, generator, trace encoding and evaluation are shared with C09 (package h2rig); the Lean side
// is Model/H2Relay.lean (+ H2Check.lean), Theorems/C10.lean.
package c10

import (
	"encoding/json"

	"github.com/saucelabs/forwarder/verifharness/core"
	"github.com/saucelabs/forwarder/verifharness/h2rig"
)

func init() { core.Register("C10", core.Scenario{Run: Run, Replay: Replay}) }

const rule = "stream scripts over raw HTTP/2 frames (20-400 ops, 1-6 concurrent streams, both directions) through h2.Config.Proxy: header blocks of " +
	"0-40 KiB split by the sender at random points (HEADERS + CONTINUATION, also empty fragments), priorities, padding, bodies, trailers, empty END_STREAM " +
	"DATA, RST_STREAM, PRIORITY, PUSH_PROMISE, HEADER_TABLE_SIZE changes (incl. episodes: raised to 8192-65536, taken up by the peer's raw encoder - size update at the " +
	"start of its block, entries beyond 4096 octets, indexed references to them -, lowered to 4096/1024/0 with the peer's next block in flight, beginning with the old larger " +
	"size update, before or after its ACK), PING/GOAWAY/SETTINGS/ACK; receivers decode with their own hpack.Decoder; window " +
	"grants arrive late and in small steps; an epilogue opens every window and everything must have arrived by its barrier. Beside them, in child processes " +
	"of their own: a concurrent family (bursts without barriers, every window open: a header block of 32-512 KiB - HEADERS, trailers, PUSH_PROMISE - followed by " +
	"PING / SETTINGS / ACK / GOAWAY of the same endpoint while the other endpoint writes DATA, PINGs or a large block of its own, started by the arrival of the " +
	"block's first frame; the order of ARRIVAL is judged for RFC 7540 6.10) and an end-to-end family (the relay behind martian.Proxy: CONNECT, interception, " +
	"TLS with ALPN h2; IdleTimeout / ReadTimeout / ReadHeaderTimeout / WriteTimeout unset or 300-500 ms, with and without MITMTLSHandshakeTimeout; the " +
	"connection is kept silent or busy for 3-5 times the largest and then used again). In all three families the relay's options are drawn per case " +
	"(h2.Config.EnableDebugLogs on/off; StreamProcessorFactories none / a bypassed factory / pass-through processors / both chained) and every header field draws " +
	"its sender's HPACK representation (x/net's encoder: indexed, incremental indexing, never indexed for sensitive fields; the rig's own writer: literal without " +
	"indexing / never indexed, name as static index or literal, Huffman where shorter / always / never); names, values and never-indexed marks must arrive. A case is non-trivial when at " +
	"least one frame was held by the relay and released later; distinct = distinct observed traces"

func Run(ctx *core.Ctx) {
	ctx.SetRule(rule)
	ctx.Assume("golang.org/x/net/http2 Framer and hpack (used by the relay and by the raw endpoints) are trusted, in particular the HPACK round trip when encoder and decoder see the same table-size updates; the barrier argument: a PRIORITY frame travels through the relay's per-direction output channel and single writer, so its arrival proves earlier releases arrived")
	h2rig.Run(ctx, "C10", 500, 12000, false)
}

func Replay(ctx *core.Ctx, c json.RawMessage) { h2rig.ReplayOne(ctx, "C10", c) }
