// Package reqmodel mirrors the types of lean/FwdVerif/Model/Req.lean on the Go side: it encodes a
// (configuration, connection context, request) triple for the `REQ process` verb of the model driver
// and decodes the outcome. Shared by the C01, C04, C05, C06 and C18 scenarios.
package reqmodel

import (
	"bytes"
	"encoding/json"
	"fmt"
	"sort"
	"strings"

	"github.com/saucelabs/forwarder/verifharness/core"
	"github.com/saucelabs/forwarder/verifharness/rig"
)

type Cfg struct {
	Tag          string   `json:"tag"`
	Name         string   `json:"name"`
	AuthUser     string   `json:"auth_user,omitempty"`
	AuthPass     string   `json:"auth_pass,omitempty"`
	HasAuth      bool     `json:"has_auth,omitempty"`
	TimeAllowed  bool     `json:"time_allowed"`
	DenyLocal    bool     `json:"deny_local,omitempty"`
	LocalNames   []string `json:"local_names,omitempty"`
	DenyExact    []string `json:"deny_exact,omitempty"`
	Rules        []string `json:"rules,omitempty"`
	ConnectRules []string `json:"connect_rules,omitempty"`
	SiteCred     *string  `json:"site_cred,omitempty"` // Authorization value, if a --credentials entry matches the target
	Upstream     string   `json:"upstream,omitempty"`  // "" | host:port of an HTTP proxy
	UpstreamAuth *string  `json:"upstream_auth,omitempty"`
	// --- C04/C05/C06 extensions (zero values leave the C01 encoding unchanged) ---
	UpstreamKind string    `json:"upstream_kind,omitempty"`   // "" (= http when Upstream is set) | "https" | "socks5" | "other" | "failed"
	UpstreamSch  string    `json:"upstream_scheme,omitempty"` // scheme for kind "other"
	SocksUser    *string   `json:"socks_user,omitempty"`
	SocksPass    *string   `json:"socks_pass,omitempty"`
	DenyRules    []DomRule `json:"deny_rules,omitempty"`
	MITM         bool      `json:"mitm,omitempty"`
}

type Ctx struct {
	ClientIP string `json:"client_ip"`
	Secure   bool   `json:"secure,omitempty"`
	// RemoteAddr, when set, is the connection's peer address as the runtime renders it ("127.0.0.1:4711",
	// "[2001:db8::1]:51000"): the model then derives the client host from it the way the code does
	// (Req.connCtx / peerHost) instead of taking ClientIP.
	RemoteAddr string `json:"remote_addr,omitempty"`
}

type Request struct {
	Method    string      `json:"method"`
	Minor     int         `json:"minor"`
	Absolute  bool        `json:"absolute,omitempty"`
	Scheme    string      `json:"scheme,omitempty"`
	Authority string      `json:"authority,omitempty"`
	Path      string      `json:"path"`
	Query     *string     `json:"query,omitempty"`
	Fields    []rig.Field `json:"fields"`
	// body (opaque to the model; framing is derived from Fields)
	BodyHex  string      `json:"body_hex,omitempty"`
	Chunked  bool        `json:"chunked,omitempty"`
	ChunkSzs []int       `json:"chunk_sizes,omitempty"`
	Trailers []rig.Field `json:"trailers,omitempty"`
}

func (r *Request) Body() []byte { return core.MustUnHex(orEmpty(r.BodyHex)) }

func orEmpty(s string) string {
	if s == "" {
		return "_"
	}
	return s
}

// TargetString renders the request-target as sent on the wire.
func (r *Request) TargetString() string {
	t := r.Path
	if r.Query != nil {
		t += "?" + *r.Query
	}
	if r.Absolute {
		t = r.Scheme + "://" + r.Authority + t
	}
	return t
}

// Wire serialises the request as the raw client sends it.
func (r *Request) Wire() []byte {
	var b bytes.Buffer
	fmt.Fprintf(&b, "%s %s HTTP/1.%d\r\n", r.Method, r.TargetString(), r.Minor)
	for _, f := range r.Fields {
		fmt.Fprintf(&b, "%s: %s\r\n", f.Name, f.Value)
	}
	b.WriteString("\r\n")
	body := r.Body()
	if r.Chunked {
		b.Write(rig.ChunkEncode(body, r.ChunkSzs, r.Trailers))
	} else {
		b.Write(body)
	}
	return b.Bytes()
}

func optHex(s *string) string {
	if s == nil {
		return "~"
	}
	return core.HexS(*s)
}

// Tokens renders the key=value tokens of the `REQ process` verb.
func Tokens(c *Cfg, x *Ctx, r *Request) []string {
	t := []string{
		"tag=" + core.HexS(c.Tag), "name=" + core.HexS(c.Name),
		"time=" + core.B01(c.TimeAllowed), "denylocal=" + core.B01(c.DenyLocal),
		"localnames=" + core.HexList(c.LocalNames), "deny=" + core.HexList(c.DenyExact),
		"rules=" + core.HexList(c.Rules), "crules=" + core.HexList(c.ConnectRules),
		"sitecred=" + optHex(c.SiteCred),
		"ip=" + core.HexS(x.ClientIP), "secure=" + core.B01(x.Secure),
		"method=" + core.HexS(r.Method), "minor=" + core.Itoa(r.Minor),
		"path=" + core.HexS(r.Path), "query=" + optHex(r.Query),
	}
	if x.RemoteAddr != "" {
		t = append(t, "remote="+core.HexS(x.RemoteAddr))
	}
	if c.HasAuth {
		t = append(t, "auth="+core.JoinList([]string{core.HexS(c.AuthUser), core.HexS(c.AuthPass)}))
	}
	switch {
	case c.UpstreamKind == "failed":
		t = append(t, "upstream=failed")
	case c.Upstream == "":
	case c.UpstreamKind == "" || c.UpstreamKind == "http":
		t = append(t, "upstream="+core.JoinList([]string{"http", core.HexS(c.Upstream), optHex(c.UpstreamAuth)}))
	case c.UpstreamKind == "https":
		t = append(t, "upstream="+core.JoinList([]string{"https", core.HexS(c.Upstream), optHex(c.UpstreamAuth)}))
	case c.UpstreamKind == "socks5":
		if c.SocksUser == nil {
			t = append(t, "upstream="+core.JoinList([]string{"socks5", core.HexS(c.Upstream), "~"}))
		} else {
			pw := ""
			if c.SocksPass != nil {
				pw = *c.SocksPass
			}
			t = append(t, "upstream="+core.JoinList([]string{"socks5", core.HexS(c.Upstream), core.HexS(*c.SocksUser), core.HexS(pw)}))
		}
	case c.UpstreamKind == "other":
		t = append(t, "upstream="+core.JoinList([]string{"other", core.HexS(c.UpstreamSch), core.HexS(c.Upstream), optHex(c.UpstreamAuth)}))
	}
	if len(c.DenyRules) > 0 {
		t = append(t, "denyrules="+DomRulesToken(c.DenyRules))
	}
	if c.MITM {
		t = append(t, "mitm=1")
	}
	if r.Absolute {
		t = append(t, "target="+core.JoinList([]string{"abs", core.HexS(r.Scheme), core.HexS(r.Authority)}))
	}
	var fs []string
	for _, f := range r.Fields {
		fs = append(fs, core.JoinList([]string{core.HexS(f.Name), core.HexS(f.Value)}))
	}
	t = append(t, "fields="+core.JoinList2(fs))
	return t
}

// Outcome is the decoded answer of the model.
type Outcome struct {
	Kind    string              `json:"kind"` // "fwd" | "refused" | "badreq" | "unreadable"
	Status  int                 `json:"status,omitempty"`
	Why     string              `json:"why,omitempty"`
	HopKind string              `json:"hop_kind,omitempty"` // "direct" | "proxy"
	Hop     string              `json:"hop,omitempty"`
	Method  string              `json:"method,omitempty"`
	Target  string              `json:"target,omitempty"`
	Framing int                 `json:"framing,omitempty"`
	Fields  map[string][]string `json:"fields,omitempty"`
	// Actions and error headers are filled by the `request`/`connect` verbs (AskRequest, AskConnect).
	Actions  []Action            `json:"actions,omitempty"`
	ErrBuilt map[string][]string `json:"err_built,omitempty"`
	ErrRecv  map[string][]string `json:"err_recv,omitempty"`
}

func Ask(m *core.Model, c *Cfg, x *Ctx, r *Request) Outcome {
	ans := m.MustAsk(append([]string{"REQ", "process"}, Tokens(c, x, r)...)...)
	return decodeOutcome(ans, strings.Fields(ans))
}

// SeqEvent is one message handled by the process in a history (Model/ReqSeq.lean `Event`): a client request read
// by the listener with configuration Cfg on a connection described by Ctx, or (RespFields set, the rest nil) an
// origin response passing through.
type SeqEvent struct {
	Cfg        *Cfg
	Ctx        *Ctx
	Req        *Request
	RespFields []rig.Field
}

// AskSequence gives a whole history to the model at once (`REQ sequence`: `runProcess` folded over the events)
// and returns the outcomes of the request events, in order.
func AskSequence(m *core.Model, evs []SeqEvent) []Outcome {
	line := []string{"REQ", "sequence"}
	nreq := 0
	for i, ev := range evs {
		if i > 0 {
			line = append(line, "|")
		}
		if ev.Req == nil {
			var fs []string
			for _, f := range ev.RespFields {
				fs = append(fs, core.JoinList([]string{core.HexS(f.Name), core.HexS(f.Value)}))
			}
			line = append(line, "resp", "fields="+core.JoinList2(fs))
			continue
		}
		nreq++
		line = append(line, "req")
		line = append(line, Tokens(ev.Cfg, ev.Ctx, ev.Req)...)
	}
	ans := m.MustAsk(line...)
	var outs []Outcome
	for _, part := range strings.Split(ans, " | ") {
		f := strings.Fields(part)
		if len(f) == 0 || f[0] == "resp" {
			continue
		}
		outs = append(outs, decodeOutcome(part, f))
	}
	if len(outs) != nreq {
		core.Fatalf("REQ sequence: %d outcomes for %d requests: %q", len(outs), nreq, ans)
	}
	return outs
}

func decodeOutcome(ans string, f []string) Outcome {
	switch f[0] {
	case "routeerr", "mitm", "tunnel":
		return Outcome{Kind: f[0]}
	case "refused":
		var st int
		fmt.Sscan(f[1], &st)
		return Outcome{Kind: "refused", Status: st, Why: f[2]}
	case "badreq", "unreadable", "nohost", "srvbadreq":
		// nohost / srvbadreq: only the `C04 request … server=` verb (Model/C04.lean VOutcome)
		return Outcome{Kind: f[0]}
	case "fwd":
		o := Outcome{Kind: "fwd", HopKind: f[1], Hop: string(core.MustUnHex(f[2])), Method: string(core.MustUnHex(f[3])),
			Target: string(core.MustUnHex(f[4])), Fields: map[string][]string{}}
		fmt.Sscan(f[5], &o.Framing)
		for _, e := range core.SplitList2(f[6]) {
			atoms := core.SplitList(e)
			k := string(core.MustUnHex(atoms[0]))
			vs := []string{}
			for _, a := range atoms[1:] {
				vs = append(vs, string(core.MustUnHex(a)))
			}
			o.Fields[k] = vs
		}
		return o
	}
	core.Fatalf("unparsable model outcome %q", ans)
	return Outcome{}
}

// ObservedFields canonicalises what a hop received: lower-case name -> values in wire order.
func ObservedFields(m *rig.Msg) map[string][]string { return m.FieldMap() }

// FieldsJSON renders a field map canonically (sorted keys).
func FieldsJSON(fm map[string][]string) string {
	keys := make([]string, 0, len(fm))
	for k := range fm {
		keys = append(keys, k)
	}
	sort.Strings(keys)
	var b strings.Builder
	b.WriteByte('{')
	for i, k := range keys {
		if i > 0 {
			b.WriteByte(',')
		}
		kb, _ := json.Marshal(k)
		vb, _ := json.Marshal(fm[k])
		b.Write(kb)
		b.WriteByte(':')
		b.Write(vb)
	}
	b.WriteByte('}')
	return b.String()
}

// DiffFields lists the names on which two field maps differ.
func DiffFields(a, b map[string][]string) []string {
	seen := map[string]bool{}
	var out []string
	for k, va := range a {
		seen[k] = true
		if vb, ok := b[k]; !ok || strings.Join(va, "\x00") != strings.Join(vb, "\x00") || len(va) != len(vb) {
			out = append(out, k)
		}
	}
	for k := range b {
		if !seen[k] {
			out = append(out, k)
		}
	}
	sort.Strings(out)
	return out
}
