package reqmodel

import (
	"bytes"
	"context"
	"encoding/base64"
	"encoding/json"
	"fmt"
	"net/http"
	"net/url"
	"regexp"
	"strconv"
	"strings"
	"time"

	"github.com/prometheus/client_golang/prometheus"
	"github.com/saucelabs/forwarder"
	"github.com/saucelabs/forwarder/header"
	"github.com/saucelabs/forwarder/ruleset"
	"github.com/saucelabs/forwarder/verifharness/core"
	"github.com/saucelabs/forwarder/verifharness/rig"
)

// ---- domain rule lists (Req.DomRule) ----

// DomRule is one entry of --deny-domains / --direct-domains in one of the shapes the model covers.
type DomRule struct {
	Kind    string `json:"kind"` // e(xact) | s(uffix) | p(refix) | c(ontains) | a(ll)
	Lit     string `json:"lit,omitempty"`
	Exclude bool   `json:"exclude,omitempty"`
}

// Regexp renders the rule the way it is written on the command line (leading '-' = exclusion).
func (d DomRule) Regexp() string {
	q := regexp.QuoteMeta(d.Lit)
	var re string
	switch d.Kind {
	case "e":
		re = "^" + q + "$"
	case "s":
		re = q + "$"
	case "p":
		re = "^" + q
	case "c":
		re = q
	default:
		re = ".*"
	}
	if d.Exclude {
		return "-" + re
	}
	return re
}

// MatchSpec evaluates a rule list by its documented meaning, independently of the code under test:
// some inclusion matches and no exclusion does.
func MatchSpec(rs []DomRule, s string) bool {
	one := func(d DomRule) bool {
		switch d.Kind {
		case "e":
			return s == d.Lit
		case "s":
			return strings.HasSuffix(s, d.Lit)
		case "p":
			return strings.HasPrefix(s, d.Lit)
		case "c":
			return strings.Contains(s, d.Lit)
		}
		return true
	}
	inc := false
	for _, r := range rs {
		if one(r) {
			if r.Exclude {
				return false
			}
			inc = true
		}
	}
	return inc
}

// ---- --direct-domains as the rule list it is (C17.Rule) ----

// DirectValues are the values of --direct-domains as written on the command line (a leading '-' marks an
// exclude rule): DirectRaw when the case gives real rule texts, else the rendering of the shaped rules.
func (rc *RouteCfg) DirectValues() []string {
	if rc.DirectRaw != nil {
		return rc.DirectRaw
	}
	var out []string
	for _, d := range rc.Direct {
		out = append(out, d.Regexp())
	}
	return out
}

// RawRulesToken renders flag values as C17's rule list: `+<hex>` include, `-<hex>` exclude.
func RawRulesToken(vals []string) string {
	var as []string
	for _, v := range vals {
		if strings.HasPrefix(v, "-") {
			as = append(as, "-"+core.HexS(v[1:]))
		} else {
			as = append(as, "+"+core.HexS(v))
		}
	}
	return core.JoinList(as)
}

// RawMatcher builds the real ruleset matcher from flag values, the way the flag is read.
func RawMatcher(vals []string) (*ruleset.RegexpMatcher, error) {
	var items []ruleset.RegexpListItem
	for _, v := range vals {
		it, err := ruleset.ParseRegexpListItem(v)
		if err != nil {
			return nil, err
		}
		items = append(items, it)
	}
	return ruleset.NewRegexpMatcherFromList(items)
}

// MatchSpecRaw evaluates flag values by the documented meaning of a rule list, independently of the code
// under test: ONE regexp per rule, some include rule matches on its own and no exclude rule does.
func MatchSpecRaw(vals []string, s string) (bool, error) {
	inc, exc := false, false
	for _, v := range vals {
		src, excl := strings.CutPrefix(v, "-")
		re, err := regexp.Compile(src)
		if err != nil {
			return false, err
		}
		if re.MatchString(s) {
			if excl {
				exc = true
			} else {
				inc = true
			}
		}
	}
	return inc && !exc, nil
}

func DomRulesToken(rs []DomRule) string {
	var es []string
	for _, r := range rs {
		es = append(es, core.JoinList([]string{r.Kind, core.HexS(r.Lit), core.B01(r.Exclude)}))
	}
	return core.JoinList2(es)
}

// Matcher builds the real ruleset matcher for the rules.
func Matcher(rs []DomRule) (*ruleset.RegexpMatcher, error) {
	var items []ruleset.RegexpListItem
	for _, r := range rs {
		it, err := ruleset.ParseRegexpListItem(r.Regexp())
		if err != nil {
			return nil, err
		}
		items = append(items, it)
	}
	return ruleset.NewRegexpMatcherFromList(items)
}

// ---- CONNECT requests ----

type ConnectReq struct {
	Authority string      `json:"authority"`
	Minor     int         `json:"minor"`
	Fields    []rig.Field `json:"fields"`
}

func (c *ConnectReq) Wire() []byte {
	var b bytes.Buffer
	fmt.Fprintf(&b, "CONNECT %s HTTP/1.%d\r\n", c.Authority, c.Minor)
	for _, f := range c.Fields {
		fmt.Fprintf(&b, "%s: %s\r\n", f.Name, f.Value)
	}
	b.WriteString("\r\n")
	return b.Bytes()
}

func fieldsToken(fs []rig.Field) string {
	var out []string
	for _, f := range fs {
		out = append(out, core.JoinList([]string{core.HexS(f.Name), core.HexS(f.Value)}))
	}
	return "fields=" + core.JoinList2(out)
}

func connectTokens(c *ConnectReq) []string {
	return []string{"authority=" + core.HexS(c.Authority), "minor=" + core.Itoa(c.Minor), fieldsToken(c.Fields)}
}

// cfgTokens are the configuration/context tokens alone.
func cfgTokens(c *Cfg, x *Ctx) []string {
	dummy := &Request{Method: "GET", Minor: 1, Path: "/"}
	all := Tokens(c, x, dummy)
	var out []string
	for _, t := range all {
		switch {
		case strings.HasPrefix(t, "method="), strings.HasPrefix(t, "minor="), strings.HasPrefix(t, "path="),
			strings.HasPrefix(t, "query="), strings.HasPrefix(t, "target="), strings.HasPrefix(t, "fields="):
		default:
			out = append(out, t)
		}
	}
	return out
}

// ---- upstream actions ----

type Sent struct {
	Recv   string              `json:"recv"` // "origin" | "proxy"
	Setup  bool                `json:"setup,omitempty"`
	Method string              `json:"method"`
	Target string              `json:"target"`
	Fields map[string][]string `json:"fields"`
}

type Action struct {
	Via         string  `json:"via"` // direct | http | https | socks5
	HopAddr     string  `json:"hop_addr"`
	SocksTarget *string `json:"socks_target,omitempty"`
	SocksUser   *string `json:"socks_user,omitempty"`
	SocksPass   *string `json:"socks_pass,omitempty"`
	Sent        []Sent  `json:"sent,omitempty"`
}

func decodeFieldMap(s string) map[string][]string {
	out := map[string][]string{}
	for _, e := range core.SplitList2(s) {
		atoms := core.SplitList(e)
		k := string(core.MustUnHex(atoms[0]))
		vs := []string{}
		for _, a := range atoms[1:] {
			vs = append(vs, string(core.MustUnHex(a)))
		}
		out[k] = vs
	}
	return out
}

// decodeActions parses `actions <n> A … S … …`.
func decodeActions(f []string) []Action {
	if len(f) < 2 || f[0] != "actions" {
		core.Fatalf("unparsable actions %q", strings.Join(f, " "))
	}
	n, _ := strconv.Atoi(f[1])
	i := 2
	var out []Action
	for k := 0; k < n; k++ {
		if i+5 >= len(f)+0 && i+5 > len(f) || f[i] != "A" {
			core.Fatalf("unparsable action in %q", strings.Join(f, " "))
		}
		a := Action{Via: f[i+1], HopAddr: string(core.MustUnHex(f[i+2]))}
		if f[i+3] != "~" {
			t := string(core.MustUnHex(f[i+3]))
			a.SocksTarget = &t
		}
		if f[i+4] != "~" {
			up := core.SplitList(f[i+4])
			u, p := string(core.MustUnHex(up[0])), string(core.MustUnHex(up[1]))
			a.SocksUser, a.SocksPass = &u, &p
		}
		ns, _ := strconv.Atoi(f[i+5])
		i += 6
		for j := 0; j < ns; j++ {
			if i+5 >= len(f)+1 || f[i] != "S" {
				core.Fatalf("unparsable sent in %q", strings.Join(f, " "))
			}
			a.Sent = append(a.Sent, Sent{Recv: f[i+1], Setup: f[i+2] == "1", Method: string(core.MustUnHex(f[i+3])),
				Target: string(core.MustUnHex(f[i+4])), Fields: decodeFieldMap(f[i+5])})
			i += 6
		}
		out = append(out, a)
	}
	return out
}

// decodeAnswer parses `<outcome> # <actions> [# built=… recv=…]`.
func decodeAnswer(ans string) Outcome {
	parts := strings.Split(ans, " # ")
	o := decodeOutcome(ans, strings.Fields(parts[0]))
	if len(parts) > 1 {
		o.Actions = decodeActions(strings.Fields(parts[1]))
	}
	if len(parts) > 2 {
		for _, kv := range strings.Fields(parts[2]) {
			if v, ok := strings.CutPrefix(kv, "built="); ok {
				o.ErrBuilt = decodeFieldMap(v)
			}
			if v, ok := strings.CutPrefix(kv, "recv="); ok {
				o.ErrRecv = decodeFieldMap(v)
			}
		}
	}
	return o
}

// TimeFrame mirrors ruleset.TimeFrameEntry.
type TimeFrame struct {
	Weekday, HourStart, HourEnd int
}

// Clock carries the time-frame control for the C04 verbs: entries and "now" (weekday, hour).
type Clock struct {
	Entries []TimeFrame `json:"entries"`
	Weekday int         `json:"weekday"`
	Hour    int         `json:"hour"`
	// At: instead of the weekday and hour the harness read, give the model the instant (Unix
	// seconds) and the local zone's offset (seconds east of UTC) and let it read the local wall
	// clock itself (`at=unix,offset`, Model/C04.lean timeAllowedAt).
	At     bool  `json:"at,omitempty"`
	Unix   int64 `json:"unix,omitempty"`
	Offset int   `json:"offset,omitempty"`
	// HostsFile: the other piece of the process environment the C04 verbs know — when set, the model composes
	// the localhost names itself from the hosts file's records (`hostsrec=`, Model/C04.lean hpLocalhost)
	// instead of taking Cfg.LocalNames
	HostsFile bool          `json:"hosts_file,omitempty"`
	Hosts     []HostsRecord `json:"hosts,omitempty"`
}

func (k *Clock) tokens() []string {
	if k == nil {
		return nil
	}
	var es []string
	for _, e := range k.Entries {
		es = append(es, fmt.Sprintf("%d-%d-%d", e.Weekday, e.HourStart, e.HourEnd))
	}
	var hosts []string
	if k.HostsFile {
		hosts = []string{"hostsrec=" + HostsRecordsToken(k.Hosts)}
	}
	if k.At {
		return append([]string{"tf=" + core.JoinList(es), "at=" + core.JoinList([]string{fmt.Sprint(k.Unix), fmt.Sprint(k.Offset)})}, hosts...)
	}
	return append([]string{"tf=" + core.JoinList(es), "now=" + core.JoinList([]string{core.Itoa(k.Weekday), core.Itoa(k.Hour)})}, hosts...)
}

// AskRequest: `C04 request` — outcome, upstream actions and (for refusals) error header fields of a
// non-CONNECT request under a resolved configuration.
func AskRequest(m *core.Model, c *Cfg, k *Clock, x *Ctx, r *Request) Outcome {
	t := append([]string{"C04", "request"}, Tokens(c, x, r)...)
	t = append(t, k.tokens()...)
	return decodeAnswer(m.MustAsk(t...))
}

// AskConnect: `C04 connect`.
func AskConnect(m *core.Model, c *Cfg, k *Clock, x *Ctx, cr *ConnectReq) Outcome {
	t := append([]string{"C04", "connect"}, cfgTokens(c, x)...)
	t = append(t, connectTokens(cr)...)
	t = append(t, k.tokens()...)
	return decodeAnswer(m.MustAsk(t...))
}

// AskRequestOn / AskConnectOn: the same on a serving path of the proxy (Model/C04.lean ServerVariant): server "" =
// the connection loop, answered by the verbs above; "handler" = martian's http.Handler under net/http's server
// (HTTPProxyConfig.TestingHTTPHandler), outcome kinds "nohost" (the proxy's own error response: the URL has no host
// to dial) and "srvbadreq" (net/http's server answers 400 itself) in addition.
func AskRequestOn(m *core.Model, server string, c *Cfg, k *Clock, x *Ctx, r *Request) Outcome {
	if server == "" {
		return AskRequest(m, c, k, x, r)
	}
	t := append([]string{"C04", "request"}, Tokens(c, x, r)...)
	t = append(t, k.tokens()...)
	t = append(t, "server="+server)
	return decodeAnswer(m.MustAsk(t...))
}

func AskConnectOn(m *core.Model, server string, c *Cfg, k *Clock, x *Ctx, cr *ConnectReq) Outcome {
	if server == "" {
		return AskConnect(m, c, k, x, cr)
	}
	t := append([]string{"C04", "connect"}, cfgTokens(c, x)...)
	t = append(t, connectTokens(cr)...)
	t = append(t, k.tokens()...)
	t = append(t, "server="+server)
	return decodeAnswer(m.MustAsk(t...))
}

// ---- whole configuration (C05.RouteCfg, C06.FullCfg) ----

type ProxyURL struct {
	Scheme string  `json:"scheme"`
	Host   string  `json:"host"`
	User   *string `json:"user,omitempty"`
	Pass   *string `json:"pass,omitempty"`
}

func (u *ProxyURL) atoms() []string {
	if u == nil {
		return []string{"none"}
	}
	if u.User == nil {
		return []string{core.HexS(u.Scheme), core.HexS(u.Host), "~"}
	}
	pw := ""
	if u.Pass != nil {
		pw = *u.Pass
	}
	return []string{core.HexS(u.Scheme), core.HexS(u.Host), core.HexS(*u.User), core.HexS(pw)}
}

// URL renders the proxy URL for forwarder's configuration.
func (u *ProxyURL) URL() *url.URL {
	v := &url.URL{Scheme: u.Scheme, Host: u.Host}
	if u.User != nil {
		if u.Pass != nil {
			v.User = url.UserPassword(*u.User, *u.Pass)
		} else {
			v.User = url.User(*u.User)
		}
	}
	return v
}

type PacResult struct {
	Fail   string `json:"fail,omitempty"` // "" | "throw" | "number"
	Return string `json:"return"`
}

func (p PacResult) atoms() []string {
	if p.Fail != "" {
		return []string{"fail"}
	}
	return []string{"ok", core.HexS(p.Return)}
}

type PacEntry struct {
	Host string    `json:"host"`
	R    PacResult `json:"r"`
}

// PacCond is a condition of a generated PAC script over FindProxyForURL's two arguments
// (C05.UrlCond): H host == Lit | h shExpMatch(host, Lit) | G shExpMatch(url, Lit) |
// P url.substring(0, len(Lit)) == Lit | C url.indexOf(Lit) >= 0 | N !(Args[0]) | A (Args[0]) && (Args[1]).
type PacCond struct {
	Op   string    `json:"op"`
	Lit  string    `json:"lit,omitempty"`
	Args []PacCond `json:"args,omitempty"`
}

// JS renders the condition as JavaScript.
func (c PacCond) JS() string {
	lit, _ := json.Marshal(c.Lit)
	switch c.Op {
	case "H":
		return "host == " + string(lit)
	case "h":
		return "shExpMatch(host, " + string(lit) + ")"
	case "G":
		return "shExpMatch(url, " + string(lit) + ")"
	case "P":
		return fmt.Sprintf("url.substring(0, %d) == %s", len(c.Lit), lit)
	case "C":
		return "url.indexOf(" + string(lit) + ") >= 0"
	case "N":
		return "!(" + c.Args[0].JS() + ")"
	case "A":
		return "(" + c.Args[0].JS() + ") && (" + c.Args[1].JS() + ")"
	}
	return "false"
}

func (c PacCond) atoms() []string {
	switch c.Op {
	case "N":
		return append([]string{"N"}, c.Args[0].atoms()...)
	case "A":
		return append(append([]string{"A"}, c.Args[0].atoms()...), c.Args[1].atoms()...)
	}
	return []string{c.Op, core.HexS(c.Lit)}
}

// PacRule is `if (Cond) { R }`; the rules come before the host table in the script.
type PacRule struct {
	Cond PacCond   `json:"cond"`
	R    PacResult `json:"r"`
}

type CustomEntry struct {
	Host string    `json:"host"`
	URL  *ProxyURL `json:"url"`
}

type HostPortPair struct {
	SrcHost string `json:"src_host"`
	SrcPort string `json:"src_port"`
	DstHost string `json:"dst_host"`
	DstPort string `json:"dst_port"`
}

type RouteCfg struct {
	Base            string         `json:"base"` // none | static | pac | custom
	Static          *ProxyURL      `json:"static,omitempty"`
	PacRules        []PacRule      `json:"pac_rules,omitempty"` // conditions on url/host, in front of the host table
	PacTable        []PacEntry     `json:"pac_table,omitempty"`
	PacDefault      PacResult      `json:"pac_default"`
	CustomTable     []CustomEntry  `json:"custom_table,omitempty"`
	CustomDefault   *ProxyURL      `json:"custom_default,omitempty"`
	DirectSet       bool           `json:"direct_set,omitempty"`
	Direct          []DomRule      `json:"direct,omitempty"`
	DirectRaw       []string       `json:"direct_raw,omitempty"` // real rule texts ('-' prefix = exclude); wins over Direct
	LocalhostDirect bool           `json:"localhost_direct,omitempty"`
	ConnectTo       []HostPortPair `json:"connect_to,omitempty"`
}

type Cred struct {
	Host string `json:"host"`
	Port string `json:"port"` // "0" = wildcard
	User string `json:"user"`
	Pass string `json:"pass"`
}

type FullCfg struct {
	Base  Cfg      `json:"base"`
	Route RouteCfg `json:"route"`
	Creds []Cred   `json:"creds,omitempty"`
}

func RouteTokens(rc *RouteCfg, localNames []string) []string {
	t := []string{"lhdirect=" + core.B01(rc.LocalhostDirect)}
	switch rc.Base {
	case "static":
		t = append(t, "base="+core.JoinList(append([]string{"static"}, rc.Static.atoms()...)))
	case "pac":
		t = append(t, "base=pac")
		var es []string
		for _, e := range rc.PacTable {
			es = append(es, core.JoinList(append([]string{core.HexS(e.Host)}, e.R.atoms()...)))
		}
		t = append(t, "pactable="+core.JoinList2(es), "pacdflt="+core.JoinList(rc.PacDefault.atoms()))
		if len(rc.PacRules) > 0 {
			// only `C05 routeseq` reads these; the single-request verbs must be given the configuration
			// specialised to the request (SeqAnswer.Specialise)
			var rs []string
			for _, e := range rc.PacRules {
				rs = append(rs, core.JoinList(append(e.Cond.atoms(), e.R.atoms()...)))
			}
			t = append(t, "pacrules="+core.JoinList2(rs))
		}
	case "custom":
		t = append(t, "base=custom")
		var es []string
		for _, e := range rc.CustomTable {
			es = append(es, core.JoinList(append([]string{core.HexS(e.Host)}, e.URL.atoms()...)))
		}
		t = append(t, "custable="+core.JoinList2(es), "cusdflt="+core.JoinList(rc.CustomDefault.atoms()))
	default:
		t = append(t, "base=none")
	}
	if rc.DirectSet {
		t = append(t, "direct="+RawRulesToken(rc.DirectValues()))
	}
	var ct []string
	for _, p := range rc.ConnectTo {
		ct = append(ct, core.JoinList([]string{core.HexS(p.SrcHost), core.HexS(p.SrcPort), core.HexS(p.DstHost), core.HexS(p.DstPort)}))
	}
	t = append(t, "connectto="+core.JoinList2(ct))
	_ = localNames // localnames= is already part of the base configuration tokens
	return t
}

func CredsToken(cs []Cred) string {
	var es []string
	for _, c := range cs {
		es = append(es, core.JoinList([]string{core.HexS(c.Host), core.HexS(c.Port), core.HexS(c.User), core.HexS(c.Pass)}))
	}
	return core.JoinList2(es)
}

func fullTokens(fc *FullCfg, x *Ctx) []string {
	t := cfgTokens(&fc.Base, x)
	t = append(t, RouteTokens(&fc.Route, fc.Base.LocalNames)...)
	t = append(t, "creds="+CredsToken(fc.Creds))
	return t
}

// AskFullRequest: `C06 request` — whole-configuration pipeline for a non-CONNECT request.
func AskFullRequest(m *core.Model, fc *FullCfg, x *Ctx, r *Request) Outcome {
	t := append([]string{"C06", "request"}, Tokens(&fc.Base, x, r)...)
	t = append(t, RouteTokens(&fc.Route, fc.Base.LocalNames)...)
	t = append(t, "creds="+CredsToken(fc.Creds))
	ans := m.MustAsk(t...)
	if ans == "rejected" {
		return Outcome{Kind: "rejected"}
	}
	return decodeAnswer(ans)
}

// AskFullConnect: `C06 connect`.
func AskFullConnect(m *core.Model, fc *FullCfg, x *Ctx, cr *ConnectReq) Outcome {
	t := append([]string{"C06", "connect"}, fullTokens(fc, x)...)
	t = append(t, connectTokens(cr)...)
	ans := m.MustAsk(t...)
	if ans == "rejected" {
		return Outcome{Kind: "rejected"}
	}
	return decodeAnswer(ans)
}

// Route is the decoded answer of `C05 route`.
type Route struct {
	Kind  string `json:"kind"`            // err | direct | proxy
	Err   string `json:"err,omitempty"`   // pac-script | pac-entry | unsupported-scheme
	Proxy string `json:"proxy,omitempty"` // http | https | socks5
	Addr  string `json:"addr,omitempty"`
	Dial  string `json:"dial,omitempty"`
}

// AskRoute: `C05 route kind=connect|request|spec`.
func AskRoute(m *core.Model, rc *RouteCfg, localNames []string, kind, scheme, host string) Route {
	t := append([]string{"C05", "route", "kind=" + kind, "scheme=" + core.HexS(scheme), "host=" + core.HexS(host),
		"localnames=" + core.HexList(localNames)}, RouteTokens(rc, localNames)...)
	f := strings.Fields(m.MustAsk(t...))
	switch f[0] {
	case "err":
		return Route{Kind: "err", Err: f[1]}
	case "direct":
		return Route{Kind: "direct", Addr: string(core.MustUnHex(f[1])), Dial: string(core.MustUnHex(f[2]))}
	case "proxy":
		return Route{Kind: "proxy", Proxy: f[1], Addr: string(core.MustUnHex(f[2])), Dial: string(core.MustUnHex(f[3]))}
	}
	core.Fatalf("unparsable route %q", strings.Join(f, " "))
	return Route{}
}

// SeqReq is what the proxy function sees of one request of a sequence (C05.RouteReq).
type SeqReq struct {
	Connect bool    `json:"connect,omitempty"`
	Scheme  string  `json:"scheme,omitempty"` // http | https (inside an intercepted tunnel); "" for CONNECT
	Host    string  `json:"host"`             // URL host / CONNECT authority as written
	Path    string  `json:"path,omitempty"`
	Query   *string `json:"query,omitempty"`
}

// SeqAnswer is the model's answer for one request of a sequence.
type SeqAnswer struct {
	Route Route
	// Pac is the script's answer for this request's URL (nil when the configuration has no PAC script).
	Pac *PacResult
	URL string // the URL string the script is asked about
}

// Specialise is the configuration as it answers this one request: the PAC base replaced by the
// script's answer for the request's URL (C05.InstCfg.at) — what the single-request verbs are given.
func (a *SeqAnswer) Specialise(rc *RouteCfg) RouteCfg {
	out := *rc
	if a.Pac != nil && rc.Base == "pac" {
		out.PacRules, out.PacTable, out.PacDefault = nil, nil, *a.Pac
	}
	return out
}

func decodeRoute(f []string) Route {
	switch f[0] {
	case "err":
		return Route{Kind: "err", Err: f[1]}
	case "direct":
		return Route{Kind: "direct", Addr: string(core.MustUnHex(f[1])), Dial: string(core.MustUnHex(f[2]))}
	case "proxy":
		return Route{Kind: "proxy", Proxy: f[1], Addr: string(core.MustUnHex(f[2])), Dial: string(core.MustUnHex(f[3]))}
	}
	core.Fatalf("unparsable route %q", strings.Join(f, " "))
	return Route{}
}

// AskRouteSeq: `C05 routeseq` — one proxy instance (configuration rc, hosts-file aliases) folded over
// the requests in order; one answer per request.
func AskRouteSeq(m *core.Model, rc *RouteCfg, aliases []string, reqs []SeqReq) []SeqAnswer {
	return AskRouteSeqEnv(m, rc, aliases, reqs, nil)
}

// Ambient is what the process environment names as proxies (C05.Ambient): the model takes it as an input of
// every routing decision.
type Ambient struct {
	HTTPProxy  *ProxyURL `json:"http_proxy,omitempty"`
	HTTPSProxy *ProxyURL `json:"https_proxy,omitempty"`
	NoProxy    []string  `json:"no_proxy,omitempty"`
}

// AskRouteSeqEnv is AskRouteSeq for an instance in a process whose environment is env (nil = not given).
func AskRouteSeqEnv(m *core.Model, rc *RouteCfg, aliases []string, reqs []SeqReq, env *Ambient) []SeqAnswer {
	var rs []string
	for _, q := range reqs {
		k, qs := "r", "~"
		if q.Connect {
			k = "c"
		}
		if q.Query != nil {
			qs = core.HexS(*q.Query)
		}
		rs = append(rs, core.JoinList([]string{k, core.HexS(q.Scheme), core.HexS(q.Host), core.HexS(q.Path), qs}))
	}
	t := append([]string{"C05", "routeseq", "aliases=" + core.HexList(aliases), "reqs=" + core.JoinList2(rs)}, RouteTokens(rc, nil)...)
	if env != nil {
		t = append(t, "envhttp="+core.JoinList(env.HTTPProxy.atoms()), "envhttps="+core.JoinList(env.HTTPSProxy.atoms()), "envno="+core.HexList(env.NoProxy))
	}
	ans := m.MustAsk(t...)
	parts := strings.Split(ans, " | ")
	if !strings.HasPrefix(parts[0], "seq ") || len(parts)-1 != len(reqs) {
		core.Fatalf("unparsable routeseq answer %q", ans)
	}
	var out []SeqAnswer
	for _, it := range parts[1:] {
		sub := strings.Split(it, " @ ")
		if len(sub) != 3 {
			core.Fatalf("unparsable routeseq item %q", it)
		}
		a := SeqAnswer{Route: decodeRoute(strings.Fields(sub[0])), URL: string(core.MustUnHex(strings.TrimSpace(sub[2])))}
		switch pf := strings.Fields(sub[1]); pf[0] {
		case "fail":
			a.Pac = &PacResult{Fail: "throw"}
		case "ok":
			a.Pac = &PacResult{Return: string(core.MustUnHex(pf[1]))}
		}
		out = append(out, a)
	}
	return out
}

// ---- building the real proxy from a FullCfg ----

// PacScriptText renders the PAC table as a script.
func PacScriptText(rc *RouteCfg) string {
	var b strings.Builder
	b.WriteString("function FindProxyForURL(url, host) {\n")
	stmt := func(r PacResult) string {
		switch r.Fail {
		case "throw":
			return `throw new Error("scripted failure");`
		case "number":
			return `return 42;`
		}
		j, _ := json.Marshal(r.Return)
		return "return " + string(j) + ";"
	}
	for _, e := range rc.PacRules {
		fmt.Fprintf(&b, "  if (%s) { %s }\n", e.Cond.JS(), stmt(e.R))
	}
	for _, e := range rc.PacTable {
		j, _ := json.Marshal(e.Host)
		fmt.Fprintf(&b, "  if (host == %s) { %s }\n", j, stmt(e.R))
	}
	fmt.Fprintf(&b, "  %s\n}\n", stmt(rc.PacDefault))
	return b.String()
}

func BasicValue(user, pass string) string {
	return "Basic " + base64.StdEncoding.EncodeToString([]byte(user+":"+pass))
}

// ProxyOpts renders a FullCfg as options of the real proxy. allowTimeFrame is passed separately
// (it depends on the wall clock); extraConnectTo rules are appended after fc.Route.ConnectTo.
func ProxyOpts(fc *FullCfg, frames []TimeFrame, extraConnectTo []forwarder.HostPortPair, caFiles []string) (rig.ProxyOpts, error) {
	var hdrs, chdrs []header.Header
	for _, rs := range fc.Base.Rules {
		h, err := header.ParseHeader(rs)
		if err != nil {
			return rig.ProxyOpts{}, fmt.Errorf("rule %q: %w", rs, err)
		}
		hdrs = append(hdrs, h)
	}
	for _, rs := range fc.Base.ConnectRules {
		h, err := header.ParseHeader(rs)
		if err != nil {
			return rig.ProxyOpts{}, fmt.Errorf("connect rule %q: %w", rs, err)
		}
		chdrs = append(chdrs, h)
	}
	var deny, direct *ruleset.RegexpMatcher
	var err error
	if len(fc.Base.DenyRules) > 0 || len(fc.Base.DenyExact) > 0 {
		rs := append([]DomRule{}, fc.Base.DenyRules...)
		for _, e := range fc.Base.DenyExact {
			rs = append(rs, DomRule{Kind: "e", Lit: e})
		}
		if deny, err = Matcher(rs); err != nil {
			return rig.ProxyOpts{}, fmt.Errorf("deny domains: %w", err)
		}
	}
	if fc.Route.DirectSet {
		if direct, err = RawMatcher(fc.Route.DirectValues()); err != nil {
			return rig.ProxyOpts{}, fmt.Errorf("direct domains: %w", err)
		}
	}
	var creds []*forwarder.HostPortUser
	for _, c := range fc.Creds {
		creds = append(creds, &forwarder.HostPortUser{
			HostPort: forwarder.HostPort{Host: c.Host, Port: c.Port},
			Userinfo: url.UserPassword(c.User, c.Pass),
		})
	}
	var ct []forwarder.HostPortPair
	for _, p := range fc.Route.ConnectTo {
		ct = append(ct, forwarder.HostPortPair{Src: forwarder.HostPort{Host: p.SrcHost, Port: p.SrcPort}, Dst: forwarder.HostPort{Host: p.DstHost, Port: p.DstPort}})
	}
	ct = append(ct, extraConnectTo...)
	o := rig.ProxyOpts{
		ConnectTo:   ct,
		Credentials: creds,
		Transport: func(tc *forwarder.HTTPTransportConfig) {
			tc.CACertFiles = caFiles
		},
		Configure: func(cfg *forwarder.HTTPProxyConfig) {
			cfg.Name = fc.Base.Name
			if fc.Base.HasAuth {
				cfg.BasicAuth = url.UserPassword(fc.Base.AuthUser, fc.Base.AuthPass)
			}
			for _, f := range frames {
				cfg.AllowTimeFrame = append(cfg.AllowTimeFrame, ruleset.TimeFrameEntry{Weekday: timeWeekday(f.Weekday), HourStart: f.HourStart, HourEnd: f.HourEnd})
			}
			switch {
			case fc.Base.DenyLocal:
				cfg.ProxyLocalhost = forwarder.DenyProxyLocalhost
			case fc.Route.LocalhostDirect:
				cfg.ProxyLocalhost = forwarder.DirectProxyLocalhost
			default:
				cfg.ProxyLocalhost = forwarder.AllowProxyLocalhost
			}
			if deny != nil {
				cfg.DenyDomains = deny
			}
			if direct != nil {
				cfg.DirectDomains = direct
			}
			if len(hdrs) > 0 || len(chdrs) > 0 {
				hs, chs := header.Headers(hdrs), header.Headers(chdrs)
				// same dispatch as command/run configureHeadersModifiers
				cfg.RequestModifiers = append(cfg.RequestModifiers, forwarder.RequestModifierFunc(func(req *http.Request) error {
					if req.Method == http.MethodConnect {
						return chs.ModifyRequest(req)
					}
					return hs.ModifyRequest(req)
				}))
			}
			switch fc.Route.Base {
			case "static":
				cfg.UpstreamProxy = fc.Route.Static.URL()
			case "custom":
				tbl, dflt := fc.Route.CustomTable, fc.Route.CustomDefault
				cfg.UpstreamProxyFunc = func(r *http.Request) (*url.URL, error) {
					h := r.URL.Hostname()
					for _, e := range tbl {
						if e.Host == h {
							if e.URL == nil {
								return nil, nil
							}
							return e.URL.URL(), nil
						}
					}
					if dflt == nil {
						return nil, nil
					}
					return dflt.URL(), nil
				}
			}
			if fc.Base.MITM {
				cfg.MITM = forwarder.DefaultMITMConfig()
				cfg.PromRegistry = prometheus.NewRegistry()
			}
		},
	}
	if fc.Route.Base == "pac" {
		o.PACScript = PacScriptText(&fc.Route)
	}
	o.PostTransport = func(rt *http.Transport) {
		rt.DisableKeepAlives = true
		installConnectHeader(rt, chdrs)
	}
	return o, nil
}

// installConnectHeader mirrors command/run configureTransportProxy: the --connect-header rules
// applied to an empty header.
func installConnectHeader(rt *http.Transport, chdrs []header.Header) {
	rt.GetProxyConnectHeader = func(_ context.Context, _ *url.URL, _ string) (http.Header, error) {
		h := make(http.Header, len(chdrs))
		for _, ch := range chdrs {
			ch.Apply(h)
		}
		return h, nil
	}
}

func timeWeekday(n int) time.Weekday { return time.Weekday(n) }
