package reqmodel

// The request pipeline behind ONE client connection's byte stream (Model/C01.lean §2, `C01 conn`): the model
// reads the very bytes the client wrote (Model/ReqConn.lean: request heads, framing, bodies), runs the pipeline
// (`processRequest`) on every request it acts on and says what travels to the next hop with it.

import (
	"strconv"
	"strings"

	"github.com/saucelabs/forwarder/verifharness/core"
)

// ConnActed is one request the connection loop acts on.
type ConnActed struct {
	Close    bool    // the response announces Connection: close
	BodyLen  int     // decoded body length; -1: the body never completed
	BodySum  uint32  // ReqConn.bodySum of the decoded body (h = h*31 + byte)
	Trailers int     // trailer field lines
	Outcome  Outcome // the pipeline's outcome for the head
	Raw      string  // the outcome as the model wrote it (same text as `REQ process` gives for the request)
}

// BodySum is the checksum `C01 conn` / `C02 serve` report for a body.
func BodySum(b []byte) uint32 {
	var h uint32
	for _, c := range b {
		h = h*31 + uint32(c)
	}
	return h
}

// AskRaw is Ask that also returns the model's answer as text.
func AskRaw(m *core.Model, c *Cfg, x *Ctx, r *Request) (Outcome, string) {
	ans := m.MustAsk(append([]string{"REQ", "process"}, Tokens(c, x, r)...)...)
	return decodeOutcome(ans, strings.Fields(ans)), ans
}

// AskConn gives the bytes a client wrote on one connection to the model. mode: "always" (the loop of
// proxyConn.handle: the body of every request is consumed) or "forwardedonly" (diagnosis: the body of a locally
// answered request is left on the connection). oclose: request-targets whose relayed response closes.
func AskConn(m *core.Model, c *Cfg, x *Ctx, mode string, oclose []string, in []byte) (end string, acts []ConnActed) {
	line := []string{"C01", "conn", "mode=" + mode}
	for _, t := range Tokens(c, x, &Request{}) {
		switch {
		case strings.HasPrefix(t, "method="), strings.HasPrefix(t, "minor="), strings.HasPrefix(t, "path="),
			strings.HasPrefix(t, "query="), strings.HasPrefix(t, "fields="), strings.HasPrefix(t, "target="):
			// the requests come from the byte stream
		default:
			line = append(line, t)
		}
	}
	line = append(line, "oclose="+core.HexList(oclose), "in="+core.Hex(in))
	ans := m.MustAsk(line...)
	parts := strings.Split(ans, " | ")
	end = strings.TrimSpace(parts[0])
	switch end {
	case "idle", "closed", "bad", "stuck":
	default:
		core.Fatalf("C01 conn: malformed answer %q", clip(ans))
	}
	for _, p := range parts[1:] {
		f := strings.Fields(p)
		if len(f) < 5 {
			core.Fatalf("C01 conn: malformed exchange %q", clip(p))
		}
		a := ConnActed{Close: f[0] == "1", BodyLen: -1}
		if f[1] != "-" {
			a.BodyLen, _ = strconv.Atoi(f[1])
			s, _ := strconv.ParseUint(f[2], 10, 32)
			a.BodySum = uint32(s)
		}
		a.Trailers, _ = strconv.Atoi(f[3])
		a.Raw = strings.Join(f[4:], " ")
		a.Outcome = decodeOutcome(a.Raw, f[4:])
		acts = append(acts, a)
	}
	return end, acts
}

func clip(s string) string {
	if len(s) > 400 {
		return s[:400] + "…"
	}
	return s
}
