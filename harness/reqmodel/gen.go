package reqmodel

import (
	"fmt"
	"strings"

	"github.com/saucelabs/forwarder/verifharness/core"
	"github.com/saucelabs/forwarder/verifharness/rig"
)

// GenOpts steers the request generator.
type GenOpts struct {
	Host      string   // origin authority the rig routes (e.g. "origin.test")
	HostAlts  []string // other spellings that are routed too (e.g. "origin.test:80")
	Scheme    string   // "http" (plain listener) or "https" (inside MITM)
	Last      bool     // last request of the connection: may ask for close / be HTTP/1.0 without keep-alive
	ID        string   // correlation id put in Case-Id
	AllowBody bool
	ExtraName []string // extra header names worth drawing (rule-named fields etc.)
	// UpgradeNominate > 0: with that percentage the hop-by-hop part of the request is drawn from the
	// "upgrade that nominates" family (GenUpgradeNominating) instead of the ordinary one. Zero draws nothing
	// extra from the random stream (C04's cases stay what they were).
	UpgradeNominate int
	// ProxyAuth, when set, is the Proxy-Authorization value the proxy's own basic auth accepts: it is sent as
	// the FIRST Proxy-Authorization line (left out on 1 in 5 of the requests that end a connection: those are refused).
	ProxyAuth string
	// AuthVariety > 0: with that percentage the request carries a client Authorization drawn from every scheme
	// (Basic well-formed / undecodable / without colon, Bearer, Digest, Negotiate, NTLM, a bare token, empty; one to
	// three lines) instead of the three values of the ordinary draw. Zero leaves the random stream as it was.
	AuthVariety int
	// ConnShapes > 0: with that percentage the hop-by-hop part of the request is drawn by GenConnShape (the shape of
	// the Connection field crossed with the presence of each field of the fixed hop-by-hop list) instead of the
	// ordinary one. Zero draws nothing extra from the random stream.
	ConnShapes int
}

var (
	hopNames     = []string{"Connection", "Keep-Alive", "Proxy-Authenticate", "Proxy-Authorization", "Proxy-Connection", "TE", "Trailer", "Upgrade"}
	managedNames = []string{"Via", "X-Forwarded-For", "X-Forwarded-Proto", "X-Forwarded-Host", "X-Forwarded-Url", "Accept-Encoding", "User-Agent", "Authorization", "Range", "Pragma", "Cache-Control"}
	plainNames   = []string{"Accept", "accept-language", "Cookie", "X-Custom", "x-custom", "X-CUSTOM", "If-None-Match", "Content-Type", "X-Trace-Id", "Referer", "Origin", "X-A", "X-B", "Foo-Bar", "DNT", "x.dotted", "X_Under", "Sec-WebSocket-Key"}
	methods      = []string{"GET", "GET", "GET", "POST", "POST", "PUT", "DELETE", "HEAD", "OPTIONS", "PATCH", "PROPFIND", "get", "Foo"}
	pathChars    = "abcXYZ019-._~!$&'()*+,;=:@/"
	queryChars   = "abcXYZ019-._~!$&'()*+,;=:@/?%20%2F|{}[]^\"\\<>`"
	valChars     = "abcdefXYZ0123456789 ,;=:/\"'()*-_.~!@#$%^&[]{}|<>?+"
	BodySizes    = []int{0, 1, 2, 100, 1000, 4095, 4096, 4097, 8192, 32767, 32768, 32769, 70000}
)

// ClientAuthValues: Authorization values a client sends, of every scheme and degree of well-formedness.
var ClientAuthValues = []string{
	"Basic Y2xpZW50OnB3", "basic Y2xpZW50OnB3", "BASIC Y2xpZW50Og==", // client:pw, lower-case scheme, empty password
	"Basic !!!not-base64", "Basic bm9jb2xvbg==", "Basic", "Basic  Y2xpZW50OnB3", // undecodable, no colon inside, no credentials, two spaces
	"Bearer tok", "Bearer eyJhbGciOiJIUzI1NiJ9.e30.abc-_", "bearer x",
	"Digest username=\"u\", realm=\"r\", nonce=\"n\", uri=\"/\", response=\"0\"",
	"Negotiate YIIBhwYJKoZIhvcSAQICAQBuggF2", "NTLM TlRMTVNTUAABAAAAB4IIAA==", "AWS4-HMAC-SHA256 Credential=A/20260101/x/s3/aws4_request",
	"token68only", "", "",
}

func genToken(r *core.Rand, alphabet string, lo, hi int) string {
	n := r.Range(lo, hi)
	var b strings.Builder
	for i := 0; i < n; i++ {
		b.WriteByte(alphabet[r.Intn(len(alphabet))])
	}
	return b.String()
}

func genValue(r *core.Rand) string {
	v := strings.TrimSpace(genToken(r, valChars, 0, 24))
	return v
}

func genPath(r *core.Rand) string {
	if r.Chance(10) {
		return "/"
	}
	p := "/" + genToken(r, pathChars, 0, 20)
	if r.Chance(20) {
		p += "/%2f%41%7e/" + genToken(r, pathChars, 0, 5)
	}
	if r.Chance(10) {
		p += "/../x/./y"
	}
	for strings.HasPrefix(p, "//") {
		p = p[1:]
	}
	return p
}

func genQuery(r *core.Rand) *string {
	switch r.Intn(5) {
	case 0:
		return nil
	case 1:
		s := ""
		return &s
	default:
		// valid percent escapes only: build from atoms
		atoms := []string{"a", "b=1", "&", "x%20y", "%2F", "=", "?", "/", "+", ";", ":", "@", "!", "$", "'", "(", ")", "*", ",", "|", "{", "}", "[", "]", "^", "~", "-", ".", "_", "%41"}
		n := r.Range(1, 8)
		var b strings.Builder
		for i := 0; i < n; i++ {
			b.WriteString(core.Pick(r, atoms))
		}
		s := b.String()
		return &s
	}
}

// caseVariant respells a header name.
func caseVariant(r *core.Rand, n string) string {
	switch r.Intn(4) {
	case 0:
		return strings.ToLower(n)
	case 1:
		return strings.ToUpper(n)
	default:
		return n
	}
}

// GenRequest draws one request. The result stays inside the modelled domain (DESIGN.md C01) with
// high probability; the model answers "unreadable" for the rest.
func GenRequest(r *core.Rand, o GenOpts) *Request {
	q := &Request{Method: core.Pick(r, methods), Minor: 1, Path: genPath(r), Query: genQuery(r)}
	if r.Chance(12) {
		q.Minor = 0
	}
	host := o.Host
	if len(o.HostAlts) > 0 && r.Chance(30) {
		host = core.Pick(r, o.HostAlts)
	}
	if r.Chance(35) {
		q.Absolute = true
		q.Scheme = o.Scheme
		q.Authority = host
	}
	var fs []rig.Field
	// Host
	switch {
	case q.Absolute && r.Chance(40):
		fs = append(fs, rig.Field{Name: caseVariant(r, "Host"), Value: "other.example"})
	case q.Absolute && r.Chance(30):
		// no Host at all (allowed for absolute-form with HTTP/1.0; Go accepts it for 1.1 too)
	default:
		fs = append(fs, rig.Field{Name: caseVariant(r, "Host"), Value: host})
	}
	fs = append(fs, rig.Field{Name: "Case-Id", Value: o.ID})
	if o.ProxyAuth != "" && (!o.Last || r.Chance(80)) {
		fs = append(fs, rig.Field{Name: caseVariant(r, "Proxy-Authorization"), Value: o.ProxyAuth})
	}

	// end-to-end fields, some repeated
	n := r.Range(0, 6)
	for i := 0; i < n; i++ {
		name := caseVariant(r, core.Pick(r, plainNames))
		if len(o.ExtraName) > 0 && r.Chance(25) {
			name = caseVariant(r, core.Pick(r, o.ExtraName))
		}
		fs = append(fs, rig.Field{Name: name, Value: genValue(r)})
		if r.Chance(40) {
			fs = append(fs, rig.Field{Name: caseVariant(r, name), Value: genValue(r)})
		}
	}
	// managed fields
	if r.Chance(30) {
		nl := r.Range(1, 2)
		for i := 0; i < nl; i++ {
			fs = append(fs, rig.Field{Name: caseVariant(r, "Via"), Value: core.Pick(r, []string{"1.0 fred", "1.1 proxy.example (squid)", "1.1 forwarder-0123456789abcdef0123", "HTTP/1.1 a, 1.0 b", "2.0 edge"})})
		}
	}
	if r.Chance(30) {
		nl := r.Range(1, 2)
		for i := 0; i < nl; i++ {
			fs = append(fs, rig.Field{Name: caseVariant(r, "X-Forwarded-For"), Value: core.Pick(r, []string{"9.9.9.9", "10.0.0.1, 10.0.0.2", "2001:db8::1", "unknown"})})
		}
	}
	if r.Chance(15) {
		fs = append(fs, rig.Field{Name: "X-Forwarded-Host", Value: "front.example"})
	}
	if r.Chance(10) {
		fs = append(fs, rig.Field{Name: "X-Forwarded-Url", Value: "http://front.example/x"})
	}
	if r.Chance(25) {
		fs = append(fs, rig.Field{Name: caseVariant(r, "Accept-Encoding"), Value: core.Pick(r, []string{"gzip", "identity", "br, gzip", "", "deflate"})})
	}
	if r.Chance(15) {
		fs = append(fs, rig.Field{Name: "Range", Value: "bytes=0-10"})
	}
	if r.Chance(40) {
		fs = append(fs, rig.Field{Name: caseVariant(r, "User-Agent"), Value: core.Pick(r, []string{"curl/8.0", "", "Mozilla/5.0 (X11)", "a b"})})
		if r.Chance(15) {
			fs = append(fs, rig.Field{Name: "User-Agent", Value: "second/1.0"})
		}
	}
	if o.AuthVariety > 0 {
		if r.Chance(o.AuthVariety) {
			nl := 1
			if r.Chance(25) {
				nl = r.Range(2, 3)
			}
			for i := 0; i < nl; i++ {
				fs = append(fs, rig.Field{Name: caseVariant(r, "Authorization"), Value: core.Pick(r, ClientAuthValues)})
			}
		}
	} else if r.Chance(15) {
		fs = append(fs, rig.Field{Name: "Authorization", Value: core.Pick(r, []string{"Basic Y2xpZW50OnB3", "Bearer tok", ""})})
	}
	if r.Chance(12) {
		fs = append(fs, rig.Field{Name: "Pragma", Value: core.Pick(r, []string{"no-cache", "x", "no-cache, y"})})
		if r.Chance(30) {
			fs = append(fs, rig.Field{Name: "Cache-Control", Value: "max-age=0"})
		}
	}
	// hop-by-hop fields and Connection nominations
	var nominated []string
	upNom := o.UpgradeNominate > 0 && r.Chance(o.UpgradeNominate)
	connShape := !upNom && o.ConnShapes > 0 && r.Chance(o.ConnShapes)
	if upNom {
		var lines []rig.Field
		lines, nominated = GenUpgradeNominating(r, o.ID, fs)
		fs = append(fs, lines...)
	} else if connShape {
		// the Connection lines are drawn there too: nothing below adds an option
		fs = append(fs, GenConnShape(r, ConnShapeOpts{ID: o.ID, AllowClose: o.Last, NeedKeepAlive: q.Minor == 0 && !o.Last, NoFraming: true})...)
	} else if r.Chance(35) {
		k := r.Range(1, 3)
		for i := 0; i < k; i++ {
			hn := core.Pick(r, hopNames[1:])
			v := genValue(r)
			switch hn {
			case "Keep-Alive":
				v = "timeout=5"
			case "TE":
				v = core.Pick(r, []string{"trailers", "gzip"})
			case "Proxy-Authorization":
				v = "Basic Zm9vOmJhcg=="
			case "Trailer":
				continue // only with a chunked body (below)
			case "Upgrade":
				v = "websocket"
			}
			fs = append(fs, rig.Field{Name: caseVariant(r, hn), Value: v})
		}
	}
	if !upNom && !connShape && r.Chance(30) {
		k := r.Range(1, 3)
		for i := 0; i < k; i++ {
			nm := core.Pick(r, append(append([]string{}, plainNames...), "X-Case-Other", "Keep-Alive", "Cookie", "Via", "X-Forwarded-For", "User-Agent", "X-Forwarded-Host"))
			nominated = append(nominated, caseVariant(r, nm))
		}
	}
	upgrade := !upNom && !connShape && r.Chance(8)
	if upgrade {
		nominated = append(nominated, core.Pick(r, []string{"Upgrade", "upgrade"}))
		fs = append(fs, rig.Field{Name: "Upgrade", Value: core.Pick(r, []string{"websocket", "h2c", "foo/1"})})
	}
	if q.Minor == 0 && !o.Last && !connShape {
		nominated = append(nominated, core.Pick(r, []string{"keep-alive", "Keep-Alive"}))
	}
	if o.Last && !connShape && r.Chance(30) {
		nominated = append(nominated, core.Pick(r, []string{"close", "Close"}))
	}
	if upNom {
		fs = append(fs, ConnectionLines(r, nominated)...)
	} else if len(nominated) > 0 {
		if r.Chance(25) && len(nominated) > 1 {
			// split across two Connection lines
			fs = append(fs, rig.Field{Name: caseVariant(r, "Connection"), Value: strings.Join(nominated[:1], ", ")})
			fs = append(fs, rig.Field{Name: "Connection", Value: strings.Join(nominated[1:], core.Pick(r, []string{",", ", ", " , "}))})
		} else {
			fs = append(fs, rig.Field{Name: caseVariant(r, "Connection"), Value: strings.Join(nominated, core.Pick(r, []string{",", ", "}))})
		}
	}

	// body
	bodyAllowed := o.AllowBody && q.Method != "HEAD" && q.Method != "get"
	if bodyAllowed && r.Chance(55) {
		size := core.Pick(r, BodySizes)
		if r.Chance(30) {
			size = r.Range(0, 5000)
		}
		body := r.Bytes(size)
		q.BodyHex = core.Hex(body)
		if q.Minor == 1 && r.Chance(50) {
			q.Chunked = true
			fs = append(fs, rig.Field{Name: caseVariant(r, "Transfer-Encoding"), Value: core.Pick(r, []string{"chunked", "Chunked", "CHUNKED"})})
			nch := r.Range(0, 6)
			for i := 0; i < nch; i++ {
				q.ChunkSzs = append(q.ChunkSzs, core.Pick(r, []int{1, 2, 7, 100, 4095, 4096, 4097, 32768, 40000}))
			}
			if r.Chance(30) {
				q.Trailers = []rig.Field{{Name: "X-Trailer-A", Value: genValue(r)}}
				decl := "X-Trailer-A"
				if r.Chance(30) {
					q.Trailers = append(q.Trailers, rig.Field{Name: "X-Trailer-B", Value: "b"})
					decl += ", x-trailer-b"
				}
				fs = append(fs, rig.Field{Name: "Trailer", Value: decl})
			}
			if r.Chance(15) {
				// Content-Length next to chunked: the length is dropped
				fs = append(fs, rig.Field{Name: "Content-Length", Value: fmt.Sprint(size)})
			}
		} else {
			fs = append(fs, rig.Field{Name: caseVariant(r, "Content-Length"), Value: fmt.Sprint(size)})
			if r.Chance(10) {
				fs = append(fs, rig.Field{Name: "Content-Length", Value: fmt.Sprint(size)})
			}
		}
	} else if r.Chance(10) {
		fs = append(fs, rig.Field{Name: "Content-Length", Value: "0"})
	}
	// shuffle everything except keeping relative order of equal names (order within a name matters)
	q.Fields = stableShuffle(r, fs)
	return q
}

// stableShuffle permutes field lines but keeps the relative order of lines with the same
// (case-insensitive) name, so per-name value order is the generated one.
func stableShuffle(r *core.Rand, fs []rig.Field) []rig.Field {
	idx := make([]int, len(fs))
	for i := range idx {
		idx[i] = i
	}
	core.Shuffle(r, idx)
	// positions chosen; now fill per name in original order
	byName := map[string][]rig.Field{}
	for _, f := range fs {
		k := strings.ToLower(f.Name)
		byName[k] = append(byName[k], f)
	}
	out := make([]rig.Field, 0, len(fs))
	used := map[string]int{}
	for _, i := range idx {
		k := strings.ToLower(fs[i].Name)
		out = append(out, byName[k][used[k]])
		used[k]++
	}
	return out
}

// ---- protocol upgrades that nominate further fields ----

// UpgradeTokenSpellings are the ways the Upgrade option is written in a Connection token list.
var UpgradeTokenSpellings = []string{"Upgrade", "Upgrade", "upgrade", "UPGRADE", "uPgRaDe"}

// NominatedPool are the names an upgrade request nominates next to Upgrade: the credential fields, the
// standard hop-by-hop set, names the proxy manages itself, and ordinary / custom end-to-end names.
var NominatedPool = []string{
	"Proxy-Authorization", "Proxy-Authorization", "Authorization", "Authorization", "Proxy-Connection", "Keep-Alive", "TE",
	"Proxy-Authenticate", "Trailer", "Transfer-Encoding", "Connection", "Content-Length", "Host",
	"HTTP2-Settings", "Sec-WebSocket-Key", "Sec-WebSocket-Protocol", "X-Custom", "X-Trace-Id", "Cookie", "Accept-Language", "Foo-Bar",
	"User-Agent", "Via", "X-Forwarded-For", "X-Forwarded-Host", "Accept-Encoding", "Cache-Control", "X-Session-Token",
}

func respell(r *core.Rand, n string) string {
	switch r.Intn(5) {
	case 0:
		return strings.ToLower(n)
	case 1:
		return strings.ToUpper(n)
	case 2:
		b := []byte(n)
		for i := range b {
			if r.Bool() {
				if b[i] >= 'a' && b[i] <= 'z' {
					b[i] -= 32
				} else if b[i] >= 'A' && b[i] <= 'Z' {
					b[i] += 32
				}
			}
		}
		return string(b)
	default:
		return n
	}
}

// nominatedValue is a value worth protecting for a nominated field of the given name.
func nominatedValue(r *core.Rand, name, id string, i int) string {
	switch strings.ToLower(name) {
	case "proxy-authorization":
		return core.Pick(r, []string{"Basic Zm9vOmJhcg==", "Bearer pa-" + id, "Basic " + fmt.Sprintf("bm9tOnNlY3JldC0%d", i)})
	case "authorization":
		return core.Pick(r, []string{"Bearer nominated-" + id, "Basic bm9taW5hdGVkOnNlY3JldA==", "Digest username=\"n\""})
	case "proxy-connection":
		return core.Pick(r, []string{"keep-alive", "Keep-Alive", "close"})
	case "keep-alive":
		return core.Pick(r, []string{"timeout=5", "timeout=5, max=100"})
	case "te":
		return core.Pick(r, []string{"trailers", "gzip", "trailers, deflate;q=0.5"})
	case "proxy-authenticate":
		return "Basic realm=\"client-sent\""
	case "http2-settings":
		return "AAMAAABkAARAAAAAAAIAAAAA"
	case "sec-websocket-key":
		return "dGhlIHNhbXBsZSBub25jZQ=="
	case "cache-control":
		return core.Pick(r, []string{"no-store", "max-age=0"})
	}
	return fmt.Sprintf("nominated-%s-%d", id, i)
}

// GenUpgradeNominating draws the hop-by-hop part of a protocol-upgrade request whose Connection field lists,
// next to the Upgrade option, further field names (credential fields, the standard hop-by-hop set, managed
// and custom names), most of them present in the request with one to three values in odd spellings.
// It returns the field lines to add (Upgrade lines and the nominated fields; NOT the Connection lines) and the
// Connection tokens (render them with ConnectionLines). have = the lines the request has so far.
func GenUpgradeNominating(r *core.Rand, id string, have []rig.Field) (lines []rig.Field, tokens []string) {
	present := map[string]bool{}
	for _, f := range have {
		present[strings.ToLower(f.Name)] = true
	}
	nUp := 1
	if r.Chance(25) {
		nUp = 2
	}
	for i := 0; i < nUp; i++ {
		lines = append(lines, rig.Field{Name: respell(r, "Upgrade"), Value: core.Pick(r, []string{"websocket", "WebSocket", "h2c", "foo/1", "h2c, websocket", "TLS/1.3, HTTP/1.1"})})
	}
	k := r.Range(1, 4)
	for i := 0; i < k; i++ {
		name := core.Pick(r, NominatedPool)
		if r.Chance(10) {
			name = "X-Nom-" + id
		}
		tokens = append(tokens, respell(r, name))
		switch strings.ToLower(name) {
		case "host", "content-length", "transfer-encoding", "trailer", "connection", "upgrade":
			continue // framing / request-line material: only nominated
		}
		if present[strings.ToLower(name)] && r.Chance(50) || r.Chance(15) {
			continue // already there (drawn by the ordinary part of the generator), or nominated but absent
		}
		nl := r.Range(1, 3)
		for j := 0; j < nl; j++ {
			lines = append(lines, rig.Field{Name: respell(r, name), Value: nominatedValue(r, name, id, j)})
		}
		present[strings.ToLower(name)] = true
	}
	// the Upgrade option at a random position of the token list
	at := r.Intn(len(tokens) + 1)
	tokens = append(tokens[:at:at], append([]string{core.Pick(r, UpgradeTokenSpellings)}, tokens[at:]...)...)
	return lines, tokens
}

// ConnectionLines renders Connection tokens as one to three field lines with the separators and padding
// HTTP allows in a token list (OWS, empty elements).
func ConnectionLines(r *core.Rand, tokens []string) []rig.Field {
	if len(tokens) == 0 {
		return nil
	}
	nl := 1
	if len(tokens) > 1 && r.Chance(35) {
		nl = 2
		if len(tokens) > 2 && r.Chance(30) {
			nl = 3
		}
	}
	var out []rig.Field
	per := (len(tokens) + nl - 1) / nl
	for i := 0; i < len(tokens); i += per {
		end := i + per
		if end > len(tokens) {
			end = len(tokens)
		}
		sep := core.Pick(r, []string{",", ", ", ", ", " , ", ",\t", ", ,", ",  "})
		v := strings.Join(tokens[i:end], sep)
		if r.Chance(10) {
			v += ","
		}
		out = append(out, rig.Field{Name: respell(r, "Connection"), Value: v})
	}
	return out
}

// ---- the Connection-field dimension ----

// FixedHopByHop: the fields that are hop-by-hop by definition (removeHopByHopHeaders' fixed list without Connection
// itself): whatever the Connection field of the message says, none of them is passed on.
var FixedHopByHop = []string{"Proxy-Authorization", "Proxy-Authenticate", "TE", "Trailer", "Transfer-Encoding", "Upgrade", "Keep-Alive", "Proxy-Connection"}

// ConnShapeOpts steers GenConnShape.
type ConnShapeOpts struct {
	ID            string
	AllowClose    bool // the request may end the connection: "close" options are drawn
	NeedKeepAlive bool // an HTTP/1.0 request that must not end the connection: a keep-alive option is always there
	NoFraming     bool // the caller owns the framing: no Transfer-Encoding / Trailer line is drawn
}

func hopFieldValue(r *core.Rand, name, id string, i int) string {
	switch name {
	case "Proxy-Authorization":
		return core.Pick(r, []string{"Basic Zm9vOmJhcg==", "Bearer hop-" + id, fmt.Sprintf("Basic aG9wOnNlY3JldC0%d", i)})
	case "Proxy-Authenticate":
		return "Basic realm=\"client-sent-" + id + "\""
	case "TE":
		return core.Pick(r, []string{"trailers", "gzip", "trailers, deflate;q=0.5"})
	case "Trailer":
		return core.Pick(r, []string{"X-Trailer-A", "X-Checksum, x-trailer-b"})
	case "Transfer-Encoding":
		return core.Pick(r, []string{"chunked", "Chunked"})
	case "Upgrade":
		return core.Pick(r, []string{"websocket", "h2c", "foo/1"})
	case "Keep-Alive":
		return core.Pick(r, []string{"timeout=5", "timeout=5, max=100"})
	case "Proxy-Connection":
		return core.Pick(r, []string{"keep-alive", "keep-alive", "Keep-Alive", "close", "keep-alive, X-Nom-" + id, ""})
	}
	return "hop-" + id
}

// GenConnShape draws the hop-by-hop part of a request along two crossed dimensions and returns the field lines to add:
// (a) which fields of the fixed hop-by-hop list are present (each with its own probability, one or two lines, respelt
// names; at least one in 4 of 5 draws), and (b) the shape of the Connection field: absent; exactly one line with exactly
// one option (keep-alive, close, their respellings, upgrade, TE, a nominated custom name that is present, a name of the
// fixed list); one option next to empty list elements; one line with several options; several lines; an empty value.
// What most clients send - a lone "Connection: keep-alive" / "close" - is the most likely shape.
func GenConnShape(r *core.Rand, o ConnShapeOpts) []rig.Field {
	var lines []rig.Field
	// (a) the fixed hop-by-hop fields
	var pool []string
	for _, n := range FixedHopByHop {
		if o.NoFraming && (n == "Transfer-Encoding" || n == "Trailer") {
			continue
		}
		pool = append(pool, n)
	}
	chosen := map[string]bool{}
	for _, n := range pool {
		if r.Chance(22) {
			chosen[n] = true
		}
	}
	if len(chosen) == 0 && r.Chance(80) {
		if r.Chance(40) {
			chosen["Proxy-Authorization"] = true
		} else {
			chosen[core.Pick(r, pool)] = true
		}
	}
	for _, n := range pool {
		if !chosen[n] {
			continue
		}
		nl := 1
		if n != "Transfer-Encoding" && r.Chance(15) {
			nl = 2
		}
		for i := 0; i < nl; i++ {
			lines = append(lines, rig.Field{Name: respell(r, n), Value: hopFieldValue(r, n, o.ID, i)})
		}
	}
	// (b) the Connection field
	custom := "X-Nom-" + o.ID
	usedCustom := false
	ka := func() string {
		return core.Pick(r, []string{"keep-alive", "keep-alive", "Keep-Alive", "KEEP-ALIVE", "kEeP-aLiVe"})
	}
	cl := func() string {
		if !o.AllowClose {
			return ka()
		}
		return core.Pick(r, []string{"close", "close", "Close", "CLOSE"})
	}
	other := func() string {
		switch r.Intn(6) {
		case 0:
			return core.Pick(r, UpgradeTokenSpellings)
		case 1:
			return core.Pick(r, []string{"TE", "te"})
		case 2:
			return respell(r, core.Pick(r, FixedHopByHop))
		case 3:
			return respell(r, core.Pick(r, plainNames))
		default:
			usedCustom = true
			return respell(r, custom)
		}
	}
	anyOpt := func() string {
		switch r.Intn(4) {
		case 0:
			return ka()
		case 1:
			return cl()
		default:
			return other()
		}
	}
	var vals []string // one element per Connection line
	switch shape := r.Intn(14); {
	case shape == 0: // absent
	case shape <= 3: // lone keep-alive / close as most clients write it
		if shape == 3 && o.AllowClose {
			vals = []string{"close"}
		} else {
			vals = []string{"keep-alive"}
		}
	case shape == 4: // respelt
		if r.Bool() {
			vals = []string{core.Pick(r, []string{"Keep-Alive", "KEEP-ALIVE", "kEeP-aLiVe", "Keep-alive"})}
		} else {
			vals = []string{cl()}
		}
	case shape <= 6: // another lone option
		vals = []string{other()}
	case shape == 7: // one option next to empty list elements
		opt := core.Pick(r, []string{ka(), cl(), other()})
		vals = []string{core.Pick(r, []string{opt + ",", "," + opt, opt + ", ,", ", " + opt})}
	case shape <= 9: // one line, several options
		k := r.Range(2, 4)
		var ts []string
		for i := 0; i < k; i++ {
			ts = append(ts, anyOpt())
		}
		vals = []string{strings.Join(ts, core.Pick(r, []string{",", ", ", " , ", ",\t"}))}
	case shape <= 12: // several lines
		nl := r.Range(2, 3)
		for i := 0; i < nl; i++ {
			v := anyOpt()
			if r.Chance(25) {
				v += ", " + anyOpt()
			}
			vals = append(vals, v)
		}
	default: // empty value
		vals = []string{core.Pick(r, []string{"", "", ",", ", ,"})}
	}
	if o.NeedKeepAlive {
		hasKA := false
		for _, v := range vals {
			for _, t := range strings.Split(v, ",") {
				hasKA = hasKA || strings.EqualFold(strings.TrimSpace(t), "keep-alive")
			}
		}
		switch {
		case hasKA:
		case len(vals) == 0 || strings.Trim(vals[0], ", ") == "":
			vals = []string{"keep-alive"}
		default:
			vals[len(vals)-1] += ", " + ka()
		}
	}
	for _, v := range vals {
		lines = append(lines, rig.Field{Name: respell(r, "Connection"), Value: v})
	}
	if usedCustom && r.Chance(85) {
		lines = append(lines, rig.Field{Name: respell(r, custom), Value: "nominated-" + o.ID})
	}
	return lines
}

// ConnShapeOf classifies the Connection field of a request as sent (for the input distribution).
func ConnShapeOf(fields []rig.Field) string {
	var vals []string
	for _, f := range fields {
		if strings.EqualFold(f.Name, "Connection") {
			vals = append(vals, f.Value)
		}
	}
	switch {
	case len(vals) == 0:
		return "absent"
	case len(vals) > 1:
		return "several-lines"
	}
	var opts []string
	for _, t := range strings.Split(vals[0], ",") {
		if t = strings.TrimSpace(t); t != "" {
			opts = append(opts, t)
		}
	}
	switch {
	case len(opts) == 0:
		return "empty-value"
	case len(opts) > 1:
		return "one-line-several-options"
	case strings.Contains(vals[0], ","):
		return "one-option-and-empty-elements"
	}
	o := opts[0]
	switch {
	case o == "keep-alive" || o == "close":
		return "lone-" + o
	case strings.EqualFold(o, "keep-alive") || strings.EqualFold(o, "close"):
		return "lone-" + strings.ToLower(o) + "-respelt"
	case strings.EqualFold(o, "upgrade"):
		return "lone-upgrade"
	case strings.EqualFold(o, "te"):
		return "lone-te"
	}
	for _, n := range FixedHopByHop {
		if strings.EqualFold(o, n) {
			return "lone-fixed-hop-name"
		}
	}
	return "lone-custom-name"
}

// HopFieldsPresent: the fields of the fixed hop-by-hop list a request carries (canonical names, list order).
func HopFieldsPresent(fields []rig.Field) []string {
	var out []string
	for _, n := range FixedHopByHop {
		for _, f := range fields {
			if strings.EqualFold(f.Name, n) {
				out = append(out, n)
				break
			}
		}
	}
	return out
}

// ConnShapeLabels: the (Connection shape x hop-by-hop field present) cells a request falls into.
func ConnShapeLabels(fields []rig.Field) []string {
	s := ConnShapeOf(fields)
	hs := HopFieldsPresent(fields)
	if len(hs) == 0 {
		return []string{"connx/" + s + "/no-hop-field"}
	}
	var out []string
	for _, h := range hs {
		out = append(out, "connx/"+s+"/"+h)
	}
	return out
}
