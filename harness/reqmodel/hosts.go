package reqmodel

// Hosts files. NewHTTPProxy appends the names the machine's hosts file gives to loopback addresses to its
// localhost names (hostsfile.LocalhostAliases reads the file github.com/kevinburke/hostsfile/lib.Location
// names — a package variable). The sandbox's own file has three lower-case names; so the scenarios that
// care (C04, C05) generate hosts files, point Location at them in a child process and construct the proxy
// there. This file has the generator, the harness's own reader of the format and the model's encoding.

import (
	"net/netip"
	"strings"

	"github.com/saucelabs/forwarder/verifharness/core"
)

// HostsRecord is one line of a hosts file: address and names (C04.HostsRecord).
type HostsRecord struct {
	IP    string   `json:"ip"`
	Names []string `json:"names"`
}

// ParseHosts reads hosts(5) text the way the property understands it, independently of the library the
// proxy uses: blank lines and lines starting with '#' are skipped; a field that starts with '#' ends the line.
func ParseHosts(text string) []HostsRecord {
	var out []HostsRecord
	for _, line := range strings.Split(text, "\n") {
		line = strings.TrimSpace(line)
		if line == "" || line[0] == '#' {
			continue
		}
		f := strings.Fields(line)
		rec := HostsRecord{IP: f[0]}
		for _, n := range f[1:] {
			if n[0] == '#' {
				break
			}
			rec.Names = append(rec.Names, n)
		}
		out = append(out, rec)
	}
	return out
}

// IsLoopbackIP: 127.0.0.0/8 (also IPv4-mapped) or ::1, by net/netip (the proxy's reader uses net.IP).
func IsLoopbackIP(s string) bool {
	a, err := netip.ParseAddr(s)
	return err == nil && a.Zone() == "" && a.Unmap().IsLoopback()
}

// LoopbackNames: the names of the loopback records, as spelt, in file order, without repetitions; and the
// names that only records with other addresses carry.
func LoopbackNames(recs []HostsRecord) (loop, other []string) {
	seen := map[string]bool{}
	for _, r := range recs {
		if !IsLoopbackIP(r.IP) {
			continue
		}
		for _, n := range r.Names {
			if !seen[n] {
				seen[n] = true
				loop = append(loop, n)
			}
		}
	}
	lower := map[string]bool{}
	for n := range seen {
		lower[strings.ToLower(n)] = true
	}
	seenOther := map[string]bool{}
	for _, r := range recs {
		if IsLoopbackIP(r.IP) {
			continue
		}
		for _, n := range r.Names {
			if !lower[strings.ToLower(n)] && !seenOther[n] {
				seenOther[n] = true
				other = append(other, n)
			}
		}
	}
	return loop, other
}

// HostsRecordsToken: `ip,name,…;ip,name,…` (hex atoms) for the model (`hostsrec=` / `C04 localhostof`).
func HostsRecordsToken(recs []HostsRecord) string {
	var es []string
	for _, r := range recs {
		atoms := []string{core.HexS(r.IP)}
		for _, n := range r.Names {
			atoms = append(atoms, core.HexS(n))
		}
		es = append(es, core.JoinList(atoms))
	}
	return core.JoinList2(es)
}

var (
	hostsLoopIPs  = []string{"127.0.0.1", "127.0.0.1", "127.0.0.1", "127.0.1.1", "127.255.255.254", "127.8.9.10", "::1", "::1", "0:0:0:0:0:0:0:1", "::ffff:127.0.0.1"}
	hostsOtherIPs = []string{"10.0.0.5", "192.168.1.20", "0.0.0.0", "0.0.0.0", "::", "128.0.0.1", "126.255.255.255", "fe80::1", "::2", "1.0.0.127", "169.254.1.1", "ff02::1", "::ffff:10.0.0.1"}
	// names a machine gives itself: capitals first (they sort before every lower-case name and before
	// "localhost" as spelt, and behind some of them once lower-cased), digits first (around "0.0.0.0" and "::"),
	// names next to "localhost" in the order, spellings of the built-in names
	hostsLoopNames = []string{"SL-666", "kubernetes.docker.internal", "localhost", "localhost", "LOCALHOST", "Localhost", "localhost.localdomain", "ip6-localhost",
		"ip6-loopback", "Zebra", "zz.internal", "MyHost.Local", "A-HOST", "a-host", "host.docker.internal", "DESKTOP-7Q2", "mybox", "Mybox", "0host", "9lives.lan",
		"_gateway", "UPPER.CASE.LAN", "mIxEd.lan", "build-01", "Build-01", "localhos", "localhostx", "m", "k", "L", "l", "lz", "Lz", "Ko", "ko", "MacBook-Pro.local",
		"WIN-SRV01", "nuc", "NUC", "Xeon.internal", "zeta", "Alpha", "alpha", "loopback", "LoopBack"}
	hostsOtherNames = []string{"ads.example", "tracker.example", "Build-Host", "nas.lan", "PRINTER", "router.lan", "corp-proxy.internal", "telemetry.example", "Registry.Internal",
		"db01", "DB02", "ip6-allnodes", "ip6-allrouters", "broadcasthost"}
)

func genHostName(r *core.Rand) string {
	const letters = "abcdefghijklmnopqrstuvwxyzABCDEFGHIJKLMNOPQRSTUVWXYZ0123456789-"
	n := r.Range(1, 9)
	b := make([]byte, n)
	for i := range b {
		b[i] = letters[r.Intn(len(letters))]
	}
	if b[0] == '-' {
		b[0] = 'h'
	}
	if b[n-1] == '-' {
		b[n-1] = 'Z'
	}
	// nothing that reads as an IP address or as one of the scenarios' fixed names
	allDigits := true
	for _, c := range b {
		if c < '0' || c > '9' {
			allDigits = false
		}
	}
	if allDigits {
		b = append(b, 'h')
	}
	s := string(b)
	if r.Chance(40) {
		s += core.Pick(r, []string{".lan", ".internal", ".local", ".LAN", ".Local"})
	}
	return s
}

func hostsSwapCase(r *core.Rand, s string) string {
	b := []byte(s)
	for i := range b {
		if r.Bool() {
			if b[i] >= 'a' && b[i] <= 'z' {
				b[i] -= 32
			} else if b[i] >= 'A' && b[i] <= 'Z' {
				b[i] += 32
			}
		}
	}
	return string(b)
}

// GenHosts draws the text of a hosts file: loopback records (127.0.0.1, other 127/8 addresses, ::1 in several
// spellings) with names in mixed case, records with other addresses (their names must not become localhost),
// repeated names and repeated built-in names, one long line now and then, comments, blank lines, tabs.
func GenHosts(r *core.Rand) string {
	var lines []string
	sep := func() string { return core.Pick(r, []string{" ", " ", "\t", "  ", " \t"}) }
	name := func(pool []string) string {
		switch r.Intn(10) {
		case 0, 1, 2:
			return genHostName(r)
		case 3:
			return hostsSwapCase(r, core.Pick(r, pool))
		}
		return core.Pick(r, pool)
	}
	record := func(ip string, pool []string, many bool) {
		k := r.Range(1, 4)
		if many {
			k = r.Range(15, 40)
		}
		var b strings.Builder
		if r.Chance(8) {
			b.WriteString(core.Pick(r, []string{" ", "\t"}))
		}
		b.WriteString(ip)
		for i := 0; i < k; i++ {
			b.WriteString(sep())
			b.WriteString(name(pool))
		}
		if r.Chance(15) {
			b.WriteString(sep() + core.Pick(r, []string{"# added by installer", "#managed", "# localhost alias", "#Zed aab"}))
		}
		if r.Chance(8) {
			b.WriteString(" ")
		}
		lines = append(lines, b.String())
	}
	if r.Chance(75) {
		lines = append(lines, "127.0.0.1"+sep()+"localhost")
	}
	nl := r.Range(1, 5)
	no := r.Range(0, 3)
	long := r.Chance(12)
	for i := 0; i < nl+no; i++ {
		if r.Chance(15) {
			lines = append(lines, core.Pick(r, []string{"", "# a comment", "#127.0.0.1 commented-out", "   ", "## 127.0.0.1 Hidden"}))
		}
		if i < nl {
			record(core.Pick(r, hostsLoopIPs), hostsLoopNames, long && i == 0)
		} else {
			pool := hostsOtherNames
			if r.Chance(20) {
				pool = hostsLoopNames // the same name under another address as well
			}
			record(core.Pick(r, hostsOtherIPs), pool, false)
		}
	}
	core.Shuffle(r, lines)
	text := strings.Join(lines, "\n")
	if r.Chance(85) {
		text += "\n"
	}
	return text
}
