package reqmodel

// Hosts files. NewHTTPProxy appends the names the machine's hosts file gives to loopback addresses to its
// localhost names (hostsfile.LocalhostAliases reads the file github.com/kevinburke/hostsfile/lib.Location
// names — a package variable). The sandbox's own file has three lower-case names; so the scenarios that
// care (C04, C05) generate hosts files, point Location at them in a child process and construct the proxy
// there. This file has the generator, the harness's own reader of the format and the model's encoding.

import (
	"net/netip"
	"strings"

	"github.com/saucelabs/forwarder/verifharness/core"
)

// HostsRecord is one line of a hosts file: address and names (C04.HostsRecord).
type HostsRecord struct {
	IP    string   `json:"ip"`
	Names []string `json:"names"`
}

// ParseHosts reads hosts(5) text the way the property understands it, independently of the library the
// proxy uses: blank lines and lines starting with '#' are skipped; a field that starts with '#' ends the line.
func ParseHosts(text string) []HostsRecord {
	var out []HostsRecord
	for _, line := range strings.Split(text, "\n") {
		line = strings.TrimSpace(line)
		if line == "" || line[0] == '#' {
			continue
		}
		f := strings.Fields(line)
		rec := HostsRecord{IP: f[0]}
		for _, n := range f[1:] {
			if n[0] == '#' {
				break
			}
			rec.Names = append(rec.Names, n)
		}
		out = append(out, rec)
	}
	return out
}

// IsLoopbackIP: 127.0.0.0/8 (also IPv4-mapped) or ::1, by net/netip (the proxy's reader uses net.IP).
func IsLoopbackIP(s string) bool {
	a, err := netip.ParseAddr(s)
	return err == nil && a.Zone() == "" && a.Unmap().IsLoopback()
}

// LoopbackNames: the names of the loopback records, as spelt, in file order, without repetitions; and the
// names that only records with other addresses carry.
func LoopbackNames(recs []HostsRecord) (loop, other []string) {
	seen := map[string]bool{}
	for _, r := range recs {
		if !IsLoopbackIP(r.IP) {
			continue
		}
		for _, n := range r.Names {
			if !seen[n] {
				seen[n] = true
				loop = append(loop, n)
			}
		}
	}
	lower := map[string]bool{}
	for n := range seen {
		lower[strings.ToLower(n)] = true
	}
	seenOther := map[string]bool{}
	for _, r := range recs {
		if IsLoopbackIP(r.IP) {
			continue
		}
		for _, n := range r.Names {
			if !lower[strings.ToLower(n)] && !seenOther[n] {
				seenOther[n] = true
				other = append(other, n)
			}
		}
	}
	return loop, other
}

// HostsRecordsToken: `ip,name,…;ip,name,…` (hex atoms) for the model (`hostsrec=` / `C04 localhostof`).
func HostsRecordsToken(recs []HostsRecord) string {
	var es []string
	for _, r := range recs {
		atoms := []string{core.HexS(r.IP)}
		for _, n := range r.Names {
			atoms = append(atoms, core.HexS(n))
		}
		es = append(es, core.JoinList(atoms))
	}
	return core.JoinList2(es)
}

var (
	hostsLoopIPs  = []string{"127.0.0.1", "127.0.0.1", "127.0.0.1", "127.0.1.1", "127.255.255.254", "127.8.9.10", "::1", "::1", "0:0:0:0:0:0:0:1", "::ffff:127.0.0.1"}
	hostsOtherIPs = []string{"10.0.0.5", "192.168.1.20", "0.0.0.0", "0.0.0.0", "::", "128.0.0.1", "126.255.255.255", "fe80::1", "::2", "1.0.0.127", "169.254.1.1", "ff02::1", "::ffff:10.0.0.1"}
	// names a machine gives itself: capitals first (they sort before every lower-case name and before
	// "localhost" as spelt, and behind some of them once lower-cased), digits first (around "0.0.0.0" and "::"),
	// names next to "localhost" in the order, spellings of the built-in names
	hostsLoopNames = []string{"SL-666", "kubernetes.docker.internal", "localhost", "localhost", "LOCALHOST", "Localhost", "localhost.localdomain", "ip6-localhost",
		"ip6-loopback", "Zebra", "zz.internal", "MyHost.Local", "A-HOST", "a-host", "host.docker.internal", "DESKTOP-7Q2", "mybox", "Mybox", "0host", "9lives.lan",
		"_gateway", "UPPER.CASE.LAN", "mIxEd.lan", "build-01", "Build-01", "localhos", "localhostx", "m", "k", "L", "l", "lz", "Lz", "Ko", "ko", "MacBook-Pro.local",
		"WIN-SRV01", "nuc", "NUC", "Xeon.internal", "zeta", "Alpha", "alpha", "loopback", "LoopBack"}
	hostsOtherNames = []string{"ads.example", "tracker.example", "Build-Host", "nas.lan", "PRINTER", "router.lan", "corp-proxy.internal", "telemetry.example", "Registry.Internal",
		"db01", "DB02", "ip6-allnodes", "ip6-allrouters", "broadcasthost"}
)

func genHostName(r *core.Rand) string {
	const letters = "abcdefghijklmnopqrstuvwxyzABCDEFGHIJKLMNOPQRSTUVWXYZ0123456789-"
	n := r.Range(1, 9)
	b := make([]byte, n)
	for i := range b {
		b[i] = letters[r.Intn(len(letters))]
	}
	if b[0] == '-' {
		b[0] = 'h'
	}
	if b[n-1] == '-' {
		b[n-1] = 'Z'
	}
	// nothing that reads as an IP address or as one of the scenarios' fixed names
	allDigits := true
	for _, c := range b {
		if c < '0' || c > '9' {
			allDigits = false
		}
	}
	if allDigits {
		b = append(b, 'h')
	}
	s := string(b)
	if r.Chance(40) {
		s += core.Pick(r, []string{".lan", ".internal", ".local", ".LAN", ".Local"})
	}
	return s
}

func hostsSwapCase(r *core.Rand, s string) string {
	b := []byte(s)
	for i := range b {
		if r.Bool() {
			if b[i] >= 'a' && b[i] <= 'z' {
				b[i] -= 32
			} else if b[i] >= 'A' && b[i] <= 'Z' {
				b[i] += 32
			}
		}
	}
	return string(b)
}

// GenHosts draws the text of a hosts file: loopback records (127.0.0.1, other 127/8 addresses, ::1 in several
// spellings) with names in mixed case, records with other addresses (their names must not become localhost),
// repeated names and repeated built-in names, one long line now and then, comments, blank lines, tabs.
func GenHosts(r *core.Rand) string {
	var lines []string
	sep := func() string { return core.Pick(r, []string{" ", " ", "\t", "  ", " \t"}) }
	name := func(pool []string) string {
		switch r.Intn(10) {
		case 0, 1, 2:
			return genHostName(r)
		case 3:
			return hostsSwapCase(r, core.Pick(r, pool))
		}
		return core.Pick(r, pool)
	}
	record := func(ip string, pool []string, many bool) {
		k := r.Range(1, 4)
		if many {
			k = r.Range(15, 40)
		}
		var b strings.Builder
		if r.Chance(8) {
			b.WriteString(core.Pick(r, []string{" ", "\t"}))
		}
		b.WriteString(ip)
		for i := 0; i < k; i++ {
			b.WriteString(sep())
			b.WriteString(name(pool))
		}
		if r.Chance(15) {
			b.WriteString(sep() + core.Pick(r, []string{"# added by installer", "#managed", "# localhost alias", "#Zed aab"}))
		}
		if r.Chance(8) {
			b.WriteString(" ")
		}
		lines = append(lines, b.String())
	}
	if r.Chance(75) {
		lines = append(lines, "127.0.0.1"+sep()+"localhost")
	}
	nl := r.Range(1, 5)
	no := r.Range(0, 3)
	long := r.Chance(12)
	for i := 0; i < nl+no; i++ {
		if r.Chance(15) {
			lines = append(lines, core.Pick(r, []string{"", "# a comment", "#127.0.0.1 commented-out", "   ", "## 127.0.0.1 Hidden"}))
		}
		if i < nl {
			record(core.Pick(r, hostsLoopIPs), hostsLoopNames, long && i == 0)
		} else {
			pool := hostsOtherNames
			if r.Chance(20) {
				pool = hostsLoopNames // the same name under another address as well
			}
			record(core.Pick(r, hostsOtherIPs), pool, false)
		}
	}
	core.Shuffle(r, lines)
	text := strings.Join(lines, "\n")
	if r.Chance(85) {
		text += "\n"
	}
	return text
}

// ---- hosts files the decoder rejects, and other forms of the file ----
//
// hostsfile.LocalhostAliases hands the file to github.com/kevinburke/hostsfile/lib.Decode, which is all or
// nothing: on the first line it cannot read (fewer than two fields, a first field that is not an address, a
// line of 64 KiB or more) it returns an EMPTY Hostsfile and the error, wherever the line is. NewHTTPProxy
// fails with that error. What follows is the harness's own reading of that contract (ReadHostsStrict), the
// line-by-line reading that skips such lines (ReadHostsLoose: what the machine's resolver makes of the file —
// the yardstick for "every loopback alias of the file") and the generator of such files.

// HostsMaxToken is bufio.MaxScanTokenSize: a line of this many bytes (without its \n) ends the scan.
const HostsMaxToken = 64 * 1024

func isHostsSpace(c byte) bool {
	return c == ' ' || c == '\t' || c == '\n' || c == '\v' || c == '\f' || c == '\r'
}

// hostsFieldsASCII: strings.Fields over ASCII white space only (the generator writes no other space characters).
func hostsFieldsASCII(s string) []string {
	var out []string
	start := -1
	for i := 0; i < len(s); i++ {
		if isHostsSpace(s[i]) {
			if start >= 0 {
				out = append(out, s[start:i])
				start = -1
			}
		} else if start < 0 {
			start = i
		}
	}
	if start >= 0 {
		out = append(out, s[start:])
	}
	return out
}

// hostsAddr: the first field as an address (an IP literal; an IPv6 one may carry a %zone, which is dropped).
func hostsAddr(f string) (string, bool) {
	a, err := netip.ParseAddr(f)
	if err != nil {
		return "", false
	}
	return a.WithZone("").String(), true
}

// readHostsLine: "" + nil record for a blank or comment line; errKind "too-long" | "entry" | "address".
func readHostsLine(raw string) (rec *HostsRecord, errKind string) {
	if len(raw) >= HostsMaxToken {
		return nil, "too-long"
	}
	f := hostsFieldsASCII(raw)
	if len(f) == 0 || f[0][0] == '#' {
		return nil, ""
	}
	if len(f) < 2 {
		return nil, "entry"
	}
	if _, ok := hostsAddr(f[0]); !ok {
		return nil, "address"
	}
	// the address as written, without the zone
	ip := f[0]
	if i := strings.IndexByte(ip, '%'); i >= 0 {
		ip = ip[:i]
	}
	rec = &HostsRecord{IP: ip}
	for _, n := range f[1:] {
		if n[0] == '#' {
			break
		}
		rec.Names = append(rec.Names, n)
	}
	return rec, ""
}

// ReadHostsStrict: the records of the text, or the kind of the first line that cannot be read (and nothing).
func ReadHostsStrict(text string) ([]HostsRecord, string) {
	var out []HostsRecord
	for _, line := range strings.Split(text, "\n") {
		rec, kind := readHostsLine(line)
		if kind != "" {
			return nil, kind
		}
		if rec != nil {
			out = append(out, *rec)
		}
	}
	return out, ""
}

// ReadHostsLoose: the records of the lines that can be read.
func ReadHostsLoose(text string) []HostsRecord {
	var out []HostsRecord
	for _, line := range strings.Split(text, "\n") {
		if rec, kind := readHostsLine(line); kind == "" && rec != nil {
			out = append(out, *rec)
		}
	}
	return out
}

// HostsAddrNeverResolved: a first field that is no IP literal and that no resolver can turn into an address
// (Decode hands the field to net.ResolveIPAddr, which looks a host NAME up; whether "localhost x" or "12x.0.0.1 x"
// is an error depends on the machine's resolver, so the generator stays clear of such fields): it has a byte no
// host name has, or it is made of digits and dots with four or more parts, one of them above 255 or more than four
// (no inet_aton short form).
func HostsAddrNeverResolved(f string) bool {
	if _, err := netip.ParseAddr(f); err == nil {
		return false
	}
	numeric := true
	for i := 0; i < len(f); i++ {
		c := f[i]
		switch {
		case c >= '0' && c <= '9', c == '.':
		case c >= 'a' && c <= 'z', c >= 'A' && c <= 'Z', c == '-', c == '_':
			numeric = false
		default:
			return true
		}
	}
	if !numeric {
		return false
	}
	parts := strings.Split(f, ".")
	if len(parts) < 4 {
		return false
	}
	for _, p := range parts {
		if p == "" || len(p) > 1 && p[0] == '0' {
			return false
		}
	}
	if len(parts) > 4 {
		return true
	}
	for _, p := range parts {
		if len(p) > 3 || (len(p) == 3 && p > "255") {
			return true
		}
	}
	return false
}

var hostsBadAddrs = []string{"127.0.0.1.5", "300.1.1.1", "127.0.0.256", "127.0.0.1:80", "[::1]", "[127.0.0.1]", "127.0.0.1/8", "::1/128", "::g", ":::1", "::1::", "1:2:3:4:5:6:7",
	"1:2:3:4:5:6:7:8:9", "127.0.0.1,", "127.0.0.1;", "127.0.0.1#dev", "::1%", "127.0.0.1%lo", "%eth0", "\"127.0.0.1\"", "127.0.0.1\\", "127.0.0.1\x00", "\xef\xbb\xbf127.0.0.1", "127,0,0,1",
	"::ffff:127.0.0.1.1", "::ffff:300.0.0.1", "12345::1", "127.0.0.1=", "<127.0.0.1>", "127.0.0.1|", "*", "@", "127.0.0.1:", ":127.0.0.1", "0.0.0.0.0", "256.256.256.256"}

// HostsBadAddrs: the pool of first fields that are no address (each HostsAddrNeverResolved).
func HostsBadAddrs() []string { return append([]string{}, hostsBadAddrs...) }

// GenHostsBadLine draws one line the decoder rejects, with its kind and its class.
func GenHostsBadLine(r *core.Rand) (line, kind, class string) {
	sep := func() string { return core.Pick(r, []string{" ", "\t", "  "}) }
	pad := func(s string) string {
		if r.Chance(25) {
			s = core.Pick(r, []string{" ", "\t"}) + s
		}
		if r.Chance(25) {
			s += core.Pick(r, []string{" ", "\t", "  "})
		}
		return s
	}
	switch r.Intn(10) {
	case 0, 1, 2:
		// an address and no name: what a VPN client or an editing slip leaves behind
		return pad(core.Pick(r, append(append([]string{}, hostsLoopIPs...), hostsOtherIPs...))), "entry", "address-without-name"
	case 3:
		return pad(core.Pick(r, append(append([]string{}, hostsLoopNames...), "devbox", "localhost", genHostName(r)))), "entry", "lone-name"
	case 4:
		return pad(core.Pick(r, []string{"\xef\xbb\xbf", "-", "127.0.0.1#x", "::1#", "x#y"})), "entry", "lone-token"
	case 5, 6, 7:
		a := core.Pick(r, hostsBadAddrs)
		l := a
		for i, k := 0, r.Range(1, 3); i < k; i++ {
			l += sep() + core.Pick(r, hostsLoopNames)
		}
		return pad(l), "address", "unparsable-address"
	case 8:
		// a well-formed address spoilt by one byte
		a := core.Pick(r, hostsLoopIPs)
		i := r.Intn(len(a) + 1)
		a = a[:i] + core.Pick(r, []string{"/", ":", "%", "[", "]", ",", "\x00", "\x7f", "\xc3\xa9", "g:", "..", "*"}) + a[i:]
		if !HostsAddrNeverResolved(a) {
			a = "[" + a
		}
		return a + sep() + core.Pick(r, hostsLoopNames), "address", "spoilt-address"
	}
	// a line of 64 KiB or more: a loopback record with very many names, or a long comment
	if r.Bool() {
		return "# " + strings.Repeat("x", HostsMaxToken+r.Intn(40)), "too-long", "comment-too-long"
	}
	var b strings.Builder
	b.WriteString(core.Pick(r, hostsLoopIPs))
	for b.Len() < HostsMaxToken {
		b.WriteString(" " + core.Pick(r, hostsLoopNames))
	}
	return b.String(), "too-long", "record-too-long"
}

// GenHostsMalformed draws a hosts file with well-formed loopback alias records (GenHosts) and one to three lines the
// decoder rejects, at the beginning, in the middle or at the end; where: "begin" | "middle" | "end" of the first one.
func GenHostsMalformed(r *core.Rand) (text string, classes []string, where string) {
	base := GenHosts(r.Sub())
	if loop, _ := LoopbackNames(ParseHosts(base)); len(loop) == 0 || (len(loop) == 1 && strings.EqualFold(loop[0], "localhost")) {
		base = "127.0.1.1" + core.Pick(r, []string{" ", "\t"}) + core.Pick(r, []string{"devbox", "DevBox", "build-01"}) + "\n" + base +
			core.Pick(r, []string{"", "\n"}) + "::1 ip6-localhost ip6-loopback\n"
	}
	lines := strings.Split(strings.TrimSuffix(base, "\n"), "\n")
	final := strings.HasSuffix(base, "\n")
	where = core.Pick(r, []string{"begin", "middle", "end"})
	n := core.Pick(r, []int{1, 1, 1, 2, 3})
	for i := 0; i < n; i++ {
		l, _, class := GenHostsBadLine(r)
		classes = append(classes, class)
		at := 0
		switch {
		case i > 0:
			at = r.Intn(len(lines) + 1)
		case where == "end":
			at = len(lines)
		case where == "middle" && len(lines) > 1:
			at = r.Range(1, len(lines)-1)
		case where == "middle":
			at, where = len(lines), "end"
		}
		lines = append(lines[:at:at], append([]string{l}, lines[at:]...)...)
	}
	eol := "\n"
	if r.Chance(15) {
		eol = "\r\n"
	}
	text = strings.Join(lines, eol)
	if final || r.Chance(50) {
		text += eol
	}
	return text, classes, where
}

// GenHostsForm draws a well-formed hosts file in one of the forms a machine's file takes besides GenHosts' own:
// CRLF line ends, no line feed at the end, CR-only line ends (one line to the decoder), only comments and blank
// lines, a record or a comment just below the 64 KiB limit, records without names, names with a '#' inside.
func GenHostsForm(r *core.Rand) (text, form string) {
	base := GenHosts(r.Sub())
	switch r.Intn(8) {
	case 0, 1:
		return strings.ReplaceAll(base, "\n", "\r\n"), "crlf"
	case 2:
		return strings.TrimSuffix(base, "\n") + core.Pick(r, []string{"", "\n\n\n", "\n \t \n"}), "no-final-line-feed-or-blank-tail"
	case 3:
		return strings.ReplaceAll(strings.TrimSuffix(base, "\n"), "\n", "\r") + "\r", "cr-only"
	case 4:
		return core.Pick(r, []string{"# nothing here\n", "\n\n", "# a\n#b\n\n   # 127.0.0.1 hidden\n", " \t\n", "#", "\r\n\r\n# c\r\n"}), "no-records"
	case 5:
		// the longest line the scanner still delivers
		var b strings.Builder
		b.WriteString(core.Pick(r, hostsLoopIPs))
		for {
			n := " " + core.Pick(r, hostsLoopNames)
			if b.Len()+len(n) > HostsMaxToken-1 {
				break
			}
			b.WriteString(n)
		}
		for b.Len() < HostsMaxToken-1 {
			b.WriteString(" ")
		}
		return base + b.String() + "\n", "record-just-below-the-line-limit"
	case 6:
		return base + "127.0.0.1 # " + core.Pick(r, hostsLoopNames) + "\n::1\t#x\n", "record-without-names"
	}
	return base + "127.0.0.1 Half#Comment dev#1\n", "hash-inside-a-name"
}
