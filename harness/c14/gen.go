package c14

import (
	"fmt"
	"net"
	"strings"

	"github.com/saucelabs/forwarder/verifharness/core"
)

// Generators for the agreed domain (host names, IPv4/IPv6 literals, dotted masks, CIDRs, globs of
// literals/'.'/'*'/'?') with near misses aimed at the edit classes of DESIGN.md §5b, plus the
// malformed stream (null/undefined/number arguments; non-string and non-ASCII results).

var hostPool = []string{
	"www.example.com", "example.com", "mail.example.com", "www.example.org", "intranet", "localhost",
	"www", "host1.corp.local", "corp.local", "a.b.c.d.e", "wwwxexample.com", "www.example.com.evil.net",
	"notexample.com", "example.com.", "x", "EXAMPLE.com", "www-2.example.com", "ftp.mozilla.org", "www.mozilla.org",
}

var octetPool = []int{0, 1, 2, 10, 16, 31, 100, 127, 128, 172, 192, 168, 224, 240, 254, 255}

func genOctet(r *core.Rand) int {
	if r.Chance(70) {
		return core.Pick(r, octetPool)
	}
	return r.Intn(256)
}

func genQuad(r *core.Rand) [4]int {
	return [4]int{genOctet(r), genOctet(r), genOctet(r), genOctet(r)}
}

func quadStr(q [4]int) string { return fmt.Sprintf("%d.%d.%d.%d", q[0], q[1], q[2], q[3]) }

var maskPool = []string{
	"255.255.255.0", "255.0.0.0", "255.255.0.0", "255.255.255.255", "0.0.0.0", "255.240.0.0", "255.255.254.0",
	"255.255.255.128", "255.0.255.0", "0.0.0.255", "128.0.0.0", "255.255.255.252", "0.255.0.0",
}

func parseQuad(s string) [4]int {
	var q [4]int
	fmt.Sscanf(s, "%d.%d.%d.%d", &q[0], &q[1], &q[2], &q[3])
	return q
}

func genMask(r *core.Rand) string {
	if r.Chance(80) {
		return core.Pick(r, maskPool)
	}
	return quadStr(genQuad(r))
}

// badQuads: strings that are not valid dotted quads for isValidIpAddress and/or net.ParseIP.
var badQuads = []string{
	"1.2.3", "1.2.3.4.5", "256.1.1.1", "1.2.3.256", "1.2.3.", ".1.2.3", "1..2.3", "1.2.3.4 ", " 1.2.3.4", "1.2.3.04",
	"010.1.1.1", "1.2.3.0004", "a.b.c.d", "", "1234.1.1.1", "1.2.3.4\n", "0x1.2.3.4", "1.2.3.-4", "999.999.999.999",
}

// genIPv4Text returns an IPv4 literal, valid most of the time.
func genIPv4Text(r *core.Rand) string {
	if r.Chance(12) {
		return core.Pick(r, badQuads)
	}
	return quadStr(genQuad(r))
}

var v6Static = []string{
	"::1", "::", "2001:db8::1", "fe80::1", "2001:db8:0:0:1::", "1:2:3:4:5:6:7:8", "2001:DB8::A", "::ffff:1.2.3.4",
	"::ffff:10.0.0.1", "2001:db8::1:0:0:1", "1::", "0:0:1::1:0", "64:ff9b::192.0.2.33", "1:2:3:4:5:6:1.2.3.4", "fe80::abcd:0",
	"2001:0db8:0000:0000:0000:0000:0000:0001", "::2", "ff02::1", "2001:db8:ffff:ffff:ffff:ffff:ffff:ffff",
}

var v6Bad = []string{
	":::", "1::2::3", "12345::", "1:2:3:4:5:6:7", "::1%eth0", "1:2:3:4:5:6:7:8:9", "1:2:3:4:5:6:7:8::", "::g", "1:2:3:4:5:6:7:",
	":1:2:3:4:5:6:7", "::1.2.3", "1:2:3:4:5:6:7:1.2.3.4", "[::1]", "2001:db8::/32", "::ffff:1.2.3.256", "%", "1.2.3.4:80", "::01.2.3.4",
}

func genIPv6Bytes(r *core.Rand) net.IP {
	ip := make(net.IP, 16)
	switch r.Intn(4) {
	case 0:
		copy(ip, []byte{0x20, 0x01, 0x0d, 0xb8})
	case 1:
		copy(ip, []byte{0xfe, 0x80})
	case 2:
		copy(ip, []byte{0xfd, 0x00})
	}
	for g := 2; g < 8; g++ {
		if r.Chance(45) {
			continue
		}
		if r.Chance(50) {
			ip[2*g+1] = byte(r.Intn(4))
		} else {
			ip[2*g], ip[2*g+1] = byte(r.Intn(256)), byte(r.Intn(256))
		}
	}
	return ip
}

// v6Text prints a 16-byte address in one of several spellings.
func v6Text(r *core.Rand, ip net.IP) string {
	g := make([]int, 8)
	for i := range g {
		g[i] = int(ip[2*i])<<8 | int(ip[2*i+1])
	}
	switch r.Intn(5) {
	case 0, 1:
		return ip.String()
	case 2:
		return fmt.Sprintf("%x:%x:%x:%x:%x:%x:%x:%x", g[0], g[1], g[2], g[3], g[4], g[5], g[6], g[7])
	case 3:
		return fmt.Sprintf("%04X:%04X:%04X:%04X:%04X:%04X:%04X:%04X", g[0], g[1], g[2], g[3], g[4], g[5], g[6], g[7])
	default:
		return fmt.Sprintf("%x:%x:%x:%x:%x:%x:%d.%d.%d.%d", g[0], g[1], g[2], g[3], g[4], g[5], ip[12], ip[13], ip[14], ip[15])
	}
}

func genIPv6Text(r *core.Rand) string {
	switch {
	case r.Chance(10):
		return core.Pick(r, v6Bad)
	case r.Chance(35):
		return core.Pick(r, v6Static)
	}
	return v6Text(r, genIPv6Bytes(r))
}

// genIPText: any address literal (valid ones parse with net.ParseIP).
func genIPText(r *core.Rand) string {
	if r.Bool() {
		return genIPv4Text(r)
	}
	return genIPv6Text(r)
}

func genValidIP(r *core.Rand, v4pct int) string {
	for {
		var s string
		if r.Chance(v4pct) {
			s = quadStr(genQuad(r))
		} else if r.Chance(30) {
			s = core.Pick(r, v6Static)
		} else {
			s = v6Text(r, genIPv6Bytes(r))
		}
		if net.ParseIP(s) != nil {
			return s
		}
	}
}

func genHost(r *core.Rand) string {
	switch {
	case r.Chance(70):
		return core.Pick(r, hostPool)
	case r.Chance(50):
		return quadStr(genQuad(r))
	case r.Chance(50):
		return genValidIP(r, 0)
	}
	n := r.Range(1, 3)
	var ls []string
	for i := 0; i < n; i++ {
		ls = append(ls, core.Pick(r, []string{"a", "bb", "www", "x1", "corp", "com", "net", "example"}))
	}
	return strings.Join(ls, ".")
}

// genDomain: second argument of dnsDomainIs relative to host.
func genDomain(r *core.Rand, host string) string {
	n := len(host)
	switch r.Intn(10) {
	case 0, 1, 2, 3: // a suffix (often on a label boundary)
		if n == 0 {
			return ""
		}
		if i := strings.IndexByte(host, '.'); i >= 0 && r.Chance(60) {
			if r.Bool() {
				return host[i:]
			}
			return host[i+1:]
		}
		return host[r.Intn(n+1):]
	case 4, 5, 6: // an infix that is not a suffix (substring-vs-suffix)
		if n < 3 {
			return "x" + host
		}
		i := r.Intn(n - 1)
		j := r.Range(i+1, n-1)
		return host[i:j]
	case 7: // a proper prefix
		if n == 0 {
			return "a"
		}
		return host[:r.Range(1, n)]
	case 8: // longer than host
		return "x." + host
	default:
		return core.Pick(r, []string{".example.com", "example.com", ".com", "com", ".org", ".corp.local", "local", ".", ""})
	}
}

// genHostDom: second argument of localHostOrDomainIs relative to host.
func genHostDom(r *core.Rand, host string) string {
	switch r.Intn(8) {
	case 0, 1:
		return host
	case 2, 3:
		return host + "." + core.Pick(r, []string{"example.com", "corp.local", "com", ""})
	case 4:
		return host + core.Pick(r, []string{"x.example.com", "-2.example.com", "example.com"})
	case 5:
		if len(host) > 1 {
			return host[:len(host)-1] + ".example.com"
		}
		return "." + host
	case 6:
		return "x" + host + ".example.com"
	default:
		return core.Pick(r, hostPool)
	}
}

const globLiterals = "abcxyzwWE019-_/:%=&~,;@! #"

// genGlobFor builds a pattern of literals, '.', '*', '?' from a target string and returns it with a
// (possibly perturbed) subject: the perturbations are near misses for the escaping of '.'.
func genGlobFor(r *core.Rand, target string) (pattern, subject string) {
	var p strings.Builder
	i := 0
	for i < len(target) {
		c := target[i]
		switch {
		case r.Chance(12):
			p.WriteByte('*')
			i += r.Range(0, 5)
		case r.Chance(10) && c != '.':
			p.WriteByte('?')
			i++
		case c == '.' || c == '*' || c == '?' || strings.IndexByte(globLiterals, c) >= 0 || c >= 'a' && c <= 'z' || c >= 'A' && c <= 'Z' || c >= '0' && c <= '9':
			p.WriteByte(c)
			i++
		default:
			p.WriteByte('?') // a character outside the agreed alphabet is not written literally
			i++
		}
	}
	if r.Chance(10) {
		p.WriteByte('*')
	}
	pattern = p.String()
	subject = target
	b := []byte(target)
	switch r.Intn(8) {
	case 0, 1, 2: // replace a '.' of the subject by another character
		var dots []int
		for k, c := range b {
			if c == '.' {
				dots = append(dots, k)
			}
		}
		if len(dots) > 0 {
			b[core.Pick(r, dots)] = core.Pick(r, []byte("x-a0/"))
			subject = string(b)
		}
	case 3: // drop a character
		if len(b) > 0 {
			k := r.Intn(len(b))
			subject = string(b[:k]) + string(b[k+1:])
		}
	case 4: // insert a character
		k := r.Intn(len(b) + 1)
		subject = string(b[:k]) + string(core.Pick(r, []byte("x.a/"))) + string(b[k:])
	}
	return pattern, subject
}

func genGlobFree(r *core.Rand) string {
	n := r.Range(0, 8)
	var p strings.Builder
	for i := 0; i < n; i++ {
		switch r.Intn(6) {
		case 0:
			p.WriteByte('*')
		case 1:
			p.WriteByte('?')
		case 2:
			p.WriteByte('.')
		default:
			p.WriteByte(globLiterals[r.Intn(len(globLiterals))])
		}
	}
	return p.String()
}

// genInNet builds (host address, pattern, mask) with the host inside or just outside the net.
func genInNet(r *core.Rand) (host, pattern, mask string) {
	mask = genMask(r)
	m := parseQuad(mask)
	pq := genQuad(r)
	hq := pq
	switch r.Intn(6) {
	case 0: // identical
	case 1, 2: // differ only where the mask is 0 (still inside), pattern keeps bits outside the mask
		for i := range hq {
			hq[i] = (pq[i] & m[i]) | (genOctet(r) &^ m[i])
		}
	case 3, 4: // flip one bit (inside or outside the mask)
		i := r.Intn(4)
		hq[i] ^= 1 << r.Intn(8)
	default:
		hq = genQuad(r)
	}
	host, pattern = quadStr(hq), quadStr(pq)
	if r.Chance(6) {
		pattern = core.Pick(r, badQuads)
	}
	if r.Chance(6) {
		mask = core.Pick(r, badQuads)
	}
	return
}

// genInNetEx builds (host literal, CIDR) of one family with the host inside / just outside.
func genInNetEx(r *core.Rand) (host, cidr string) {
	v4 := r.Bool()
	var ip net.IP
	bits := 128
	if v4 {
		q := genQuad(r)
		ip = net.IPv4(byte(q[0]), byte(q[1]), byte(q[2]), byte(q[3])).To4()
		bits = 32
	} else {
		ip = genIPv6Bytes(r)
	}
	n := r.Range(0, bits)
	if r.Chance(50) {
		n = core.Pick(r, []int{0, 1, 7, 8, 9, 16, 24, 31, 32})
		if !v4 && r.Bool() {
			n = core.Pick(r, []int{32, 48, 63, 64, 65, 96, 100, 120, 127, 128})
		}
	}
	h := append(net.IP(nil), ip...)
	switch r.Intn(5) {
	case 0:
	case 1, 2: // flip a bit at or after position n (stays inside) or before n (outside)
		j := r.Intn(bits)
		h[j/8] ^= 0x80 >> (j % 8)
	case 3: // flip exactly the boundary bits
		if n > 0 {
			j := n - 1
			if r.Bool() && n < bits {
				j = n
			}
			h[j/8] ^= 0x80 >> (j % 8)
		}
	default:
		if v4 {
			q := genQuad(r)
			h = net.IPv4(byte(q[0]), byte(q[1]), byte(q[2]), byte(q[3])).To4()
		} else {
			h = genIPv6Bytes(r)
		}
	}
	txt := func(x net.IP) string {
		if len(x) == 4 {
			return x.String()
		}
		return v6Text(r, x)
	}
	host = txt(h)
	addr := txt(ip)
	if !v4 && net.ParseIP(host).To4() != nil {
		host = "2001:db8::1"
	}
	if !v4 && net.ParseIP(addr).To4() != nil {
		addr = "2001:db8::"
	}
	cidr = fmt.Sprintf("%s/%d", addr, n)
	switch {
	case r.Chance(5): // cross family
		if v4 {
			host = genValidIP(r, 0)
		} else {
			host = quadStr(genQuad(r))
		}
	case r.Chance(4): // v4-mapped spellings (outside the specification's domain, inside the model's)
		host = core.Pick(r, []string{"::ffff:1.2.3.4", "::ffff:10.0.0.1", "1.2.3.4", "10.0.0.1"})
		cidr = core.Pick(r, []string{"::ffff:1.2.3.0/120", "::ffff:0.0.0.0/96", "::ffff:10.0.0.0/104", "::ffff:1.2.3.4/64", "1.2.3.0/24", "::/0", "10.0.0.0/8"})
	case r.Chance(5):
		cidr = core.Pick(r, []string{"1.2.3.0", "1.2.3.0/", "1.2.3.0/a", "1.2.3.0/024", "1.2.3.0/33", "::/129", "/8", "1.2.3.0/8/9", "1.2.3.0/-1", "1.2.3.0/ 8", "2001:db8::/032", "1.2.3.0/99999999999"})
	case r.Chance(4):
		host = core.Pick(r, append(append([]string{}, badQuads...), v6Bad...))
	}
	return
}

func genIPList(r *core.Rand) string {
	n := r.Range(0, 9)
	if r.Chance(8) {
		n = r.Range(10, 20)
	}
	var xs []string
	pool := []string{}
	seen := map[string]bool{}
	for i := 0; i < n; i++ {
		var s string
		switch {
		case len(pool) > 0 && n <= 12 && r.Chance(12): // duplicates / a second spelling of the same address
			// (only up to 12 elements, where sort.Slice is a stable insertion sort: beyond that the
			// order of equal addresses is not determined, so longer lists hold distinct addresses)
			s = core.Pick(r, pool)
			if ip := net.ParseIP(s); ip != nil && ip.To4() == nil && r.Bool() {
				s = v6Text(r, ip)
			}
		case r.Chance(5):
			s = genIPText(r) // may be invalid
		default:
			s = genValidIP(r, 50)
		}
		if n > 12 {
			if ip := net.ParseIP(s); ip != nil {
				if seen[string(ip)] {
					continue
				}
				seen[string(ip)] = true
			}
		}
		pool = append(pool, s)
		if r.Chance(15) {
			s = " " + s
		}
		if r.Chance(10) {
			s += core.Pick(r, []string{" ", "\t"})
		}
		xs = append(xs, s)
		if r.Chance(5) {
			xs = append(xs, core.Pick(r, []string{"", " "}))
		}
	}
	return strings.Join(xs, ";")
}

// ---- environment ----

type envT struct {
	Table   map[string][]string `json:"table"`
	MyIPs   []string            `json:"my_ips"`
	MyIPsEx []string            `json:"my_ips_ex"`
}

func genEnv(r *core.Rand, hosts ...string) envT {
	e := envT{Table: map[string][]string{}, MyIPs: []string{}, MyIPsEx: []string{}}
	names := append([]string{}, hosts...)
	for i := 0; i < 4; i++ {
		names = append(names, core.Pick(r, hostPool))
	}
	for _, h := range names {
		if net.ParseIP(h) != nil || r.Chance(25) {
			continue
		}
		var ips []string
		switch r.Intn(5) {
		case 0:
			ips = []string{quadStr(genQuad(r))}
		case 1:
			ips = []string{genValidIP(r, 0)}
		case 2:
			ips = []string{genValidIP(r, 0), quadStr(genQuad(r)), quadStr(genQuad(r))}
		case 3:
			ips = []string{quadStr(genQuad(r)), genValidIP(r, 0)}
		default:
			n := r.Range(1, 4)
			for j := 0; j < n; j++ {
				ips = append(ips, genValidIP(r, 60))
			}
		}
		e.Table[h] = ips
	}
	for i, n := 0, r.Intn(3); i < n; i++ {
		e.MyIPs = append(e.MyIPs, genValidIP(r, 85))
	}
	for i, n := 0, r.Intn(4); i < n; i++ {
		e.MyIPsEx = append(e.MyIPsEx, genValidIP(r, 50))
	}
	return e
}

// ---- result-list strings ----

var keywords = []string{"PROXY", "HTTP", "HTTPS", "SOCKS", "SOCKS4", "SOCKS5", "DIRECT", "proxy", "Proxy", "socks5", "direct", "FOO", "PROXYS", "SOCKS6", ""}

var (
	goodHosts = []string{"proxy.example.com", "p", "10.0.0.1", "localhost", "a-b.c", "[::1]", "[2001:db8::1]", "w3proxy.netscape.com"}
	goodPorts = []string{"80", "8080", "3128", "1080", "443", "1", "65535", "0"}
)

// genPortText: the port part of an address. About half are ordinary ports; the rest are the shapes
// parseProxy has to refuse (empty, not a number, out of range, signed, blanks) and the edge of what
// it has to accept (65535, leading zeros, digit strings of any length).
func genPortText(r *core.Rand) string {
	switch r.Intn(20) {
	case 0, 1:
		return "" // empty port
	case 2:
		return core.Pick(r, []string{"http", "80a", "a80", "0x50", "8o", "1e3", "80.0", "8_0", "_80", "ff", "x"})
	case 3, 4: // around the 16-bit limit, 5-7 digits
		return core.Pick(r, []string{"65534", "65535", "65536", "65537", "65545", "65635", "66535", "75535", "99999", "100000", "165535", "655350", "655360", "999999", "1000000", "6553500", "9999999"})
	case 5: // leading zeros
		return strings.Repeat("0", r.Range(1, 8)) + core.Pick(r, []string{"", "0", "1", "80", "8080", "65535", "65536", "99999"})
	case 6:
		return core.Pick(r, []string{"+80", "-80", "+0", "-0", "-1", "+", "-", "+65535", "80+"})
	case 7: // blanks and tabs
		return core.Pick(r, []string{" 80", "8 0", "\t80", "8\t0", "80\t1", "80 1", " ", "\t", "  80", "80  x"})
	case 8: // random digit strings of 5-7 digits
		n := r.Range(5, 7)
		var b strings.Builder
		for i := 0; i < n; i++ {
			b.WriteByte(byte('0' + r.Intn(10)))
		}
		return b.String()
	case 9: // long digit strings (beyond uint16/uint32/uint64)
		return core.Pick(r, []string{"4294967296", "4294967376", "18446744073709551615", "18446744073709551616", "18446744073709551696",
			"00000000000000000000000000080", "100000000000000000000000000000", "99999999999999999999999", "0000000000000000000000065536"})
	default:
		return core.Pick(r, goodPorts)
	}
}

// genHostText: the host part of an address as written (brackets included).
func genHostText(r *core.Rand) string {
	switch r.Intn(20) {
	case 0, 1:
		return "" // empty host
	case 2:
		return "[]" // empty host in brackets
	case 3, 4: // blanks and tabs inside the host
		return core.Pick(r, []string{"h h", "h\th", " h", "\th", "h\t", "pro xy.example.com", "10.0.0.1 ", "[:: 1]", "[::1\t]", "[ ]", "[\t::1]", "a\tb.c"})
	case 5, 6: // IPv6 literals without brackets
		return core.Pick(r, []string{"::1", "2001:db8::1", "fe80::1", "::", "::ffff:10.0.0.1", "1:2:3:4:5:6:7:8"})
	case 7: // broken brackets
		return core.Pick(r, []string{"[::1", "::1]", "[a]b", "[[::1]]", "[::1]]", "a[b]", "[", "]", "[::1]x"})
	case 8, 9: // IPv6 literals in brackets
		return core.Pick(r, []string{"[::1]", "[2001:db8::1]", "[fe80::1]", "[::]", "[::ffff:10.0.0.1]", "[1:2:3:4:5:6:7:8]", "[fe80::1%eth0]"})
	case 10: // brackets around something else
		return core.Pick(r, []string{"[p]", "[10.0.0.1]", "[proxy.example.com]"})
	default:
		return core.Pick(r, goodHosts)
	}
}

func genHostPort(r *core.Rand) string {
	if r.Chance(40) { // a valid address
		return core.Pick(r, goodHosts) + ":" + core.Pick(r, goodPorts)
	}
	h := genHostText(r)
	switch r.Intn(12) {
	case 0:
		return h // missing port
	case 1:
		return h + ":80:90"
	case 2:
		return h + ":" + core.Pick(r, goodPorts)
	case 3:
		return core.Pick(r, goodHosts) + ":" + genPortText(r)
	default:
		return h + ":" + genPortText(r)
	}
}

func genEntry(r *core.Rand) string {
	var s string
	switch r.Intn(12) {
	case 0:
		s = "DIRECT"
	case 1:
		s = core.Pick(r, []string{"", " ", "DIRECT ", "direct", "PROXY", "PROXY ", "DIRECT a:1", "\tDIRECT"})
	default:
		kw := core.Pick(r, keywords)
		if r.Chance(80) {
			kw = core.Pick(r, keywords[:6])
		}
		sep := " "
		if r.Chance(8) {
			sep = core.Pick(r, []string{"  ", "\t", ""})
		}
		s = kw + sep + genHostPort(r)
	}
	if r.Chance(30) {
		s = " " + s
	}
	if r.Chance(15) {
		s += core.Pick(r, []string{" ", "  ", "\t", "\n"})
	}
	return s
}

func genResultList(r *core.Rand) string {
	if r.Chance(6) {
		// arbitrary ASCII
		n := r.Range(0, 12)
		const al = "PROXYDIRECTSOCKS45 ;:[]ab.\t0189-"
		var b strings.Builder
		for i := 0; i < n; i++ {
			b.WriteByte(al[r.Intn(len(al))])
		}
		return b.String()
	}
	n := r.Range(1, 4)
	if r.Chance(5) {
		n = 0
	}
	var es []string
	for i := 0; i < n; i++ {
		es = append(es, genEntry(r))
	}
	s := strings.Join(es, ";")
	if r.Chance(6) {
		s += ";"
	}
	return s
}

// genGoodResult: a well-formed result list (what a sane script returns).
func genGoodResult(r *core.Rand) string {
	n := r.Range(1, 3)
	var es []string
	for i := 0; i < n; i++ {
		if r.Chance(25) {
			es = append(es, "DIRECT")
			continue
		}
		es = append(es, core.Pick(r, keywords[:6])+" "+core.Pick(r, []string{"proxy.example.com", "p", "10.0.0.1", "[::1]"})+":"+core.Pick(r, []string{"80", "8080", "3128", "1080"}))
	}
	return strings.Join(es, "; ")
}

// ---- words with a meaning to the engine ----

// Helper arguments are strings chosen by whoever wrote the PAC file (an intranet host may be called "constructor");
// inside the helpers they index objects, become RegExp sources, are compared loosely and converted to numbers.
// engineWords are strings that mean something to the engine in one of these roles: names of Object.prototype
// members (what a lookup in a plain object finds for a key nobody stored), of Array / Function / String members,
// the spellings of undefined / null / NaN / booleans, numeric strings in several notations, the empty string and
// blanks, RegExp metacharacters and replacement patterns, names of the helpers' own tables, and very long strings.
var engineWords = []string{
	"constructor", "toString", "valueOf", "hasOwnProperty", "isPrototypeOf", "propertyIsEnumerable", "toLocaleString",
	"__proto__", "__defineGetter__", "__defineSetter__", "__lookupGetter__", "__lookupSetter__", "prototype",
	"length", "name", "caller", "arguments", "call", "apply", "bind", "test", "exec", "source", "lastIndex", "index", "input",
	"undefined", "null", "NaN", "Infinity", "-Infinity", "true", "false", "function", "this", "eval", "Object", "Array",
	"0", "1", "-1", "-0", "00", "08", "255", "256", "1e3", "0x10", "1.5", ".5", "5.", "4294967295", "4294967296", "9007199254740993", " 7 ",
	"", " ", "  ", "\t", ".", "..", "*", "?", "**", "?*?",
	"(", ")", "[", "]", "{", "}", "+", "|", "^", "$", "\\", "\\d", "\\.", "[a-z]+", "(a|b)", "a{2}", "^a$", "(?:x)", "(?=x)", "a+?", "[^.]", "$1", "$&", "$`", "$'", "$$",
	"SUN", "MON", "SAT", "JAN", "DEC", "GMT", "wdays", "months", "dnsResolve", "shExpMatch", "FindProxyForURL", "host", "url",
	"[object Object]", "function () { [native code] }", "a,b", "1,2", "0.0.0.0", "255.255.255.255", "::", "::1", "0/0", "/", "/8", "1/8",
}

var longWords = []string{
	strings.Repeat("a", 3000), strings.Repeat("ab.", 800), strings.Repeat("w.", 1200) + "example.com", strings.Repeat("9", 400),
	"constructor" + strings.Repeat(".constructor", 200), strings.Repeat("1.", 500) + "1", "*" + strings.Repeat("x", 2000),
	strings.Repeat("?", 600), strings.Repeat("a", 1500) + "*" + strings.Repeat("b", 1500),
}

func genEngineWord(r *core.Rand) string {
	switch {
	case r.Chance(6):
		return core.Pick(r, longWords)
	case r.Chance(12): // a word as a label of a name, or with a glob around it
		w := core.Pick(r, engineWords[:40])
		return core.Pick(r, []string{w + ".example.com", "www." + w, w + "." + w, "*." + w, w + "*", "." + w, w + ".", "?" + w[min(1, len(w)):]})
	}
	return core.Pick(r, engineWords)
}

// ---- malformed values ----

func genMalformedArg(r *core.Rand) val {
	switch r.Intn(4) {
	case 0:
		return vNull()
	case 1:
		return vUndef()
	default:
		return vNum(int64(core.Pick(r, []int{0, 1, 5, -1, 42, 255, 1234567})))
	}
}

var nonASCII = []string{"PROXY é:80", "DIRECT ", "PROXY 例え.jp:80", " ", "ПРОКСИ", "PROXY a:1; DIRECT😀", "\u0080", "ÿ"}

func genMalformedReturn(r *core.Rand) val {
	switch r.Intn(8) {
	case 0:
		return vNum(int64(r.Intn(100)))
	case 1:
		return vNull()
	case 2:
		return vUndef()
	case 3:
		return vObj()
	case 4:
		return vBool(r.Bool())
	default:
		return vStr(core.Pick(r, nonASCII))
	}
}

// ---- helper calls relative to a request ----

type hint struct {
	host, url string
	env       envT
}

func (h hint) someName(r *core.Rand) string {
	var ns []string
	for k := range h.env.Table {
		ns = append(ns, k)
	}
	if len(ns) == 0 || r.Chance(30) {
		return genHost(r)
	}
	// map order is random: pick by sorted order for determinism
	sortStrings(ns)
	return core.Pick(r, ns)
}

func sortStrings(xs []string) {
	for i := 1; i < len(xs); i++ {
		for j := i; j > 0 && xs[j] < xs[j-1]; j-- {
			xs[j], xs[j-1] = xs[j-1], xs[j]
		}
	}
}

func (h hint) resolved4(name string) string {
	if ip := net.ParseIP(name); ip != nil {
		if ip.To4() != nil {
			return ip.String()
		}
		return ""
	}
	for _, s := range h.env.Table[name] {
		if ip := net.ParseIP(s); ip != nil && ip.To4() != nil {
			return ip.String()
		}
	}
	return ""
}

var helperNames = []string{
	"isPlainHostName", "dnsDomainIs", "localHostOrDomainIs", "dnsDomainLevels", "shExpMatch", "isInNet",
	"isResolvable", "dnsResolve", "myIpAddress", "isResolvableEx", "isInNetEx", "dnsResolveEx", "myIpAddressEx",
	"sortIpAddressList", "getClientVersion",
}

func hostArg(r *core.Rand, h hint) (arg, string) {
	if r.Chance(70) {
		return aHost(), h.host
	}
	s := h.someName(r)
	return aLit(vStr(s)), s
}

// genCall returns a call of the named helper with arguments from the agreed domain, related to the
// request so that both outcomes occur; malformed=true may replace arguments by null/undefined/numbers.
func genCall(r *core.Rand, name string, h hint, malformed bool) call {
	c := call{h: name}
	switch name {
	case "isPlainHostName", "dnsDomainLevels", "isResolvable", "dnsResolve", "isResolvableEx", "dnsResolveEx":
		a, _ := hostArg(r, h)
		c.args = []arg{a}
	case "dnsDomainIs":
		a, s := hostArg(r, h)
		c.args = []arg{a, aLit(vStr(genDomain(r, s)))}
	case "localHostOrDomainIs":
		a, s := hostArg(r, h)
		if r.Chance(40) { // the unqualified name of the request host
			if i := strings.IndexByte(s, '.'); i > 0 {
				a, s = aLit(vStr(s[:i])), s[:i]
				c.args = []arg{a, aLit(vStr(core.Pick(r, []string{h.host, genHostDom(r, s)})))}
				break
			}
		}
		c.args = []arg{a, aLit(vStr(genHostDom(r, s)))}
	case "shExpMatch":
		target := h.host
		a := aHost()
		if r.Chance(40) {
			target, a = h.url, aURL()
		}
		p, subj := genGlobFor(r, target)
		if r.Chance(30) {
			a = aLit(vStr(subj))
		}
		if r.Chance(8) {
			p = genGlobFree(r)
		}
		c.args = []arg{a, aLit(vStr(p))}
	case "isInNet":
		hs, p, m := genInNet(r)
		a := aLit(vStr(hs))
		if r.Chance(50) {
			// the request host (name or literal): pattern near its IPv4 address
			a = aHost()
			if ip := h.resolved4(h.host); ip != "" && r.Chance(80) {
				q, mq := parseQuad(ip), parseQuad(m)
				if len(strings.Split(m, ".")) == 4 {
					for i := range q {
						q[i] = q[i]&mq[i] | genOctet(r)&^mq[i]
					}
					if r.Chance(30) {
						q[r.Intn(4)] ^= 1 << r.Intn(8)
					}
					p = quadStr(q)
				}
			}
		}
		c.args = []arg{a, aLit(vStr(p)), aLit(vStr(m))}
	case "isInNetEx":
		hs, cidr := genInNetEx(r)
		c.args = []arg{aLit(vStr(hs)), aLit(vStr(cidr))}
		if net.ParseIP(h.host) != nil && r.Chance(40) {
			c.args[0] = aHost()
		}
	case "sortIpAddressList":
		c.args = []arg{aLit(vStr(genIPList(r)))}
	case "myIpAddress", "myIpAddressEx", "getClientVersion":
	}
	if len(c.args) > 0 && r.Chance(12) {
		// any string is an argument: words with a meaning to the engine, in one position or in all
		if r.Chance(25) {
			w := genEngineWord(r)
			for i := range c.args {
				c.args[i] = aLit(vStr(w))
			}
		} else {
			c.args[r.Intn(len(c.args))] = aLit(vStr(genEngineWord(r)))
		}
	}
	if malformed && len(c.args) > 0 {
		i := r.Intn(len(c.args))
		v := genMalformedArg(r)
		if name == "localHostOrDomainIs" && v.k == 'n' {
			v = vNull() // loose == between numbers and strings is outside the model
		}
		c.args[i] = aLit(v)
	}
	return c
}

// isBoolHelper: helpers whose result is used directly as a condition.
var boolHelpers = []string{"isPlainHostName", "dnsDomainIs", "localHostOrDomainIs", "shExpMatch", "isInNet", "isResolvable", "isResolvableEx", "isInNetEx"}

func genCond(r *core.Rand, h hint) cond {
	var c cond
	switch r.Intn(10) {
	case 0: // dnsDomainLevels(host) === n
		c = cond{k: 'E', c: genCall(r, "dnsDomainLevels", h, false), v: vNum(int64(r.Intn(4)))}
	case 1: // dnsResolve(host) === "a.b.c.d" | truthy
		cl := genCall(r, "dnsResolve", h, false)
		if r.Bool() {
			c = cond{k: 'T', c: cl}
		} else {
			lit := h.resolved4(h.host)
			if lit == "" || r.Chance(30) {
				lit = quadStr(genQuad(r))
			}
			c = cond{k: 'E', c: cl, v: vStr(lit)}
		}
	case 2:
		switch r.Intn(4) {
		case 0:
			lit := "127.0.0.1"
			if len(h.env.MyIPs) > 0 && r.Chance(70) {
				lit = net.ParseIP(h.env.MyIPs[0]).String()
			}
			c = cond{k: 'E', c: call{h: "myIpAddress"}, v: vStr(lit)}
		case 1:
			c = cond{k: 'T', c: call{h: "myIpAddressEx"}}
		case 2:
			c = cond{k: 'T', c: genCall(r, "dnsResolveEx", h, false)}
		default:
			c = cond{k: 'T', c: genCall(r, "sortIpAddressList", h, false)}
		}
	default:
		c = cond{k: 'T', c: genCall(r, core.Pick(r, boolHelpers), h, r.Chance(4))}
	}
	if r.Chance(12) {
		inner := c
		c = cond{k: 'N', n: &inner}
	}
	return c
}

func genLeaf(r *core.Rand, h hint) *tree {
	switch {
	case r.Chance(80):
		return &tree{k: 'R', v: vStr(genGoodResult(r))}
	case r.Chance(40):
		return &tree{k: 'R', v: vStr(genResultList(r))}
	case r.Chance(60):
		return &tree{k: 'R', v: genMalformedReturn(r)}
	case r.Bool():
		return &tree{k: 'C', c: genCall(r, core.Pick(r, helperNames), h, r.Chance(10))}
	default:
		return &tree{k: 'S', c: genCall(r, core.Pick(r, helperNames), h, r.Chance(10))}
	}
}

func genTree(r *core.Rand, h hint, depth int) *tree {
	if depth == 0 || r.Chance(15) {
		return genLeaf(r, h)
	}
	return &tree{k: 'I', cond: genCond(r, h), t: genTree(r, h, depth-1), e: genTree(r, h, depth-1)}
}

// ---- requests ----

type reqT struct {
	URL     string `json:"url"`
	HostArg string `json:"host_arg"`
}

func genReq(r *core.Rand) (reqT, string) {
	host := genHost(r)
	if host == "" {
		host = "x"
	}
	hp := host
	if strings.Contains(host, ":") {
		hp = "[" + host + "]"
	}
	u := core.Pick(r, []string{"http", "https", "ftp", "ws"}) + "://" + hp + core.Pick(r, []string{"", ":8080", ":443"}) +
		core.Pick(r, []string{"/", "/index.html", "/a/b?x=1&y=2", "", "/path.with.dots/file.js", "/%7Euser/"})
	q := reqT{URL: u}
	eff := host
	if r.Chance(25) {
		q.HostArg = genHost(r)
		if q.HostArg != "" {
			eff = q.HostArg
		}
	}
	return q, eff
}
