package c14

import (
	"encoding/hex"
	"fmt"
	"strconv"
	"strings"
	"unicode/utf8"

	"github.com/saucelabs/forwarder/verifharness/core"
)

// The script language of Model/C14.lean on the Go side: values, helper calls, decision trees,
// printed (a) as JavaScript for goja and (b) in the prefix wire notation of Driver/C14.lean.

type val struct {
	k byte   // 's' string, 'n' number, 'b' bool, 'z' null, 'u' undefined, 'o' object
	s string // string payload (raw bytes, valid UTF-8)
	n int64
	b bool
	oct bool // print a non-negative number as a legacy octal literal (sloppy mode only; not part of the wire form)
}

func vStr(s string) val  { return val{k: 's', s: s} }
func vNum(n int64) val   { return val{k: 'n', n: n} }
func vBool(b bool) val   { return val{k: 'b', b: b} }
func vNull() val         { return val{k: 'z'} }
func vUndef() val        { return val{k: 'u'} }
func vObj() val          { return val{k: 'o'} }
func (v val) isStr() bool { return v.k == 's' }

func (v val) wire() string {
	switch v.k {
	case 's':
		return "s" + core.HexS(v.s)
	case 'n':
		return "n" + strconv.FormatInt(v.n, 10)
	case 'b':
		return "b" + core.B01(v.b)
	default:
		return string(v.k)
	}
}

// jsString prints a JavaScript string literal whose value, converted to a Go string by goja, is s.
func jsString(s string) string {
	var b strings.Builder
	b.WriteByte('"')
	for len(s) > 0 {
		r, n := utf8.DecodeRuneInString(s)
		s = s[n:]
		switch {
		case r == '"' || r == '\\':
			b.WriteByte('\\')
			b.WriteRune(r)
		case r >= 0x20 && r < 0x7f:
			b.WriteRune(r)
		case r < 0x10000:
			fmt.Fprintf(&b, "\\u%04x", r)
		default:
			r -= 0x10000
			fmt.Fprintf(&b, "\\u%04x\\u%04x", 0xd800+(r>>10), 0xdc00+(r&0x3ff))
		}
	}
	b.WriteByte('"')
	return b.String()
}

func (v val) js() string {
	switch v.k {
	case 's':
		return jsString(v.s)
	case 'n':
		if v.n < 0 {
			return "(" + strconv.FormatInt(v.n, 10) + ")"
		}
		if v.oct {
			return "0" + strconv.FormatInt(v.n, 8)
		}
		return strconv.FormatInt(v.n, 10)
	case 'b':
		if v.b {
			return "true"
		}
		return "false"
	case 'z':
		return "null"
	case 'u':
		return "undefined"
	default:
		return "({})"
	}
}

// piece = one operand of a string the script builds at run time (Model: Piece)
type piece struct {
	k byte   // 'l' literal, 'U' url, 'H' host, 'P' host.split(".")[i]
	s string // literal text
	i int
}

func pLit(s string) piece { return piece{k: 'l', s: s} }
func pURL() piece         { return piece{k: 'U'} }
func pHost() piece        { return piece{k: 'H'} }
func pLabel(i int) piece  { return piece{k: 'P', i: i} }

func (p piece) js() string {
	switch p.k {
	case 'l':
		return jsString(p.s)
	case 'U':
		return "url"
	case 'H':
		return "host"
	}
	return "host.split(\".\")[" + strconv.Itoa(p.i) + "]"
}

func (p piece) wire() string {
	switch p.k {
	case 'l':
		return "l" + core.HexS(p.s)
	case 'P':
		return "P" + strconv.Itoa(p.i)
	}
	return string(p.k)
}

type arg struct {
	k  byte // 'U' url, 'H' host, 'L' literal, 'D' built at run time: "" + piece + piece …
	v  val
	ps []piece
}

func aURL() arg            { return arg{k: 'U'} }
func aHost() arg           { return arg{k: 'H'} }
func aLit(v val) arg       { return arg{k: 'L', v: v} }
func aDyn(ps ...piece) arg { return arg{k: 'D', ps: ps} }

func (a arg) js() string {
	switch a.k {
	case 'U':
		return "url"
	case 'H':
		return "host"
	case 'D':
		out := []string{"\"\""}
		for _, p := range a.ps {
			out = append(out, p.js())
		}
		return "(" + strings.Join(out, " + ") + ")"
	}
	return a.v.js()
}

func (a arg) wire() string {
	switch a.k {
	case 'L':
		return a.v.wire()
	case 'D':
		out := make([]string, len(a.ps))
		for i, p := range a.ps {
			out[i] = p.wire()
		}
		return "D" + strings.Join(out, "+")
	}
	return string(a.k)
}

type call struct {
	h    string
	args []arg
}

func (c call) js() string {
	as := make([]string, len(c.args))
	for i, a := range c.args {
		as[i] = a.js()
	}
	return c.h + "(" + strings.Join(as, ", ") + ")"
}

func (c call) wire() []string {
	out := []string{"c" + c.h, strconv.Itoa(len(c.args))}
	for _, a := range c.args {
		out = append(out, a.wire())
	}
	return out
}

type cond struct {
	k byte // 'T' truthy, 'E' strict equality with a literal, 'N' negation
	c call
	v val
	n *cond
}

func (c cond) js() string {
	switch c.k {
	case 'T':
		return c.c.js()
	case 'E':
		return c.c.js() + " === " + c.v.js()
	}
	return "!(" + c.n.js() + ")"
}

func (c cond) wire() []string {
	switch c.k {
	case 'T':
		return append([]string{"T"}, c.c.wire()...)
	case 'E':
		return append(append([]string{"E"}, c.c.wire()...), c.v.wire())
	}
	return append([]string{"N"}, c.n.wire()...)
}

type tree struct {
	k    byte // 'R' return literal, 'C' return call, 'S' return String(call), 'I' if
	v    val
	c    call
	cond cond
	t, e *tree
	// decorated scripts only (deco.go): 'V' = `gx = <leaf t>; return gx;`, 'G' = `return gx;` / `return String(gx);`
	x     int
	asStr bool
	style int // how the leaf is spelt in JavaScript (not part of the wire form)
}

func (t *tree) js(ind string) string {
	switch t.k {
	case 'R':
		return ind + "return " + t.v.js() + ";\n"
	case 'C':
		return ind + "return " + t.c.js() + ";\n"
	case 'S':
		return ind + "return String(" + t.c.js() + ");\n"
	}
	return ind + "if (" + t.cond.js() + ") {\n" + t.t.js(ind+"  ") + ind + "} else {\n" + t.e.js(ind+"  ") + ind + "}\n"
}

func (t *tree) wireToks() []string {
	switch t.k {
	case 'R':
		return []string{"R", t.v.wire()}
	case 'C':
		return append([]string{"C"}, t.c.wire()...)
	case 'S':
		return append([]string{"S"}, t.c.wire()...)
	case 'V':
		return append([]string{"V", strconv.Itoa(t.x)}, t.t.wireToks()...)
	case 'G':
		return []string{"G", strconv.Itoa(t.x), core.B01(t.asStr)}
	}
	out := append([]string{"I"}, t.cond.wire()...)
	out = append(out, t.t.wireToks()...)
	return append(out, t.e.wireToks()...)
}

func (t *tree) wire() string { return strings.Join(t.wireToks(), ",") }

func (t *tree) calls() []call {
	switch t.k {
	case 'R':
		return nil
	case 'C', 'S':
		return []call{t.c}
	case 'V':
		return t.t.calls()
	case 'G':
		return nil
	}
	var out []call
	c := &t.cond
	for c.k == 'N' {
		c = c.n
	}
	out = append(out, c.c)
	out = append(out, t.t.calls()...)
	return append(out, t.e.calls()...)
}

func (t *tree) depth() int {
	if t.k != 'I' {
		return 0
	}
	return 1 + max(t.t.depth(), t.e.depth())
}

// declForm = a way of declaring an entry point (Model: DeclForm, same names).
type declForm struct {
	name    string
	binding byte // 'P' property of the global object, 'L' global lexical binding, 'N' no global binding
	// decl prints the declaration of name n with right-hand side rhs (a function expression, an arrow function or
	// some other value); body is used instead by the forms that need a function declaration
	decl func(n, rhs string) string
	rhs  byte // 'f' function expression, 'n' named function expression, 'a' arrow function, 'd' function declaration
	// for a value that is not a function: the form that keeps the binding kind but takes any right-hand side
	valueForm string
}

func stmtDecl(pre, post string) func(n, rhs string) string {
	return func(n, rhs string) string { return pre + n + " = " + rhs + ";" + post + "\n" }
}

var declForms = []declForm{
	{name: "funDecl", binding: 'P', rhs: 'd', valueForm: "varFun"},
	{name: "varFun", binding: 'P', rhs: 'f', decl: stmtDecl("var ", "")},
	{name: "varNamedFun", binding: 'P', rhs: 'n', decl: stmtDecl("var ", ""), valueForm: "varFun"},
	{name: "varArrow", binding: 'P', rhs: 'a', decl: stmtDecl("var ", ""), valueForm: "varFun"},
	{name: "assign", binding: 'P', rhs: 'f', decl: stmtDecl("", "")},
	{name: "thisAssign", binding: 'P', rhs: 'f', decl: stmtDecl("this.", "")},
	{name: "defineProp", binding: 'P', rhs: 'f', decl: func(n, rhs string) string {
		return "Object.defineProperty(this, \"" + n + "\", {value: " + rhs + ", writable: true, enumerable: true, configurable: true});\n"
	}},
	{name: "blockVar", binding: 'P', rhs: 'f', decl: stmtDecl("if (true) {\n  var ", "\n}")},
	{name: "blockAssign", binding: 'P', rhs: 'f', decl: stmtDecl("{\n  ", "\n}")},
	{name: "iifeAssign", binding: 'P', rhs: 'f', decl: stmtDecl("(function () {\n  ", "\n})();")},
	{name: "iifeThis", binding: 'P', rhs: 'f', decl: stmtDecl("(function () {\n  this.", "\n})();")},
	{name: "iifeGlobalArg", binding: 'P', rhs: 'f', decl: stmtDecl("(function (g) {\n  g.", "\n})(this);")},
	{name: "evalVar", binding: 'P', rhs: 'f', decl: func(n, rhs string) string {
		return "eval(" + jsString("var "+n+" = "+rhs+";") + ");\n"
	}},
	{name: "constFun", binding: 'L', rhs: 'f', decl: stmtDecl("const ", "")},
	{name: "letFun", binding: 'L', rhs: 'f', decl: stmtDecl("let ", "")},
	{name: "constArrow", binding: 'L', rhs: 'a', decl: stmtDecl("const ", ""), valueForm: "constFun"},
	{name: "letArrow", binding: 'L', rhs: 'a', decl: stmtDecl("let ", ""), valueForm: "letFun"},
	{name: "letLater", binding: 'L', rhs: 'f', decl: func(n, rhs string) string { return "let " + n + ";\n" + n + " = " + rhs + ";\n" }},
	{name: "blockLet", binding: 'N', rhs: 'f', decl: stmtDecl("{\n  let ", "\n}")},
	{name: "blockConst", binding: 'N', rhs: 'f', decl: stmtDecl("{\n  const ", "\n}")},
	{name: "iifeLocalFun", binding: 'N', rhs: 'd', valueForm: "iifeLocalVar"},
	{name: "iifeLocalVar", binding: 'N', rhs: 'f', decl: stmtDecl("(function () {\n  var ", "\n})();")},
	{name: "evalLet", binding: 'N', rhs: 'f', decl: func(n, rhs string) string {
		return "eval(" + jsString("let "+n+" = "+rhs+";") + ");\n"
	}},
}

func formByName(name string) declForm {
	if name == "" {
		name = "funDecl"
	}
	for _, f := range declForms {
		if f.name == name {
			return f
		}
	}
	core.Fatalf("C14: unknown declaration form %q", name)
	return declForm{}
}

// formsWith: the names of the forms with one of the given binding kinds
func formsWith(kinds string) []string {
	var out []string
	for _, f := range declForms {
		if strings.IndexByte(kinds, f.binding) >= 0 {
			out = append(out, f.name)
		}
	}
	return out
}

// notFunctionValues: right-hand sides `goja.AssertFunction` refuses
var notFunctionValues = []string{"5", "\"DIRECT\"", "{}", "null", "undefined", "true", "[]", "/re/"}

// entry = one of the two global names a PAC script may define.
type entry struct {
	k    byte // '-' absent, 'x' defined but not a function, 'f' function
	t    *tree
	form string // name of a declForm ("" = funDecl)
	xv   int    // which value that is not a function (k == 'x')
}

func (e entry) wire() string {
	w := string(e.k)
	if e.k == 'f' {
		w = e.t.wire()
	}
	if e.k != '-' && e.form != "" && e.form != "funDecl" {
		return e.form + ":" + w
	}
	return w
}

func (e entry) js(name string) string {
	f := formByName(e.form)
	switch e.k {
	case '-':
		return ""
	case 'x':
		if f.valueForm != "" {
			f = formByName(f.valueForm)
		}
		return f.decl(name, notFunctionValues[e.xv%len(notFunctionValues)])
	}
	params := "(url, host)"
	body := " {\n" + e.t.js("  ") + "}"
	switch f.rhs {
	case 'd':
		if f.name == "iifeLocalFun" {
			return "(function () {\n  function " + name + params + body + "\n})();\n"
		}
		return "function " + name + params + body + "\n"
	case 'n':
		return f.decl(name, "function entryImpl"+params+body)
	case 'a':
		return f.decl(name, params+" =>"+body)
	}
	return f.decl(name, "function "+params+body)
}

func scriptJS(fn, fnEx entry) string {
	s := "// generated by verifharness/c14\n" + fn.js("FindProxyForURL") + fnEx.js("FindProxyForURLEx")
	return s
}

func unhexS(h string) string {
	if h == "_" {
		return ""
	}
	b, err := hex.DecodeString(h)
	if err != nil {
		core.Fatalf("C14: bad hex %q", h)
	}
	return string(b)
}
