// Package c14 ties the Lean model of PAC evaluation (Model/C14.lean, Spec/C14.lean) to /repo/pac
// through the exported NewProxyResolver / NewProxyResolverPool / FindProxyForURL / Proxies API.
// DNS answers and own addresses are injected through pac/export_verif.go (build tag verif).
package c14

import (
	"bytes"
	"context"
	"encoding/json"
	"errors"
	"fmt"
	"io"
	"net"
	"net/url"
	"os"
	"os/exec"
	"sort"
	"strings"
	"sync"
	"time"

	"github.com/saucelabs/forwarder/pac"
	"github.com/saucelabs/forwarder/verifharness/core"
)

func init() {
	if os.Getenv(childEnv) != "" {
		childMain() // never returns
	}
	core.Register("C14", core.Scenario{Run: Run, Replay: Replay})
}

// ---- environment: deterministic DNS and own addresses ----

func (e envT) lookup(_ context.Context, network, host string) ([]net.IP, error) {
	var cands []net.IP
	if ip := net.ParseIP(host); ip != nil {
		cands = []net.IP{ip}
	} else {
		for _, s := range e.Table[host] {
			cands = append(cands, net.ParseIP(s))
		}
	}
	var out []net.IP
	for _, ip := range cands {
		if network == "ip4" && ip.To4() == nil {
			continue
		}
		out = append(out, ip)
	}
	if len(out) == 0 {
		return nil, errors.New("no such host")
	}
	return out, nil
}

func parseIPs(xs []string) []net.IP {
	out := []net.IP{}
	for _, s := range xs {
		out = append(out, net.ParseIP(s))
	}
	return out
}

func (e envT) config(script string) *pac.ProxyResolverConfig {
	cfg := &pac.ProxyResolverConfig{Script: script}
	cfg.VerifSetLookupIP(e.lookup)
	cfg.VerifSetMyIPAddress(parseIPs(e.MyIPs))
	cfg.VerifSetMyIPAddressEx(parseIPs(e.MyIPsEx))
	return cfg
}

// wire returns the three environment fields of the line protocol.
func (e envT) wire() []string {
	hosts := make([]string, 0, len(e.Table))
	for h := range e.Table {
		hosts = append(hosts, h)
	}
	sort.Strings(hosts)
	var es []string
	for _, h := range hosts {
		atoms := []string{core.HexS(h)}
		for _, ip := range e.Table[h] {
			atoms = append(atoms, core.HexS(ip))
		}
		es = append(es, core.JoinList(atoms))
	}
	return []string{core.JoinList2(es), core.HexList(e.MyIPs), core.HexList(e.MyIPsEx)}
}

// ---- canonical answers ----

func canonLoadErr(err error) string {
	switch {
	case strings.Contains(err.Error(), "missing required function"):
		return "load missing"
	case strings.Contains(err.Error(), "ambiguous entry point"):
		return "load ambiguous"
	}
	return "load other: " + err.Error()
}

func canonAnswer(s string, err error) string {
	if err == nil {
		return "ok " + core.HexS(s)
	}
	switch {
	case strings.Contains(err.Error(), "unexpected return type"):
		return "err type"
	case strings.Contains(err.Error(), "non-ASCII"):
		return "err nonascii"
	}
	return "err throw"
}

func answerKind(a string) string {
	switch {
	case strings.HasPrefix(a, "ok "):
		return "ok"
	case strings.HasPrefix(a, "panic"):
		return "panic"
	case strings.HasPrefix(a, "load other"):
		return "load other"
	}
	return a
}

func showAnswer(a string) string {
	if strings.HasPrefix(a, "ok ") {
		return "ok " + fmt.Sprintf("%q", unhexS(a[3:]))
	}
	return a
}

// implEval loads the script (single resolver or pool) and evaluates one request.
func implEval(script string, env envT, q reqT, usePool bool) (ans string) {
	defer func() {
		if p := recover(); p != nil {
			ans = fmt.Sprintf("panic %v", p)
		}
	}()
	u, err := url.Parse(q.URL)
	if err != nil {
		core.Fatalf("C14: generated URL does not parse: %q", q.URL)
	}
	if usePool {
		pool, err := pac.NewProxyResolverPool(env.config(script), nil)
		if err != nil {
			return canonLoadErr(err)
		}
		return canonAnswer(pool.FindProxyForURL(u, q.HostArg))
	}
	pr, err := pac.NewProxyResolver(env.config(script), nil)
	if err != nil {
		return canonLoadErr(err)
	}
	return canonAnswer(pr.FindProxyForURL(u, q.HostArg))
}

func reqWire(q reqT) []string {
	u, err := url.Parse(q.URL)
	if err != nil {
		core.Fatalf("C14: generated URL does not parse: %q", q.URL)
	}
	return []string{core.HexS(u.String()), core.HexS(q.HostArg), core.HexS(u.Hostname())}
}

// ---- case kinds ----

type evalCase struct {
	Kind   string `json:"kind"` // "eval"
	Fn     string `json:"fn_wire"`
	FnEx   string `json:"fnex_wire"`
	Script string `json:"script_js"`
	Req    reqT   `json:"req"`
	Env    envT   `json:"env"`
	Pool   bool   `json:"pool"`
}

type helperCase struct {
	Kind string   `json:"kind"` // "helper"
	Name string   `json:"name"`
	Args []string `json:"args_wire"`
	JS   string   `json:"call_js"`
	Env  envT     `json:"env"`
}

type proxiesCase struct {
	Kind string `json:"kind"` // "proxies"
	S    string `json:"s_hex"`
	Text string `json:"text"`
}

type poolCase struct {
	Kind    string `json:"kind"` // "pool"
	Fn      string `json:"fn_wire"`
	Script  string `json:"script_js"`
	Reqs    []reqT `json:"reqs"`
	Env     envT   `json:"env"`
	Callers int    `json:"callers"`
	Rounds  int    `json:"rounds"`
	// a decorated script (deco.go): its five wire fields; Counter = it keeps a per-VM call counter
	DS      []string `json:"ds_wire,omitempty"`
	Counter bool     `json:"counter,omitempty"`
	tree    *tree
}

func isASCII(s string) bool {
	for i := 0; i < len(s); i++ {
		if s[i] >= 0x80 {
			return false
		}
	}
	return true
}

func checkEval(ctx *core.Ctx, c evalCase) {
	impl := implEval(c.Script, c.Env, c.Req, c.Pool)
	f := append([]string{"C14", "eval", c.Fn, c.FnEx}, reqWire(c.Req)...)
	f = append(f, c.Env.wire()...)
	model := ctx.Model.MustAsk(f...)
	f[1] = "evalspec"
	spec := ctx.Model.MustAsk(f...)

	nontrivial := strings.Contains(c.Fn+c.FnEx, "I,")
	ctx.Case("eval:"+c.Fn+"|"+c.FnEx+"|"+c.Req.URL+"|"+c.Req.HostArg+"|"+strings.Join(c.Env.wire(), " "), nontrivial)
	ctx.Count("eval/answer/" + answerKind(impl))
	for _, w := range []string{c.Fn, c.FnEx} {
		if f, _, ok := strings.Cut(w, ":"); ok {
			ctx.Count("eval/entry-form/" + f)
		}
	}
	if spec != "na" {
		ctx.Count("eval/in-spec-domain")
	} else {
		ctx.Count("eval/outside-spec-domain")
	}
	if strings.HasPrefix(impl, "panic") {
		ctx.Crash("evaluation never panics", "", c, impl)
		return
	}
	if model == "unmodelled" {
		ctx.Count("eval/unmodelled")
		return
	}
	if impl != model {
		ctx.Disagree("FindProxyForURL = Model.C14.findProxy (load, evalTree, checkResult)", c, showAnswer(impl), showAnswer(model))
	}
	if spec != "na" {
		if impl != spec {
			ctx.SpecFail("FindProxyForURL yields what the entry point returns under the specified helper semantics; non-string/non-ASCII results and 0 or 2 entry points are errors",
				"", c, showAnswer(impl), "specification: "+showAnswer(spec))
		} else {
			ctx.TraceValidated()
		}
	}
}

func helperScript(js string) string {
	return "function FindProxyForURL(url, host) {\n  var r = " + js + ";\n  return (r === null ? \"null\" : typeof r) + \":\" + String(r);\n}\n"
}

// typedToWire converts "type:text" (see helperScript) to the value token of the line protocol.
func typedToWire(s string) string {
	t, v, _ := strings.Cut(s, ":")
	switch t {
	case "string":
		return "s" + core.HexS(v)
	case "number":
		return "n" + v
	case "boolean":
		if v == "true" {
			return "b1"
		}
		return "b0"
	case "null":
		return "z"
	case "undefined":
		return "u"
	}
	return "o"
}

func showVal(w string) string {
	if strings.HasPrefix(w, "ok s") {
		return fmt.Sprintf("string %q", unhexS(w[4:]))
	}
	return w
}

func checkHelper(ctx *core.Ctx, c helperCase) {
	q := reqT{URL: "http://unused.example/"}
	raw := implEval(helperScript(c.JS), c.Env, q, false)
	impl := raw
	switch {
	case strings.HasPrefix(raw, "ok "):
		impl = "ok " + typedToWire(unhexS(raw[3:]))
	case raw == "err throw":
		impl = "throw"
	}
	f := append([]string{"C14", "helper", c.Name, core.JoinList(c.Args)}, c.Env.wire()...)
	model := ctx.Model.MustAsk(f...)
	f[1] = "spec"
	spec := ctx.Model.MustAsk(f...)

	allStr := true
	for _, a := range c.Args {
		if !strings.HasPrefix(a, "s") {
			allStr = false
		}
	}
	ctx.Case("helper:"+c.Name+"|"+core.JoinList(c.Args)+"|"+strings.Join(c.Env.wire(), " "), len(c.Args) > 0)
	ctx.Count("helper/" + c.Name)
	if !allStr {
		ctx.Count("helper/malformed-args")
	}
	if spec != "na" {
		ctx.Count("helper/in-spec-domain")
	}
	if strings.HasPrefix(raw, "panic") {
		ctx.Crash("helpers never panic", "", c, raw)
		return
	}
	if model == "unmodelled" {
		ctx.Count("helper/unmodelled")
		return
	}
	sortTie := false
	if c.Name == "sortIpAddressList" && allStr && len(c.Args) == 1 && strings.HasPrefix(impl, "ok s") {
		in, out := c.Args[0][1:], impl[4:]
		ok := ctx.Model.MustAsk("C14", "sortcheck", in, out)
		if ok != "true" {
			ctx.SpecFail("sortIpAddressList returns a permutation of its input with IPv6 before IPv4 and each family in ascending byte order",
				"", c, showVal(impl), "model: "+showVal(model))
		} else {
			ctx.TraceValidated()
			// sort.Slice is an insertion sort (stable, = the model) up to 12 elements; beyond that
			// equal addresses (duplicates, second spellings) may come out in another order
			if impl != model && strings.Count(unhexS(in), ";") >= 12 {
				sortTie = true
				ctx.Count("helper/sort-tie-order")
			}
		}
	}
	if impl != model && !sortTie {
		ctx.Disagree("helper "+c.Name+" = Model.C14.callHelper", c, showVal(impl), showVal(model))
	}
	if spec != "na" {
		if impl != spec {
			ctx.SpecFail("helper "+c.Name+" behaves as its specification says on the agreed domain", "", c, showVal(impl), "specification: "+showVal(spec))
		} else {
			ctx.TraceValidated()
		}
	}
}

type proxyOut struct {
	Mode, Host, Port, Scheme, URLHost string
}

func (p proxyOut) wire() string {
	return strings.Join([]string{p.Mode, core.HexS(p.Host), core.HexS(p.Port), p.Scheme, p.URLHost}, ",")
}

func outOf(p pac.Proxy) proxyOut {
	o := proxyOut{Mode: p.Mode.String(), Host: p.Host, Port: p.Port, Scheme: "-", URLHost: "-"}
	if u := p.URL(); u != nil {
		o.Scheme, o.URLHost = core.HexS(u.Scheme), core.HexS(u.Host)
	}
	return o
}

// schemeTable is the keyword ↦ scheme table of the property (Theorems/C14.lean c14_scheme_table).
var schemeTable = map[string]string{"DIRECT": "-", "PROXY": "http", "HTTP": "http", "HTTPS": "https", "SOCKS": "socks", "SOCKS4": "socks4", "SOCKS5": "socks5"}

// decPortOK: the port is a decimal number ≤ 65535 (one or more ASCII digits, leading zeros allowed),
// evaluated without strconv.
func decPortOK(p string) bool {
	if p == "" {
		return false
	}
	for _, ch := range []byte(p) {
		if ch < '0' || ch > '9' {
			return false
		}
	}
	t := strings.TrimLeft(p, "0")
	return len(t) < 5 || (len(t) == 5 && t <= "65535")
}

// portShape / hostShape classify the two halves of an address text (input histogram only).
func portShape(p string) string {
	switch {
	case p == "":
		return "empty"
	case strings.ContainsAny(p, " \t"):
		return "blank-or-tab"
	case p[0] == '+' || p[0] == '-':
		return "signed"
	}
	for _, ch := range []byte(p) {
		if ch < '0' || ch > '9' {
			return "non-numeric"
		}
	}
	switch {
	case !decPortOK(p) && len(p) > 7:
		return "long-out-of-range"
	case !decPortOK(p):
		return "out-of-range-5to7-digits"
	case len(p) > 1 && p[0] == '0':
		return "leading-zeros"
	case p == "65535":
		return "65535"
	}
	return "ordinary"
}

func hostShape(h string) string {
	switch {
	case h == "":
		return "empty"
	case h == "[]":
		return "empty-brackets"
	case strings.ContainsAny(h, " \t"):
		return "blank-or-tab"
	case strings.HasPrefix(h, "[") && strings.HasSuffix(h, "]") && strings.Count(h, "[") == 1 && strings.Count(h, "]") == 1:
		if strings.Contains(h, ":") {
			return "ipv6-bracketed"
		}
		return "other-bracketed"
	case strings.ContainsAny(h, "[]"):
		return "broken-brackets"
	case strings.Contains(h, ":"):
		return "ipv6-unbracketed"
	}
	return "plain"
}

// countAddrShapes: which address shapes the result list holds (per entry with a blank after the first word).
func countAddrShapes(ctx *core.Ctx, s string) {
	for _, e := range strings.Split(s, ";") {
		e = strings.TrimSpace(e)
		_, addr, ok := strings.Cut(e, " ")
		if !ok {
			continue
		}
		i := strings.LastIndexByte(addr, ':')
		if i < 0 {
			ctx.Count("proxies/addr/no-colon")
			continue
		}
		ctx.Count("proxies/addr/host=" + hostShape(addr[:i]))
		ctx.Count("proxies/addr/port=" + portShape(addr[i+1:]))
	}
}

func checkProxies(ctx *core.Ctx, c proxiesCase) {
	s := unhexS(c.S)
	var implAll, implFirst string
	var all []pac.Proxy
	var first pac.Proxy
	var errAll, errFirst error
	var crash string
	func() {
		defer func() {
			if p := recover(); p != nil {
				crash = fmt.Sprint(p)
			}
		}()
		all, errAll = pac.Proxies(s).All()
		first, errFirst = pac.Proxies(s).First()
		if errAll != nil {
			implAll = "err"
		} else {
			es := make([]string, len(all))
			for i, p := range all {
				es[i] = outOf(p).wire()
			}
			implAll = "ok " + core.JoinList2(es)
		}
		if errFirst != nil {
			implFirst = "err"
		} else {
			implFirst = "ok " + outOf(first).wire()
		}
	}()
	ctx.Case("proxies:"+c.S, strings.ContainsAny(s, " ;"))
	if crash != "" {
		ctx.Crash("Proxies.All/First never panic", "", c, crash)
		return
	}
	if !isASCII(s) {
		// strings.TrimSpace also trims non-ASCII white space; FindProxyForURL never returns such a string
		ctx.Count("proxies/non-ascii-skipped")
		return
	}
	ans := ctx.Model.MustAsk("C14", "proxies", c.S)
	// all <ok e;e|err> first <ok e|err> strict <1 -|0 class>
	fs := strings.Fields(ans)
	var mAll, mFirst, strict, class string
	i := 1
	take := func() string {
		if fs[i] == "ok" {
			i += 2
			return "ok " + fs[i-1]
		}
		i++
		return "err"
	}
	mAll = take()
	i++ // "first"
	mFirst = take()
	i++ // "strict"
	strict, class = fs[i], fs[i+1]
	impl := "all " + implAll + " first " + implFirst
	model := "all " + mAll + " first " + mFirst
	ctx.Count(fmt.Sprintf("proxies/entries=%d", strings.Count(s, ";")+1))
	if errAll != nil {
		ctx.Count("proxies/all-err")
	} else {
		ctx.Count("proxies/all-ok")
	}
	if impl != model {
		ctx.Disagree("Proxies.All/First/URL = Model.C14.proxiesAll/proxiesFirst/Proxy.url", c, impl, model)
	}
	// --- the property's clauses on what the implementation returned ---
	if errAll == nil && len(all) > 0 {
		if errFirst != nil || first != all[0] {
			ctx.SpecFail("First = head of All whenever All succeeds", "", c, impl, "")
		}
	}
	for _, p := range all {
		o := outOf(p)
		want, ok := schemeTable[o.Mode]
		got := o.Scheme
		if got != "-" {
			got = unhexS(got)
		}
		if !ok || got != want {
			ctx.SpecFail("keyword ↦ scheme table (PROXY/HTTP→http, HTTPS→https, SOCKS→socks, SOCKS4→socks4, SOCKS5→socks5, DIRECT→no proxy)", "", c, impl, "")
		}
	}
	countAddrShapes(ctx, s)
	// evaluated directly on what the implementation returned (no model involved): an accepted entry has no
	// address at all (DIRECT, empty entry) or a non-empty host without blank or tab and a decimal port ≤ 65535
	for _, p := range all {
		if p.Host == "" && p.Port == "" {
			continue
		}
		if p.Host == "" || strings.ContainsAny(p.Host, " \t") || !decPortOK(p.Port) {
			ctx.SpecFail("every accepted entry has a non-empty host without blank or tab and a port that is a decimal number ≤ 65535", "", c, impl,
				fmt.Sprintf("returned proxy with host %q port %q", p.Host, p.Port))
			break
		}
	}
	if strict == "1" {
		ctx.Count("proxies/well-formed")
		if errAll != nil {
			ctx.SpecFail("a list of well-formed entries is accepted", "", c, impl, "model: "+model)
		} else if impl != model {
			ctx.SpecFail("each well-formed entry is mapped to its proxy (keyword, host, port)", "", c, impl, "model: "+model)
		} else {
			ctx.TraceValidated()
		}
	} else {
		ctx.Count("proxies/ill-formed/" + class)
		if errAll == nil && class == "unknown-keyword-direct" {
			// an unrecognised keyword is treated as DIRECT: the documented behaviour (property C05 states it
			// outright), so such an entry is not "malformed" in the sense of this clause; the mapping itself
			// has been compared with the model above.  The model reports this class only when the address
			// part of every entry is well-formed (no/bad address takes precedence).
			ctx.Count("proxies/unknown-keyword-treated-as-DIRECT")
			ctx.TraceValidated()
		} else if errAll == nil {
			// no-address / bad-address: no known-finding class any more (F30 repaired by 96a61a7)
			ctx.SpecFail("malformed entries are rejected", "", c, impl, "an entry outside the grammar '<keyword> <host>:<port>' | 'DIRECT' (host non-empty without blank or tab, port a decimal number ≤ 65535) was accepted: "+class)
		} else {
			ctx.TraceValidated()
		}
	}
}

// ---- pool: concurrent callers in a child process ----

const childEnv = "FWDCHECK_C14_POOL_CHILD"

// poolResult.PoolLoad: the single resolver loaded the script, the pool did not.
type poolResult struct {
	LoadErr    string   `json:"load_err,omitempty"`
	PoolLoad   string   `json:"pool_load_err,omitempty"`
	Sequential []string `json:"sequential"` // one resolver, one request at a time
	PoolSingle []string `json:"pool_single"`
	// Concurrent[i] = distinct answers callers got for request i (more than one = they differ)
	Concurrent [][]string `json:"concurrent"`
	Panics     []string   `json:"panics,omitempty"`
	Calls      int        `json:"calls"`
}

func childMain() {
	raw, err := io.ReadAll(os.Stdin)
	var k struct {
		Kind string `json:"kind"`
	}
	if err == nil {
		err = json.Unmarshal(raw, &k)
	}
	if err == nil && k.Kind == "poolh" {
		var c hammerCase
		if err = json.Unmarshal(raw, &c); err == nil {
			json.NewEncoder(os.Stdout).Encode(runHammer(c))
			os.Exit(0)
		}
	}
	if err == nil && k.Kind == "poolf" {
		var c firstUseCase
		if err = json.Unmarshal(raw, &c); err == nil {
			json.NewEncoder(os.Stdout).Encode(runFirstUse(c))
			os.Exit(0)
		}
	}
	var c poolCase
	if err == nil {
		err = json.Unmarshal(raw, &c)
	}
	if err != nil {
		fmt.Fprintln(os.Stderr, "c14 child: bad input:", err)
		os.Exit(3)
	}
	res := runPool(c)
	json.NewEncoder(os.Stdout).Encode(res)
	os.Exit(0)
}

func runPool(c poolCase) poolResult {
	var res poolResult
	urls := make([]*url.URL, len(c.Reqs))
	for i, q := range c.Reqs {
		u, err := url.Parse(q.URL)
		if err != nil {
			res.LoadErr = "bad url"
			return res
		}
		urls[i] = u
	}
	pr, err := pac.NewProxyResolver(c.Env.config(c.Script), nil)
	if err != nil {
		res.LoadErr = canonLoadErr(err)
		return res
	}
	for i, q := range c.Reqs {
		res.Sequential = append(res.Sequential, canonAnswer(pr.FindProxyForURL(urls[i], q.HostArg)))
	}
	pool, err := pac.NewProxyResolverPool(c.Env.config(c.Script), nil)
	if err != nil {
		res.PoolLoad = canonLoadErr(err)
		return res
	}
	for i, q := range c.Reqs {
		res.PoolSingle = append(res.PoolSingle, canonAnswer(pool.FindProxyForURL(urls[i], q.HostArg)))
	}
	seen := make([]map[string]bool, len(c.Reqs))
	for i := range seen {
		seen[i] = map[string]bool{}
	}
	var mu sync.Mutex
	var wg sync.WaitGroup
	start := make(chan struct{})
	for k := 0; k < c.Callers; k++ {
		wg.Add(1)
		go func(k int) {
			defer wg.Done()
			defer func() {
				if p := recover(); p != nil {
					mu.Lock()
					res.Panics = append(res.Panics, fmt.Sprint(p))
					mu.Unlock()
				}
			}()
			<-start
			for round := 0; round < c.Rounds; round++ {
				for j := range c.Reqs {
					i := (j + k) % len(c.Reqs)
					a := canonAnswer(pool.FindProxyForURL(urls[i], c.Reqs[i].HostArg))
					mu.Lock()
					seen[i][a] = true
					res.Calls++
					mu.Unlock()
				}
			}
		}(k)
	}
	close(start)
	wg.Wait()
	for i := range seen {
		var as []string
		for a := range seen[i] {
			as = append(as, a)
		}
		sort.Strings(as)
		res.Concurrent = append(res.Concurrent, as)
	}
	return res
}

func checkPool(ctx *core.Ctx, c poolCase) {
	in, _ := json.Marshal(c)
	exe, err := os.Executable()
	if err != nil {
		core.Fatalf("C14: %v", err)
	}
	cctx, cancel := context.WithTimeout(context.Background(), 120*time.Second)
	defer cancel()
	cmd := exec.CommandContext(cctx, exe)
	cmd.Env = append(os.Environ(), childEnv+"=1")
	cmd.Stdin = bytes.NewReader(in)
	var out, errb bytes.Buffer
	cmd.Stdout, cmd.Stderr = &out, &errb
	runErr := cmd.Run()
	ctx.Case(fmt.Sprintf("pool:%s%s|%d|%d|%v", c.Fn, strings.Join(c.DS, " "), c.Callers, c.Rounds, c.Reqs), c.Callers > 1)
	ctx.Count(fmt.Sprintf("pool/callers=%s", bucket(c.Callers)))
	var res poolResult
	if runErr != nil || json.Unmarshal(out.Bytes(), &res) != nil {
		detail := fmt.Sprintf("child process: %v; stderr tail: %s", runErr, tailS(errb.String(), 1500))
		if cctx.Err() != nil {
			detail = "child process hung past 120 s; " + detail
		}
		ctx.Crash("concurrent evaluations through the pool never crash or hang the process", "", c, detail)
		return
	}
	if res.PoolLoad != "" {
		ctx.SpecFail(clauseDecoLoad, "", c, "pool: "+res.PoolLoad, "single resolver: ok")
		return
	}
	if res.LoadErr != "" {
		if len(c.DS) > 0 && askEvald(ctx, "evald", c.DS, nil, c.Env).load == loadKind(res.LoadErr) {
			// the prelude of a decorated script throws: neither resolver exists (whether the pool refuses it too is
			// judged on the in-process cases, checkDeco)
			ctx.Count("pool/decorated-script/load-throws")
			ctx.TraceValidated()
			return
		}
		ctx.Disagree("pool script loads", c, res.LoadErr, "ok")
		return
	}
	ctx.CountN("pool/concurrent-calls", res.Calls)
	for i, q := range c.Reqs {
		for _, p := range c.Reqs[:i] {
			if u, e1 := url.Parse(q.URL); e1 == nil {
				if v, e2 := url.Parse(p.URL); e2 == nil && u.Host == v.Host && q.HostArg == p.HostArg && q.URL != p.URL {
					ctx.Count("pool/request-repeats-host-with-other-url")
					break
				}
			}
		}
	}
	if len(res.Panics) > 0 {
		ctx.Crash("concurrent evaluations through the pool never panic", "", c, strings.Join(res.Panics, "; "))
	}
	var decoSeq []string
	var decoCands [][]string
	if len(c.DS) > 0 {
		ctx.Count("pool/decorated-script")
		if c.Counter {
			ctx.Count("pool/decorated-script/per-VM-counter")
		}
		decoSeq, decoCands = decoPoolModel(ctx, c, res.Calls+len(c.Reqs))
		if decoSeq == nil {
			ctx.Disagree("pool script loads", c, "ok", "load error in the model")
			return
		}
	}
	for i, q := range c.Reqs {
		var model string
		var cands []string
		if len(c.DS) > 0 {
			model, cands = strings.Replace(decoSeq[i], ":", " ", 1), nil
			for _, a := range decoCands[i] {
				cands = append(cands, strings.Replace(a, ":", " ", 1))
			}
			if contains(cands, "unmodelled") {
				continue
			}
		} else {
			f := append([]string{"C14", "eval", c.Fn, "-"}, reqWire(q)...)
			f = append(f, c.Env.wire()...)
			model = ctx.Model.MustAsk(f...)
			cands = []string{res.Sequential[i]} // a plain tree keeps no state: the answers of the stand-alone resolver
		}
		if model == "unmodelled" {
			continue
		}
		if res.Sequential[i] != model {
			ctx.Disagree("FindProxyForURL = Model.C14.findProxy", c, fmt.Sprintf("req %d: %s", i, showAnswer(res.Sequential[i])), showAnswer(model))
		}
		var want []string
		candSet := make(map[string]bool, len(cands))
		for _, a := range cands {
			if !candSet[a] && len(want) < 8 {
				want = append(want, showAnswer(a))
			}
			candSet[a] = true
		}
		if len(candSet) > len(want) {
			want = append(want, fmt.Sprintf("… (%d answers)", len(candSet)))
		}
		if !candSet[res.PoolSingle[i]] {
			ctx.SpecFail("the pool (one caller) gives the answers of a single resolver", "", c,
				fmt.Sprintf("req %d: pool %s", i, showAnswer(res.PoolSingle[i])), fmt.Sprintf("single resolver: %s; possible after earlier evaluations: %v", showAnswer(res.Sequential[i]), want))
		}
		bad := len(res.Concurrent[i]) == 0
		for _, a := range res.Concurrent[i] {
			if !candSet[a] {
				bad = true
			}
		}
		if !c.Counter && len(res.Concurrent[i]) != 1 {
			bad = true
		}
		if bad {
			var got []string
			for _, a := range res.Concurrent[i] {
				got = append(got, showAnswer(a))
			}
			ctx.SpecFail("evaluations issued concurrently through the pool give the same answers as if issued one at a time", "", c,
				fmt.Sprintf("req %d (%s): concurrent callers got %v", i, q.URL, got), fmt.Sprintf("one at a time: %v", want))
		} else {
			ctx.TraceValidated()
		}
	}
}

func bucket(n int) string {
	switch {
	case n == 1:
		return "1"
	case n <= 4:
		return "2-4"
	case n <= 16:
		return "5-16"
	case n <= 32:
		return "17-32"
	}
	return "33-64"
}

func tailS(s string, n int) string {
	if len(s) > n {
		return "…" + s[len(s)-n:]
	}
	return s
}

// ---- generation ----

func genEvalCase(r *core.Rand) evalCase {
	q, eff := genReq(r)
	env := genEnv(r, eff)
	h := hint{host: eff, url: q.URL, env: env}
	if u, err := url.Parse(q.URL); err == nil {
		h.url = u.String()
	}
	t := genTree(r, h, r.Range(0, 4))
	fn, fnEx := entry{k: 'f', t: t}, entry{k: '-'}
	switch r.Intn(20) {
	case 0: // both entry points
		fnEx = entry{k: 'f', t: genTree(r, h, r.Range(0, 1))}
	case 1: // neither
		fn = entry{k: '-'}
	case 2, 3: // only the Ex entry point
		fn, fnEx = entry{k: '-'}, fn
	case 4: // the other name is defined, but is not a function
		fnEx = entry{k: 'x'}
	case 5:
		fn, fnEx = entry{k: 'x'}, fn
	case 6:
		fn = entry{k: 'x'}
	}
	// how the entry points are declared: function declarations half of the time, else any form (property of the
	// global object, global lexical binding, or local to a block / function / eval = no entry point at all)
	if r.Chance(50) {
		pick := func() string {
			switch {
			case r.Chance(45):
				return core.Pick(r, formsWith("L"))
			case r.Chance(80):
				return core.Pick(r, formsWith("P"))
			}
			return core.Pick(r, formsWith("N"))
		}
		fn.form, fnEx.form = pick(), pick()
		fn.xv, fnEx.xv = r.Intn(len(notFunctionValues)), r.Intn(len(notFunctionValues))
	}
	return evalCase{Kind: "eval", Fn: fn.wire(), FnEx: fnEx.wire(), Script: scriptJS(fn, fnEx), Req: q, Env: env, Pool: r.Chance(30)}
}

// entryMatrix: both names in every combination of declaration forms and of {absent, not a function, function},
// with small trees: what loads, what is ambiguous, what is missing.
func entryMatrix(ctx *core.Ctx) {
	kinds := []byte{'f', 'x', '-'}
	n := 0
	for _, f1 := range declForms {
		for _, f2 := range declForms {
			r := ctx.Rng.Sub()
			q, eff := genReq(r)
			env := genEnv(r, eff)
			h := hint{host: eff, url: q.URL, env: env}
			// function × function for every pair; the other kinds by rotation (every form meets every kind)
			combos := [][2]byte{{'f', 'f'}, {kinds[n%3], kinds[(n/3+1)%3]}}
			n++
			for _, kk := range combos {
				mk := func(k byte, form string) entry {
					e := entry{k: k, form: form, xv: r.Intn(len(notFunctionValues))}
					if k == 'f' {
						e.t = genTree(r, h, r.Range(0, 1))
					}
					if k == '-' {
						e.form = ""
					}
					return e
				}
				fn, fnEx := mk(kk[0], f1.name), mk(kk[1], f2.name)
				c := evalCase{Kind: "eval", Fn: fn.wire(), FnEx: fnEx.wire(), Script: scriptJS(fn, fnEx), Req: q, Env: env, Pool: r.Chance(50)}
				ctx.Count("entry-matrix/" + string(kk[0]) + string(f1.binding) + "+" + string(kk[1]) + string(f2.binding))
				checkEval(ctx, c)
			}
		}
	}
}

func genHelperCase(r *core.Rand, name string) helperCase {
	q, eff := genReq(r)
	env := genEnv(r, eff)
	h := hint{host: eff, url: q.URL, env: env}
	c := genCall(r, name, h, r.Chance(8))
	// direct calls have no url/host variables: substitute the literals
	for i, a := range c.args {
		switch a.k {
		case 'U':
			c.args[i] = aLit(vStr(h.url))
		case 'H':
			c.args[i] = aLit(vStr(h.host))
		}
	}
	ws := make([]string, len(c.args))
	for i, a := range c.args {
		ws[i] = a.wire()
	}
	return helperCase{Kind: "helper", Name: name, Args: ws, JS: c.js(), Env: env}
}

func genPoolCase(r *core.Rand, callers int, rounds int) poolCase {
	nreq := r.Range(4, 12)
	var reqs []reqT
	var effs []string
	for i := 0; i < nreq; i++ {
		q, eff := genReq(r)
		if i > 0 && r.Chance(50) {
			// the host[:port] (and host argument) of an earlier request with another scheme / path / query:
			// the answer for a URL must not depend on what the pool was asked about that host before
			j := r.Intn(i)
			if u, err := url.Parse(reqs[j].URL); err == nil && u.Host != "" {
				q = reqT{URL: core.Pick(r, []string{"http", "https", "ftp", "ws"}) + "://" + u.Host +
					core.Pick(r, []string{"/", "/index.html", "/a/b?x=1&y=2", "", "/path.with.dots/file.js", "/%7Euser/", "/admin/x", "/a/b?x=2"}), HostArg: reqs[j].HostArg}
				eff = effs[j]
			}
		}
		reqs = append(reqs, q)
		effs = append(effs, eff)
	}
	env := genEnv(r, effs...)
	// a deep tree whose answer depends on the request: each level is written for another request
	var build func(d int) *tree
	build = func(d int) *tree {
		h := hint{host: effs[r.Intn(nreq)], url: reqs[r.Intn(nreq)].URL, env: env}
		if d == 0 {
			return &tree{k: 'R', v: vStr(fmt.Sprintf("PROXY p%d.example.com:%d", r.Intn(1000), 1000+r.Intn(9000)))}
		}
		c := genCond(r, h)
		return &tree{k: 'I', cond: c, t: build(d - 1), e: build(d - 1)}
	}
	t := build(r.Range(3, 6))
	fn := entry{k: 'f', t: t}
	return poolCase{Kind: "pool", Fn: fn.wire(), Script: scriptJS(fn, entry{k: '-'}), Reqs: reqs, Env: env, Callers: callers, Rounds: rounds, tree: t}
}

func Run(ctx *core.Ctx) {
	ctx.SetRule("(a) decision-tree scripts of depth 0-4 over the 15 predefined helpers, printed as JavaScript, evaluated through NewProxyResolver(Pool)/FindProxyForURL with injected DNS table and own addresses; " +
		"(b) direct helper calls with arguments from the agreed domain (host names, IPv4/IPv6 literals, dotted masks, CIDRs, globs of literals/./*/?; near misses) and a malformed stream (null/undefined/numbers); " +
		"(c) result-list strings from the grammar and arbitrary ASCII through Proxies.All/First/URL; (d) 1-64 concurrent callers on the pool vs one-at-a-time answers, half of the scripts decorated; " +
		"(e) decorated scripts: the trees wrapped in sloppy-mode ES5 forms (assignments to undeclared names, loops over an undeclared counter, per-VM counters and load-time constants, leaves returning through a global, " +
		"the script's own versions of predefined helpers; spelt with `with`, duplicate parameter names, arguments.callee, arguments aliasing, this = global object, legacy octal literals, eval-introduced vars), 1-4 requests each " +
		"evaluated one at a time on a stand-alone resolver (= the model's sequential answers) and through a pool (each answer = a single resolver's after some sub-sequence of the earlier requests; pool construction succeeds iff the resolver's does); " +
		"(f) entry points in every declaration form (function declaration, var / assignment / this. / defineProperty / inside a block, an IIFE or eval = property of the global object; let / const with function expression or arrow function = global lexical binding; " +
		"block-scoped let / const, function-local, eval-local = no global binding), both names in every pair of forms and of {function, not a function, absent}; " +
		"(g) pool hammer in a child process: stateless scripts that call all 15 helpers on every evaluation with arguments built afresh from the request (and clock-independent weekdayRange / dateRange / timeRange calls), " +
		"16-64 callers released together on a fresh pool per round, every request new, nothing evaluated before; every answer = the model's answer to the request asked alone; " +
		"(h) first use of a pool, in child processes: some hundred fresh pools of one stateless script whose every answer spells the request's host, each hit once by 2-8 callers spinning on a start flag, " +
		"runtimes tagged through pac.Option (K evaluations in flight are inside K runtimes), every answer = the request asked alone; one such case in a child built with the Go race detector (a data race in forwarder/pac is a finding); " +
		"in (a), (b), (e) 12% of the helper calls have a string argument (or all) replaced by a word with a meaning to the engine (Object.prototype member names, __proto__, length, undefined / null / NaN, numeric strings, " +
		"the empty string, RegExp metacharacters, 1-4 kB strings). " +
		"Non-trivial: a tree with at least one condition, a helper call with at least one argument, a result list with a separator or space, a pool run with more than one caller; distinct = distinct canonical inputs")
	ctx.Assume("the JavaScript engine (goja) and Go's net/netip, net.SplitHostPort, strings.TrimSpace are modelled, not verified")
	for _, c := range core.LoadCorpus(ctx.Root, "C14") {
		Replay(ctx, c)
	}
	nEval := ctx.N(4000, 60000)
	nHelperEach := ctx.N(300, 6000)
	nProxies := ctx.N(5000, 80000)
	for i := 0; i < nEval; i++ {
		r := ctx.Rng.Sub()
		c := genEvalCase(r)
		checkEval(ctx, c)
		if i < 2 {
			ctx.Sample(c)
		}
	}
	entryMatrix(ctx)
	nDeco := ctx.N(1500, 12000)
	for i := 0; i < nDeco; i++ {
		r := ctx.Rng.Sub()
		c := genDecoCase(r)
		checkDeco(ctx, c)
		if i < 2 {
			ctx.Sample(c)
		}
	}
	for _, name := range helperNames {
		n := nHelperEach
		switch name {
		case "myIpAddress", "myIpAddressEx", "getClientVersion":
			n = nHelperEach / 8
		case "shExpMatch", "isInNet", "isInNetEx", "sortIpAddressList", "dnsDomainIs":
			n = nHelperEach * 2
		}
		for i := 0; i < n; i++ {
			r := ctx.Rng.Sub()
			c := genHelperCase(r, name)
			checkHelper(ctx, c)
			if name == "shExpMatch" && i == 0 {
				ctx.Sample(c)
			}
		}
	}
	for i := 0; i < nProxies; i++ {
		r := ctx.Rng.Sub()
		s := genResultList(r)
		c := proxiesCase{Kind: "proxies", S: core.HexS(s), Text: s}
		checkProxies(ctx, c)
		if i == 0 {
			ctx.Sample(c)
		}
	}
	callerSet := []int{1, 2, 3, 4, 8, 16, 32, 64}
	nPool := ctx.N(16, 80)
	for i := 0; i < nPool; i++ {
		r := ctx.Rng.Sub()
		callers := callerSet[i%len(callerSet)]
		if i >= len(callerSet) {
			callers = r.Range(1, 64)
		}
		c := genPoolCase(r, callers, ctx.N(12, 40))
		checkPool(ctx, c)
		if i == 1 {
			ctx.Sample(c)
		}
	}
	// the same with decorated scripts (stateless, or with a per-VM call counter)
	nDecoPool := ctx.N(12, 48)
	for i := 0; i < nDecoPool; i++ {
		r := ctx.Rng.Sub()
		callers := callerSet[i%len(callerSet)]
		if i >= len(callerSet) {
			callers = r.Range(1, 64)
		}
		c := genDecoPoolCase(r, callers, ctx.N(8, 30))
		checkPool(ctx, c)
		if i == 1 {
			ctx.Sample(c)
		}
	}
	// helper-heavy scripts with arguments built afresh per call, cold pools, callers released together
	hammerCallers := []int{16, 32, 64, 24, 48, 40}
	nHammer := ctx.N(6, 30)
	for i := 0; i < nHammer; i++ {
		r := ctx.Rng.Sub()
		callers := hammerCallers[i%len(hammerCallers)]
		if i >= len(hammerCallers) {
			callers = r.Range(16, 64)
		}
		c := genHammerCase(r, callers, ctx.N(3, 4), ctx.N(3, 5), 2)
		checkHammer(ctx, c)
	}
	// the first evaluations on a fresh pool: many pools, each hit once by 2-8 callers spinning on a start flag
	nFirstUse := ctx.N(2, 8)
	for i := 0; i < nFirstUse; i++ {
		r := ctx.Rng.Sub()
		c := genFirstUseCase(r, ctx.N(100, 400), false)
		checkFirstUse(ctx, c)
	}
	// … and under the race detector (fewer pools: what it reports does not depend on the callers meeting)
	defer removeRaceChild()
	for i, n := 0, ctx.N(1, 4); i < n; i++ {
		r := ctx.Rng.Sub()
		c := genFirstUseCase(r, ctx.N(30, 60), true)
		checkFirstUse(ctx, c)
	}
}

func Replay(ctx *core.Ctx, raw json.RawMessage) {
	var k struct {
		Kind string `json:"kind"`
	}
	json.Unmarshal(raw, &k)
	switch k.Kind {
	case "eval":
		var c evalCase
		json.Unmarshal(raw, &c)
		checkEval(ctx, c)
	case "helper":
		var c helperCase
		json.Unmarshal(raw, &c)
		checkHelper(ctx, c)
	case "proxies":
		var c proxiesCase
		json.Unmarshal(raw, &c)
		checkProxies(ctx, c)
	case "pool":
		var c poolCase
		json.Unmarshal(raw, &c)
		checkPool(ctx, c)
	case "deco":
		var c decoCase
		json.Unmarshal(raw, &c)
		checkDeco(ctx, c)
	case "poolh":
		var c hammerCase
		json.Unmarshal(raw, &c)
		checkHammer(ctx, c)
	case "poolf":
		var c firstUseCase
		json.Unmarshal(raw, &c)
		checkFirstUse(ctx, c)
	default:
		core.Fatalf("C14: unknown case kind %q", k.Kind)
	}
}
