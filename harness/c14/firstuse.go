package c14

import (
	"bytes"
	"context"
	"encoding/json"
	"fmt"
	"net/url"
	"os"
	"os/exec"
	"path/filepath"
	"runtime/debug"
	"sort"
	"strings"
	"sync"
	"sync/atomic"
	"time"

	"github.com/dop251/goja"
	"github.com/saucelabs/forwarder/pac"
	"github.com/saucelabs/forwarder/verifharness/core"
)

// First use of a pool (Theorems/C14.lean §4/§5: c14_pool_state_exclusive, c14_pool_first_use_witness).
//
// What a pool does on the very first evaluations after it was built — the free list is empty, every caller ends
// up in sync.Pool's New, on its own goroutine and without any lock — happens once per pool, so a run that wants to
// see it often needs many pools: a case is some hundred fresh pools of one script, each hit by 2-8 callers that
// spin on a start flag (they reach Get within nanoseconds of each other) and ask a request of their own.
// The script keeps no state and every leaf spells the request's host (dnsResolveEx of it), so an evaluation that
// ran on another caller's arguments gives a visibly different answer: every answer must be the model's answer to
// the request asked alone.  Every runtime a pool creates is tagged through pac.Option (its getClientVersion —
// which the scripts call once per evaluation — is wrapped by a Go function that knows the runtime's number and
// holds the first evaluation of every caller until all callers of the pool are inside one): K evaluations in
// flight at once must be inside K different runtimes (a ProxyResolver is not safe for concurrent use).
// The run happens in a child process (a fatal error of the Go runtime is attributed to the case).
//
// The window in which two first callers must meet is a few instructions wide, and sync.Pool's own first-use path
// (pinSlow, a process-wide mutex) staggers the callers, so even spinning callers meet in it about once in a
// thousand pools.  What does not depend on meeting: the pool machine of Model/C14 §9-§10 takes atomic steps, and
// the code is a run of that machine only if concurrent evaluations share no unsynchronised memory.  Cases with
// Race=true are therefore run in a child built with the Go race detector (cmd/c14race, built once per run with
// `go build -race` against the tree under verification): a data race with a frame of forwarder/pac in it is a
// finding, whatever the answers were.

type firstUseCase struct {
	Kind   string     `json:"kind"` // "poolf"
	DS     []string   `json:"ds_wire"`
	Script string     `json:"script_js"`
	Env    envT       `json:"env"`
	Lanes  int        `json:"lanes"` // pools exercised at the same time
	Race   bool       `json:"race"`  // run in the child built with the race detector
	Pools  [][][]reqT `json:"pools"` // Pools[p][k]: what caller k asks of pool p, in order (the first one at once with the others)
}

func (c firstUseCase) flat() []reqT {
	var out []reqT
	for _, p := range c.Pools {
		for _, k := range p {
			out = append(out, k...)
		}
	}
	return out
}

type firstUseResult struct {
	LoadErr string     `json:"load_err,omitempty"`
	Answers [][]string `json:"answers"` // per request of flat(): the answer (one entry; none when the caller panicked before)
	Single  []string   `json:"single"`  // a stand-alone resolver asked afterwards, one request at a time
	Panics  []string   `json:"panics,omitempty"`
	Shared  []string   `json:"shared,omitempty"` // pools in which one runtime was evaluating for two callers at once
	VMs     int        `json:"runtimes_created"`
	Full    int        `json:"barriers_full"` // pools whose callers were all inside an evaluation at the same time
}

// fuBarrier: the first evaluations of a pool's callers meet inside getClientVersion
type fuBarrier struct {
	mu       sync.Mutex
	want     int
	in       []int // runtime numbers of the evaluations waiting inside
	finished int   // callers whose first evaluation ended without getting here
	opened   bool
	open     chan struct{}
}

func (b *fuBarrier) check() {
	if !b.opened && len(b.in)+b.finished >= b.want {
		b.opened = true
		close(b.open)
	}
}

func (b *fuBarrier) enter(id int) {
	b.mu.Lock()
	if b.opened {
		b.mu.Unlock()
		return
	}
	b.in = append(b.in, id)
	b.check()
	b.mu.Unlock()
	select {
	case <-b.open:
	case <-time.After(5 * time.Second): // never expected: every caller either gets here or ends
	}
}

func (b *fuBarrier) callerDone() {
	b.mu.Lock()
	if !b.opened {
		b.finished++
		b.check()
	}
	b.mu.Unlock()
}

func runFirstUse(c firstUseCase) firstUseResult {
	var res firstUseResult
	// every pool costs a few runtimes of a megabyte or two each, dead a moment later: let the collector run rarely
	defer debug.SetGCPercent(debug.SetGCPercent(3000))
	defer debug.SetMemoryLimit(debug.SetMemoryLimit(6 << 30))
	flat := c.flat()
	urls := make([]*url.URL, len(flat))
	for i, q := range flat {
		u, err := url.Parse(q.URL)
		if err != nil {
			res.LoadErr = "bad url"
			return res
		}
		urls[i] = u
	}
	res.Answers = make([][]string, len(flat))
	base := make([][]int, len(c.Pools)) // base[p][k]: index in flat of caller k's first request
	n := 0
	for p, cs := range c.Pools {
		for _, rs := range cs {
			base[p] = append(base[p], n)
			n += len(rs)
		}
	}
	var mu sync.Mutex
	var vms atomic.Int64
	var loadErr atomic.Value
	onePool := func(p int) {
		callers := c.Pools[p]
		bar := &fuBarrier{want: len(callers), open: make(chan struct{})}
		tag := func(vm *goja.Runtime) {
			id := int(vms.Add(1))
			orig, ok := goja.AssertFunction(vm.Get("getClientVersion"))
			if !ok {
				return
			}
			vm.Set("getClientVersion", func(call goja.FunctionCall) goja.Value {
				bar.enter(id)
				v, err := orig(goja.Undefined(), call.Arguments...)
				if err != nil {
					panic(err)
				}
				return v
			})
		}
		pool, err := pac.NewProxyResolverPool(c.Env.config(c.Script), nil, tag)
		if err != nil {
			loadErr.Store(canonLoadErr(err))
			return
		}
		var wg, ready sync.WaitGroup
		var start atomic.Bool
		for k := range callers {
			wg.Add(1)
			ready.Add(1)
			go func(k int) {
				defer wg.Done()
				first := true
				defer func() {
					if x := recover(); x != nil {
						mu.Lock()
						res.Panics = append(res.Panics, fmt.Sprintf("pool %d caller %d: %v", p, k, x))
						mu.Unlock()
						if first {
							bar.callerDone()
						}
					}
				}()
				ready.Done()
				for !start.Load() {
				}
				for j, q := range callers[k] {
					i := base[p][k] + j
					a := canonAnswer(pool.FindProxyForURL(urls[i], q.HostArg))
					if j == 0 {
						bar.callerDone()
						first = false
					}
					mu.Lock()
					res.Answers[i] = append(res.Answers[i], a)
					mu.Unlock()
				}
			}(k)
		}
		ready.Wait()
		start.Store(true)
		wg.Wait()
		bar.mu.Lock()
		ids := append([]int(nil), bar.in...)
		bar.mu.Unlock()
		sort.Ints(ids)
		mu.Lock()
		if len(ids) == len(callers) {
			res.Full++
		}
		for i := 1; i < len(ids); i++ {
			if ids[i] == ids[i-1] {
				res.Shared = append(res.Shared, fmt.Sprintf("pool %d (%d callers): runtime #%d was evaluating for two callers at the same time", p, len(callers), ids[i]))
				break
			}
		}
		mu.Unlock()
	}
	lanes := c.Lanes
	if lanes < 1 || lanes > 8 { // the callers spin: no more of them at a time than processors
		lanes = 1
	}
	var lw sync.WaitGroup
	for l := 0; l < lanes; l++ {
		lw.Add(1)
		go func(l int) {
			defer lw.Done()
			for p := l; p < len(c.Pools); p += lanes {
				if loadErr.Load() != nil {
					return
				}
				onePool(p)
			}
		}(l)
	}
	lw.Wait()
	res.VMs = int(vms.Load())
	if e := loadErr.Load(); e != nil {
		res.LoadErr = e.(string)
		return res
	}
	pr, err := pac.NewProxyResolver(c.Env.config(c.Script), nil)
	if err != nil {
		res.LoadErr = canonLoadErr(err)
		return res
	}
	for i, q := range flat {
		res.Single = append(res.Single, canonAnswer(pr.FindProxyForURL(urls[i], q.HostArg)))
	}
	return res
}

const clauseFirstUse = "evaluations issued concurrently through the resolver pool give the same answers as if issued one at a time (the first evaluations on a fresh pool: 2-8 callers released together, many pools)"

// ---- the child built with the race detector ----

var raceChild struct {
	once sync.Once
	exe  string
	err  string
}

// raceChildExe builds harness/cmd/c14race with -race against the tree under verification (once per run).
func raceChildExe(ctx *core.Ctx) (string, string) {
	raceChild.once.Do(func() {
		repo := os.Getenv("VERIF_REPO")
		if repo == "" {
			repo = "/repo"
		}
		hdir := filepath.Join(ctx.Root, "harness")
		wdir := filepath.Join(ctx.Root, ".work", "gomod")
		os.MkdirAll(wdir, 0o755)
		mf := filepath.Join(wdir, fmt.Sprintf("C14race-%d", os.Getpid()))
		defer os.Remove(mf + ".mod")
		defer os.Remove(mf + ".sum")
		fail := func(what string, err error, out []byte) {
			raceChild.err = fmt.Sprintf("%s: %v: %s", what, err, tailS(string(out), 1200))
		}
		for _, cp := range [][2]string{{filepath.Join(hdir, "go.mod"), mf + ".mod"}, {filepath.Join(repo, "go.sum"), mf + ".sum"}} {
			b, err := os.ReadFile(cp[0])
			if err == nil {
				err = os.WriteFile(cp[1], b, 0o644)
			}
			if err != nil {
				fail("copy "+cp[0], err, nil)
				return
			}
		}
		run := func(args ...string) ([]byte, error) {
			cctx, cancel := context.WithTimeout(context.Background(), 10*time.Minute)
			defer cancel()
			cmd := exec.CommandContext(cctx, "go", args...)
			cmd.Dir = hdir
			cmd.Env = append(os.Environ(), "CGO_ENABLED=1")
			return cmd.CombinedOutput()
		}
		if out, err := run("mod", "edit", "-replace=github.com/saucelabs/forwarder="+repo, mf+".mod"); err != nil {
			fail("go mod edit", err, out)
			return
		}
		exe := filepath.Join(hdir, "bin", fmt.Sprintf("c14race-%d", os.Getpid()))
		if out, err := run("build", "-race", "-modfile="+mf+".mod", "-tags", "verif", "-o", exe, "./cmd/c14race"); err != nil {
			fail("go build -race ./cmd/c14race", err, out)
			return
		}
		raceChild.exe = exe
	})
	return raceChild.exe, raceChild.err
}

func removeRaceChild() {
	if raceChild.exe != "" {
		os.Remove(raceChild.exe)
	}
}

// raceReports: the reports of the race detector in a child's stderr that have a frame of forwarder/pac in them
func raceReports(stderr string) (inPac []string, other int) {
	for _, rep := range strings.Split(stderr, "==================\n") {
		if !strings.Contains(rep, "WARNING: DATA RACE") {
			continue
		}
		if strings.Contains(rep, "github.com/saucelabs/forwarder/pac.") || strings.Contains(rep, "github.com/dop251/goja") {
			inPac = append(inPac, rep)
		} else {
			other++
		}
	}
	return
}

const clauseRace = "evaluations issued concurrently through the resolver pool give the same answers as if issued one at a time " +
	"(race detector: concurrent evaluations share no unsynchronised memory — every run is then a run of the atomic-step pool machine, where c14_pool_state_exclusive gives each evaluation a runtime of its own)"

func checkFirstUse(ctx *core.Ctx, c firstUseCase) {
	in, _ := json.Marshal(c)
	exe, err := os.Executable()
	if err != nil {
		core.Fatalf("C14: %v", err)
	}
	if c.Race {
		var why string
		if exe, why = raceChildExe(ctx); exe == "" {
			// no C compiler / no race runtime on this machine: the case is not run (visible in the evidence)
			ctx.Count("poolf/race-detector-unavailable")
			fmt.Fprintln(os.Stderr, "C14: race detector child not built:", why)
			return
		}
	}
	cctx, cancel := context.WithTimeout(context.Background(), 180*time.Second)
	defer cancel()
	cmd := exec.CommandContext(cctx, exe)
	cmd.Env = append(os.Environ(), childEnv+"=1", "GORACE=halt_on_error=0 exitcode=0")
	cmd.Stdin = bytes.NewReader(in)
	var out, errb bytes.Buffer
	cmd.Stdout, cmd.Stderr = &out, &errb
	runErr := cmd.Run()
	flat := c.flat()
	first := ""
	if len(flat) > 0 {
		first = flat[0].URL
	}
	ctx.Case(fmt.Sprintf("poolf:%s|%d|%d|%s|%v", strings.Join(c.DS, " "), len(c.Pools), len(flat), first, c.Race), len(c.Pools) > 0)
	if c.Race {
		ctx.CountN("poolf/fresh-pools-under-the-race-detector", len(c.Pools))
		if reps, other := raceReports(errb.String()); len(reps) > 0 {
			ctx.SpecFail(clauseRace, "", c, fmt.Sprintf("%d data race(s) reported; the first: %s", len(reps), headS(reps[0], 3000)), "no report on a pool whose steps are atomic")
		} else if other > 0 {
			core.Fatalf("C14: the race detector reports a data race outside forwarder/pac and goja (in the harness?):\n%s", headS(errb.String(), 4000))
		}
	}
	ctx.CountN("poolf/fresh-pools", len(c.Pools))
	for _, p := range c.Pools {
		ctx.Count("poolf/callers-per-pool=" + fmt.Sprint(len(p)))
	}
	ctx.CountN("poolf/distinct-requests", len(flat))
	var res firstUseResult
	if runErr != nil || json.Unmarshal(out.Bytes(), &res) != nil {
		detail := fmt.Sprintf("child process: %v; stderr (head): %s … (tail): %s", runErr, headS(errb.String(), 600), tailS(errb.String(), 900))
		if cctx.Err() != nil {
			detail = "child process hung past 180 s; " + detail
		}
		ctx.Crash("the first concurrent evaluations through a fresh pool never crash or hang the process", "", c, detail)
		return
	}
	m := askEvald(ctx, "evald", c.DS, flat, c.Env)
	if res.LoadErr != "" || m.load != "ok" {
		if loadKind(res.LoadErr) != m.load {
			ctx.Disagree("pool script loads", c, "load: "+res.LoadErr, m.load)
		}
		return
	}
	if len(res.Answers) != len(flat) || len(res.Single) != len(flat) || len(m.seq) != len(flat) {
		core.Fatalf("C14: first use: %d requests, %d concurrent answers, %d single answers, %d model answers", len(flat), len(res.Answers), len(res.Single), len(m.seq))
	}
	ctx.CountN("poolf/runtimes-created", res.VMs)
	ctx.CountN("poolf/pools-with-all-callers-inside-an-evaluation-at-once", res.Full)
	for _, i := range []int{0, len(flat) / 2, len(flat) - 1} {
		one := askEvald(ctx, "evald", c.DS, []reqT{flat[i]}, c.Env)
		if one.load != "ok" || (m.seq[i] != "unmodelled" && one.seq[0] != m.seq[i]) {
			core.Fatalf("C14: first-use script answers request %d differently alone (%v) and in sequence (%s)\n%s", i, one.seq, m.seq[i], c.Script)
		}
	}
	failed := false
	if len(res.Panics) > 0 {
		failed = true
		ctx.Crash("the first concurrent evaluations through a fresh pool never panic", "", c, strings.Join(res.Panics, "; "))
	}
	bad := 0
	hosts := map[string]int{}
	for i, q := range flat {
		want := m.seq[i]
		if want == "unmodelled" {
			ctx.Count("poolf/unmodelled")
			continue
		}
		hosts[want]++
		if compactAnswer(res.Single[i]) != want {
			ctx.Disagree("FindProxyForURL = Model.C14.callD (a stand-alone resolver, after the pool runs)", c,
				fmt.Sprintf("req %d (%s): %s", i, q.URL, showAnswer(res.Single[i])), showCompact(want))
		}
		if len(res.Answers[i]) == 1 && compactAnswer(res.Answers[i][0]) == want {
			ctx.TraceValidated()
			continue
		}
		if len(res.Answers[i]) == 0 && len(res.Panics) > 0 {
			continue // the caller panicked before (reported above)
		}
		bad++
		failed = true
		if bad <= 3 {
			var got []string
			for _, a := range res.Answers[i] {
				got = append(got, showAnswer(a))
			}
			ctx.SpecFail(clauseFirstUse, "", c, fmt.Sprintf("req %d (%s): the caller got %v", i, q.URL, got), "asked alone: "+showCompact(want))
		}
	}
	ctx.CountN("poolf/distinct-answers", len(hosts))
	if len(res.Shared) > 0 && !failed {
		// every answer came out right, but the run is no run of the pool machine (c14_pool_state_exclusive)
		ctx.Disagree("every pool history is a history of Model.C14.sstep: no runtime is held by two callers (c14_pool_state_exclusive)", c,
			strings.Join(res.Shared, "; "), "K evaluations in flight are inside K different runtimes")
	} else if len(res.Shared) > 0 {
		ctx.Count("poolf/runtime-shared")
	}
}

func genFirstUseCase(r *core.Rand, pools int, race bool) firstUseCase {
	d := genHammerScriptX(r, true)
	env, mkReq := genHammerEnv(r, true)
	c := firstUseCase{Kind: "poolf", DS: d.wire(), Script: d.js(), Lanes: 2, Race: race}
	for p := 0; p < pools; p++ {
		callers := core.Pick(r, []int{2, 2, 3, 3, 4, 4, 4, 5, 6, 8})
		var cs [][]reqT
		for k := 0; k < callers; k++ {
			rs := []reqT{mkReq(p, k, 0)}
			for j := 1; j <= 2 && r.Chance(30); j++ {
				rs = append(rs, mkReq(p, k, j))
			}
			cs = append(cs, rs)
		}
		c.Pools = append(c.Pools, cs)
	}
	c.Env = env
	return c
}
