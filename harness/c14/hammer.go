package c14

import (
	"bytes"
	"context"
	"encoding/json"
	"fmt"
	"net/url"
	"os"
	"os/exec"
	"sort"
	"strings"
	"sync"
	"time"

	"github.com/saucelabs/forwarder/pac"
	"github.com/saucelabs/forwarder/verifharness/core"
)

// Pool hammer over helper-heavy scripts (Theorems/C14.lean §6, c14_pool_helpers).
//
// The script calls every one of the 15 predefined helpers on every evaluation (several of them more than once),
// with arguments it builds afresh from the request (`"" + host.split(".")[0] + "." + … + ".0/24"`), and every
// request of a run is new: whatever a helper may keep between calls (a parse cache, a resolver cache — per VM or
// per process) is cold whenever it is consulted, and it is consulted by 16-64 callers at once.  Each round has a
// pool of its own, the callers are released together, and nothing is evaluated before them (the stand-alone
// resolver that gives the reference answers runs after the last round).  The whole run happens in a child
// process: a fatal error of the Go runtime (concurrent map access) is reported with the script and the request
// set.  The script keeps no state (every global it reads it has assigned in the same call), so each answer must
// be the model's answer to the request asked alone.

type hammerRound struct {
	Shared []reqT   `json:"shared"` // asked by every caller
	Own    [][]reqT `json:"own"`    // Own[k]: asked by caller k only
}

type hammerCase struct {
	Kind    string        `json:"kind"` // "poolh"
	DS      []string      `json:"ds_wire"`
	Script  string        `json:"script_js"`
	Env     envT          `json:"env"`
	Callers int           `json:"callers"`
	Rounds  []hammerRound `json:"rounds"`
}

// flat: all requests, round by round: the shared ones, then caller 0's, caller 1's, …
func (c hammerCase) flat() []reqT {
	var out []reqT
	for _, rd := range c.Rounds {
		out = append(out, rd.Shared...)
		for _, o := range rd.Own {
			out = append(out, o...)
		}
	}
	return out
}

type hammerResult struct {
	LoadErr string     `json:"load_err,omitempty"`
	Conc    [][]string `json:"concurrent"` // per request of flat(): the distinct answers callers got
	Single  []string   `json:"single"`     // a stand-alone resolver asked afterwards, one request at a time
	Panics  []string   `json:"panics,omitempty"`
	Calls   int        `json:"calls"`
}

func runHammer(c hammerCase) hammerResult {
	var res hammerResult
	flat := c.flat()
	urls := make([]*url.URL, len(flat))
	for i, q := range flat {
		u, err := url.Parse(q.URL)
		if err != nil {
			res.LoadErr = "bad url"
			return res
		}
		urls[i] = u
	}
	seen := make([]map[string]bool, len(flat))
	for i := range seen {
		seen[i] = map[string]bool{}
	}
	var mu sync.Mutex
	base := 0
	for _, rd := range c.Rounds {
		pool, err := pac.NewProxyResolverPool(c.Env.config(c.Script), nil)
		if err != nil {
			res.LoadErr = canonLoadErr(err)
			return res
		}
		ownBase := make([]int, len(rd.Own))
		n := base + len(rd.Shared)
		for k := range rd.Own {
			ownBase[k] = n
			n += len(rd.Own[k])
		}
		var wg sync.WaitGroup
		start := make(chan struct{})
		for k := 0; k < c.Callers && k < len(rd.Own); k++ {
			wg.Add(1)
			go func(k int) {
				defer wg.Done()
				defer func() {
					if p := recover(); p != nil {
						mu.Lock()
						res.Panics = append(res.Panics, fmt.Sprint(p))
						mu.Unlock()
					}
				}()
				// own and shared requests alternately; callers start at different shared requests
				var order []int
				for j := 0; j < len(rd.Own[k]) || j < len(rd.Shared); j++ {
					if j < len(rd.Own[k]) {
						order = append(order, ownBase[k]+j)
					}
					if j < len(rd.Shared) {
						order = append(order, base+(j+k)%len(rd.Shared))
					}
				}
				<-start
				for _, i := range order {
					a := canonAnswer(pool.FindProxyForURL(urls[i], flat[i].HostArg))
					mu.Lock()
					seen[i][a] = true
					res.Calls++
					mu.Unlock()
				}
			}(k)
		}
		close(start)
		wg.Wait()
		base = n
	}
	for i := range seen {
		var as []string
		for a := range seen[i] {
			as = append(as, a)
		}
		sort.Strings(as)
		res.Conc = append(res.Conc, as)
	}
	pr, err := pac.NewProxyResolver(c.Env.config(c.Script), nil)
	if err != nil {
		res.LoadErr = canonLoadErr(err)
		return res
	}
	for i, q := range flat {
		res.Single = append(res.Single, canonAnswer(pr.FindProxyForURL(urls[i], q.HostArg)))
	}
	return res
}

const clauseHammer = "evaluations issued concurrently through the resolver pool give the same answers as if issued one at a time (scripts that call every helper with arguments built afresh per call; a fresh pool, all callers released together)"

func checkHammer(ctx *core.Ctx, c hammerCase) {
	in, _ := json.Marshal(c)
	exe, err := os.Executable()
	if err != nil {
		core.Fatalf("C14: %v", err)
	}
	cctx, cancel := context.WithTimeout(context.Background(), 120*time.Second)
	defer cancel()
	cmd := exec.CommandContext(cctx, exe)
	cmd.Env = append(os.Environ(), childEnv+"=1")
	cmd.Stdin = bytes.NewReader(in)
	var out, errb bytes.Buffer
	cmd.Stdout, cmd.Stderr = &out, &errb
	runErr := cmd.Run()
	flat := c.flat()
	first := ""
	if len(flat) > 0 {
		first = flat[0].URL
	}
	ctx.Case(fmt.Sprintf("poolh:%s|%d|%d|%d|%s", strings.Join(c.DS, " "), c.Callers, len(c.Rounds), len(flat), first), c.Callers > 1)
	ctx.Count("poolh/callers=" + bucket(c.Callers))
	ctx.CountN("poolh/rounds-each-with-a-fresh-pool", len(c.Rounds))
	ctx.CountN("poolh/distinct-requests", len(flat))
	for _, h := range helperNames {
		if n := strings.Count(c.Script, " = "+h+"("); n > 0 {
			ctx.CountN("poolh/calls-per-evaluation/"+h, n)
		}
	}
	var res hammerResult
	if runErr != nil || json.Unmarshal(out.Bytes(), &res) != nil {
		detail := fmt.Sprintf("child process: %v; stderr (head): %s … (tail): %s", runErr, headS(errb.String(), 600), tailS(errb.String(), 900))
		if cctx.Err() != nil {
			detail = "child process hung past 120 s; " + detail
		}
		ctx.Crash("concurrent evaluations through the pool never crash or hang the process", "", c, detail)
		return
	}
	if len(res.Panics) > 0 {
		ctx.Crash("concurrent evaluations through the pool never panic", "", c, strings.Join(res.Panics, "; "))
		return
	}
	m := askEvald(ctx, "evald", c.DS, flat, c.Env)
	if res.LoadErr != "" || m.load != "ok" {
		if loadKind(res.LoadErr) != m.load {
			ctx.Disagree("pool script loads", c, "load: "+res.LoadErr, m.load)
		}
		return
	}
	if len(res.Conc) != len(flat) || len(res.Single) != len(flat) || len(m.seq) != len(flat) {
		core.Fatalf("C14: hammer: %d requests, %d concurrent answers, %d single answers, %d model answers", len(flat), len(res.Conc), len(res.Single), len(m.seq))
	}
	ctx.CountN("poolh/concurrent-calls", res.Calls)
	// the script keeps no state: the model's answer in sequence is the answer of the request asked alone (spot check)
	for _, i := range []int{0, len(flat) / 2, len(flat) - 1} {
		one := askEvald(ctx, "evald", c.DS, []reqT{flat[i]}, c.Env)
		if one.load != "ok" || (m.seq[i] != "unmodelled" && one.seq[0] != m.seq[i]) {
			core.Fatalf("C14: hammer script answers request %d differently alone (%v) and in sequence (%s)\n%s", i, one.seq, m.seq[i], c.Script)
		}
	}
	bad := 0
	for i, q := range flat {
		want := m.seq[i]
		if want == "unmodelled" {
			ctx.Count("poolh/unmodelled")
			continue
		}
		ctx.Count("poolh/answer/" + answerKind(showCompact(want)))
		if compactAnswer(res.Single[i]) != want {
			ctx.Disagree("FindProxyForURL = Model.C14.callD (a stand-alone resolver, after the pool runs)", c,
				fmt.Sprintf("req %d (%s): %s", i, q.URL, showAnswer(res.Single[i])), showCompact(want))
		}
		ok := len(res.Conc[i]) > 0
		for _, a := range res.Conc[i] {
			if compactAnswer(a) != want {
				ok = false
			}
		}
		if ok {
			ctx.TraceValidated()
			continue
		}
		bad++
		if bad <= 3 {
			var got []string
			for _, a := range res.Conc[i] {
				got = append(got, showAnswer(a))
			}
			ctx.SpecFail(clauseHammer, "", c, fmt.Sprintf("req %d (%s): concurrent callers got %v", i, q.URL, got), "asked alone: "+showCompact(want))
		}
	}
}

func headS(s string, n int) string {
	if len(s) > n {
		return s[:n]
	}
	return s
}

// ---- generation ----

// a template = a helper call whose arguments are built from the request at run time
type dynTemplate func(r *core.Rand) call

func dyn(ps ...any) arg {
	var out []piece
	for _, p := range ps {
		switch x := p.(type) {
		case string:
			out = append(out, pLit(x))
		case int:
			out = append(out, pLabel(x))
		case piece:
			out = append(out, x)
		}
	}
	return aDyn(out...)
}

func lit(s string) arg { return aLit(vStr(s)) }

// freshName: a host name the script derives from two labels of the request host
func freshName(a, b int) arg { return dyn("n", a, ".z", b, ".corp.test") }

var dynTemplates = map[string][]dynTemplate{
	"isInNetEx": {
		func(r *core.Rand) call {
			return call{h: "isInNetEx", args: []arg{aHost(), dyn(0, ".", 1, ".", 2, ".0/24")}}
		},
		func(r *core.Rand) call {
			return call{h: "isInNetEx", args: []arg{aHost(), dyn(0, ".", 1, ".0.0/", fmt.Sprint(r.Range(9, 23)))}}
		},
		func(r *core.Rand) call {
			return call{h: "isInNetEx", args: []arg{dyn("2001:db8:", 1, ":", 2, "::", 3), dyn("2001:db8:", 1, ":", 2, "::/64")}}
		},
		func(r *core.Rand) call {
			return call{h: "isInNetEx", args: []arg{dyn("fd00::", 2, ":", 3), dyn("fd00::", 2, ":0/", fmt.Sprint(r.Range(100, 127)))}}
		},
		func(r *core.Rand) call { return call{h: "isInNetEx", args: []arg{aHost(), dyn(pHost(), "/32")}} },
		func(r *core.Rand) call {
			return call{h: "isInNetEx", args: []arg{dyn(3, ".", 2, ".", 1, ".", 0), dyn(3, ".", 2, ".0.0/16")}}
		},
		func(r *core.Rand) call {
			return call{h: "isInNetEx", args: []arg{dyn("::ffff:", pHost()), dyn("::ffff:", 0, ".", 1, ".0.0/", fmt.Sprint(r.Range(104, 112)))}}
		},
	},
	"isInNet": {
		func(r *core.Rand) call {
			return call{h: "isInNet", args: []arg{aHost(), dyn(0, ".", 1, ".0.0"), lit("255.255.0.0")}}
		},
		func(r *core.Rand) call {
			return call{h: "isInNet", args: []arg{aHost(), dyn(0, ".", 1, ".", 2, ".0"), lit(core.Pick(r, maskPool))}}
		},
		func(r *core.Rand) call {
			return call{h: "isInNet", args: []arg{freshName(1, 2), dyn("172.", 1, ".0.0"), lit(core.Pick(r, []string{"255.255.0.0", "255.255.255.0", "255.0.0.0"}))}}
		},
	},
	"dnsResolve": {
		func(r *core.Rand) call { return call{h: "dnsResolve", args: []arg{aHost()}} },
		func(r *core.Rand) call { return call{h: "dnsResolve", args: []arg{freshName(1, 2)}} },
		func(r *core.Rand) call { return call{h: "dnsResolve", args: []arg{dyn(3, ".", 2, ".", 1, ".", 0)}} },
	},
	"dnsResolveEx": {
		func(r *core.Rand) call { return call{h: "dnsResolveEx", args: []arg{aHost()}} },
		func(r *core.Rand) call { return call{h: "dnsResolveEx", args: []arg{freshName(2, 1)}} },
	},
	"isResolvable": {
		func(r *core.Rand) call { return call{h: "isResolvable", args: []arg{freshName(2, 1)}} },
		func(r *core.Rand) call { return call{h: "isResolvable", args: []arg{aHost()}} },
	},
	"isResolvableEx": {
		func(r *core.Rand) call { return call{h: "isResolvableEx", args: []arg{freshName(1, 2)}} },
		func(r *core.Rand) call { return call{h: "isResolvableEx", args: []arg{dyn("2001:db8::", 1, ":", 2)}} },
	},
	"sortIpAddressList": {
		func(r *core.Rand) call {
			return call{h: "sortIpAddressList", args: []arg{dyn(0, ".", 1, ".", 2, ".9;2001:db8::", 1, "; ", 3, ".", 2, ".", 1, ".", 0, ";fd00::", 2)}}
		},
		func(r *core.Rand) call {
			return call{h: "sortIpAddressList", args: []arg{dyn(pHost(), ";10.", 1, ".", 2, ".1;::", 3)}}
		},
	},
	"shExpMatch": {
		func(r *core.Rand) call { return call{h: "shExpMatch", args: []arg{aHost(), dyn(0, ".*.", 2, "*")}} },
		func(r *core.Rand) call {
			return call{h: "shExpMatch", args: []arg{aURL(), dyn("*://", 0, ".", 1, ".*")}}
		},
		func(r *core.Rand) call {
			return call{h: "shExpMatch", args: []arg{aHost(), dyn("*", 1, "?", 2, core.Pick(r, []string{"*", ".*", "?*", ""}))}}
		},
	},
	"dnsDomainIs": {
		func(r *core.Rand) call { return call{h: "dnsDomainIs", args: []arg{aHost(), dyn(".", 2, ".", 3)}} },
		func(r *core.Rand) call {
			return call{h: "dnsDomainIs", args: []arg{aHost(), dyn(1, ".", 2, ".", 3, core.Pick(r, []string{"", "", ".test", "x"}))}}
		},
	},
	"localHostOrDomainIs": {
		func(r *core.Rand) call { return call{h: "localHostOrDomainIs", args: []arg{dyn(0), aHost()}} },
		func(r *core.Rand) call {
			return call{h: "localHostOrDomainIs", args: []arg{aHost(), dyn(0, ".", 1, ".", 2, ".", 3)}}
		},
	},
	"isPlainHostName": {
		func(r *core.Rand) call {
			return call{h: "isPlainHostName", args: []arg{dyn(0, core.Pick(r, []string{"", "", "-x", ".y"}))}}
		},
		func(r *core.Rand) call { return call{h: "isPlainHostName", args: []arg{aHost()}} },
	},
	"dnsDomainLevels": {
		func(r *core.Rand) call { return call{h: "dnsDomainLevels", args: []arg{aHost()}} },
		func(r *core.Rand) call {
			return call{h: "dnsDomainLevels", args: []arg{dyn(0, ".", 1, core.Pick(r, []string{"", ".a", ".a.b"}))}}
		},
	},
	"myIpAddress":      {func(r *core.Rand) call { return call{h: "myIpAddress"} }},
	"myIpAddressEx":    {func(r *core.Rand) call { return call{h: "myIpAddressEx"} }},
	"getClientVersion": {func(r *core.Rand) call { return call{h: "getClientVersion"} }},
}

// genHammerScript: a stateless decorated script whose every evaluation calls all 15 helpers.
func genHammerScript(r *core.Rand) dscript { return genHammerScriptX(r, false) }

// echoTemplates: calls whose value spells the request's host (an address literal resolves to itself, a name to what
// the table gives it — genHammerEnv(echo) gives every name addresses no other request has)
var echoTemplates = []dynTemplate{
	func(r *core.Rand) call { return call{h: "dnsResolveEx", args: []arg{aHost()}} },
	func(r *core.Rand) call { return call{h: "dnsResolveEx", args: []arg{dyn(pHost())}} },
	func(r *core.Rand) call { return call{h: "dnsResolveEx", args: []arg{dyn("", pHost(), "")}} },
}

// genHammerScriptX: echo = every leaf returns a string that spells the request's host, so that an evaluation that
// picked up another caller's arguments gives a visibly different answer.
func genHammerScriptX(r *core.Rand, echo bool) dscript {
	var body []stmt
	x := 0
	add := func(c call) {
		body = append(body, stmt{k: 'A', x: x, e: gexpr{k: 'k', c: c}, style: r.Intn(3)})
		x++
	}
	for _, h := range helperNames {
		ts := dynTemplates[h]
		if len(ts) == 0 {
			core.Fatalf("C14: no hammer template for helper %s", h)
		}
		n := 1
		switch h {
		case "isInNetEx":
			n = r.Range(3, 5)
		case "isInNet", "dnsResolve", "shExpMatch", "sortIpAddressList", "dnsResolveEx":
			n = r.Range(1, 2)
		}
		first := r.Intn(len(ts))
		for i := 0; i < n; i++ {
			add(ts[(first+i)%len(ts)](r))
		}
	}
	echoWire := map[string]bool{}
	if echo {
		for i, n, first := 0, r.Range(1, 3), r.Intn(len(echoTemplates)); i < n; i++ {
			c := echoTemplates[(first+i)%len(echoTemplates)](r)
			echoWire[strings.Join(c.wire(), ",")] = true
			add(c)
		}
	}
	core.Shuffle(r, body)
	for i := range body { // renumber in the order of the text
		body[i].x = i
	}
	nGlob := len(body)
	var echoes []int
	for i, s := range body {
		if echoWire[strings.Join(s.e.c.wire(), ",")] {
			echoes = append(echoes, i)
		}
	}
	var build func(d int) *tree
	build = func(d int) *tree {
		if d == 0 || r.Chance(10) {
			if echo {
				return &tree{k: 'G', x: core.Pick(r, echoes), asStr: true}
			}
			if r.Chance(85) {
				return &tree{k: 'G', x: r.Intn(nGlob), asStr: true}
			}
			return &tree{k: 'R', v: vStr(genGoodResult(r))}
		}
		var c cond
		switch r.Intn(6) {
		case 0:
			c = cond{k: 'E', c: core.Pick(r, dynTemplates["dnsDomainLevels"])(r), v: vNum(int64(r.Range(1, 4)))}
		case 1:
			c = cond{k: 'T', c: core.Pick(r, dynTemplates[core.Pick(r, []string{"dnsResolve", "dnsResolveEx", "sortIpAddressList"})])(r)}
		default:
			c = cond{k: 'T', c: core.Pick(r, dynTemplates[core.Pick(r, boolHelpers)])(r)}
		}
		if r.Chance(15) {
			inner := c
			c = cond{k: 'N', n: &inner}
		}
		return &tree{k: 'I', cond: c, t: build(d - 1), e: build(d - 1)}
	}
	d := dscript{tree: build(r.Range(2, 4)), body: body, ex: r.Chance(15), dtGuard: true}
	if r.Chance(50) {
		d.guards = r.Intn(16)
	}
	if r.Chance(50) {
		d.form = core.Pick(r, decoForms())
	}
	if !d.stateless() {
		core.Fatalf("C14: genHammerScript produced a script with state:\n%s", d.js())
	}
	return d
}

func genHammerCase(r *core.Rand, callers, rounds, own, shared int) hammerCase {
	d := genHammerScript(r)
	env, mkReq := genHammerEnv(r, false)
	c := hammerCase{Kind: "poolh", DS: d.wire(), Script: d.js(), Env: env, Callers: callers}
	for rho := 0; rho < rounds; rho++ {
		var rd hammerRound
		for j := 0; j < shared; j++ {
			rd.Shared = append(rd.Shared, mkReq(rho, 250+j, j))
		}
		for k := 0; k < callers; k++ {
			var o []reqT
			for j := 0; j < own; j++ {
				o = append(o, mkReq(rho, k, j))
			}
			rd.Own = append(rd.Own, o)
		}
		c.Rounds = append(c.Rounds, rd)
	}
	return c
}

// genHammerEnv: own addresses, a resolver table that grows with the requests, and the request generator: request
// (rho, k, j) has a host no other request of the run has.  echo = every name resolves, to addresses of its own.
func genHammerEnv(r *core.Rand, echo bool) (envT, func(rho, k, j int) reqT) {
	env := envT{Table: map[string][]string{}, MyIPs: []string{}, MyIPsEx: []string{}}
	for i, n := 0, r.Intn(3); i < n; i++ {
		env.MyIPs = append(env.MyIPs, genValidIP(r, 85))
	}
	for i, n := 0, r.Intn(4); i < n; i++ {
		env.MyIPsEx = append(env.MyIPsEx, genValidIP(r, 50))
	}
	uniq := 0
	resolves := func(name string) {
		if echo && strings.HasPrefix(name, "c") {
			uniq++
			env.Table[name] = []string{fmt.Sprintf("100.%d.%d.%d", uniq>>16&255, uniq>>8&255, uniq&255)}
			if r.Chance(40) {
				env.Table[name] = append(env.Table[name], fmt.Sprintf("2001:db8:ee::%x", uniq))
			}
			return
		}
		switch r.Intn(4) {
		case 0:
		case 1:
			env.Table[name] = []string{quadStr(genQuad(r))}
		case 2:
			env.Table[name] = []string{genValidIP(r, 0), quadStr(genQuad(r))}
		default:
			env.Table[name] = []string{"172." + fmt.Sprint(r.Intn(256)) + "." + fmt.Sprint(r.Intn(256)) + ".7", genValidIP(r, 0)}
		}
	}
	salt := r.Intn(1 << 20)
	mkReq := func(rho, k, j int) reqT {
		var host string
		switch r.Intn(10) {
		case 0, 1, 2, 3, 4, 5: // an IPv4 literal no other request of the run has
			a, b, c3, d4 := 11+rho%200, k%256, (j*37+r.Intn(37))%256, r.Range(1, 254)
			host = fmt.Sprintf("%d.%d.%d.%d", a, b, c3, d4)
			if r.Chance(40) {
				resolves(fmt.Sprintf("n%d.z%d.corp.test", b, c3))
			}
			if r.Chance(40) {
				resolves(fmt.Sprintf("n%d.z%d.corp.test", c3, b))
			}
		case 6, 7, 8: // a name of five labels
			host = fmt.Sprintf("c%d.q%d.r%dx%d.%s", k, j, rho, salt%997, core.Pick(r, []string{"corp.test", "example.com", "corp.local"}))
			resolves(host)
		default: // an IPv6 literal
			host = fmt.Sprintf("2001:db8:%x:%x::%x", rho+1, k+1, j*1000+r.Intn(1000)+1)
		}
		hp := host
		if strings.Contains(host, ":") {
			hp = "[" + host + "]"
		}
		u := core.Pick(r, []string{"http", "https", "ftp", "ws"}) + "://" + hp + core.Pick(r, []string{"", ":8080", ":443"}) +
			fmt.Sprintf("/%s?r=%d&k=%d&j=%d", core.Pick(r, []string{"", "index.html", "a/b", "path.with.dots/file.js"}), rho, k, j)
		return reqT{URL: u}
	}
	return env, mkReq
}
