package c14

import (
	"fmt"
	"net/url"
	"strconv"
	"strings"

	"github.com/saucelabs/forwarder/pac"
	"github.com/saucelabs/forwarder/verifharness/core"
)

// Decorated scripts (Model/C14.lean §10): the decision trees wrapped in the sloppy-mode ES5 forms PAC
// files in the wild use — assignments to names that were never declared (scratch variables, loop
// counters, per-VM counters and constants), leaves that return through such a global, top-level
// functions that replace a predefined helper — and spelt with forms whose meaning depends on the mode
// the engine runs the script in (`with`, duplicate parameter names, arguments.callee, aliasing of
// arguments[i], `this` = global object in a plain call, legacy octal literals, eval-introduced vars).
// The model gives every construct a meaning (globals live as long as the VM); the spellings are
// JavaScript-side only.  Every script is evaluated on a stand-alone ProxyResolver and through a
// ProxyResolverPool and both are judged against the model.

type gexpr struct {
	k byte // 'l' literal, 'g' global, 'p' global + k, 'k' helper call
	v val
	x int
	n int64
	c call
}

func (e gexpr) wire() []string {
	switch e.k {
	case 'l':
		return []string{"l", e.v.wire()}
	case 'g':
		return []string{"g", strconv.Itoa(e.x)}
	case 'p':
		return []string{"p", strconv.Itoa(e.x), strconv.FormatInt(e.n, 10)}
	}
	return append([]string{"k"}, e.c.wire()...)
}

func gname(x int) string { return "g" + strconv.Itoa(x) }

func numJS(n int64, oct bool) string { return val{k: 'n', n: n, oct: oct}.js() }

func (e gexpr) js(oct bool) string {
	switch e.k {
	case 'l':
		return e.v.js()
	case 'g':
		return gname(e.x)
	case 'p':
		return gname(e.x) + " + " + numJS(e.n, oct)
	}
	return e.c.js()
}

// reads: the globals the expression reads
func (e gexpr) reads() []int {
	if e.k == 'g' || e.k == 'p' {
		return []int{e.x}
	}
	return nil
}

type stmt struct {
	k     byte // 'A' gx = e · 'O' if (typeof gx === "undefined") gx = v · 'L' for (gi = 0; gi < n; gi++) { gx = e; }
	x     int
	e     gexpr
	v     val
	i, n  int
	style int // spelling (not part of the wire form)
}

func (s stmt) wire() []string {
	switch s.k {
	case 'A':
		return append([]string{"A", strconv.Itoa(s.x)}, s.e.wire()...)
	case 'O':
		return []string{"O", strconv.Itoa(s.x), s.v.wire()}
	}
	return append([]string{"L", strconv.Itoa(s.i), strconv.Itoa(s.n), strconv.Itoa(s.x)}, s.e.wire()...)
}

func (s stmt) js(ind string) string {
	oct := s.style&8 != 0
	x := gname(s.x)
	switch s.k {
	case 'A':
		switch s.style & 3 {
		case 1:
			return ind + "this." + x + " = " + s.e.js(oct) + ";\n"
		case 2:
			return ind + "(function () { this." + x + " = " + s.e.js(oct) + "; })();\n"
		}
		return ind + x + " = " + s.e.js(oct) + ";\n"
	case 'O':
		switch s.style & 3 {
		case 1:
			return ind + "if (typeof " + x + " == \"undefined\") { " + x + " = " + s.v.js() + "; }\n"
		case 2:
			return ind + "if (this." + x + " === undefined) " + x + " = " + s.v.js() + ";\n"
		}
		return ind + "if (typeof " + x + " === \"undefined\") " + x + " = " + s.v.js() + ";\n"
	}
	i, n := gname(s.i), numJS(int64(s.n), oct)
	asg := x + " = " + s.e.js(oct) + ";"
	switch s.style & 3 {
	case 1:
		return ind + i + " = 0;\n" + ind + "while (" + i + " < " + n + ") { " + asg + " " + i + "++; }\n"
	case 2:
		return ind + "for (" + i + " = 0; " + i + " < " + n + "; " + i + " += 1) { " + asg + " }\n"
	case 3:
		return ind + "for (" + i + " = 0; " + n + " > " + i + "; ++" + i + ") " + asg + "\n"
	}
	return ind + "for (" + i + " = 0; " + i + " < " + n + "; " + i + "++) { " + asg + " }\n"
}

type shadowT struct {
	h string
	v val
}

type dscript struct {
	ex      bool
	shadow  []shadowT
	prelude []stmt
	body    []stmt
	tree    *tree
	guards  int    // entry-point guards that are neutral in sloppy mode (spelling only)
	form    string // how the entry point is declared: a form that defines a global, not an arrow function (spelling only)
	dtGuard bool   // clock-independent calls of weekdayRange / dateRange / timeRange in front (spelling only)
}

// decoForms: the declaration forms a decorated script may use (its body names `arguments`, which an arrow function lacks)
func decoForms() []string {
	var out []string
	for _, f := range declForms {
		if f.binding != 'N' && f.rhs != 'a' {
			out = append(out, f.name)
		}
	}
	return out
}

func stmtsWire(ss []stmt) string {
	var toks []string
	for _, s := range ss {
		toks = append(toks, s.wire()...)
	}
	return core.JoinList(toks)
}

// wire: the five fields <ex> <shadow> <prelude> <body> <dtree> of Driver/C14.lean
func (d dscript) wire() []string {
	var sh []string
	for _, s := range d.shadow {
		sh = append(sh, "h"+s.h, s.v.wire())
	}
	return []string{core.B01(d.ex), core.JoinList(sh), stmtsWire(d.prelude), stmtsWire(d.body), d.tree.wire()}
}

func (d dscript) entryName() string {
	if d.ex {
		return "FindProxyForURLEx"
	}
	return "FindProxyForURL"
}

const (
	leafPlain = iota
	leafWith
	leafDupParam
	leafCallee
	leafArgAlias
	leafEvalVar
	nLeafStyles
)

func leafExprJS(t *tree) string {
	switch t.k {
	case 'R':
		return t.v.js()
	case 'C':
		return t.c.js()
	}
	return "String(" + t.c.js() + ")"
}

func (d dscript) treeJS(t *tree, ind string) string {
	switch t.k {
	case 'I':
		return ind + "if (" + t.cond.js() + ") {\n" + d.treeJS(t.t, ind+"  ") + ind + "} else {\n" + d.treeJS(t.e, ind+"  ") + ind + "}\n"
	case 'G':
		if t.asStr {
			return ind + "return String(" + gname(t.x) + ");\n"
		}
		return ind + "return " + gname(t.x) + ";\n"
	case 'V':
		x, e := gname(t.x), leafExprJS(t.t)
		switch t.style % 3 {
		case 1:
			return ind + "return (" + x + " = " + e + ");\n"
		case 2:
			return ind + "this." + x + " = " + e + ";\n" + ind + "return " + x + ";\n"
		}
		return ind + x + " = " + e + ";\n" + ind + "return " + x + ";\n"
	}
	e := leafExprJS(t)
	switch t.style {
	case leafWith:
		return ind + "with ({r: " + e + "}) { return r; }\n"
	case leafDupParam:
		return ind + "return pick(0, " + e + ");\n"
	case leafCallee:
		return ind + "return (typeof arguments.callee === \"function\") ? " + e + " : \"callee-differs\";\n"
	case leafArgAlias:
		return ind + "arguments[0] = " + e + ";\n" + ind + "return url;\n"
	case leafEvalVar:
		return ind + "eval(\"var ev = 1\");\n" + ind + "return (ev === 1) ? " + e + " : \"eval-scope\";\n"
	}
	return ind + "return " + e + ";\n"
}

func (d dscript) js() string {
	var b strings.Builder
	b.WriteString("// generated by verifharness/c14 (decorated: sloppy-mode ES5 forms)\n")
	for _, l := range leaves(d.tree) {
		if l.k != 'V' && l.k != 'G' && l.style == leafDupParam {
			b.WriteString("function pick(a, a) { return a; }\n")
			break
		}
	}
	for i, s := range d.shadow {
		if i%2 == 0 {
			b.WriteString("function " + s.h + "() { return " + s.v.js() + "; }\n")
		} else {
			b.WriteString("var " + s.h + " = function () { return " + s.v.js() + "; };\n")
		}
	}
	for _, s := range d.prelude {
		b.WriteString(s.js(""))
	}
	name := d.entryName()
	top := b.String()
	b.Reset()
	b.WriteString("(url, host) {\n")
	if d.dtGuard {
		// none of these depends on the clock: every weekday is in SUN..SAT, no weekday is called Q<n>, this year lies
		// between 1000+n and 9000+n and is not 3000+n, every hour is in 0..23 and none is 24+n
		b.WriteString("  var dn = host.length;\n")
		b.WriteString("  if (!weekdayRange(\"SUN\", \"SAT\") || weekdayRange(\"Q\" + dn) || !dateRange(1000 + dn, 9000 + dn) || dateRange(3000 + dn) ||\n" +
			"      !timeRange(0, 23) || timeRange(24 + dn) || !weekdayRange(\"MON\", \"SUN\", \"GMT\")) return \"date-time-helper-differs\";\n")
		// nor do these: no weekday, month or hour is called by the name of an Object.prototype member (the helpers
		// look their words up in plain objects), by the empty string or by "length"
		b.WriteString("  if (weekdayRange(\"constructor\") || weekdayRange(\"toString\", \"valueOf\") || weekdayRange(\"__proto__\") || weekdayRange(\"hasOwnProperty\", \"GMT\") ||\n" +
			"      weekdayRange(\"\") || dateRange(\"constructor\") || dateRange(\"toString\", \"valueOf\") || dateRange(\"__proto__\") || dateRange(\"isPrototypeOf\", \"GMT\") ||\n" +
			"      dateRange(\"length\") || timeRange(\"constructor\") || timeRange(\"toString\", \"valueOf\") || timeRange(\"__proto__\", \"GMT\")) return \"date-time-word-differs\";\n")
	}
	if d.guards&1 != 0 {
		b.WriteString("  if (" + name + ".length !== 2) return \"arity-differs\";\n")
	}
	if d.guards&2 != 0 {
		b.WriteString("  if (arguments.callee !== " + name + ") return \"callee-differs\";\n")
	}
	if d.guards&4 != 0 {
		b.WriteString("  if (typeof this !== \"object\" || this === null) return \"this-differs\";\n")
	}
	if d.guards&8 != 0 {
		b.WriteString("  if (arguments.length !== 2) return \"argc-differs\";\n")
	}
	for _, s := range d.body {
		b.WriteString(s.js("  "))
	}
	b.WriteString(d.treeJS(d.tree, "  "))
	b.WriteString("}")
	fun := b.String()
	f := formByName(d.form)
	switch f.rhs {
	case 'd':
		return top + "function " + name + fun + "\n"
	case 'n':
		return top + f.decl(name, "function entryImpl"+fun)
	}
	return top + f.decl(name, "function "+fun)
}

// stateless: no evaluation reads what an earlier evaluation on the same VM wrote — every read of a global
// sees a write of the same call or a name no call ever writes (a load-time constant, or nothing at all).
// Such a script answers a request the same on every VM, whatever the VM served before.
func (d dscript) stateless() bool {
	written := map[int]bool{}
	for _, s := range d.body {
		written[s.x] = true
		if s.k == 'L' {
			written[s.i] = true
		}
	}
	var walk func(t *tree, f func(*tree))
	walk = func(t *tree, f func(*tree)) {
		f(t)
		if t.k == 'I' {
			walk(t.t, f)
			walk(t.e, f)
		}
	}
	walk(d.tree, func(t *tree) {
		if t.k == 'V' {
			written[t.x] = true
		}
	})
	defd := map[int]bool{}
	ok := func(x int) bool { return defd[x] || !written[x] }
	for _, s := range d.body {
		switch s.k {
		case 'A':
			for _, x := range s.e.reads() {
				if !ok(x) {
					return false
				}
			}
			defd[s.x] = true
		case 'O':
			if !ok(s.x) {
				return false
			}
			defd[s.x] = true
		case 'L':
			for _, x := range s.e.reads() {
				if x != s.i && !ok(x) {
					return false
				}
			}
			defd[s.i] = true
			if s.n > 0 {
				defd[s.x] = true
			}
		}
	}
	res := true
	walk(d.tree, func(t *tree) {
		if t.k == 'G' && !ok(t.x) {
			res = false
		}
	})
	return res
}

// ---- generation ----

// shadowable: helpers no other predefined helper calls by name (Model: shadowHc).
var shadowable = []string{"isPlainHostName", "dnsDomainIs", "localHostOrDomainIs", "dnsDomainLevels", "shExpMatch", "isInNet", "isResolvable", "isResolvableEx", "myIpAddress"}

func leaves(t *tree) []*tree {
	if t.k == 'I' {
		return append(leaves(t.t), leaves(t.e)...)
	}
	return []*tree{t}
}

func genLitVal(r *core.Rand) val {
	switch r.Intn(10) {
	case 0:
		return vNum(int64(r.Intn(20)))
	case 1:
		return core.Pick(r, []val{vNull(), vUndef(), vBool(true), vBool(false)})
	case 2:
		return vStr(core.Pick(r, nonASCII))
	}
	return vStr(genGoodResult(r))
}

func octIf(r *core.Rand, pct int) int {
	if r.Chance(pct) {
		return 8
	}
	return 0
}

// genDScript wraps a generated decision tree. mode: "any" (state allowed), "stateless", "counter"
// (the only state that reaches an answer is a per-VM call counter that advances by one per call
// whatever the request: used with many concurrent callers, where the candidate histories of a VM
// cannot be enumerated).
func genDScript(r *core.Rand, h hint, t *tree, mode string) dscript {
	d := dscript{tree: t, ex: r.Chance(15), guards: 0}
	if r.Chance(50) {
		d.guards = r.Intn(16)
	}
	if r.Chance(35) {
		d.form = core.Pick(r, decoForms())
	}
	next := 0
	fresh := func() int { next++; return next - 1 }
	ls := leaves(t)
	pickLeaf := func() *tree { return core.Pick(r, ls) }
	setLeaf := func(l *tree, n tree) { *l = n }
	stmtStyle := func() int { return r.Intn(4) | octIf(r, 30) }

	// numeric literals of conditions as legacy octal
	var octConds func(t *tree)
	octConds = func(t *tree) {
		if t.k != 'I' {
			return
		}
		c := &t.cond
		for c.k == 'N' {
			c = c.n
		}
		if c.k == 'E' && c.v.k == 'n' && c.v.n >= 0 && r.Chance(50) {
			c.v.oct = true
		}
		octConds(t.t)
		octConds(t.e)
	}
	octConds(t)

	// spellings of plain leaves
	for _, l := range ls {
		if r.Chance(45) {
			l.style = r.Intn(nLeafStyles)
		}
	}

	// a load-time constant read by a leaf (or by nothing)
	if r.Chance(30) {
		p := fresh()
		d.prelude = append(d.prelude, stmt{k: 'A', x: p, e: gexpr{k: 'l', v: genLitVal(r)}, style: stmtStyle()})
		if r.Chance(80) {
			setLeaf(pickLeaf(), tree{k: 'G', x: p, asStr: r.Chance(30)})
		}
	}
	// a helper call at top level (literal arguments; naming url/host there is a ReferenceError)
	if r.Chance(10) {
		c := genCall(r, core.Pick(r, []string{"dnsDomainLevels", "isPlainHostName", "dnsDomainIs", "myIpAddress", "isInNet"}), h, false)
		for i, a := range c.args {
			if a.k != 'L' && !r.Chance(8) {
				c.args[i] = aLit(vStr(h.host))
			}
		}
		p := fresh()
		d.prelude = append(d.prelude, stmt{k: 'A', x: p, e: gexpr{k: 'k', c: c}, style: stmtStyle()})
		if r.Chance(60) {
			setLeaf(pickLeaf(), tree{k: 'G', x: p, asStr: true})
		}
	}
	// the per-VM call counter
	if mode == "counter" || (mode == "any" && r.Chance(35)) {
		c := fresh()
		if r.Bool() {
			d.prelude = append(d.prelude, stmt{k: 'A', x: c, e: gexpr{k: 'l', v: vNum(0)}, style: stmtStyle()})
		} else {
			d.body = append(d.body, stmt{k: 'O', x: c, v: vNum(0), style: stmtStyle()})
		}
		d.body = append(d.body, stmt{k: 'A', x: c, e: gexpr{k: 'p', x: c, n: 1}, style: stmtStyle()})
		n := 1
		if len(ls) > 2 {
			n = 2
		}
		for i := 0; i < n; i++ {
			setLeaf(pickLeaf(), tree{k: 'G', x: c, asStr: r.Chance(85)})
		}
	}
	// a loop over an undeclared counter, accumulating into an undeclared variable
	if r.Chance(45) {
		i, acc := fresh(), fresh()
		n := r.Range(0, 9)
		if r.Chance(80) || mode != "any" {
			d.body = append(d.body, stmt{k: 'A', x: acc, e: gexpr{k: 'l', v: core.Pick(r, []val{vNum(0), vNum(int64(r.Intn(5))), vStr("PROXY p"), vStr("")})}, style: stmtStyle()})
		} else if r.Bool() {
			// initialised once per VM: the accumulator keeps growing from call to call
			d.prelude = append(d.prelude, stmt{k: 'A', x: acc, e: gexpr{k: 'l', v: vNum(0)}, style: stmtStyle()})
		}
		var e gexpr
		switch r.Intn(4) {
		case 0:
			e = gexpr{k: 'p', x: i, n: int64(r.Intn(9))}
		case 1:
			e = gexpr{k: 'k', c: genCall(r, core.Pick(r, []string{"dnsDomainLevels", "isPlainHostName", "dnsResolve", "dnsDomainIs"}), h, false)}
		default:
			e = gexpr{k: 'p', x: acc, n: int64(r.Range(-2, 9))}
		}
		d.body = append(d.body, stmt{k: 'L', i: i, n: n, x: acc, e: e, style: stmtStyle()})
		switch r.Intn(4) {
		case 0:
			setLeaf(pickLeaf(), tree{k: 'G', x: i, asStr: r.Chance(80)})
		case 1, 2:
			setLeaf(pickLeaf(), tree{k: 'G', x: acc, asStr: r.Chance(80)})
		}
	}
	// a scratch variable assigned in front of the tree and returned by a leaf
	if r.Chance(35) {
		x := fresh()
		e := gexpr{k: 'l', v: genLitVal(r)}
		if r.Chance(30) {
			e = gexpr{k: 'k', c: genCall(r, core.Pick(r, helperNames), h, r.Chance(5))}
		}
		d.body = append(d.body, stmt{k: 'A', x: x, e: e, style: stmtStyle()})
		setLeaf(pickLeaf(), tree{k: 'G', x: x, asStr: r.Chance(40)})
	}
	// leaves that return through an undeclared scratch variable: `proxy = …; return proxy;`
	if r.Chance(45) {
		x := fresh()
		for _, l := range ls {
			if (l.k == 'R' || l.k == 'C' || l.k == 'S') && r.Chance(70) {
				inner := *l
				inner.style = leafPlain
				setLeaf(l, tree{k: 'V', x: x, t: &inner, style: r.Intn(3)})
			}
		}
		// what an earlier call left in it, read by another branch
		if mode == "any" && r.Chance(15) {
			setLeaf(pickLeaf(), tree{k: 'G', x: x, asStr: r.Chance(50)})
		}
	}
	// a read of a name nothing ever assigned: a ReferenceError in either mode
	if r.Chance(5) {
		y := fresh()
		if r.Chance(40) {
			d.prelude = append(d.prelude, stmt{k: 'A', x: fresh(), e: gexpr{k: 'p', x: y, n: 1}, style: stmtStyle()})
		} else if r.Bool() {
			d.body = append(d.body, stmt{k: 'A', x: fresh(), e: gexpr{k: 'g', x: y}, style: stmtStyle()})
		} else {
			setLeaf(pickLeaf(), tree{k: 'G', x: y, asStr: r.Bool()})
		}
	}
	// the script's own version of a predefined helper
	if r.Chance(20) {
		var used []string
		for _, c := range t.calls() {
			for _, s := range shadowable {
				if c.h == s {
					used = append(used, s)
				}
			}
		}
		n := r.Range(1, 2)
		seen := map[string]bool{}
		for i := 0; i < n; i++ {
			name := core.Pick(r, shadowable)
			if len(used) > 0 && r.Chance(80) {
				name = core.Pick(r, used)
			}
			if seen[name] {
				continue
			}
			seen[name] = true
			d.shadow = append(d.shadow, shadowT{h: name, v: core.Pick(r, []val{vBool(true), vBool(false), vStr("10.1.2.3"), vNum(int64(r.Intn(4))), vNull()})})
		}
	}
	// shuffle the order of the statements in front of the tree a little: independent statements commute,
	// dependent ones turn into reads of names that are not assigned yet (the model follows either way)
	if mode == "any" && len(d.body) > 1 && r.Chance(10) {
		i := r.Intn(len(d.body) - 1)
		d.body[i], d.body[i+1] = d.body[i+1], d.body[i]
	}
	return d
}

// ---- the case ----

type decoCase struct {
	Kind      string   `json:"kind"` // "deco"
	DS        []string `json:"ds_wire"`
	Script    string   `json:"script_js"`
	Reqs      []reqT   `json:"reqs"`
	Env       envT     `json:"env"`
	Stateless bool     `json:"stateless"`
}

func genDecoCase(r *core.Rand) decoCase {
	n := r.Range(1, 4)
	var reqs []reqT
	var effs []string
	for i := 0; i < n; i++ {
		q, eff := genReq(r)
		if i > 0 && r.Chance(40) {
			j := r.Intn(i)
			q, eff = reqs[j], effs[j]
		}
		reqs = append(reqs, q)
		effs = append(effs, eff)
	}
	env := genEnv(r, effs...)
	k := r.Intn(n)
	h := hint{host: effs[k], url: reqs[k].URL, env: env}
	if u, err := url.Parse(h.url); err == nil {
		h.url = u.String()
	}
	mode := "any"
	if r.Chance(30) {
		mode = "stateless"
	}
	d := genDScript(r, h, genTree(r, h, r.Range(0, 3)), mode)
	return decoCase{Kind: "deco", DS: d.wire(), Script: d.js(), Reqs: reqs, Env: env, Stateless: d.stateless()}
}

// compact answers of the evald verbs: no blanks
func compactAnswer(a string) string { return strings.Replace(a, " ", ":", 1) }

func showCompact(a string) string {
	if strings.HasPrefix(a, "ok:") {
		return fmt.Sprintf("ok %q", unhexS(a[3:]))
	}
	return strings.Replace(a, ":", " ", 1)
}

func showCompacts(as []string) string {
	out := make([]string, len(as))
	for i, a := range as {
		out[i] = showCompact(a)
	}
	return "[" + strings.Join(out, ", ") + "]"
}

func reqsWire(reqs []reqT) string {
	var es []string
	for _, q := range reqs {
		es = append(es, core.JoinList(reqWire(q)))
	}
	return core.JoinList2(es)
}

// loadKind folds the load errors of the implementation to what the model distinguishes.
func loadKind(a string) string {
	if strings.HasPrefix(a, "load other") {
		return "load throw"
	}
	return a
}

// runResolver evaluates the requests one at a time on a stand-alone resolver or through a pool.
func runResolver(script string, env envT, reqs []reqT, usePool bool) (load string, answers []string, crash string) {
	defer func() {
		if p := recover(); p != nil {
			crash = fmt.Sprintf("panic %v", p)
		}
	}()
	var find func(u *url.URL, host string) (string, error)
	if usePool {
		pool, err := pac.NewProxyResolverPool(env.config(script), nil)
		if err != nil {
			return canonLoadErr(err), nil, ""
		}
		find = pool.FindProxyForURL
	} else {
		pr, err := pac.NewProxyResolver(env.config(script), nil)
		if err != nil {
			return canonLoadErr(err), nil, ""
		}
		find = pr.FindProxyForURL
	}
	for _, q := range reqs {
		u, err := url.Parse(q.URL)
		if err != nil {
			core.Fatalf("C14: generated URL does not parse: %q", q.URL)
		}
		answers = append(answers, compactAnswer(canonAnswer(find(u, q.HostArg))))
	}
	return "ok", answers, ""
}

type evaldAnswer struct {
	load string     // "ok" | "load throw" | "load unmodelled"
	seq  []string   // a single resolver, one request at a time
	poss [][]string // per request: the answers after any sub-sequence of the requests before it
}

func askEvald(ctx *core.Ctx, verb string, ds []string, reqs []reqT, env envT) evaldAnswer {
	f := append([]string{"C14", verb}, ds...)
	f = append(f, reqsWire(reqs))
	f = append(f, env.wire()...)
	ans := ctx.Model.MustAsk(f...)
	if strings.HasPrefix(ans, "load ") {
		return evaldAnswer{load: ans}
	}
	fs := strings.Fields(ans)
	if len(fs) != 3 || fs[0] != "ok" || !strings.HasPrefix(fs[1], "seq=") || !strings.HasPrefix(fs[2], "poss=") {
		core.Fatalf("C14: %s: unexpected answer %q", verb, ans)
	}
	out := evaldAnswer{load: "ok", seq: core.SplitList2(fs[1][4:])}
	for _, p := range core.SplitList2(fs[2][5:]) {
		out.poss = append(out.poss, core.SplitList(p))
	}
	return out
}

func contains(xs []string, x string) bool {
	for _, y := range xs {
		if x == y {
			return true
		}
	}
	return false
}

const (
	clauseDecoSingle = "FindProxyForURL yields what the script specifies (sloppy-mode ES5: undeclared assignments create globals that live as long as the VM, the script's own functions replace predefined helpers) under the specified helper semantics"
	clauseDecoLoad   = "constructing the resolver pool succeeds exactly when constructing a single resolver does"
	clauseDecoPool   = "the pool (one caller) gives the answers of a single resolver: every answer is what a single resolver answers after some sub-sequence of the earlier requests"
)

func checkDeco(ctx *core.Ctx, c decoCase) {
	sLoad, sAns, sCrash := runResolver(c.Script, c.Env, c.Reqs, false)
	pLoad, pAns, pCrash := runResolver(c.Script, c.Env, c.Reqs, true)
	model := askEvald(ctx, "evald", c.DS, c.Reqs, c.Env)
	spec := askEvald(ctx, "evaldspec", c.DS, c.Reqs, c.Env)

	ctx.Case("deco:"+strings.Join(c.DS, " ")+"|"+reqsWire(c.Reqs)+"|"+strings.Join(c.Env.wire(), " "), true)
	if c.Stateless {
		ctx.Count("deco/stateless")
	} else {
		ctx.Count("deco/with-per-VM-state")
	}
	for _, f := range []struct{ label, sub string }{
		{"implicit-global-assignment", " = "}, {"undeclared-loop-counter", "for (g"}, {"undeclared-loop-counter", "while (g"},
		{"with-statement", "with ("}, {"duplicate-parameter-names", "pick(0"}, {"arguments.callee", "arguments.callee"},
		{"arguments-aliasing", "arguments[0] ="}, {"this-is-global-object", "this."}, {"eval-var", "eval("},
		{"legacy-octal-literal", " 0"}, {"own-helper-function", "() { return "}, {"typeof-undeclared", "typeof g"},
		{"function-length", ".length !== 2"}, {"entry-point-let-or-const", "\nlet Find"}, {"entry-point-let-or-const", "\nconst Find"},
		{"entry-point-assigned", "\nFindProxyForURL"}, {"entry-point-assigned", "\nthis.Find"}, {"entry-point-assigned", "\nvar Find"},
		{"entry-point-assigned", "\nObject.defineProperty(this, \"Find"}, {"entry-point-in-block-or-function-or-eval", "\n  FindProxyForURL"},
		{"entry-point-in-block-or-function-or-eval", "\n  var Find"}, {"entry-point-in-block-or-function-or-eval", "\n  this.Find"},
		{"entry-point-in-block-or-function-or-eval", "\n  g.Find"}, {"entry-point-in-block-or-function-or-eval", "\neval(\"var Find"},
	} {
		body := c.Script[strings.Index(c.Script, "\n"):]
		if f.label == "legacy-octal-literal" {
			// a digit after " 0" / "(0": 010, 07
			found := false
			for i := 0; i+2 < len(body); i++ {
				if (body[i] == ' ' || body[i] == '(') && body[i+1] == '0' && body[i+2] >= '0' && body[i+2] <= '7' {
					found = true
				}
			}
			if found {
				ctx.Count("deco/form/" + f.label)
			}
			continue
		}
		if strings.Contains(body, f.sub) {
			ctx.Count("deco/form/" + f.label)
		}
	}
	if sCrash != "" || pCrash != "" {
		ctx.Crash("evaluation never panics", "", c, "single resolver: "+sCrash+"; pool: "+pCrash)
		return
	}
	if model.load == "load unmodelled" {
		ctx.Count("deco/unmodelled")
		return
	}
	ctx.Count("deco/load/" + loadKind(sLoad))
	// --- loading ---
	if loadKind(sLoad) != model.load {
		ctx.Disagree("NewProxyResolver = Model.C14.loadD (the prelude runs on a fresh global object)", c, sLoad, model.load)
	}
	if spec.load != "load unmodelled" && loadKind(sLoad) != spec.load {
		ctx.SpecFail(clauseDecoSingle, "", c, "single resolver: "+sLoad, "specification: "+spec.load)
	}
	if loadKind(pLoad) != loadKind(sLoad) {
		ctx.SpecFail(clauseDecoLoad, "", c, "pool: "+pLoad, "single resolver: "+sLoad)
		return
	}
	if sLoad != "ok" || model.load != "ok" {
		if sLoad != "ok" && model.load != "ok" {
			ctx.TraceValidated()
		}
		return
	}
	// --- a single resolver, one request at a time ---
	for i := range c.Reqs {
		if model.seq[i] == "unmodelled" {
			ctx.Count("deco/unmodelled")
			break
		}
		ctx.Count("deco/answer/" + answerKind(showCompact(sAns[i])))
		if sAns[i] != model.seq[i] {
			ctx.Disagree("FindProxyForURL = Model.C14.callD (statements, decorated tree, checkResult) on the globals the earlier calls left", c,
				fmt.Sprintf("req %d: %s", i, showCompact(sAns[i])), showCompact(model.seq[i]))
		}
		if spec.load == "ok" && spec.seq[i] != "na" {
			if sAns[i] != spec.seq[i] {
				ctx.SpecFail(clauseDecoSingle, "", c, fmt.Sprintf("req %d: single resolver %s", i, showCompact(sAns[i])), "specification: "+showCompact(spec.seq[i]))
			} else {
				ctx.TraceValidated()
			}
		}
	}
	// --- the same requests through the pool, one caller ---
	for i := range c.Reqs {
		cands := model.poss[i]
		if contains(cands, "unmodelled") {
			break
		}
		if c.Stateless && len(cands) != 1 {
			core.Fatalf("C14: a script classified stateless has %d possible answers for request %d in the model: %s\n%s", len(cands), i, showCompacts(cands), c.Script)
		}
		if len(cands) > 1 {
			ctx.Count("deco/pool/answer-depends-on-history")
		}
		if !contains(cands, pAns[i]) {
			ctx.SpecFail(clauseDecoPool, "", c, fmt.Sprintf("req %d (%s): pool %s", i, c.Reqs[i].URL, showCompact(pAns[i])),
				"a single resolver answers one of "+showCompacts(cands)+fmt.Sprintf("; the stand-alone resolver answered %s", showCompact(sAns[i])))
		} else {
			ctx.TraceValidated()
		}
	}
}

// ---- decorated scripts under many concurrent callers (child process, see checkPool) ----

// genDecoPoolCase: requests as in genPoolCase, the script decorated; either stateless (every caller must get the
// answer of the request asked alone) or with a per-VM call counter (every caller must get an answer a single
// resolver gives to that request after some number of earlier evaluations).
func genDecoPoolCase(r *core.Rand, callers, rounds int) poolCase {
	c := genPoolCase(r, callers, rounds)
	k := r.Intn(len(c.Reqs))
	h := hint{host: c.Reqs[k].HostArg, url: c.Reqs[k].URL, env: c.Env}
	if u, err := url.Parse(c.Reqs[k].URL); err == nil {
		h.url = u.String()
		if h.host == "" {
			h.host = u.Hostname()
		}
	}
	mode := "stateless"
	if r.Chance(40) {
		mode = "counter"
	}
	d := genDScript(r, h, c.tree, mode)
	c.DS, c.Script, c.Fn = d.wire(), d.js(), ""
	c.Counter = !d.stateless()
	if mode == "stateless" && c.Counter {
		core.Fatalf("C14: genDScript(stateless) produced a script with state:\n%s", c.Script)
	}
	return c
}

// decoPoolModel: per request the answer of a single resolver asked the requests in order, and the answers a
// pool caller may get.
func decoPoolModel(ctx *core.Ctx, c poolCase, calls int) (seq []string, cands [][]string) {
	m := askEvald(ctx, "evald", c.DS, c.Reqs, c.Env)
	if m.load != "ok" {
		return nil, nil
	}
	seq = m.seq
	for i, q := range c.Reqs {
		if !c.Counter {
			one := askEvald(ctx, "evald", c.DS, []reqT{q}, c.Env)
			cands = append(cands, []string{one.seq[0]})
			if seq[i] != "unmodelled" && one.seq[0] != seq[i] {
				core.Fatalf("C14: a script classified stateless answers request %d differently alone (%s) and in sequence (%s)\n%s", i, one.seq[0], seq[i], c.Script)
			}
			continue
		}
		f := append([]string{"C14", "evaldrep"}, c.DS...)
		f = append(f, reqsWire([]reqT{q}), strconv.Itoa(calls))
		f = append(f, c.Env.wire()...)
		ans := ctx.Model.MustAsk(f...)
		if !strings.HasPrefix(ans, "ok ") {
			core.Fatalf("C14: evaldrep: unexpected answer %q", ans)
		}
		cands = append(cands, core.SplitList(ans[3:]))
	}
	return seq, cands
}
