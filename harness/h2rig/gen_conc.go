package h2rig

import (
	"github.com/saucelabs/forwarder/verifharness/core"
)

// Concurrent family (see rig_burst.go): Params.Conc bursts on one relay instance.  Every burst has a
// header block of 32-512 KiB of header fields - 3 to 30 frames at the receiver's MAX_FRAME_SIZE -
// travelling x→y, and provokes the other two writers of y's connection while the relay's writer
// goroutine is putting that block on the wire:
//
//	own     frames of x right behind the block that the relay's reader goroutine answers by writing
//	        to y directly: PING, PING ack, SETTINGS, SETTINGS ack, GOAWAY
//	peer    DATA written by y, started by the arrival of the block's first frame: the peer relay
//	        acknowledges each one with two WINDOW_UPDATE frames on y's connection
//	both    the two together, y adding PINGs and WINDOW_UPDATEs of its own
//	duel    a second large block y→x at the same time, each followed by PINGs
//
// in both directions (y = the pipe of the client side, y = the TLS connection of the server side), for
// request / response HEADERS with and without priority and END_STREAM, trailers, and PUSH_PROMISE (sent
// in one frame under a frame size limit its receiver has lowered since and the sender has not
// acknowledged yet, so that the relay is the one that splits it).

func bigFields(r *core.Rand, total int) []Field {
	var fs []Field
	for total > 0 {
		l := r.Range(200, 9000)
		if l > total {
			l = total
		}
		fs = append(fs, Field{N: core.Pick(r, fieldNames), VLen: l, VSeed: uint32(r.U64()), Sens: r.Chance(5)})
		total -= l
	}
	return represent(core.NewRand(r.Seed()^0x6870_6163_6b72_6570), fs)
}

func generateConc(seed uint64, p Params, run *Runner) {
	r := core.NewRand(seed)
	do := func(op Op) bool { return run.Do(op) }
	const big = 1 << 30
	// preamble: every window is open from the start (nothing is ever held by flow control here)
	for _, s := range []string{"c", "s"} {
		kvs := [][2]uint32{{4, big}}
		if r.Chance(40) {
			kvs = append(kvs, [2]uint32{3, uint32(r.Range(10, 1000))})
		}
		if r.Chance(30) {
			kvs = append([][2]uint32{{1, uint32(core.Pick(r, []int{0, 4096, 16384}))}}, kvs...)
		}
		if !do(Op{Side: s, Kind: "set", Settings: kvs}) || !do(Op{Side: other(s), Kind: "ack"}) || !do(Op{Side: s, Kind: "wu", Sid: 0, Inc: big}) {
			return
		}
	}
	small := func(request bool) []Field {
		if request {
			return []Field{{N: ":method", V: "POST"}, {N: ":scheme", V: "https"}, {N: ":path", V: "/" + core.Pick(r, []string{"a", "svc/Method", "upload"})}, {N: ":authority", V: "origin.test"}}
		}
		return []Field{{N: ":status", V: core.Pick(r, []string{"200", "204"})}}
	}
	// carrier streams: open in both directions for the whole case
	carriers := []uint32{1, 3}
	for _, sid := range carriers {
		if !do(Op{Side: "c", Kind: "hdr", Sid: sid, Fields: small(true), Cut: -1}) || !do(Op{Side: "s", Kind: "hdr", Sid: sid, Fields: small(false), Cut: -1}) {
			return
		}
	}
	next, nextPush := uint32(5), uint32(2)
	var pingSeq uint64
	direct := func(n int) []Op {
		var ops []Op
		for i := 0; i < n; i++ {
			pingSeq++
			switch x := r.Intn(20); {
			case x < 11:
				ops = append(ops, Op{Kind: "ping", PingData: pingSeq})
			case x < 14:
				ops = append(ops, Op{Kind: "ping", Ack: true, PingData: pingSeq})
			case x < 16:
				ops = append(ops, Op{Kind: "set", Settings: [][2]uint32{{uint32(core.Pick(r, []int{3, 0x99})), uint32(r.Range(100, 100000))}}})
			case x < 18:
				ops = append(ops, Op{Kind: "ack"})
			case x < 19:
				ops = append(ops, Op{Kind: "wu", Sid: core.Pick(r, carriers), Inc: uint32(r.Range(1, 1000))})
			default:
				ops = append(ops, Op{Kind: "goaway", Last: 1<<31 - 1, Code: 0, DebugLen: core.Pick(r, []int{0, 8})})
			}
		}
		return ops
	}
	datas := func(n int) []Op {
		var ops []Op
		for i := 0; i < n; i++ {
			ops = append(ops, Op{Kind: "data", Sid: core.Pick(r, carriers), Len: r.Range(1, 400), DataSeed: uint32(r.U64())})
		}
		return ops
	}
	for round := 0; round < p.Conc; round++ {
		x := core.Pick(r, []string{"c", "s"})
		y := other(x)
		total := core.Pick(r, []int{32, 48, 64, 96, 128, 200, 300, 400, 512}) << 10
		sid := next
		next += 2
		var block Op
		kind := r.Intn(10)
		switch {
		case kind < 2:
			// PUSH_PROMISE in ONE frame: y allowed 1 MiB frames, x acknowledged, y lowered the limit again and
			// x's acknowledgement is still to come (a lowered limit binds the sender once it has acknowledged)
			if !do(Op{Side: y, Kind: "set", Settings: [][2]uint32{{5, 1 << 20}}}) || !do(Op{Side: x, Kind: "ack"}) ||
				!do(Op{Side: y, Kind: "set", Settings: [][2]uint32{{5, 16384}}}) {
				return
			}
			if total > 700<<10 {
				total = 700 << 10
			}
			block = Op{Kind: "pp", Sid: core.Pick(r, carriers), Promised: nextPush, Fields: append(small(true), bigFields(r, total)...), Cut: -1}
			nextPush += 2
		case kind < 4:
			// trailers: both sides have opened the stream; the block ends it for x
			if !do(Op{Side: "c", Kind: "hdr", Sid: sid, Fields: small(true), Cut: -1}) || !do(Op{Side: "s", Kind: "hdr", Sid: sid, Fields: small(false), Cut: -1}) {
				return
			}
			block = Op{Kind: "hdr", Sid: sid, Fields: bigFields(r, total), Cut: -1, ES: true}
		default:
			if x == "s" {
				if !do(Op{Side: "c", Kind: "hdr", Sid: sid, Fields: small(true), Cut: -1, ES: r.Chance(50)}) {
					return
				}
			}
			block = Op{Kind: "hdr", Sid: sid, Fields: append(small(x == "c"), bigFields(r, total)...), Cut: -1, ES: r.Chance(30)}
			if r.Chance(30) {
				block.Dep, block.Excl, block.Weight = uint32(r.Intn(8)), r.Chance(30), uint8(r.Range(1, 255))
			}
			if r.Chance(25) {
				block.Cut = core.Pick(r, []int{0, 1, 100, 5000}) // the sender's own first fragment is short
			}
		}
		b := Op{Side: x, Kind: "burst"}
		switch mode := r.Intn(10); {
		case mode < 4: // own
			b.Main = append([]Op{block}, direct(r.Range(8, 24))...)
			if r.Chance(30) {
				b.Cross, b.Trig = direct(r.Range(1, 6)), true
			}
		case mode < 7: // peer
			b.Main = []Op{block}
			b.Cross, b.Trig = datas(r.Range(8, 24)), true
		case mode < 9: // both
			b.Main = append([]Op{block}, direct(r.Range(6, 16))...)
			b.Cross, b.Trig = datas(r.Range(6, 16)), true
			for i := 0; i < 4; i++ {
				j := r.Intn(len(b.Cross) + 1)
				b.Cross = append(b.Cross[:j:j], append(direct(1), b.Cross[j:]...)...)
			}
		default: // duel
			sid2 := next
			next += 2
			if y == "s" {
				if !do(Op{Side: "c", Kind: "hdr", Sid: sid2, Fields: small(true), Cut: -1}) {
					return
				}
			}
			block2 := Op{Kind: "hdr", Sid: sid2, Fields: append(small(y == "c"), bigFields(r, core.Pick(r, []int{32, 64, 128, 256})<<10)...), Cut: -1}
			b.Main = append([]Op{block}, direct(r.Range(6, 16))...)
			b.Cross = append([]Op{block2}, direct(r.Range(6, 16))...)
		}
		if r.Chance(30) {
			// queue-path frames of x behind the block (same writer goroutine: they can only follow it)
			b.Main = append(b.Main, Op{Kind: "data", Sid: core.Pick(r, carriers), Len: r.Range(1, 2000), DataSeed: uint32(r.U64())},
				Op{Kind: "prio", Sid: core.Pick(r, carriers), Dep: uint32(r.Intn(8)), Weight: uint8(r.Intn(256))})
		}
		if r.Chance(50) {
			b.SlowUs = core.Pick(r, []int{50, 100, 200, 400})
		}
		if !do(b) {
			return
		}
		if block.Kind == "pp" && !do(Op{Side: x, Kind: "ack"}) {
			return
		}
	}
	// epilogue as in generate: after it nothing may be left in the relay
	for _, s := range []string{"c", "s"} {
		if !do(Op{Side: s, Kind: "wu", Sid: 0, Inc: 1 << 20}) {
			return
		}
	}
	run.res.Final = true
}
