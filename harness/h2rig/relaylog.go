package h2rig

import (
	"context"
	"fmt"
	"sync"

	mlog "github.com/saucelabs/forwarder/internal/martian/log"
)

// relayLog collects what the relay reports through martian's logger (errors that end a relay
// direction are only logged, `Proxy` returns nil), for diagnostics in results.
type relayLog struct {
	mu   sync.Mutex
	msgs []string
}

var theRelayLog = &relayLog{}

func installRelayLog() { mlog.SetLogger(theRelayLog) }

func (l *relayLog) add(level, msg string, args ...any) {
	l.mu.Lock()
	if len(l.msgs) < 20 {
		l.msgs = append(l.msgs, level+": "+msg+" "+fmt.Sprint(args...))
	}
	l.mu.Unlock()
}

func (l *relayLog) take() []string {
	l.mu.Lock()
	defer l.mu.Unlock()
	m := l.msgs
	l.msgs = nil
	return m
}

func (l *relayLog) ErrorContext(_ context.Context, msg string, args ...any) {
	l.add("error", msg, args...)
}
func (l *relayLog) WarnContext(_ context.Context, msg string, args ...any) {
	l.add("warn", msg, args...)
}
func (l *relayLog) InfoContext(_ context.Context, msg string, args ...any)  {}
func (l *relayLog) DebugContext(_ context.Context, msg string, args ...any) {}
func (l *relayLog) With(args ...any) mlog.StructuredLogger                  { return l }
