package h2rig

import (
	"net/url"
	"sync"

	"github.com/saucelabs/forwarder/internal/martian/h2"
	"golang.org/x/net/http2"
	"golang.org/x/net/http2/hpack"
)

// The rig's own writer of HPACK literals that leave the dynamic table alone (RFC 7541 6.2.2 literal
// without indexing, 6.2.3 literal never indexed).  x/net's hpack.Encoder picks one representation per
// field by itself (never indexed only for Sensitive, always with the name index it finds, Huffman only
// where shorter); curl / nghttp2 / browsers pick differently.  Because these two representations do
// not touch the dynamic table they can be written between fields of the endpoint's hpack.Encoder
// without disturbing its state.

var (
	staticOnce sync.Once
	staticName map[string]uint64 // smallest static-table index carrying the name
)

// staticIndex: the static table (RFC 7541 appendix A) read back from x/net's decoder.
func staticIndex(name string) (uint64, bool) {
	staticOnce.Do(func() {
		staticName = map[string]uint64{}
		dec := hpack.NewDecoder(0, nil)
		for i := 61; i >= 1; i-- {
			fs, err := dec.DecodeFull([]byte{0x80 | byte(i)})
			if err != nil || len(fs) != 1 {
				panic("h2rig: static table entry not decoded")
			}
			staticName[fs[0].Name] = uint64(i)
		}
	})
	i, ok := staticName[name]
	return i, ok
}

// appendVarInt: RFC 7541 5.1 with an n-bit prefix; the bits above the prefix of the first octet are `pat`.
func appendVarInt(dst []byte, pat byte, n uint, i uint64) []byte {
	k := uint64(1)<<n - 1
	if i < k {
		return append(dst, pat|byte(i))
	}
	dst = append(dst, pat|byte(k))
	i -= k
	for ; i >= 128; i >>= 7 {
		dst = append(dst, byte(0x80|(i&0x7f)))
	}
	return append(dst, byte(i))
}

// appendHString: RFC 7541 5.2; huff 0 = Huffman where shorter, 1 = always, 2 = never.
func appendHString(dst []byte, s string, huff int) []byte {
	hl := hpack.HuffmanEncodeLength(s)
	if huff == 1 || (huff == 0 && hl < uint64(len(s))) {
		dst = appendVarInt(dst, 0x80, 7, hl)
		return hpack.AppendHuffmanString(dst, s)
	}
	dst = appendVarInt(dst, 0, 7, uint64(len(s)))
	return append(dst, s...)
}

// appendRawField writes f as a literal never indexed (Sens) or without indexing.
func appendRawField(dst []byte, f Field) []byte {
	pat := byte(0x00)
	if f.Sens {
		pat = 0x10
	}
	if idx, ok := staticIndex(f.N); ok && !f.NameLit {
		dst = appendVarInt(dst, pat, 4, idx)
	} else {
		dst = append(dst, pat)
		dst = appendHString(dst, f.N, f.Huff)
	}
	return appendHString(dst, f.Value(), f.Huff)
}

// repLabel names the representation a field is sent in (input histogram).
func repLabel(f Field) string {
	if !f.Raw {
		if f.Sens {
			return "x-net-encoder/never-indexed"
		}
		return "x-net-encoder/indexed-or-incremental-or-without-indexing"
	}
	l := "raw/without-indexing"
	if f.Sens {
		l = "raw/never-indexed"
	}
	if _, ok := staticIndex(f.N); ok && !f.NameLit {
		l += "/name-indexed"
	} else {
		l += "/name-literal"
	}
	return l + []string{"/huffman-where-shorter", "/huffman-always", "/huffman-never"}[f.Huff%3]
}

// passThrough is a stream processor that hands every call to the sink of its direction unchanged.
type passThrough struct{ sink h2.Processor }

func (p passThrough) Data(data []byte, streamEnded bool) error { return p.sink.Data(data, streamEnded) }
func (p passThrough) Header(headers []hpack.HeaderField, streamEnded bool, priority http2.PriorityParam) error {
	return p.sink.Header(headers, streamEnded, priority)
}
func (p passThrough) Priority(pp http2.PriorityParam) error { return p.sink.Priority(pp) }
func (p passThrough) RSTStream(c http2.ErrCode) error       { return p.sink.RSTStream(c) }
func (p passThrough) PushPromise(id uint32, headers []hpack.HeaderField) error {
	return p.sink.PushPromise(id, headers)
}

// relayConfig renders the options of a case as the h2.Config the relay is started with.
func relayConfig(p Params) *h2.Config {
	cfg := &h2.Config{RootCAs: tlsRoots, EnableDebugLogs: p.DebugLogs}
	bypass := func(*url.URL, *h2.Processors) (h2.Processor, h2.Processor) { return nil, nil }
	pass := func(_ *url.URL, sinks *h2.Processors) (h2.Processor, h2.Processor) {
		return passThrough{sinks.ForDirection(h2.ClientToServer)}, passThrough{sinks.ForDirection(h2.ServerToClient)}
	}
	switch p.Procs {
	case 1:
		cfg.StreamProcessorFactories = []h2.StreamProcessorFactory{bypass}
	case 2:
		cfg.StreamProcessorFactories = []h2.StreamProcessorFactory{pass}
	case 3:
		cfg.StreamProcessorFactories = []h2.StreamProcessorFactory{pass, bypass}
	}
	return cfg
}
