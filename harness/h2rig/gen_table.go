package h2rig

import (
	"fmt"

	"github.com/saucelabs/forwarder/verifharness/core"
)

// Table-size episodes (Params.TblEpisodes).
//
// SETTINGS_HEADER_TABLE_SIZE of endpoint A governs the HPACK encoder of its peer B - through the
// relay: the relay's decoder of B's blocks has to follow B's encoder, and B's encoder follows a
// setting only from the moment B has received (and acknowledges) it (RFC 7540 6.5.3, RFC 7541 4.2).
// The relay applies a SETTINGS frame the moment it reads it.  An episode visits the schedules in which
// that difference shows:
//
//	A raises HEADER_TABLE_SIZE above the 4096 default (8192, 16384, 65536);
//	B's raw encoder takes it up (Params.TblAdopt; without it it stays at 4096 the way net/http and
//	    grpc-go do): its next block begins with the dynamic table size update (RFC 7541 6.3), its
//	    entries fill the table beyond 4096 octets and later blocks refer to them by index;
//	A lowers the setting again (4096, 1024, 0) - received by B at once, or late: B's next block is
//	    "in flight", encoded under the old size.  That block begins with the update to the old, larger
//	    size when B had not signalled it yet ("pending") or signals it again ("resignal": an encoder
//	    may restate its size at the start of any block), and B's acknowledgement goes out before or
//	    after it;
//	B applies the lower size: its next block begins with that update.
//
// What has to arrive is decided by the unchanged relay's way of keeping its decoder (dirState.relayDec):
// a block that decoder decodes - every block made of fields new to B's table, whatever size update it
// begins with - must be delivered with its list (fidelity, delivery); only a block that refers to an
// entry the early decrease evicted is the recorded class F15.  Between two blocks of B the table size
// changes at most once downwards-then-upwards (x/net's Decoder - the relay's and the raw endpoints' -
// takes one update at the start of a block unless its table is empty).
func (g *gen) tableEpisode(do func(Op) bool) bool {
	r := g.r
	var cands []string
	for _, s := range []string{"c", "s"} {
		if !g.rcv[s].tbl0 {
			cands = append(cands, s)
		}
	}
	wasTbl0 := len(cands) == 0
	if wasTbl0 {
		cands = []string{"c", "s"}
	}
	a := core.Pick(r, cands)
	b := other(a)
	sid := g.newStream(b)
	g.snd[b].opened[sid] = true

	// fields new to every table: the value is unique, the name is one of the static table (the encoder
	// then names it by its static index) or unique as well - such a block refers to no dynamic entry
	fresh := func(n, lo, hi int) []Field {
		fs := make([]Field, n)
		for i := range fs {
			name := core.Pick(r, []string{"accept", "accept-encoding", "cookie", "content-type", "user-agent", "etag", "cache-control", "authorization"})
			if r.Chance(40) {
				name = fmt.Sprintf("x-u%08x", uint32(r.U64()))
			}
			fs[i] = Field{N: name, VLen: r.Range(lo, hi), VSeed: uint32(r.U64())}
		}
		return fs
	}
	block := func(fs []Field, es bool, upd *uint32) bool {
		op := Op{Side: b, Kind: "hdr", Sid: sid, Fields: fs, Cut: -1, ES: es, TblUpd: upd}
		if r.Chance(25) {
			op.Cut = core.Pick(r, []int{1, 3, 30, 200, 1000})
		}
		if es {
			g.snd[b].closed[sid] = true
		}
		if !do(op) {
			return false
		}
		for g.snd[b].cont {
			if !do(g.contOp(b)) {
				return false
			}
		}
		return true
	}

	// B's encoder (and the relay's towards A) owe no size update when the episode begins
	if g.rcv[a].tblPending && !block(fresh(1, 5, 40), false, nil) {
		return false
	}
	raised := uint32(core.Pick(r, []int{8192, 16384, 65536}))
	lowered := uint32(core.Pick(r, []int{4096, 1024, 0}))
	if wasTbl0 {
		lowered = 0 // A goes back to what it announced: the relay's encoder towards it stays stateless afterwards
	}
	shape := core.Pick(r, []string{"used", "used", "pending", "resignal"})
	late := r.Chance(80)
	ackFirst := r.Chance(50)

	if !do(Op{Side: a, Kind: "set", Settings: [][2]uint32{{1, raised}}}) {
		return false
	}
	if r.Chance(70) && !do(Op{Side: b, Kind: "ack"}) {
		return false
	}
	var fill []Field
	if shape != "pending" {
		// begins with the update to the raised size; 4-9 KiB of entries
		fill = fresh(r.Range(10, 16), 300, 600)
		if !block(fill, false, nil) {
			return false
		}
		if shape == "used" && r.Chance(70) {
			// the oldest entries lie beyond the first 4096 octets of the table now: indexed references to them
			if !block(append(append([]Field(nil), fill...), fresh(r.Range(0, 2), 5, 60)...), false, nil) {
				return false
			}
		}
	}
	if !do(Op{Side: a, Kind: "set", Settings: [][2]uint32{{1, lowered}}, LateApply: late}) {
		return false
	}
	if ackFirst && !do(Op{Side: b, Kind: "ack"}) {
		return false
	}
	// the block in flight
	inFlight := fresh(r.Range(1, 6), 5, 300)
	if len(fill) > 0 && r.Chance(12) {
		inFlight = append(inFlight, fill[r.Intn(len(fill))]) // refers to an entry of the large table
	}
	var upd *uint32
	if shape == "resignal" {
		v := raised
		upd = &v
	}
	if !block(inFlight, false, upd) {
		return false
	}
	if !ackFirst && !do(Op{Side: b, Kind: "ack"}) {
		return false
	}
	// B has applied the lower size by now: update, what is left of the table, new entries
	if !block(append(append([]Field(nil), inFlight...), fresh(r.Range(1, 3), 5, 200)...), false, nil) {
		return false
	}
	if !block(fresh(r.Range(0, 3), 5, 100), true, nil) {
		return false
	}
	g.rcv[a].tbl0 = lowered == 0
	return true
}
