package h2rig

import (
	"crypto/sha256"
	"encoding/json"
	"fmt"
	"runtime"
	"strconv"
	"strings"
	"sync"
	"sync/atomic"

	"github.com/saucelabs/forwarder/verifharness/core"
)

// clauses of the Lean checker (`H2.check`) owned by each property
var clausesOf = map[string]map[string]string{
	"C09": {
		"ledger-stream":   "DATA forwarded on a stream never exceeds the credit the receiver granted for it",
		"ledger-conn":     "DATA forwarded on the connection never exceeds the credit the receiver granted",
		"frame-size":      "no frame is larger than the receiver's SETTINGS_MAX_FRAME_SIZE",
		"credit":          "every flow-controlled octet accepted from a sender is credited back on stream and connection",
		"credit-spurious": "credit is returned for accepted DATA only",
	},
	"C10": {
		"fidelity":    "every stream's logical elements (header lists, DATA, END_STREAM, RST_STREAM code, PUSH_PROMISE) arrive unchanged and in order",
		"framing":     "header blocks arrive as HEADERS/PUSH_PROMISE + contiguous CONTINUATION frames",
		"conn-frames": "SETTINGS, their acknowledgements, PING and GOAWAY are relayed one for one",
		"strand":      "no queued frame is held back while the receiver's windows permit it",
		"delivery":    "once every window is open every queued frame is delivered",
	},
}

// Sample is the trimmed form of a case written to the evidence file.
type Sample struct {
	Seed   uint64   `json:"seed"`
	Params Params   `json:"params"`
	NOps   int      `json:"n_ops"`
	First  []string `json:"first_steps"`
}

// hasSetting: the value of identifier id that a SETTINGS frame puts in force - its LAST occurrence
// (RFC 7540 6.5.3: the values are processed in the order in which they appear).
func hasSetting(op *Op, id uint32) (v uint32, ok bool) {
	for _, kv := range op.Settings {
		if kv[0] == id {
			v, ok = kv[1], true
		}
	}
	return v, ok
}

// dynTable reports whether the relay's encoder towards `who` may use a dynamic table at some point:
// unless `who` opened with HEADER_TABLE_SIZE 0 and never raised it.
func dynTable(ops []Op, who string) bool {
	size := uint32(4096)
	for i := range ops {
		op := &ops[i]
		if (op.Kind == "hdr" || op.Kind == "pp") && op.Side != who && size != 0 {
			return true
		}
		if op.Side == who && op.Kind == "set" {
			if v, ok := hasSetting(op, 1); ok {
				size = v
			}
		}
	}
	return false
}

// Classify decides, from the realised schedule alone, whether a failing clause falls in a recorded
// class of known_findings.json.
func Classify(clause string, stepOp *Op, detail string, ops []Op, opIndex []int, step int) string {
	parts := strings.Split(detail, ":")
	switch clause {
	case "credit":
		if stepOp != nil && stepOp.Kind == "data" && stepOp.Padded {
			return "padded-data" // F6
		}
	case "ledger-stream":
		// No class: F51 (a SETTINGS frame whose INITIAL_WINDOW_SIZE chain has a non-final value above
		// the last one released DATA the value in force does not cover) is repaired - the relay reads
		// the frame completely and applies the value in force, once.  Such chains are still generated
		// with DATA outstanding (gen.go repeatedSettings) and the witness stays in the corpus: a
		// re-occurrence is a violation like every other ledger failure.
	case "frame-size":
		// F14: frames are split when queued.  The class: the frame belongs to an op written before the
		// receiver lowered MAX_FRAME_SIZE, it respected the limit in force then, and the limit was
		// lowered below its size before it arrived.  detail = who:frame:limit=L:size=N:sent=T
		who := parts[0]
		size, sent := -1, -1
		for _, p := range parts {
			if strings.HasPrefix(p, "size=") {
				size, _ = strconv.Atoi(p[5:])
			}
			if strings.HasPrefix(p, "sent=") {
				sent, _ = strconv.Atoi(p[5:])
			}
		}
		if size < 0 || sent < 0 || opIndex == nil {
			return ""
		}
		cur := 16384
		limitWhenBuilt := -1
		lowered := false
		for t := 0; t <= step && t < len(opIndex); t++ {
			if t == sent {
				limitWhenBuilt = cur
			}
			if opIndex[t] < 0 {
				continue
			}
			op := &ops[opIndex[t]]
			if op.Side == who && op.Kind == "set" {
				if v, ok := hasSetting(op, 5); ok {
					if t > sent && limitWhenBuilt >= 0 && int(v) < size {
						lowered = true
					}
					cur = int(v)
				}
			}
		}
		if lowered && limitWhenBuilt >= size {
			return "max-frame-decrease"
		}
	case "fidelity":
		if len(parts) < 3 {
			return ""
		}
		who, what := parts[0], parts[2]
		sid64, _ := strconv.ParseUint(parts[1], 10, 32)
		sid := uint32(sid64)
		sender := otherSide(who)
		switch what {
		case "endstream":
			// F7: the element is a HEADERS frame the sender continued and did not end the stream with
			// (detail = who:sid:endstream:continued=1:sent=0)
			if len(parts) >= 5 && parts[3] == "continued=1" && parts[4] == "sent=0" {
				return "continued-headers-endstream"
			}
			_ = sid
		case "list":
			// F21: a header block encoded after DATA of its own stream may be overtaken
			if !dynTable(ops, who) {
				return ""
			}
			seenData := map[uint32]bool{}
			for i := range ops {
				if ops[i].Side != sender {
					continue
				}
				switch ops[i].Kind {
				case "data":
					seenData[ops[i].Sid] = true
				case "hdr", "pp":
					if seenData[ops[i].Sid] {
						return "headers-queued-behind-data"
					}
				}
			}
		}
	}
	return ""
}

// initWinChain: the SETTINGS_INITIAL_WINDOW_SIZE values of one SETTINGS frame, in order.
func initWinChain(op *Op) []int64 {
	var vs []int64
	for _, kv := range op.Settings {
		if kv[0] == 4 {
			vs = append(vs, int64(kv[1]))
		}
	}
	return vs
}

// tableDecreaseInFlight: F15 as it is recorded - the relay stopped on the block completed by op `at`,
// which the sender encoded while a HEADER_TABLE_SIZE decrease of the other endpoint had not reached
// its encoder (late application), and a decoder kept like the unchanged relay's (Op.DecErr) refuses
// that very block because it refers to an entry the early decrease evicted.  Decided from the
// schedule: the decoder is x/net's, fed with the schedule.  A direction that stops on a block that
// decoder decodes - whatever the relay's own decoder made of it - is not in the class.
func tableDecreaseInFlight(ops []Op, at int) bool {
	if at < 0 || at >= len(ops) || !isBlockOp(ops[at].Kind) || !ops[at].EH {
		return false
	}
	if !strings.Contains(ops[at].DecErr, "invalid indexed representation index") {
		return false
	}
	start := at // the frame that began the block
	for start > 0 && ops[start].Kind == "cont" {
		start--
	}
	size, late := uint32(4096), false
	for i := 0; i < start; i++ {
		op := &ops[i]
		switch {
		case op.Side != ops[at].Side && op.Kind == "set":
			for _, kv := range op.Settings {
				if kv[0] == 1 {
					// applied by the sender's encoder at once, or (LateApply) after the next block it encodes
					late = op.LateApply && (late || kv[1] < size)
					size = kv[1]
				}
			}
		case op.Side == ops[at].Side && (op.Kind == "hdr" || op.Kind == "pp"):
			late = false // that block was the one in flight
		}
	}
	return late
}

// hungOp: index into res.Ops of the op on which the relay fell silent, -1 when it did not
func hungOp(res *Result) int {
	if res.Hung == "" || res.HungAt < 0 || res.HungAt >= len(res.OpIndex) {
		return -1
	}
	return res.OpIndex[res.HungAt]
}

// killerClass: the schedule contains an op of a class recorded as stopping a relay direction
// (hung = index of the op on which the relay fell silent, -1 if none).
func killerClass(ops []Op, hung int) string {
	for i := range ops {
		if ops[i].Kind == "pp" && !ops[i].EH {
			return "continued-push-promise"
		}
	}
	if tableDecreaseInFlight(ops, hung) {
		return "table-size-decrease-in-flight"
	}
	for i := range ops {
		if ops[i].Kind == "raw" {
			return "unknown-frame-type"
		}
	}
	return ""
}

var (
	variantOnce sync.Once
	variantTag  string
)

// modelVariant tells the Lean model which tree it is compared with: findings F6 (credit for padded
// DATA) and F7 (END_STREAM of a continued HEADERS) have small proposed repairs; once one is applied
// to /repo its entry in known_findings.json is set to "fixed", and from then on the model of the
// repaired behaviour is the one the relay must agree with (the class stops being excused as well).
func modelVariant(root string) string {
	variantOnce.Do(func() {
		f6, f7 := "0", "0"
		for _, k := range core.LoadKnown(root) {
			if k.Status == "fixed" && k.ID == "F6" {
				f6 = "1"
			}
			if k.Status == "fixed" && k.ID == "F7" {
				f7 = "1"
			}
		}
		variantTag = "v" + f6 + f7
	})
	return variantTag
}

// Evaluate judges one executed case for property prop.
func Evaluate(ctx *core.Ctx, prop string, c Case, res *Result) {
	replay := Case{Kind: "h2", Seed: c.Seed, Params: c.Params, Ops: res.Ops, Final: res.Final, Note: c.Note, TimeoutMs: c.TimeoutMs}
	if len(res.Ops) == 0 {
		replay.Ops = c.Ops
	}
	if res.Crashed != "" {
		ctx.Case(fmt.Sprintf("crash:%d", c.Seed), true)
		ctx.Count("outcome/crashed")
		ctx.Crash("the relay never takes the process down", "", replay, res.Crashed)
		return
	}
	if strings.HasPrefix(res.Hung, "rig:") {
		if c.Params.E2E != nil && prop == "C10" {
			// the relay is reached through proxy_conn.go here: not coming up is the proxy's doing
			ctx.Case(fmt.Sprintf("e2e-setup:%d", c.Seed), true)
			ctx.Count("outcome/e2e-not-established")
			ctx.SpecFail(clausesOf["C10"]["delivery"], "", replay, res.Hung, "no HTTP/2 relay behind CONNECT + TLS(ALPN h2) through the intercepting proxy (3 attempts): "+res.Hung)
			return
		}
		core.Fatalf("h2rig could not start a relay: %s", res.Hung)
	}
	h := sha256.Sum256([]byte(strings.Join(res.Lines, " ")))
	key := fmt.Sprintf("%x", h[:16])

	// input distribution
	queued := false
	nData, nPadded, nCont, nQueuedRelease := 0, 0, 0, 0
	streams := map[uint32]bool{}
	maxAdv := map[string]int{"c": 16384, "s": 16384}
	switch {
	case c.Params.E2E != nil:
		ctx.Count("family/end-to-end/" + c.Params.E2E.Mode)
		ctx.Count(fmt.Sprintf("e2e/timeouts idle=%v read=%v read-header=%v write=%v mitm-handshake=%v", c.Params.E2E.IdleMs > 0, c.Params.E2E.ReadMs > 0, c.Params.E2E.ReadHeaderMs > 0, c.Params.E2E.WriteMs > 0, c.Params.E2E.MITMHsMs > 0))
	case c.Params.Conc > 0:
		ctx.Count("family/concurrent")
	default:
		ctx.Count("family/barrier-per-frame")
	}
	ctx.Count(fmt.Sprintf("config/enable-debug-logs=%v", c.Params.DebugLogs))
	ctx.Count("config/stream-processor-factories=" + []string{"none", "bypassed", "pass-through", "pass-through+bypassed"}[c.Params.Procs&3])
	sensBlocks := 0
	for i := range res.Ops {
		op := &res.Ops[i]
		ctx.Count("op/" + op.Kind)
		if isBlockOp(op.Kind) && len(op.Fields) > 0 {
			sens, raw := false, 0
			for _, f := range op.Fields {
				ctx.Count("hpack/field-drawn-as/" + repLabel(f))
				sens = sens || f.Sens
				if f.Raw {
					raw++
				}
			}
			ctx.CountN("hpack/fields-written-by-the-rig's-own-literal-writer", op.RawSent)
			ctx.CountN("hpack/raw-fields-left-to-the-encoder-behind-a-pending-size-update", raw-op.RawSent)
			if sens {
				sensBlocks++
			}
		}
		if op.Kind == "burst" {
			countBurst(ctx, op)
		}
		if op.Kind == "set" {
			ids := map[uint32]int{}
			for _, kv := range op.Settings {
				ids[kv[0]]++
			}
			for id, n := range ids {
				if n > 1 {
					ctx.Count(fmt.Sprintf("set/id=%d-repeated-in-one-frame", id))
				}
			}
			if vs := initWinChain(op); len(vs) > 1 {
				for _, v := range vs[:len(vs)-1] {
					if v > vs[len(vs)-1] {
						ctx.Count("set/initial-window-chain-with-larger-non-final-value")
						break
					}
				}
			}
		}
		if op.Kind == "data" && op.Len > maxAdv[otherSide(op.Side)] {
			ctx.Count("relay/must-split-data")
		}
		if op.Kind == "set" {
			if v, ok := hasSetting(op, 5); ok {
				if int(v) < maxAdv[op.Side] {
					ctx.Count("set/max-frame-lowered")
				}
				maxAdv[op.Side] = int(v)
			}
			if v, ok := hasSetting(op, 4); ok {
				_ = v
			}
		}
		if op.Sid != 0 {
			streams[op.Sid] = true
		}
		switch op.Kind {
		case "data":
			nData++
			if op.Padded {
				nPadded++
				ctx.Count("data/padded")
			}
			if op.Len == 0 {
				ctx.Count("data/empty")
			}
			if op.Len > 16384 {
				ctx.Count("data/over-16384")
			}
		case "hdr":
			if !op.EH {
				nCont++
				ctx.Count("hdr/continued-by-sender")
			}
		case "set":
			for _, kv := range op.Settings {
				ctx.Count(fmt.Sprintf("set/id=%d", kv[0]))
			}
		}
	}
	for i, l := range res.Lines {
		if res.OpIndex[i] < 0 {
			continue
		}
		op := &res.Ops[res.OpIndex[i]]
		f := strings.Split(l, "/")
		if len(f) == 5 {
			if (op.Kind == "wu" || op.Kind == "set") && f[3] != "~" {
				queued = true
				nQueuedRelease++
				ctx.Count("release/by-" + op.Kind)
				if vs := initWinChain(op); op.Kind == "set" && len(vs) > 1 {
					for _, v := range vs[:len(vs)-1] {
						if v > vs[len(vs)-1] {
							ctx.Count("release/by-set-whose-initial-window-chain-has-a-larger-non-final-value")
							break
						}
					}
				}
			}
			for _, part := range []string{f[1], f[3]} {
				if strings.Contains(part, "C,") && (strings.HasPrefix(part, "H,") || strings.Contains(part, ";H,") || strings.Contains(part, ";P,") || strings.HasPrefix(part, "P,")) {
					ctx.Count("relay/split-header-block")
				}
			}
		}
	}
	if sensBlocks > 0 {
		ctx.Count(fmt.Sprintf("config/header-lists-with-a-never-indexed-field-relayed-with-debug-logs=%v", c.Params.DebugLogs))
	}
	ctx.Count(fmt.Sprintf("streams=%d", len(streams)))
	switch n := len(res.Ops); {
	case n < 50:
		ctx.Count("ops<50")
	case n < 150:
		ctx.Count("ops<150")
	case n < 300:
		ctx.Count("ops<300")
	default:
		ctx.Count("ops>=300")
	}
	ctx.Case(key, queued)
	if res.Final {
		ctx.Count("outcome/final")
	}
	if res.ExitSlow {
		ctx.Count("outcome/proxy-exit-slow")
	}

	lines := res.Lines
	kclass := killerClass(res.Ops, hungOp(res))
	if res.Hung != "" {
		ctx.Count("outcome/hung")
		// the step on which the relay fell silent is incomplete: the acceptor sees the ones before it
		lines = res.Lines[:res.HungAt]
		switch prop {
		case "C10":
			ctx.SpecFail(clausesOf["C10"]["delivery"], kclass, replay, res.Hung, fmt.Sprintf("relay stopped relaying at trace step %d: %s", res.HungAt, res.Hung))
		default:
			if kclass == "" {
				ctx.Disagree("the relay answers every barrier (model: it never stops)", replay, res.Hung, "barrier relayed")
			}
		}
	}

	// trace acceptor
	accepted := false
	if len(lines) > 0 {
		ans := ctx.Model.MustAsk(append([]string{prop, "accept", modelVariant(ctx.Root)}, lines...)...)
		f := strings.Fields(ans)
		switch {
		case len(f) >= 3 && f[0] == "ok":
			accepted = true
			ctx.TraceValidated()
			if f[2] == "1" {
				ctx.Count("model/header-blocks-sent-out-of-encoding-order")
			}
		case len(f) >= 5 && f[0] == "reject":
			idx, _ := strconv.Atoi(f[1])
			at := ""
			if idx < len(lines) {
				at = lines[idx]
			}
			ctx.Disagree("trace of the relay is accepted by Model.H2Relay (H2.accept)", replay,
				fmt.Sprintf("step %d %s observed %s   [%s]", idx, f[2], f[4], at), fmt.Sprintf("step %d %s expected %s", idx, f[2], f[3]))
		default:
			core.Fatalf("unexpected answer from the model: %q", ans)
		}
	}
	_ = accepted

	// the property itself, on what the implementation did
	if len(lines) > 0 {
		ans := ctx.Model.MustAsk(append([]string{prop, "holds", core.B01(res.Final && res.Hung == "")}, lines...)...)
		if ans != "true" {
			f := strings.Fields(ans)
			if len(f) < 2 || f[0] != "false" {
				core.Fatalf("unexpected answer from the model: %q", ans)
			}
			for _, fl := range f[1:] {
				p := strings.SplitN(fl, "@", 3)
				if len(p) != 3 {
					core.Fatalf("unexpected failure record from the model: %q", fl)
				}
				text, mine := clausesOf[prop][p[0]]
				if !mine {
					continue
				}
				idx, _ := strconv.Atoi(p[1])
				var stepOp *Op
				at := ""
				if idx < len(res.OpIndex) && res.OpIndex[idx] >= 0 {
					stepOp = &res.Ops[res.OpIndex[idx]]
				}
				if idx < len(lines) {
					at = lines[idx]
				}
				class := Classify(p[0], stepOp, p[2], res.Ops, res.OpIndex, idx)
				if class == "" && res.Hung != "" && kclass != "" && (p[0] == "strand" || p[0] == "delivery" || p[0] == "conn-frames") {
					class = kclass
				}
				ctx.SpecFail(text, class, replay, at, fmt.Sprintf("%s at trace step %d: %s", p[0], idx, p[2]))
			}
		}
	}
	if prop == "C10" {
		judgeSizeUpdates(ctx, replay, res)
		judgeWire(ctx, replay, res)
		if e := c.Params.E2E; e != nil {
			// Model/H2Handoff.lean: what handleMITM leaves armed on the client socket when it hands it to the relay
			ans := ctx.Model.MustAsk("C10", "handoff", fmt.Sprint(e.IdleMs), fmt.Sprint(e.ReadMs), fmt.Sprint(e.ReadHeaderMs), fmt.Sprint(e.WriteMs), fmt.Sprint(e.MITMHsMs), fmt.Sprint(e.HoldMs))
			alive := res.Hung == ""
			if (ans == "alive") != alive {
				ctx.Disagree("a connection handed to the HTTP/2 relay carries no HTTP/1 deadline (Model.H2Handoff): it is still relayed after the hold", replay,
					fmt.Sprintf("alive=%v %s", alive, res.Hung), ans)
			}
		}
		for _, d := range res.DataBad {
			ctx.SpecFail(clausesOf["C10"]["fidelity"], "", replay, d, "DATA octets received differ from the octets sent")
		}
		// Model/H2Headers.lean: the list the relay hands to its encoder for a decoded list under this
		// configuration (`relayList`) is what the receiving endpoint decodes - names, values, never-indexed marks
		for _, o := range res.HdrObs {
			ctx.Count("hpack/header-lists-compared-with-the-model")
			model := ctx.Model.MustAsk("C10", "hlist", core.B01(c.Params.DebugLogs), o.Sent)
			if model != o.Got {
				// (F21 makes a receiver decode another list without the relay having changed one: same class as for the checker's clause)
				class := Classify("fidelity", nil, fmt.Sprintf("%s:%d:list", o.Side, o.Sid), res.Ops, res.OpIndex, 0)
				ctx.SpecFail(clausesOf["C10"]["fidelity"], class, replay, fmt.Sprintf("%s stream %d decoded %s", o.Side, o.Sid, o.Got),
					fmt.Sprintf("header list decoded by %s on stream %d differs from Model.H2Headers.relayList (enable-debug-logs=%v) of the list sent: model %s", o.Side, o.Sid, c.Params.DebugLogs, model))
			}
		}
		for _, d := range res.DecodeErr {
			ctx.Count("receiver/hpack-decode-error")
			_ = d
		}
	}
	for _, d := range res.BlockBad {
		ctx.Disagree("forwarded header block = block of a mirror hpack.Encoder fed like the relay's", replay, d, "identical octets")
	}
	if len(res.Late) > 0 && res.Hung == "" {
		ctx.Disagree("nothing arrives after the final barrier", replay, strings.Join(res.Late, " "), "no frame")
	}
}

// judgeSizeUpdates: header blocks that begin with dynamic table size updates (RFC 7541 6.3) against
// Model/H2TableCap.lean - the relay's decoder refuses none of them, whatever HEADER_TABLE_SIZE values
// were relayed before (`Relay.runSized`, c10_in_flight_size_update_accepted).  What the relay did: it
// stopped on such a block and logged the decoder's "dynamic table size update too large".
func judgeSizeUpdates(ctx *core.Ctx, replay Case, res *Result) {
	var evs []string
	opEv := map[int]int{}
	blocks, above, aboveLast := 0, 0, 0
	last := map[string]uint32{"c": 4096, "s": 4096} // HEADER_TABLE_SIZE last sent by each side
	for i := range res.Ops {
		op := &res.Ops[i]
		switch {
		case op.Kind == "set":
			ev := op.Side + ",s"
			n := 0
			for _, kv := range op.Settings {
				if kv[0] == 1 {
					ev += fmt.Sprintf(",%d", kv[1])
					last[op.Side] = kv[1]
					n++
				}
			}
			if n > 0 {
				evs = append(evs, ev)
			}
		case isBlockOp(op.Kind) && op.EH && len(op.SizeUpd) > 0:
			ev := op.Side + ",b"
			for _, u := range op.SizeUpd {
				ev += fmt.Sprintf(",%d", u)
				if u > 4096 {
					above++
				}
				if u > last[otherSide(op.Side)] {
					aboveLast++
				}
			}
			opEv[i] = len(evs)
			evs = append(evs, ev)
			blocks++
		}
	}
	if blocks == 0 {
		return
	}
	ctx.CountN("hpack/blocks-beginning-with-a-size-update", blocks)
	ctx.CountN("hpack/size-update-above-4096", above)
	ctx.CountN("hpack/size-update-above-the-setting-last-relayed", aboveLast)
	impl := "ok"
	if at := hungOp(res); at >= 0 {
		if k, ok := opEv[at]; ok && res.Ops[at].DecErr == "" && strings.Contains(strings.Join(res.RelayLog, " "), "dynamic table size update too large") {
			impl = fmt.Sprintf("refused %d", k)
		}
	}
	model := ctx.Model.MustAsk(append([]string{"C10", "sizeupd", "0"}, evs...)...)
	if model != impl {
		ctx.Disagree("the relay's HPACK decoder accepts every dynamic table size update a header block begins with (Model.H2TableCap: decoderCap stays math.MaxUint32)", replay,
			impl+"   ["+strings.Join(evs, " ")+"]", model)
	}
}

func countBurst(ctx *core.Ctx, op *Op) {
	conts, direct, data := 0, 0, 0
	for _, l := range [][]Op{op.Main, op.Cross} {
		for i := range l {
			ctx.Count("burst-op/" + l[i].Kind)
			switch l[i].Kind {
			case "cont":
				conts++
			case "ping", "set", "ack", "goaway":
				direct++
			case "data":
				data++
			}
		}
	}
	blocks := 0
	for _, l := range [][]Op{op.Main, op.Cross} {
		start := ""
		for i := range l {
			if l[i].Kind == "hdr" || l[i].Kind == "pp" {
				start = l[i].Kind
			}
			if isBlockOp(l[i].Kind) && l[i].EH && l[i].ReencLen > 16384 {
				blocks++
				n, bucket := (l[i].ReencLen+16383)/16384, "2-4"
				switch {
				case n >= 20:
					bucket = "20+"
				case n >= 10:
					bucket = "10-19"
				case n >= 5:
					bucket = "5-9"
				}
				ctx.Count(fmt.Sprintf("burst/block-%s-of-%s-frames-to-%s", start, bucket, otherSide(l[i].Side)))
			}
		}
	}
	if blocks > 1 {
		ctx.Count("burst/blocks-both-ways")
	}
	if direct > 0 {
		ctx.Count("burst/direct-writes-of-the-reader")
	}
	if len(op.Cross) > 0 && data > 0 {
		ctx.Count("burst/window-updates-of-the-peer-relay")
	}
}

// judgeWire: RFC 7540 6.10 on the order in which frames arrived at each raw endpoint - by the
// endpoint's read loop (WireBad) and, for the cases that record the arrival order, by H2.wireOk.
func judgeWire(ctx *core.Ctx, replay Case, res *Result) {
	text := clausesOf["C10"]["framing"]
	for k, n := range res.Stats {
		if strings.HasPrefix(k, "wire-violation-by-") {
			ctx.CountN("wire/"+k, n)
		}
	}
	for _, w := range res.WireBad {
		ctx.SpecFail(text, "", replay, w, "a frame arrived inside a header block (RFC 7540 6.10): "+w)
	}
	for _, side := range []string{"c", "s"} {
		tags := res.Arrival[side]
		if len(tags) == 0 {
			continue
		}
		ctx.CountN("wire/frames-in-arrival-order-judged", len(tags))
		ans := ctx.Model.MustAsk(append([]string{"C10", "wire"}, tags...)...)
		goBad := false
		for _, w := range res.WireBad {
			if strings.HasPrefix(w, side+":") {
				goBad = true
			}
		}
		switch {
		case ans == "true":
			if goBad {
				ctx.Disagree("H2.wireOk and the raw endpoint's read loop agree on RFC 7540 6.10", replay, "read loop: violated", "wireOk: holds")
			}
		case strings.HasPrefix(ans, "false "):
			if !goBad {
				ctx.SpecFail(text, "", replay, ans, "arrival order at "+side+" violates RFC 7540 6.10 (H2.wireOk): "+ans)
			}
		default:
			core.Fatalf("unexpected answer from the model: %q", ans)
		}
	}
}

// MakeCases derives n generated cases from the run's seed.
func MakeCases(ctx *core.Ctx, n int, flowOnly bool) []Case {
	var cs []Case
	for i := 0; i < n; i++ {
		r := ctx.Rng.Sub()
		p := Params{
			NOps:     core.Pick(r, []int{20, 40, 60, 80, 120, 160, 200, 300, 400}),
			Streams:  r.Range(1, 6),
			Tbl0C:    r.Chance(70),
			Tbl0S:    r.Chance(70),
			Profile:  r.Intn(4),
			Killers:  r.Chance(4),
			BigHdrs:  r.Chance(35),
			FlowOnly: flowOnly && r.Chance(60),
		}
		if ctx.Quick() && p.NOps > 200 && r.Chance(60) {
			p.NOps = r.Range(20, 200)
		}
		c := Case{Kind: "h2", Seed: r.U64(), Params: p}
		// HPACK table sizes (drawn last: the schedules of the other dimensions stay what they were)
		c.Params.TblAdopt = r.Chance(60)
		if r.Chance(35) {
			c.Params.TblEpisodes = r.Range(1, 2)
			c.Params.TblAdopt = r.Chance(85)
		}
		drawConfig(r, &c.Params)
		cs = append(cs, c)
	}
	return cs
}

// drawConfig draws the options of h2.Config that must not change a relayed octet (drawn last: the
// schedules of the other dimensions stay what they were).
func drawConfig(r *core.Rand, p *Params) {
	p.DebugLogs = r.Chance(50)
	p.Procs = core.Pick(r, []int{0, 0, 1, 2, 2, 3})
}

// MakeConcCases: the concurrent family (gen_conc.go).
func MakeConcCases(ctx *core.Ctx, n int) []Case {
	var cs []Case
	for i := 0; i < n; i++ {
		r := ctx.Rng.Sub()
		c := Case{Kind: "h2", Seed: r.U64(), Params: Params{Conc: r.Range(8, 14)}, TimeoutMs: 20000}
		drawConfig(r, &c.Params)
		cs = append(cs, c)
	}
	return cs
}

// MakeE2ECases: the end-to-end family (rig_e2e.go): every HTTP/1 timeout of the intercepting proxy is
// 300-500 ms or unset, with and without a MITM handshake timeout; the HTTP/2 connection is kept for
// 3-5 times the largest of them and then used again.
func MakeE2ECases(ctx *core.Ctx, n int) []Case {
	var cs []Case
	for i := 0; i < n; i++ {
		r := ctx.Rng.Sub()
		t := func(pct int) int {
			if r.Chance(pct) {
				return core.Pick(r, []int{300, 350, 400, 500})
			}
			return 0
		}
		e := &E2E{IdleMs: t(65), ReadMs: t(50), ReadHeaderMs: t(50), WriteMs: t(50), Mode: core.Pick(r, []string{"idle", "busy"})}
		if e.IdleMs == 0 && e.ReadMs == 0 && r.Chance(80) {
			e.IdleMs = 300
		}
		if i%2 == 1 {
			e.MITMHsMs = core.Pick(r, []int{1000, 2000, 5000})
		}
		largest := 300
		for _, v := range []int{e.IdleMs, e.ReadMs, e.ReadHeaderMs, e.WriteMs} {
			if v > largest {
				largest = v
			}
		}
		e.HoldMs = largest * r.Range(3, 5)
		p := Params{NOps: r.Range(16, 40), Streams: r.Range(1, 3), Tbl0C: r.Chance(50), Tbl0S: r.Chance(50), Profile: r.Intn(4), E2E: e}
		c := Case{Kind: "h2", Seed: r.U64(), Params: p, TimeoutMs: 10000}
		drawConfig(r, &c.Params)
		cs = append(cs, c)
	}
	return cs
}

// Workers is the number of relay instances run side by side.
func Workers() int {
	n := runtime.NumCPU() / 2
	if n < 2 {
		n = 2
	}
	if n > 8 {
		n = 8
	}
	return n
}

// Run is the body shared by the C09 and C10 scenarios.
func Run(ctx *core.Ctx, prop string, quick, thorough int, flowOnly bool) {
	var cases []Case
	for _, raw := range core.LoadCorpus(ctx.Root, prop) {
		var c Case
		if err := json.Unmarshal(raw, &c); err != nil || c.Kind != "h2" {
			core.Fatalf("%s corpus: not an h2 case: %v", prop, err)
		}
		cases = append(cases, c)
	}
	nCorpus := len(cases)
	cases = append(cases, MakeCases(ctx, ctx.N(quick, thorough), flowOnly)...)
	// the concurrent and the end-to-end family run beside the main one, in child processes of their own
	var famWG sync.WaitGroup
	var famErr [2]error
	if prop == "C10" {
		fams := [][]Case{MakeConcCases(ctx, ctx.N(12, 120)), MakeE2ECases(ctx, ctx.N(8, 64))}
		for k, fc := range fams {
			famWG.Add(1)
			go func() {
				defer famWG.Done()
				famErr[k] = RunAll(fc, 4, func(i int, c Case, res *Result) { Evaluate(ctx, prop, c, res) })
			}()
		}
	}
	defer func() {
		famWG.Wait()
		for _, e := range famErr {
			if e != nil {
				core.Fatalf("h2rig: cannot start a child process: %v", e)
			}
		}
	}()
	var hungUnexplained atomic.Int32
	err := RunAllUntil(cases, Workers(), func(i int, c Case, res *Result) {
		Evaluate(ctx, prop, c, res)
		if (res.Hung != "" && killerClass(res.Ops, hungOp(res)) == "") || res.Crashed != "" {
			hungUnexplained.Add(1)
		}
		if i >= nCorpus && i < nCorpus+3 {
			s := Sample{Seed: c.Seed, Params: c.Params, NOps: len(res.Ops)}
			for j := 0; j < len(res.Lines) && len(s.First) < 12; j++ {
				if res.OpIndex[j] >= 0 {
					s.First = append(s.First, res.Lines[j])
				}
			}
			ctx.Sample(s)
		}
	}, func() bool {
		if hungUnexplained.Load() >= 12 {
			ctx.Extra("stopped_early", "12 relays fell silent or died outside the recorded classes; remaining cases not run")
			return true
		}
		return false
	})
	if err != nil {
		core.Fatalf("h2rig: cannot start a child process: %v", err)
	}
}

// ReplayOne re-runs one recorded case and judges it.
func ReplayOne(ctx *core.Ctx, prop string, raw json.RawMessage) {
	var c Case
	if err := json.Unmarshal(raw, &c); err != nil || c.Kind != "h2" {
		core.Fatalf("%s: not an h2 case: %v", prop, err)
	}
	err := RunAll([]Case{c}, 1, func(i int, c Case, res *Result) {
		Evaluate(ctx, prop, c, res)
		fmt.Printf("replay %s: %d ops, %d trace steps, final=%v hung=%q crashed=%v\n", prop, len(res.Ops), len(res.Lines), res.Final, res.Hung, res.Crashed != "")
		for _, m := range res.RelayLog {
			fmt.Printf("  relay log: %s\n", m)
		}
		for _, m := range res.DecodeErr {
			fmt.Printf("  receiver decode error: %s\n", m)
		}
		if res.Dump != "" {
			fmt.Println(res.Dump)
		}
		n := len(res.Lines)
		for j := 0; j < n; j++ {
			if res.OpIndex[j] >= 0 && (n < 120 || j > n-60) {
				fmt.Printf("  %4d %s\n", j, res.Lines[j])
			}
		}
	})
	if err != nil {
		core.Fatalf("h2rig: cannot start a child process: %v", err)
	}
}
