package h2rig

import (
	"bytes"
	"errors"
	"fmt"
	"os"
	"runtime"
	"time"

	"golang.org/x/net/http2"
)

// Bursts.  Every other op is followed by a barrier pair, so at any moment one goroutine of the relay
// at most is writing to a destination.  A destination Framer has three kinds of writers, though
// (relay.go): the writer goroutine of the relay towards it (queued elements: DATA, HEADERS /
// PUSH_PROMISE with their CONTINUATION frames, PRIORITY, RST_STREAM), the reader goroutine of the same
// relay (SETTINGS, SETTINGS ACK, PING, GOAWAY are written while the frame is processed) and the reader
// goroutine of the peer relay (WINDOW_UPDATE for DATA coming the other way).  A burst makes them meet:
// `Side` writes Main without pause - a header block of many CONTINUATION frames and, right behind it,
// frames the reader writes directly - while the other endpoint writes Cross (DATA that is acknowledged
// towards it, PINGs, a block of its own) from a second goroutine, started by the arrival of the first
// frame of the block.  Nothing is blocked in these schedules (every window is open), so what each
// frame produces does not depend on the interleaving: after three barriers the frames received are
// attributed to the ops in order and the trace goes through the same acceptor and checker.  The order
// of ARRIVAL is judged by the endpoints' read loops (endpoint.wireCheck) and by `H2.wireOk`.

func isBlockOp(k string) bool { return k == "hdr" || k == "pp" || k == "cont" }

// renderList prepares the frames of ops (all from `side`) in a buffer: the realised ops (CONTINUATION
// frames named) and one chunk of octets per element (a header block with its continuations is one).
func (r *Runner) renderList(side string, ops []Op) (real []Op, chunks [][]byte, err error) {
	var buf bytes.Buffer
	fr := http2.NewFramer(&buf, nil)
	dir := r.dirOf(side)
	for i := 0; i < len(ops); i++ {
		o := ops[i]
		o.Side = side
		if o.Kind == "burst" || o.Kind == "sleep" {
			return nil, nil, errors.New("rig: " + o.Kind + " inside a burst")
		}
		if err := r.writeTo(fr, &o); err != nil {
			return nil, nil, err
		}
		real = append(real, o)
		for isBlockOp(o.Kind) && len(dir.block) > 0 && !(i+1 < len(ops) && ops[i+1].Kind == "cont") {
			c := Op{Side: side, Kind: "cont", Sid: o.Sid, Cut: -1}
			if err := r.writeTo(fr, &c); err != nil {
				return nil, nil, err
			}
			real = append(real, c)
		}
		if len(dir.block) == 0 {
			chunks = append(chunks, append([]byte(nil), buf.Bytes()...))
			buf.Reset()
		}
	}
	if buf.Len() > 0 {
		return nil, nil, errors.New("rig: a burst list ends inside a header block")
	}
	return real, chunks, nil
}

// attribution of the frames an endpoint received during a burst to the ops that produced them
type burstRecv struct {
	q, d, w []Frame
}

func splitRecv(fs []Frame) *burstRecv {
	b := &burstRecv{}
	for _, f := range fs {
		switch {
		case f.T == 'W':
			b.w = append(b.w, f)
		case f.direct():
			b.d = append(b.d, f)
		default:
			b.q = append(b.q, f)
		}
	}
	return b
}

func (b *burstRecv) takeQ(op *Op) []Frame {
	var out []Frame
	switch op.Kind {
	case "data":
		acc := 0
		for len(b.q) > 0 && b.q[0].T == 'D' && b.q[0].Sid == op.Sid && (len(out) == 0 || acc < op.Len) {
			acc += b.q[0].Len
			out = append(out, b.q[0])
			b.q = b.q[1:]
		}
	case "hdr", "pp", "cont":
		if !op.EH {
			return nil
		}
		if len(b.q) > 0 && (b.q[0].T == 'H' || b.q[0].T == 'P') && b.q[0].Sid == op.Sid {
			done := b.q[0].EH
			out = append(out, b.q[0])
			b.q = b.q[1:]
			for !done && len(b.q) > 0 && b.q[0].T == 'C' && b.q[0].Sid == op.Sid {
				done = b.q[0].EH
				out = append(out, b.q[0])
				b.q = b.q[1:]
			}
		}
	case "prio":
		if len(b.q) > 0 && b.q[0].T == 'Y' {
			out = append(out, b.q[0])
			b.q = b.q[1:]
		}
	case "rst":
		if len(b.q) > 0 && b.q[0].T == 'R' {
			out = append(out, b.q[0])
			b.q = b.q[1:]
		}
	}
	return out
}

func (b *burstRecv) takeD(op *Op) []Frame {
	switch op.Kind {
	case "ping", "set", "ack", "goaway":
		if len(b.d) > 0 {
			f := b.d[0]
			b.d = b.d[1:]
			return []Frame{f}
		}
	}
	return nil
}

func (b *burstRecv) takeW(op *Op) []Frame {
	if op.Kind != "data" || (op.Len == 0 && !op.Padded) {
		return nil
	}
	n := 2
	if n > len(b.w) {
		n = len(b.w)
	}
	out := b.w[:n:n]
	b.w = b.w[n:]
	return out
}

func (r *Runner) doBurst(op Op) bool {
	if r.inBlock != "" {
		r.res.Hung = "rig: burst scheduled inside an unfinished header block"
		r.stopped = true
		return false
	}
	x, y := op.Side, otherSide(op.Side)
	self, other, out, in, bsidSelf, bsidOther := r.ep(x)
	stepIdx := len(r.res.Lines)
	fail := func(what string, err error) bool {
		r.res.Ops = append(r.res.Ops, op)
		r.res.Hung = fmt.Sprintf("%s: %v", what, err)
		r.res.HungAt = stepIdx // the steps of this burst are incomplete
		r.stopped = true
		if os.Getenv("VERIF_H2_DUMP") != "" {
			buf := make([]byte, 1<<20)
			buf = buf[:runtime.Stack(buf, true)]
			r.res.Dump = string(buf)
		}
		return false
	}
	mainReal, mainChunks, err := r.renderList(x, op.Main)
	if err != nil {
		r.res.Hung = "rig: " + err.Error()
		r.stopped = true
		return false
	}
	crossReal, crossChunks, err := r.renderList(y, op.Cross)
	if err != nil {
		r.res.Hung = "rig: " + err.Error()
		r.stopped = true
		return false
	}
	op.Main, op.Cross = mainReal, crossReal

	for _, e := range []*endpoint{self, other} {
		e.mu.Lock()
		e.slowBlock = time.Duration(op.SlowUs) * time.Microsecond
		e.mu.Unlock()
	}
	defer func() {
		for _, e := range []*endpoint{self, other} {
			e.mu.Lock()
			e.slowBlock = 0
			e.mu.Unlock()
		}
	}()
	trig := make(chan struct{}, 1)
	if op.Trig {
		other.mu.Lock()
		other.onBlockOpen = func() {
			select {
			case trig <- struct{}{}:
			default:
			}
		}
		other.mu.Unlock()
	}
	deadline := time.Now().Add(r.timeout)
	self.conn.SetWriteDeadline(deadline)
	other.conn.SetWriteDeadline(deadline)
	errs := make(chan error, 2)
	go func() {
		var all []byte
		for _, c := range mainChunks {
			all = append(all, c...)
		}
		if len(all) == 0 {
			errs <- nil
			return
		}
		_, err := self.conn.Write(all)
		errs <- err
	}()
	go func() {
		if op.Trig {
			select {
			case <-trig:
			case <-time.After(400 * time.Millisecond):
			}
		}
		for _, c := range crossChunks {
			if _, err := other.conn.Write(c); err != nil {
				errs <- err
				return
			}
		}
		errs <- nil
	}()
	var werr error
	for i := 0; i < 2; i++ {
		if err := <-errs; err != nil && werr == nil {
			werr = err
		}
	}
	other.mu.Lock()
	other.onBlockOpen = nil
	other.mu.Unlock()
	if werr != nil {
		return fail("writing a burst from "+x+" and "+y, werr)
	}

	// three barriers: x→y (everything Main produced has reached y, what it sent back to x is on x's
	// connection), y→x (likewise for Cross; x has everything), x→y (y has what Cross sent back to it)
	barrier := func(from *endpoint, to *endpoint, bsid uint32) (uint32, []Frame, error) {
		r.seq++
		b := r.seq
		from.conn.SetWriteDeadline(time.Now().Add(r.timeout))
		if err := from.fr.WritePriority(bsid, http2.PriorityParam{StreamDep: b}); err != nil {
			return b, nil, err
		}
		fs, err := to.waitBarrier(bsid, b, r.timeout)
		return b, fs, err
	}
	b1, y1, err := barrier(self, other, bsidSelf)
	if err != nil {
		return fail(fmt.Sprintf("barrier %s→%s after a burst", x, y), err)
	}
	b2, x2, err := barrier(other, self, bsidOther)
	if err != nil {
		return fail(fmt.Sprintf("barrier %s→%s after a burst", y, x), err)
	}
	b3, y3, err := barrier(self, other, bsidSelf)
	if err != nil {
		return fail(fmt.Sprintf("second barrier %s→%s after a burst", x, y), err)
	}
	yAll := append(append([]Frame(nil), y1...), y3...)
	r.observe(other, out, in, yAll, false, false)
	r.observe(self, in, out, x2, false, false)
	atY, atX := splitRecv(yAll), splitRecv(x2)

	var steps []*Step
	for i := range mainReal {
		m := &mainReal[i]
		steps = append(steps, &Step{Op: *m, FwdQ: atY.takeQ(m), FwdD: atY.takeD(m), BackD: atX.takeW(m)})
	}
	nMain := len(steps)
	for i := range crossReal {
		c := &crossReal[i]
		steps = append(steps, &Step{Op: *c, FwdQ: atX.takeQ(c), FwdD: atX.takeD(c), BackD: atY.takeW(c)})
	}
	// what could not be attributed is shown with the last op of its sender (the acceptor rejects it)
	surplus := func(st *Step, fromY, fromX *burstRecv) {
		st.FwdQ = append(st.FwdQ, fromY.q...)
		st.FwdD = append(st.FwdD, fromY.d...)
		st.BackD = append(st.BackD, fromX.w...)
		fromY.q, fromY.d, fromX.w = nil, nil, nil
	}
	if nMain > 0 {
		surplus(steps[nMain-1], atY, atX)
	}
	if len(steps) > nMain {
		surplus(steps[len(steps)-1], atX, atY)
	}
	for _, rest := range [][]Frame{atY.q, atY.d, atY.w, atX.q, atX.d, atX.w} {
		for i := range rest {
			if len(r.res.Late) < 10 {
				r.res.Late = append(r.res.Late, "burst:"+rest[i].Tag())
			}
		}
	}
	r.res.Ops = append(r.res.Ops, op)
	for _, st := range steps {
		st.render()
		r.res.Lines = append(r.res.Lines, st.Line)
		r.res.OpIndex = append(r.res.OpIndex, -1)
	}
	for _, b := range []struct {
		side string
		bsid uint32
		seq  uint32
	}{{x, bsidSelf, b1}, {y, bsidOther, b2}, {x, bsidSelf, b3}} {
		bs := Step{Op: Op{Side: b.side, Kind: "prio", Sid: b.bsid, Dep: b.seq, Barrier: true}, FwdQ: []Frame{{T: 'Y', Sid: b.bsid, Dep: b.seq}}}
		bs.render()
		r.res.Lines = append(r.res.Lines, bs.Line)
		r.res.OpIndex = append(r.res.OpIndex, -1)
	}
	r.lastStep = nil
	return true
}
