// Package h2rig drives the HTTP/2 relay of /repo/internal/martian/h2 (`Config.Proxy`) between two
// raw-frame endpoints and turns what they observe into a trace for the Lean acceptor and property
// checker (Model/H2Relay.lean, Model/H2Check.lean).  Shared by the C09 and C10 scenarios.
package h2rig

import (
	"fmt"
	"strconv"
	"strings"
)

// Field is one header field of a generated header list.  The value is either V, or VLen printable
// octets derived from VSeed (keeps case files small for 40 KiB blocks).
type Field struct {
	N     string `json:"n"`
	V     string `json:"v,omitempty"`
	VLen  int    `json:"vlen,omitempty"`
	VSeed uint32 `json:"vseed,omitempty"`
	Sens  bool   `json:"sens,omitempty"`
	// How the SENDING endpoint represents the field (RFC 7541 6.1-6.2).  Raw = false: x/net's
	// hpack.Encoder decides (indexed, literal with incremental indexing, literal without indexing for a
	// field larger than the table, literal never indexed for Sens; Huffman where shorter; name indexed
	// where the tables have it).  Raw = true: the rig's own writer (hpack_raw.go) emits a literal that
	// leaves the dynamic table alone - never indexed (6.2.3) for Sens, without indexing (6.2.2)
	// otherwise - with the name as a static-table index or (NameLit) spelled out, and the strings
	// Huffman-coded where shorter (Huff 0), always (1) or never (2).  The header list is the same.
	Raw     bool `json:"raw,omitempty"`
	Huff    int  `json:"huff,omitempty"`
	NameLit bool `json:"name_lit,omitempty"`
}

func (f Field) Value() string {
	if f.VLen == 0 {
		return f.V
	}
	const al = "abcdefghijklmnopqrstuvwxyzABCDEFGHIJKLMNOPQRSTUVWXYZ0123456789-_.~/+= "
	b := make([]byte, f.VLen)
	s := uint64(f.VSeed)*0x9e3779b97f4a7c15 + 1
	for i := range b {
		s ^= s << 13
		s ^= s >> 7
		s ^= s << 17
		b[i] = al[s%uint64(len(al))]
	}
	return string(b)
}

// Op is one frame written by one raw endpoint ("c" = client side of the relay, "s" = server side).
type Op struct {
	Side string `json:"side"`
	Kind string `json:"kind"` // data hdr cont pp prio rst wu set ack ping goaway raw | sleep | burst
	Sid  uint32 `json:"sid,omitempty"`

	// data
	Len      int    `json:"len,omitempty"`
	DataSeed uint32 `json:"dseed,omitempty"`
	Padded   bool   `json:"padded,omitempty"` // PADDED flag (DATA; HEADERS when Pad > 0)
	Pad      int    `json:"pad,omitempty"`    // octets of padding
	ES       bool   `json:"es,omitempty"`

	// hdr / pp / cont: Fields is the header list (on hdr and pp); Cut = octets of the sender's encoded
	// block carried by this frame (the frame has END_HEADERS iff nothing is left after it)
	Fields []Field `json:"fields,omitempty"`
	Cut    int     `json:"cut,omitempty"`
	Dep    uint32  `json:"dep,omitempty"`
	Excl   bool    `json:"excl,omitempty"`
	Weight uint8   `json:"weight,omitempty"`

	Promised uint32      `json:"promised,omitempty"`
	Code     uint32      `json:"code,omitempty"`
	Inc      uint32      `json:"inc,omitempty"`
	Settings [][2]uint32 `json:"settings,omitempty"`
	Ack      bool        `json:"ack,omitempty"`
	PingData uint64      `json:"pingdata,omitempty"`
	Last     uint32      `json:"last,omitempty"`
	DebugLen int         `json:"debuglen,omitempty"`
	// raw: a frame of type Typ (one the Framer does not know) with Len octets of payload
	Typ uint8 `json:"typ,omitempty"`

	// sleep: the schedule pauses for Ms milliseconds (end-to-end family: the connection outlives the
	// proxy's HTTP/1 timeouts); no frame is written and no trace step results
	Ms int `json:"ms,omitempty"`
	// burst: Main is written back to back by Side, without barriers, while the other side writes Cross
	// concurrently (Trig: as soon as it sees a header block begin, otherwise at once); three barriers
	// follow.  A "hdr"/"pp" in either list is continued automatically (the realised list names the
	// CONTINUATION frames), so that each list keeps to RFC 7540 6.10 on its own connection.
	Main  []Op `json:"main,omitempty"`
	Cross []Op `json:"cross,omitempty"`
	Trig  bool `json:"trig,omitempty"`
	// SlowUs: both endpoints read a header block slowly during the burst (microseconds per frame)
	SlowUs int `json:"slow_us,omitempty"`

	// LateApply (set, HEADER_TABLE_SIZE): the receiving endpoint keeps encoding with its old table for
	// its next header block, as a peer does whose HEADERS crossed the SETTINGS in flight (F15).
	LateApply bool `json:"late_apply,omitempty"`
	// TblUpd (hdr / pp): before it encodes this block the sender's HPACK encoder signals a dynamic
	// table size of its own choice (RFC 7541 4.2: any size up to the HEADER_TABLE_SIZE in force for it;
	// the executor clamps it to that) - the block then begins with a dynamic table size update (6.3)
	TblUpd *uint32 `json:"tbl_upd,omitempty"`

	// filled in while running (not part of the input)
	EH       bool `json:"r_eh,omitempty"`
	FragLen  int  `json:"r_frag,omitempty"`
	ReencLen int  `json:"r_reenc,omitempty"`
	ListID   int  `json:"r_list,omitempty"`
	// RawSent: fields of the block written by the rig's own writer (a field drawn Raw goes through the
	// endpoint's encoder when that has a table size update to signal first)
	RawSent int `json:"r_raw,omitempty"`
	// SizeUpd: the dynamic table size updates the sender's completed block begins with; DecErr: what a
	// decoder kept the way the unchanged relay keeps its own (table size = every HEADER_TABLE_SIZE
	// value as soon as it is relayed, size updates of any value accepted) says of the completed block,
	// "" when it decodes it to the list that was sent
	SizeUpd []uint32 `json:"r_upd,omitempty"`
	DecErr  string   `json:"r_decerr,omitempty"`
	Barrier bool     `json:"-"`
}

// Case is one replayable schedule.  With Ops empty the schedule is generated (adaptively) from Seed
// and Params; Run returns the realised Ops so that the case replays verbatim.
type Case struct {
	Kind   string `json:"kind"` // "h2"
	Seed   uint64 `json:"seed"`
	Params Params `json:"params"`
	Ops    []Op   `json:"ops,omitempty"`
	// Final: the schedule ends with the epilogue that opens every window, so delivery is judged.
	Final bool   `json:"final"`
	Note  string `json:"note,omitempty"`
	// TimeoutMs: how long a barrier is waited for (default 12 s); witnesses of findings that stop a
	// relay direction use a short one.
	TimeoutMs int `json:"timeout_ms,omitempty"`
}

// Params steer the generator.
type Params struct {
	NOps     int  `json:"nops"`
	Streams  int  `json:"streams"`
	Tbl0C    bool `json:"tbl0_c"` // client announces HEADER_TABLE_SIZE 0 first (relay's encoder towards it is stateless)
	Tbl0S    bool `json:"tbl0_s"`
	Profile  int  `json:"profile"`   // generator weighting profile
	Killers  bool `json:"killers"`   // allow a final op of a class known to stop a relay direction
	MaxData  int  `json:"max_data"`  // upper bound of DATA payload sizes
	BigHdrs  bool `json:"big_hdrs"`  // header blocks up to 40 KiB
	FlowOnly bool `json:"flow_only"` // mostly DATA / WINDOW_UPDATE / SETTINGS
	// TblAdopt: the raw endpoints' HPACK encoders take a HEADER_TABLE_SIZE above 4096 up (their limit is
	// lifted the way the relay lifts its own encoder's); otherwise they stay at 4096 like net/http, grpc-go
	TblAdopt bool `json:"tbl_adopt,omitempty"`
	// TblEpisodes: table-size episodes woven into the schedule (gen_table.go): HEADER_TABLE_SIZE raised
	// above 4096, taken up by the peer's encoder, lowered again with a header block in flight
	TblEpisodes int `json:"tbl_episodes,omitempty"`
	// Conc > 0: the concurrent family - Conc bursts in which a header block of many CONTINUATION frames
	// races with every other writer of the same destination (gen_conc.go)
	Conc int `json:"conc,omitempty"`
	// DebugLogs, Procs: the options of h2.Config that must not change a relayed octet.  DebugLogs =
	// Config.EnableDebugLogs.  Procs = Config.StreamProcessorFactories: 0 none, 1 one factory that
	// returns (nil, nil) (bypassed by Proxy), 2 one factory of pass-through processors (every call handed
	// to the sink of its direction), 3 a pass-through factory chained with a bypassed one
	DebugLogs bool `json:"debug_logs,omitempty"`
	Procs     int  `json:"procs,omitempty"`
	// E2E: the relay is reached the way a client reaches it - CONNECT to a martian.Proxy that
	// intercepts TLS and negotiates h2 - and the connection is kept for HoldMs (rig_e2e.go)
	E2E *E2E `json:"e2e,omitempty"`
}

// E2E configures the proxy of an end-to-end case (all durations in milliseconds, 0 = not set).
type E2E struct {
	IdleMs       int    `json:"idle_ms,omitempty"`
	ReadMs       int    `json:"read_ms,omitempty"`
	ReadHeaderMs int    `json:"read_header_ms,omitempty"`
	WriteMs      int    `json:"write_ms,omitempty"`
	MITMHsMs     int    `json:"mitm_handshake_ms,omitempty"`
	HoldMs       int    `json:"hold_ms"`
	Mode         string `json:"mode"` // "idle" (silent during the hold, then busy) | "busy" (a frame every few tens of ms)
}

// Frame is a frame as received by a raw endpoint.
type Frame struct {
	T        byte // D H C P Y R S A G Z W U
	Sid      uint32
	ES, EH   bool
	Len      int // data / fragment / debug length
	Dep      uint32
	Excl     bool
	Weight   uint8
	Promised uint32
	Code     uint32
	Inc      uint32
	Settings [][2]uint32
	Ack      bool
	PingData uint64
	Last     uint32
	ListID   int // annotation: header list decoded by the receiver (on the frame with END_HEADERS)
	Typ      uint8
	data     []byte
}

func b01(b bool) string {
	if b {
		return "1"
	}
	return "0"
}

// Tag renders a frame for the Lean driver.
func (f *Frame) Tag() string {
	switch f.T {
	case 'D':
		return fmt.Sprintf("D,%d,%s,%d", f.Sid, b01(f.ES), f.Len)
	case 'H':
		return fmt.Sprintf("H,%d,%s,%s,%d,%s,%d,%d,%d", f.Sid, b01(f.ES), b01(f.EH), f.Dep, b01(f.Excl), f.Weight, f.Len, f.ListID)
	case 'C':
		return fmt.Sprintf("C,%d,%s,%d,%d", f.Sid, b01(f.EH), f.Len, f.ListID)
	case 'P':
		return fmt.Sprintf("P,%d,%d,%s,%d,%d", f.Sid, f.Promised, b01(f.EH), f.Len, f.ListID)
	case 'Y':
		return fmt.Sprintf("Y,%d,%d,%s,%d", f.Sid, f.Dep, b01(f.Excl), f.Weight)
	case 'R':
		return fmt.Sprintf("R,%d,%d", f.Sid, f.Code)
	case 'S':
		var sb strings.Builder
		sb.WriteString("S")
		for _, kv := range f.Settings {
			fmt.Fprintf(&sb, ",%d,%d", kv[0], kv[1])
		}
		return sb.String()
	case 'A':
		return "A"
	case 'G':
		return fmt.Sprintf("G,%s,%d", b01(f.Ack), f.PingData)
	case 'Z':
		return fmt.Sprintf("Z,%d,%d,%d", f.Last, f.Code, f.Len)
	case 'W':
		return fmt.Sprintf("W,%d,%d", f.Sid, f.Inc)
	}
	return "U," + strconv.Itoa(int(f.Typ))
}

func (f *Frame) direct() bool {
	switch f.T {
	case 'S', 'A', 'G', 'Z', 'W', 'U':
		return true
	}
	return false
}

// Tag renders an op (as realised) for the Lean driver.
func (o *Op) Tag() string {
	switch o.Kind {
	case "data":
		pad := "-"
		if o.Padded {
			pad = strconv.Itoa(o.Pad)
		}
		return fmt.Sprintf("%s,data,%d,%d,%s,%s", o.Side, o.Sid, o.Len, pad, b01(o.ES))
	case "hdr":
		return fmt.Sprintf("%s,hdr,%d,%s,%s,%d,%s,%d,%d,%d,%d", o.Side, o.Sid, b01(o.ES), b01(o.EH), o.Dep, b01(o.Excl), o.Weight, o.FragLen, o.ReencLen, o.ListID)
	case "cont":
		return fmt.Sprintf("%s,cont,%d,%s,%d,%d,%d", o.Side, o.Sid, b01(o.EH), o.FragLen, o.ReencLen, o.ListID)
	case "pp":
		return fmt.Sprintf("%s,pp,%d,%d,%s,%d,%d,%d", o.Side, o.Sid, o.Promised, b01(o.EH), o.FragLen, o.ReencLen, o.ListID)
	case "prio":
		return fmt.Sprintf("%s,prio,%d,%d,%s,%d", o.Side, o.Sid, o.Dep, b01(o.Excl), o.Weight)
	case "rst":
		return fmt.Sprintf("%s,rst,%d,%d", o.Side, o.Sid, o.Code)
	case "wu":
		return fmt.Sprintf("%s,wu,%d,%d", o.Side, o.Sid, o.Inc)
	case "set":
		var sb strings.Builder
		fmt.Fprintf(&sb, "%s,set", o.Side)
		for _, kv := range o.Settings {
			fmt.Fprintf(&sb, ",%d,%d", kv[0], kv[1])
		}
		return sb.String()
	case "ack":
		return o.Side + ",ack"
	case "ping":
		return fmt.Sprintf("%s,ping,%s,%d", o.Side, b01(o.Ack), o.PingData)
	case "goaway":
		return fmt.Sprintf("%s,goaway,%d,%d,%d", o.Side, o.Last, o.Code, o.DebugLen)
	case "raw":
		return fmt.Sprintf("%s,raw,%d", o.Side, o.Typ)
	}
	return o.Side + ",unknown"
}

// Step is one op with everything both endpoints received before the barrier pair completed.
type Step struct {
	Op    Op      `json:"op"`
	Tag   string  `json:"tag"`  // op as realised (Lean syntax)
	FwdQ  []Frame `json:"-"`    // at the other endpoint, through the relay's queue
	FwdD  []Frame `json:"-"`    // at the other endpoint, written directly
	BackQ []Frame `json:"-"`    // at the sender, through the opposite queue
	BackD []Frame `json:"-"`    // at the sender, written directly
	Line  string  `json:"line"` // the whole step in Lean syntax
}

func tags(fs []Frame) string {
	if len(fs) == 0 {
		return "~"
	}
	ss := make([]string, len(fs))
	for i := range fs {
		ss[i] = fs[i].Tag()
	}
	return strings.Join(ss, ";")
}

func (s *Step) render() {
	s.Tag = s.Op.Tag()
	s.Line = s.Tag + "/" + tags(s.FwdQ) + "/" + tags(s.FwdD) + "/" + tags(s.BackQ) + "/" + tags(s.BackD)
}

// Result is what running a case against the real relay produced.
type Result struct {
	Ops   []Op     `json:"ops"`   // realised schedule (without barriers)
	Lines []string `json:"lines"` // trace for the Lean driver (ops and barriers)
	// OpIndex[i] = index into Ops of trace line i, or -1 for a barrier step
	OpIndex []int `json:"op_index"`
	// Hung: a barrier did not come back (or a write timed out) at this trace index; "" otherwise
	Hung      string         `json:"hung,omitempty"`
	HungAt    int            `json:"hung_at,omitempty"`
	Late      []string       `json:"late,omitempty"`      // frames that arrived after the last barrier
	DataBad   []string       `json:"data_bad,omitempty"`  // DATA octets differing from what was sent
	BlockBad  []string       `json:"block_bad,omitempty"` // forwarded header block ≠ mirror encoder's block
	DecodeErr []string       `json:"decode_err,omitempty"`
	ProxyErr  string         `json:"proxy_err,omitempty"`
	RelayLog  []string       `json:"relay_log,omitempty"` // what the relay logged (errors ending a direction)
	ExitSlow  bool           `json:"exit_slow,omitempty"`
	Dump      string         `json:"dump,omitempty"`
	Final     bool           `json:"final"`
	Crashed   string         `json:"crashed,omitempty"` // child process died while running this case (stderr tail)
	Stats     map[string]int `json:"stats,omitempty"`
	// HdrObs: the first few small header lists as sent and as decoded by the receiving endpoint
	// (compared with Model/H2Headers.lean `relayList`)
	HdrObs []HdrObs `json:"hdr_obs,omitempty"`
	// WireBad: RFC 7540 6.10 violated in the order in which frames ARRIVED at a raw endpoint (judged
	// by its read loop, frame by frame); Arrival: that order, per endpoint (concurrent / end-to-end cases)
	WireBad []string            `json:"wire_bad,omitempty"`
	Arrival map[string][]string `json:"arrival,omitempty"`
}

// HdrObs is one header list at both ends of the relay (fields as name:value:sensitive, hex).
type HdrObs struct {
	Side string `json:"side"` // receiving endpoint
	Sid  uint32 `json:"sid"`
	Sent string `json:"sent"`
	Got  string `json:"got"`
}
