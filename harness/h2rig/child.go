package h2rig

import (
	"bufio"
	"bytes"
	"encoding/json"
	"fmt"
	"io"
	"os"
	"os/exec"
	"runtime"
	"sync"
	"time"
)

// The relay runs its own goroutines; a panic there cannot be recovered by the harness.  Cases are
// therefore executed in child processes (this same binary, re-executed with VERIF_H2_CHILD=1): a
// child that dies takes one case with it, which the parent reports as a crash.

const childEnv = "VERIF_H2_CHILD"

func init() {
	if os.Getenv(childEnv) == "1" {
		childMain()
		os.Exit(0)
	}
}

// RunCase executes one case in this process.
func RunCase(c Case) (res *Result) {
	run, err := NewRunnerFor(c.Params)
	for try := 0; err != nil && c.Params.E2E != nil && try < 2; try++ {
		run, err = NewRunnerFor(c.Params)
	}
	if err != nil {
		return &Result{Hung: "rig: " + err.Error(), HungAt: 0, Stats: map[string]int{"rig-error": 1}}
	}
	if c.TimeoutMs > 0 {
		run.timeout = time.Duration(c.TimeoutMs) * time.Millisecond
	}
	if len(c.Ops) > 0 {
		done := true
		for _, op := range c.Ops {
			if !run.Do(op) {
				done = false
				break
			}
		}
		run.res.Final = c.Final && done
	} else if c.Params.Conc > 0 {
		generateConc(c.Seed, c.Params, run)
	} else {
		generate(c.Seed, c.Params, run)
	}
	return run.Close()
}

func childMain() {
	installRelayLog() // (this runs inside an init function: other init functions of the package may not have run)
	in := bufio.NewReaderSize(os.Stdin, 1<<20)
	out := bufio.NewWriter(os.Stdout)
	n := 0
	for {
		line, err := in.ReadBytes('\n')
		if len(line) > 0 {
			var c Case
			if jerr := json.Unmarshal(line, &c); jerr != nil {
				fmt.Fprintf(os.Stderr, "h2rig child: bad case: %v\n", jerr)
				os.Exit(3)
			}
			res := RunCase(c)
			b, _ := json.Marshal(res)
			out.Write(b)
			out.WriteByte('\n')
			out.Flush()
			n++
			if n%20 == 0 {
				runtime.GC() // the relay never closes its TLS connection; finalizers release the descriptors
			}
		}
		if err != nil {
			return
		}
	}
}

type child struct {
	cmd    *exec.Cmd
	in     io.WriteCloser
	out    *bufio.Reader
	stderr *tailBuf
}

type tailBuf struct {
	mu sync.Mutex
	b  []byte
}

func (t *tailBuf) Write(p []byte) (int, error) {
	t.mu.Lock()
	t.b = append(t.b, p...)
	if len(t.b) > 16000 {
		t.b = t.b[len(t.b)-16000:]
	}
	t.mu.Unlock()
	return len(p), nil
}

func (t *tailBuf) String() string { t.mu.Lock(); defer t.mu.Unlock(); return string(t.b) }

func startChild() (*child, error) {
	exe, err := os.Executable()
	if err != nil {
		return nil, err
	}
	cmd := exec.Command(exe)
	cmd.Env = append(os.Environ(), childEnv+"=1")
	in, err := cmd.StdinPipe()
	if err != nil {
		return nil, err
	}
	outp, err := cmd.StdoutPipe()
	if err != nil {
		return nil, err
	}
	tb := &tailBuf{}
	cmd.Stderr = tb
	if err := cmd.Start(); err != nil {
		return nil, err
	}
	return &child{cmd: cmd, in: in, out: bufio.NewReaderSize(outp, 1<<20), stderr: tb}, nil
}

func (c *child) stop() {
	c.in.Close()
	done := make(chan struct{})
	go func() { c.cmd.Wait(); close(done) }()
	select {
	case <-done:
	case <-time.After(2 * time.Second):
		c.cmd.Process.Kill()
		<-done
	}
}

// run sends one case and waits for its result; a dead or silent child yields a Crashed result.
func (c *child) run(cs Case, timeout time.Duration) (*Result, bool) {
	b, _ := json.Marshal(cs)
	if _, err := c.in.Write(append(b, '\n')); err != nil {
		c.cmd.Process.Kill()
		c.cmd.Wait()
		return &Result{Crashed: "child process gone before the case: " + c.stderr.String()}, false
	}
	type rd struct {
		line []byte
		err  error
	}
	ch := make(chan rd, 1)
	go func() {
		line, err := c.out.ReadBytes('\n')
		ch <- rd{line, err}
	}()
	select {
	case x := <-ch:
		if x.err != nil {
			c.cmd.Wait()
			return &Result{Crashed: fmt.Sprintf("process running the relay died (%v): %s", c.cmd.ProcessState, tail(c.stderr.String(), 3000))}, false
		}
		var res Result
		if err := json.Unmarshal(bytes.TrimSpace(x.line), &res); err != nil {
			c.cmd.Process.Kill()
			c.cmd.Wait()
			return &Result{Crashed: "unreadable result from child: " + err.Error()}, false
		}
		return &res, true
	case <-time.After(timeout):
		c.cmd.Process.Kill()
		c.cmd.Wait()
		return &Result{Crashed: "case did not finish within " + timeout.String() + " (process killed): " + tail(c.stderr.String(), 2000)}, false
	}
}

func tail(s string, n int) string {
	if len(s) > n {
		return "…" + s[len(s)-n:]
	}
	return s
}

// RunAll executes the cases on `workers` child processes and calls each (concurrently) with every
// result.  The machinery failing to start a child is fatal for the caller (returned error).
func RunAll(cases []Case, workers int, each func(i int, c Case, res *Result)) error {
	return RunAllUntil(cases, workers, each, nil)
}

// RunAllUntil is RunAll that stops handing out cases once stop() reports true (a tree on which
// relay after relay falls silent is decided; waiting out hundreds of barrier timeouts adds nothing).
func RunAllUntil(cases []Case, workers int, each func(i int, c Case, res *Result), stop func() bool) error {
	if workers < 1 {
		workers = 1
	}
	if workers > len(cases) {
		workers = len(cases)
	}
	idx := make(chan int)
	var wg sync.WaitGroup
	var firstErr error
	var emu sync.Mutex
	for w := 0; w < workers; w++ {
		wg.Add(1)
		go func() {
			defer wg.Done()
			var ch *child
			defer func() {
				if ch != nil {
					ch.stop()
				}
			}()
			for i := range idx {
				if ch == nil {
					var err error
					ch, err = startChild()
					if err != nil {
						emu.Lock()
						if firstErr == nil {
							firstErr = err
						}
						emu.Unlock()
						continue
					}
				}
				res, alive := ch.run(cases[i], 150*time.Second)
				if !alive {
					ch = nil
				}
				each(i, cases[i], res)
			}
		}()
	}
	for i := range cases {
		if stop != nil && stop() {
			break
		}
		idx <- i
	}
	close(idx)
	wg.Wait()
	return firstErr
}
