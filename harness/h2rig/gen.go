package h2rig

import (
	"fmt"
	"time"

	"github.com/saucelabs/forwarder/verifharness/core"
)

// The generator is adaptive: each raw endpoint keeps the ledger a real endpoint keeps (credit it
// granted, octets it received, what it still expects) and uses it to aim window grants at the
// interesting values (exact fit, one short, small steps).  The realised schedule is returned with
// the result, so a case replays verbatim without the generator.

type rcvLedger struct {
	// tblPending: this receiver changed HEADER_TABLE_SIZE and the other side has not completed a
	// header block since.  x/net's hpack.Decoder rejects a second dynamic-table-size update at the
	// start of a block when its table is not empty (RFC 7541 §4.2 allows two), and hpack.Encoder emits
	// two after "lower, then raise"; so a table size is changed at most once between two blocks.
	tblPending bool
	initWin    int64
	maxFrame   uint32
	tbl0       bool
	wu         map[uint32]int64
	got        map[uint32]int64
	gotTotal   int64
	// octet counts of the frames the relay is expected to hold for this receiver, per stream, oldest
	// first (0 = a zero-cost frame); only a heuristic for choosing increments
	pend map[uint32][]int
}

func (l *rcvLedger) win(s uint32) int64 { return l.initWin + l.wu[s] - l.got[s] }
func (l *rcvLedger) conn() int64        { return 65535 + l.wu[0] - l.gotTotal }

type sendState struct {
	closed   map[uint32]bool
	opened   map[uint32]bool
	cont     bool // a header block is being sent in fragments
	contSid  uint32
	left     int  // octets of the block not sent yet (known after the first fragment)
	nonEmpty bool // the block in flight has at least one field
}

type gen struct {
	r       *core.Rand
	rep     *core.Rand // representations of header fields (a stream of its own: the schedules stay what they were)
	p       Params
	run     *Runner
	rcv     map[string]*rcvLedger // by receiving side
	snd     map[string]*sendState // by sending side
	streams []uint32
	nextC   uint32
	nextP   uint32
	retired int
}

var fieldNames = []string{"accept", "accept-encoding", "cookie", "x-trace", "x-request-id", "content-type", "user-agent",
	"grpc-status", "grpc-message", "x-checksum", "etag", "cache-control", "x-a", "x-b", "authorization", "te"}
var fieldValues = []string{"", "a", "gzip, deflate", "application/grpc", "0", "trailers", "no-cache", "x=1; y=2", "Mozilla/5.0 (X11; Linux x86_64)"}

func other(side string) string {
	if side == "c" {
		return "s"
	}
	return "c"
}

func (g *gen) genFields(big bool, request bool, trailer bool) []Field {
	r := g.r
	var fs []Field
	if r.Chance(4) {
		return nil // empty header block
	}
	if !trailer {
		if request {
			fs = append(fs, Field{N: ":method", V: core.Pick(r, []string{"GET", "POST", "PUT"})}, Field{N: ":scheme", V: "https"},
				Field{N: ":path", V: "/" + core.Pick(r, []string{"", "a", "svc/Method", "index.html"})}, Field{N: ":authority", V: "origin.test"})
		} else {
			fs = append(fs, Field{N: ":status", V: core.Pick(r, []string{"200", "204", "404", "500"})})
		}
	}
	n := r.Range(0, 6)
	for i := 0; i < n; i++ {
		f := Field{N: core.Pick(r, fieldNames)}
		switch r.Intn(5) {
		case 0, 1:
			f.V = core.Pick(r, fieldValues)
		case 2:
			f.VLen, f.VSeed = r.Range(1, 40), uint32(r.Intn(6)) // few distinct values: repeats hit the dynamic table
		default:
			f.VLen, f.VSeed = r.Range(1, 300), uint32(r.U64())
		}
		f.Sens = r.Chance(8)
		fs = append(fs, f)
	}
	if big {
		// push the block towards (and beyond) the frame size limits
		total := core.Pick(r, []int{3000, 9000, 16000, 17000, 24000, 33000, 40000})
		for total > 0 {
			l := r.Range(200, 6000)
			if l > total {
				l = total
			}
			fs = append(fs, Field{N: core.Pick(r, fieldNames), VLen: l, VSeed: uint32(r.U64()), Sens: r.Chance(5)})
			total -= l
		}
	}
	return represent(g.rep, fs)
}

// represent draws, field by field, how the sending endpoint writes the list (Field.Raw / Huff /
// NameLit): a third of the fields leave the endpoint's hpack.Encoder aside and go out as literals
// without indexing / never indexed, some more become sensitive (never indexed by either writer).
func represent(r *core.Rand, fs []Field) []Field {
	for i := range fs {
		f := &fs[i]
		if !f.Sens && f.N[0] != ':' && r.Chance(10) {
			f.Sens = true
		}
		if r.Chance(33) {
			f.Raw, f.Huff, f.NameLit = true, r.Intn(3), r.Chance(35)
		}
	}
	return fs
}

func (g *gen) newStream(side string) uint32 {
	var id uint32
	if side == "c" || g.r.Chance(50) {
		id = g.nextC
		g.nextC += 2
	} else {
		id = g.nextP
		g.nextP += 2
	}
	g.streams = append(g.streams, id)
	return id
}

// usable streams for sending from side
func (g *gen) sendable(side string) []uint32 {
	var out []uint32
	for _, s := range g.streams {
		if !g.snd[side].closed[s] {
			out = append(out, s)
		}
	}
	return out
}

func (g *gen) retire() {
	// drop streams closed in both directions when there are too many
	var keep []uint32
	for _, s := range g.streams {
		if g.snd["c"].closed[s] && g.snd["s"].closed[s] && len(g.streams)-g.retired > 1 {
			g.retired++
			continue
		}
		keep = append(keep, s)
	}
	g.streams = keep
	g.retired = 0
}

func (g *gen) dataLen(limit int) int {
	r := g.r
	var n int
	switch r.Intn(20) {
	case 0:
		n = 0
	case 1, 2, 3, 4:
		n = r.Range(1, 64)
	case 5, 6, 7, 8, 9:
		n = r.Range(65, 2000)
	case 10, 11, 12, 13, 14, 15:
		n = r.Range(2001, 16384)
	case 16:
		n = 16384
	default:
		n = r.Range(1, limit)
	}
	if n > limit {
		n = limit
	}
	return n
}

// chunk sizes the relay will queue for a DATA frame of n octets under limit m (generator heuristic)
func chunksOf(n int, m int) []int {
	if m <= 0 || n <= m {
		return []int{n}
	}
	var cs []int
	for n > m {
		cs = append(cs, m)
		n -= m
	}
	return append(cs, n)
}

// next picks the next op. It returns false when the schedule is complete.
func (g *gen) next(i int) (Op, bool) {
	r := g.r
	side := "c"
	if r.Chance(50) {
		side = "s"
	}
	// a header block in flight is finished first: no other frame may be written on that connection,
	// not even the barrier, so nothing else can be sequenced until END_HEADERS
	for _, s := range []string{"c", "s"} {
		if g.snd[s].cont {
			return g.contOp(s), true
		}
	}
	me := g.rcv[side] // this side as a receiver
	wFlow, wHdr, wSet, wMisc := 40, 25, 10, 8
	switch g.p.Profile {
	case 1:
		wFlow, wHdr, wSet, wMisc = 70, 10, 8, 3
	case 2:
		wFlow, wHdr, wSet, wMisc = 20, 55, 6, 8
	case 3:
		wFlow, wHdr, wSet, wMisc = 45, 10, 30, 4
	}
	if g.p.FlowOnly {
		wHdr, wMisc = 4, 1
	}
	wGrant := 45
	x := r.Intn(wFlow + wHdr + wSet + wMisc + wGrant)
	switch {
	case x < wFlow:
		return g.dataOp(side), true
	case x < wFlow+wHdr:
		return g.hdrOp(side), true
	case x < wFlow+wHdr+wSet:
		return g.settingsOp(side, me), true
	case x < wFlow+wHdr+wSet+wMisc:
		return g.miscOp(side), true
	default:
		return g.grantOp(side, me), true
	}
}

func (g *gen) contOp(side string) Op {
	st := g.snd[side]
	left := st.left
	cut := left
	if left > 1 && g.r.Chance(60) {
		cut = g.r.Range(0, left) // may be an empty CONTINUATION
	}
	if m := g.run.FrameLimit(side); cut > m {
		cut = m
	}
	st.left -= cut
	if st.left <= 0 {
		st.cont = false
	}
	return Op{Side: side, Kind: "cont", Sid: st.contSid, Cut: cut}
}

func (g *gen) dataOp(side string) Op {
	r := g.r
	ss := g.sendable(side)
	if len(ss) == 0 || (len(g.streams) < g.p.Streams && r.Chance(15)) {
		return g.hdrOp(side)
	}
	sid := core.Pick(r, ss)
	if !g.snd[side].opened[sid] {
		return g.openOp(side, sid)
	}
	// frames up to the limit the sender is still entitled to: larger than the receiver's current
	// limit while a lowered MAX_FRAME_SIZE is not acknowledged yet - the relay has to split those
	limit := g.run.FrameLimit(side)
	cur := int(g.rcv[other(side)].maxFrame)
	if g.p.MaxData > 0 && limit > g.p.MaxData {
		limit = g.p.MaxData
	}
	op := Op{Side: side, Kind: "data", Sid: sid, Len: g.dataLen(limit), DataSeed: uint32(r.U64()), ES: r.Chance(8)}
	if limit > cur && r.Chance(50) {
		op.Len = r.Range(cur+1, limit)
		op.ES = r.Chance(40)
	}
	if r.Chance(6) {
		op.Padded, op.Pad = true, core.Pick(r, []int{0, 1, 7, 20, 255})
		if op.Len+op.Pad+1 > limit {
			op.Len = limit - op.Pad - 1
		}
	}
	if op.Len == 0 && !op.Padded && r.Chance(70) {
		op.ES = true // the empty END_STREAM DATA frame gRPC-style clients send
	}
	if op.ES {
		g.snd[side].closed[sid] = true
	}
	return op
}

func (g *gen) openOp(side string, sid uint32) Op {
	r := g.r
	g.snd[side].opened[sid] = true
	op := Op{Side: side, Kind: "hdr", Sid: sid, Fields: g.genFields(g.p.BigHdrs && r.Chance(35), side == "c", false), Cut: -1, ES: r.Chance(10)}
	g.decorateHdr(&op)
	return op
}

// decorateHdr adds priority, padding and fragmentation to a HEADERS op.
func (g *gen) decorateHdr(op *Op) {
	r := g.r
	if r.Chance(25) {
		op.Dep, op.Excl, op.Weight = uint32(r.Intn(8)), r.Chance(30), uint8(r.Intn(256))
		if op.Dep == 0 && !op.Excl && op.Weight == 0 {
			op.Weight = 15
		}
	}
	if r.Chance(8) {
		op.Padded, op.Pad = true, r.Range(1, 60)
	}
	if r.Chance(30) {
		// fragment: the first frame carries Cut octets (the executor clamps it to the block length)
		op.Cut = core.Pick(r, []int{0, 1, 5, 30, 200, 1000, 5000, 16000})
	}
	if op.ES {
		g.snd[op.Side].closed[op.Sid] = true
	}
}

func (g *gen) hdrOp(side string) Op {
	r := g.r
	ss := g.sendable(side)
	if len(ss) == 0 || (len(g.streams) < g.p.Streams && r.Chance(40)) {
		g.retire()
		if len(g.streams) < g.p.Streams || len(ss) == 0 {
			sid := g.newStream(side)
			return g.openOp(side, sid)
		}
	}
	sid := core.Pick(r, ss)
	if !g.snd[side].opened[sid] {
		return g.openOp(side, sid)
	}
	switch x := r.Intn(10); {
	case x < 5:
		// trailers (END_STREAM) or a further header block (1xx-style)
		op := Op{Side: side, Kind: "hdr", Sid: sid, Fields: g.genFields(g.p.BigHdrs && r.Chance(25), false, true), Cut: -1, ES: r.Chance(75)}
		g.decorateHdr(&op)
		return op
	case x < 7:
		promised := g.nextP
		g.nextP += 2
		if len(g.streams) < g.p.Streams+2 {
			g.streams = append(g.streams, promised)
		}
		// the stock Framer the relay reads with rejects CONTINUATION after PUSH_PROMISE, so a
		// fragmented promise is only produced as a final "killer" op (see killers)
		return Op{Side: side, Kind: "pp", Sid: sid, Promised: promised, Fields: g.genFields(false, true, false), Cut: -1}
	case x < 8:
		g.snd[side].closed[sid] = true
		return Op{Side: side, Kind: "rst", Sid: sid, Code: uint32(core.Pick(r, []int{0, 1, 2, 5, 7, 8, 11}))}
	default:
		return Op{Side: side, Kind: "prio", Sid: sid, Dep: uint32(r.Intn(10)), Excl: r.Chance(30), Weight: uint8(r.Intn(256))}
	}
}

func (g *gen) settingsOp(side string, me *rcvLedger) Op {
	r := g.r
	var kvs [][2]uint32
	add := func(id, v uint32) { kvs = append(kvs, [2]uint32{id, v}) }
	pickWin := func() uint32 {
		switch r.Intn(8) {
		case 0:
			return 0
		case 1:
			return uint32(r.Range(1, 200))
		case 2, 3:
			return uint32(r.Range(200, 20000))
		case 4:
			return 65535
		case 5:
			return 65536
		case 6:
			// move the current value a little, up or down
			d := int64(r.Range(-3000, 3000))
			v := me.initWin + d
			if v < 0 {
				v = 0
			}
			if v > 65536 {
				v = 65536
			}
			return uint32(v)
		default:
			return uint32(r.Range(0, 65536))
		}
	}
	switch x := r.Intn(12); {
	case x >= 10:
		// one frame naming an identifier more than once: the values are processed in the order they
		// appear (RFC 7540 6.5.3), so the LAST one is in force - at this endpoint, at the relay that
		// read the frame, and at the other endpoint that gets it forwarded
		return Op{Side: side, Kind: "set", Settings: g.repeatedSettings(side, me, pickWin)}
	case x < 6:
		add(4, pickWin())
	case x < 8:
		add(5, uint32(core.Pick(r, []int{16384, 16384, 16385, 20000, 32768, 65535, 65536, r.Range(16384, 65536)})))
	case x < 9:
		if me.tbl0 || me.tblPending {
			add(4, pickWin())
		} else {
			add(1, uint32(core.Pick(r, []int{0, 100, 1000, 4096, 8192, 65536})))
		}
	default:
		// several settings in one frame (at most one INITIAL_WINDOW_SIZE: one scan per frame)
		add(5, uint32(r.Range(16384, 65536)))
		add(4, pickWin())
		add(3, uint32(r.Range(1, 1000))) // MAX_CONCURRENT_STREAMS: relayed, no effect on the relay
		if r.Chance(30) {
			add(0x99, 7) // unknown setting: relayed
		}
	}
	return Op{Side: side, Kind: "set", Settings: kvs}
}

// dataOutstanding: some DATA octet written towards `side` has not reached it yet (the relay holds it).
func (g *gen) dataOutstanding(side string) bool {
	d := g.run.dirOf(other(side))
	for sid, sent := range d.sent {
		if len(d.got[sid]) < len(sent) {
			return true
		}
	}
	return false
}

// repeatedSettings builds a SETTINGS frame in which INITIAL_WINDOW_SIZE, MAX_FRAME_SIZE and/or
// HEADER_TABLE_SIZE occur two or three times with different values - the way a stack that appends
// overrides to a list of defaults writes it - between other and unknown identifiers.
//
// The relay has to apply the value in force of INITIAL_WINDOW_SIZE - the last one - once per frame:
// a relay that scans its queues after EACH value releases, under an earlier, larger value, DATA that
// the value in force does not cover (F51, repaired: relay.applySettings).  Such chains are written
// with and without DATA outstanding towards this endpoint: with DATA outstanding a bounded share
// (30 %) of the chains has a non-final value above the last one, aimed with this endpoint's ledger at
// the head frame of a blocked stream (exact fit / one short / one over / everything queued) or the
// 65535 default; the ledger-stream clause judges what arrives - anything released under a non-final
// value is a violation (and a disagreement with the model).
//
// One restriction keeps the schedule inside what x/net's hpack accepts: hpack.Decoder accepts one
// dynamic-table-size update at the start of a block unless its table is empty, and hpack.Encoder
// announces "minimum, then final" after several changes: the last HEADER_TABLE_SIZE of a chain is
// its smallest (and the rule of rcvLedger.tblPending holds).
func (g *gen) repeatedSettings(side string, me *rcvLedger, pickWin func() uint32) [][2]uint32 {
	r := g.r
	type chain struct {
		id   uint32
		vals []uint32
	}
	var chains []chain
	which := r.Intn(10)
	if which < 6 || which == 9 {
		n := r.Range(2, 3)
		last := pickWin()
		vals := make([]uint32, n)
		vals[n-1] = last
		outstanding := g.dataOutstanding(side)
		down := r.Chance(60)
		if outstanding {
			down = r.Chance(30)
		}
		// values that would release the head DATA frame (or all) of a stream this endpoint holds back
		var aims []uint32
		if down && outstanding {
			for _, s := range g.streams {
				p := me.pend[s]
				if len(p) == 0 || p[0] == 0 {
					continue
				}
				all := int64(0)
				for _, l := range p {
					all += int64(l)
				}
				// window of s under a value v: v + (increments - octets received)
				off := me.win(s) - me.initWin
				for _, v := range []int64{int64(p[0]) - off, int64(p[0]) - off - 1, int64(p[0]) - off + 1, all - off} {
					if v > int64(last) && v < 1<<31 {
						aims = append(aims, uint32(v))
					}
				}
			}
		}
		for i := 0; i < n-1; i++ {
			switch {
			case len(aims) > 0 && r.Chance(60):
				vals[i] = core.Pick(r, aims)
			case down && r.Chance(50):
				vals[i] = 65535 // the default, written out before the override
			case down:
				vals[i] = uint32(r.Range(0, 65536))
			default:
				vals[i] = uint32(r.Range(0, int(last)))
			}
		}
		if vals[0] == last && n == 2 {
			vals[0] = last / 2
		}
		chains = append(chains, chain{4, vals})
	}
	if which >= 6 && which <= 8 || which == 9 && r.Chance(50) {
		n := r.Range(2, 3)
		vals := make([]uint32, n)
		for i := range vals {
			vals[i] = uint32(core.Pick(r, []int{16384, 16385, 20000, 32768, 65535, 65536, r.Range(16384, 65536)}))
		}
		if vals[n-1] == vals[0] {
			vals[0] = uint32(core.Pick(r, []int{16384, 65536}))
		}
		chains = append(chains, chain{5, vals})
	}
	if !me.tbl0 && !me.tblPending && r.Chance(25) {
		n := r.Range(2, 3)
		vals := make([]uint32, n)
		lo := uint32(core.Pick(r, []int{0, 100, 1000, 4096}))
		vals[n-1] = lo
		for i := 0; i < n-1; i++ {
			vals[i] = lo + uint32(core.Pick(r, []int{0, 1, 1000, 4096, 60000}))
		}
		chains = append(chains, chain{1, vals})
	}
	// interleave the chains (each keeps its own order) with other identifiers
	var kvs [][2]uint32
	filler := func() {
		switch r.Intn(4) {
		case 0:
			kvs = append(kvs, [2]uint32{3, uint32(r.Range(1, 1000))}) // MAX_CONCURRENT_STREAMS
		case 1:
			kvs = append(kvs, [2]uint32{6, uint32(r.Range(4096, 1<<20))}) // MAX_HEADER_LIST_SIZE
		case 2:
			kvs = append(kvs, [2]uint32{uint32(core.Pick(r, []int{0x99, 0xf0f0, 0x0b})), uint32(r.Intn(100))}) // unknown
		}
	}
	for {
		var live []int
		for i := range chains {
			if len(chains[i].vals) > 0 {
				live = append(live, i)
			}
		}
		if len(live) == 0 {
			break
		}
		i := core.Pick(r, live)
		kvs = append(kvs, [2]uint32{chains[i].id, chains[i].vals[0]})
		chains[i].vals = chains[i].vals[1:]
		if r.Chance(50) {
			filler()
		}
	}
	return kvs
}

func (g *gen) miscOp(side string) Op {
	r := g.r
	switch r.Intn(6) {
	case 0:
		return Op{Side: side, Kind: "ack"}
	case 1, 2, 3:
		return Op{Side: side, Kind: "ping", Ack: r.Chance(40), PingData: r.U64()}
	case 4:
		return Op{Side: side, Kind: "goaway", Last: uint32(r.Intn(20)), Code: uint32(r.Intn(14)), DebugLen: core.Pick(r, []int{0, 0, 5, 300})}
	default:
		ss := g.streams
		if len(ss) == 0 {
			return Op{Side: side, Kind: "ping", PingData: 1}
		}
		return Op{Side: side, Kind: "prio", Sid: core.Pick(r, ss), Dep: uint32(r.Intn(10)), Weight: uint8(r.Intn(256))}
	}
}

// grantOp: a WINDOW_UPDATE from side, aimed with its own ledger.
func (g *gen) grantOp(side string, me *rcvLedger) Op {
	r := g.r
	// streams on which this receiver still expects something
	var blocked []uint32
	for _, s := range g.streams {
		if len(me.pend[s]) > 0 {
			blocked = append(blocked, s)
		}
	}
	small := func() uint32 {
		switch r.Intn(6) {
		case 0:
			return 1
		case 1, 2:
			return uint32(r.Range(1, 100))
		case 3, 4:
			return uint32(r.Range(100, 5000))
		default:
			return uint32(r.Range(1, 65536))
		}
	}
	aim := func(need int64) uint32 {
		if need <= 0 {
			return small()
		}
		switch r.Intn(10) {
		case 0, 1, 2, 3, 4:
			return uint32(need) // exact fit
		case 5:
			if need > 1 {
				return uint32(need - 1) // one short
			}
			return 1
		case 6:
			return uint32(need + 1)
		case 7:
			if need > 1 {
				return uint32(r.Range(1, int(need))) // a small step towards it
			}
			return 1
		default:
			return small()
		}
	}
	if len(blocked) == 0 {
		if r.Chance(50) || len(g.streams) == 0 {
			return Op{Side: side, Kind: "wu", Sid: 0, Inc: small()}
		}
		return Op{Side: side, Kind: "wu", Sid: core.Pick(r, g.streams), Inc: small()}
	}
	s := core.Pick(r, blocked)
	head := int64(me.pend[s][0])
	if me.win(s) < head || (me.win(s) < 0) || r.Chance(35) {
		return Op{Side: side, Kind: "wu", Sid: s, Inc: aim(head - me.win(s))}
	}
	// the stream window suffices: the connection window is what holds the frame
	minHead := head
	for _, t := range blocked {
		if h := int64(me.pend[t][0]); h < minHead && me.win(t) >= h {
			minHead = h
		}
	}
	return Op{Side: side, Kind: "wu", Sid: 0, Inc: aim(minHead - me.conn())}
}

// note updates the ledgers after an op was executed.
func (g *gen) note(op *Op, st *Step) {
	snd := g.snd[op.Side]
	me := g.rcv[op.Side]
	peer := g.rcv[other(op.Side)]
	switch op.Kind {
	case "data":
		peer.pend[op.Sid] = append(peer.pend[op.Sid], chunksOf(op.Len, int(peer.maxFrame))...)
	case "hdr", "pp":
		// (an empty header list makes no WriteField call, so a pending size update is not emitted yet)
		if op.EH {
			if len(op.Fields) > 0 {
				peer.tblPending = false
			}
			peer.pend[op.Sid] = append(peer.pend[op.Sid], 0)
		} else {
			snd.nonEmpty = len(op.Fields) > 0
			snd.cont, snd.contSid = true, op.Sid
			snd.left = len(g.run.dirOf(op.Side).block)
		}
	case "cont":
		snd.left = len(g.run.dirOf(op.Side).block)
		if op.EH {
			snd.cont = false
			if snd.nonEmpty {
				peer.tblPending = false
			}
			peer.pend[op.Sid] = append(peer.pend[op.Sid], 0)
		} else {
			snd.cont = true
		}
	case "prio", "rst":
		peer.pend[op.Sid] = append(peer.pend[op.Sid], 0)
	case "wu":
		me.wu[op.Sid] += int64(op.Inc)
	case "set":
		for _, kv := range op.Settings {
			switch kv[0] {
			case 1:
				me.tblPending = true
			case 4:
				me.initWin = int64(kv[1])
			case 5:
				me.maxFrame = kv[1]
			}
		}
	}
	if st == nil {
		return
	}
	consume := func(l *rcvLedger, fs []Frame) {
		for i := range fs {
			f := &fs[i]
			switch f.T {
			case 'D':
				l.got[f.Sid] += int64(f.Len)
				l.gotTotal += int64(f.Len)
				if p := l.pend[f.Sid]; len(p) > 0 {
					l.pend[f.Sid] = p[1:]
				}
			case 'H', 'P', 'C':
				if f.EH {
					if p := l.pend[f.Sid]; len(p) > 0 {
						l.pend[f.Sid] = p[1:]
					}
				}
			case 'Y', 'R':
				if p := l.pend[f.Sid]; len(p) > 0 {
					l.pend[f.Sid] = p[1:]
				}
			}
		}
	}
	consume(peer, st.FwdQ)
	consume(me, st.BackQ)
}

func (r *Runner) dirOf(side string) *dirState {
	if side == "c" {
		return r.cs
	}
	return r.sc
}

func newGen(seed uint64, p Params, run *Runner) *gen {
	g := &gen{r: core.NewRand(seed), rep: core.NewRand(seed ^ 0x6870_6163_6b72_6570), p: p, run: run, nextC: 1, nextP: 2,
		rcv: map[string]*rcvLedger{}, snd: map[string]*sendState{}}
	for _, s := range []string{"c", "s"} {
		g.rcv[s] = &rcvLedger{initWin: 65535, maxFrame: 16384, wu: map[uint32]int64{}, got: map[uint32]int64{}, pend: map[uint32][]int{}}
		g.snd[s] = &sendState{closed: map[uint32]bool{}, opened: map[uint32]bool{}}
	}
	g.rcv["c"].tbl0, g.rcv["s"].tbl0 = p.Tbl0C, p.Tbl0S
	return g
}

// Generate runs an adaptive schedule against run; every op goes through do.
func generate(seed uint64, p Params, run *Runner) {
	g := newGen(seed, p, run)
	do := func(op Op) bool {
		ok := run.Do(op)
		if op.Kind == "sleep" {
			return ok
		}
		real := run.res.Ops[len(run.res.Ops)-1]
		var st *Step
		if ok {
			st = run.lastStep
		}
		g.note(&real, st)
		return ok
	}
	r := g.r
	// preamble: table sizes, initial windows, frame sizes
	for _, s := range []string{"c", "s"} {
		var kvs [][2]uint32
		if g.rcv[s].tbl0 {
			kvs = append(kvs, [2]uint32{1, 0})
		} else if r.Chance(30) {
			kvs = append(kvs, [2]uint32{1, uint32(core.Pick(r, []int{100, 4096, 16384}))})
		}
		if r.Chance(75) {
			w := core.Pick(r, []int{0, 0, 1, 100, 1000, 5000, 16384, 30000, 65535, 65536})
			kvs = append(kvs, [2]uint32{4, uint32(w)})
		}
		if r.Chance(40) {
			kvs = append(kvs, [2]uint32{5, uint32(core.Pick(r, []int{16384, 20000, 32768, 65536}))})
		}
		if len(kvs) > 0 || r.Chance(50) {
			if !do(Op{Side: s, Kind: "set", Settings: kvs}) {
				return
			}
			if r.Chance(70) {
				if !do(Op{Side: other(s), Kind: "ack"}) {
					return
				}
			}
		}
	}
	// table-size episodes (gen_table.go): right after the preamble or somewhere in the schedule
	episodeAt := map[int]int{}
	for k := 0; k < p.TblEpisodes; k++ {
		at := 0
		if p.NOps > 1 && r.Chance(50) {
			at = r.Intn(p.NOps)
		}
		episodeAt[at]++
	}
	for i := 0; i < p.NOps; i++ {
		for ; episodeAt[i] > 0; episodeAt[i]-- {
			if g.snd["c"].cont || g.snd["s"].cont {
				episodeAt[i+1] += episodeAt[i] // a header block is being sent: after it
				break
			}
			if !g.tableEpisode(do) {
				return
			}
		}
		if p.E2E != nil && i == p.NOps/2 {
			// the connection outlives the proxy's HTTP/1 timeouts: silent, or with a frame every few
			// tens of milliseconds (each followed by its barrier pair: both relay directions stay in use)
			if p.E2E.Mode == "busy" {
				for t0 := time.Now(); time.Since(t0) < time.Duration(p.E2E.HoldMs)*time.Millisecond; {
					op, _ := g.next(i)
					if !do(op) || !do(Op{Kind: "sleep", Ms: r.Range(20, 70)}) {
						return
					}
				}
			} else if !do(Op{Kind: "sleep", Ms: p.E2E.HoldMs}) {
				return
			}
		}
		op, ok := g.next(i)
		if !ok {
			break
		}
		if !do(op) {
			return
		}
	}
	// finish header blocks in flight
	for _, s := range []string{"c", "s"} {
		for g.snd[s].cont {
			if !do(Op{Side: s, Kind: "cont", Sid: g.snd[s].contSid, Cut: -1}) {
				return
			}
		}
	}
	if p.Killers {
		if ops := g.killer(); len(ops) > 0 {
			run.timeout = 2 * time.Second // these ops are recorded as stopping a relay direction
			for _, op := range ops {
				if !do(op) {
					return
				}
			}
		}
	}
	// epilogue: every receiver opens every window; after it nothing may be left in the relay
	for _, s := range []string{"c", "s"} {
		if !do(Op{Side: s, Kind: "wu", Sid: 0, Inc: 1 << 30}) {
			return
		}
		if !do(Op{Side: s, Kind: "set", Settings: [][2]uint32{{4, 1 << 30}}}) {
			return
		}
	}
	run.res.Final = true
}

// killer returns a final op sequence of a class known to stop a relay direction (recorded findings);
// nil when the state does not allow one.
func (g *gen) killer() []Op {
	r := g.r
	side := core.Pick(r, []string{"c", "s"})
	ss := g.sendable(side)
	if len(ss) == 0 {
		return nil
	}
	sid := core.Pick(r, ss)
	switch r.Intn(3) {
	case 2:
		// an extension frame: ALTSVC, ORIGIN, PRIORITY_UPDATE (RFC 9218, sent by browsers), or a made-up type
		return []Op{{Side: side, Kind: "raw", Typ: uint8(core.Pick(r, []int{0x0a, 0x0c, 0x10, 0xfe})), Sid: core.Pick(r, []uint32{0, sid}), Len: r.Range(0, 30)},
			{Side: side, Kind: "ping", PingData: 99}}
	case 0:
		// PUSH_PROMISE continued in a CONTINUATION frame
		fs := g.genFields(false, true, false)
		if len(fs) == 0 {
			return nil
		}
		return []Op{{Side: side, Kind: "pp", Sid: sid, Promised: g.nextP, Fields: fs, Cut: 3}, {Side: side, Kind: "cont", Sid: sid, Cut: -1}}
	default:
		// HEADER_TABLE_SIZE lowered by the peer while this side's next block is already encoded
		if g.rcv[other(side)].tbl0 || g.rcv[other(side)].tblPending {
			return nil
		}
		f := Field{N: "x-late", VLen: 30, VSeed: 77}
		return []Op{
			{Side: side, Kind: "hdr", Sid: sid, Fields: []Field{f}, Cut: -1},
			{Side: other(side), Kind: "set", Settings: [][2]uint32{{1, 0}}, LateApply: true},
			{Side: side, Kind: "hdr", Sid: sid, Fields: []Field{f}, Cut: -1},
		}
	}
}

func (p Params) String() string {
	return fmt.Sprintf("nops=%d streams=%d tbl0=%v/%v profile=%d", p.NOps, p.Streams, p.Tbl0C, p.Tbl0S, p.Profile)
}
