package h2rig

import (
	"bytes"
	"crypto/ecdsa"
	"crypto/elliptic"
	"crypto/rand"
	"crypto/tls"
	"crypto/x509"
	"crypto/x509/pkix"
	"errors"
	"fmt"
	"io"
	"math"
	"math/big"
	"net"
	"net/url"
	"os"
	"runtime"
	"sort"
	"strings"
	"sync"
	"time"

	"golang.org/x/net/http2"
	"golang.org/x/net/http2/hpack"
)

const (
	barrierSidC = 0x7fff0001 // stream carrying the client endpoint's barrier PRIORITY frames
	barrierSidS = 0x7fff0002
	badList     = 999999 // list id of a header block the receiver could not decode

	defaultStepTimeout = 12 * time.Second
)

var (
	tlsOnce   sync.Once
	tlsServer *tls.Config
	tlsRoots  *x509.CertPool
	tlsCA     *x509.Certificate // the rig's certificate: origin leaf and, for end-to-end cases, interception CA
	tlsCAKey  *ecdsa.PrivateKey
)

func tlsSetup() {
	tlsOnce.Do(func() {
		key, err := ecdsa.GenerateKey(elliptic.P256(), rand.Reader)
		if err != nil {
			panic(err)
		}
		tmpl := &x509.Certificate{
			SerialNumber: big.NewInt(1), Subject: pkix.Name{CommonName: "h2rig"},
			NotBefore: time.Now().Add(-time.Hour), NotAfter: time.Now().Add(24 * time.Hour),
			KeyUsage: x509.KeyUsageDigitalSignature | x509.KeyUsageCertSign, ExtKeyUsage: []x509.ExtKeyUsage{x509.ExtKeyUsageServerAuth},
			IPAddresses: []net.IP{net.ParseIP("127.0.0.1")}, IsCA: true, BasicConstraintsValid: true,
		}
		der, err := x509.CreateCertificate(rand.Reader, tmpl, tmpl, &key.PublicKey, key)
		if err != nil {
			panic(err)
		}
		cert, _ := x509.ParseCertificate(der)
		tlsCA, tlsCAKey = cert, key
		tlsRoots = x509.NewCertPool()
		tlsRoots.AddCert(cert)
		tlsServer = &tls.Config{
			Certificates: []tls.Certificate{{Certificate: [][]byte{der}, PrivateKey: key}},
			NextProtos:   []string{"h2"}, MinVersion: tls.VersionTLS12,
		}
	})
}

// endpoint is a raw-frame HTTP/2 endpoint with its own HPACK state.
type endpoint struct {
	side string
	conn net.Conn
	fr   *http2.Framer

	enc    *hpack.Encoder // this endpoint's encoder (towards the relay)
	encBuf bytes.Buffer
	dec    *hpack.Decoder // this endpoint's decoder (of what the relay sends)
	decMax uint32
	// encAllowed: the HEADER_TABLE_SIZE this endpoint's encoder has applied (the largest size it may
	// signal: RFC 7541 4.2); a setting it has not applied yet does not bind it (RFC 7540 6.5.3)
	encAllowed uint32
	// encPending: enc has a dynamic table size update to signal; it does so in front of the next field
	// it writes, which therefore has to be the first of its block (RFC 7541 4.2)
	encPending bool

	mu     sync.Mutex
	cond   *sync.Cond
	inbox  []Frame
	rdErr  error
	closed bool

	// reassembly of a header block being received
	blk    []byte
	blkSid uint32

	// RFC 7540 6.10 judged by the read loop on the order of arrival: while a header block is open
	// (HEADERS / PUSH_PROMISE / CONTINUATION without END_HEADERS) the next frame on the connection
	// must be a CONTINUATION of the same stream
	wireOpen    bool
	wireSid     uint32
	wireBad     []string
	wireBadBy   map[string]int // violations by kind of the offending frame (not capped)
	recordWire  bool
	arrival     []string
	onBlockOpen func()        // called (once set) when a header block begins to arrive
	slowBlock   time.Duration // a slow receiver: the read loop pauses this long after each frame of a header block
}

// wireCheck is called by the read loop with e.mu held.
func (e *endpoint) wireCheck(g *Frame) {
	n := len(e.arrival)
	if e.recordWire && n < 60000 {
		e.arrival = append(e.arrival, g.Tag())
	}
	bad := func(msg string) {
		if e.wireBadBy == nil {
			e.wireBadBy = map[string]int{}
		}
		e.wireBadBy[string(g.T)]++
		if len(e.wireBad) < 5 {
			e.wireBad = append(e.wireBad, fmt.Sprintf("%s: arrival %d: %s", e.side, n, msg))
		}
	}
	if e.wireOpen {
		if g.T == 'C' && g.Sid == e.wireSid {
			e.wireOpen = !g.EH
			return
		}
		bad(fmt.Sprintf("%s inside the header block of stream %d", g.Tag(), e.wireSid))
		if g.T != 'H' && g.T != 'P' {
			return // the block is still to be completed
		}
		e.wireOpen = false
	} else if g.T == 'C' {
		bad(fmt.Sprintf("%s with no header block open", g.Tag()))
		return
	}
	if (g.T == 'H' || g.T == 'P') && !g.EH {
		e.wireOpen, e.wireSid = true, g.Sid
		if e.onBlockOpen != nil {
			f := e.onBlockOpen
			e.onBlockOpen = nil
			f()
		}
	}
}

func newEndpoint(side string, conn net.Conn) *endpoint {
	e := &endpoint{side: side, conn: conn, decMax: 4096, encAllowed: 4096}
	e.cond = sync.NewCond(&e.mu)
	e.fr = http2.NewFramer(conn, conn)
	e.fr.AllowIllegalReads = true // the endpoint judges frame order itself
	e.fr.SetMaxReadFrameSize(1<<24 - 1)
	e.enc = hpack.NewEncoder(&e.encBuf)
	e.dec = hpack.NewDecoder(4096, nil)
	return e
}

func (e *endpoint) readLoop() {
	for {
		f, err := e.fr.ReadFrame()
		if err != nil {
			e.mu.Lock()
			e.rdErr = err
			e.closed = true
			e.cond.Broadcast()
			e.mu.Unlock()
			return
		}
		var g Frame
		switch f := f.(type) {
		case *http2.DataFrame:
			g = Frame{T: 'D', Sid: f.StreamID, ES: f.StreamEnded(), Len: len(f.Data()), data: append([]byte(nil), f.Data()...)}
			if f.Flags.Has(http2.FlagDataPadded) {
				g.Typ = 1 // the relay never pads; remembered for diagnostics
			}
		case *http2.HeadersFrame:
			g = Frame{T: 'H', Sid: f.StreamID, ES: f.StreamEnded(), EH: f.HeadersEnded(), Len: len(f.HeaderBlockFragment()),
				Dep: f.Priority.StreamDep, Excl: f.Priority.Exclusive, Weight: f.Priority.Weight, data: append([]byte(nil), f.HeaderBlockFragment()...)}
		case *http2.ContinuationFrame:
			g = Frame{T: 'C', Sid: f.StreamID, EH: f.HeadersEnded(), Len: len(f.HeaderBlockFragment()), data: append([]byte(nil), f.HeaderBlockFragment()...)}
		case *http2.PushPromiseFrame:
			g = Frame{T: 'P', Sid: f.StreamID, Promised: f.PromiseID, EH: f.HeadersEnded(), Len: len(f.HeaderBlockFragment()), data: append([]byte(nil), f.HeaderBlockFragment()...)}
		case *http2.PriorityFrame:
			g = Frame{T: 'Y', Sid: f.StreamID, Dep: f.StreamDep, Excl: f.Exclusive, Weight: f.Weight}
		case *http2.RSTStreamFrame:
			g = Frame{T: 'R', Sid: f.StreamID, Code: uint32(f.ErrCode)}
		case *http2.SettingsFrame:
			if f.IsAck() {
				g = Frame{T: 'A'}
			} else {
				g = Frame{T: 'S'}
				f.ForeachSetting(func(s http2.Setting) error {
					g.Settings = append(g.Settings, [2]uint32{uint32(s.ID), s.Val})
					return nil
				})
			}
		case *http2.PingFrame:
			var v uint64
			for _, b := range f.Data {
				v = v<<8 | uint64(b)
			}
			g = Frame{T: 'G', Ack: f.IsAck(), PingData: v}
		case *http2.GoAwayFrame:
			g = Frame{T: 'Z', Last: f.LastStreamID, Code: uint32(f.ErrCode), Len: len(f.DebugData())}
		case *http2.WindowUpdateFrame:
			g = Frame{T: 'W', Sid: f.StreamID, Inc: f.Increment}
		default:
			g = Frame{T: 'U', Typ: uint8(f.Header().Type)}
		}
		e.mu.Lock()
		e.wireCheck(&g)
		e.inbox = append(e.inbox, g)
		e.cond.Broadcast()
		pause := time.Duration(0)
		if e.wireOpen {
			pause = e.slowBlock
		}
		e.mu.Unlock()
		if pause > 0 {
			time.Sleep(pause)
		}
	}
}

// waitBarrier returns the frames received before the barrier PRIORITY frame numbered seq.
func (e *endpoint) waitBarrier(bsid uint32, seq uint32, timeout time.Duration) ([]Frame, error) {
	deadline := time.Now().Add(timeout)
	timer := time.AfterFunc(timeout, func() { e.mu.Lock(); e.cond.Broadcast(); e.mu.Unlock() })
	defer timer.Stop()
	e.mu.Lock()
	defer e.mu.Unlock()
	scanned := 0
	for {
		for ; scanned < len(e.inbox); scanned++ {
			f := &e.inbox[scanned]
			if f.T == 'Y' && f.Sid == bsid && f.Dep == seq {
				out := append([]Frame(nil), e.inbox[:scanned]...)
				e.inbox = append([]Frame(nil), e.inbox[scanned+1:]...)
				return out, nil
			}
		}
		if e.closed {
			out := e.inbox
			e.inbox = nil
			return out, fmt.Errorf("connection to the relay ended: %v", e.rdErr)
		}
		if time.Now().After(deadline) {
			out := e.inbox
			e.inbox = nil
			return out, errors.New("barrier not relayed in time")
		}
		e.cond.Wait()
	}
}

func (e *endpoint) drain() []Frame {
	e.mu.Lock()
	defer e.mu.Unlock()
	out := e.inbox
	e.inbox = nil
	return out
}

// dirState is what the harness knows about one direction X→Y beyond the endpoints' HPACK state.
type dirState struct {
	mirror    *hpack.Encoder // fed exactly like the relay's encoder towards Y
	mirrorBuf bytes.Buffer
	// sender side: block being sent in fragments
	block     []byte
	blockList int
	blockPush bool
	fields    []hpack.HeaderField // list of the block being sent
	// mirror blocks per stream in encoding order, and how many the receiver has matched
	mirrorBlocks map[uint32][][]byte
	matched      map[uint32]int
	sentLists    map[uint32][]string // header lists completed per stream (hexList), "" = too large to be kept
	// DATA octets sent / received per stream
	sent map[uint32][]byte
	got  map[uint32][]byte
	// late table-size application pending on the sender
	lateTable *uint32
	// relayDec is kept the way the unchanged relay keeps the decoder of this direction (newRelay,
	// updateTableSize, decodeFull): hpack.NewDecoder(4096), the limit on dynamic table size updates
	// lifted, the table size set to every HEADER_TABLE_SIZE value of Y the moment the relay reads it;
	// it is fed every block X completes.  What it says is the expectation for the block: a list - the
	// relay has to deliver it - or the error the recorded class F15 consists of.  nil once it failed.
	relayDec  *hpack.Decoder
	fullBlock []byte // the whole block being sent
}

func newDirState() *dirState {
	d := &dirState{sentLists: map[uint32][]string{}, mirrorBlocks: map[uint32][][]byte{}, matched: map[uint32]int{}, sent: map[uint32][]byte{}, got: map[uint32][]byte{}}
	d.mirror = hpack.NewEncoder(&d.mirrorBuf)
	d.mirror.SetMaxDynamicTableSizeLimit(math.MaxUint32)
	d.relayDec = hpack.NewDecoder(4096, nil)
	d.relayDec.SetAllowedMaxDynamicTableSize(math.MaxUint32)
	return d
}

// Runner executes ops one by one against one relay instance.
type Runner struct {
	c, s     *endpoint
	cs, sc   *dirState // client→server, server→client
	lists    map[string]int
	seq      uint32
	res      *Result
	closing  chan bool
	proxyErr chan error
	ln       net.Listener
	stopped  bool
	lastStep *Step
	maxAdv   map[string]uint32 // SETTINGS_MAX_FRAME_SIZE advertised by each side
	ackedMax map[string]uint32 // the other side's MAX_FRAME_SIZE when this side last acknowledged SETTINGS
	inBlock  string            // side that is in the middle of a header block
	timeout  time.Duration
	e2e      *e2eProxy // the intercepting proxy in front of the relay (end-to-end cases)
}

func canonList(fs []hpack.HeaderField) string {
	var sb strings.Builder
	for _, f := range fs {
		sb.WriteString(f.Name)
		sb.WriteByte(0)
		sb.WriteString(f.Value)
		sb.WriteByte(0)
		if f.Sensitive {
			sb.WriteByte('S')
		}
		sb.WriteByte(1)
	}
	return sb.String()
}

const maxHdrObs = 6

// hexList renders a header list for the Lean driver (name:value:sensitive per field, hex, `_` = empty
// string, `~` = empty list); "" when it is too large to be worth a model query.
func hexList(fs []hpack.HeaderField) string {
	if len(fs) == 0 {
		return "~"
	}
	hx := func(s string) string {
		if s == "" {
			return "_"
		}
		return fmt.Sprintf("%x", s)
	}
	n := 0
	parts := make([]string, len(fs))
	for i, f := range fs {
		n += len(f.Name) + len(f.Value)
		if n > 600 {
			return ""
		}
		parts[i] = hx(f.Name) + ":" + hx(f.Value) + ":" + b01(f.Sensitive)
	}
	return strings.Join(parts, ",")
}

func (r *Runner) listID(fs []hpack.HeaderField) int {
	k := canonList(fs)
	if id, ok := r.lists[k]; ok {
		return id
	}
	id := len(r.lists) + 1
	r.lists[k] = id
	return id
}

// NewRunner starts a relay between a pipe (client side) and a TLS listener (server side).
func NewRunner() (*Runner, error) { return NewRunnerFor(Params{}) }

func newRunnerShell(ln net.Listener) *Runner {
	return &Runner{timeout: defaultStepTimeout, maxAdv: map[string]uint32{"c": 16384, "s": 16384}, ackedMax: map[string]uint32{"c": 16384, "s": 16384}, lists: map[string]int{}, res: &Result{Stats: map[string]int{}}, closing: make(chan bool), proxyErr: make(chan error, 1), ln: ln}
}

// NewRunnerFor starts the relay the way the case asks for: h2.Config.Proxy between a pipe and a TLS
// listener, or (Params.E2E) behind a martian.Proxy that intercepts a CONNECT tunnel.
func NewRunnerFor(p Params) (*Runner, error) {
	tlsSetup()
	ln, err := tls.Listen("tcp", "127.0.0.1:0", tlsServer)
	if err != nil {
		return nil, err
	}
	theRelayLog.take()
	stepTimeout := defaultStepTimeout
	r := newRunnerShell(ln)
	type acc struct {
		c   net.Conn
		err error
	}
	accCh := make(chan acc, 1)
	go func() {
		c, err := ln.Accept()
		if err == nil {
			err = c.(*tls.Conn).Handshake()
		}
		accCh <- acc{c, err}
	}()
	var cHarness net.Conn
	if p.E2E != nil {
		cHarness, err = r.startE2E(p, ln.Addr().String())
		if err != nil {
			ln.Close()
			return nil, err
		}
	} else {
		var cRelay net.Conn
		cHarness, cRelay = net.Pipe()
		cfg := relayConfig(p)
		u := &url.URL{Scheme: "https", Host: ln.Addr().String()}
		go func() { r.proxyErr <- cfg.Proxy(r.closing, cRelay, u) }()
	}

	// the client preface goes first; Proxy reads it with one Read call
	cHarness.SetWriteDeadline(time.Now().Add(stepTimeout))
	if _, err := cHarness.Write([]byte(http2.ClientPreface)); err != nil {
		r.abort(cHarness)
		return nil, fmt.Errorf("writing preface: %w", err)
	}
	var sconn net.Conn
	select {
	case a := <-accCh:
		if a.err != nil {
			r.abort(cHarness)
			return nil, fmt.Errorf("accept: %w", a.err)
		}
		sconn = a.c
	case err := <-r.proxyErr:
		r.abort(cHarness)
		return nil, fmt.Errorf("Proxy returned early: %v", err)
	case <-time.After(stepTimeout):
		r.abort(cHarness)
		return nil, errors.New("relay did not connect")
	}
	pre := make([]byte, len(http2.ClientPreface))
	sconn.SetReadDeadline(time.Now().Add(stepTimeout))
	if _, err := io.ReadFull(sconn, pre); err != nil || string(pre) != http2.ClientPreface {
		sconn.Close()
		r.abort(cHarness)
		return nil, fmt.Errorf("preface not forwarded: %v %q", err, pre)
	}
	sconn.SetReadDeadline(time.Time{})
	r.c, r.s = newEndpoint("c", cHarness), newEndpoint("s", sconn)
	if p.TblAdopt {
		r.c.enc.SetMaxDynamicTableSizeLimit(math.MaxUint32)
		r.s.enc.SetMaxDynamicTableSizeLimit(math.MaxUint32)
	}
	if p.E2E != nil || p.Conc > 0 {
		r.c.recordWire, r.s.recordWire = true, true
	}
	r.cs, r.sc = newDirState(), newDirState()
	go r.c.readLoop()
	go r.s.readLoop()
	return r, nil
}

// abort gives up a relay that did not come up.
func (r *Runner) abort(c net.Conn) {
	if c != nil {
		c.Close()
	}
	r.ln.Close()
	if r.e2e != nil {
		r.e2e.stop()
	}
}

func (r *Runner) ep(side string) (self, other *endpoint, out, in *dirState, bsidSelf, bsidOther uint32) {
	if side == "c" {
		return r.c, r.s, r.cs, r.sc, barrierSidC, barrierSidS
	}
	return r.s, r.c, r.sc, r.cs, barrierSidS, barrierSidC
}

// FrameLimit is the largest frame payload a conforming endpoint on `side` may send: the limit its
// peer advertises now, or the one in force when it last acknowledged SETTINGS (a lowered limit binds
// the sender only once it has acknowledged it — frames of the old size may still be on their way).
func (r *Runner) FrameLimit(side string) int {
	a, b := r.maxAdv[otherSide(side)], r.ackedMax[side]
	if b > a {
		return int(b)
	}
	return int(a)
}

func otherSide(s string) string {
	if s == "c" {
		return "s"
	}
	return "c"
}

func dataBytes(seed uint32, n int) []byte {
	b := make([]byte, n)
	s := uint64(seed)*0x9e3779b97f4a7c15 + 0x1234567
	for i := range b {
		s ^= s << 13
		s ^= s >> 7
		s ^= s << 17
		b[i] = byte(s >> 11)
	}
	return b
}

func hpackFields(fs []Field) []hpack.HeaderField {
	out := make([]hpack.HeaderField, len(fs))
	for i, f := range fs {
		out[i] = hpack.HeaderField{Name: f.N, Value: f.Value(), Sensitive: f.Sens}
	}
	return out
}

// write sends the wire frame of op from its side and fills in the realised fields.
func (r *Runner) write(op *Op) error {
	self, _, _, _, _, _ := r.ep(op.Side)
	self.conn.SetWriteDeadline(time.Now().Add(r.timeout))
	return r.writeTo(self.fr, op)
}

// writeTo renders the wire frame of op with fr (the endpoint's Framer, or one that writes into a
// buffer: a burst is prepared in full before any of it is written).
func (r *Runner) writeTo(fr *http2.Framer, op *Op) error {
	self, _, out, in, _, _ := r.ep(op.Side)
	op.EH, op.FragLen, op.ReencLen, op.ListID, op.RawSent = false, 0, 0, 0, 0
	op.SizeUpd, op.DecErr = nil, ""
	switch op.Kind {
	case "data":
		payload := dataBytes(op.DataSeed, op.Len)
		out.sent[op.Sid] = append(out.sent[op.Sid], payload...)
		if op.Padded {
			return fr.WriteDataPadded(op.Sid, op.ES, payload, make([]byte, op.Pad))
		}
		return fr.WriteData(op.Sid, op.ES, payload)
	case "hdr", "pp":
		// a late table-size application takes effect after this block
		fields := hpackFields(op.Fields)
		if op.TblUpd != nil {
			v := *op.TblUpd
			if v > self.encAllowed {
				v = self.encAllowed
			}
			self.enc.SetMaxDynamicTableSize(v)
			self.encPending = true
		}
		self.encBuf.Reset()
		for i, f := range fields {
			if op.Fields[i].Raw && !self.encPending {
				self.encBuf.Write(appendRawField(nil, op.Fields[i]))
				op.RawSent++
				continue
			}
			if err := self.enc.WriteField(f); err != nil {
				return err
			}
			self.encPending = false
		}
		if out.lateTable != nil {
			self.enc.SetMaxDynamicTableSize(*out.lateTable)
			self.encPending = true
			self.encAllowed = *out.lateTable
			out.lateTable = nil
		}
		out.block = append([]byte(nil), self.encBuf.Bytes()...)
		out.fullBlock = out.block
		out.fields = fields
		out.blockList = r.listID(fields)
		out.blockPush = op.Kind == "pp"
		cut := op.Cut
		if cut > len(out.block) || cut < 0 {
			cut = len(out.block)
		}
		// a conforming sender keeps to the frame size limit relayed to it
		limit := r.FrameLimit(op.Side)
		if op.Kind == "pp" {
			limit -= 4
		} else {
			if op.Dep != 0 || op.Excl || op.Weight != 0 {
				limit -= 5
			}
			if op.Padded && op.Pad > 0 {
				limit -= 1 + op.Pad
			}
		}
		if cut > limit {
			cut = limit
		}
		frag := out.block[:cut]
		out.block = out.block[cut:]
		op.EH = len(out.block) == 0
		op.FragLen = len(frag)
		if op.EH {
			r.completeBlock(op, out)
		}
		if op.Kind == "pp" {
			return fr.WritePushPromise(http2.PushPromiseParam{StreamID: op.Sid, PromiseID: op.Promised, BlockFragment: frag, EndHeaders: op.EH})
		}
		pad := uint8(0)
		if op.Padded {
			pad = uint8(op.Pad)
		}
		return fr.WriteHeaders(http2.HeadersFrameParam{StreamID: op.Sid, BlockFragment: frag, EndStream: op.ES, EndHeaders: op.EH, PadLength: pad,
			Priority: http2.PriorityParam{StreamDep: op.Dep, Exclusive: op.Excl, Weight: op.Weight}})
	case "cont":
		cut := op.Cut
		if cut > len(out.block) || cut < 0 {
			cut = len(out.block)
		}
		if limit := r.FrameLimit(op.Side); cut > limit {
			cut = limit
		}
		frag := out.block[:cut]
		out.block = out.block[cut:]
		op.EH = len(out.block) == 0
		op.FragLen = len(frag)
		if op.EH {
			r.completeBlock(op, out)
		}
		return fr.WriteContinuation(op.Sid, op.EH, frag)
	case "prio":
		return fr.WritePriority(op.Sid, http2.PriorityParam{StreamDep: op.Dep, Exclusive: op.Excl, Weight: op.Weight})
	case "rst":
		return fr.WriteRSTStream(op.Sid, http2.ErrCode(op.Code))
	case "wu":
		return fr.WriteWindowUpdate(op.Sid, op.Inc)
	case "set":
		ss := make([]http2.Setting, len(op.Settings))
		for i, kv := range op.Settings {
			ss[i] = http2.Setting{ID: http2.SettingID(kv[0]), Val: kv[1]}
			if http2.SettingID(kv[0]) == http2.SettingMaxFrameSize {
				r.maxAdv[op.Side] = kv[1]
			}
			if http2.SettingID(kv[0]) == http2.SettingHeaderTableSize {
				// the relay applies it to its encoder towards this endpoint (mirrored) …
				in.mirror.SetMaxDynamicTableSize(kv[1])
				// … and to its decoder of the other endpoint's blocks, at once
				if in.relayDec != nil {
					in.relayDec.SetMaxDynamicTableSize(kv[1])
				}
				// … and this endpoint's decoder must accept size updates up to it
				if kv[1] > self.decMax {
					self.decMax = kv[1]
					self.dec.SetAllowedMaxDynamicTableSize(kv[1])
				}
			}
		}
		return fr.WriteSettings(ss...)
	case "ack":
		r.ackedMax[op.Side] = r.maxAdv[otherSide(op.Side)]
		return fr.WriteSettingsAck()
	case "ping":
		var d [8]byte
		for i := 0; i < 8; i++ {
			d[i] = byte(op.PingData >> (56 - 8*i))
		}
		return fr.WritePing(op.Ack, d)
	case "goaway":
		return fr.WriteGoAway(op.Last, http2.ErrCode(op.Code), make([]byte, op.DebugLen))
	case "raw":
		return fr.WriteRawFrame(http2.FrameType(op.Typ), 0, op.Sid, make([]byte, op.Len))
	}
	return fmt.Errorf("unknown op kind %q", op.Kind)
}

// completeBlock: the sender finished a header block; the relay decodes it and re-encodes the list.
func (r *Runner) completeBlock(op *Op, out *dirState) {
	out.mirrorBuf.Reset()
	for _, f := range out.fields {
		out.mirror.WriteField(f)
	}
	blk := append([]byte(nil), out.mirrorBuf.Bytes()...)
	out.mirrorBlocks[op.Sid] = append(out.mirrorBlocks[op.Sid], blk)
	out.sentLists[op.Sid] = append(out.sentLists[op.Sid], hexList(out.fields))
	op.ReencLen = len(blk)
	op.ListID = out.blockList
	op.SizeUpd = sizeUpdates(out.fullBlock)
	if out.relayDec != nil {
		got, err := out.relayDec.DecodeFull(out.fullBlock)
		switch {
		case err != nil:
			op.DecErr = err.Error()
			out.relayDec = nil
		case canonList(got) != canonList(out.fields):
			op.DecErr = "decodes to another list"
			out.relayDec = nil
		}
	}
	out.fullBlock = nil
}

// sizeUpdates: the dynamic table size updates (RFC 7541 6.3: 001 + 5-bit-prefix integer) a header
// block begins with.
func sizeUpdates(b []byte) []uint32 {
	var out []uint32
	for len(b) > 0 && b[0]&0xe0 == 0x20 {
		v := uint64(b[0] & 0x1f)
		b = b[1:]
		if v == 0x1f {
			for sh := uint(0); len(b) > 0 && sh < 35; sh += 7 {
				c := b[0]
				b = b[1:]
				v += uint64(c&0x7f) << sh
				if c&0x80 == 0 {
					break
				}
			}
		}
		out = append(out, uint32(v))
	}
	return out
}

// observe post-processes the frames an endpoint received during a step: reassembles and decodes
// header blocks, accumulates DATA, applies forwarded SETTINGS to the endpoint's encoder.
func (r *Runner) observe(e *endpoint, in *dirState, outOfE *dirState, fs []Frame, late bool, lateApply bool) {
	for i := range fs {
		f := &fs[i]
		switch f.T {
		case 'D':
			want := in.sent[f.Sid]
			have := in.got[f.Sid]
			if len(have)+len(f.data) > len(want) || !bytes.Equal(want[len(have):len(have)+len(f.data)], f.data) {
				if len(r.res.DataBad) < 5 {
					r.res.DataBad = append(r.res.DataBad, fmt.Sprintf("%s stream %d offset %d len %d", e.side, f.Sid, len(have), len(f.data)))
				}
			}
			in.got[f.Sid] = append(have, f.data...)
		case 'H', 'P':
			e.blk = append([]byte(nil), f.data...)
			e.blkSid = f.Sid
			if f.EH {
				r.finishBlock(e, in, f)
			}
		case 'C':
			e.blk = append(e.blk, f.data...)
			if f.EH {
				r.finishBlock(e, in, f)
			}
		case 'S':
			for _, kv := range f.Settings {
				if http2.SettingID(kv[0]) == http2.SettingHeaderTableSize {
					v := kv[1]
					if lateApply {
						outOfE.lateTable = &v
					} else {
						e.enc.SetMaxDynamicTableSize(v)
						e.encPending = true
						e.encAllowed = v
					}
				}
			}
		}
		f.data = nil
	}
}

func (r *Runner) finishBlock(e *endpoint, in *dirState, f *Frame) {
	sid := e.blkSid
	if k := in.matched[sid]; k < len(in.mirrorBlocks[sid]) {
		if !bytes.Equal(in.mirrorBlocks[sid][k], e.blk) && len(r.res.BlockBad) < 5 {
			r.res.BlockBad = append(r.res.BlockBad, fmt.Sprintf("%s stream %d block %d: %d octets, mirror encoder %d", e.side, sid, k, len(e.blk), len(in.mirrorBlocks[sid][k])))
		}
	} else if len(r.res.BlockBad) < 5 {
		r.res.BlockBad = append(r.res.BlockBad, fmt.Sprintf("%s stream %d: unexpected block %d", e.side, sid, k))
	}
	k := in.matched[sid]
	in.matched[sid]++
	fields, err := e.dec.DecodeFull(e.blk)
	if err == nil && k < len(in.sentLists[sid]) && in.sentLists[sid][k] != "" && len(r.res.HdrObs) < maxHdrObs {
		if got := hexList(fields); got != "" {
			r.res.HdrObs = append(r.res.HdrObs, HdrObs{Side: e.side, Sid: sid, Sent: in.sentLists[sid][k], Got: got})
		}
	}
	if err != nil {
		f.ListID = badList
		if len(r.res.DecodeErr) < 5 {
			r.res.DecodeErr = append(r.res.DecodeErr, fmt.Sprintf("%s stream %d: %v", e.side, sid, err))
		}
		// a decoder that failed keeps no usable state; start over so later blocks are judged alone
		e.dec = hpack.NewDecoder(4096, nil)
		e.dec.SetAllowedMaxDynamicTableSize(e.decMax)
	} else {
		f.ListID = r.listID(fields)
	}
	e.blk = nil
}

func split(fs []Frame) (q, d []Frame) {
	for _, f := range fs {
		if f.direct() {
			d = append(d, f)
		} else {
			q = append(q, f)
		}
	}
	return
}

// Do executes one op followed by the barrier pair, and appends the three trace steps.
// It returns false when the relay stopped answering (the case is over).
func (r *Runner) Do(op Op) bool {
	if r.stopped {
		return false
	}
	if op.Kind == "sleep" {
		time.Sleep(time.Duration(op.Ms) * time.Millisecond)
		r.res.Ops = append(r.res.Ops, op)
		return true
	}
	if op.Kind == "burst" {
		return r.doBurst(op)
	}
	if r.inBlock != "" && (op.Side != r.inBlock || op.Kind != "cont") {
		// a schedule must finish a header block before anything else is written (see below)
		r.res.Hung = "rig: schedule interleaves " + op.Kind + " with an unfinished header block"
		r.stopped = true
		return false
	}
	self, other, out, in, bsidSelf, bsidOther := r.ep(op.Side)
	opIdx := len(r.res.Ops)
	stepIdx := len(r.res.Lines)
	fail := func(what string, err error) bool {
		r.res.Hung = fmt.Sprintf("%s: %v", what, err)
		r.res.HungAt = stepIdx // the step of this op is incomplete
		r.stopped = true
		if os.Getenv("VERIF_H2_DUMP") != "" {
			buf := make([]byte, 1<<20)
			buf = buf[:runtime.Stack(buf, true)]
			r.res.Dump = string(buf)
		}
		return false
	}
	werr := r.write(&op)
	r.res.Ops = append(r.res.Ops, op)
	if op.DecErr != "" && r.timeout > 2*time.Second {
		r.timeout = 2 * time.Second // the decoder of the unchanged relay refuses this block: the direction is expected to stop
	}
	st := Step{Op: op}
	if werr != nil {
		st.render()
		r.res.Lines = append(r.res.Lines, st.Line)
		r.res.OpIndex = append(r.res.OpIndex, opIdx)
		return fail("writing "+op.Kind+" from "+op.Side, werr)
	}
	if (op.Kind == "hdr" || op.Kind == "pp" || op.Kind == "cont") && !op.EH {
		// Inside a header block nothing but CONTINUATION may be written on this connection (the
		// relay's Framer enforces it), so no barrier is possible; the relay only buffers the fragment.
		st.render()
		r.res.Lines = append(r.res.Lines, st.Line)
		r.res.OpIndex = append(r.res.OpIndex, opIdx)
		r.lastStep = &st
		r.inBlock = op.Side
		return true
	}
	r.inBlock = ""
	// barrier 1: sender → receiver
	r.seq++
	b1 := r.seq
	self.conn.SetWriteDeadline(time.Now().Add(r.timeout))
	if err := self.fr.WritePriority(bsidSelf, http2.PriorityParam{StreamDep: b1}); err != nil {
		st.render()
		r.res.Lines = append(r.res.Lines, st.Line)
		r.res.OpIndex = append(r.res.OpIndex, opIdx)
		return fail("writing barrier from "+op.Side, err)
	}
	fwd, err1 := other.waitBarrier(bsidSelf, b1, r.timeout)
	r.observe(other, out, in, fwd, false, op.LateApply)
	st.FwdQ, st.FwdD = split(fwd)
	if err1 != nil {
		back := self.drain()
		r.observe(self, in, out, back, false, false)
		st.BackQ, st.BackD = split(back)
		st.render()
		r.res.Lines = append(r.res.Lines, st.Line)
		r.res.OpIndex = append(r.res.OpIndex, opIdx)
		return fail(fmt.Sprintf("barrier %s→%s after %s", op.Side, other.side, op.Kind), err1)
	}
	// barrier 2: receiver → sender
	r.seq++
	b2 := r.seq
	other.conn.SetWriteDeadline(time.Now().Add(r.timeout))
	if err := other.fr.WritePriority(bsidOther, http2.PriorityParam{StreamDep: b2}); err != nil {
		st.render()
		r.res.Lines = append(r.res.Lines, st.Line)
		r.res.OpIndex = append(r.res.OpIndex, opIdx)
		return fail("writing barrier from "+other.side, err)
	}
	back, err2 := self.waitBarrier(bsidOther, b2, r.timeout)
	r.observe(self, in, out, back, false, false)
	st.BackQ, st.BackD = split(back)
	st.render()
	r.res.Lines = append(r.res.Lines, st.Line)
	r.res.OpIndex = append(r.res.OpIndex, opIdx)
	if err2 != nil {
		return fail(fmt.Sprintf("barrier %s→%s after %s", other.side, op.Side, op.Kind), err2)
	}
	// the two barrier frames are ops of the schedule like any other
	bs1 := Step{Op: Op{Side: op.Side, Kind: "prio", Sid: bsidSelf, Dep: b1, Barrier: true}, FwdQ: []Frame{{T: 'Y', Sid: bsidSelf, Dep: b1}}}
	bs1.render()
	bs2 := Step{Op: Op{Side: other.side, Kind: "prio", Sid: bsidOther, Dep: b2, Barrier: true}, FwdQ: []Frame{{T: 'Y', Sid: bsidOther, Dep: b2}}}
	bs2.render()
	r.res.Lines = append(r.res.Lines, bs1.Line, bs2.Line)
	r.res.OpIndex = append(r.res.OpIndex, -1, -1)
	r.lastStep = &st
	return true
}

// Close ends the case: collects stragglers, stops the relay.
func (r *Runner) Close() *Result {
	if !r.stopped {
		time.Sleep(15 * time.Millisecond)
	}
	for _, e := range []*endpoint{r.c, r.s} {
		for _, f := range e.drain() {
			if len(r.res.Late) < 10 {
				r.res.Late = append(r.res.Late, e.side+":"+f.Tag())
			}
		}
	}
	for _, e := range []*endpoint{r.c, r.s} {
		e.mu.Lock()
		r.res.WireBad = append(r.res.WireBad, e.wireBad...)
		for k, n := range e.wireBadBy {
			r.res.Stats["wire-violation-by-"+k+"-at-"+e.side] += n
		}
		if e.recordWire {
			if r.res.Arrival == nil {
				r.res.Arrival = map[string][]string{}
			}
			r.res.Arrival[e.side] = e.arrival
		}
		e.mu.Unlock()
	}
	close(r.closing)
	r.c.conn.Close()
	r.s.conn.Close()
	r.ln.Close()
	if r.e2e != nil {
		if !r.e2e.stop() {
			r.res.ExitSlow = true
		}
	} else {
		select {
		case err := <-r.proxyErr:
			if err != nil {
				r.res.ProxyErr = err.Error()
			}
		case <-time.After(3 * time.Second):
			r.res.ExitSlow = true
		}
	}
	sort.Strings(r.res.Late)
	r.res.RelayLog = theRelayLog.take()
	return r.res
}
