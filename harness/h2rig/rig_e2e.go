package h2rig

import (
	"bufio"
	"crypto/tls"
	"errors"
	"fmt"
	"net"
	"net/http"
	"sync"
	"time"

	"github.com/saucelabs/forwarder/internal/martian"
	"github.com/saucelabs/forwarder/internal/martian/h2"
	"github.com/saucelabs/forwarder/internal/martian/mitm"
)

// End-to-end family.  The other families start h2.Config.Proxy themselves; a client reaches it through
// martian.Proxy: CONNECT, "200", TLS towards the intercepting proxy with ALPN h2, and proxy_conn.go
// handleMITM hands the connection to the relay.  Whatever that entry path leaves armed on the client
// socket (the HTTP/1 request deadlines of readRequest / handleMITM / write) ends up under the relay.
// Here the relay is reached that way, every proxy timeout is small, and the HTTP/2 connection is kept
// - silent or busy - for several times the largest of them; the schedule then goes on, through the
// same barriers, into the same trace acceptor and clause checker.

var (
	mitmOnce sync.Once
	mitmCfg  *mitm.Config
	mitmErr  error
)

// mitmSetup: one interception configuration per process (it generates an RSA key); the CA is the
// rig's own certificate, which the raw client trusts (tlsRoots).
func mitmSetup() (*mitm.Config, error) {
	tlsSetup()
	mitmOnce.Do(func() {
		mc, err := mitm.NewConfig(tlsCA, tlsCAKey)
		if err != nil {
			mitmErr = err
			return
		}
		mc.SetValidity(time.Hour)
		mc.SetOrganization("h2rig")
		mc.SetH2Config(&h2.Config{RootCAs: tlsRoots, AllowedHostsFilter: func(string) bool { return true }})
		mitmCfg = mc
	})
	return mitmCfg, mitmErr
}

type e2eProxy struct {
	p    *martian.Proxy
	l    net.Listener
	done chan struct{}
}

// stop closes the proxy; false when it does not come down within 3 s.
func (e *e2eProxy) stop() bool {
	e.l.Close()
	go e.p.Close()
	select {
	case <-e.done:
		return true
	case <-time.After(3 * time.Second):
		return false
	}
}

func ms(n int) time.Duration { return time.Duration(n) * time.Millisecond }

// startE2E starts the intercepting proxy and returns the client's TLS connection to it, ALPN h2
// negotiated, tunnel towards `target` (the raw TLS origin).
func (r *Runner) startE2E(pp Params, target string) (net.Conn, error) {
	c := pp.E2E
	mc, err := mitmSetup()
	if err != nil {
		return nil, fmt.Errorf("mitm configuration: %w", err)
	}
	// the options of this case (a child process runs one case at a time; relays of earlier cases keep
	// the Config value they were started with)
	hc := relayConfig(pp)
	hc.AllowedHostsFilter = func(string) bool { return true }
	mc.SetH2Config(hc)
	p := &martian.Proxy{
		MITMConfig:              mc,
		WithoutWarning:          true,
		IdleTimeout:             ms(c.IdleMs),
		ReadTimeout:             ms(c.ReadMs),
		ReadHeaderTimeout:       ms(c.ReadHeaderMs),
		WriteTimeout:            ms(c.WriteMs),
		MITMTLSHandshakeTimeout: ms(c.MITMHsMs),
	}
	l, err := net.Listen("tcp", "127.0.0.1:0")
	if err != nil {
		return nil, err
	}
	ep := &e2eProxy{p: p, l: l, done: make(chan struct{})}
	go func() { p.Serve(l); close(ep.done) }()
	r.e2e = ep
	raw, err := net.DialTimeout("tcp", l.Addr().String(), 5*time.Second)
	if err != nil {
		return nil, err
	}
	raw.SetDeadline(time.Now().Add(10 * time.Second))
	if _, err := fmt.Fprintf(raw, "CONNECT %s HTTP/1.1\r\nHost: %s\r\n\r\n", target, target); err != nil {
		raw.Close()
		return nil, err
	}
	br := bufio.NewReader(raw)
	res, err := http.ReadResponse(br, &http.Request{Method: http.MethodConnect})
	if err != nil {
		raw.Close()
		return nil, fmt.Errorf("CONNECT: %w", err)
	}
	if res.StatusCode != 200 || br.Buffered() != 0 {
		raw.Close()
		return nil, fmt.Errorf("CONNECT answered %s (%d octets follow)", res.Status, br.Buffered())
	}
	tc := tls.Client(raw, &tls.Config{RootCAs: tlsRoots, ServerName: "127.0.0.1", NextProtos: []string{"h2"}, MinVersion: tls.VersionTLS12})
	if err := tc.Handshake(); err != nil {
		raw.Close()
		return nil, fmt.Errorf("TLS with the intercepting proxy: %w", err)
	}
	if np := tc.ConnectionState().NegotiatedProtocol; np != "h2" {
		raw.Close()
		return nil, errors.New("the intercepting proxy negotiated " + np + ", not h2")
	}
	raw.SetDeadline(time.Time{})
	return tc, nil
}
