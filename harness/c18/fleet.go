package c18

// Fleet cases: several proxy instances of ONE process, connected by upstream-proxy links of every scheme the
// proxy supports, built from configuration values in every way a program can obtain them.
//
//   - topology  self (A -> A), pair (A -> B -> A), chain (A -> B -> terminal peer);
//   - link      scheme of each instance's upstream proxy: http, https (the next instance then has a TLS
//               listener; the counting relay in between terminates TLS so that the heads can be read) or
//               socks5 (a scripted SOCKS5 server in front of the relay; a plain request travels through it
//               in origin-form, a CONNECT becomes a bare SOCKS request: no header can travel);
//   - build     how the instances' HTTPProxyConfig values were obtained: separate DefaultHTTPProxyConfig()
//               calls, struct copies of one template value, the SAME object handed to NewHTTPProxy twice,
//               and the first two with only Name changed;
//   - entry     the client enters through the main or an extra listener of the first instance (plain or TLS);
//   - request   plain or CONNECT, with a chain of foreign elements and possibly the element of one of the
//               fleet's instances (a legitimate refusal by exactly that instance).
//
// Judged at every hop: the head a link carries holds exactly the chain the instance received followed by the
// instance's own element; distinct instances always forward each other's requests; the same instance refuses
// at its first repetition with 400. The expected trace is computed from the property alone (specTrace, on
// instance indices — it never compares tags, so two instances that wrongly share a tag cannot hide behind
// it) and, independently, by the model (Model/C18.lean runLoop / runConnectLoop).

import (
	"crypto/tls"
	"fmt"
	"net/http"
	"os"
	"strings"
	"sync"
	"time"

	"github.com/prometheus/client_golang/prometheus"
	"github.com/saucelabs/forwarder"
	"github.com/saucelabs/forwarder/verifharness/core"
	"github.com/saucelabs/forwarder/verifharness/reqmodel"
	"github.com/saucelabs/forwarder/verifharness/rig"
)

type fleetSpec struct {
	Topology string   `json:"topology"` // "self" | "pair" | "chain"
	Links    []string `json:"links"`    // per instance: "http" | "https" | "socks5"
	Build    string   `json:"build"`    // "separate" | "copy" | "same-object" | "separate-rename" | "copy-rename"
	Entry    string   `json:"entry"`    // chain: listener kind of the first instance, "plain" | "tls" (loops: decided by the links)
}

func (s fleetSpec) key() string {
	return s.Topology + "/" + strings.Join(s.Links, "+") + "/" + s.Build + "/" + s.Entry
}

func (s fleetSpec) n() int {
	if s.Topology == "self" {
		return 1
	}
	return 2
}

// listenerTLS: the listener kind of every instance (an https link needs a TLS listener at its far end) and of
// the terminal peer of a chain.
func (s fleetSpec) listenerTLS() (inst []bool, terminal bool) {
	n := s.n()
	inst = make([]bool, n)
	if s.Topology == "chain" {
		inst[0] = s.Entry == "tls"
		inst[1] = s.Links[0] == "https"
		return inst, s.Links[1] == "https"
	}
	for k := 0; k < n; k++ {
		inst[(k+1)%n] = s.Links[k] == "https"
	}
	return inst, false
}

// fleetCase: Via values of Request may hold the placeholders {TAG0}, {TAG1} (the element of instance 0 / 1).
type fleetCase struct {
	Kind string `json:"kind"` // "fleet"
	fleetSpec
	Listener string            `json:"listener"` // "main" | "extra"
	Request  *reqmodel.Request `json:"request"`
}

func phInst(i int) string { return fmt.Sprintf("{TAG%d}", i) }

type finst struct {
	name   string
	proxy  *rig.Proxy
	cfg    reqmodel.Cfg
	secure bool
	link   string
	relay  *passThrough
	socks  *rig.Socks5
}

type fleetEnv struct {
	spec     fleetSpec
	insts    []*finst
	terminal *rig.Peer
	caFile   string
	mu       sync.Mutex
}

func (fe *fleetEnv) close() {
	for _, in := range fe.insts {
		if in.proxy != nil {
			in.proxy.Stop()
		}
		if in.socks != nil {
			in.socks.Close()
		}
		if in.relay != nil {
			in.relay.close()
		}
	}
	if fe.terminal != nil {
		fe.terminal.Close()
	}
	if fe.caFile != "" {
		os.Remove(fe.caFile)
	}
}

const (
	clauseDistinct = "distinct instances carry distinct Via elements, however their configuration values were obtained (separate defaults, a copy, the same object)"
	clauseSameInst = "one instance emits the same element on every request and listener"
	clauseHop      = "the head an instance forwards carries exactly the chain it received followed by its own element"
	clauseFwd      = "a request that only passed through OTHER instances is forwarded"
	clauseLoop     = "a forwarding loop terminates at its first repetition"
	clause400      = "a repeated request is answered 400 by the instance that sees its own element"
)

func newFleetEnv(ctx *core.Ctx, spec fleetSpec) (*fleetEnv, error) {
	fe := &fleetEnv{spec: spec}
	fail := func(err error) (*fleetEnv, error) { fe.close(); return nil, err }
	n := spec.n()
	if len(spec.Links) != n && !(spec.Topology == "chain" && len(spec.Links) == 2) {
		return nil, fmt.Errorf("fleet %s: %d links for %d instances", spec.key(), len(spec.Links), n)
	}
	instTLS, termTLS := spec.listenerTLS()
	ca, err := rig.NewCA("verif fleet CA")
	if err != nil {
		return nil, err
	}
	leaf, err := ca.ValidLeaf("next.test")
	if err != nil {
		return nil, err
	}
	srvConf := &tls.Config{Certificates: []tls.Certificate{leaf}}
	if fe.caFile, err = ca.WriteFile(ctx.Root+"/.work", fmt.Sprintf("c18-fleet-ca-%d.pem", time.Now().UnixNano())); err != nil {
		return nil, err
	}
	if spec.Topology == "chain" {
		if termTLS {
			fe.terminal, err = rig.NewTLSPeer("terminal", srvConf, hopResponder)
		} else {
			fe.terminal, err = rig.NewPeer("terminal", hopResponder)
		}
		if err != nil {
			return fail(err)
		}
	}
	// links: relay (+ SOCKS5 server) per instance
	for k := 0; k < n; k++ {
		in := &finst{link: spec.Links[k], secure: instTLS[k], name: proxyName}
		if k > 0 && strings.HasSuffix(spec.Build, "-rename") {
			in.name = proxyName + "-b"
		}
		fe.insts = append(fe.insts, in)
		if in.link == "https" {
			in.relay, err = newPassThroughTLS(fmt.Sprintf("relay-%d", k), loopLimit, srvConf)
		} else {
			in.relay, err = newPassThrough(fmt.Sprintf("relay-%d", k), loopLimit)
		}
		if err != nil {
			return fail(err)
		}
		if in.link == "socks5" {
			relayAddr := in.relay.peer.Addr
			if in.socks, err = rig.NewSocks5(fmt.Sprintf("socks-%d", k), func(string) string { return relayAddr }); err != nil {
				return fail(err)
			}
		}
	}
	// configuration values
	var tmpl *forwarder.HTTPProxyConfig
	if strings.HasPrefix(spec.Build, "copy") || spec.Build == "same-object" {
		tmpl = forwarder.DefaultHTTPProxyConfig()
		tmpl.Name = proxyName
	}
	for k, in := range fe.insts {
		in := in
		var base *forwarder.HTTPProxyConfig
		switch {
		case strings.HasPrefix(spec.Build, "copy"):
			c := *tmpl
			base = &c
		case spec.Build == "same-object":
			base = tmpl
		}
		port := "3128"
		if in.link == "socks5" {
			port = "1080"
		}
		up := rig.MustURL(in.link + "://next.test:" + port)
		opts := rig.ProxyOpts{
			Base:      base,
			Transport: func(tc *forwarder.HTTPTransportConfig) { tc.CACertFiles = []string{fe.caFile} },
			// one connection per forwarded request: the relays count forwards
			PostTransport: func(rt *http.Transport) { rt.DisableKeepAlives = true; asRunComposes(rt) },
			Configure: func(cfg *forwarder.HTTPProxyConfig) {
				// the topology lives in the transports' dial redirects: the proxy configurations of a fleet
				// differ in nothing but what the build says (and the registry / listener protocol, which
				// a program reusing one object has to adjust between two NewHTTPProxy calls anyway)
				cfg.Name = in.name
				cfg.UpstreamProxy = up
				cfg.PromRegistry = prometheus.NewRegistry()
				cfg.Protocol = forwarder.HTTPScheme
				if in.secure {
					cfg.Protocol = forwarder.HTTPSScheme // self-signed listener certificate
				}
				cfg.ExtraListeners = []forwarder.NamedListenerConfig{{Name: "extra", ListenerConfig: *forwarder.DefaultListenerConfig("127.0.0.1:0")}}
			},
		}
		if in.socks != nil {
			opts.ConnectTo = append(opts.ConnectTo, rig.Route("next.test", port, in.socks.Addr))
		} else {
			opts.ConnectTo = append(opts.ConnectTo, rig.Route("next.test", port, in.relay.peer.Addr))
		}
		p, err := rig.StartProxy(opts)
		if err != nil {
			return fail(fmt.Errorf("instance %d of fleet %s: %w", k, spec.key(), err))
		}
		if len(p.Addrs) < 2 {
			p.Stop()
			return fail(fmt.Errorf("instance %d of fleet %s: extra listener has no address", k, spec.key()))
		}
		in.proxy = p
		in.cfg = reqmodel.Cfg{Name: in.name, TimeAllowed: true, Upstream: "next.test:" + port}
		switch in.link {
		case "https", "socks5":
			in.cfg.UpstreamKind = in.link
		}
	}
	for k, in := range fe.insts {
		if spec.Topology == "chain" && k == n-1 {
			in.relay.target.Store(fe.terminal.Addr)
			in.relay.tlsUp.Store(termTLS)
		} else {
			nx := fe.insts[(k+1)%n]
			in.relay.target.Store(nx.proxy.Addr)
			in.relay.tlsUp.Store(nx.secure)
		}
	}
	if err := fe.learnElements(ctx); err != nil {
		return fail(err)
	}
	return fe, nil
}

func (fe *fleetEnv) reset() {
	for _, in := range fe.insts {
		in.relay.reset()
		if in.socks != nil {
			in.socks.ResetRequests()
		}
	}
	if fe.terminal != nil {
		fe.terminal.Reset()
	}
}

func (fe *fleetEnv) dial(i int, listener string) (*rig.Client, error) {
	in := fe.insts[i]
	addr := in.proxy.Addrs[0]
	if listener == "extra" {
		addr = in.proxy.Addrs[1]
	}
	c, err := rig.Dial(addr)
	if err != nil {
		return nil, err
	}
	if in.secure {
		if _, err := c.StartTLS("localhost", nil, true); err != nil {
			c.Close()
			return nil, err
		}
	}
	return c, nil
}

// probe sends a request without a Via chain straight to instance i and reads the element the instance put on
// it off the first head its own link carried.
func (fe *fleetEnv) probe(i int, listener string) (string, error) {
	fe.reset()
	c, err := fe.dial(i, listener)
	if err != nil {
		return "", err
	}
	defer c.Close()
	c.Send([]byte("GET http://loop.test/probe HTTP/1.1\r\nHost: loop.test\r\nCase-Id: probe\r\nConnection: close\r\n\r\n"), nil)
	if _, err := c.ReadResponse("GET", 10*time.Second); err != nil {
		return "", fmt.Errorf("probe of instance %d (%s listener): %w", i, listener, err)
	}
	rs := fe.insts[i].relay.requests()
	if len(rs) == 0 || rs[0] == nil {
		return "", fmt.Errorf("instance %d (%s listener) did not forward a request that carries no Via", i, listener)
	}
	els := splitElements(strings.Join(rs[0].Values("Via"), ", "))
	if len(els) != 1 {
		return "", fmt.Errorf("%w: instance %d forwarded a request without Via as Via %q", errChainLost, i, rs[0].Values("Via"))
	}
	f := strings.Fields(els[0])
	if len(f) != 2 || f[0] != "1.1" {
		return "", fmt.Errorf("%w: instance %d forwarded a request without Via as Via %q", errChainLost, i, rs[0].Values("Via"))
	}
	return f[1], nil
}

// learnElements reads every instance's element by itself (never through another instance: what one instance
// does with another's element is what the cases judge) and asserts on the observed elements: shape, the same
// element on every listener and request, pairwise distinct over the fleet.
func (fe *fleetEnv) learnElements(ctx *core.Ctx) error {
	where := map[string]any{"kind": "tag", "where": "fleet/" + fe.spec.key()}
	for i, in := range fe.insts {
		tag, err := fe.probe(i, "main")
		if err != nil {
			return err
		}
		in.cfg.Tag = tag
		for _, l := range []string{"extra", "main"} {
			again, err := fe.probe(i, l)
			if err != nil {
				return err
			}
			if again != tag {
				ctx.SpecFail(clauseSameInst, "", where, fmt.Sprintf("instance %d: %q then %q (%s listener)", i, tag, again, l), "")
			}
		}
		if ask(ctx, "shape", core.HexS(in.name), core.HexS(tag)) != "1" {
			ctx.SpecFail("the Via element carries an identifier unique to the instance (name-<20 hex digits>)", "", where,
				fmt.Sprintf("instance %d (name %q): tag %q", i, in.name, tag), "tag does not have the shape name-<20 lower-case hex digits>")
		}
		for j := 0; j < i; j++ {
			if fe.insts[j].cfg.Tag == tag {
				ctx.SpecFail(clauseDistinct, "", where, fmt.Sprintf("instances %d and %d (build %s) both emit %q", j, i, fe.spec.Build, tag),
					"the identifier is not injective over the instances constructed in this process")
			}
		}
	}
	ctx.Count("fleet-env/" + fe.spec.Topology + "/" + fe.spec.Build)
	fe.reset()
	return nil
}

// ---------------------------------------------------------------------------------------------
// the expected trace, from the property alone
// ---------------------------------------------------------------------------------------------

// sym is one element of a chain: a foreign element (text) or the element of instance inst (text = protocol version).
type sym struct {
	inst int // -1: foreign
	text string
}

type specStep struct {
	inst  int
	kind  string // "head" (a message head travels on the instance's link) | "raw" (CONNECT over SOCKS5: a bare connection) | "refused"
	chain []sym  // head: the chain the head must carry
}

// symbolise splits the client's Via lines into elements; {TAGk} elements become instance symbols.
func symbolise(lines []string) []sym {
	var out []sym
	for _, el := range splitElements(strings.Join(lines, ", ")) {
		s := sym{inst: -1, text: el}
		for k := 0; k < 2; k++ {
			for _, pv := range []string{"1.0", "1.1"} {
				if el == pv+" "+phInst(k) {
					s = sym{inst: k, text: pv}
				}
			}
		}
		out = append(out, s)
	}
	return out
}

func hasInst(chain []sym, i int) bool {
	for _, s := range chain {
		if s.inst == i {
			return true
		}
	}
	return false
}

// specTrace: what the property demands of the fleet for this request. reachedTerminal: the request (or the
// CONNECT head, or for SOCKS5 the bare connection) arrives at the chain's terminal peer.
func specTrace(spec fleetSpec, connect bool, minor int, chain []sym) (steps []specStep, status int, reachedTerminal bool) {
	n := spec.n()
	cur := append([]sym(nil), chain...)
	for j := 0; j <= 2*n; j++ {
		if spec.Topology == "chain" && j == n {
			return steps, 200, true
		}
		i := j % n
		if hasInst(cur, i) {
			steps = append(steps, specStep{inst: i, kind: "refused"})
			return steps, 400, false
		}
		pv := "1.1"
		if j == 0 && minor == 0 {
			pv = "1.0"
		}
		cur = append(cur, sym{inst: i, text: pv})
		if connect && spec.Links[i] == "socks5" {
			steps = append(steps, specStep{inst: i, kind: "raw"})
			return steps, 200, spec.Topology == "chain" && i == n-1
		}
		steps = append(steps, specStep{inst: i, kind: "head", chain: append([]sym(nil), cur...)})
	}
	return steps, 0, false // not reached: every loop of n instances repeats within n+1 steps
}

func (fe *fleetEnv) render(chain []sym) []string {
	var out []string
	for _, s := range chain {
		if s.inst < 0 {
			out = append(out, s.text)
		} else {
			out = append(out, s.text+" "+fe.insts[s.inst].cfg.Tag)
		}
	}
	return out
}

// ---------------------------------------------------------------------------------------------
// model plumbing
// ---------------------------------------------------------------------------------------------

func cfgCtxTokens(c *reqmodel.Cfg, x *reqmodel.Ctx) []string {
	var t []string
	for _, tok := range reqmodel.Tokens(c, x, &reqmodel.Request{Method: "GET", Minor: 1, Path: "/"}) {
		if strings.HasPrefix(tok, "method=") || strings.HasPrefix(tok, "minor=") || strings.HasPrefix(tok, "path=") ||
			strings.HasPrefix(tok, "query=") || strings.HasPrefix(tok, "fields=") || strings.HasPrefix(tok, "target=") {
			continue
		}
		t = append(t, tok)
	}
	return t
}

func connectReqTokens(cr *reqmodel.ConnectReq) []string {
	var fs []string
	for _, f := range cr.Fields {
		fs = append(fs, core.JoinList([]string{core.HexS(f.Name), core.HexS(f.Value)}))
	}
	return []string{"authority=" + core.HexS(cr.Authority), "minor=" + core.Itoa(cr.Minor), "fields=" + core.JoinList2(fs)}
}

// askConnect: `C18 connect` — Req.processConnect in short (outcome + Via lines of the head sent upstream).
func askConnect(ctx *core.Ctx, c *reqmodel.Cfg, x *reqmodel.Ctx, cr *reqmodel.ConnectReq) string {
	return ask(ctx, "connect", append(cfgCtxTokens(c, x), connectReqTokens(cr)...)...)
}

func (fe *fleetEnv) instTokens() []string {
	var t []string
	for _, in := range fe.insts {
		t = append(t, cfgCtxTokens(&in.cfg, &reqmodel.Ctx{ClientIP: "127.0.0.1", Secure: in.secure})...)
		t = append(t, "|")
	}
	return t
}

// ---------------------------------------------------------------------------------------------
// one case
// ---------------------------------------------------------------------------------------------

type hopSeen struct {
	inst int
	msg  *rig.Msg // nil: a connection without a readable head
}

// seen interleaves what the relays carried in forwarding order (instance 0's first forward, instance 1's first
// forward, instance 0's second …).
func (fe *fleetEnv) seen() []hopSeen {
	var per [][]*rig.Msg
	for _, in := range fe.insts {
		per = append(per, in.relay.requests())
	}
	var out []hopSeen
	for r := 0; ; r++ {
		added := false
		for i, ms := range per {
			if r < len(ms) {
				out = append(out, hopSeen{i, ms[r]})
				added = true
			}
		}
		if !added {
			return out
		}
	}
}

func (fe *fleetEnv) instantiate(r *reqmodel.Request) *reqmodel.Request {
	q := *r
	q.Fields = make([]rig.Field, len(r.Fields))
	for i, f := range r.Fields {
		if strings.EqualFold(f.Name, "Via") {
			for k, in := range fe.insts {
				f.Value = strings.ReplaceAll(f.Value, phInst(k), in.cfg.Tag)
			}
		}
		q.Fields[i] = f
	}
	return &q
}

func (fe *fleetEnv) runFleet(ctx *core.Ctx, fc *fleetCase) {
	fe.mu.Lock()
	defer fe.mu.Unlock()
	fe.reset()
	spec := fe.spec
	n := spec.n()
	connect := fc.Request.Method == "CONNECT"
	chain := symbolise(viaLinesOf(fc.Request.Fields))
	req := fe.instantiate(fc.Request)
	ctx.Case(fmt.Sprintf("fleet|%s|%s|%s", spec.key(), fc.Listener, fc.Request.Wire()), true)
	ctx.Count("fleet/" + spec.Topology)
	ctx.Count("fleet-build/" + spec.Build)
	for _, l := range spec.Links {
		if connect {
			ctx.Count("fleet-link/connect/" + l)
		} else {
			ctx.Count("fleet-link/plain/" + l)
		}
	}
	if fe.insts[0].secure {
		ctx.Count("fleet-entry/tls-" + fc.Listener)
	} else {
		ctx.Count("fleet-entry/plain-" + fc.Listener)
	}
	own := -1
	for k := 0; k < n; k++ {
		if hasInst(chain, k) {
			own = k
			ctx.Count(fmt.Sprintf("fleet-own-element/instance-%d", k))
		}
	}

	c, err := fe.dial(0, fc.Listener)
	if err != nil {
		ctx.Crash("proxy accepts a client connection", "", fc, err.Error())
		return
	}
	defer c.Close()
	c.Send(req.Wire(), nil)
	res, rerr := c.ReadResponse(req.Method, 15*time.Second)
	if rerr != nil || res == nil {
		ctx.Crash("a loop is answered (it terminates)", "", fc, fmt.Sprintf("no response within 15s: %v; connections per link %v", rerr, fe.linkCounts()))
		return
	}
	steps, wantStatus, wantTerminal := specTrace(spec, connect, req.Minor, chain)
	wantConns := make([]int64, n)
	for _, st := range steps {
		if st.kind != "refused" {
			wantConns[st.inst]++
		}
	}
	// everything the fleet does happens before the client is answered, except the last dial of a tunnel
	waitFor(func() bool {
		for k, in := range fe.insts {
			if in.relay.count() < wantConns[k] {
				return false
			}
		}
		// (a CONNECT over a SOCKS5 link: the SOCKS server's connection to the terminal peer may be counted after the 200)
		if wantTerminal && fe.terminal != nil && fe.terminal.Accepts() < 1 {
			return false
		}
		return true
	}, 500*time.Millisecond)
	time.Sleep(2 * time.Millisecond)
	seen := fe.seen()
	counts := fe.linkCounts()
	termHits := 0
	var termVia []string
	if fe.terminal != nil {
		for _, ex := range fe.terminal.Log() {
			if ex.Req != nil {
				termHits++
				termVia = ex.Req.Values("Via")
			}
		}
		if connect && spec.Links[n-1] == "socks5" {
			termHits = int(fe.terminal.Accepts()) // a bare connection
		}
	}
	var seenVia []string
	for _, h := range seen {
		if h.msg != nil {
			seenVia = append(seenVia, fmt.Sprintf("%d:%s", h.inst, strings.Join(h.msg.Values("Via"), " | ")))
		} else {
			seenVia = append(seenVia, fmt.Sprintf("%d:<no head>", h.inst))
		}
	}
	impl := fmt.Sprintf("client-status=%d x-forwarder-error=%q connections-per-link=%v heads(instance:via)=%q terminal-hits=%d terminal-via=%q tags=%q",
		res.Status, res.Get("X-Forwarder-Error"), counts, seenVia, termHits, termVia, fe.tags())

	// ---- model: the composed fleet (Model/C18.lean runLoop / runConnectLoop) ----
	fuel := 2 * loopLimit
	if spec.Topology == "chain" {
		fuel = n
	}
	var want []string
	if connect {
		cr := &reqmodel.ConnectReq{Authority: req.Path, Minor: req.Minor, Fields: req.Fields}
		a := ask(ctx, "cloop", append(append([]string{core.Itoa(fuel)}, fe.instTokens()...), connectReqTokens(cr)...)...)
		want = strings.Fields(a)[1:]
	} else {
		a := ask(ctx, "loop", append(append([]string{core.Itoa(fuel)}, fe.instTokens()...),
			reqmodel.Tokens(&fe.insts[0].cfg, &reqmodel.Ctx{ClientIP: "127.0.0.1", Secure: fe.insts[0].secure}, req)...)...)
		want = strings.Fields(a)[1:]
	}
	modelStr := strings.Join(want, " ")
	agree := true
	k := 0
	for _, o := range want {
		var mv string
		switch {
		case strings.HasPrefix(o, "fwd:"):
			mv = strings.Join(core.UnHexList(strings.TrimPrefix(o, "fwd:")), " | ")
		case strings.HasPrefix(o, "tunnel:"):
			mv = strings.Join(core.UnHexList(strings.SplitN(o, ":", 3)[2]), " | ")
		case strings.HasPrefix(o, "tunnel-raw:"):
			if k >= len(seen) || seen[k].msg != nil {
				ctx.Disagree(fmt.Sprintf("hop %d: a CONNECT over a SOCKS5 link opens a bare connection = Model.C18.runConnectLoop", k+1), fc, impl, modelStr)
				agree = false
			}
			k++
			continue
		default:
			continue
		}
		if k >= len(seen) || seen[k].msg == nil || strings.Join(seen[k].msg.Values("Via"), " | ") != mv {
			ctx.Disagree(fmt.Sprintf("Via field lines of the head forwarded at hop %d = Model.C18 runLoop / runConnectLoop", k+1), fc, impl, modelStr)
			agree = false
			break
		}
		k++
	}
	if agree && k != len(seen) {
		ctx.Disagree("number of forwards the fleet makes = Model.C18 runLoop / runConnectLoop", fc, impl, modelStr)
		agree = false
	}
	if len(want) > 0 && agree {
		last := want[len(want)-1]
		switch {
		case last == "refused-400-loop" && (res.Status != 400 || !res.Has("X-Forwarder-Error")):
			ctx.Disagree("status the client of a loop receives (400 produced by a forwarder instance)", fc, impl, modelStr)
			agree = false
		case (strings.HasPrefix(last, "fwd:") || strings.HasPrefix(last, "tunnel")) && res.Status != 200:
			ctx.Disagree("a request every instance passes is answered with the terminal peer's response", fc, impl, modelStr)
			agree = false
		}
	}
	if agree {
		ctx.TraceValidated()
	}

	// ---- the property itself, on what the implementation did (specTrace knows instances, not tags) ----
	specStr := fmt.Sprintf("expected by the property: steps %s, client status %d", describeSteps(fe, steps), wantStatus)
	// (1) at every hop: exactly the received chain + the forwarding instance's element
	for j, st := range steps {
		if st.kind == "refused" {
			break
		}
		if j >= len(seen) {
			break // fewer forwards than demanded: judged under (2)
		}
		if seen[j].inst != st.inst {
			break
		}
		switch st.kind {
		case "head":
			wantEls := fe.render(st.chain)
			var got []string
			if seen[j].msg != nil {
				got = splitElements(strings.Join(seen[j].msg.Values("Via"), ", "))
			}
			if strings.Join(got, "\x00") != strings.Join(wantEls, "\x00") {
				ctx.SpecFail(clauseHop, "", fc, impl, fmt.Sprintf("hop %d (instance %d, %s link): want elements %q, got %q", j+1, st.inst, spec.Links[st.inst], wantEls, got))
			}
		case "raw":
			in := fe.insts[st.inst]
			asked := false
			for _, sr := range in.socks.Requests() {
				if sr.Target == req.Path {
					asked = true
				}
			}
			if !asked {
				ctx.Disagree("a CONNECT forwarded over a SOCKS5 link asks the SOCKS5 server for the CONNECT authority", fc, impl, specStr)
			}
		}
	}
	// (2) who forwards and who refuses
	for kx := 0; kx < n; kx++ {
		switch {
		case counts[kx] > wantConns[kx]:
			ctx.SpecFail(clauseLoop, "", fc, impl, fmt.Sprintf("instance %d forwarded %d times, the property allows %d (relay limit %d); %s", kx, counts[kx], wantConns[kx], loopLimit, specStr))
			return
		case counts[kx] < wantConns[kx]:
			if res.Status == 400 {
				ctx.SpecFail(clauseFwd, "", fc, impl, fmt.Sprintf("instance %d forwarded %d times, the property demands %d: it refused a chain that holds only other instances' elements; %s", kx, counts[kx], wantConns[kx], specStr))
			} else {
				ctx.Disagree("every instance the request has not passed yet forwards it", fc, impl, specStr)
			}
			return
		}
	}
	// (3) the answer
	switch {
	case wantStatus == 400 && res.Status != 400:
		ctx.SpecFail(clause400, "", fc, impl, specStr)
	case wantStatus == 400 && !res.Has("X-Forwarder-Error"):
		ctx.Disagree("the refusal of a loop is produced by a forwarder instance (X-Forwarder-Error)", fc, impl, specStr)
	case wantStatus == 200 && res.Status == 400 && own < 0:
		ctx.SpecFail(clauseFwd, "", fc, impl, specStr)
	case wantStatus == 200 && res.Status != 200:
		ctx.Disagree("a request every instance passes is answered 200", fc, impl, specStr)
	case wantTerminal && termHits != 1:
		ctx.Disagree("a request every instance passes reaches the terminal peer once", fc, impl, specStr)
	case !wantTerminal && termHits != 0:
		ctx.SpecFail("a refused request contacts no upstream", "", fc, impl, specStr)
	}
}

func describeSteps(fe *fleetEnv, steps []specStep) string {
	var out []string
	for _, st := range steps {
		switch st.kind {
		case "head":
			out = append(out, fmt.Sprintf("%d:head[%s]", st.inst, strings.Join(fe.render(st.chain), ", ")))
		default:
			out = append(out, fmt.Sprintf("%d:%s", st.inst, st.kind))
		}
	}
	return strings.Join(out, " -> ")
}

func (fe *fleetEnv) linkCounts() []int64 {
	var cs []int64
	for _, in := range fe.insts {
		cs = append(cs, in.relay.count())
	}
	return cs
}

func (fe *fleetEnv) tags() []string {
	var ts []string
	for _, in := range fe.insts {
		ts = append(ts, in.cfg.Tag)
	}
	return ts
}

// ---------------------------------------------------------------------------------------------
// generator
// ---------------------------------------------------------------------------------------------

var (
	linkKinds  = []string{"http", "https", "https", "socks5"}
	buildKinds = []string{"separate", "copy", "copy", "same-object", "same-object", "separate-rename", "copy-rename"}
)

func genFleet(r *core.Rand) *fleetCase {
	fc := &fleetCase{Kind: "fleet", Listener: "main"}
	fc.Topology = core.Pick(r, []string{"self", "pair", "pair", "chain", "chain"})
	fc.Build = "separate"
	if fc.Topology == "self" {
		fc.Links = []string{core.Pick(r, linkKinds)}
	} else {
		fc.Links = []string{core.Pick(r, linkKinds), core.Pick(r, linkKinds)}
		fc.Build = core.Pick(r, buildKinds)
	}
	if fc.Topology == "chain" {
		fc.Entry = core.Pick(r, []string{"plain", "tls"})
	}
	if r.Chance(30) {
		fc.Listener = "extra"
	}
	instTLS, _ := fc.listenerTLS()
	n := fc.n()
	id := fmt.Sprintf("f%d-%x", idSeq.Add(1), r.U64()&0xffffff)
	q := &reqmodel.Request{Minor: 1}
	if r.Chance(15) {
		q.Minor = 0
	}
	var via []rig.Field
	if r.Chance(55) {
		k := r.Range(1, 3)
		var els []string
		for i := 0; i < k; i++ {
			switch {
			case r.Chance(25):
				els = append(els, "1.1 "+proxyName+"-"+randHex(r, 20)) // same name, an instance outside the fleet
			default:
				els = append(els, foreignElement(r))
			}
		}
		if r.Chance(25) {
			// the request claims to have passed one of the fleet's instances already: exactly that instance refuses
			own := core.Pick(r, []string{"1.1 ", "1.1 ", "1.0 "}) + phInst(r.Intn(n))
			at := r.Intn(len(els) + 1)
			els = append(els[:at], append([]string{own}, els[at:]...)...)
		}
		via = append(via, rig.Field{Name: core.Pick(r, viaSpellings), Value: strings.Join(els, ", ")})
	}
	if r.Chance(40) {
		q.Method = "CONNECT"
		q.Path = "loop.test:80"
		q.Fields = insertFields(r, []rig.Field{{Name: "Host", Value: "loop.test:80"}, {Name: "Case-Id", Value: id}}, via)
		fc.Request = q
		return fc
	}
	q.Method = core.Pick(r, []string{"GET", "GET", "POST", "HEAD"})
	q.Path = core.Pick(r, []string{"/", "/a/b", "/loop"})
	if r.Chance(30) {
		s := "a=1"
		q.Query = &s
	}
	// origin-form on a TLS listener means https (and a CONNECT made by the transport, which is not this
	// scenario's subject): requests entering through a TLS listener are absolute-form http
	if instTLS[0] || r.Chance(60) {
		q.Absolute = true
		q.Scheme = "http"
		q.Authority = "loop.test"
	}
	base := []rig.Field{{Name: "Host", Value: "loop.test"}, {Name: "Case-Id", Value: id}}
	if r.Chance(40) {
		base = append(base, core.Pick(r, plainFields))
	}
	if q.Method == "POST" {
		body := r.Bytes(core.Pick(r, []int{0, 5, 200}))
		q.BodyHex = core.Hex(body)
		base = append(base, rig.Field{Name: "Content-Length", Value: fmt.Sprint(len(body))})
	}
	q.Fields = insertFields(r, base, via)
	fc.Request = q
	return fc
}
