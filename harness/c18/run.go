package c18

import (
	"encoding/json"
	"errors"
	"fmt"
	"strings"
	"sync"
	"sync/atomic"

	"github.com/saucelabs/forwarder/verifharness/core"
	"github.com/saucelabs/forwarder/verifharness/reqmodel"
	"github.com/saucelabs/forwarder/verifharness/rig"
)

var idSeq atomic.Int64

var (
	foreignElements = []string{
		"1.0 fred", "1.1 proxy.example (squid/3.5)", "HTTP/1.1 a", "2.0 edge", "1.1 p:8080", "1.1 cache (a; b)",
		"1.1 vegur", "1.0 ricky, 1.1 ethel", "1.1 " + proxyName, "1.1 forwarder-0123456789abcdef0123", "1.1 varnish (Varnish/6.0)",
	}
	viaSpellings = []string{"Via", "Via", "via", "VIA", "vIa"}
	plainFields  = []rig.Field{
		{Name: "Accept", Value: "*/*"}, {Name: "X-Custom", Value: "c1"}, {Name: "Cookie", Value: "a=b"}, {Name: "User-Agent", Value: "curl/8.0"},
		{Name: "Accept-Encoding", Value: "identity"}, {Name: "X-Forwarded-For", Value: "9.9.9.9"}, {Name: "Cache-Control", Value: "no-cache"},
	}
	hexDigits = "0123456789abcdef"
)

func randHex(r *core.Rand, n int) string {
	var b strings.Builder
	for i := 0; i < n; i++ {
		b.WriteByte(hexDigits[r.Intn(16)])
	}
	return b.String()
}

// genElement draws one Via element; own elements and elements embedding the tag use the placeholder.
func genElement(r *core.Rand, ownPct int) (el, kind string) {
	switch p := r.Intn(100); {
	case p < ownPct:
		return core.Pick(r, []string{"1.1 ", "1.1 ", "1.0 "}) + phTag, "own"
	case p < ownPct+10:
		// same configured name, another instance
		return core.Pick(r, []string{"1.1 ", "1.0 "}) + proxyName + "-" + randHex(r, 20), "same-name"
	case p < ownPct+15:
		// near misses of the shape
		return "1.1 " + core.Pick(r, []string{proxyName + "-" + randHex(r, 19), proxyName + "-" + strings.ToUpper(randHex(r, 20)),
			proxyName + "_" + randHex(r, 20), strings.ToUpper(proxyName) + "-" + randHex(r, 20), proxyName + "-", proxyName}), "near-miss"
	case p < ownPct+22:
		// the tag inside a comment or as part of a longer pseudonym / with decoration
		return core.Pick(r, []string{"1.1 x" + phTag, "1.1 " + phTag + ".example", "1.1 proxy (" + phTag + ")", "1.1 " + phTag + ":8080",
			"1.1 " + phTag + " (comment)", "1.1 " + phTag + "0", "HTTP/1.1 " + phTag, "1.1  " + phTag}), "embeds"
	case p < ownPct+26:
		// the own element decorated with text that other parts of the proxy interpret (a comment after the tag)
		return "1.1 " + phTag + " (" + core.Pick(r, phrasesAll) + ")", "embeds"
	case p < ownPct+42:
		// a foreign hop whose comment / pseudonym / whole element is such text
		return genTextElement(r), "foreign-text"
	default:
		return core.Pick(r, foreignElements), "foreign"
	}
}

// genViaLines draws a chain of 0-5 elements and splits it over 1-3 field lines.
func genViaLines(r *core.Rand) (lines []string, kinds []string) {
	n := core.Pick(r, []int{0, 1, 1, 2, 2, 3, 3, 4, 5})
	if n == 0 {
		if r.Chance(10) {
			return []string{""}, nil // an empty Via field line
		}
		return nil, nil
	}
	ownPct := core.Pick(r, []int{0, 10, 25, 40})
	var els []string
	for i := 0; i < n; i++ {
		e, k := genElement(r, ownPct)
		els = append(els, e)
		kinds = append(kinds, k)
	}
	nl := 1
	if n > 1 && r.Chance(45) {
		nl = r.Range(2, 3)
		if nl > n {
			nl = n
		}
	}
	// choose nl-1 distinct cut points
	cuts := map[int]bool{}
	for len(cuts) < nl-1 {
		cuts[r.Range(1, n-1)] = true
	}
	cur := []string{}
	for i, e := range els {
		if cuts[i] {
			lines = append(lines, strings.Join(cur, core.Pick(r, []string{", ", ", ", ",", " , "})))
			cur = nil
		}
		cur = append(cur, e)
	}
	lines = append(lines, strings.Join(cur, core.Pick(r, []string{", ", ", ", ",", " , "})))
	if r.Chance(4) {
		lines = append([]string{""}, lines...) // an empty first Via line (it used to hide the rest from Header.Get; now it is an empty list element)
	}
	return lines, kinds
}

func insertFields(r *core.Rand, base []rig.Field, via []rig.Field) []rig.Field {
	// Via lines keep their relative order; positions among the other fields are random
	out := append([]rig.Field{}, base...)
	pos := make([]int, len(via))
	for i := range pos {
		pos[i] = r.Intn(len(out) + 1)
	}
	// sort positions ascending
	for i := 0; i < len(pos); i++ {
		for j := i + 1; j < len(pos); j++ {
			if pos[j] < pos[i] {
				pos[i], pos[j] = pos[j], pos[i]
			}
		}
	}
	for i := len(via) - 1; i >= 0; i-- {
		p := pos[i]
		out = append(out[:p], append([]rig.Field{via[i]}, out[p:]...)...)
	}
	return out
}

func genChain(r *core.Rand, mode string) (*chainCase, []string) {
	cc := &chainCase{Kind: "chain", Mode: mode}
	id := fmt.Sprintf("k%d-%x", idSeq.Add(1), r.U64()&0xffffff)
	q := &reqmodel.Request{Minor: 1}
	if r.Chance(15) {
		q.Minor = 0
	}
	lines, kinds := genViaLines(r)
	var via []rig.Field
	for _, l := range lines {
		via = append(via, rig.Field{Name: core.Pick(r, viaSpellings), Value: l})
	}
	connectPct := 18
	if r.Chance(connectPct) {
		cc.Connect = true
		q.Method = "CONNECT"
		q.Path = "origin.test:80"
		if mode == "mitm" || r.Chance(30) {
			q.Path = "origin.test:443"
		}
		base := []rig.Field{{Name: "Host", Value: q.Path}, {Name: "Case-Id", Value: id}}
		if r.Chance(30) {
			base = append(base, rig.Field{Name: "User-Agent", Value: "curl/8.0"})
		}
		q.Fields = insertFields(r, base, via)
		cc.Request = q
		return cc, kinds
	}
	q.Method = core.Pick(r, []string{"GET", "GET", "GET", "POST", "HEAD", "PUT", "DELETE", "OPTIONS"})
	q.Path = core.Pick(r, []string{"/", "/a/b", "/x.html", "/q"})
	if r.Chance(30) {
		s := core.Pick(r, []string{"a=1", "x%20y", ""})
		q.Query = &s
	}
	scheme := "http"
	if mode == "mitm" {
		scheme = "https"
	}
	// origin-form on a TLS listener means https: through an upstream proxy that would be a CONNECT made by the
	// transport (not this scenario's subject), so there every request is absolute-form http
	if r.Chance(35) || mode == "tls-up-https" {
		q.Absolute = true
		q.Scheme = scheme
		q.Authority = "origin.test"
		if httpsAbsoluteOK(mode) && r.Chance(20) {
			q.Scheme = "https" // the proxy itself speaks TLS to the origin; req.URL.Scheme == "https" as inside an intercepted session
		}
	}
	base := []rig.Field{{Name: "Host", Value: "origin.test"}, {Name: "Case-Id", Value: id}}
	for i, k := 0, r.Range(0, 3); i < k; i++ {
		f := core.Pick(r, plainFields)
		dup := false
		for _, b := range base {
			if b.Name == f.Name {
				dup = true
			}
		}
		if !dup {
			base = append(base, f)
		}
	}
	if (q.Method == "POST" || q.Method == "PUT") && r.Chance(70) {
		body := r.Bytes(core.Pick(r, []int{1, 10, 300}))
		q.BodyHex = core.Hex(body)
		base = append(base, rig.Field{Name: "Content-Length", Value: fmt.Sprint(len(body))})
	}
	if r.Chance(25) {
		base = append(base, rig.Field{Name: "Connection", Value: core.Pick(r, []string{"close", "keep-alive", "x-custom", "Via", "close, via", "x-custom, VIA"})})
	}
	q.Fields = insertFields(r, base, via)
	cc.Request = q
	return cc, kinds
}

func genLoop(r *core.Rand) *loopCase {
	topo := core.Pick(r, []string{"self", "self", "pair", "pair", "chain"})
	variant := core.Pick(r, []string{"upstream", "direct", "upstream", "direct", "connect"})
	if topo == "chain" && variant == "connect" {
		variant = "upstream"
	}
	lc := &loopCase{Kind: "loop", Topology: topo, Variant: variant}
	id := fmt.Sprintf("l%d-%x", idSeq.Add(1), r.U64()&0xffffff)
	q := &reqmodel.Request{Minor: 1}
	if r.Chance(15) {
		q.Minor = 0
	}
	// foreign elements only: the instances' own tags get there by themselves
	var via []rig.Field
	if r.Chance(50) {
		n := r.Range(1, 3)
		var els []string
		for i := 0; i < n; i++ {
			if r.Chance(25) {
				els = append(els, "1.1 "+proxyName+"-"+randHex(r, 20))
			} else {
				els = append(els, foreignElement(r))
			}
		}
		via = append(via, rig.Field{Name: core.Pick(r, viaSpellings), Value: strings.Join(els, ", ")})
	}
	if variant == "connect" {
		q.Method = "CONNECT"
		q.Path = "loop.test:80"
		q.Fields = insertFields(r, []rig.Field{{Name: "Host", Value: "loop.test:80"}, {Name: "Case-Id", Value: id}}, via)
		lc.Request = q
		return lc
	}
	q.Method = core.Pick(r, []string{"GET", "GET", "POST", "HEAD"})
	q.Path = core.Pick(r, []string{"/", "/a/b", "/loop"})
	if r.Chance(30) {
		s := "a=1"
		q.Query = &s
	}
	if variant == "upstream" && r.Chance(60) || r.Chance(25) {
		q.Absolute = true
		q.Scheme = "http"
		q.Authority = "loop.test"
	}
	base := []rig.Field{{Name: "Host", Value: "loop.test"}, {Name: "Case-Id", Value: id}}
	if r.Chance(40) {
		base = append(base, core.Pick(r, plainFields))
	}
	if q.Method == "POST" {
		body := r.Bytes(core.Pick(r, []int{0, 5, 200}))
		q.BodyHex = core.Hex(body)
		base = append(base, rig.Field{Name: "Content-Length", Value: fmt.Sprint(len(body))})
	}
	q.Fields = insertFields(r, base, via)
	lc.Request = q
	return lc
}

func Run(ctx *core.Ctx) {
	ctx.SetRule("chain cases: one request per client connection through the real proxy (configurations direct / direct with header rules / " +
		"http, https and socks5 upstream proxy / MITM / TLS listener / TLS listener with https upstream; origin-form, absolute-form, 18% CONNECT " +
		"compared with Req.processConnect; HTTP/1.0 and 1.1) carrying a generated Via chain of 0-5 elements " +
		"(foreign hops with comments, the instance's own element learned from a first request, same-name-other-suffix tags, near misses of the tag " +
		"shape, the tag embedded in a comment / longer pseudonym, foreign hops and own-element decorations carrying text that other parts of the proxy " +
		"interpret: phrases the error classification and net/http errors use, status texts, format verbs, quotes, backslashes, markup, non-ASCII, nested / " +
		"unterminated / 1-4 KiB comments) split over 1-3 field lines with varying separators and name spellings, https:// absolute-form where the " +
		"proxy dials the origin itself; a sweep of every such phrase x configuration next to the own element (before / after / both sides) and in chains " +
		"without it; a detected loop's status, X-Forwarder-Error and body compared with the model's classification of the loop error (C18 loopclass); loop cases: " +
		"a proxy chained to itself and two same-name instances A->B->A (upstream-proxy links, connect-to links, CONNECT), and A->B->origin, every link " +
		"through a counting pass-through peer; fleet cases: self / A->B->A / A->B->terminal over every mix of http, https (TLS listeners, TLS-terminating relays) and " +
		"socks5 upstream links, plain and CONNECT, entered through the main or an extra listener, the instances built from separate default configs, copies of one " +
		"config value, the same config object twice, or configs differing only in Name, judged at every hop against a trace computed from the property on instance " +
		"indices, the observed elements of every fleet asserted injective; first-requests cases: batches of FRESH instances (httpspec.NewStack as NewHTTPProxy calls it, and whole " +
		"proxies, direct / http upstream, main and extra listener) each hit by a burst of 4-16 clients whose very first requests leave together (spinning goroutines / heads already " +
		"in the socket buffers), then 2 more requests, then every forwarded request replayed into the instance: one tag per instance ever, every replay 400 without an upstream " +
		"contact, tags injective over all instances of the run (child process); CONNECT cross-talk cases: 8-16 clients released together, each sending CONNECTs with a target and a " +
		"Via chain of its own (unique marker in pseudonyms and comments, 1-3 elements on 1-2 lines, some with the own element) through one instance behind an http / https upstream " +
		"proxy (plain and TLS listener) that records the heads - every head = its own request's chain + the instance's element, nothing of another client's, compared with " +
		"Req.processConnect of that request alone - and through a two-instance CONNECT loop entered at both instances at once (each request passes each instance once, then 400); entropy cases " +
		"(child process): crypto/rand.Reader swapped, only while same-name instances are constructed (header.NewViaModifier / httpspec.NewStack / whole proxies, back to back and in bursts of up to 24000 calls " +
		"from 8-14 goroutines), for sources that fail at once / after k bytes / per call / with EOF / every second read, deliver short reads or bytes with an error, or are degenerate (zeros, constant, periodic, " +
		"replayed): every call compared with Model.C18Tag mkInstance, then no instance or pairwise different tags, and A's request forwarded by B, refused by A. " +
		"Non-trivial = the request carries at least one Via line, or it is a loop / fleet / first-requests / CONNECT cross-talk / entropy case; distinct = distinct " +
		"(configuration, request bytes with the tag as a placeholder)")
	p := newPools(ctx)
	defer p.closeAll()
	defer stopFirstChild()
	for _, c := range core.LoadCorpus(ctx.Root, "C18") {
		p.run(ctx, c)
	}
	// where the identifier comes from: series and bursts of constructor calls under a faulty entropy source (child process)
	for i, ec := range genEntropy(ctx) {
		if i == 1 {
			ctx.Sample(ec)
		}
		runEntropy(ctx, ec)
	}
	// first requests of fresh instances: before the workers start (the bursts want the machine's processors)
	for i, fc := range genFirst(ctx) {
		if i == 0 {
			ctx.Sample(fc)
		}
		runFirst(ctx, fc)
	}
	// CONNECT cross-talk: concurrent CONNECTs with chains of their own through one instance / a two-instance loop
	for i, cc := range genConnCrossCases(ctx) {
		if i == 0 {
			ctx.Sample(cc)
		}
		raw, _ := json.Marshal(cc)
		p.run(ctx, raw)
	}
	nChain := ctx.N(8000, 60000)
	nLoop := ctx.N(650, 4500)
	// upstream scheme × listener kind: http / https / socks5 upstream, plain / TLS listener
	modes := []string{"direct", "rules", "upstream", "mitm", "up-https", "up-socks5", "tls", "tls-up-https"}

	type job struct {
		chain *chainCase
		loop  *loopCase
		fleet *fleetCase
	}
	jobs := make(chan job, 64)
	var wg sync.WaitGroup
	for w := 0; w < 10; w++ {
		wg.Add(1)
		go func() {
			defer wg.Done()
			for j := range jobs {
				if j.chain != nil {
					e, err := p.env(j.chain.Mode)
					if err != nil {
						ctx.Crash("proxy starts with a valid configuration", "", j.chain, err.Error())
						continue
					}
					e.runChain(ctx, j.chain)
				} else if j.fleet != nil {
					raw, _ := json.Marshal(j.fleet)
					p.run(ctx, raw)
				} else {
					e, err := p.loop(j.loop.Topology, j.loop.Variant)
					if err != nil {
						if !errors.Is(err, errForeignRefused) {
							ctx.Crash("proxy starts with a valid configuration", "", j.loop, err.Error())
						}
						continue
					}
					e.runLoop(ctx, j.loop)
				}
			}
		}()
	}
	// text sweep: every phrase that another part of the proxy interprets (error classification, status texts, log
	// and format metacharacters, non-ASCII) in every configuration, next to the own element (2 of 3) or in a chain
	// without it (1 of 3)
	for rep, reps := 0, ctx.N(1, 4); rep < reps; rep++ {
		for pi, phrase := range phrasesAll {
			for mi, mode := range modes {
				r := ctx.Rng.Sub()
				cc := sweepChain(r, mode, phrase, (pi+mi+rep)%3 != 0)
				ctx.Count("text-sweep")
				if pi == 0 && mi < 2 && rep == 0 {
					ctx.Sample(cc)
				}
				jobs <- job{chain: cc}
			}
		}
	}
	// interleave loop cases with chain cases
	every := nChain / (nLoop + 1)
	if every < 1 {
		every = 1
	}
	loops := 0
	for i := 0; i < nChain; i++ {
		r := ctx.Rng.Sub()
		cc, kinds := genChain(r, core.Pick(r, modes))
		for _, k := range kinds {
			ctx.Count("element/" + k)
		}
		if cc.Request.Minor == 0 {
			ctx.Count("proto/1.0")
		} else {
			ctx.Count("proto/1.1")
		}
		if i < 3 {
			ctx.Sample(cc)
		}
		jobs <- job{chain: cc}
		if i%every == 0 && loops < nLoop {
			lr := ctx.Rng.Sub()
			if loops%5 < 3 {
				// fleets: every upstream scheme and listener kind, every way of obtaining the configuration values
				fc := genFleet(lr)
				if loops < 3 {
					ctx.Sample(fc)
				}
				loops++
				jobs <- job{fleet: fc}
				continue
			}
			lc := genLoop(lr)
			if loops < 5 {
				ctx.Sample(lc)
			}
			loops++
			jobs <- job{loop: lc}
		}
	}
	close(jobs)
	wg.Wait()
}
