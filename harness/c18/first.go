package c18

// First-requests cases: the VERY FIRST requests a freshly constructed instance ever sees, released together.
//
// The other families learn an instance's element from one request after start-up and only then run their cases:
// whatever an instance does while its identity comes into being is over before they look. Here every case is a
// batch of fresh instances, each hit by a burst of 4–16 clients whose first requests leave at the same moment:
//
//   - level "stack": `httpspec.NewStack(name)` — the very call NewHTTPProxy makes (http_proxy.go), which is where
//     header.NewViaModifier is reached from — with goroutines spinning on a start flag, each with its own request
//     (HTTP/1.0 and 1.1, with and without a chain of foreign elements on 1–2 field lines);
//   - level "proxy": whole HTTPProxy instances (direct or through an http upstream proxy, main and extra listener):
//     the clients' request heads are already in the proxy's socket buffers, only the final CRLF is missing.
//
// After the burst a few more requests are sent one after the other, then EVERY request the instance forwarded is
// replayed into it (the chain the next hop saw followed by a later hop's element). Judged per instance:
// every request is forwarded with the chain it carried followed by one element `1.x <name>-<20 hex digits>`; all
// elements the instance ever emitted carry ONE tag (Theorems/C18.lean c18_tag_fixed_at_construction: the tag does
// not depend on the schedule of the first requests); every replay is answered 400 without an upstream contact
// (c18_first_requests_loop_cut); the tags of all instances of the run are pairwise distinct.
//
// The code under test runs in a CHILD process (this binary re-executed with VERIF_C18_CHILD=1): state that is
// filled in by whoever comes first may give wrong answers, but it may also kill the process; the parent attributes
// that to the batch instead of dying with it.

import (
	"bufio"
	"bytes"
	"encoding/json"
	"errors"
	"fmt"
	"io"
	"net"
	"net/http"
	"os"
	"os/exec"
	"runtime"
	"runtime/debug"
	"strings"
	"sync"
	"sync/atomic"
	"time"

	"github.com/saucelabs/forwarder"
	"github.com/saucelabs/forwarder/internal/martian"
	"github.com/saucelabs/forwarder/internal/martian/httpspec"
	"github.com/saucelabs/forwarder/verifharness/core"
	"github.com/saucelabs/forwarder/verifharness/rig"
)

const firstChildEnv = "VERIF_C18_CHILD"

func init() {
	if os.Getenv(firstChildEnv) == "1" {
		// re-executed by the parent check: serve batches and leave before main starts
		firstChildMain()
		os.Exit(0)
	}
}

// firstCase: one batch of fresh instances. Everything else (burst size, chains, protocol versions, listeners)
// is derived from Seed, in the child and in the parent alike.
type firstCase struct {
	Kind      string `json:"kind"`  // "first"
	Level     string `json:"level"` // "stack" | "proxy"
	Mode      string `json:"mode"`  // proxy: "direct" | "upstream"
	Instances int    `json:"instances"`
	Later     int    `json:"later"`               // requests sent one after the other after the burst
	MaxBurst  int    `json:"max_burst,omitempty"` // stack: bursts are capped (spinning goroutines: fewer than processors); 0 = 16
	Seed      uint64 `json:"seed"`
}

const (
	firstClauseOne    = "one instance emits the same element on every request it forwards, from its very first requests on (the identity is fixed at construction, not by whoever comes first)"
	firstClauseReplay = "a request that carries an element this instance emitted — also one of its first — is answered 400 and contacts no upstream"
)

// ---------------------------------------------------------------------------------------------
// what the child reports

type firstReq struct {
	Minor    int      `json:"minor"`
	Listener int      `json:"listener,omitempty"`
	In       []string `json:"in,omitempty"`  // Via field lines sent
	Out      []string `json:"out,omitempty"` // Via field lines on the forwarded request (stack: after ModifyRequest; proxy: what the next hop read)
	Status   int      `json:"status"`        // proxy: the client's status; stack: 200 = passed, else the ErrorStatus (-1: another error)
	Hits     int      `json:"hits"`          // proxy: requests with this Case-Id the next hop read
	Err      string   `json:"err,omitempty"`
}

type firstReplay struct {
	Of          int      `json:"of"` // index of the replayed request
	Via         string   `json:"via"`
	Status      int      `json:"status"`
	Contacted   int      `json:"contacted"` // proxy: requests of this replay the next hop read; stack: 1 = the stack let it pass
	Out         []string `json:"out,omitempty"`
	Arrived     []string `json:"arrived,omitempty"`      // proxy: the requests of this replay the next hop read
	BareAccepts int      `json:"bare_accepts,omitempty"` // proxy: connections the next hop accepted meanwhile (not attributed, see childFirstProxyInst)
	Err         string   `json:"err,omitempty"`
}

type firstInst struct {
	Burst   int           `json:"burst"`
	Start   string        `json:"start,omitempty"` // the instance did not start
	Reqs    []firstReq    `json:"reqs"`            // the burst, then the later requests
	Replays []firstReplay `json:"replays"`
}

type firstObs struct {
	Err   string      `json:"err,omitempty"` // machinery
	Panic string      `json:"panic,omitempty"`
	Insts []firstInst `json:"insts"`
}

func firstLCG(x uint64) uint64 { return x*6364136223846793005 + 1442695040888963407 }

// firstPlan: burst size and per-request shape of instance n of a batch — a function of the case alone.
func firstPlan(fc *firstCase, n int) (burst int, reqs []firstReq) {
	x := firstLCG(fc.Seed + uint64(n)*0x9e3779b97f4a7c15)
	x = firstLCG(x)
	burst = 4 + int((x>>33)%13)
	if fc.MaxBurst >= 2 && burst > fc.MaxBurst {
		burst = fc.MaxBurst
	}
	for i := 0; i < burst+fc.Later; i++ {
		x = firstLCG(x)
		v := x >> 24
		q := firstReq{Minor: 1}
		if v%7 == 0 {
			q.Minor = 0
		}
		if fc.Level == "proxy" && (v>>3)%3 == 0 {
			q.Listener = 1
		}
		switch (v >> 8) % 4 {
		case 0:
			q.In = []string{foreignElements[int(v>>16)%len(foreignElements)]}
		case 1:
			q.In = []string{foreignElements[int(v>>16)%len(foreignElements)], "1.1 " + proxyName + "-" + fmt.Sprintf("%020x", v&0xffffffffff)}
		}
		reqs = append(reqs, q)
	}
	return burst, reqs
}

// ---------------------------------------------------------------------------------------------
// the child: runs the code under test

func firstChildMain() {
	in := bufio.NewReaderSize(os.Stdin, 1<<20)
	out := bufio.NewWriter(os.Stdout)
	for {
		line, err := in.ReadBytes('\n')
		if len(bytes.TrimSpace(line)) > 0 {
			var fc firstCase
			var o firstObs
			var b []byte
			if e := json.Unmarshal(line, &fc); e != nil {
				o.Err = "bad job: " + e.Error()
			} else if fc.Kind == "entropy" {
				// construction under a faulty entropy source (entropy.go)
				var ec entropyCase
				eo := entropyObs{}
				if e := json.Unmarshal(line, &ec); e != nil {
					eo.Err = "bad job: " + e.Error()
				} else {
					eo = childEntropy(&ec)
				}
				b, _ = json.Marshal(eo)
			} else {
				o = childFirst(&fc)
			}
			if b == nil {
				b, _ = json.Marshal(o)
			}
			out.Write(b)
			out.WriteByte('\n')
			out.Flush()
		}
		if err != nil {
			return
		}
	}
}

func childFirst(fc *firstCase) (o firstObs) {
	defer func() {
		if p := recover(); p != nil {
			o.Panic = fmt.Sprintf("%v\n%s", p, debug.Stack())
		}
	}()
	switch fc.Level {
	case "stack":
		for n := 0; n < fc.Instances; n++ {
			o.Insts = append(o.Insts, childFirstStack(fc, n))
		}
	case "proxy":
		return childFirstProxy(fc)
	default:
		o.Err = "unknown level " + fc.Level
	}
	return o
}

func firstStackRequest(q *firstReq, via []string) (*http.Request, error) {
	req, err := http.NewRequest(http.MethodGet, "http://origin.test/first", http.NoBody)
	if err != nil {
		return nil, err
	}
	req.RemoteAddr = "192.0.2.1:1234"
	if q.Minor == 0 {
		req.Proto, req.ProtoMajor, req.ProtoMinor = "HTTP/1.0", 1, 0
	}
	for _, l := range via {
		req.Header.Add("Via", l)
	}
	return req, nil
}

// firstStackResult fills in what ModifyRequest did to req.
func firstStackResult(req *http.Request, err error) (status int, out []string, es string) {
	if err == nil {
		return 200, req.Header.Values("Via"), ""
	}
	var st martian.ErrorStatus
	if errors.As(err, &st) {
		return st.Status, nil, err.Error()
	}
	return -1, nil, err.Error()
}

func childFirstStack(fc *firstCase, n int) firstInst {
	burst, plan := firstPlan(fc, n)
	inst := firstInst{Burst: burst, Reqs: plan}
	// exactly what NewHTTPProxy does to obtain its Via modifier (http_proxy.go: httpspec.NewStack(hp.config.Name))
	stack, _ := httpspec.NewStack(proxyName)
	reqs := make([]*http.Request, len(plan))
	for i := range plan {
		r, err := firstStackRequest(&plan[i], plan[i].In)
		if err != nil {
			inst.Start = err.Error()
			return inst
		}
		reqs[i] = r
	}
	var (
		start   atomic.Bool
		arrived atomic.Int32
		wg      sync.WaitGroup
		errs    = make([]error, len(plan))
	)
	for i := 0; i < burst; i++ {
		wg.Add(1)
		go func(i int) {
			defer wg.Done()
			arrived.Add(1)
			for !start.Load() { // spin: the first requests leave together
			}
			errs[i] = stack.ModifyRequest(reqs[i])
		}(i)
	}
	for t0 := time.Now(); arrived.Load() < int32(burst) && time.Since(t0) < time.Second; {
		runtime.Gosched()
	}
	start.Store(true)
	wg.Wait()
	for i := burst; i < len(plan); i++ {
		errs[i] = stack.ModifyRequest(reqs[i])
	}
	for i := range plan {
		inst.Reqs[i].Status, inst.Reqs[i].Out, inst.Reqs[i].Err = firstStackResult(reqs[i], errs[i])
	}
	// every request the instance let pass comes back to it
	for i := range plan {
		if inst.Reqs[i].Status != 200 {
			continue
		}
		via := strings.Join(inst.Reqs[i].Out, ", ") + ", 1.1 next-hop"
		r, err := firstStackRequest(&firstReq{Minor: 1}, []string{via})
		if err != nil {
			continue
		}
		rp := firstReplay{Of: i, Via: via}
		rp.Status, rp.Out, rp.Err = firstStackResult(r, stack.ModifyRequest(r))
		if rp.Status == 200 {
			rp.Contacted = 1
		}
		inst.Replays = append(inst.Replays, rp)
	}
	return inst
}

// firstHop is the next hop of the whole-proxy instances of a batch: origin or upstream proxy, it answers every
// request itself and remembers, per Case-Id, the Via field lines it read.
type firstHop struct {
	peer *rig.Peer
	mu   sync.Mutex
	via  map[string][]string
	hits map[string]int
}

func newFirstHop() (*firstHop, error) {
	h := &firstHop{via: map[string][]string{}, hits: map[string]int{}}
	var err error
	h.peer, err = rig.NewPeer("first-next-hop", func(w *rig.PeerConn, ex *rig.Exchange) bool {
		id := ex.Req.Get("Case-Id")
		h.mu.Lock()
		h.hits[id]++
		h.via[id] = append([]string(nil), ex.Req.Values("Via")...)
		h.mu.Unlock()
		w.Write(rig.Head("HTTP/1.1 200 OK", []rig.Field{{Name: "Content-Length", Value: "0"}, {Name: "Connection", Value: "close"}}))
		return false
	})
	return h, err
}

func (h *firstHop) seen(id string) (int, []string) {
	h.mu.Lock()
	defer h.mu.Unlock()
	return h.hits[id], h.via[id]
}

func firstHead(id string, minor int, via []string) []byte {
	var sb strings.Builder
	fmt.Fprintf(&sb, "GET http://origin.test/first HTTP/1.%d\r\nHost: origin.test\r\nCase-Id: %s\r\nConnection: close\r\n", minor, id)
	for _, l := range via {
		fmt.Fprintf(&sb, "Via: %s\r\n", l)
	}
	return []byte(sb.String())
}

// firstSend writes the request head without its final CRLF, signals ready, waits for release (nil: none), sends
// the CRLF and reads the response's status.
func firstSend(addr string, head []byte, ready *sync.WaitGroup, release <-chan struct{}) (status int, err error) {
	signalled := false
	signal := func() {
		if ready != nil && !signalled {
			signalled = true
			ready.Done()
		}
	}
	defer signal()
	conn, err := (&net.Dialer{Timeout: 5 * time.Second}).Dial("tcp", addr)
	if err != nil {
		return 0, err
	}
	defer conn.Close()
	conn.SetDeadline(time.Now().Add(20 * time.Second))
	if _, err := conn.Write(head); err != nil {
		return 0, err
	}
	signal()
	if release != nil {
		<-release
	}
	if _, err := conn.Write([]byte("\r\n")); err != nil {
		return 0, err
	}
	res, err := rig.ReadResponse(bufio.NewReader(conn), "GET")
	if err != nil {
		return 0, err
	}
	return res.Status, nil
}

func childFirstProxy(fc *firstCase) (o firstObs) {
	hop, err := newFirstHop()
	if err != nil {
		o.Err = err.Error()
		return o
	}
	defer hop.peer.Close()
	for n := 0; n < fc.Instances; n++ {
		o.Insts = append(o.Insts, childFirstProxyInst(fc, n, hop))
	}
	return o
}

func childFirstProxyInst(fc *firstCase, n int, hop *firstHop) firstInst {
	burst, plan := firstPlan(fc, n)
	inst := firstInst{Burst: burst, Reqs: plan}
	p, err := rig.StartProxy(rig.ProxyOpts{
		ConnectTo: []forwarder.HostPortPair{
			rig.Route("origin.test", "80", hop.peer.Addr),
			rig.Route("upstream.test", "3128", hop.peer.Addr),
		},
		PostTransport: func(rt *http.Transport) { rt.DisableKeepAlives = true; asRunComposes(rt) },
		Configure: func(cfg *forwarder.HTTPProxyConfig) {
			cfg.Name = proxyName
			if fc.Mode == "upstream" {
				cfg.UpstreamProxy = rig.MustURL("http://upstream.test:3128")
			}
			cfg.ExtraListeners = []forwarder.NamedListenerConfig{{Name: "extra", ListenerConfig: *forwarder.DefaultListenerConfig("127.0.0.1:0")}}
		},
	})
	if err != nil {
		inst.Start = err.Error()
		return inst
	}
	defer p.Stop()
	if len(p.Addrs) < 2 {
		inst.Start = "extra listener has no address"
		return inst
	}
	id := func(kind string, i int) string { return fmt.Sprintf("first-%x-%d-%s%d", fc.Seed&0xffffff, n, kind, i) }
	var (
		ready, done sync.WaitGroup
		release     = make(chan struct{})
	)
	for i := 0; i < burst; i++ {
		ready.Add(1)
		done.Add(1)
		go func(i int) {
			defer done.Done()
			q := &inst.Reqs[i]
			st, err := firstSend(p.Addrs[q.Listener], firstHead(id("q", i), q.Minor, q.In), &ready, release)
			q.Status = st
			if err != nil {
				q.Err = err.Error()
			}
		}(i)
	}
	ready.Wait()
	time.Sleep(2 * time.Millisecond) // the proxy is parked in a read on every connection
	close(release)
	done.Wait()
	for i := burst; i < len(plan); i++ {
		q := &inst.Reqs[i]
		st, err := firstSend(p.Addrs[q.Listener], firstHead(id("q", i), q.Minor, q.In), nil, nil)
		q.Status = st
		if err != nil {
			q.Err = err.Error()
		}
	}
	for i := range inst.Reqs {
		inst.Reqs[i].Hits, inst.Reqs[i].Out = hop.seen(id("q", i))
	}
	for i := range inst.Reqs {
		if inst.Reqs[i].Hits == 0 {
			continue
		}
		via := strings.Join(inst.Reqs[i].Out, ", ") + ", 1.1 next-hop"
		rp := firstReplay{Of: i, Via: via}
		before := hop.peer.Accepts()
		logBefore := len(hop.peer.Log())
		st, err := firstSend(p.Addrs[i%2], firstHead(id("r", i), 1, []string{via}), nil, nil)
		rp.Status = st
		if err != nil {
			rp.Err = err.Error()
		}
		// a contact = a request that belongs to this replay reaching the next hop (its Case-Id, or its chain). A bare
		// accept with nothing of this replay on it is recorded but not attributed: on a machine where many
		// processes use ephemeral loopback ports a stale address elsewhere can produce one (the chain cases judge
		// "no connection at all" with exact counters).
		rp.BareAccepts = int(hop.peer.Accepts() - before)
		if rp.BareAccepts > 0 {
			time.Sleep(5 * time.Millisecond)
		}
		log := hop.peer.Log()
		for k := logBefore; k < len(log); k++ {
			if m := log[k].Req; m != nil && (m.Get("Case-Id") == id("r", i) || strings.Contains(strings.Join(m.Values("Via"), ", "), via)) {
				rp.Contacted++
				rp.Out = m.Values("Via")
				rp.Arrived = append(rp.Arrived, m.Method+" "+m.Target+" Case-Id="+m.Get("Case-Id"))
			}
		}
		inst.Replays = append(inst.Replays, rp)
	}
	return inst
}

// ---------------------------------------------------------------------------------------------
// the parent: child plumbing

type firstTail struct {
	mu sync.Mutex
	b  []byte
}

func (t *firstTail) Write(p []byte) (int, error) {
	t.mu.Lock()
	t.b = append(t.b, p...)
	if len(t.b) > 1<<20 {
		t.b = append(t.b[:4000:4000], t.b[len(t.b)-200000:]...)
	}
	t.mu.Unlock()
	return len(p), nil
}

func (t *firstTail) String() string {
	t.mu.Lock()
	defer t.mu.Unlock()
	s := string(t.b)
	if len(s) > 3000 {
		return s[:1500] + " … " + s[len(s)-1200:]
	}
	return s
}

type firstChild struct {
	cmd    *exec.Cmd
	in     io.WriteCloser
	out    *bufio.Reader
	stderr *firstTail
}

var (
	firstMu       sync.Mutex // one batch at a time: the bursts want the machine's processors
	theFirstChild *firstChild
)

func startFirstChild() (*firstChild, error) {
	exe, err := os.Executable()
	if err != nil {
		return nil, err
	}
	cmd := exec.Command(exe, "C18")
	cmd.Env = append(os.Environ(), firstChildEnv+"=1")
	in, err := cmd.StdinPipe()
	if err != nil {
		return nil, err
	}
	outp, err := cmd.StdoutPipe()
	if err != nil {
		return nil, err
	}
	tb := &firstTail{}
	cmd.Stderr = tb
	if err := cmd.Start(); err != nil {
		return nil, err
	}
	return &firstChild{cmd: cmd, in: in, out: bufio.NewReaderSize(outp, 4<<20), stderr: tb}, nil
}

func stopFirstChild() {
	firstMu.Lock()
	defer firstMu.Unlock()
	ch := theFirstChild
	theFirstChild = nil
	if ch == nil {
		return
	}
	ch.in.Close()
	done := make(chan struct{})
	go func() { ch.cmd.Wait(); close(done) }()
	select {
	case <-done:
	case <-time.After(3 * time.Second):
		ch.cmd.Process.Kill()
		<-done
	}
}

// askFirstChild runs one batch in the child (firstMu held). died = the process crashed or did not answer in time.
func askFirstChild(fc *firstCase, limit time.Duration) (o *firstObs, died bool, detail string) {
	line, died, detail := askChildRaw(fc, limit)
	if died {
		return nil, true, detail
	}
	var obs firstObs
	if e := json.Unmarshal(line, &obs); e != nil {
		core.Fatalf("C18: unreadable reply from the child: %v", e)
	}
	if obs.Err != "" {
		core.Fatalf("C18: child: %s", obs.Err)
	}
	return &obs, false, ""
}

// askChildRaw sends one job (a case object) to the child and returns its one-line answer (firstMu held).
func askChildRaw(job any, limit time.Duration) (line []byte, died bool, detail string) {
	if theFirstChild == nil {
		ch, err := startFirstChild()
		if err != nil {
			core.Fatalf("C18: cannot start the child process: %v", err)
		}
		theFirstChild = ch
	}
	ch := theFirstChild
	b, _ := json.Marshal(job)
	if _, werr := ch.in.Write(append(b, '\n')); werr != nil {
		ch.cmd.Process.Kill()
		ch.cmd.Wait()
		theFirstChild = nil
		return nil, true, "the child process was gone before the batch: " + ch.stderr.String()
	}
	type res struct {
		line []byte
		err  error
	}
	rc := make(chan res, 1)
	go func() {
		line, err := ch.out.ReadBytes('\n')
		rc <- res{line, err}
	}()
	select {
	case r := <-rc:
		if r.err != nil {
			ch.cmd.Wait()
			theFirstChild = nil
			return nil, true, "the process running the code under test died: " + ch.stderr.String()
		}
		return r.line, false, ""
	case <-time.After(limit):
		ch.cmd.Process.Kill()
		ch.cmd.Wait()
		theFirstChild = nil
		return nil, true, fmt.Sprintf("the batch did not finish within %v: %s", limit, ch.stderr.String())
	}
}

// ---------------------------------------------------------------------------------------------
// the parent: judging a batch

// firstTags: tags seen over the whole run → where (the identifier is injective over ALL instances constructed).
var (
	firstTagsMu sync.Mutex
	firstTags   = map[string]string{}
)

// ownOf splits the Via lines of a forwarded request into the chain before the last element and the last
// element's protocol version and pseudonym.
func ownOf(out []string) (before []string, pv, tag string, ok bool) {
	els := splitElements(strings.Join(out, ", "))
	if len(els) == 0 {
		return nil, "", "", false
	}
	f := strings.Fields(els[len(els)-1])
	if len(f) != 2 {
		return els[:len(els)-1], "", "", false
	}
	return els[:len(els)-1], f[0], f[1], true
}

func runFirst(ctx *core.Ctx, fc *firstCase) {
	firstMu.Lock()
	defer firstMu.Unlock()
	if fc.Instances < 1 || fc.Instances > 5000 || fc.Later < 0 || fc.Later > 8 {
		core.Fatalf("bad C18 first-requests case: %+v", *fc)
	}
	limit := 60*time.Second + time.Duration(fc.Instances)*500*time.Millisecond
	obs, died, detail := askFirstChild(fc, limit)
	if died {
		ctx.Crash("a freshly constructed instance serves its first requests", "", fc, detail)
		return
	}
	if obs.Panic != "" {
		ctx.Crash("a freshly constructed instance serves its first requests", "", fc, "panic: "+obs.Panic)
		return
	}
	if len(obs.Insts) != fc.Instances {
		core.Fatalf("C18: the child reported %d instances of %d", len(obs.Insts), fc.Instances)
	}
	where := fc.Level
	if fc.Level == "proxy" {
		where += "/" + fc.Mode
	}
	reported := 0
	for n := range obs.Insts {
		in := &obs.Insts[n]
		burst, plan := firstPlan(fc, n)
		var keyParts []string
		for _, q := range plan {
			keyParts = append(keyParts, fmt.Sprintf("%d.%d.%s", q.Minor, q.Listener, strings.Join(q.In, "|")))
		}
		ctx.Case(fmt.Sprintf("first|%s|%d|%s", where, burst, strings.Join(keyParts, ";")), true)
		ctx.Count("first/" + where)
		ctx.Count(fmt.Sprintf("first-burst/%02d", burst))
		if in.Start != "" {
			ctx.Crash("proxy starts with a valid configuration", "", fc, fmt.Sprintf("instance %d: %s", n, in.Start))
			continue
		}
		if len(in.Reqs) != len(plan) || in.Burst != burst {
			core.Fatalf("C18: instance %d: the child ran another plan than the parent derived", n)
		}
		impl := func() string {
			var sb strings.Builder
			fmt.Fprintf(&sb, "instance %d of the batch (%s, burst of %d first requests, then %d more):", n, where, burst, len(plan)-burst)
			for i, q := range in.Reqs {
				fmt.Fprintf(&sb, " [%d: HTTP/1.%d via=%q -> status=%d forwarded-via=%q%s]", i, q.Minor, q.In, q.Status, q.Out, errSuffix(q.Err))
			}
			for _, rp := range in.Replays {
				fmt.Fprintf(&sb, " [replay of %d: via=%q -> status=%d upstream-contacts=%d arrived-there=%q unattributed-accepts=%d%s]", rp.Of, rp.Via, rp.Status, rp.Contacted, rp.Arrived, rp.BareAccepts, errSuffix(rp.Err))
			}
			return sb.String()
		}
		bad := false
		tags := map[string]int{}
		var order []string
		for i, q := range in.Reqs {
			// none of the generated requests carries the instance's element: every one is forwarded …
			fwd := q.Status == 200 && len(q.Out) > 0 && (fc.Level == "stack" || q.Hits == 1)
			if !fwd {
				bad = true
				if q.Status == 400 {
					ctx.SpecFail(clauseFwd, "", fc, impl(), fmt.Sprintf("request %d of instance %d carries only foreign elements and was refused", i, n))
				} else {
					ctx.Disagree("a request without the instance's element is forwarded once and answered 200", fc, impl(), fmt.Sprintf("request %d: status %d, %d forwards", i, q.Status, q.Hits))
				}
				continue
			}
			// … with exactly the chain it carried followed by one own element
			before, pv, tag, ok := ownOf(q.Out)
			wantBefore := splitElements(strings.Join(q.In, ", "))
			if !ok || pv != fmt.Sprintf("1.%d", q.Minor) || strings.Join(before, "\x00") != strings.Join(wantBefore, "\x00") {
				bad = true
				ctx.SpecFail(clauseHop, "", fc, impl(), fmt.Sprintf("request %d of instance %d: want elements %q + [1.%d <tag>], got %q", i, n, wantBefore, q.Minor, q.Out))
				continue
			}
			if tags[tag] == 0 {
				order = append(order, tag)
			}
			tags[tag]++
		}
		if len(order) > 0 && ask(ctx, "shape", core.HexS(proxyName), core.HexS(order[0])) != "1" {
			bad = true
			ctx.SpecFail("the Via element carries an identifier unique to the instance (name-<20 hex digits>)", "", fc, impl(),
				fmt.Sprintf("instance %d: tag %q does not have the shape name-<20 lower-case hex digits>", n, order[0]))
		}
		// the model: the look-up is one read of a tag written by the constructor — under ANY schedule one tag
		// (Model/C18Tag.lean tagRun ∘ constructEager; c18_tag_fixed_at_construction)
		sched := firstSchedule(fc, n, len(plan))
		want := ask(ctx, "tags", "eager", core.Itoa(len(plan)), core.JoinList(sched))
		got := fmt.Sprintf("%d %d", len(order), lenSum(tags))
		if want != got && !bad {
			ctx.Disagree("(different tags in use, requests holding one) over an instance's first requests = Model.C18Tag tagRun ∘ constructEager under any schedule",
				fc, impl(), "model: "+want+"; implementation: "+got)
		}
		if len(order) > 1 {
			bad = true
			ctx.SpecFail(firstClauseOne, "", fc, impl(), fmt.Sprintf("instance %d identified itself with %d different tags: %q", n, len(order), order))
		}
		// every forwarded request, replayed: refused, nothing contacted
		replayed := map[int]bool{}
		for _, rp := range in.Replays {
			replayed[rp.Of] = true
			switch {
			case rp.Status == 400 && rp.Contacted == 0:
			case rp.Status == 400:
				bad = true
				ctx.SpecFail("a refused request contacts no upstream", "", fc, impl(), fmt.Sprintf("instance %d, replay of request %d", n, rp.Of))
			case rp.Status == 200 || rp.Contacted > 0:
				bad = true
				ctx.SpecFail(firstClauseReplay, "", fc, impl(), fmt.Sprintf("instance %d: request %d came back carrying the element the instance gave it (%q) and was forwarded again (status %d, %d upstream contacts)",
					n, rp.Of, rp.Via, rp.Status, rp.Contacted))
			default:
				bad = true
				ctx.Disagree("a request carrying the instance's element is answered 400", fc, impl(), fmt.Sprintf("instance %d, replay of request %d: status %d %s", n, rp.Of, rp.Status, rp.Err))
			}
		}
		for i, q := range in.Reqs {
			if q.Status == 200 && len(q.Out) > 0 && !replayed[i] && !bad {
				core.Fatalf("C18: instance %d: forwarded request %d was not replayed", n, i)
			}
		}
		// injective over everything constructed in this run
		firstTagsMu.Lock()
		for _, t := range order {
			me := fmt.Sprintf("%s seed %d instance %d", where, fc.Seed, n)
			if other, dup := firstTags[t]; dup && other != me {
				bad = true
				ctx.SpecFail(clauseDistinct, "", fc, impl(), fmt.Sprintf("tag %q is used by %s and by %s", t, other, me))
			}
			firstTags[t] = me
		}
		firstTagsMu.Unlock()
		if !bad {
			ctx.TraceValidated()
		} else if reported++; reported >= 3 {
			return // the batch is the case: a few instances are enough to show it
		}
	}
}

func errSuffix(e string) string {
	if e == "" {
		return ""
	}
	return " err=" + e
}

func lenSum(m map[string]int) int {
	n := 0
	for _, v := range m {
		n += v
	}
	return n
}

// firstSchedule: some interleaving in which every request takes its step (the model's answer does not depend on it).
func firstSchedule(fc *firstCase, n, reqs int) []string {
	x := firstLCG(fc.Seed ^ uint64(n)*0x2545f4914f6cdd1d)
	var out []string
	left := make([]int, reqs)
	for i := range left {
		left[i] = i
	}
	for len(left) > 0 {
		x = firstLCG(x)
		k := int((x >> 33) % uint64(len(left)))
		out = append(out, core.Itoa(left[k]))
		if (x>>20)%3 != 0 { // sometimes a request is scheduled again before it leaves (a no-op step)
			left = append(left[:k], left[k+1:]...)
		}
	}
	return out
}

// genFirst draws the batches of a run.
func genFirst(ctx *core.Ctx) []*firstCase {
	var out []*firstCase
	r := ctx.Rng.Sub()
	// spinning goroutines: two fewer than processors, so that whoever releases them gets to run
	maxBurst := runtime.GOMAXPROCS(0) - 2
	if maxBurst > 16 {
		maxBurst = 16
	}
	if maxBurst < 4 {
		maxBurst = 4
	}
	for i, n := 0, ctx.N(4, 40); i < n; i++ {
		out = append(out, &firstCase{Kind: "first", Level: "stack", Instances: 40, Later: 2, MaxBurst: maxBurst, Seed: r.U64() >> 11})
	}
	for i, n := 0, ctx.N(4, 32); i < n; i++ {
		out = append(out, &firstCase{Kind: "first", Level: "proxy", Mode: []string{"direct", "upstream"}[i%2], Instances: 10, Later: 2, Seed: r.U64() >> 11})
	}
	return out
}
