package c18

// Entropy cases: WHERE an instance's identifier comes from — the construction step under a faulty entropy source.
//
// Every other family constructs its instances while crypto/rand works, so whatever a constructor does when the
// one read it makes (via_modifier.go randomBoundary: io.ReadFull(rand.Reader, buf[:10])) does not deliver is never
// seen. Here `crypto/rand.Reader` (a package variable) is swapped — in the CHILD process that serves the
// first-requests batches, which runs one job at a time and hosts no TLS — for sources that
//
//	fail               fail at once
//	fail-after K       deliver K bytes in total, then fail for ever (K < 10: nobody gets a boundary; K ≥ 10: the
//	                   first ⌊K/10⌋ constructors do, the next one is cut off in the middle)
//	fail-after-each K  deliver K < 10 bytes to every constructor call, then fail (reset between constructions)
//	eof-after K        as fail-after, ending with io.EOF (ReadFull: io.ErrUnexpectedEOF)
//	flaky              every second Read fails
//	short              a working source that delivers 1–3 bytes per Read
//	full-with-error    a working source that fills the buffer AND returns an error with it (ReadFull: success)
//	zeros / constant / pattern K / replay
//	                   sources that "work" but are degenerate: all zeros, one byte value, a sequence of period
//	                   K, the SAME sequence for every constructor call (reset between constructions)
//
// (any of them delivering at most Chunk bytes per Read), only WHILE several same-name instances are constructed
// back to back — same process, same second — at three levels: header.NewViaModifier, httpspec.NewStack (the call
// NewHTTPProxy makes) and whole proxies; and in bursts from 8 goroutines spinning on a start flag (thousands of
// constructor calls within a few milliseconds: whatever a constructor might fall back on — process id, clock,
// a freshly seeded generator — is the same for many of them). The source is restored before the first request.
//
// Judged per series of constructor calls (Model/C18Tag.lean mkInstance, Theorems/C18.lean section L):
//   - per call (back-to-back series): the source's answer to that call is known (bytes delivered, failed or not);
//     the model says `none` = no instance, or the tag name-hex(bytes). A constructor that got its ten bytes must
//     yield exactly that tag. A constructor whose read failed may yield no instance (what the code does: it
//     panics; c18_no_instance_without_entropy) — or an instance, which is then judged by the property alone:
//   - the tags of all instances alive after the series are pairwise different (clauseDistinct) unless the source
//     itself delivered the same ten bytes to both (a degenerate source that the code trusts: counted as
//     entropy/degenerate-reader-accepted, the property quantifies over a working generator;
//     c18_live_instances_unique_if_entropy_distinct has exactly this hypothesis);
//   - between every two of (the first four) live instances: a request that passed A is forwarded by B with B's
//     element appended (clauseFwd / clauseHop) and refused 400 by A (clauseLoop).

import (
	"crypto/rand"
	"encoding/hex"
	"encoding/json"
	"errors"
	"fmt"
	"io"
	"net/http"
	"runtime"
	"runtime/debug"
	"strings"
	"sync"
	"sync/atomic"
	"time"

	"github.com/saucelabs/forwarder"
	"github.com/saucelabs/forwarder/internal/martian/header"
	"github.com/saucelabs/forwarder/internal/martian/httpspec"
	"github.com/saucelabs/forwarder/verifharness/core"
	"github.com/saucelabs/forwarder/verifharness/rig"
)

type entropyCase struct {
	Kind       string `json:"kind"`   // "entropy"
	Level      string `json:"level"`  // "modifier" | "stack" | "proxy"
	Reader     string `json:"reader"` // see above
	K          int    `json:"k,omitempty"`
	Chunk      int    `json:"chunk,omitempty"`      // at most this many bytes per Read (0: as many as asked for)
	Instances  int    `json:"instances"`            // constructor calls
	Goroutines int    `json:"goroutines,omitempty"` // > 1: the calls are made by that many goroutines released together
	Seed       uint64 `json:"seed"`
}

const (
	entropyClauseOne = "an instance that comes up while the entropy source is failing still carries an identifier of its own: the instances alive after a series of constructor calls have pairwise different Via tags (a constructor may refuse to come up instead)"
	entropyBoundary  = 10
)

var entropyDegenerate = map[string]bool{"zeros": true, "constant": true, "pattern": true, "replay": true}

// ---------------------------------------------------------------------------------------------
// what the child reports

type entropyInst struct {
	Outcome string `json:"outcome"`          // "live" | "panic" | "error"
	Detail  string `json:"detail,omitempty"` // panic value / error text
	Read    string `json:"read,omitempty"`   // back-to-back series: hex of the bytes the source delivered during this call
	Failed  bool   `json:"failed,omitempty"` // … and whether it returned an error during this call
	Reads   int    `json:"reads,omitempty"`
	// the instance's first request (no Via): what it was forwarded with
	Status int      `json:"status,omitempty"`
	Out    []string `json:"out,omitempty"`
	Err    string   `json:"err,omitempty"`
}

type entropyCross struct {
	From   int      `json:"from"` // the request passed instance From …
	To     int      `json:"to"`   // … and arrives at instance To
	Via    string   `json:"via"`
	Status int      `json:"status"`
	Out    []string `json:"out,omitempty"`
	Hits   int      `json:"hits"`
	Err    string   `json:"err,omitempty"`
}

type entropyObs struct {
	Err      string         `json:"err,omitempty"` // machinery
	Panic    string         `json:"panic,omitempty"`
	Restored bool           `json:"restored"`
	Insts    []entropyInst  `json:"insts"`
	Cross    []entropyCross `json:"cross,omitempty"`
}

// ---------------------------------------------------------------------------------------------
// the child: faulty entropy sources

var errNoEntropy = errors.New("fwdverif: entropy source unavailable")

type entropyWindow struct {
	bytes  []byte
	failed bool
	reads  int
}

type faultReader struct {
	mu    sync.Mutex
	kind  string
	k     int
	chunk int
	real  io.Reader
	seq   []byte // pattern / replay / constant material
	total int    // bytes delivered since the swap
	calls int    // Read calls since the swap
	pos   int    // bytes delivered in the current window
	win   *entropyWindow
}

func newFaultReader(ec *entropyCase, real io.Reader) *faultReader {
	f := &faultReader{kind: ec.Reader, k: ec.K, chunk: ec.Chunk, real: real}
	x := firstLCG(ec.Seed ^ 0x5851f42d4c957f2d)
	n := 64
	if ec.Reader == "pattern" && ec.K > 0 {
		n = ec.K
	}
	for i := 0; i < n; i++ {
		x = firstLCG(x)
		f.seq = append(f.seq, byte(x>>40))
	}
	return f
}

// begin opens the window of one constructor call (back-to-back series only).
func (f *faultReader) begin() {
	f.mu.Lock()
	f.win = &entropyWindow{}
	f.pos = 0
	f.mu.Unlock()
}

func (f *faultReader) end() *entropyWindow {
	f.mu.Lock()
	defer f.mu.Unlock()
	w := f.win
	f.win = nil
	return w
}

func (f *faultReader) Read(p []byte) (n int, err error) {
	f.mu.Lock()
	defer f.mu.Unlock()
	call := f.calls
	f.calls++
	want := len(p)
	if f.chunk > 0 && want > f.chunk {
		want = f.chunk
	}
	fill := func(n int, src func(i int) byte) int {
		for i := 0; i < n; i++ {
			p[i] = src(i)
		}
		return n
	}
	realN := func(n int) (int, error) {
		if n == 0 {
			return 0, nil
		}
		return io.ReadFull(f.real, p[:n])
	}
	switch f.kind {
	case "fail":
		err = errNoEntropy
	case "fail-after", "eof-after":
		left := f.k - f.total
		if left <= 0 {
			err = errNoEntropy
			if f.kind == "eof-after" {
				err = io.EOF
			}
			break
		}
		if want > left {
			want = left
		}
		n, err = realN(want)
	case "fail-after-each":
		left := f.k - f.pos
		if left <= 0 {
			err = errNoEntropy
			break
		}
		if want > left {
			want = left
		}
		n, err = realN(want)
	case "flaky":
		if call%2 == 1 {
			err = errNoEntropy
			break
		}
		n, err = realN(want)
	case "short":
		n, err = realN(want)
	case "full-with-error":
		n, err = realN(want)
		if err == nil && n == len(p) {
			err = errNoEntropy // io.ReadFull: enough bytes, the error is dropped
		}
	case "zeros":
		n = fill(want, func(int) byte { return 0 })
	case "constant":
		n = fill(want, func(int) byte { return byte(f.k) })
	case "pattern":
		base := f.total
		n = fill(want, func(i int) byte { return f.seq[(base+i)%len(f.seq)] })
	case "replay":
		base := f.pos
		n = fill(want, func(i int) byte { return f.seq[(base+i)%len(f.seq)] })
	default:
		err = fmt.Errorf("fwdverif: unknown entropy source %q", f.kind)
	}
	f.total += n
	f.pos += n
	if f.win != nil {
		f.win.reads++
		f.win.bytes = append(f.win.bytes, p[:n]...)
		if err != nil {
			f.win.failed = true
		}
	}
	return n, err
}

// ---------------------------------------------------------------------------------------------
// the child: constructing under the faulty source, then probing with the source restored

// entropyLive is one instance that came up.
type entropyLive struct {
	idx   int
	mod   func(*http.Request) error // modifier / stack level
	proxy *rig.Proxy                // proxy level
}

func childEntropy(ec *entropyCase) (o entropyObs) {
	defer func() {
		if p := recover(); p != nil {
			o.Panic = fmt.Sprintf("%v\n%s", p, debug.Stack())
		}
	}()
	var hop *firstHop
	if ec.Level == "proxy" {
		h, err := newFirstHop()
		if err != nil {
			o.Err = err.Error()
			return o
		}
		hop = h
		defer hop.peer.Close()
	}
	construct := func(n int) (inst entropyInst, l *entropyLive) {
		defer func() {
			if p := recover(); p != nil {
				inst = entropyInst{Outcome: "panic", Detail: fmt.Sprint(p)}
				l = nil
			}
		}()
		switch ec.Level {
		case "modifier":
			m := header.NewViaModifier(proxyName)
			return entropyInst{Outcome: "live"}, &entropyLive{idx: n, mod: m.ModifyRequest}
		case "stack":
			// exactly what NewHTTPProxy does to obtain its Via modifier
			stack, _ := httpspec.NewStack(proxyName)
			return entropyInst{Outcome: "live"}, &entropyLive{idx: n, mod: stack.ModifyRequest}
		default:
			p, err := rig.StartProxy(rig.ProxyOpts{
				ConnectTo:     []forwarder.HostPortPair{rig.Route("origin.test", "80", hop.peer.Addr)},
				PostTransport: func(rt *http.Transport) { rt.DisableKeepAlives = true; asRunComposes(rt) },
				Configure:     func(cfg *forwarder.HTTPProxyConfig) { cfg.Name = proxyName },
			})
			if err != nil {
				return entropyInst{Outcome: "error", Detail: err.Error()}, nil
			}
			return entropyInst{Outcome: "live"}, &entropyLive{idx: n, proxy: p}
		}
	}

	o.Insts = make([]entropyInst, ec.Instances)
	lives := make([]*entropyLive, ec.Instances)
	saved := rand.Reader
	fr := newFaultReader(ec, saved)
	func() {
		rand.Reader = fr
		defer func() { rand.Reader = saved }()
		if ec.Goroutines <= 1 {
			for n := 0; n < ec.Instances; n++ {
				fr.begin()
				inst, l := construct(n)
				w := fr.end()
				if len(w.bytes) > 0 {
					inst.Read = hex.EncodeToString(w.bytes)
				}
				inst.Failed, inst.Reads = w.failed, w.reads
				o.Insts[n], lives[n] = inst, l
			}
			return
		}
		var (
			start   atomic.Bool
			arrived atomic.Int32
			wg      sync.WaitGroup
		)
		for g := 0; g < ec.Goroutines; g++ {
			wg.Add(1)
			go func(g int) {
				defer wg.Done()
				arrived.Add(1)
				for !start.Load() { // spin: the constructor calls leave together
				}
				for n := g; n < ec.Instances; n += ec.Goroutines {
					o.Insts[n], lives[n] = construct(n)
				}
			}(g)
		}
		for t0 := time.Now(); arrived.Load() < int32(ec.Goroutines) && time.Since(t0) < time.Second; {
			runtime.Gosched()
		}
		start.Store(true)
		wg.Wait()
	}()
	o.Restored = rand.Reader == saved
	defer func() {
		for _, l := range lives {
			if l != nil && l.proxy != nil {
				l.proxy.Stop()
			}
		}
	}()

	// the entropy source works again: every live instance's first request, then requests that passed one
	// instance arriving at another / at the same one
	seq := 0
	probe := func(l *entropyLive, via []string) (status int, out []string, hits int, es string) {
		seq++
		if l.proxy == nil {
			req, err := firstStackRequest(&firstReq{Minor: 1}, via)
			if err != nil {
				return -1, nil, 0, err.Error()
			}
			status, out, es = firstStackResult(req, l.mod(req))
			if status == 200 {
				hits = 1
			}
			return status, out, hits, es
		}
		id := fmt.Sprintf("ent-%x-%d", ec.Seed&0xffffff, seq)
		st, err := firstSend(l.proxy.Addr, firstHead(id, 1, via), nil, nil)
		if err != nil {
			es = err.Error()
		}
		hits, out = hop.seen(id)
		return st, out, hits, es
	}
	var first []*entropyLive
	for n, l := range lives {
		if l == nil {
			continue
		}
		in := &o.Insts[n]
		in.Status, in.Out, _, in.Err = probe(l, nil)
		if len(first) < 4 {
			first = append(first, l)
		}
	}
	for _, a := range first {
		if o.Insts[a.idx].Status != 200 || len(o.Insts[a.idx].Out) == 0 {
			continue
		}
		via := "1.0 fred, " + strings.Join(o.Insts[a.idx].Out, ", ")
		for _, b := range first {
			c := entropyCross{From: a.idx, To: b.idx, Via: via}
			c.Status, c.Out, c.Hits, c.Err = probe(b, []string{via})
			o.Cross = append(o.Cross, c)
		}
	}
	return o
}

// ---------------------------------------------------------------------------------------------
// the parent

func runEntropy(ctx *core.Ctx, ec *entropyCase) {
	firstMu.Lock()
	defer firstMu.Unlock()
	okLevel := ec.Level == "modifier" || ec.Level == "stack" || ec.Level == "proxy"
	if !okLevel || ec.Instances < 1 || ec.Instances > 100000 || ec.Goroutines < 0 || ec.Goroutines > 64 || (ec.Level == "proxy" && (ec.Instances > 16 || ec.Goroutines > 1)) ||
		(ec.Reader == "pattern" && ec.K < 1) {
		core.Fatalf("bad C18 entropy case: %+v", *ec)
	}
	line, died, detail := askChildRaw(ec, 60*time.Second)
	if died {
		ctx.Crash("constructing instances while the entropy source is failing does not take the process down", "", ec, detail)
		return
	}
	var obs entropyObs
	if e := json.Unmarshal(line, &obs); e != nil {
		core.Fatalf("C18: unreadable reply from the child: %v", e)
	}
	if obs.Err != "" {
		core.Fatalf("C18: child: %s", obs.Err)
	}
	if obs.Panic != "" {
		ctx.Crash("constructing instances while the entropy source is failing does not take the process down", "", ec, "panic outside a constructor: "+obs.Panic)
		return
	}
	if len(obs.Insts) != ec.Instances || !obs.Restored {
		core.Fatalf("C18: entropy case: the child reported %d instances of %d (source restored: %v)", len(obs.Insts), ec.Instances, obs.Restored)
	}
	mode := "series"
	if ec.Goroutines > 1 {
		mode = fmt.Sprintf("burst%d", ec.Goroutines)
	}
	ctx.Case(fmt.Sprintf("entropy|%s|%s|%d|%d|%d|%s", ec.Level, ec.Reader, ec.K, ec.Chunk, ec.Instances, mode), true)
	ctx.Count("entropy/" + ec.Level + "/" + mode)
	ctx.Count("entropy-reader/" + ec.Reader)

	impl := func() string {
		var sb strings.Builder
		fmt.Fprintf(&sb, "%d constructor calls (%s, %s) under the name %q while crypto/rand.Reader is a source of kind %q (k=%d, at most %d bytes per Read; 0 = no limit):",
			ec.Instances, ec.Level, mode, proxyName, ec.Reader, ec.K, ec.Chunk)
		shown := 0
		for n, in := range obs.Insts {
			if shown >= 12 {
				fmt.Fprintf(&sb, " … (%d more)", len(obs.Insts)-n)
				break
			}
			shown++
			fmt.Fprintf(&sb, " [call %d: source delivered %q in %d reads, failed=%v -> %s", n, in.Read, in.Reads, in.Failed, in.Outcome)
			if in.Outcome == "live" {
				fmt.Fprintf(&sb, ", first request: status=%d forwarded-via=%q%s", in.Status, in.Out, errSuffix(in.Err))
			} else if in.Detail != "" {
				fmt.Fprintf(&sb, " (%s)", firstLine(in.Detail))
			}
			sb.WriteString("]")
		}
		for _, c := range obs.Cross {
			fmt.Fprintf(&sb, " [a request that passed instance %d arrives at instance %d with via=%q -> status=%d forwards=%d forwarded-via=%q%s]", c.From, c.To, c.Via, c.Status, c.Hits, c.Out, errSuffix(c.Err))
		}
		return sb.String()
	}

	bad := false
	tagOf := map[int]string{}
	var liveIdx []int
	for n := range obs.Insts {
		in := &obs.Insts[n]
		live := in.Outcome == "live"
		if live {
			ctx.Count("entropy/instance-up")
			liveIdx = append(liveIdx, n)
			// the first request of a live instance carries no Via: forwarded with one element 1.1 <tag>
			before, pv, tag, ok := ownOf(in.Out)
			if in.Status != 200 || !ok || pv != "1.1" || len(before) != 0 {
				bad = true
				ctx.SpecFail(clauseHop, "", ec, impl(), fmt.Sprintf("instance %d: its first request (no Via) was not forwarded with exactly one element 1.1 <tag>: status %d, via %q", n, in.Status, in.Out))
				continue
			}
			tagOf[n] = tag
		} else {
			ctx.Count("entropy/no-instance")
		}
		if ec.Goroutines > 1 {
			continue
		}
		// the model: the construction step as a function of the source's answer to this call
		raw, _ := hex.DecodeString(in.Read)
		ans := "none"
		if len(raw) == entropyBoundary {
			ans = core.Hex(raw)
		}
		want := ask(ctx, "mkinst", core.HexS(proxyName), ans)
		switch {
		case want == "none" && !live:
		case want == "none" && live:
			if in.Failed || len(raw) < entropyBoundary {
				// the read failed and there is an instance all the same: the property's clauses decide
				ctx.Count("entropy/instance-up-despite-failed-read")
			} else {
				bad = true
				ctx.Disagree("the constructor reads ten bytes from the entropy source (Model.C18Tag mkInstance)", ec, impl(), fmt.Sprintf("call %d: the source delivered %d bytes without an error", n, len(raw)))
			}
		case !live:
			bad = true
			ctx.Disagree("a constructor that got its ten bytes yields an instance (Model.C18Tag mkInstance)", ec, impl(), fmt.Sprintf("call %d: model tag %s, implementation: %s %s", n, want, in.Outcome, firstLine(in.Detail)))
		default:
			if t, ok := tagOf[n]; ok && core.HexS(t) != want {
				bad = true
				ctx.Disagree("tag = name-hex(the ten bytes the entropy source delivered) (Model.C18Tag mkInstance)", ec, impl(), fmt.Sprintf("call %d: model %s, implementation %q", n, want, t))
			}
		}
	}
	// shape
	for _, n := range liveIdx {
		if t, ok := tagOf[n]; ok {
			if ask(ctx, "shape", core.HexS(proxyName), core.HexS(t)) != "1" {
				bad = true
				ctx.SpecFail("the Via element carries an identifier unique to the instance (name-<20 hex digits>)", "", ec, impl(), fmt.Sprintf("instance %d: tag %q does not have the shape name-<20 lower-case hex digits>", n, t))
			}
			break
		}
	}
	// what must never happen: two live instances with one tag — unless the source handed both the same bytes
	sameSource := func(a, b int) bool {
		if ec.Goroutines > 1 {
			return false
		}
		ra, rb := obs.Insts[a].Read, obs.Insts[b].Read
		return len(ra) == 2*entropyBoundary && ra == rb && !obs.Insts[a].Failed && !obs.Insts[b].Failed
	}
	seen := map[string]int{}
	dups := 0
	for _, n := range liveIdx {
		t, ok := tagOf[n]
		if !ok {
			continue
		}
		m, dup := seen[t]
		if !dup {
			seen[t] = n
			continue
		}
		if sameSource(m, n) {
			ctx.Count("entropy/degenerate-reader-accepted")
			continue
		}
		bad = true
		if dups++; dups <= 2 {
			ctx.SpecFail(entropyClauseOne, "", ec, impl(), fmt.Sprintf("instances %d and %d are both alive and both identify themselves as %q", m, n, t))
		}
	}
	// … and between every two live instances the fleet clauses
	for _, c := range obs.Cross {
		ta, oka := tagOf[c.From]
		tb, okb := tagOf[c.To]
		if !oka || !okb {
			continue
		}
		if c.From == c.To {
			if c.Status != 400 || c.Hits != 0 {
				bad = true
				if c.Status == 200 || c.Hits > 0 {
					ctx.SpecFail(clauseLoop, "", ec, impl(), fmt.Sprintf("instance %d forwarded a request carrying its own element %q again (status %d, %d forwards)", c.To, ta, c.Status, c.Hits))
				} else {
					ctx.Disagree("a request carrying the instance's element is answered 400", ec, impl(), fmt.Sprintf("instance %d: status %d %s", c.To, c.Status, c.Err))
				}
			}
			continue
		}
		if ta == tb {
			if sameSource(c.From, c.To) {
				continue
			}
		}
		fwd := c.Status == 200 && c.Hits == 1 && len(c.Out) > 0
		if !fwd {
			bad = true
			if c.Status == 400 {
				ctx.SpecFail(clauseFwd, "", ec, impl(), fmt.Sprintf("a request that passed only instance %d (%q) was refused by instance %d (%q)", c.From, ta, c.To, tb))
			} else {
				ctx.Disagree("a request without the instance's element is forwarded once and answered 200", ec, impl(), fmt.Sprintf("instance %d -> %d: status %d, %d forwards %s", c.From, c.To, c.Status, c.Hits, c.Err))
			}
			continue
		}
		before, pv, tag, ok := ownOf(c.Out)
		wantBefore := splitElements(c.Via)
		if !ok || pv != "1.1" || tag != tb || strings.Join(before, "\x00") != strings.Join(wantBefore, "\x00") {
			bad = true
			ctx.SpecFail(clauseHop, "", ec, impl(), fmt.Sprintf("instance %d -> %d: want elements %q + [1.1 %s], got %q", c.From, c.To, wantBefore, tb, c.Out))
		}
	}
	// injective over everything constructed in this run as well
	if !bad {
		firstTagsMu.Lock()
		for _, n := range liveIdx {
			t, ok := tagOf[n]
			if !ok || entropyDegenerate[ec.Reader] {
				continue
			}
			me := fmt.Sprintf("entropy %s/%s seed %d call %d", ec.Level, ec.Reader, ec.Seed, n)
			if other, dup := firstTags[t]; dup && other != me {
				bad = true
				ctx.SpecFail(clauseDistinct, "", ec, impl(), fmt.Sprintf("tag %q is used by %s and by %s", t, other, me))
				break
			}
			firstTags[t] = me
		}
		firstTagsMu.Unlock()
	}
	if !bad {
		ctx.TraceValidated()
	}
}

func firstLine(s string) string {
	if i := strings.IndexByte(s, '\n'); i >= 0 {
		s = s[:i]
	}
	if len(s) > 200 {
		s = s[:200]
	}
	return s
}

// genEntropy draws the entropy cases of a run: every kind of source at every level back to back, the failing
// ones also in bursts.
func genEntropy(ctx *core.Ctx) []*entropyCase {
	var out []*entropyCase
	r := ctx.Rng.Sub()
	add := func(level, reader string, k, chunk, instances, goroutines int) {
		out = append(out, &entropyCase{Kind: "entropy", Level: level, Reader: reader, K: k, Chunk: chunk, Instances: instances, Goroutines: goroutines, Seed: r.U64() >> 11})
	}
	chunk := func() int { return core.Pick(r, []int{0, 0, 1, 2, 3, 7}) }
	for rep, reps := 0, ctx.N(1, 6); rep < reps; rep++ {
		for _, level := range []string{"modifier", "stack", "proxy"} {
			n := 6
			if level == "proxy" {
				n = 3
			}
			add(level, "fail", 0, 0, n, 0)
			add(level, "fail-after", r.Range(1, 9), chunk(), n, 0)
			add(level, "fail-after", r.Range(10, 10*n-1), chunk(), n, 0)
			add(level, "fail-after-each", r.Range(1, 9), chunk(), n, 0)
			add(level, "eof-after", r.Range(0, 10*n-1), chunk(), n, 0)
			add(level, "flaky", 0, 0, n, 0)
			add(level, "short", 0, r.Range(1, 3), n, 0)
			add(level, "full-with-error", 0, 0, n, 0)
			if level == "proxy" && rep == 0 && ctx.Quick() {
				// the degenerate sources do not depend on the level: one of them at the proxy level is enough in the quick tier
				add(level, core.Pick(r, []string{"zeros", "replay"}), 0, chunk(), n, 0)
				continue
			}
			add(level, "zeros", 0, chunk(), n, 0)
			add(level, "constant", r.Range(1, 255), chunk(), n, 0)
			add(level, "pattern", core.Pick(r, []int{1, 2, 4, 5, 7, 10, 20, 30}), chunk(), n, 0)
			add(level, "replay", 0, chunk(), n, 0)
		}
		// bursts: thousands of constructor calls within a few milliseconds, from 8 goroutines
		for _, level := range []string{"modifier", "stack"} {
			add(level, "fail", 0, 0, ctx.N(4000, 16000), 8)
			if level == "modifier" {
				// the cheapest constructor, most calls per microsecond: a fallback on a fine-grained clock shows here
				add(level, "fail", 0, 0, ctx.N(24000, 96000), 8)
				add(level, "fail", 0, 0, ctx.N(24000, 96000), 14)
			}
			add(level, "fail-after", r.Range(11, 49), 0, 800, 8)
			add(level, "eof-after", r.Range(1, 9), chunk(), 800, 8)
			add(level, "short", 0, r.Range(1, 3), 400, 8)
		}
	}
	return out
}
