// Package c18 ties the Via / loop-detection part of the request pipeline model (Model/Req.lean
// `viaStep` inside `processRequest`; vocabulary in Model/C18.lean) to the real proxy:
//
//   - chain cases: one request (origin-form, absolute-form, through an upstream proxy, inside a
//     MITM session, or a CONNECT) carrying a generated Via chain, split over 1-3 field lines;
//   - real loops: a proxy chained to itself and two instances A -> B -> A with the same configured
//     name, each hop passing through a counting pass-through peer that also records what it relays;
//   - fleets (fleet.go): the same topologies over http / https / socks5 upstream links and plain / TLS
//     listeners, with the instances built from configuration values in every way a program can obtain them;
//   - first requests (first.go): bursts of the very first requests of FRESH instances (child process);
//   - CONNECT cross-talk (cross.go): concurrent CONNECTs with chains of their own through one instance / a loop.
//
// Observed: client status (+ X-Forwarder-Error), the Via field lines at the next hop, contact
// counters of every origin / upstream peer, number of hops a loop makes.
package c18

import (
	"bufio"
	"bytes"
	"context"
	"crypto/tls"
	"encoding/json"
	"errors"
	"fmt"
	"io"
	"net"
	"net/http"
	"net/url"
	"strings"
	"sync"
	"sync/atomic"
	"time"

	"github.com/prometheus/client_golang/prometheus"
	"github.com/saucelabs/forwarder"
	"github.com/saucelabs/forwarder/header"
	"github.com/saucelabs/forwarder/verifharness/core"
	"github.com/saucelabs/forwarder/verifharness/reqmodel"
	"github.com/saucelabs/forwarder/verifharness/rig"
)

func init() { core.Register("C18", core.Scenario{Run: Run, Replay: Replay}) }

const (
	// long on purpose: the instance tag is <name>-<20 hex digits>, and its uniqueness must not depend on
	// the name being short
	proxyName = "fwdverif-eu-central-1-staging-edge-proxy-01"
	// placeholders in recorded cases: the instance tags are drawn at start-up and differ per run
	phTag = "{TAG}"
)

// ---------------------------------------------------------------------------------------------
// single-instance environments
// ---------------------------------------------------------------------------------------------

type env struct {
	// "direct" | "rules" | "upstream" | "mitm" | "up-https" | "up-socks5" | "tls" | "tls-up-https":
	// upstream proxy scheme (http / https / socks5) and listener kind (plain / TLS) of the instance
	mode    string
	tls     bool   // the instance's listener is a TLS listener (Protocol https)
	upKind  string // "" | "http" | "https" | "socks5": scheme of the upstream proxy
	proxy   *rig.Proxy
	origin  *rig.Peer
	tlsOrig *rig.Peer
	up      *rig.Peer
	socks   *rig.Socks5
	ca      *rig.CA
	cfg     reqmodel.Cfg
	mu      sync.Mutex // one case at a time: contact counters are exact
}

var rulesMode = []string{"X-Added: by-rule", "-X-Custom", "X-Empty;"}

func (e *env) close() {
	if e.proxy != nil {
		e.proxy.Stop()
	}
	for _, p := range e.peers() {
		if p != nil {
			p.Close()
		}
	}
}

func (e *env) peers() []*rig.Peer {
	ps := []*rig.Peer{e.origin, e.tlsOrig, e.up}
	if e.socks != nil {
		ps = append(ps, e.socks.Peer)
	}
	return ps
}

// modeShape: upstream proxy scheme and listener kind of a single-instance mode.
func modeShape(mode string) (upKind string, tlsListener bool) {
	switch mode {
	case "upstream":
		return "http", false
	case "up-https":
		return "https", false
	case "up-socks5":
		return "socks5", false
	case "tls":
		return "", true
	case "tls-up-https":
		return "https", true
	}
	return "", false
}

func hopResponder(w *rig.PeerConn, ex *rig.Exchange) bool {
	if ex.Req.Method == "CONNECT" {
		w.Write([]byte("HTTP/1.1 200 OK\r\n\r\n"))
		return true
	}
	body := "ok:" + ex.Req.Get("Case-Id")
	b := rig.Head("HTTP/1.1 200 OK", []rig.Field{{Name: "Content-Length", Value: fmt.Sprint(len(body))}})
	if ex.Req.Method != "HEAD" {
		b = append(b, body...)
	}
	w.Write(b)
	return !strings.EqualFold(ex.Req.Get("Connection"), "close")
}

func requestRules(rules []string) ([]forwarder.RequestModifierFunc, error) {
	var hdrs []header.Header
	for _, rs := range rules {
		h, err := header.ParseHeader(rs)
		if err != nil {
			return nil, fmt.Errorf("rule %q: %w", rs, err)
		}
		hdrs = append(hdrs, h)
	}
	if len(hdrs) == 0 {
		return nil, nil
	}
	hs := header.Headers(hdrs)
	// same dispatch as command/run configureHeadersModifiers
	return []forwarder.RequestModifierFunc{func(req *http.Request) error {
		if req.Method == http.MethodConnect {
			return nil
		}
		return hs.ModifyRequest(req)
	}}, nil
}

// asRunComposes: command/run (configureTransportProxy) ALWAYS installs GetProxyConnectHeader on the transport —
// without --connect-header rules and Kerberos it returns an empty header —, and martian hands that function to
// the CONNECT dialer next to the client's header. A transport without it is not what `forwarder run` runs.
func asRunComposes(rt *http.Transport) {
	rt.GetProxyConnectHeader = func(context.Context, *url.URL, string) (http.Header, error) {
		return make(http.Header), nil
	}
}

func newEnv(ctx *core.Ctx, mode string) (*env, error) {
	e := &env{mode: mode}
	e.upKind, e.tls = modeShape(mode)
	var err error
	if e.origin, err = rig.NewPeer("origin", hopResponder); err != nil {
		return nil, err
	}
	if e.ca, err = rig.NewCA("verif origin CA"); err != nil {
		return nil, err
	}
	if e.upKind == "https" {
		upLeaf, lerr := e.ca.ValidLeaf("upstream.test")
		if lerr != nil {
			return nil, lerr
		}
		e.up, err = rig.NewTLSPeer("upstream", &tls.Config{Certificates: []tls.Certificate{upLeaf}}, hopResponder)
	} else {
		e.up, err = rig.NewPeer("upstream", hopResponder)
	}
	if err != nil {
		return nil, err
	}
	leaf, err := e.ca.ValidLeaf("origin.test")
	if err != nil {
		return nil, err
	}
	if e.tlsOrig, err = rig.NewTLSPeer("tls-origin", &tls.Config{Certificates: []tls.Certificate{leaf}}, hopResponder); err != nil {
		return nil, err
	}
	caFile, err := e.ca.WriteFile(ctx.Root+"/.work", fmt.Sprintf("c18-ca-%d.pem", time.Now().UnixNano()))
	if err != nil {
		return nil, err
	}
	var rules []string
	if mode == "rules" {
		rules = rulesMode
	}
	mods, err := requestRules(rules)
	if err != nil {
		return nil, err
	}
	if e.upKind == "socks5" {
		// the SOCKS5 server connects to the origin the proxy names: no HTTP message is addressed to it
		e.socks, err = rig.NewSocks5("socks", func(target string) string {
			switch target {
			case "origin.test:80":
				return e.origin.Addr
			case "origin.test:443":
				return e.tlsOrig.Addr
			}
			return ""
		})
		if err != nil {
			return nil, err
		}
	}
	opts := rig.ProxyOpts{
		ConnectTo: []forwarder.HostPortPair{
			rig.Route("origin.test", "80", e.origin.Addr),
			rig.Route("origin.test", "443", e.tlsOrig.Addr),
			rig.Route("upstream.test", "3128", e.up.Addr),
		},
		Transport: func(tc *forwarder.HTTPTransportConfig) { tc.CACertFiles = []string{caFile} },
		// one connection per forwarded request: with an idle pool the transport may start a dial for a request and then
		// serve it on a connection that became idle meanwhile — the dialled connection is accepted by the hop at some
		// later time, during whatever case runs then (a bare accept in a refused case would read as a contact)
		PostTransport: func(rt *http.Transport) { rt.DisableKeepAlives = true; asRunComposes(rt) },
		Configure: func(cfg *forwarder.HTTPProxyConfig) {
			cfg.Name = proxyName
			for _, m := range mods {
				cfg.RequestModifiers = append(cfg.RequestModifiers, m)
			}
			switch e.upKind {
			case "http":
				cfg.UpstreamProxy = rig.MustURL("http://upstream.test:3128")
			case "https":
				cfg.UpstreamProxy = rig.MustURL("https://upstream.test:3128")
			case "socks5":
				cfg.UpstreamProxy = rig.MustURL("socks5://upstream.test:1080")
			}
			if mode == "mitm" {
				cfg.MITM = forwarder.DefaultMITMConfig()
				cfg.PromRegistry = prometheus.NewRegistry()
			}
			if e.tls {
				cfg.Protocol = forwarder.HTTPSScheme // self-signed listener certificate
				cfg.PromRegistry = prometheus.NewRegistry()
			}
		},
	}
	if e.socks != nil {
		opts.ConnectTo = append(opts.ConnectTo, rig.Route("upstream.test", "1080", e.socks.Addr))
	}
	if e.proxy, err = rig.StartProxy(opts); err != nil {
		return nil, err
	}
	e.cfg = reqmodel.Cfg{Name: proxyName, TimeAllowed: true, Rules: rules}
	switch e.upKind {
	case "http":
		e.cfg.Upstream = "upstream.test:3128"
	case "https":
		e.cfg.Upstream, e.cfg.UpstreamKind = "upstream.test:3128", "https"
	case "socks5":
		e.cfg.Upstream, e.cfg.UpstreamKind = "upstream.test:1080", "socks5"
	}
	tag, err := e.learnTag()
	if err != nil {
		return nil, err
	}
	e.cfg.Tag = tag
	checkTagShape(ctx, "single/"+mode, []string{tag})
	return e, nil
}

// checkTagShape: "an identifier unique to that instance" — the tag is the configured name plus 20
// lower-case hex digits (10 random bytes), and instances of one environment carry different tags.
func checkTagShape(ctx *core.Ctx, where string, tags []string) {
	for i, t := range tags {
		if ask(ctx, "shape", core.HexS(proxyName), core.HexS(t)) != "1" {
			ctx.SpecFail("the Via element carries an identifier unique to the instance (name-<20 hex digits>)", "",
				map[string]any{"kind": "tag", "where": where}, fmt.Sprintf("tag %q", t), "tag learned from a first request does not have the shape name-<20 lower-case hex digits>")
		}
		for j := 0; j < i; j++ {
			if tags[j] == t {
				ctx.SpecFail("the Via element carries an identifier unique to the instance (name-<20 hex digits>)", "",
					map[string]any{"kind": "tag", "where": where}, fmt.Sprintf("tags %q", tags), "two instances with the same configured name carry the same tag")
			}
		}
	}
}

// open returns a client connection ready for requests (mitm: after CONNECT + TLS handshake).
func (e *env) open(inside bool) (*rig.Client, error) {
	c, err := rig.Dial(e.proxy.Addr)
	if err != nil {
		return nil, err
	}
	if e.tls {
		if _, err := c.StartTLS("localhost", nil, true); err != nil {
			c.Close()
			return nil, err
		}
	}
	if !inside {
		return c, nil
	}
	c.Send([]byte("CONNECT origin.test:443 HTTP/1.1\r\nHost: origin.test:443\r\n\r\n"), nil)
	res, err := c.ReadResponse("CONNECT", 5*time.Second)
	if err != nil || res.Status != 200 {
		c.Close()
		return nil, fmt.Errorf("mitm CONNECT failed: %v %+v", err, res)
	}
	pool := e.ca.Pool()
	pool.AddCert(e.proxy.CACert())
	if _, err := c.StartTLS("origin.test", pool, false); err != nil {
		c.Close()
		return nil, err
	}
	return c, nil
}

func (e *env) findExchange(id string) (*rig.Peer, *rig.Exchange) {
	for _, p := range e.peers() {
		for _, ex := range p.Log() {
			if ex.Req != nil && ex.Req.Get("Case-Id") == id {
				return p, ex
			}
		}
	}
	return nil, nil
}

// learnTag sends a first request and reads the instance's Via pseudonym off what the hop received.
func (e *env) learnTag() (string, error) {
	c, err := e.open(e.mode == "mitm")
	if err != nil {
		return "", err
	}
	defer c.Close()
	target := "/probe"
	if e.tls {
		target = "http://origin.test/probe" // origin-form on a TLS listener means https
	}
	c.Send([]byte("GET "+target+" HTTP/1.1\r\nHost: origin.test\r\nCase-Id: probe\r\nConnection: close\r\n\r\n"), nil)
	if _, err := c.ReadResponse("GET", 5*time.Second); err != nil {
		return "", fmt.Errorf("probe: %w", err)
	}
	_, ex := e.findExchange("probe")
	if ex == nil {
		return "", fmt.Errorf("probe did not reach any hop")
	}
	f := strings.Fields(ex.Req.Get("Via"))
	if len(f) != 2 {
		return "", fmt.Errorf("unexpected Via on probe: %q", ex.Req.Get("Via"))
	}
	return f[1], nil
}

type contact struct{ accepts, bytes int64 }

func (e *env) contacts() contact {
	var c contact
	for _, p := range e.peers() {
		c.accepts += p.Accepts()
		if p == e.up && e.upKind == "https" {
			// a TLS upstream: the close_notify of an earlier case's tunnel may arrive at any time; a contact
			// there shows as a new connection or a new request head (every message needs one of the two)
			c.bytes += int64(len(p.Log()))
			continue
		}
		c.bytes += p.BytesIn()
	}
	return c
}

// ---------------------------------------------------------------------------------------------
// chain cases
// ---------------------------------------------------------------------------------------------

// chainCase is one request with a Via chain; Via values may contain the {TAG} placeholder.
type chainCase struct {
	Kind    string            `json:"kind"` // "chain"
	Mode    string            `json:"mode"`
	Connect bool              `json:"connect,omitempty"` // Request is a CONNECT (Path = authority)
	Request *reqmodel.Request `json:"request"`
}

func viaLinesOf(fs []rig.Field) []string {
	var out []string
	for _, f := range fs {
		if strings.EqualFold(f.Name, "Via") {
			out = append(out, f.Value)
		}
	}
	return out
}

func instantiate(r *reqmodel.Request, tag string) *reqmodel.Request {
	q := *r
	q.Fields = make([]rig.Field, len(r.Fields))
	for i, f := range r.Fields {
		if strings.EqualFold(f.Name, "Via") {
			f.Value = strings.ReplaceAll(f.Value, phTag, tag)
		}
		q.Fields[i] = f
	}
	return &q
}

func idOf(r *reqmodel.Request) string {
	for _, f := range r.Fields {
		if f.Name == "Case-Id" {
			return f.Value
		}
	}
	return ""
}

// chainShape names the shape of a multi-line chain from the input alone (placeholders, not run-time
// tags). Both shapes were known-finding classes (F11c, F11d) until the Via modifier learnt to read
// every field line; they stay frequent regression targets and are only counted now.
func chainShape(lines []string) string {
	if len(lines) < 2 {
		return ""
	}
	ownLater := false
	for _, l := range lines[1:] {
		for _, el := range strings.Split(l, ",") {
			el = strings.Trim(el, " \t")
			if el == "1.0 "+phTag || el == "1.1 "+phTag {
				ownLater = true
			}
		}
	}
	if ownLater && !strings.Contains(lines[0], phTag) {
		return "tag-on-later-via-line"
	}
	return "multi-line-via"
}

func hexLines(ls []string) string { return core.HexList(ls) }

func ask(ctx *core.Ctx, verb string, a ...string) string {
	return ctx.Model.MustAsk(append([]string{"C18", verb}, a...)...)
}

func (e *env) runChain(ctx *core.Ctx, cc *chainCase) {
	e.mu.Lock()
	defer e.mu.Unlock()
	linesPH := viaLinesOf(cc.Request.Fields)
	shape := chainShape(linesPH)
	req := instantiate(cc.Request, e.cfg.Tag)
	lines := viaLinesOf(req.Fields)
	if nominatesVia(req.Fields) {
		// `Connection: via` makes the client's Via a hop-by-hop field: it is removed before this
		// instance adds its own element, so the chain this instance sees is empty
		lines = nil
		shape = ""
		ctx.Count("via-nominated-by-connection")
	}
	id := idOf(req)
	wire := req.Wire()

	ctx.Case(fmt.Sprintf("%s|%v|%s", cc.Mode, cc.Connect, cc.Request.Wire()), len(lines) > 0)
	ctx.Count("mode/" + cc.Mode)
	ctx.Count(fmt.Sprintf("via-lines/%d", len(lines)))
	if cc.Connect {
		ctx.Count("kind/connect")
	} else if req.Absolute {
		ctx.Count("kind/absolute-form")
	} else {
		ctx.Count("kind/origin-form")
	}
	cls := ask(ctx, "classify", core.HexS(e.cfg.Tag), hexLines(lines))
	ctx.Count("chain/" + cls)
	nel := 0
	if a := ask(ctx, "elements", hexLines(lines)); a != "~" {
		nel = len(core.SplitList(a))
	}
	ctx.Count(fmt.Sprintf("via-elements/%d", nel))
	countText(ctx, lines, cls)
	if !cc.Connect && req.Absolute && req.Scheme == "https" && e.mode != "mitm" {
		ctx.Count("kind/absolute-form-https")
	}
	if shape != "" {
		ctx.Count("shape/" + shape)
	}

	before := e.contacts()
	upLogBefore := len(e.up.Log())
	socksBefore := 0
	if e.socks != nil {
		socksBefore = len(e.socks.Requests())
	}
	c, err := e.open(e.mode == "mitm" && !cc.Connect)
	if err != nil {
		ctx.Crash("proxy accepts a client connection", "", cc, err.Error())
		return
	}
	defer c.Close()
	after0 := e.contacts() // the MITM set-up itself contacts nothing
	if after0 != before {
		ctx.Disagree("MITM set-up (CONNECT + handshake) contacts no hop", cc, fmt.Sprintf("%+v -> %+v", before, after0), "no contact")
	}
	c.Send(wire, nil)
	res, rerr := c.ReadResponse(req.Method, 8*time.Second)
	if rerr != nil || res == nil {
		ctx.Crash("every request is answered", "", cc, fmt.Sprintf("no response: %v", rerr))
		return
	}

	var peer *rig.Peer
	var ex *rig.Exchange
	tunnelled := false
	if cc.Connect {
		// a CONNECT that passed: upstream mode -> the upstream proxy saw a CONNECT; direct -> a TCP
		// connection to the target; mitm -> intercepted (200, nothing contacted yet)
		if e.upKind == "http" || e.upKind == "https" {
			peer, ex = e.findConnect(upLogBefore)
		}
		if res.Status == 200 {
			tunnelled = true
			if e.mode != "mitm" && (e.upKind == "" || e.upKind == "socks5") {
				// direct: the target accepts; socks5: the SOCKS server accepts AND the target it connects to (the second
				// accept may be counted after the 200 arrived; left uncounted it would show up in the next case)
				want := before.accepts + 1
				if e.upKind == "socks5" {
					want++
				}
				waitFor(func() bool { return e.contacts().accepts >= want }, time.Second)
			}
		}
	} else {
		peer, ex = e.findExchange(id)
	}
	if !tunnelled && ex == nil {
		time.Sleep(2 * time.Millisecond) // a contact made around the time of the answer would show now
	}
	after := e.contacts()
	forwarded := ex != nil || tunnelled
	impl := summarise(peer, ex, res, after.accepts-before.accepts, after.bytes-before.bytes)

	// ---- model ----
	minor := req.Minor
	var modelKind string // "loop" | "fwd" | "other"
	var modelVia []string
	modelHead := false // CONNECT: the model sends a head to an upstream HTTP(S) proxy
	mctx := reqmodel.Ctx{ClientIP: "127.0.0.1", Secure: e.mode == "mitm" || e.tls}
	if cc.Connect {
		// the modifier alone (Req.viaStep) …
		a := strings.Fields(ask(ctx, "step", core.HexS(e.cfg.Tag), core.Itoa(minor), hexLines(lines)))
		// … and the whole CONNECT path (Req.processConnect): modifier stack, dispatch by upstream scheme,
		// the head written to an upstream HTTP(S) proxy
		mcfg := e.cfg
		mcfg.MITM = e.mode == "mitm"
		full := askConnect(ctx, &mcfg, &mctx, &reqmodel.ConnectReq{Authority: req.Path, Minor: req.Minor, Fields: req.Fields})
		ctx.Count("connect-model/" + strings.SplitN(full, ":", 3)[0])
		switch {
		case full == "refused-400-loop":
			modelKind = "loop"
			if a[0] != "loop" {
				ctx.Disagree("Req.processConnect and Req.viaStep agree on a loop", cc, full, strings.Join(a, " "))
			}
		case strings.HasPrefix(full, "tunnel:"):
			modelKind, modelHead = "fwd", true
			f := strings.SplitN(full, ":", 3)
			modelVia = core.UnHexList(f[2])
			if a[0] == "loop" || strings.Join(modelVia, "\x00") != strings.Join(core.UnHexList(a[1]), "\x00") {
				ctx.Disagree("the head Req.processConnect sends upstream carries what Req.viaStep produced", cc, full, strings.Join(a, " "))
			}
			if f[1] != e.upKind {
				ctx.Disagree("upstream scheme the model dispatches the CONNECT to", cc, e.upKind, f[1])
			}
		case strings.HasPrefix(full, "tunnel-raw:"), full == "mitm":
			modelKind = "fwd"
			if a[0] == "loop" {
				ctx.Disagree("Req.processConnect and Req.viaStep agree on a loop", cc, full, strings.Join(a, " "))
			} else {
				modelVia = core.UnHexList(a[1])
			}
		default:
			modelKind = "other"
		}
	} else {
		out := reqmodel.Ask(ctx.Model, &e.cfg, &mctx, req)
		switch {
		case out.Kind == "refused" && out.Why == "loop":
			modelKind = "loop"
			if out.Status != 400 {
				ctx.Disagree("model refuses loops with 400", cc, "", fmt.Sprint(out.Status))
			}
		case out.Kind == "fwd":
			modelKind = "fwd"
			modelVia = out.Fields["via"]
			wantPeer := e.origin
			if out.HopKind == "proxy" || out.HopKind == "tlsproxy" {
				wantPeer = e.up
			} else if e.mode == "mitm" || (req.Absolute && req.Scheme == "https") || (!req.Absolute && e.tls) {
				wantPeer = e.tlsOrig
			}
			if ex != nil && peer != wantPeer {
				ctx.Disagree("hop that receives the request", cc, impl, out.HopKind)
			}
		default:
			modelKind = "other"
		}
	}
	ctx.Count("model/" + modelKind)
	switch modelKind {
	case "loop":
		ok := true
		if forwarded {
			ctx.Disagree("loop refused by the model reached a hop", cc, impl, "refused 400 loop")
			ok = false
		}
		if res.Status != 400 {
			ctx.Disagree("status of a detected loop", cc, impl, "400")
			ok = false
		} else if !res.Has("X-Forwarder-Error") {
			ctx.Disagree("a detected loop is answered by the proxy itself (X-Forwarder-Error)", cc, impl, "X-Forwarder-Error present")
			ok = false
		}
		// the loop error on its way through errorResponse (Model/C18Err.lean): status by the handler list, the text
		// (it embeds the chain as received) in X-Forwarder-Error and in the body
		https := !cc.Connect && (e.mode == "mitm" || (req.Absolute && req.Scheme == "https") || (!req.Absolute && e.tls))
		var trimmed []string
		for _, l := range lines {
			trimmed = append(trimmed, strings.Trim(l, " \t"))
		}
		lc := strings.Fields(ask(ctx, "loopclass", core.Itoa(b2i(https)), hexLines(trimmed)))
		if len(lc) != 3 {
			core.Fatalf("C18 loopclass: unexpected answer %q", lc)
		}
		eb, _ := core.UnHex(lc[2])
		errText := string(eb)
		ctx.Count("loop-class/" + lc[0] + "-" + lc[1])
		if fmt.Sprint(res.Status) != lc[0] {
			ctx.Disagree("status of a detected loop = classification of the loop error by errorResponse's handler list (C18 loopclass)", cc, impl, lc[0]+" "+lc[1])
			ok = false
		}
		if res.Status == 400 {
			if got, want := strings.Trim(res.Get("X-Forwarder-Error"), " \t"), strings.Trim(proxyName+" "+errText, " \t"); got != want {
				ctx.Disagree("X-Forwarder-Error of a detected loop = name SP loop error text (the chain as received)", cc, impl, want)
				ok = false
			}
			if body := string(res.Body); len(body) > 0 &&
				!(strings.HasPrefix(body, proxyName+" proxy error for host ") && strings.HasSuffix(body, "\n"+errText+"\n")) {
				ctx.Disagree("body of the answer to a detected loop = name SP \"proxy error for host …\" LF loop error text LF", cc,
					impl+fmt.Sprintf(" body=%q", body), "martian_error message + "+errText)
				ok = false
			}
		}
		if ok {
			ctx.TraceValidated()
		}
	case "fwd":
		switch {
		case !forwarded:
			ctx.Disagree("request passed by the model reaches its hop", cc, impl, "fwd via="+strings.Join(modelVia, " | "))
		case cc.Connect && modelHead && ex == nil:
			ctx.Disagree("a CONNECT forwarded to an upstream HTTP(S) proxy arrives there as a CONNECT head", cc, impl, "head via="+strings.Join(modelVia, " | "))
		case cc.Connect && e.upKind == "socks5" && !e.socksAsked(socksBefore, req.Path):
			ctx.Disagree("a CONNECT forwarded to a SOCKS5 upstream asks it for the CONNECT authority", cc, impl, "socks target "+req.Path)
		case ex != nil && strings.Join(ex.Req.Values("Via"), "\x00") != strings.Join(modelVia, "\x00"):
			ctx.Disagree("Via field lines at the next hop = Model.Req.viaStep", cc, impl, strings.Join(modelVia, " | "))
		case res.Status != 200:
			ctx.Disagree("forwarded request is answered with the hop's response", cc, impl, "200")
		default:
			ctx.TraceValidated()
		}
	}

	// ---- the property itself, on what the implementation did ----
	// (1) refused requests cause no upstream activity
	if !forwarded && (after.accepts != before.accepts || after.bytes != before.bytes) {
		ctx.SpecFail("a refused request contacts no upstream", "", cc, impl,
			fmt.Sprintf("contact counters moved: accepts +%d bytes +%d", after.accepts-before.accepts, after.bytes-before.bytes))
	}
	// (2) own element => 400; clean chain => forwarded with the element appended
	if modelKind == "other" {
		return // refused for another reason / outside the modelled domain: not C18's business
	}
	var verdict string
	switch {
	case ex != nil:
		verdict = ask(ctx, "holds", core.HexS(e.cfg.Tag), core.Itoa(minor), hexLines(lines), "fwd", hexLines(ex.Req.Values("Via")))
	case tunnelled:
		// nothing to read a Via from (direct tunnel / interception): only the loop clause applies
		if cls == "own" {
			verdict = "false loop-not-refused"
		} else {
			verdict = "true"
		}
	default:
		verdict = ask(ctx, "holds", core.HexS(e.cfg.Tag), core.Itoa(minor), hexLines(lines), "refused", core.Itoa(res.Status))
	}
	if verdict != "true" {
		clause := strings.TrimPrefix(verdict, "false ")
		ctx.SpecFail(clause, "", cc, impl, fmt.Sprintf("chain class %s, Via lines sent %q", cls, lines))
	}
}

// socksAsked: the SOCKS5 server received a request for target since the case began.
func (e *env) socksAsked(from int, target string) bool {
	rs := e.socks.Requests()
	for i := from; i < len(rs); i++ {
		if rs[i].Target == target {
			return true
		}
	}
	return false
}

// findConnect finds the CONNECT the upstream proxy received for this case (cases of one environment
// run one at a time, so it is the CONNECT logged since the case began).
func (e *env) findConnect(from int) (*rig.Peer, *rig.Exchange) {
	log := e.up.Log()
	for i := from; i < len(log); i++ {
		if log[i].Req != nil && log[i].Req.Method == "CONNECT" {
			return e.up, log[i]
		}
	}
	return nil, nil
}

func b2i(b bool) int {
	if b {
		return 1
	}
	return 0
}

func waitFor(cond func() bool, d time.Duration) bool {
	end := time.Now().Add(d)
	for time.Now().Before(end) {
		if cond() {
			return true
		}
		time.Sleep(200 * time.Microsecond)
	}
	return cond()
}

func summarise(peer *rig.Peer, ex *rig.Exchange, res *rig.Msg, dAcc, dBytes int64) string {
	var b strings.Builder
	if ex != nil {
		fmt.Fprintf(&b, "hop=%s via=%q", peer.Name, ex.Req.Values("Via"))
	} else {
		b.WriteString("hop=none")
	}
	if res != nil {
		fmt.Fprintf(&b, " client-status=%d x-forwarder-error=%q", res.Status, res.Get("X-Forwarder-Error"))
	}
	fmt.Fprintf(&b, " contacts(accepts +%d, bytes +%d)", dAcc, dBytes)
	return b.String()
}

// ---------------------------------------------------------------------------------------------
// counting pass-through peer (sits between the instances of a real loop)
// ---------------------------------------------------------------------------------------------

type passThrough struct {
	peer   *rig.Peer
	target atomic.Value // string
	tlsUp  atomic.Bool  // the target is a TLS listener: the relay speaks TLS to it (and, started by newPassThroughTLS, to its client)
	limit  int64        // connections beyond this are dropped: a loop that is not detected stays bounded
	mu     sync.Mutex
	heads  [][]byte // client->target bytes of each connection (first 64 KiB)
	gen    int      // bumped by reset: connections of earlier cases no longer record
	n      atomic.Int64
}

func newPassThrough(name string, limit int64) (*passThrough, error) {
	pt := &passThrough{limit: limit}
	pt.target.Store("")
	p, err := rig.NewRawPeer(name, pt.serve)
	if err != nil {
		return nil, err
	}
	pt.peer = p
	return pt, nil
}

// newPassThroughTLS is a pass-through peer that terminates TLS (certificate conf) towards its client, so that
// what travels over an https:// upstream-proxy link can be counted and read like a plain link.
func newPassThroughTLS(name string, limit int64, conf *tls.Config) (*passThrough, error) {
	pt := &passThrough{limit: limit}
	pt.target.Store("")
	p, err := rig.NewRawTLSPeer(name, conf, pt.serve)
	if err != nil {
		return nil, err
	}
	pt.peer = p
	return pt, nil
}

func (pt *passThrough) serve(pc *rig.PeerConn) {
	n := pt.n.Add(1)
	if n > pt.limit {
		return // dropped
	}
	// the connection is on record (possibly without a head) from the moment it is counted
	idx := int(n - 1)
	pt.mu.Lock()
	gen := pt.gen
	for len(pt.heads) <= idx {
		pt.heads = append(pt.heads, nil)
	}
	pt.mu.Unlock()
	addr, _ := pt.target.Load().(string)
	var up net.Conn
	up, err := net.DialTimeout("tcp", addr, 3*time.Second)
	if err != nil {
		return
	}
	defer func() { up.Close() }()
	if pt.tlsUp.Load() {
		tc := tls.Client(up, &tls.Config{InsecureSkipVerify: true, NextProtos: []string{"http/1.1"}})
		tc.SetDeadline(time.Now().Add(5 * time.Second))
		if err := tc.Handshake(); err != nil {
			return
		}
		tc.SetDeadline(time.Time{})
		up = tc
	}
	done := make(chan struct{}, 2)
	go func() {
		buf := make([]byte, 32<<10)
		for {
			k, err := pc.BR.Read(buf)
			if k > 0 {
				pt.mu.Lock()
				// (a connection that outlives its case — a tunnel being torn down — is no longer on record)
				if gen == pt.gen && idx < len(pt.heads) && len(pt.heads[idx]) < 64<<10 {
					pt.heads[idx] = append(pt.heads[idx], buf[:k]...)
				}
				pt.mu.Unlock()
				if _, werr := up.Write(buf[:k]); werr != nil {
					break
				}
			}
			if err != nil {
				break
			}
		}
		if cw, ok := up.(interface{ CloseWrite() error }); ok {
			cw.CloseWrite()
		}
		done <- struct{}{}
	}()
	go func() {
		io.Copy(pc.Conn, up)
		done <- struct{}{}
	}()
	<-done
	// the other direction ends when either side closes; do not wait for ever
	select {
	case <-done:
	case <-time.After(2 * time.Second):
	}
}

func (pt *passThrough) reset() {
	pt.n.Store(0)
	pt.mu.Lock()
	pt.heads = nil
	pt.gen++
	pt.mu.Unlock()
}

func (pt *passThrough) count() int64 { return pt.n.Load() }

// requests parses the first request relayed on each connection.
func (pt *passThrough) requests() []*rig.Msg {
	pt.mu.Lock()
	defer pt.mu.Unlock()
	var out []*rig.Msg
	for _, h := range pt.heads {
		if len(h) == 0 {
			out = append(out, nil)
			continue
		}
		m, _ := rig.ReadRequest(bufio.NewReader(bytes.NewReader(h)))
		out = append(out, m)
	}
	return out
}

func (pt *passThrough) close() { pt.peer.Close() }

// ---------------------------------------------------------------------------------------------
// real loops
// ---------------------------------------------------------------------------------------------

// loopCase: Topology "self" = one instance chained to itself; "pair" = A -> B -> A;
// "chain" = A -> B -> origin (no loop: two instances with the same name in a row).
// Variant "upstream" = the next instance is configured as upstream proxy (absolute-form hops);
// "direct" = the target host is routed to the next instance (origin-form hops);
// "connect" = a CONNECT travelling through upstream-proxy links.
type loopCase struct {
	Kind     string            `json:"kind"` // "loop"
	Topology string            `json:"topology"`
	Variant  string            `json:"variant"`
	Request  *reqmodel.Request `json:"request"`
}

const loopLimit = 6

// instance is one proxy of a loop environment.
type instance struct {
	proxy *rig.Proxy
	cfg   reqmodel.Cfg
	next  *passThrough // where it forwards to
}

type loopEnv struct {
	topology, variant string
	insts             []*instance
	origin            *rig.Peer
	mu                sync.Mutex
}

func (le *loopEnv) close() {
	for _, in := range le.insts {
		if in.proxy != nil {
			in.proxy.Stop()
		}
		if in.next != nil {
			in.next.close()
		}
	}
	if le.origin != nil {
		le.origin.Close()
	}
}

func startInstance(variant string, next *passThrough, origin *rig.Peer) (*instance, error) {
	in := &instance{next: next, cfg: reqmodel.Cfg{Name: proxyName, TimeAllowed: true}}
	opts := rig.ProxyOpts{
		Configure: func(cfg *forwarder.HTTPProxyConfig) { cfg.Name = proxyName },
		// one connection per forwarded request: the pass-through peers count forwards
		PostTransport: func(rt *http.Transport) { rt.DisableKeepAlives = true; asRunComposes(rt) },
	}
	if next != nil {
		switch variant {
		case "upstream", "connect":
			opts.ConnectTo = append(opts.ConnectTo, rig.Route("next.test", "3128", next.peer.Addr))
			opts.Configure = func(cfg *forwarder.HTTPProxyConfig) {
				cfg.Name = proxyName
				cfg.UpstreamProxy = rig.MustURL("http://next.test:3128")
			}
			in.cfg.Upstream = "next.test:3128"
		case "direct":
			opts.ConnectTo = append(opts.ConnectTo, rig.Route("loop.test", "80", next.peer.Addr))
		}
	}
	if origin != nil {
		opts.ConnectTo = append(opts.ConnectTo, rig.Route("loop.test", "80", origin.Addr))
	}
	p, err := rig.StartProxy(opts)
	if err != nil {
		return nil, err
	}
	in.proxy = p
	return in, nil
}

var errChainLost = fmt.Errorf("the Via chain does not hold one element per instance passed")

var errForeignRefused = fmt.Errorf("an instance refused the element of another instance with the same configured name")

func newLoopEnv(ctx *core.Ctx, topology, variant string) (*loopEnv, error) {
	le := &loopEnv{topology: topology, variant: variant}
	fail := func(err error) (*loopEnv, error) { le.close(); return nil, err }
	switch topology {
	case "self":
		pt, err := newPassThrough("pt-self", loopLimit)
		if err != nil {
			return fail(err)
		}
		a, err := startInstance(variant, pt, nil)
		if err != nil {
			pt.close()
			return fail(err)
		}
		pt.target.Store(a.proxy.Addr)
		le.insts = []*instance{a}
	case "pair":
		pt1, err := newPassThrough("pt-a-b", loopLimit)
		if err != nil {
			return fail(err)
		}
		pt2, err := newPassThrough("pt-b-a", loopLimit)
		if err != nil {
			pt1.close()
			return fail(err)
		}
		a, err := startInstance(variant, pt1, nil)
		if err != nil {
			pt1.close()
			pt2.close()
			return fail(err)
		}
		le.insts = append(le.insts, a)
		b, err := startInstance(variant, pt2, nil)
		if err != nil {
			pt2.close()
			return fail(err)
		}
		le.insts = append(le.insts, b)
		pt1.target.Store(b.proxy.Addr)
		pt2.target.Store(a.proxy.Addr)
	case "chain":
		var err error
		if le.origin, err = rig.NewPeer("origin", hopResponder); err != nil {
			return fail(err)
		}
		pt1, err := newPassThrough("pt-a-b", loopLimit)
		if err != nil {
			return fail(err)
		}
		a, err := startInstance(variant, pt1, nil)
		if err != nil {
			pt1.close()
			return fail(err)
		}
		le.insts = append(le.insts, a)
		b, err := startInstance("none", nil, le.origin)
		if err != nil {
			return fail(err)
		}
		le.insts = append(le.insts, b)
		pt1.target.Store(b.proxy.Addr)
	default:
		return nil, fmt.Errorf("unknown topology %q", topology)
	}
	if err := le.learnTags(); err != nil {
		if errors.Is(err, errForeignRefused) {
			ctx.SpecFail("an instance with the same name but another tag forwards", "",
				map[string]any{"kind": "tag", "where": "loop/" + topology + "-" + variant}, err.Error(), "")
		}
		if errors.Is(err, errChainLost) {
			ctx.SpecFail("each instance appends its element after the existing ones", "",
				map[string]any{"kind": "tag", "where": "loop/" + topology + "-" + variant}, err.Error(), "")
			err = fmt.Errorf("%w (%v)", errForeignRefused, err) // reported; callers skip the crash report
		}
		return fail(err)
	}
	var tags []string
	for _, in := range le.insts {
		tags = append(tags, in.cfg.Tag)
	}
	checkTagShape(ctx, "loop/"+topology+"-"+variant, tags)
	return le, nil
}

// learnTags reads every instance's tag off the probe relayed by the pass-through peers (first hop:
// "1.1 tagA"; second hop: "1.1 tagA, 1.1 tagB"); for the chain topology B's tag shows at the origin.
func (le *loopEnv) learnTags() error {
	le.resetCounters()
	c, err := rig.Dial(le.insts[0].proxy.Addr)
	if err != nil {
		return err
	}
	defer c.Close()
	if le.variant == "connect" {
		c.Send([]byte("CONNECT loop.test:80 HTTP/1.1\r\nHost: loop.test:80\r\n\r\n"), nil)
		if _, err := c.ReadResponse("GET", 8*time.Second); err != nil { // a refusal carries a body
			return fmt.Errorf("probe: %w", err)
		}
	} else {
		c.Send([]byte("GET http://loop.test/probe HTTP/1.1\r\nHost: loop.test\r\nCase-Id: probe\r\nConnection: close\r\n\r\n"), nil)
		if _, err := c.ReadResponse("GET", 8*time.Second); err != nil {
			return fmt.Errorf("probe: %w", err)
		}
	}
	var chain []string
	last := ""
	for _, in := range le.insts {
		if in.next == nil {
			continue
		}
		rs := in.next.requests()
		if len(rs) == 0 || rs[0] == nil {
			if in != le.insts[0] {
				// the first instance forwarded, a later one did not: it refused another instance's element
				return fmt.Errorf("%w: probe was not relayed by %s (Via so far %q)", errForeignRefused, in.next.peer.Name, last)
			}
			return fmt.Errorf("probe was not relayed by %s", in.next.peer.Name)
		}
		last = rs[0].Get("Via")
	}
	if le.topology == "chain" {
		for _, ex := range le.origin.Log() {
			last = ex.Req.Get("Via")
		}
	}
	for _, el := range strings.Split(last, ",") {
		f := strings.Fields(el)
		if len(f) == 2 {
			chain = append(chain, f[1])
		}
	}
	if len(chain) < len(le.insts) {
		return fmt.Errorf("%w: after %d instances the probe carries Via %q", errChainLost, len(le.insts), last)
	}
	for i, in := range le.insts {
		in.cfg.Tag = chain[i]
	}
	return nil
}

func (le *loopEnv) resetCounters() {
	for _, in := range le.insts {
		if in.next != nil {
			in.next.reset()
		}
	}
	if le.origin != nil {
		le.origin.Reset()
	}
}

func (le *loopEnv) tokens(r *reqmodel.Request) []string {
	var t []string
	x := reqmodel.Ctx{ClientIP: "127.0.0.1"}
	for _, in := range le.insts {
		full := reqmodel.Tokens(&in.cfg, &x, r)
		// configuration + context tokens only (the request tokens of this group are ignored by the
		// driver, but keep the line short)
		for _, tok := range full {
			if strings.HasPrefix(tok, "method=") || strings.HasPrefix(tok, "minor=") || strings.HasPrefix(tok, "path=") ||
				strings.HasPrefix(tok, "query=") || strings.HasPrefix(tok, "fields=") || strings.HasPrefix(tok, "target=") {
				continue
			}
			t = append(t, tok)
		}
		t = append(t, "|")
	}
	return append(t, reqmodel.Tokens(&le.insts[0].cfg, &x, r)...)
}

func (le *loopEnv) runLoop(ctx *core.Ctx, lc *loopCase) {
	le.mu.Lock()
	defer le.mu.Unlock()
	le.resetCounters()
	req := lc.Request
	ctx.Case(fmt.Sprintf("loop|%s|%s|%s", lc.Topology, lc.Variant, req.Wire()), true)
	ctx.Count("loop/" + lc.Topology + "-" + lc.Variant)

	c, err := rig.Dial(le.insts[0].proxy.Addr)
	if err != nil {
		ctx.Crash("proxy accepts a client connection", "", lc, err.Error())
		return
	}
	defer c.Close()
	c.Send(req.Wire(), nil)
	readAs := req.Method
	if readAs == "CONNECT" {
		readAs = "GET" // the refusal of a CONNECT carries a body
	}
	res, rerr := c.ReadResponse(readAs, 15*time.Second)
	if rerr != nil || res == nil {
		ctx.Crash("a loop is answered (it terminates)", "", lc, fmt.Sprintf("no response within 15s: %v; hops so far %v", rerr, le.hopCounts()))
		return
	}
	time.Sleep(2 * time.Millisecond)
	counts := le.hopCounts()
	var relayedVia [][]string // per pass-through: Via lines of each relayed request
	total := int64(0)
	for _, in := range le.insts {
		if in.next == nil {
			continue
		}
		var vs []string
		for _, m := range in.next.requests() {
			if m != nil {
				vs = append(vs, strings.Join(m.Values("Via"), " | "))
			} else {
				vs = append(vs, "<unparsed>")
			}
		}
		relayedVia = append(relayedVia, vs)
		total += in.next.count()
	}
	originVia := []string(nil)
	originHits := 0
	if le.origin != nil {
		for _, ex := range le.origin.Log() {
			originHits++
			originVia = ex.Req.Values("Via")
		}
	}
	impl := fmt.Sprintf("client-status=%d x-forwarder-error=%q hops-relayed=%v relayed-via=%q origin-hits=%d origin-via=%q",
		res.Status, res.Get("X-Forwarder-Error"), counts, relayedVia, originHits, originVia)

	// ---- model: the composed loop (Model/C18.lean runLoop) ----
	var want []string // outcome per pass
	if req.Method != "CONNECT" {
		fuel := 2 * loopLimit
		if le.topology == "chain" {
			fuel = 2 // A -> B -> origin: two passes, B's message leaves the set of instances
		}
		a := ask(ctx, "loop", append([]string{core.Itoa(fuel)}, le.tokens(req)...)...)
		want = strings.Fields(a)[1:]
	} else {
		// CONNECT is not part of processRequest: the modifier is the same, the expected trace is
		// forward (with the tag appended) until an instance sees its own tag
		switch le.topology {
		case "self":
			want = []string{"fwd:", "refused-400-loop"}
		case "pair":
			want = []string{"fwd:", "fwd:", "refused-400-loop"}
		}
	}
	wantFwd := 0
	for _, o := range want {
		if strings.HasPrefix(o, "fwd:") {
			wantFwd++
		}
	}
	wantLast := ""
	if len(want) > 0 {
		wantLast = want[len(want)-1]
	}
	modelStr := strings.Join(want, " ")
	agree := true
	switch le.topology {
	case "self", "pair":
		if int(total) != wantFwd {
			ctx.Disagree("number of forwards a loop makes = Model.C18.runLoop", lc, impl, modelStr)
			agree = false
		}
		if wantLast == "refused-400-loop" && res.Status != 400 {
			ctx.Disagree("status the client of a loop receives", lc, impl, modelStr)
			agree = false
		}
		if wantLast == "refused-400-loop" && res.Status == 400 && !res.Has("X-Forwarder-Error") {
			ctx.Disagree("the refusal of a loop is produced by a forwarder instance (X-Forwarder-Error)", lc, impl, modelStr)
			agree = false
		}
	case "chain":
		if wantFwd != 2 || originHits != 1 || res.Status != 200 {
			ctx.Disagree("two instances with the same name in a row forward to the origin", lc, impl, modelStr)
			agree = false
		}
	}
	// Via at every relayed hop = the model's
	if req.Method != "CONNECT" && agree {
		seq := le.relaySequence()
		k := 0
		for _, o := range want {
			if !strings.HasPrefix(o, "fwd:") {
				break
			}
			mv := strings.Join(core.UnHexList(strings.TrimPrefix(o, "fwd:")), " | ")
			var got string
			switch {
			case k < len(seq):
				got = seq[k]
			case le.topology == "chain" && k == len(seq):
				got = strings.Join(originVia, " | ")
			default:
				got = "<none>"
			}
			if got != mv {
				ctx.Disagree(fmt.Sprintf("Via field lines relayed at hop %d = Model.C18.runLoop", k+1), lc, impl, modelStr)
				agree = false
				break
			}
			k++
		}
	}
	if agree {
		ctx.TraceValidated()
	}

	// ---- the property itself ----
	switch le.topology {
	case "self":
		if total > 1 {
			ctx.SpecFail("a loop of one instance terminates at its first repetition", "", lc, impl, fmt.Sprintf("%d forwards (pass-through limit %d)", total, loopLimit))
		} else if res.Status != 400 {
			ctx.SpecFail("a repeated request is answered 400", "", lc, impl, "")
		}
	case "pair":
		if total > 2 {
			ctx.SpecFail("a loop of two instances terminates at its first repetition", "", lc, impl, fmt.Sprintf("%d forwards (pass-through limit %d each)", total, loopLimit))
		} else if res.Status != 400 {
			ctx.SpecFail("a repeated request is answered 400", "", lc, impl, "")
		} else if total < 2 {
			ctx.SpecFail("an instance with the same name but another tag forwards", "", lc, impl, "B refused A's element")
		}
	case "chain":
		if originHits != 1 || res.Status != 200 {
			ctx.SpecFail("an instance with the same name but another tag forwards", "", lc, impl, "")
		} else {
			in := viaLinesOf(req.Fields)
			els := strings.Join(originVia, ", ")
			wantEls := append(splitElements(strings.Join(in, ", ")), "1.1 "+le.insts[0].cfg.Tag, "1.1 "+le.insts[1].cfg.Tag)
			if req.Minor == 0 {
				wantEls[len(wantEls)-2] = "1.0 " + le.insts[0].cfg.Tag
			}
			if len(in) <= 1 && strings.Join(splitElements(els), "\x00") != strings.Join(wantEls, "\x00") {
				ctx.SpecFail("each instance appends its element after the existing ones", "", lc, impl, fmt.Sprintf("want %q", wantEls))
			}
		}
	}
}

func splitElements(v string) []string {
	var out []string
	for _, e := range strings.Split(v, ",") {
		if e = strings.Trim(e, " \t"); e != "" {
			out = append(out, e)
		}
	}
	return out
}

func (le *loopEnv) hopCounts() []int64 {
	var cs []int64
	for _, in := range le.insts {
		if in.next != nil {
			cs = append(cs, in.next.count())
		}
	}
	return cs
}

// relaySequence interleaves what the pass-through peers relayed in loop order (A->B, B->A, A->B …).
func (le *loopEnv) relaySequence() []string {
	var per [][]string
	for _, in := range le.insts {
		if in.next == nil {
			continue
		}
		var vs []string
		for _, m := range in.next.requests() {
			if m != nil {
				vs = append(vs, strings.Join(m.Values("Via"), " | "))
			} else {
				vs = append(vs, "<unparsed>")
			}
		}
		per = append(per, vs)
	}
	var seq []string
	for i := 0; ; i++ {
		added := false
		for _, vs := range per {
			if i < len(vs) {
				seq = append(seq, vs[i])
				added = true
			}
		}
		if !added {
			break
		}
	}
	return seq
}

// ---------------------------------------------------------------------------------------------
// replay plumbing
// ---------------------------------------------------------------------------------------------

type pools struct {
	mu    sync.Mutex
	ctx   *core.Ctx
	envs  map[string]*env
	loops map[string]*loopEnv
	// fleets are created outside the pool lock (each start-up probes its instances): one slot per key
	fleets map[string]*fleetSlot
	// the two-instance CONNECT loop of the cross-talk cases
	connLoopOnce sync.Once
	connLoop     *connLoopEnv
	connLoopErr  error
}

type fleetSlot struct {
	once sync.Once
	env  *fleetEnv
	err  error
}

func newPools(ctx *core.Ctx) *pools {
	return &pools{ctx: ctx, envs: map[string]*env{}, loops: map[string]*loopEnv{}, fleets: map[string]*fleetSlot{}}
}

func (p *pools) fleet(spec fleetSpec) (*fleetEnv, error) {
	p.mu.Lock()
	sl, ok := p.fleets[spec.key()]
	if !ok {
		sl = &fleetSlot{}
		p.fleets[spec.key()] = sl
	}
	p.mu.Unlock()
	sl.once.Do(func() { sl.env, sl.err = newFleetEnv(p.ctx, spec) })
	return sl.env, sl.err
}

func (p *pools) env(mode string) (*env, error) {
	p.mu.Lock()
	defer p.mu.Unlock()
	if e, ok := p.envs[mode]; ok {
		return e, nil
	}
	e, err := newEnv(p.ctx, mode)
	if err != nil {
		return nil, err
	}
	p.envs[mode] = e
	return e, nil
}

func (p *pools) loop(topology, variant string) (*loopEnv, error) {
	p.mu.Lock()
	defer p.mu.Unlock()
	k := topology + "/" + variant
	if e, ok := p.loops[k]; ok {
		return e, nil
	}
	e, err := newLoopEnv(p.ctx, topology, variant)
	if err != nil {
		return nil, err
	}
	p.loops[k] = e
	return e, nil
}

func (p *pools) closeAll() {
	for _, e := range p.envs {
		e.close()
	}
	for _, e := range p.loops {
		e.close()
	}
	for _, sl := range p.fleets {
		if sl.env != nil {
			sl.env.close()
		}
	}
	if p.connLoop != nil {
		p.connLoop.close()
	}
}

func (p *pools) run(ctx *core.Ctx, raw json.RawMessage) {
	var k struct {
		Kind string `json:"kind"`
	}
	json.Unmarshal(raw, &k)
	switch k.Kind {
	case "chain":
		var cc chainCase
		if err := json.Unmarshal(raw, &cc); err != nil || cc.Request == nil {
			core.Fatalf("bad C18 chain case: %v", err)
		}
		e, err := p.env(cc.Mode)
		if err != nil {
			ctx.Crash("proxy starts with a valid configuration", "", cc, err.Error())
			return
		}
		e.runChain(ctx, &cc)
	case "loop":
		var lc loopCase
		if err := json.Unmarshal(raw, &lc); err != nil || lc.Request == nil {
			core.Fatalf("bad C18 loop case: %v", err)
		}
		e, err := p.loop(lc.Topology, lc.Variant)
		if err != nil {
			if !errors.Is(err, errForeignRefused) {
				ctx.Crash("proxy starts with a valid configuration", "", lc, err.Error())
			}
			return
		}
		e.runLoop(ctx, &lc)
	case "fleet":
		var fc fleetCase
		if err := json.Unmarshal(raw, &fc); err != nil || fc.Request == nil {
			core.Fatalf("bad C18 fleet case: %v", err)
		}
		e, err := p.fleet(fc.fleetSpec)
		if err != nil {
			if errors.Is(err, errChainLost) {
				ctx.SpecFail(clauseHop, "", fc, err.Error(), "")
			} else {
				ctx.Crash("proxy starts with a valid configuration and forwards a request without Via", "", fc, err.Error())
			}
			return
		}
		e.runFleet(ctx, &fc)
	case "cconn":
		var cc connCrossCase
		if err := json.Unmarshal(raw, &cc); err != nil || cc.Clients < 1 || cc.Clients > 64 || cc.PerClient < 1 || cc.PerClient > 16 {
			core.Fatalf("bad C18 CONNECT cross-talk case: %v", err)
		}
		cc.Victim, cc.Other = nil, nil
		if cc.Mode == "loop" {
			p.connLoopOnce.Do(func() { p.connLoop, p.connLoopErr = newConnLoopEnv() })
			if p.connLoopErr != nil {
				if errors.Is(p.connLoopErr, errChainLost) {
					ctx.SpecFail(clauseHop, "", cc, p.connLoopErr.Error(), "")
				} else {
					ctx.Crash("proxy starts with a valid configuration and forwards a CONNECT without Via", "", cc, p.connLoopErr.Error())
				}
				return
			}
			p.connLoop.runConnLoop(ctx, &cc)
			return
		}
		e, err := p.env(cc.Mode)
		if err != nil {
			ctx.Crash("proxy starts with a valid configuration", "", cc, err.Error())
			return
		}
		if e.up == nil || (e.upKind != "http" && e.upKind != "https") {
			core.Fatalf("bad C18 CONNECT cross-talk case: mode %q has no HTTP(S) upstream proxy", cc.Mode)
		}
		e.runConnCross(ctx, &cc)
	case "first":
		var fc firstCase
		if err := json.Unmarshal(raw, &fc); err != nil {
			core.Fatalf("bad C18 first-requests case: %v", err)
		}
		runFirst(ctx, &fc)
	case "entropy":
		var ec entropyCase
		if err := json.Unmarshal(raw, &ec); err != nil {
			core.Fatalf("bad C18 entropy case: %v", err)
		}
		runEntropy(ctx, &ec)
	case "tag":
		// the tag-shape clause is evaluated whenever an environment starts
		var w struct {
			Where string `json:"where"`
		}
		json.Unmarshal(raw, &w)
		if f := strings.Split(w.Where, "/"); len(f) == 5 && f[0] == "fleet" {
			// the assertions on a fleet's observed elements (shape, same on every listener, injective)
			if _, err := p.fleet(fleetSpec{Topology: f[1], Links: strings.Split(f[2], "+"), Build: f[3], Entry: f[4]}); err != nil {
				ctx.Crash("proxy starts with a valid configuration and forwards a request without Via", "", k, err.Error())
			}
			return
		}
		if _, err := p.env("direct"); err != nil {
			ctx.Crash("proxy starts with a valid configuration", "", k, err.Error())
		}
		if _, err := p.loop("pair", "upstream"); err != nil && !errors.Is(err, errForeignRefused) {
			ctx.Crash("proxy starts with a valid configuration", "", k, err.Error())
		}
	default:
		core.Fatalf("unknown C18 case kind %q", k.Kind)
	}
}

func Replay(ctx *core.Ctx, raw json.RawMessage) {
	p := newPools(ctx)
	defer p.closeAll()
	defer stopFirstChild()
	p.run(ctx, raw)
}

// nominatesVia reports whether a Connection field line of the request names Via.
func nominatesVia(fs []rig.Field) bool {
	for _, f := range fs {
		if !strings.EqualFold(f.Name, "Connection") {
			continue
		}
		for _, t := range strings.Split(f.Value, ",") {
			if strings.EqualFold(strings.TrimSpace(t), "via") {
				return true
			}
		}
	}
	return false
}
