package c18

import (
	"fmt"
	"strings"

	"github.com/saucelabs/forwarder/verifharness/core"
	"github.com/saucelabs/forwarder/verifharness/reqmodel"
	"github.com/saucelabs/forwarder/verifharness/rig"
)

// Text that OTHER parts of the proxy interpret. The loop refusal is an error whose text embeds the
// received Via chain ("via: detected request loop, header contains <chain>"), and that error is then
// classified (http_proxy_errors.go), logged, written into X-Forwarder-Error and the body: whatever a
// hop before us put into a comment or a pseudonym travels through all of that. The alphabet below is
// collected from what the error classification and net/http / crypto/tls / net produce and match on.
var (
	// phrases of transport / protocol errors (net/http, net, crypto/tls, context, io) and of the proxy's own errors
	errorPhrases = []string{
		"malformed HTTP response", "malformed HTTP status code", "malformed HTTP version", "malformed HTTP request",
		"malformed MIME header line", "malformed MIME header initial line", "malformed MIME header", "malformed chunked encoding",
		"timeout", "i/o timeout", "net/http: timeout awaiting response headers", "net/http: TLS handshake timeout",
		"context deadline exceeded", "context canceled", "net/http: request canceled", "operation was canceled",
		"EOF", "unexpected EOF", "http: server closed idle connection", "use of closed network connection",
		"tls:", "tls: first record does not look like a TLS handshake", "remote error: tls: handshake failure",
		"local error: tls: bad record MAC", "tls: failed to verify certificate: x509: certificate signed by unknown authority",
		"connection reset", "read tcp 10.0.0.1:3128->10.0.0.2:80: read: connection reset by peer", "connection refused",
		"dial tcp 10.0.0.9:443: connect: connection refused", "write: broken pipe", "no such host", "network is unreachable",
		"proxyconnect", "proxyconnect tcp: dial tcp 10.0.0.9:3128: i/o timeout", "proxy connect error: 403 Forbidden",
		"proxy authentication required", "proxying denied", "localhost proxying is disabled", "proxying denied outside allowed time frame",
		"via: detected request loop, header contains", "unexpected error", "encountered an unexpected error",
		"http: server gave HTTP response to HTTPS client", "http2: server sent GOAWAY and closed the connection", "wsarecv", "wsasend",
	}
	// http.StatusText values: handleStatusText compares the error text of an https request with them
	statusPhrases = []string{
		"Bad Gateway", "Gateway Timeout", "Bad Request", "Forbidden", "Not Found", "Proxy Authentication Required",
		"Internal Server Error", "Service Unavailable", "Unavailable For Legal Reasons", "Request Timeout", "Loop Detected",
		"Too Many Requests", "Misdirected Request", "I'm a teapot", "HTTP Version Not Supported",
	}
	// log-format metacharacters, formatting verbs, quoting, escapes (as literal text), markup, non-ASCII
	metaPhrases = []string{
		"%s", "%d %v %+v %q", "%!s(MISSING)", "100%", "%n%n%n", "%x%x%x%x", "%%", "%[1]s", "%!(EXTRA string=x)",
		`"quoted"`, `"unterminated`, `a\"b`, `back\slash`, `\n\r\t`, `\x1b[31mred\x1b[0m`, `\u0000`, `C:\proxy\log`,
		`level=error msg="x"`, `msg=done error=`, `{"level":"error","msg":"x"}`, `[ERROR]`, `key=value;k2=v2`, `a=b&c=d`,
		"${HOME}", "$(id)", "`id`", "<script>alert(1)</script>", "&amp;", "#", "!", "*", "?", "|", "~", "^", "'", "''",
		"a\tb", "prøxy", "代理服务器", "прокси", "🚀", "é", "ｆｕｌｌｗｉｄｔｈ", "‮rtl", "HTTP/1.1 200 OK", "Via: 1.1 x", "X-Forwarder-Error: x",
		"GET / HTTP/1.1", "1.1", "1.0", "-", "--", "()", "((", "))", ")(",
	}
	textPseudonyms = []string{"edge", "proxy.example", "p:8080", "cache-7", "gw_1", "10.0.0.7", "[::1]:3128", "sq"}
	textWrappers   = []string{"%s", "%s", "last error: %s", "err=%s", "upstream said: %s", "%s; retry=1", "status %s", "(%s)", "a (b (%s)) c", `"%s"`, "%s (nested)", "x, %s", "%s, y"}
)

func allPhrases() []string {
	var out []string
	out = append(out, errorPhrases...)
	out = append(out, statusPhrases...)
	out = append(out, metaPhrases...)
	return out
}

var phrasesAll = allPhrases()

var textForms = []string{"comment", "comment", "comment", "wrapped", "wrapped", "pseudonym", "bare", "bare", "long", "quoted", "nested", "open"}

// textElementOf renders one foreign Via element carrying phrase in the given form.
func textElementOf(r *core.Rand, form, phrase string) string {
	pv := core.Pick(r, []string{"1.1", "1.1", "1.0", "2.0", "HTTP/1.1"})
	ps := core.Pick(r, textPseudonyms)
	var el string
	switch form {
	case "comment":
		el = pv + " " + ps + " (" + phrase + ")"
	case "wrapped":
		el = pv + " " + ps + " (" + strings.Replace(core.Pick(r, textWrappers), "%s", phrase, 1) + ")"
	case "pseudonym":
		// the phrase as the received-by token
		tok := strings.Map(func(c rune) rune {
			if c == ' ' || c == '\t' {
				return '_'
			}
			return c
		}, phrase)
		el = pv + " " + tok
	case "bare":
		// another hop's malformed element: the text alone (commas in it make several elements)
		el = phrase
	case "long":
		// a very long comment: the phrase somewhere in 1-4 KiB of filler
		n := core.Pick(r, []int{1000, 2000, 4000})
		fill := strings.Repeat(core.Pick(r, []string{"x", "ab ", "%s", "é", "(", "\\"}), n)
		fill = fill[:n-n%4]
		at := r.Intn(3)
		switch at {
		case 0:
			el = pv + " " + ps + " (" + phrase + " " + strings.TrimRight(fill, " ") + ")"
		case 1:
			el = pv + " " + ps + " (" + fill + phrase + ")"
		default:
			h := len(fill) / 2
			h -= h % 4
			el = pv + " " + ps + " (" + fill[:h] + phrase + fill[h:] + "x)"
		}
	case "quoted":
		el = pv + " " + ps + ` ("` + phrase + `")`
	case "nested":
		el = pv + " " + ps + " (a (b (" + phrase + ")) c)"
	default: // "open": an unterminated comment — the phrase is the last text of the element
		el = pv + " " + ps + " (" + phrase
	}
	return strings.Trim(el, " \t")
}

// genTextElement draws a foreign element whose comment / pseudonym / whole text is a phrase that some
// other part of the proxy interprets.
func genTextElement(r *core.Rand) string {
	return textElementOf(r, core.Pick(r, textForms), core.Pick(r, phrasesAll))
}

// foreignElement: an element of another hop — from the fixed list of well-formed ones, or one carrying
// interpreted text.
func foreignElement(r *core.Rand) string {
	if r.Chance(40) {
		return genTextElement(r)
	}
	return core.Pick(r, foreignElements)
}

// sweepChain: one chain case of the text sweep — phrase number i in mode, rendered in a drawn form, placed
// before / after / on both sides of the own element (own = true) or in a chain without it; plain origin-form,
// absolute-form (http, and https where the configuration dials the origin itself), CONNECT, inside the MITM session.
func sweepChain(r *core.Rand, mode, phrase string, own bool) *chainCase {
	cc := &chainCase{Kind: "chain", Mode: mode}
	id := fmt.Sprintf("t%d-%x", idSeq.Add(1), r.U64()&0xffffff)
	q := &reqmodel.Request{Minor: 1}
	if r.Chance(15) {
		q.Minor = 0
	}
	form := core.Pick(r, textForms)
	text := textElementOf(r, form, phrase)
	var els []string
	ownEl := core.Pick(r, []string{"1.1 ", "1.1 ", "1.0 "}) + phTag
	if !own {
		ownEl = core.Pick(r, []string{"1.1 " + proxyName + "-" + randHex(r, 20), "1.0 fred", "1.1 vegur"})
	}
	switch r.Intn(5) {
	case 0:
		els = []string{text, ownEl}
	case 1:
		els = []string{ownEl, text}
	case 2:
		els = []string{text, ownEl, textElementOf(r, core.Pick(r, textForms), phrase)}
	case 3:
		els = []string{core.Pick(r, foreignElements), text, ownEl, core.Pick(r, foreignElements)}
	default:
		els = []string{ownEl, core.Pick(r, foreignElements), text}
	}
	var via []rig.Field
	if len(els) > 1 && r.Chance(35) {
		cut := r.Range(1, len(els)-1)
		via = append(via, rig.Field{Name: core.Pick(r, viaSpellings), Value: strings.Join(els[:cut], ", ")},
			rig.Field{Name: core.Pick(r, viaSpellings), Value: strings.Join(els[cut:], ", ")})
	} else {
		via = append(via, rig.Field{Name: core.Pick(r, viaSpellings), Value: strings.Join(els, core.Pick(r, []string{", ", ", ", ","}))})
	}
	if r.Chance(25) {
		cc.Connect = true
		q.Method = "CONNECT"
		q.Path = "origin.test:80"
		if mode == "mitm" || r.Chance(30) {
			q.Path = "origin.test:443"
		}
		q.Fields = insertFields(r, []rig.Field{{Name: "Host", Value: q.Path}, {Name: "Case-Id", Value: id}}, via)
		cc.Request = q
		return cc
	}
	q.Method = core.Pick(r, []string{"GET", "GET", "GET", "POST", "HEAD"})
	q.Path = core.Pick(r, []string{"/", "/a/b", "/q"})
	scheme := "http"
	if mode == "mitm" {
		scheme = "https"
	}
	if r.Chance(40) || mode == "tls-up-https" {
		q.Absolute = true
		q.Scheme = scheme
		q.Authority = "origin.test"
		if httpsAbsoluteOK(mode) && r.Chance(50) {
			q.Scheme = "https"
		}
	}
	base := []rig.Field{{Name: "Host", Value: "origin.test"}, {Name: "Case-Id", Value: id}}
	if q.Method == "POST" {
		base = append(base, rig.Field{Name: "Content-Length", Value: "0"})
	}
	q.Fields = insertFields(r, base, via)
	cc.Request = q
	return cc
}

// httpsAbsoluteOK: configurations in which an `https://` absolute-form request is sent by the proxy itself
// (TLS to the origin) rather than through a CONNECT to an upstream proxy made by the transport.
func httpsAbsoluteOK(mode string) bool {
	return mode == "direct" || mode == "rules" || mode == "tls"
}

// countText counts what kinds of interpreted text a chain holds (input distribution).
func countText(ctx *core.Ctx, lines []string, cls string) {
	joined := strings.Join(lines, ", ")
	hit := func(ps []string) bool {
		for _, p := range ps {
			if len(p) > 2 && strings.Contains(joined, p) {
				return true
			}
		}
		return false
	}
	if hit(errorPhrases) {
		ctx.Count("chain-text/error-phrase/" + cls)
	}
	if hit(statusPhrases) {
		ctx.Count("chain-text/status-text/" + cls)
	}
	if strings.ContainsAny(joined, "%\\\"${}<>`") {
		ctx.Count("chain-text/metacharacters/" + cls)
	}
	for i := 0; i < len(joined); i++ {
		if joined[i] >= 0x80 {
			ctx.Count("chain-text/non-ascii/" + cls)
			break
		}
	}
	if len(joined) > 900 {
		ctx.Count("chain-text/long/" + cls)
	}
}
