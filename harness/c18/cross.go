package c18

// CONNECT cross-talk cases: 8–16 clients, released together, send CONNECT requests through ONE instance at the
// same time (a new connection per request, flat out). Every CONNECT has a target of its own and a Via chain built
// around a marker string no other client has (pseudonyms and comments; 1–3 elements on 1–2 field lines; some
// claim to have passed the instance already). The upstream proxy (http or https, plain or TLS listener) records
// every CONNECT head; only when all traffic is over are the heads judged:
//
//   - the head recorded for a target carries exactly the chain of THE request that named this target followed by
//     the instance's element — and no byte of another client's marker ("CONNECT head carries another exchange's
//     data", reported with both requests);
//   - a request whose chain holds the instance's element is answered 400 and no head with its target exists; every
//     other request is answered 200 and has exactly one head;
//   - every request against the model alone (`C18 connect` = Req.processConnect of that request: by
//     c18_connect_head_schedule_independent / c18_concurrent_connect_heads the schedule is irrelevant).
//
// Mode "loop": two instances X <-> A chained by http upstream-proxy links through recording relays, clients enter
// at both at once. Every loop must be cut at its first repetition under this load too: each request passes each
// instance exactly once (one head per relay with its target: chain + first element, chain + both elements) and is
// answered 400 (`C18 cloop`).

import (
	"fmt"
	"strings"
	"sync"
	"time"

	"github.com/saucelabs/forwarder/verifharness/core"
	"github.com/saucelabs/forwarder/verifharness/reqmodel"
	"github.com/saucelabs/forwarder/verifharness/rig"
)

type connRef struct {
	Client   int                  `json:"client"`
	Seq      int                  `json:"seq"`
	Entry    int                  `json:"entry,omitempty"` // loop: the instance the client entered at
	Request  *reqmodel.ConnectReq `json:"request"`
	Status   int                  `json:"status,omitempty"`
	Received []string             `json:"received_heads,omitempty"` // what the next hop(s) got under its target
}

type connCrossCase struct {
	Kind      string `json:"kind"` // "cconn"
	Mode      string `json:"mode"` // "upstream" | "up-https" | "tls-up-https" | "loop"
	Clients   int    `json:"clients"`
	PerClient int    `json:"per_client"`
	GenSeed   uint64 `json:"gen_seed"`
	// findings: the request judged and, for cross-talk, the request whose material showed up in its head
	Victim *connRef `json:"victim,omitempty"`
	Other  *connRef `json:"other,omitempty"`
}

const (
	clauseConnCross = "CONNECT head carries another exchange's data: the head an upstream proxy receives holds the chain of its own request followed by this instance's element, whatever other CONNECT requests are being dialled at that moment"
	clauseConnOnce  = "under concurrent CONNECT load every loop is still cut at its first repetition: a request passes each instance once"
)

func connMarker(r *core.Rand, i int) string {
	return fmt.Sprintf("zq%c%c%04xk", 'a'+byte(i/26), 'a'+byte(i%26), r.U64()&0xffff)
}

// genConnCross: all requests of a case, a function of the case alone. Own elements use the placeholder phTag.
func genConnCross(cc *connCrossCase) (markers []string, reqs [][]*reqmodel.ConnectReq) {
	r := core.NewRand(cc.GenSeed)
	for i := 0; i < cc.Clients; i++ {
		cr := r.Sub()
		m := connMarker(cr, i)
		markers = append(markers, m)
		var qs []*reqmodel.ConnectReq
		for n := 0; n < cc.PerClient; n++ {
			port := "443"
			if cc.Mode == "loop" {
				port = "80"
			}
			auth := fmt.Sprintf("h%sn%d.test:%s", m, n, port)
			q := &reqmodel.ConnectReq{Authority: auth, Minor: 1}
			if cr.Chance(12) {
				q.Minor = 0
			}
			var els []string
			for k, kn := 0, cr.Range(1, 3); k < kn; k++ {
				switch cr.Intn(4) {
				case 0:
					els = append(els, fmt.Sprintf("1.1 gw-%s-n%d", m, n))
				case 1:
					els = append(els, fmt.Sprintf("1.0 edge.%s.example (hop %s/%d)", m, m, n))
				case 2:
					els = append(els, fmt.Sprintf("1.1 %s-%s (%s)", proxyName, randHex(cr, 20), m))
				default:
					els = append(els, fmt.Sprintf("1.1 %s", m))
				}
			}
			if cc.Mode != "loop" && cr.Chance(12) {
				at := cr.Intn(len(els) + 1)
				els = append(els[:at], append([]string{core.Pick(cr, []string{"1.1 ", "1.0 "}) + phTag}, els[at:]...)...)
			}
			var via []rig.Field
			if len(els) > 1 && cr.Chance(40) {
				cut := cr.Range(1, len(els)-1)
				via = append(via, rig.Field{Name: "Via", Value: strings.Join(els[:cut], ", ")}, rig.Field{Name: core.Pick(cr, viaSpellings), Value: strings.Join(els[cut:], ", ")})
			} else {
				via = append(via, rig.Field{Name: core.Pick(cr, viaSpellings), Value: strings.Join(els, ", ")})
			}
			base := []rig.Field{{Name: "Host", Value: auth}, {Name: "Case-Id", Value: fmt.Sprintf("cx%s-%d", m, n)}}
			if cr.Chance(40) {
				base = append(base, rig.Field{Name: "User-Agent", Value: "client-" + m})
			}
			q.Fields = insertFields(cr, base, via)
			qs = append(qs, q)
		}
		reqs = append(reqs, qs)
	}
	return markers, reqs
}

func instantiateConnect(q *reqmodel.ConnectReq, tag string) *reqmodel.ConnectReq {
	c := *q
	c.Fields = make([]rig.Field, len(q.Fields))
	for i, f := range q.Fields {
		if strings.EqualFold(f.Name, "Via") {
			f.Value = strings.ReplaceAll(f.Value, phTag, tag)
		}
		c.Fields[i] = f
	}
	return &c
}

func connHasOwn(q *reqmodel.ConnectReq) bool {
	for _, l := range viaLinesOf(q.Fields) {
		if strings.Contains(l, phTag) {
			return true
		}
	}
	return false
}

// otherMarker: the first marker other than own that shows in s.
func otherMarker(s string, markers []string, own int) int {
	for i, m := range markers {
		if i != own && strings.Contains(s, m) {
			return i
		}
	}
	return -1
}

type connSent struct {
	status int
	err    error
}

// connHammer releases all clients together; client i sends its requests one after the other, each on a
// connection obtained from dial(i).
func connHammer(reqs [][]*reqmodel.ConnectReq, dial func(client int) (*rig.Client, error)) [][]connSent {
	out := make([][]connSent, len(reqs))
	start := make(chan struct{})
	var wg sync.WaitGroup
	for i := range reqs {
		out[i] = make([]connSent, len(reqs[i]))
		wg.Add(1)
		go func(i int) {
			defer wg.Done()
			<-start
			for n, q := range reqs[i] {
				c, err := dial(i)
				if err != nil {
					out[i][n].err = err
					continue
				}
				c.Send(q.Wire(), nil)
				res, err := c.ReadResponse("CONNECT", 15*time.Second)
				if err != nil || res == nil {
					out[i][n].err = fmt.Errorf("no response: %v", err)
				} else {
					out[i][n].status = res.Status
				}
				c.Close()
			}
		}(i)
	}
	time.Sleep(2 * time.Millisecond)
	close(start)
	wg.Wait()
	return out
}

func headText(m *rig.Msg) string {
	if m == nil {
		return "<no readable head>"
	}
	return strings.TrimRight(string(m.HeadBytes), "\r\n")
}

// ---------------------------------------------------------------------------------------------
// one instance, one upstream proxy

func (e *env) runConnCross(ctx *core.Ctx, cc *connCrossCase) {
	e.mu.Lock()
	defer e.mu.Unlock()
	markers, gen := genConnCross(cc)
	reqs := make([][]*reqmodel.ConnectReq, len(gen))
	wantHeads := 0
	for i := range gen {
		for _, q := range gen[i] {
			reqs[i] = append(reqs[i], instantiateConnect(q, e.cfg.Tag))
			if !connHasOwn(q) {
				wantHeads++
			}
		}
	}
	from := len(e.up.Log())
	sent := connHammer(reqs, func(int) (*rig.Client, error) { return e.open(false) })
	heads := func() map[string][]*rig.Msg {
		by := map[string][]*rig.Msg{}
		log := e.up.Log()
		for k := from; k < len(log); k++ {
			if log[k].Req != nil && log[k].Req.Method == "CONNECT" {
				by[log[k].Req.Target] = append(by[log[k].Req.Target], log[k].Req)
			}
		}
		return by
	}
	waitFor(func() bool {
		n := 0
		for _, hs := range heads() {
			n += len(hs)
		}
		return n >= wantHeads
	}, 500*time.Millisecond)
	time.Sleep(2 * time.Millisecond)
	by := heads()
	mctx := reqmodel.Ctx{ClientIP: "127.0.0.1", Secure: e.tls}
	reported := 0
	ref := func(i, n int) *connRef {
		r := &connRef{Client: i, Seq: n, Request: gen[i][n], Status: sent[i][n].status}
		for _, h := range by[gen[i][n].Authority] {
			r.Received = append(r.Received, headText(h))
		}
		return r
	}
	finding := func(i, n, other int) *connCrossCase {
		f := *cc
		f.Victim = ref(i, n)
		if other >= 0 {
			// the request of the other client that was on its way at the time: the one whose chain shows
			for k := range gen[other] {
				o := ref(other, k)
				if f.Other == nil || strings.Contains(strings.Join(f.Victim.Received, "\n"), fmt.Sprintf("n%d", k)) {
					f.Other = o
				}
			}
		}
		return &f
	}
	for i := range gen {
		for n, g := range gen[i] {
			q := reqs[i][n]
			own := connHasOwn(g)
			ctx.Case(fmt.Sprintf("cconn|%s|%s", cc.Mode, g.Wire()), true)
			ctx.Count("cconn/" + cc.Mode)
			if own {
				ctx.Count("cconn-own-element")
			}
			hs := by[q.Authority]
			var got []string
			if len(hs) > 0 {
				got = hs[0].Values("Via")
			}
			impl := fmt.Sprintf("client %d request %d (%d clients at once): status=%d err=%v heads-with-its-target=%d via-at-upstream=%q", i, n, cc.Clients, sent[i][n].status, sent[i][n].err, len(hs), got)
			if reported >= 4 {
				continue
			}
			// ---- the model: Req.processConnect of this request alone ----
			full := askConnect(ctx, &e.cfg, &mctx, q)
			agree := true
			switch {
			case full == "refused-400-loop":
				if sent[i][n].status != 400 || len(hs) != 0 {
					ctx.Disagree("a CONNECT among concurrent ones = Req.processConnect of that request alone (refused, nothing dialled)", finding(i, n, -1), impl, full)
					agree = false
				}
			case strings.HasPrefix(full, "tunnel:"):
				mv := core.UnHexList(strings.SplitN(full, ":", 3)[2])
				if sent[i][n].status != 200 || len(hs) != 1 || strings.Join(got, "\x00") != strings.Join(mv, "\x00") {
					ctx.Disagree("the head an upstream proxy receives for a CONNECT among concurrent ones = Req.processConnect of that request alone", finding(i, n, -1), impl, full)
					agree = false
				}
			default:
				ctx.Disagree("a generated CONNECT reaches the Via modifier", finding(i, n, -1), impl, full)
				agree = false
			}
			if agree {
				ctx.TraceValidated()
				continue
			}
			reported++
			// ---- the property on what the implementation did ----
			all := ""
			for _, h := range hs {
				all += headText(h) + "\n"
			}
			if o := otherMarker(all, markers, i); o >= 0 {
				ctx.SpecFail(clauseConnCross, "", finding(i, n, o), impl, fmt.Sprintf("the head recorded for target %s holds material of client %d (marker %s)", q.Authority, o, markers[o]))
				continue
			}
			switch {
			case own && len(hs) > 0:
				ctx.SpecFail("a refused request contacts no upstream", "", finding(i, n, -1), impl, "the chain holds the instance's element")
			case own && sent[i][n].status != 400:
				ctx.SpecFail(clause400, "", finding(i, n, -1), impl, "")
			case !own && sent[i][n].status == 400:
				ctx.SpecFail(clauseFwd, "", finding(i, n, -1), impl, "refused although its own chain holds only foreign elements (judged on a chain it did not send?)")
			case !own && len(hs) == 1:
				pv := fmt.Sprintf("1.%d", q.Minor)
				want := append(splitElements(strings.Join(viaLinesOf(q.Fields), ", ")), pv+" "+e.cfg.Tag)
				if strings.Join(splitElements(strings.Join(got, ", ")), "\x00") != strings.Join(want, "\x00") {
					ctx.SpecFail(clauseHop, "", finding(i, n, -1), impl, fmt.Sprintf("want elements %q", want))
				}
			case !own && len(hs) > 1:
				ctx.SpecFail(clauseConnOnce, "", finding(i, n, -1), impl, "")
			}
		}
	}
}

// ---------------------------------------------------------------------------------------------
// two instances in a CONNECT loop

type connLoopEnv struct {
	insts []*instance // X, A: each forwards to the other through its relay
	mu    sync.Mutex
}

func (le *connLoopEnv) close() {
	for _, in := range le.insts {
		if in.proxy != nil {
			in.proxy.Stop()
		}
		if in.next != nil {
			in.next.close()
		}
	}
}

func newConnLoopEnv() (*connLoopEnv, error) {
	le := &connLoopEnv{}
	fail := func(err error) (*connLoopEnv, error) { le.close(); return nil, err }
	var pts []*passThrough
	for k := 0; k < 2; k++ {
		pt, err := newPassThrough(fmt.Sprintf("cconn-relay-%d", k), 1<<40)
		if err != nil {
			return fail(err)
		}
		pts = append(pts, pt)
		in, err := startInstance("connect", pt, nil)
		if err != nil {
			pt.close()
			return fail(err)
		}
		le.insts = append(le.insts, in)
	}
	pts[0].target.Store(le.insts[1].proxy.Addr)
	pts[1].target.Store(le.insts[0].proxy.Addr)
	// the elements, learned from one CONNECT sent alone
	c, err := rig.Dial(le.insts[0].proxy.Addr)
	if err != nil {
		return fail(err)
	}
	defer c.Close()
	c.Send([]byte("CONNECT probe.test:80 HTTP/1.1\r\nHost: probe.test:80\r\n\r\n"), nil)
	if _, err := c.ReadResponse("CONNECT", 8*time.Second); err != nil {
		return fail(fmt.Errorf("probe: %w", err))
	}
	rs := pts[1].requests()
	if len(rs) == 0 || rs[0] == nil {
		return fail(fmt.Errorf("%w: the probe was not relayed by both instances", errChainLost))
	}
	els := splitElements(strings.Join(rs[0].Values("Via"), ", "))
	if len(els) != 2 {
		return fail(fmt.Errorf("%w: after two instances the probe carries Via %q", errChainLost, rs[0].Values("Via")))
	}
	for k, el := range els {
		f := strings.Fields(el)
		if len(f) != 2 {
			return fail(fmt.Errorf("%w: after two instances the probe carries Via %q", errChainLost, rs[0].Values("Via")))
		}
		le.insts[k].cfg.Tag = f[1]
	}
	return le, nil
}

func (le *connLoopEnv) runConnLoop(ctx *core.Ctx, cc *connCrossCase) {
	le.mu.Lock()
	defer le.mu.Unlock()
	for _, in := range le.insts {
		in.next.reset()
	}
	markers, gen := genConnCross(cc)
	total := 0
	for i := range gen {
		total += len(gen[i])
	}
	sent := connHammer(gen, func(i int) (*rig.Client, error) { return rig.Dial(le.insts[i%2].proxy.Addr) })
	waitFor(func() bool {
		return le.insts[0].next.count() >= int64(total) && le.insts[1].next.count() >= int64(total)
	}, 300*time.Millisecond)
	time.Sleep(2 * time.Millisecond)
	by := make([]map[string][]*rig.Msg, 2)
	for k, in := range le.insts {
		by[k] = map[string][]*rig.Msg{}
		for _, m := range in.next.requests() {
			if m != nil && m.Method == "CONNECT" {
				by[k][m.Target] = append(by[k][m.Target], m)
			}
		}
	}
	ref := func(i, n int) *connRef {
		r := &connRef{Client: i, Seq: n, Entry: i % 2, Request: gen[i][n], Status: sent[i][n].status}
		for k := 0; k < 2; k++ {
			for _, h := range by[(i+k)%2][gen[i][n].Authority] {
				r.Received = append(r.Received, fmt.Sprintf("relay of instance %d: %s", (i+k)%2, headText(h)))
			}
		}
		return r
	}
	finding := func(i, n, other int) *connCrossCase {
		f := *cc
		f.Victim = ref(i, n)
		if other >= 0 {
			for k := range gen[other] {
				o := ref(other, k)
				if f.Other == nil || strings.Contains(strings.Join(f.Victim.Received, "\n"), fmt.Sprintf("%sn%d", markers[other], k)) || strings.Contains(strings.Join(f.Victim.Received, "\n"), fmt.Sprintf("%s/%d", markers[other], k)) {
					f.Other = o
				}
			}
		}
		return &f
	}
	reported := 0
	for i := range gen {
		x, y := i%2, (i+1)%2
		for n, q := range gen[i] {
			ctx.Case(fmt.Sprintf("cconn|loop|%d|%s", x, q.Wire()), true)
			ctx.Count("cconn/loop")
			ctx.Count(fmt.Sprintf("cconn-loop-entry/%d", x))
			hx, hy := by[x][q.Authority], by[y][q.Authority]
			var gx, gy []string
			if len(hx) > 0 {
				gx = hx[0].Values("Via")
			}
			if len(hy) > 0 {
				gy = hy[0].Values("Via")
			}
			impl := fmt.Sprintf("client %d request %d entering at instance %d (%d clients at once, both entries): status=%d err=%v passes(instance %d)=%d via=%q passes(instance %d)=%d via=%q tags=%q",
				i, n, x, cc.Clients, sent[i][n].status, sent[i][n].err, x, len(hx), gx, y, len(hy), gy, []string{le.insts[0].cfg.Tag, le.insts[1].cfg.Tag})
			if reported >= 4 {
				continue
			}
			// ---- the model: the composed loop for this request alone (Model/C18.lean runConnectLoop) ----
			var toks []string
			for _, k := range []int{x, y} {
				toks = append(toks, cfgCtxTokens(&le.insts[k].cfg, &reqmodel.Ctx{ClientIP: "127.0.0.1"})...)
				toks = append(toks, "|")
			}
			a := ask(ctx, "cloop", append(append([]string{core.Itoa(2 * loopLimit)}, toks...), connectReqTokens(q)...)...)
			want := strings.Fields(a)[1:]
			agree := len(want) == 3 && want[2] == "refused-400-loop" && sent[i][n].status == 400 && len(hx) == 1 && len(hy) == 1
			if agree {
				for k, g := range [][]string{gx, gy} {
					f := strings.SplitN(want[k], ":", 3)
					if len(f) != 3 || f[0] != "tunnel" || strings.Join(core.UnHexList(f[2]), "\x00") != strings.Join(g, "\x00") {
						agree = false
					}
				}
			}
			if agree {
				ctx.TraceValidated()
				continue
			}
			reported++
			ctx.Disagree("a CONNECT loop among concurrent ones = Model.C18.runConnectLoop of that request alone (one pass per instance, then 400)", finding(i, n, -1), impl, strings.Join(want, " "))
			// ---- the property ----
			all := ""
			for _, h := range append(append([]*rig.Msg{}, hx...), hy...) {
				all += headText(h) + "\n"
			}
			if o := otherMarker(all, markers, i); o >= 0 {
				ctx.SpecFail(clauseConnCross, "", finding(i, n, o), impl, fmt.Sprintf("a head recorded for target %s holds material of client %d (marker %s)", q.Authority, o, markers[o]))
				continue
			}
			chain := splitElements(strings.Join(viaLinesOf(q.Fields), ", "))
			pv := fmt.Sprintf("1.%d", q.Minor)
			wx := append(append([]string{}, chain...), pv+" "+le.insts[x].cfg.Tag)
			wy := append(append([]string{}, wx...), "1.1 "+le.insts[y].cfg.Tag)
			switch {
			case len(hx) > 1 || len(hy) > 1:
				ctx.SpecFail(clauseConnOnce, "", finding(i, n, -1), impl, "a request passed an instance twice")
			case len(hx) == 0 || len(hy) == 0:
				if sent[i][n].status == 400 {
					ctx.SpecFail(clauseFwd, "", finding(i, n, -1), impl, "refused by an instance it had not passed")
				} else {
					ctx.Disagree("every instance the request has not passed yet forwards it", finding(i, n, -1), impl, "")
				}
			case strings.Join(splitElements(strings.Join(gx, ", ")), "\x00") != strings.Join(wx, "\x00"):
				ctx.SpecFail(clauseHop, "", finding(i, n, -1), impl, fmt.Sprintf("first pass: want elements %q", wx))
			case strings.Join(splitElements(strings.Join(gy, ", ")), "\x00") != strings.Join(wy, "\x00"):
				ctx.SpecFail(clauseHop, "", finding(i, n, -1), impl, fmt.Sprintf("second pass: want elements %q", wy))
			case sent[i][n].status != 400:
				ctx.SpecFail(clause400, "", finding(i, n, -1), impl, "")
			}
		}
	}
}

// genConnCrossCases draws the cases of a run.
func genConnCrossCases(ctx *core.Ctx) []*connCrossCase {
	var out []*connCrossCase
	r := ctx.Rng.Sub()
	modes := []string{"upstream", "up-https", "tls-up-https", "loop", "loop"}
	for rep, reps := 0, ctx.N(1, 6); rep < reps; rep++ {
		for _, m := range modes {
			cc := &connCrossCase{Kind: "cconn", Mode: m, Clients: r.Range(8, 16), PerClient: 3, GenSeed: r.U64() >> 11}
			if m == "loop" {
				cc.PerClient = 2
			}
			out = append(out, cc)
		}
	}
	return out
}
