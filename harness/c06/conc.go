package c06

// The concurrency family: ONE proxy instance serves many clients at the same time. The targets of the requests in
// flight differ in what the configuration says about them (a --credentials entry for one, another entry or none for the
// next; a PAC script that selects a different upstream proxy — with credentials of its own, or none — per target), and
// every message head every hop reads is attributed to the request it was written for and judged by the model's answer
// for THAT request: what a hop is sent depends on the configuration and on that request, never on what else is in flight.
// The exported CredentialsMatcher is driven the same way (many goroutines, lookups whose answers differ).

import (
	"encoding/json"
	"fmt"
	"net"
	"net/http"
	"net/url"
	"sort"
	"strings"
	"sync"
	"sync/atomic"
	"time"

	"github.com/saucelabs/forwarder"
	"github.com/saucelabs/forwarder/log"
	"github.com/saucelabs/forwarder/verifharness/core"
	"github.com/saucelabs/forwarder/verifharness/reqmodel"
	"github.com/saucelabs/forwarder/verifharness/rig"
)

type concCase struct {
	Kind      string            `json:"kind"` // "conc"
	Route     reqmodel.RouteCfg `json:"route"`
	Creds     []reqmodel.Cred   `json:"creds"`
	Gate      bool              `json:"gate,omitempty"`
	MITM      bool              `json:"mitm,omitempty"`
	CRules    []string          `json:"connect_rules,omitempty"`
	Pool      []creq            `json:"pool"` // the distinct requests; each sending gets a Case-Id of its own
	Clients   int               `json:"clients"`
	PerClient int               `json:"per_client"`
	Rounds    int               `json:"rounds"`
	Sched     uint64            `json:"sched"`                // seed of the clients' draws from the pool
	KeepAlive bool              `json:"keep_alive,omitempty"` // clients and the proxy's transport reuse their connections
	Failing   *creq             `json:"failing,omitempty"`    // the request (as sent) a finding is about
	Note      string            `json:"note,omitempty"`
}

var concSeq atomic.Int64

// the targets of the family: host, port of the plain form, port of the TLS form
var concTargets = []struct{ host, plain, tls string }{
	{"origin.test", "80", "443"}, {"other.test", "80", "443"}, {"secure.test", "80", "443"}, {"fourth.test", "80", "443"},
	{"origin.test", "8080", "443"}, {"secure.test", "80", "8443"},
}

// genConc draws a configuration under which the targets differ: a PAC family (different upstream proxies with different
// credentials, or none, per target), a static upstream proxy, or none; a credentials table with an exact entry for some
// target host:port, a wildcard entry for others and nothing for the rest.
func genConc(r *core.Rand, quick, hot bool) *concCase {
	cc := &concCase{Kind: "conc", Gate: r.Chance(20), MITM: r.Chance(35), Sched: r.U64()}
	if hot {
		// the busy instance: nothing but plain requests over reused connections, as many per second as the machine gives
		cc.Gate, cc.MITM = false, false
	}
	tmp := &ccase{}
	label := ""
	switch r.Intn(10) {
	case 0, 1, 2, 3, 4:
		for try := 0; ; try++ {
			*tmp = ccase{}
			_, label = genFamily(r, tmp)
			fcProbe := reqmodel.FullCfg{Route: tmp.Route, Creds: tmp.Creds}
			socks := false
			for _, m := range upstreamFamily(&fcProbe) {
				socks = socks || m.scheme == "socks5"
			}
			if !hot || !socks || try > 20 {
				break
			}
		}
		cc.Route, cc.Creds = tmp.Route, tmp.Creds
	case 5, 6:
		genUpstream(r, &cc.Route)
		if hot {
			cc.Route = reqmodel.RouteCfg{Base: "static", Static: &reqmodel.ProxyURL{Scheme: "http", Host: "proxya.test:3128"}}
		}
		label = "conc-" + cc.Route.Base
	default:
		cc.Route.Base = "none"
		label = "conc-direct"
	}
	// site entries: some targets get one, the others none (an entry already drawn for a proxy of the family stays)
	seen := map[string]bool{}
	for _, c := range cc.Creds {
		seen[c.Host+"|"+c.Port] = true
	}
	add := func(c reqmodel.Cred) {
		if k := c.Host + "|" + c.Port; !seen[k] {
			seen[k] = true
			cc.Creds = append(cc.Creds, c)
		}
	}
	ts := append([]struct{ host, plain, tls string }(nil), concTargets...)
	core.Shuffle(r, ts)
	nWith := r.Range(1, 3)
	for i := 0; i < nWith; i++ {
		c := reqmodel.Cred{User: fmt.Sprintf("site%d-%d", i, r.Intn(1000)), Pass: core.Pick(r, []string{"pw", "p:w", "se cret", "x%y"}) + fmt.Sprint(r.Intn(100))}
		port := ts[i].plain
		if cc.MITM || r.Chance(30) {
			port = core.Pick(r, []string{ts[i].plain, ts[i].tls})
		}
		switch r.Intn(6) {
		case 0:
			c.Host, c.Port = ts[i].host, "0"
		case 1:
			c.Host, c.Port = "*", port
		default:
			c.Host, c.Port = ts[i].host, port
		}
		add(c)
	}
	core.Shuffle(r, cc.Creds)
	if r.Chance(10) {
		cc.CRules = core.Pick(r, [][]string{{"X-Conn-Rule: yes"}, {"User-Agent: connect-agent/1"}})
	}
	// the pool: two or three targets that keep meeting each other, or all of them, in the forms the configuration allows
	if r.Bool() {
		ts = ts[:r.Range(2, 3)]
	}
	for _, t := range ts {
		forms := []string{"plain"}
		if hot {
		} else if cc.MITM {
			forms = append(forms, "inner")
		} else if r.Chance(60) {
			forms = append(forms, "connect")
		}
		for _, form := range forms {
			id := fmt.Sprintf("c06t-%d", idSeq.Add(1))
			fs, lab := genClientFields(r, cc.Gate, id)
			if hot {
				fs, lab = []rig.Field{{Name: "Case-Id", Value: id}}, "hot"
				if r.Chance(25) {
					fs = append(fs, rig.Field{Name: "Authorization", Value: "Bearer client-" + id})
				}
				if r.Chance(25) {
					fs = append(fs, rig.Field{Name: "Proxy-Authorization", Value: "Basic " + reqmodel.BasicValue("cli-"+id, "pw")[6:]})
				}
			}
			q := creq{Kind: form, Method: core.Pick(r, []string{"GET", "GET", "POST", "HEAD"}), Fields: fs, Label: lab + "," + label}
			switch form {
			case "plain":
				q.Authority = t.host + ":" + t.plain
				if t.plain == "80" && r.Bool() {
					q.Authority = t.host
				}
				q.Absolute = r.Chance(40)
			case "inner":
				q.Authority = t.host + ":" + t.tls
				if t.tls == "443" && r.Bool() {
					q.Authority = t.host
				}
				q.Absolute = r.Chance(25)
			case "connect":
				q.Method = "CONNECT"
				q.Authority = t.host + ":" + t.tls
			}
			q.frame()
			cc.Pool = append(cc.Pool, q)
		}
	}
	cc.Clients = core.Pick(r, []int{16, 24, 32, 48, 64})
	// connections are reused when every request then still shows at the hops on its own: no intercepted requests (the
	// transport's CONNECT is made once per connection) and no SOCKS5 proxy (one SOCKS5 request per connection)
	cc.KeepAlive = !cc.MITM && (hot || r.Chance(70))
	fcProbe := reqmodel.FullCfg{Route: cc.Route, Creds: cc.Creds}
	for _, m := range upstreamFamily(&fcProbe) {
		if m.scheme == "socks5" {
			cc.KeepAlive = false
		}
	}
	cc.Rounds = 3
	if hot {
		cc.Rounds = 4
	}
	total := 1500
	if !quick {
		total = 4000
	}
	if hot {
		total = 32000
		cc.Clients = core.Pick(r, []int{16, 32})
	}
	cc.PerClient = total / cc.Rounds / cc.Clients
	return cc
}

// sending: one request as sent by a client of the family, and what came of it.
type sending struct {
	seq    int64
	tmpl   int
	q      creq
	id     string
	status int
	err    string
	ob     observed
}

func (q *creq) withCaseID(id string) creq {
	c := *q
	c.Fields = append([]rig.Field(nil), q.Fields...)
	for i := range c.Fields {
		if c.Fields[i].Name == "Case-Id" {
			c.Fields[i].Value = id
		}
	}
	return c
}

type triple struct{ peer, method, target string }

func caseIDOf(q *creq) string {
	for _, f := range q.Fields {
		if f.Name == "Case-Id" {
			return f.Value
		}
	}
	return ""
}

func replaceCaseID(m map[string][]string, old, id string) map[string][]string {
	vs, ok := m["case-id"]
	if !ok {
		return m
	}
	c := make(map[string][]string, len(m))
	for k, v := range m {
		c[k] = v
	}
	nv := make([]string, len(vs))
	for i, v := range vs {
		if v == old {
			v = id
		}
		nv[i] = v
	}
	c["case-id"] = nv
	return c
}

// withCaseIDOutcome: the model's answer for a request of the pool as its answer for a sending of it (the Case-Id value
// replaced wherever the model copied the field).
func withCaseIDOutcome(o *reqmodel.Outcome, old, id string) reqmodel.Outcome {
	c := *o
	c.Fields = replaceCaseID(o.Fields, old, id)
	c.ErrBuilt = replaceCaseID(o.ErrBuilt, old, id)
	c.ErrRecv = replaceCaseID(o.ErrRecv, old, id)
	c.Actions = make([]reqmodel.Action, len(o.Actions))
	for i, a := range o.Actions {
		a.Sent = append([]reqmodel.Sent(nil), a.Sent...)
		for j := range a.Sent {
			a.Sent[j].Fields = replaceCaseID(a.Sent[j].Fields, old, id)
		}
		c.Actions[i] = a
	}
	return c
}

func runConc(ctx *core.Ctx, h *hops, cc *concCase) {
	fc := reqmodel.FullCfg{
		Base:  reqmodel.Cfg{Name: "fwdverif", Tag: "unknown-tag", TimeAllowed: true, LocalNames: []string{"localhost", "0.0.0.0", "::"}, MITM: cc.MITM, ConnectRules: cc.CRules},
		Route: cc.Route,
		Creds: cc.Creds,
	}
	if cc.Gate {
		fc.Base.HasAuth, fc.Base.AuthUser, fc.Base.AuthPass = true, gateUser, gatePass
	}
	asCase := &ccase{Kind: "creds", Route: cc.Route, Creds: cc.Creds, Gate: cc.Gate, MITM: cc.MITM, CRules: cc.CRules}
	report := func(q *creq, note string) any {
		c := *cc
		c.Failing, c.Note = q, note
		return c
	}
	opts, err := reqmodel.ProxyOpts(&fc, nil, h.routes(), []string{h.caFile})
	if err != nil {
		ctx.Crash("proxy starts with a valid configuration", "", cc, err.Error())
		return
	}
	if cc.KeepAlive {
		post := opts.PostTransport
		opts.PostTransport = func(rt *http.Transport) {
			post(rt)
			rt.DisableKeepAlives, rt.MaxIdleConnsPerHost = false, 256
		}
	}
	p, err := rig.StartProxy(opts)
	if err != nil {
		ctx.Crash("proxy starts with a valid configuration", "", cc, err.Error())
		return
	}
	defer p.Stop()

	// per request of the pool: the heads without a Case-Id (the transport's own CONNECT to the upstream proxy) and the
	// SOCKS5 requests the model asks for — identical for every sending of that request
	anonWants := make([]map[triple]int, len(cc.Pool))
	tmplOut := make([]reqmodel.Outcome, len(cc.Pool))
	tmplScheme := make([]string, len(cc.Pool))
	socksWants := make([]map[string]int, len(cc.Pool))
	answersDiffer := map[string]bool{}
	for i := range cc.Pool {
		q := &cc.Pool[i]
		out, scheme := askModel(ctx, &fc, q)
		tmplOut[i], tmplScheme[i] = out, scheme
		wants, ws := modelWants(&out, q, scheme)
		anonWants[i], socksWants[i] = map[triple]int{}, map[string]int{}
		sig := out.Kind
		for _, w := range wants {
			if _, ok := w.s.Fields["case-id"]; !ok {
				anonWants[i][triple{w.peer, w.s.Method, w.s.Target}]++
			}
			sig += "|" + w.peer + "|" + strings.Join(w.s.Fields["authorization"], ",") + "|" + strings.Join(w.s.Fields["proxy-authorization"], ",")
		}
		for _, a := range ws {
			if socksAt[a.HopAddr] && a.SocksTarget != nil {
				socksWants[i][*a.SocksTarget]++
				sig += "|socks"
				if a.SocksUser != nil {
					sig += *a.SocksUser
				}
			}
		}
		answersDiffer[sig] = true
	}
	ctx.Count(fmt.Sprintf("conc/instances/base-%s", cc.Route.Base))
	if len(answersDiffer) > 1 {
		ctx.Count("conc/instances-whose-targets-differ-in-credentials")
	}
	ctx.CountN("conc/clients", cc.Clients)
	tallied := make([]atomic.Bool, len(cc.Pool))

	before := ctx.NumFindings()
	for round := 0; round < cc.Rounds; round++ {
		h.reset()
		sent := make([][]*sending, cc.Clients)
		var wg sync.WaitGroup
		start := make(chan struct{})
		for c := 0; c < cc.Clients; c++ {
			wg.Add(1)
			go func(c int) {
				defer wg.Done()
				r := core.NewRand(cc.Sched ^ uint64(round*1000+c+1)*0x9e3779b97f4a7c15)
				var tunnel, plain *rig.Client // the client's intercepted session; its reused connection
				defer func() {
					if tunnel != nil {
						tunnel.Close()
					}
					if plain != nil {
						plain.Close()
					}
				}()
				<-start
				for k := 0; k < cc.PerClient; k++ {
					ti := r.Intn(len(cc.Pool))
					seq := concSeq.Add(1)
					id := fmt.Sprintf("c06c-%d", seq)
					s := &sending{seq: seq, tmpl: ti, id: id, q: cc.Pool[ti].withCaseID(id)}
					sent[c] = append(sent[c], s)
					var cl *rig.Client
					var err error
					reuse := cc.KeepAlive && s.q.Kind == "plain"
					switch {
					case s.q.Kind == "inner":
						if tunnel == nil {
							if tunnel, err = openTunnel(p.Addr, cc.Gate); err != nil {
								tunnel = nil
								s.err = "intercepted tunnel: " + err.Error()
								continue
							}
						}
						cl = tunnel
					case reuse && plain != nil:
						cl = plain
					default:
						if cl, err = rig.Dial(p.Addr); err != nil {
							s.err = "dial: " + err.Error()
							continue
						}
						if reuse {
							plain = cl
						}
					}
					cl.Send(s.q.wire(), nil)
					res, rerr := cl.ReadResponse(s.q.Method, 15*time.Second)
					if rerr != nil {
						s.err = rerr.Error()
					} else {
						s.status = res.Status
					}
					switch {
					case s.q.Kind == "inner":
						if rerr != nil || hasClose(res) {
							tunnel.Close()
							tunnel = nil
						}
					case reuse:
						if rerr != nil || hasClose(res) {
							plain.Close()
							plain = nil
						}
					default:
						cl.Close()
					}
				}
			}(c)
		}
		close(start)
		wg.Wait()
		settle(h)

		// attribute every head to the request it was written for
		byID := map[string]*sending{}
		var all []*sending
		for _, l := range sent {
			for _, s := range l {
				s.ob.Status, s.ob.Err = s.status, s.err
				byID[s.id] = s
				all = append(all, s)
			}
		}
		var anon []head
		for name, peer := range h.peers() {
			for _, ex := range peer.Log() {
				if ex.Req == nil || ex.Err != nil {
					continue
				}
				hd := head{Peer: name, Method: ex.Req.Method, Target: ex.Req.Target, Fields: ex.Req.FieldMap()}
				if ids := hd.Fields["case-id"]; len(ids) == 1 && byID[ids[0]] != nil {
					s := byID[ids[0]]
					s.ob.Heads = append(s.ob.Heads, hd)
					continue
				}
				anon = append(anon, hd)
			}
		}
		room := map[triple][]*sending{} // sendings whose model asks for a head without Case-Id, per (hop, method, target)
		sroom := map[string][]*sending{}
		for _, s := range all {
			if s.err != "" {
				continue
			}
			for t, n := range anonWants[s.tmpl] {
				for ; n > 0; n-- {
					room[t] = append(room[t], s)
				}
			}
			for t, n := range socksWants[s.tmpl] {
				for ; n > 0; n-- {
					sroom[t] = append(sroom[t], s)
				}
			}
		}
		for _, hd := range anon {
			t := triple{hd.Peer, hd.Method, hd.Target}
			if l := room[t]; len(l) > 0 {
				l[0].ob.Heads = append(l[0].ob.Heads, hd)
				room[t] = l[1:]
				continue
			}
			b := observed{Heads: []head{hd}}
			ctx.Disagree("every message head a hop reads was written for a request whose Model answer asks for it", report(nil, "requests in flight together"), b.String(), "no such head")
		}
		for _, sr := range h.socks.Requests() {
			if l := sroom[sr.Target]; len(l) > 0 {
				l[0].ob.Socks = append(l[0].ob.Socks, sr)
				sroom[sr.Target] = l[1:]
				continue
			}
			b := observed{Socks: []rig.SocksRequest{sr}}
			ctx.Disagree("every SOCKS5 request was made for a request whose Model answer asks for it", report(nil, "requests in flight together"), b.String(), "no such request")
		}

		// judge every request on its own
		jobs := make(chan *sending, 64)
		var jw sync.WaitGroup
		for w := 0; w < 8; w++ {
			jw.Add(1)
			go func() {
				defer jw.Done()
				for s := range jobs {
					sort.SliceStable(s.ob.Heads, func(a, b int) bool { return s.ob.Heads[a].Peer < s.ob.Heads[b].Peer })
					tally := tallied[s.tmpl].CompareAndSwap(false, true)
					// the model is asked once per request of the pool: a sending differs from it in the value of Case-Id only,
					// which the model copies; one sending in 64 is put to the model as sent, to hold that against it
					out := withCaseIDOutcome(&tmplOut[s.tmpl], caseIDOf(&cc.Pool[s.tmpl]), s.id)
					if tally || s.seq%64 == 0 {
						fresh, _ := askModel(ctx, &fc, &s.q)
						a, _ := json.Marshal(fresh)
						b, _ := json.Marshal(out)
						if string(a) != string(b) {
							core.Fatalf("C06 conc: the model's answer for a sending is not its answer for the pool's request with the Case-Id replaced:\n%s\n%s", a, b)
						}
						ctx.Count("conc/sendings-put-to-the-model-as-sent")
					}
					judgeWith(ctx, &fc, asCase, report(&s.q, "requests in flight together"), &s.q, &s.ob, nil, tally, out, tmplScheme[s.tmpl])
					ctx.Count("conc/requests-judged")
					ctx.Count("conc/kind/" + s.q.Kind)
				}
			}()
		}
		for _, s := range all {
			jobs <- s
		}
		close(jobs)
		jw.Wait()
		if ctx.NumFindings() > before {
			return
		}
	}
}

// ---- the exported matcher with lookups in flight at the same time ----

type concMatcherCase struct {
	Kind    string          `json:"kind"` // "matcher-conc"
	Creds   []reqmodel.Cred `json:"creds"`
	Items   []lookup        `json:"items"`
	Workers int             `json:"workers"`
	Each    int             `json:"each"`
	Failing *lookup         `json:"failing,omitempty"`
}

// runMatcherConc: one matcher, many goroutines, each looks the items up over and over in an order of its own; every
// answer must be the model's answer for that lookup (asked once per item).
func runMatcherConc(ctx *core.Ctx, mc *concMatcherCase) {
	var hpus []*forwarder.HostPortUser
	for _, c := range mc.Creds {
		hpus = append(hpus, &forwarder.HostPortUser{HostPort: forwarder.HostPort{Host: c.Host, Port: c.Port}, Userinfo: url.UserPassword(c.User, c.Pass)})
	}
	m, err := forwarder.NewCredentialsMatcher(hpus, log.NopLogger)
	if err != nil {
		return // rejected tables are the sequential check's
	}
	var items []string
	for _, it := range mc.Items {
		if it.URL {
			items = append(items, core.JoinList([]string{"u", core.HexS(it.Scheme), core.HexS(it.Host)}))
		} else {
			items = append(items, core.JoinList([]string{"h", core.HexS(it.HostPort)}))
		}
	}
	ans := ctx.Model.MustAsk("C06", "matchmany", reqmodel.CredsToken(mc.Creds), core.JoinList2(items))
	if ans == "rejected" {
		return
	}
	want := core.SplitList2(strings.TrimPrefix(ans, "many "))
	if len(want) != len(mc.Items) {
		core.Fatalf("matchmany: %d answers for %d items", len(want), len(mc.Items))
	}
	distinct := map[string]bool{}
	for _, w := range want {
		distinct[w] = true
	}
	ctx.Case(fmt.Sprintf("matcher-conc|%+v|%+v", mc.Creds, mc.Items), len(mc.Creds) > 0)
	ctx.Count("api/matcher-concurrent-tables")
	if len(distinct) > 1 {
		ctx.Count("api/matcher-concurrent-tables-with-differing-answers")
	}
	var wg sync.WaitGroup
	var reported atomic.Bool
	var done atomic.Int64
	start := make(chan struct{})
	for w := 0; w < mc.Workers; w++ {
		wg.Add(1)
		go func(w int) {
			defer wg.Done()
			defer func() {
				if e := recover(); e != nil && reported.CompareAndSwap(false, true) {
					ctx.Crash("the matcher never panics", "", mc, fmt.Sprint(e))
				}
			}()
			r := core.NewRand(uint64(w+1) * 0x9e3779b97f4a7c15)
			<-start
			for k := 0; k < mc.Each && !reported.Load(); k++ {
				i := r.Intn(len(mc.Items))
				it := mc.Items[i]
				var impl string
				if it.URL {
					impl = credString(m.MatchURL(&url.URL{Scheme: it.Scheme, Host: it.Host}))
				} else {
					impl = credString(m.Match(it.HostPort))
				}
				done.Add(1)
				if impl != want[i] && reported.CompareAndSwap(false, true) {
					c := *mc
					c.Failing = &it
					ctx.Disagree("CredentialsMatcher.Match/MatchURL with other lookups in flight = Model matchHostport/matchURL of that lookup alone", c, impl, want[i])
					// the clause itself: the answer belongs to another lookup's host:port
					if !it.URL {
						if hst, prt, err := net.SplitHostPort(it.HostPort); err == nil {
							spec := "none"
							if sc := specMatch(mc.Creds, hst, prt); sc != nil {
								spec = "ok," + core.HexS(sc.User) + "," + core.HexS(sc.Pass)
							}
							if impl != spec && !strings.ContainsAny(hst, "[]") {
								ctx.SpecFail("lookup precedence: exact host:port, then *:port, then host:*, then *:* — of the host:port asked for, whatever else is being looked up", "", c, impl, spec)
							}
						}
					}
				}
			}
		}(w)
	}
	close(start)
	wg.Wait()
	ctx.CountN("api/matcher-concurrent-lookups", int(done.Load()))
	if !reported.Load() {
		ctx.TraceValidated()
	}
}

func matcherConcAPI(ctx *core.Ctx) {
	tables := ctx.N(40, 200)
	for i := 0; i < tables; i++ {
		r := ctx.Rng.Sub()
		mc := &concMatcherCase{Kind: "matcher-conc", Creds: genCreds(r, false), Workers: core.Pick(r, []int{4, 8, 16, 32}), Each: 4000}
		if len(mc.Creds) == 0 {
			mc.Creds = []reqmodel.Cred{{Host: "origin.test", Port: "80", User: "u1", Pass: "pw"}}
		}
		// few items, so that one host:port is looked up again while the lookup before it is still under way
		n := r.Range(2, 5)
		for j := 0; j < n; j++ {
			if j < len(mc.Creds) && r.Chance(60) && mc.Creds[j].Host != "*" && mc.Creds[j].Port != "0" {
				mc.Items = append(mc.Items, lookup{HostPort: net.JoinHostPort(mc.Creds[j].Host, mc.Creds[j].Port)})
				continue
			}
			mc.Items = append(mc.Items, genLookup(r))
		}
		runMatcherConc(ctx, mc)
	}
}

func concFamily(ctx *core.Ctx) {
	n := ctx.N(5, 15)
	h, err := newHops(ctx, 77)
	if err != nil {
		core.Fatalf("cannot start scripted hops: %v", err)
	}
	defer h.close()
	for i := 0; i < n; i++ {
		r := ctx.Rng.Sub()
		cc := genConc(r, ctx.Quick(), i%2 == 0)
		if i == 0 {
			ctx.Sample(cc)
		}
		runConc(ctx, h, cc)
	}
}
