package c06

import (
	"encoding/json"
	"fmt"
	"net/url"
	"strings"
	"sync/atomic"

	"github.com/saucelabs/forwarder"
	"github.com/saucelabs/forwarder/log"
	"github.com/saucelabs/forwarder/verifharness/core"
	"github.com/saucelabs/forwarder/verifharness/reqmodel"
	"github.com/saucelabs/forwarder/verifharness/rig"
)

var idSeq atomic.Int64

var (
	credHosts = []string{"origin.test", "origin.test", "secure.test", "other.test", "proxya.test", "proxyb.test", "socks.test", "*", "*", "::1", "10.0.0.1"}
	credPorts = []string{"80", "443", "8080", "8443", "3128", "3129", "1080", "0", "0"}
)

func genCreds(r *core.Rand, allowDup bool) []reqmodel.Cred {
	n := r.Range(0, 7)
	if r.Chance(15) {
		n = 0
	}
	var out []reqmodel.Cred
	seen := map[string]bool{}
	for i := 0; i < n; i++ {
		c := reqmodel.Cred{Host: core.Pick(r, credHosts), Port: core.Pick(r, credPorts),
			User: fmt.Sprintf("u%d", r.Intn(1000)), Pass: core.Pick(r, []string{"pw", "p:w", "", "se cret", "x%y"}) + fmt.Sprint(r.Intn(100))}
		k := c.Host + "|" + c.Port
		if seen[k] && !allowDup {
			continue
		}
		seen[k] = true
		out = append(out, c)
	}
	return out
}

func strp(s string) *string { return &s }

func genUpstream(r *core.Rand, rc *reqmodel.RouteCfg) {
	switch r.Intn(10) {
	case 0, 1:
		rc.Base = "none"
	case 2, 3, 4:
		rc.Base = "static"
		rc.Static = &reqmodel.ProxyURL{Scheme: "http", Host: "proxya.test:3128"}
		if r.Chance(50) {
			rc.Static.User, rc.Static.Pass = strp("upuser"), strp(core.Pick(r, []string{"up:pa ss%", "uppw", ""}))
		}
	case 5:
		rc.Base = "static"
		rc.Static = &reqmodel.ProxyURL{Scheme: "https", Host: "proxyb.test:3129"}
		if r.Chance(50) {
			rc.Static.User, rc.Static.Pass = strp("tlsuser"), strp("tlspw")
		}
	case 6:
		rc.Base = "static"
		rc.Static = &reqmodel.ProxyURL{Scheme: "socks5", Host: "socks.test:1080"}
		if r.Chance(50) {
			rc.Static.User, rc.Static.Pass = strp("suser"), strp("spw")
		}
	default:
		rc.Base = "pac"
		pick := func() reqmodel.PacResult {
			return reqmodel.PacResult{Return: core.Pick(r, []string{"PROXY proxya.test:3128", "PROXY proxya.test:3128; DIRECT", "HTTP proxya.test:3128", "HTTPS proxyb.test:3129",
				"SOCKS5 socks.test:1080", "DIRECT", ""})}
		}
		rc.PacDefault = pick()
		for _, h := range []string{"origin.test", "secure.test", "other.test"} {
			if r.Chance(40) {
				rc.PacTable = append(rc.PacTable, reqmodel.PacEntry{Host: h, R: pick()})
			}
		}
	}
}

func randCase(r *core.Rand, s string) string {
	b := []byte(s)
	for i := range b {
		if r.Bool() {
			if b[i] >= 'a' && b[i] <= 'z' {
				b[i] -= 32
			} else if b[i] >= 'A' && b[i] <= 'Z' {
				b[i] += 32
			}
		}
	}
	return string(b)
}

// genClientFields draws the credential-bearing header shapes of a client request.
func genClientFields(r *core.Rand, gate bool, id string) ([]rig.Field, string) {
	fs := []rig.Field{{Name: "Case-Id", Value: id}}
	var labels []string
	// Proxy-Authorization
	first := "Basic " + reqmodel.BasicValue("cli-"+id, "pw")[6:]
	if gate {
		first = gateValue()
	}
	shape := r.Intn(6)
	if gate && shape == 0 {
		shape = 1
	}
	name := "Proxy-Authorization"
	switch shape {
	case 0:
		labels = append(labels, "pa-absent")
	case 1:
		fs = append(fs, rig.Field{Name: name, Value: first})
		labels = append(labels, "pa-single")
	case 2:
		fs = append(fs, rig.Field{Name: name, Value: first}, rig.Field{Name: name, Value: "Basic " + reqmodel.BasicValue("second-"+id, "x")[6:]})
		labels = append(labels, "pa-repeated")
	case 3:
		fs = append(fs, rig.Field{Name: randCase(r, name), Value: first}, rig.Field{Name: randCase(r, name), Value: "Bearer tok-" + id})
		labels = append(labels, "pa-mixed-case")
	case 4:
		fs = append(fs, rig.Field{Name: name, Value: first}, rig.Field{Name: "Connection", Value: core.Pick(r, []string{"Proxy-Authorization", "proxy-authorization, X-Other", "keep-alive, PROXY-AUTHORIZATION"})})
		labels = append(labels, "pa-nominated")
	case 5:
		fs = append(fs, rig.Field{Name: strings.ToLower(name), Value: first}, rig.Field{Name: "Proxy-Connection", Value: "keep-alive"})
		labels = append(labels, "pa-lower")
	}
	// Authorization
	switch r.Intn(5) {
	case 0:
		fs = append(fs, rig.Field{Name: "Authorization", Value: "Bearer client-" + id})
		labels = append(labels, "auth-client")
	case 1:
		fs = append(fs, rig.Field{Name: "Authorization", Value: ""})
		labels = append(labels, "auth-empty")
	case 2:
		if r.Chance(30) {
			fs = append(fs, rig.Field{Name: "authorization", Value: "Basic " + reqmodel.BasicValue("me", "mine")[6:]}, rig.Field{Name: "Authorization", Value: "Bearer two"})
			labels = append(labels, "auth-client-repeated")
		} else {
			labels = append(labels, "auth-absent")
		}
	default:
		labels = append(labels, "auth-absent")
	}
	if r.Chance(30) {
		fs = append(fs, rig.Field{Name: "User-Agent", Value: "client/1"})
	}
	if r.Chance(30) {
		fs = append(fs, rig.Field{Name: "X-Custom", Value: "v"})
	}
	// a protocol upgrade (Upgrade + Connection: Upgrade, token lists in every spelling) whose Connection field
	// nominates further names: Proxy-Authorization, Authorization, Proxy-Connection, Keep-Alive, TE, the standard
	// hop-by-hop set, custom names; the nominated fields are present (several values, odd spellings)
	upgrade := r.Chance(30)
	// otherwise, in nearly half of the requests, the shared Connection-field dimension: the shape of the Connection field
	// (absent, a lone keep-alive / close as most clients send it, other lone options, several options, several lines,
	// empty) crossed with the presence of each field of the fixed hop-by-hop list, next to the credential shapes above
	connShape := !upgrade && r.Chance(45)
	if connShape {
		fs = append(fs, reqmodel.GenConnShape(r, reqmodel.ConnShapeOpts{ID: id, AllowClose: true})...)
		labels = append(labels, "conn-shapes")
	}
	if upgrade {
		lines, tokens := reqmodel.GenUpgradeNominating(r, id, fs)
		if r.Chance(35) && !hasTokenFold(tokens, "Proxy-Authorization") {
			tokens = append(tokens, core.Pick(r, []string{"Proxy-Authorization", "proxy-authorization", "PROXY-AUTHORIZATION"}))
		}
		fs = append(fs, lines...)
		fs = append(fs, reqmodel.ConnectionLines(r, tokens)...)
		labels = append(labels, "upgrade-nominating")
		for _, n := range []string{"Proxy-Authorization", "Authorization"} {
			if hasTokenFold(tokens, n) {
				labels = append(labels, "upgrade-nominates-"+strings.ToLower(n))
			}
		}
	}
	core.Shuffle(r, fs)
	if (upgrade || connShape) && gate {
		// the credential this proxy checks is the FIRST Proxy-Authorization line
		firstPA := -1
		for i, f := range fs {
			if !strings.EqualFold(f.Name, name) {
				continue
			}
			if firstPA < 0 {
				firstPA = i
			}
			if f.Value == first {
				fs[firstPA].Value, fs[i].Value = fs[i].Value, fs[firstPA].Value
				break
			}
		}
	}
	return fs, strings.Join(labels, ",")
}

// frame: a request that announces a chunked body sends one (empty, no trailer section); a CONNECT or HEAD request
// announces none; a POST without one says Content-Length: 0
func (q *creq) frame() {
	chunked := false
	out := make([]rig.Field, 0, len(q.Fields)+1)
	for _, f := range q.Fields {
		if strings.EqualFold(f.Name, "Transfer-Encoding") {
			if q.Kind == "connect" || q.Method == "HEAD" || chunked {
				continue
			}
			chunked = true
		}
		out = append(out, f)
	}
	q.Fields = out
	switch {
	case chunked:
		q.Tail = "0\r\n\r\n"
	case q.Method == "POST":
		q.Fields = append(q.Fields, rig.Field{Name: "Content-Length", Value: "0"})
	}
}

func hasTokenFold(tokens []string, name string) bool {
	for _, t := range tokens {
		if strings.EqualFold(strings.TrimSpace(t), name) {
			return true
		}
	}
	return false
}

// ---- PAC configurations whose upstream proxies are easy to confuse ----

// the proxies of a family, as PAC entries; every address is one of proxyAt / socksAt
var (
	famSameHost  = []string{"PROXY gw.test:3128", "PROXY gw.test:3129", "HTTP gw.test:8080", "HTTPS gw.test:3443", "SOCKS5 gw.test:1080"}
	famSamePort  = []string{"PROXY gw.test:3128", "PROXY alt.test:3128", "HTTP proxya.test:3128", "PROXY [fd00::7]:3128"}
	famSpellings = []string{"PROXY gw.test:3128", "PROXY GW.test:3128", "HTTP gw.test.:3128", "PROXY 10.9.8.7:3128", "PROXY 10.9.8.7:3129", "PROXY gw.test:3129"}
	famTargets   = []string{"origin.test", "secure.test", "other.test", "fourth.test"}
)

func pacHostPort(entry string) (string, string) {
	_, hp, _ := strings.Cut(entry, " ")
	i := strings.LastIndex(hp, ":")
	return strings.Trim(hp[:i], "[]"), hp[i+1:]
}

// genFamily draws 2–4 upstream proxies that share a host name and differ in port (or share the port and differ in host,
// or are spellings of one address), a script that selects each of them for a target host of its own (the default answer is
// one of them, DIRECT, or a proxy already in the table), and a credentials table that has an exact entry for some of
// them, a wildcard entry (host:*, *:port, *:*) for others and nothing for the rest.
func genFamily(r *core.Rand, cc *ccase) (targetsOf [][]string, label string) {
	var pool []string
	switch r.Intn(10) {
	case 0, 1, 2, 3:
		pool, label = famSameHost, "fam-same-host"
	case 4, 5:
		pool, label = famSamePort, "fam-same-port"
	case 6, 7:
		pool, label = famSpellings, "fam-spellings"
	default:
		label = "fam-mixed"
		seen := map[string]bool{}
		for _, l := range [][]string{famSameHost, famSamePort, famSpellings} {
			for _, e := range l {
				if !seen[e] {
					seen[e] = true
					pool = append(pool, e)
				}
			}
		}
	}
	pool = append([]string(nil), pool...)
	core.Shuffle(r, pool)
	n := r.Range(2, 4)
	if n > len(pool) {
		n = len(pool)
	}
	members := pool[:n]
	targets := append([]string(nil), famTargets...)
	core.Shuffle(r, targets)
	entry := func(i int) reqmodel.PacResult {
		e := members[i]
		if r.Chance(20) {
			// only the first entry of an answer counts; what follows names a sibling or nothing
			e += core.Pick(r, []string{"; DIRECT", "; " + members[(i+1)%n], ";"})
		}
		return reqmodel.PacResult{Return: e}
	}
	cc.Route.Base = "pac"
	targetsOf = make([][]string, n)
	inTable := n
	if n == len(targets) || r.Chance(50) {
		inTable = n - 1 // the last member is the script's default answer
	}
	for i := 0; i < inTable; i++ {
		cc.Route.PacTable = append(cc.Route.PacTable, reqmodel.PacEntry{Host: targets[i], R: entry(i)})
		targetsOf[i] = append(targetsOf[i], targets[i])
	}
	rest := targets[inTable:]
	switch {
	case inTable < n:
		cc.Route.PacDefault = entry(n - 1)
		targetsOf[n-1] = append(targetsOf[n-1], rest...)
	case r.Chance(50):
		k := r.Intn(n)
		cc.Route.PacDefault = entry(k)
		targetsOf[k] = append(targetsOf[k], rest...)
	default:
		cc.Route.PacDefault = reqmodel.PacResult{Return: core.Pick(r, []string{"DIRECT", ""})}
		targetsOf = append(targetsOf, rest) // visits that go direct, between the visits of the proxies
	}
	// the credentials table
	for try := 0; try < 4; try++ {
		cc.Creds = nil
		seen := map[string]bool{}
		add := func(c reqmodel.Cred) {
			if k := c.Host + "|" + c.Port; !seen[k] {
				seen[k] = true
				cc.Creds = append(cc.Creds, c)
			}
		}
		for i, m := range members {
			h, p := pacHostPort(m)
			c := reqmodel.Cred{User: fmt.Sprintf("px%d-%d", i, r.Intn(1000)), Pass: core.Pick(r, []string{"pw", "p:w", "se cret", "x%y"}) + fmt.Sprint(r.Intn(100))}
			switch r.Intn(8) {
			case 0, 1, 2:
				c.Host, c.Port = h, p
			case 3:
				c.Host, c.Port = h, "0"
			case 4:
				c.Host, c.Port = "*", p
			case 5:
				c.Host, c.Port = "*", "0"
			default:
				continue
			}
			add(c)
		}
		for _, c := range genCreds(r, false) {
			if r.Chance(50) {
				add(c)
			}
		}
		core.Shuffle(r, cc.Creds)
		distinct := map[string]bool{}
		for _, m := range members {
			h, p := pacHostPort(m)
			if c := specMatch(cc.Creds, h, p); c != nil {
				distinct[c.User+":"+c.Pass] = true
			} else {
				distinct[""] = true
			}
		}
		if len(distinct) > 1 {
			break
		}
	}
	return targetsOf, label
}

// genFamilyCase: one instance, requests that visit the proxies of a family in every order — each one at least once in a
// random order, then again in another order, plain / CONNECT / intercepted as the configuration allows.
func genFamilyCase(r *core.Rand) *ccase {
	cc := &ccase{Kind: "creds", Gate: r.Chance(25), MITM: r.Chance(35)}
	targetsOf, label := genFamily(r, cc)
	if r.Chance(15) {
		cc.CRules = core.Pick(r, [][]string{{"X-Conn-Rule: yes"}, {"X-Conn-Rule: yes", "-X-Custom"}, {"User-Agent: connect-agent/1"}})
	}
	var order []int
	for len(order) < 9 {
		perm := make([]int, len(targetsOf))
		for i := range perm {
			perm[i] = i
		}
		core.Shuffle(r, perm)
		order = append(order, perm...)
	}
	order = order[:r.Range(len(targetsOf)+1, 8)]
	for _, k := range order {
		if len(targetsOf[k]) == 0 {
			continue
		}
		host := core.Pick(r, targetsOf[k])
		id := fmt.Sprintf("c06-%d", idSeq.Add(1))
		fs, lab := genClientFields(r, cc.Gate, id)
		q := creq{Method: core.Pick(r, []string{"GET", "GET", "POST", "HEAD"}), Fields: fs, Label: lab + "," + label}
		switch {
		case cc.MITM && r.Chance(60):
			q.Kind = "inner"
			q.Authority = host + core.Pick(r, []string{"", ":443"})
			if host == "secure.test" && r.Chance(30) {
				q.Authority = "secure.test:8443"
			}
			q.Absolute = r.Chance(25)
		case !cc.MITM && r.Chance(45):
			q.Kind = "connect"
			q.Method = "CONNECT"
			q.Authority = host + ":443"
			if host == "secure.test" && r.Chance(30) {
				q.Authority = "secure.test:8443"
			}
		default:
			q.Kind = "plain"
			q.Authority = host + core.Pick(r, []string{"", ":80"})
			if host == "origin.test" && r.Chance(30) {
				q.Authority = "origin.test:8080"
			}
			q.Absolute = r.Chance(40)
		}
		q.frame()
		cc.Requests = append(cc.Requests, q)
	}
	return cc
}

func genCase(r *core.Rand) *ccase {
	if r.Chance(40) {
		return genFamilyCase(r)
	}
	cc := &ccase{Kind: "creds", Creds: genCreds(r, false), Gate: r.Chance(35), MITM: r.Chance(35)}
	genUpstream(r, &cc.Route)
	if r.Chance(20) {
		cc.CRules = core.Pick(r, [][]string{{"X-Conn-Rule: yes"}, {"X-Conn-Rule: yes", "-X-Custom"}, {"User-Agent: connect-agent/1"}})
	}
	n := r.Range(3, 7)
	for i := 0; i < n; i++ {
		id := fmt.Sprintf("c06-%d", idSeq.Add(1))
		fs, label := genClientFields(r, cc.Gate, id)
		q := creq{Method: core.Pick(r, []string{"GET", "GET", "POST", "HEAD"}), Fields: fs, Label: label}
		switch {
		case cc.MITM && r.Chance(65):
			q.Kind = "inner"
			q.Authority = core.Pick(r, []string{"secure.test", "secure.test:443", "origin.test", "origin.test:443", "secure.test:8443", "other.test"})
			q.Absolute = r.Chance(25)
		case !cc.MITM && r.Chance(40):
			q.Kind = "connect"
			q.Method = "CONNECT"
			q.Authority = core.Pick(r, []string{"secure.test:443", "origin.test:443", "secure.test:8443", "other.test:443"})
		default:
			q.Kind = "plain"
			q.Authority = core.Pick(r, []string{"origin.test", "origin.test:80", "origin.test:8080", "other.test", "other.test:80"})
			q.Absolute = r.Chance(40)
		}
		q.frame()
		cc.Requests = append(cc.Requests, q)
	}
	return cc
}

// ---- the exported matcher API against the model ----

type matcherCase struct {
	Kind  string          `json:"kind"` // "matcher"
	Creds []reqmodel.Cred `json:"creds"`
	Items []lookup        `json:"items"`
}

type lookup struct {
	URL      bool   `json:"url,omitempty"`
	Scheme   string `json:"scheme,omitempty"`
	Host     string `json:"host,omitempty"`     // URL.Host for URL lookups
	HostPort string `json:"hostport,omitempty"` // argument of Match
}

var lookupHosts = []string{"origin.test", "secure.test", "other.test", "proxya.test", "ORIGIN.test", "::1", "[::1]", "10.0.0.1", "nomatch.test", "*", ""}

func genLookup(r *core.Rand) lookup {
	h := core.Pick(r, lookupHosts)
	p := core.Pick(r, []string{"80", "443", "8080", "8443", "3128", "0", "", "x", "65536"})
	if r.Bool() {
		hp := h
		switch r.Intn(6) {
		case 0:
		case 1:
			hp = h + ":"
		default:
			hp = h + ":" + p
		}
		return lookup{HostPort: hp}
	}
	host := h
	if strings.Contains(h, ":") && !strings.HasPrefix(h, "[") && r.Chance(80) {
		host = "[" + h + "]"
	}
	if r.Chance(60) {
		host += ":" + core.Pick(r, []string{"80", "443", "8080", "3128", "", "0"})
	}
	return lookup{URL: true, Scheme: core.Pick(r, []string{"http", "https", "socks5", "", "HTTP", "ftp"}), Host: host}
}

func credString(u *url.Userinfo) string {
	if u == nil {
		return "none"
	}
	p, _ := u.Password()
	return "ok," + core.HexS(u.Username()) + "," + core.HexS(p)
}

func runMatcher(ctx *core.Ctx, mc *matcherCase) {
	var hpus []*forwarder.HostPortUser
	for _, c := range mc.Creds {
		hpus = append(hpus, &forwarder.HostPortUser{HostPort: forwarder.HostPort{Host: c.Host, Port: c.Port}, Userinfo: url.UserPassword(c.User, c.Pass)})
	}
	m, err := forwarder.NewCredentialsMatcher(hpus, log.NopLogger)
	var items []string
	for _, it := range mc.Items {
		if it.URL {
			items = append(items, core.JoinList([]string{"u", core.HexS(it.Scheme), core.HexS(it.Host)}))
		} else {
			items = append(items, core.JoinList([]string{"h", core.HexS(it.HostPort)}))
		}
	}
	ans := ctx.Model.MustAsk("C06", "matchmany", reqmodel.CredsToken(mc.Creds), core.JoinList2(items))
	ctx.Case(fmt.Sprintf("matcher|%+v", *mc), len(mc.Creds) > 0)
	ctx.Count("api/matcher-tables")
	if err != nil {
		ctx.Count("api/matcher-rejected")
		if ans != "rejected" {
			ctx.Disagree("NewCredentialsMatcher rejects the table = Model buildTable", mc, "rejected: "+err.Error(), ans)
		}
		return
	}
	if ans == "rejected" {
		ctx.Disagree("NewCredentialsMatcher rejects the table = Model buildTable", mc, "accepted", ans)
		return
	}
	got := core.SplitList2(strings.TrimPrefix(ans, "many "))
	if len(got) != len(mc.Items) {
		core.Fatalf("matchmany: %d answers for %d items", len(got), len(mc.Items))
	}
	for i, it := range mc.Items {
		var impl string
		func() {
			defer func() {
				if e := recover(); e != nil {
					impl = "panic"
					ctx.Crash("the matcher never panics", "", matcherCase{Kind: "matcher", Creds: mc.Creds, Items: []lookup{it}}, fmt.Sprint(e))
				}
			}()
			if it.URL {
				impl = credString(m.MatchURL(&url.URL{Scheme: it.Scheme, Host: it.Host}))
			} else {
				impl = credString(m.Match(it.HostPort))
			}
		}()
		ctx.CountN("api/matcher-lookups", 1)
		if impl != got[i] {
			ctx.Disagree("CredentialsMatcher.Match/MatchURL = Model matchHostport/matchURL", matcherCase{Kind: "matcher", Creds: mc.Creds, Items: []lookup{it}}, impl, got[i])
		} else {
			ctx.TraceValidated()
		}
		// the documented precedence, independently (well-formed host:port lookups only)
		if !it.URL {
			if h, p, ok := strings.Cut(it.HostPort, ":"); ok && !strings.Contains(p, ":") && !strings.ContainsAny(h, "[]") && p != "" {
				want := "none"
				if c := specMatch(mc.Creds, h, p); c != nil && m != nil {
					want = "ok," + core.HexS(c.User) + "," + core.HexS(c.Pass)
				}
				if impl != want {
					ctx.SpecFail("lookup precedence: exact host:port, then *:port, then host:*, then *:*", "", matcherCase{Kind: "matcher", Creds: mc.Creds, Items: []lookup{it}}, impl, want)
				}
			}
		}
	}
}

func matcherAPI(ctx *core.Ctx) {
	tables := ctx.N(400, 2000)
	per := 50
	for i := 0; i < tables; i++ {
		r := ctx.Rng.Sub()
		mc := &matcherCase{Kind: "matcher", Creds: genCreds(r, r.Chance(15))}
		if r.Chance(5) && len(mc.Creds) > 0 {
			// an invalid entry: empty user / host / port
			switch r.Intn(3) {
			case 0:
				mc.Creds[0].User = ""
			case 1:
				mc.Creds[0].Host = ""
			case 2:
				mc.Creds[0].Port = ""
			}
		}
		for j := 0; j < per; j++ {
			mc.Items = append(mc.Items, genLookup(r))
		}
		runMatcher(ctx, mc)
	}
}

func replayMatcher(ctx *core.Ctx, raw json.RawMessage) {
	var mc matcherCase
	if err := json.Unmarshal(raw, &mc); err != nil {
		core.Fatalf("bad C06 matcher case: %v", err)
	}
	runMatcher(ctx, &mc)
}
