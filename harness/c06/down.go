package c06

import (
	"bytes"
	"encoding/base64"
	"fmt"
	"net"
	"net/url"
	"time"

	"github.com/saucelabs/forwarder"
	"github.com/saucelabs/forwarder/verifharness/core"
	"github.com/saucelabs/forwarder/verifharness/reqmodel"
	"github.com/saucelabs/forwarder/verifharness/rig"
)

// The upstream proxy DOWN: credentials for an upstream proxy "are sent only in the Proxy-Authorization
// of requests addressed to that proxy". When that proxy cannot be reached nothing is addressed to it, and
// what the proxy then says to the CLIENT (a 502 with the error text in the body and in X-Forwarder-Error)
// must not carry them either — an error that names the proxy by its URL with userinfo would.
// downPass starts a second instance of the case's configuration whose upstream proxies all resolve to an
// address that refuses connections, sends the case's plain and CONNECT requests that are routed through
// a proxy with credentials, and searches every byte the client is sent for those credentials (clear,
// as URL userinfo, base64 of user:password).

func deadAddr() string {
	l, err := net.Listen("tcp", "127.0.0.1:0")
	if err != nil {
		core.Fatalf("c06: %v", err)
	}
	a := l.Addr().String()
	l.Close()
	return a
}

func credForms(c *reqmodel.Cred) [][]byte {
	var out [][]byte
	if c == nil || c.Pass == "" {
		return nil
	}
	out = append(out, []byte(c.User+":"+c.Pass))
	out = append(out, []byte(url.UserPassword(c.User, c.Pass).String()))
	out = append(out, []byte(base64.StdEncoding.EncodeToString([]byte(c.User+":"+c.Pass))))
	if len(c.Pass) >= 4 {
		out = append(out, []byte(c.Pass), []byte(url.QueryEscape(c.Pass)))
	}
	return out
}

func downPass(ctx *core.Ctx, h *hops, fc *reqmodel.FullCfg, cc *ccase) {
	type pick struct {
		q    *creq
		cred *reqmodel.Cred
		up   string
	}
	var picks []pick
	for i := range cc.Requests {
		q := &cc.Requests[i]
		if q.Kind == "inner" {
			continue
		}
		scheme, up, cred := upstreamSpec(fc, requestHost(q))
		if (scheme != "http" && scheme != "https") || up == "" || cred == nil || cred.Pass == "" {
			continue
		}
		if _, ok := proxyAt[up]; !ok {
			continue
		}
		picks = append(picks, pick{q, cred, up})
		if len(picks) == 3 {
			break
		}
	}
	if len(picks) == 0 {
		return
	}
	dead := deadAddr()
	var routes []forwarder.HostPortPair
	for _, r := range h.routes() {
		if _, isProxy := proxyAt[net.JoinHostPort(r.Src.Host, r.Src.Port)]; isProxy {
			r = rig.Route(r.Src.Host, r.Src.Port, dead)
		}
		routes = append(routes, r)
	}
	opts, err := reqmodel.ProxyOpts(fc, nil, routes, []string{h.caFile})
	if err != nil {
		return
	}
	p, err := rig.StartProxy(opts)
	if err != nil {
		return
	}
	defer p.Stop()
	for _, pk := range picks {
		one := downReq{Kind: "down", Route: cc.Route, Creds: cc.Creds, Gate: cc.Gate, MITM: cc.MITM, CRules: cc.CRules, Request: *pk.q}
		ctx.Case(fmt.Sprintf("down:%s:%s:%s", cc.Route.Base, pk.q.Kind, pk.up), true)
		ctx.Count("down/request-kind/" + pk.q.Kind)
		c, err := rig.Dial(p.Addr)
		if err != nil {
			ctx.Crash("proxy accepts a client connection", "", one, err.Error())
			return
		}
		var raw bytes.Buffer
		c.Send(pk.q.wire(), nil)
		res, rerr := c.ReadResponse(pk.q.Method, 8*time.Second)
		c.Close()
		if rerr != nil || res == nil {
			ctx.Count("down/inconclusive/no-response")
			continue
		}
		ctx.Count(fmt.Sprintf("down/status/%d", res.Status))
		raw.WriteString(res.Reason + "\n")
		for _, f := range res.Fields {
			raw.WriteString(f.Name + ": " + f.Value + "\n")
		}
		raw.Write(res.Body)
		sent := pk.q.wire() // what the client itself wrote is not a leak when echoed
		for _, form := range credForms(pk.cred) {
			if bytes.Contains(raw.Bytes(), form) && !bytes.Contains(sent, form) {
				ctx.SpecFail("credentials for an upstream proxy are sent only in the Proxy-Authorization of requests addressed to that proxy: not to the client when the proxy is unreachable", "", one,
					fmt.Sprintf("status %d", res.Status), fmt.Sprintf("the response to the client contains %q (upstream proxy %s down): %q", form, pk.up, tailBytes(raw.Bytes(), 300)))
				return
			}
		}
		ctx.TraceValidated()
	}
}

func tailBytes(b []byte, n int) string {
	if len(b) > n {
		b = b[len(b)-n:]
	}
	return string(b)
}

type downReq struct {
	Kind    string            `json:"kind"` // "down"
	Route   reqmodel.RouteCfg `json:"route"`
	Creds   []reqmodel.Cred   `json:"creds"`
	Gate    bool              `json:"gate,omitempty"`
	MITM    bool              `json:"mitm,omitempty"`
	CRules  []string          `json:"connect_rules,omitempty"`
	Request creq              `json:"request"`
}
