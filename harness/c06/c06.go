// Package c06 ties the credential model (Model/C06.lean: credentials table, MatchURL/Match,
// upstreamProxyURL, pacProxy attach, setBasicAuth; Model/Req.lean: the header set every hop receives,
// CONNECT head of dialvia and of the transport) to the real proxy: generated credential tables and
// upstream selections are started for real, generated client requests (plain, CONNECT through the
// upstream proxy, requests inside an intercepted tunnel) are sent, and every message head every
// scripted hop reads is compared with the model and with the property's clauses. PAC configurations whose
// upstream proxies share a host name (and differ in port), share a port, or are spellings of one address are
// served request sequences that visit the proxies in every order; the sequence model (pacCredSeq) is compared.
// conc.go: one instance serving many clients at the same time, every head attributed to its request and judged by the same
// per-request comparison; hist.go: several proxies constructed in one process from reused configurations.
package c06

import (
	"crypto/tls"
	"encoding/base64"
	"encoding/json"
	"fmt"
	"net"
	"net/url"
	"regexp"
	"sort"
	"strings"
	"sync"
	"time"

	"github.com/saucelabs/forwarder"
	"github.com/saucelabs/forwarder/verifharness/core"
	"github.com/saucelabs/forwarder/verifharness/reqmodel"
	"github.com/saucelabs/forwarder/verifharness/rig"
)

func init() { core.Register("C06", core.Scenario{Run: Run, Replay: Replay}) }

const (
	gateUser = "gate"
	gatePass = "keeper-7:x"
)

type hops struct {
	origin  *rig.Peer // plain origin (a forward-proxy peer: records heads, answers 200)
	tlsOrig *rig.Peer
	proxyA  *rig.Peer
	proxyB  *rig.Peer // TLS proxy
	// the proxies of the PAC families (proxyAt): several listeners behind one host name under different ports
	// (gwA/gwB/gwC plain, gwT TLS), one on another host under gwA's port (alt)
	gwA, gwB, gwC, gwT, alt *rig.Peer
	socks                   *rig.Socks5
	caFile                  string
}

func (h *hops) peers() map[string]*rig.Peer {
	return map[string]*rig.Peer{"origin": h.origin, "tlsOrigin": h.tlsOrig, "proxyA": h.proxyA, "proxyB": h.proxyB, "socks": h.socks.Peer,
		"gwA": h.gwA, "gwB": h.gwB, "gwC": h.gwC, "gwT": h.gwT, "alt": h.alt}
}

// proxyAt: the scripted HTTP(S) proxy every proxy address of the generated configurations stands for. One listener is
// reached under several spellings of its address (letter case, trailing dot, IP literal): for the credentials table and
// for the proxy under test these are different host:port strings.
var proxyAt = map[string]string{
	"proxya.test:3128": "proxyA", "proxyb.test:3129": "proxyB",
	"gw.test:3128": "gwA", "GW.test:3128": "gwA", "gw.test.:3128": "gwA", "10.9.8.7:3128": "gwA",
	"gw.test:3129": "gwB", "10.9.8.7:3129": "gwB",
	"gw.test:8080": "gwC", "gw.test:3443": "gwT",
	"alt.test:3128": "alt", "[fd00::7]:3128": "alt",
}

var tlsProxy = map[string]bool{"proxyB": true, "gwT": true}

// socksAt: the addresses the scripted SOCKS5 server is reached under
var socksAt = map[string]bool{"socks.test:1080": true, "gw.test:1080": true}

func isProxyPeer(name string) bool {
	for _, p := range proxyAt {
		if p == name {
			return true
		}
	}
	return false
}

// proxyPeerFor: the listener behind a proxy address spoken to in the given scheme ("" = none of them)
func proxyPeerFor(scheme, hostport string) string {
	if p := proxyAt[hostport]; p != "" && (scheme == "http" && !tlsProxy[p] || scheme == "https" && tlsProxy[p]) {
		return p
	}
	return ""
}

func (h *hops) close() {
	for _, p := range h.peers() {
		p.Close()
	}
}

func okResponder(w *rig.PeerConn, ex *rig.Exchange) bool {
	body := "ok"
	b := rig.Head("HTTP/1.1 200 OK", []rig.Field{{Name: "Content-Length", Value: fmt.Sprint(len(body))}})
	if ex.Req.Method != "HEAD" {
		b = append(b, body...)
	}
	w.Write(b)
	return !strings.EqualFold(ex.Req.Get("Connection"), "close")
}

func newHops(ctx *core.Ctx, n int) (*hops, error) {
	h := &hops{}
	var err error
	ca, err := rig.NewCA("verif c06 CA")
	if err != nil {
		return nil, err
	}
	oleaf, err := ca.ValidLeaf("origin.test", "secure.test", "other.test", "fourth.test")
	if err != nil {
		return nil, err
	}
	pleaf, err := ca.ValidLeaf("proxyb.test")
	if err != nil {
		return nil, err
	}
	gleaf, err := ca.ValidLeaf("gw.test")
	if err != nil {
		return nil, err
	}
	if h.origin, err = rig.NewPeer("origin", okResponder); err != nil {
		return nil, err
	}
	if h.tlsOrig, err = rig.NewTLSPeer("tlsOrigin", &tls.Config{Certificates: []tls.Certificate{oleaf}}, okResponder); err != nil {
		return nil, err
	}
	resolve := func(target string) string {
		if _, port, err := net.SplitHostPort(target); err == nil && (port == "443" || port == "8443") {
			return h.tlsOrig.Addr
		}
		return h.origin.Addr
	}
	if h.proxyA, err = rig.NewForwardProxy("proxyA", resolve); err != nil {
		return nil, err
	}
	if h.proxyB, err = rig.NewTLSForwardProxy("proxyB", &tls.Config{Certificates: []tls.Certificate{pleaf}}, resolve); err != nil {
		return nil, err
	}
	if h.socks, err = rig.NewSocks5("socks", resolve); err != nil {
		return nil, err
	}
	for _, g := range []struct {
		name string
		p    **rig.Peer
	}{{"gwA", &h.gwA}, {"gwB", &h.gwB}, {"gwC", &h.gwC}, {"alt", &h.alt}} {
		if *g.p, err = rig.NewForwardProxy(g.name, resolve); err != nil {
			return nil, err
		}
	}
	if h.gwT, err = rig.NewTLSForwardProxy("gwT", &tls.Config{Certificates: []tls.Certificate{gleaf}}, resolve); err != nil {
		return nil, err
	}
	if h.caFile, err = ca.WriteFile(ctx.Root+"/.work", fmt.Sprintf("c06-ca-%d-%d.pem", time.Now().UnixNano(), n)); err != nil {
		return nil, err
	}
	return h, nil
}

func (h *hops) routes() []forwarder.HostPortPair {
	rs := []forwarder.HostPortPair{
		rig.Route("origin.test", "80", h.origin.Addr), rig.Route("origin.test", "8080", h.origin.Addr), rig.Route("other.test", "80", h.origin.Addr),
		rig.Route("origin.test", "443", h.tlsOrig.Addr), rig.Route("secure.test", "443", h.tlsOrig.Addr), rig.Route("secure.test", "8443", h.tlsOrig.Addr),
		rig.Route("other.test", "443", h.tlsOrig.Addr),
		rig.Route("secure.test", "80", h.origin.Addr), rig.Route("fourth.test", "80", h.origin.Addr), rig.Route("fourth.test", "443", h.tlsOrig.Addr),
		rig.Route("socks.test", "1080", h.socks.Addr), rig.Route("gw.test", "1080", h.socks.Addr),
	}
	peers := h.peers()
	for hp, name := range proxyAt {
		host, port, err := net.SplitHostPort(hp)
		if err != nil {
			core.Fatalf("proxyAt: %q: %v", hp, err)
		}
		rs = append(rs, rig.Route(host, port, peers[name].Addr))
	}
	return rs
}

func (h *hops) reset() {
	for _, p := range h.peers() {
		p.Reset()
	}
	h.socks.ResetRequests()
}

// creq is one client request of a case.
type creq struct {
	Kind      string      `json:"kind"` // "plain" | "connect" | "inner" (inside the intercepted tunnel opened by the case)
	Authority string      `json:"authority"`
	Absolute  bool        `json:"absolute,omitempty"`
	Method    string      `json:"method"`
	Fields    []rig.Field `json:"fields"` // without Host (added from Authority)
	Label     string      `json:"label,omitempty"`
	Tail      string      `json:"tail,omitempty"` // bytes after the head (the empty chunked body of a request that announces one)
}

type ccase struct {
	Kind     string            `json:"kind"` // "creds"
	Route    reqmodel.RouteCfg `json:"route"`
	Creds    []reqmodel.Cred   `json:"creds"`
	Gate     bool              `json:"gate,omitempty"` // the proxy itself asks for basic auth
	MITM     bool              `json:"mitm,omitempty"`
	CRules   []string          `json:"connect_rules,omitempty"`
	Requests []creq            `json:"requests"`
}

type oneReq struct {
	Kind    string            `json:"kind"` // "one"
	Route   reqmodel.RouteCfg `json:"route"`
	Creds   []reqmodel.Cred   `json:"creds"`
	Gate    bool              `json:"gate,omitempty"`
	MITM    bool              `json:"mitm,omitempty"`
	CRules  []string          `json:"connect_rules,omitempty"`
	Request creq              `json:"request"`
}

// head is one message head read by a scripted hop.
type head struct {
	Peer   string              `json:"peer"`
	Method string              `json:"method"`
	Target string              `json:"target"`
	Fields map[string][]string `json:"fields"`
}

type observed struct {
	Status int                `json:"status"`
	Err    string             `json:"err,omitempty"`
	Heads  []head             `json:"heads"`
	Socks  []rig.SocksRequest `json:"socks,omitempty"`
}

func (o *observed) String() string { b, _ := json.Marshal(o); return string(b) }

func (q *creq) wire() []byte {
	var b strings.Builder
	switch q.Kind {
	case "connect":
		fmt.Fprintf(&b, "CONNECT %s HTTP/1.1\r\nHost: %s\r\n", q.Authority, q.Authority)
	default:
		t := "/c"
		if q.Absolute {
			sch := "http"
			if q.Kind == "inner" {
				sch = "https"
			}
			t = sch + "://" + q.Authority + "/c"
		}
		fmt.Fprintf(&b, "%s %s HTTP/1.1\r\nHost: %s\r\n", q.Method, t, q.Authority)
	}
	for _, f := range q.Fields {
		fmt.Fprintf(&b, "%s: %s\r\n", f.Name, f.Value)
	}
	b.WriteString("\r\n")
	b.WriteString(q.Tail)
	return []byte(b.String())
}

func (q *creq) allFields() []rig.Field {
	return append([]rig.Field{{Name: "Host", Value: q.Authority}}, q.Fields...)
}

func runCase(ctx *core.Ctx, h *hops, cc *ccase) {
	fc := reqmodel.FullCfg{
		Base:  reqmodel.Cfg{Name: "fwdverif", Tag: "unknown-tag", TimeAllowed: true, LocalNames: []string{"localhost", "0.0.0.0", "::"}, MITM: cc.MITM, ConnectRules: cc.CRules},
		Route: cc.Route,
		Creds: cc.Creds,
	}
	if cc.Gate {
		fc.Base.HasAuth, fc.Base.AuthUser, fc.Base.AuthPass = true, gateUser, gatePass
	}
	opts, err := reqmodel.ProxyOpts(&fc, nil, h.routes(), []string{h.caFile})
	if err != nil {
		ctx.Crash("proxy starts with a valid configuration", "", cc, err.Error())
		return
	}
	p, err := rig.StartProxy(opts)
	if err != nil {
		ctx.Crash("proxy starts with a valid configuration", "", cc, err.Error())
		return
	}
	defer p.Stop()

	visited := map[string]bool{} // proxy addresses earlier requests of the case were routed to
	var tunnel *rig.Client       // intercepted session shared by the "inner" requests
	defer func() {
		if tunnel != nil {
			tunnel.Close()
		}
	}()
	var seq []seqObs
	defer func() {
		if cc.Route.Base == "pac" {
			checkSeq(ctx, cc, seq)
		}
	}()
	for i := range cc.Requests {
		q := &cc.Requests[i]
		// a finding on the i-th request of a PAC configuration is reported with the requests served before it on the
		// same instance: what a proxy is sent must not depend on them, and the replay has to be able to show that it does
		var one any = oneReq{Kind: "one", Route: cc.Route, Creds: cc.Creds, Gate: cc.Gate, MITM: cc.MITM, CRules: cc.CRules, Request: *q}
		if cc.Route.Base == "pac" && i > 0 {
			one = ccase{Kind: "creds", Route: cc.Route, Creds: cc.Creds, Gate: cc.Gate, MITM: cc.MITM, CRules: cc.CRules, Requests: cc.Requests[:i+1]}
		}
		h.reset()
		ob := &observed{}
		var c *rig.Client
		if q.Kind == "inner" {
			if tunnel == nil {
				t, err := openTunnel(p.Addr, cc.Gate)
				if err != nil {
					ctx.Disagree("intercepted tunnel opens", one, err.Error(), "200 + TLS")
					return
				}
				tunnel = t
				h.reset()
			}
			c = tunnel
		} else {
			c, err = rig.Dial(p.Addr)
			if err != nil {
				ctx.Crash("proxy accepts a client connection", "", one, err.Error())
				return
			}
		}
		c.Send(q.wire(), nil)
		res, rerr := c.ReadResponse(q.Method, 8*time.Second)
		if rerr != nil {
			ob.Err = rerr.Error()
		} else {
			ob.Status = res.Status
		}
		if q.Kind == "connect" && rerr == nil && res.Status == 200 {
			// the client's own end-to-end exchange inside the tunnel (not touched by the proxy)
			if _, port, _ := net.SplitHostPort(q.Authority); port == "443" || port == "8443" {
				if _, err := c.StartTLS("origin.test", nil, true); err == nil {
					c.Send([]byte("GET /inside HTTP/1.1\r\nHost: "+q.Authority+"\r\nX-Inside: client\r\n\r\n"), nil)
					c.ReadResponse("GET", 3*time.Second)
				}
			}
		}
		if q.Kind != "inner" {
			c.Close()
		}
		settle(h)
		for name, peer := range h.peers() {
			for _, ex := range peer.Log() {
				if ex.Req == nil || ex.Err != nil {
					continue
				}
				ob.Heads = append(ob.Heads, head{Peer: name, Method: ex.Req.Method, Target: ex.Req.Target, Fields: ex.Req.FieldMap()})
			}
		}
		sort.SliceStable(ob.Heads, func(a, b int) bool { return ob.Heads[a].Peer < ob.Heads[b].Peer })
		ob.Socks = h.socks.Requests()
		seq = append(seq, seqObs{cs: one, ob: ob})
		evaluate(ctx, &fc, cc, one, q, ob, visited)
		if _, up, _ := upstreamSpec(&fc, requestHost(q)); up != "" {
			visited[up] = true
		}
		if q.Kind == "inner" && (rerr != nil || hasClose(res)) {
			tunnel.Close()
			tunnel = nil
		}
	}
	// the same configuration with its upstream proxies unreachable: what the CLIENT is told
	downPass(ctx, h, &fc, cc)
}

func hasClose(res *rig.Msg) bool {
	if res == nil {
		return true
	}
	for _, v := range res.Values("Connection") {
		if strings.EqualFold(strings.TrimSpace(v), "close") {
			return true
		}
	}
	return false
}

// settle waits until the accept/byte counters of all hops stopped moving.
func settle(h *hops) {
	var last int64 = -1
	stable := 0
	deadline := time.Now().Add(time.Second)
	for time.Now().Before(deadline) {
		var tot int64
		for _, p := range h.peers() {
			tot += p.Accepts() + p.BytesIn() + int64(len(p.Log()))
		}
		if tot == last {
			stable++
			if stable >= 3 {
				return
			}
		} else {
			stable = 0
		}
		last = tot
		time.Sleep(400 * time.Microsecond)
	}
}

func gateValue() string {
	return "Basic " + base64.StdEncoding.EncodeToString([]byte(gateUser+":"+gatePass))
}

func openTunnel(addr string, gate bool) (*rig.Client, error) {
	c, err := rig.Dial(addr)
	if err != nil {
		return nil, err
	}
	req := "CONNECT tunnel.test:443 HTTP/1.1\r\nHost: tunnel.test:443\r\n"
	if gate {
		req += "Proxy-Authorization: " + gateValue() + "\r\n"
	}
	c.Send([]byte(req+"\r\n"), nil)
	res, err := c.ReadResponse("CONNECT", 8*time.Second)
	if err != nil || res.Status != 200 {
		c.Close()
		return nil, fmt.Errorf("CONNECT: %v %+v", err, res)
	}
	if _, err := c.StartTLS("tunnel.test", nil, true); err != nil {
		c.Close()
		return nil, err
	}
	return c, nil
}

// comparedAtOrigin: the fields of a forwarded (non-CONNECT) head that are compared with the model here: the credential
// fields and the fixed hop-by-hop list (complete heads are C01's)
var comparedAtOrigin = []string{"authorization", "proxy-authorization", "proxy-authenticate", "te", "trailer", "upgrade", "keep-alive", "proxy-connection"}

var viaRe = regexp.MustCompile(`^1\.[01] fwdverif-[0-9a-f]{20}$`)

// ---- the property's clauses, independently of the model ----

// specMatch: exact host:port, then *:port, then host:*, then *:*.
func specMatch(creds []reqmodel.Cred, host, port string) *reqmodel.Cred {
	find := func(hst, prt string) *reqmodel.Cred {
		for i := range creds {
			if creds[i].Host == hst && creds[i].Port == prt {
				return &creds[i]
			}
		}
		return nil
	}
	if c := find(host, port); c != nil && host != "*" && port != "0" {
		return c
	}
	if c := find("*", port); c != nil && port != "0" {
		return c
	}
	if c := find(host, "0"); c != nil && host != "*" {
		return c
	}
	return find("*", "0")
}

// targetHostPort: host and port of the request target with 80/443 implied by the scheme.
func targetHostPort(scheme, authority string) (string, string, bool) {
	u, err := url.Parse("http://" + authority)
	if err != nil {
		return "", "", false
	}
	port := u.Port()
	if port == "" {
		switch scheme {
		case "http":
			port = "80"
		case "https":
			port = "443"
		default:
			return "", "", false
		}
	}
	return u.Hostname(), port, true
}

func b64cred(user, pass string) string {
	return base64.StdEncoding.EncodeToString([]byte(user + ":" + pass))
}

// upstreamSpec: the upstream proxy the configuration selects for a host and the credentials that
// belong to it (URL userinfo, else the matching table entry; PAC: the matching entry).
func upstreamSpec(fc *reqmodel.FullCfg, hostname string) (scheme, hostport string, cred *reqmodel.Cred) {
	var u *reqmodel.ProxyURL
	switch fc.Route.Base {
	case "static":
		u = fc.Route.Static
	case "pac":
		r := fc.Route.PacDefault
		for _, e := range fc.Route.PacTable {
			if e.Host == hostname {
				r = e.R
				break
			}
		}
		first, _, _ := strings.Cut(r.Return, ";")
		kw, hp, ok := strings.Cut(strings.TrimSpace(first), " ")
		if !ok {
			return "", "", nil
		}
		sch := map[string]string{"PROXY": "http", "HTTP": "http", "HTTPS": "https", "SOCKS5": "socks5"}[kw]
		if sch == "" {
			return "", "", nil
		}
		u = &reqmodel.ProxyURL{Scheme: sch, Host: hp}
	default:
		return "", "", nil
	}
	if u.User != nil {
		pw := ""
		if u.Pass != nil {
			pw = *u.Pass
		}
		return u.Scheme, u.Host, &reqmodel.Cred{User: *u.User, Pass: pw}
	}
	h, p, err := net.SplitHostPort(u.Host)
	if err != nil {
		return u.Scheme, u.Host, nil
	}
	return u.Scheme, u.Host, specMatch(fc.Creds, h, p)
}

func clientValues(q *creq, name string) []string {
	var out []string
	for _, f := range q.Fields {
		if strings.EqualFold(f.Name, name) {
			out = append(out, f.Value)
		}
	}
	return out
}

func evaluate(ctx *core.Ctx, fc *reqmodel.FullCfg, cc *ccase, one any, q *creq, ob *observed, visited map[string]bool) {
	judge(ctx, fc, cc, one, q, ob, visited, true)
}

// judge compares what the hops read on behalf of ONE request with the model's answer for that request and evaluates the
// property's clauses on it; tally = count the request as a case of its own (the concurrency family sends one generated
// request many times and counts it once).
func judge(ctx *core.Ctx, fc *reqmodel.FullCfg, cc *ccase, one any, q *creq, ob *observed, visited map[string]bool, tally bool) {
	out, scheme := askModel(ctx, fc, q)
	judgeWith(ctx, fc, cc, one, q, ob, visited, tally, out, scheme)
}

// judgeWith is judge given the model's answer (out, scheme = askModel) for the request.
func judgeWith(ctx *core.Ctx, fc *reqmodel.FullCfg, cc *ccase, one any, q *creq, ob *observed, visited map[string]bool, tally bool, out reqmodel.Outcome, scheme string) {
	host, port, hpOK := targetHostPort(scheme, q.Authority)
	site := (*reqmodel.Cred)(nil)
	if hpOK {
		site = specMatch(fc.Creds, host, port)
	}
	upScheme, upHost, upCred := upstreamSpec(fc, host)
	family := upstreamFamily(fc)
	cliPA := clientValues(q, "Proxy-Authorization")
	cliAuth := clientValues(q, "Authorization")
	// an Authorization the client nominates in Connection is hop-by-hop: it is addressed to this proxy, the
	// origin-facing request then carries none of the client's (the site credential may be attached)
	authNominated := false
	for _, v := range clientValues(q, "Connection") {
		for _, t := range strings.Split(v, ",") {
			if strings.EqualFold(strings.TrimSpace(t), "Authorization") {
				authNominated = true
			}
		}
	}
	cliAuthSupplied := len(cliAuth) > 0 && cliAuth[0] != "" && !authNominated

	if tally {
		ctx.Case(fmt.Sprintf("%+v|%+v|%v|%v|%v|%+v", cc.Route, cc.Creds, cc.Gate, cc.MITM, cc.CRules, *q),
			len(fc.Creds) > 0 || len(cliPA) > 0 || upCred != nil)
		ctx.Count("kind/" + q.Kind)
		ctx.Count("base/" + fc.Route.Base)
		ctx.Count("model/" + out.Kind)
		for _, l := range strings.Split(q.Label, ",") {
			if l != "" {
				ctx.Count("gen/" + l)
			}
		}
		// the Connection-field dimension: shape of the client's Connection field x fixed hop-by-hop field present, and,
		// for the credential field, x proxy basic auth on/off
		shape := reqmodel.ConnShapeOf(q.Fields)
		for _, l := range reqmodel.ConnShapeLabels(q.Fields) {
			ctx.Count(l)
		}
		if len(cliPA) > 0 {
			ctx.Count(fmt.Sprintf("connx-gate/%s/Proxy-Authorization/gate-%v/%s", shape, cc.Gate, q.Kind))
		}
		if site != nil {
			ctx.Count("site-credential-matches")
		}
		if upCred != nil {
			ctx.Count("upstream-credential")
		}
		if len(family) > 1 && upHost != "" {
			// the history-sensitive situations: this request's proxy shares its host name (port / spelt-out address) with a
			// DIFFERENT proxy address an earlier request of the same instance went to, and the table tells the two apart
			uh, up, _ := net.SplitHostPort(upHost)
			for v := range visited {
				if v == upHost {
					continue
				}
				vh, vp, _ := net.SplitHostPort(v)
				apart := "same-credentials"
				if !sameCred(upCred, familyCred(family, v)) {
					apart = "told-apart"
				}
				switch {
				case vh == uh:
					ctx.Count("seq/after-sibling-same-host-other-port/" + apart)
				case vp == up:
					ctx.Count("seq/after-sibling-same-port-other-host/" + apart)
				}
				if strings.EqualFold(strings.TrimSuffix(vh, "."), strings.TrimSuffix(uh, ".")) && vh != uh && vp == up {
					ctx.Count("seq/after-other-spelling-of-same-address/" + apart)
				}
				if proxyAt[v] != "" && proxyAt[v] == proxyAt[upHost] {
					ctx.Count("seq/after-other-name-of-same-listener/" + apart)
				}
			}
			if visited[upHost] {
				ctx.Count("seq/proxy-revisited")
			}
		}
	}
	impl := ob.String()
	if ob.Err != "" {
		ctx.Disagree("every request is answered", one, impl, out.Kind)
		return
	}

	// --- correspondence: the heads the model says each hop receives ---
	okAll := true
	disagree := func(rel, want string) {
		okAll = false
		ctx.Disagree(rel, one, impl, want)
	}
	wants, wantSocks := modelWants(&out, q, scheme)
	switch out.Kind {
	case "refused":
		if ob.Status != out.Status || len(ob.Heads) != 0 {
			disagree("refused request: status and no head at any hop", fmt.Sprintf("refused %d", out.Status))
		}
	case "unreadable", "badreq", "rejected":
		ctx.Count("out-of-domain")
		return
	default:
		heads := append([]head(nil), ob.Heads...)
		// the client's own request inside a CONNECT tunnel is not the proxy's doing
		var mine []head
		for _, hd := range heads {
			if _, inside := hd.Fields["x-inside"]; inside {
				continue
			}
			mine = append(mine, hd)
		}
		if len(mine) != len(wants) {
			disagree("number of message heads sent upstream = Model actions", fmt.Sprintf("%d heads: %+v", len(wants), wants))
			break
		}
		used := make([]bool, len(mine))
		for _, w := range wants {
			found := false
			for i, hd := range mine {
				if used[i] || hd.Peer != w.peer || hd.Method != w.s.Method || hd.Target != w.s.Target {
					continue
				}
				var diffs []string
				if w.s.Setup {
					for _, k := range reqmodel.DiffFields(hd.Fields, w.s.Fields) {
						if k == "via" && len(hd.Fields[k]) == 1 && viaRe.MatchString(hd.Fields[k][0]) && len(w.s.Fields[k]) == 1 {
							continue
						}
						diffs = append(diffs, fmt.Sprintf("%s: got %q want %q", k, hd.Fields[k], w.s.Fields[k]))
					}
				} else {
					for _, k := range comparedAtOrigin {
						if strings.Join(hd.Fields[k], "\x00") != strings.Join(w.s.Fields[k], "\x00") {
							diffs = append(diffs, fmt.Sprintf("%s: got %q want %q", k, hd.Fields[k], w.s.Fields[k]))
						}
					}
				}
				if len(diffs) > 0 {
					disagree("head received by "+w.peer+" = Model Sent", strings.Join(diffs, "; "))
				}
				used[i], found = true, true
				break
			}
			if !found {
				disagree("head received by "+w.peer+" = Model Sent", fmt.Sprintf("%s %s at %s", w.s.Method, w.s.Target, w.peer))
			}
		}
		for _, a := range wantSocks {
			if !socksAt[a.HopAddr] {
				continue
			}
			if len(ob.Socks) != 1 || a.SocksTarget == nil || ob.Socks[0].Target != *a.SocksTarget ||
				ob.Socks[0].HasAuth != (a.SocksUser != nil) || a.SocksUser != nil && (ob.Socks[0].User != *a.SocksUser || ob.Socks[0].Pass != *a.SocksPass) {
				disagree("SOCKS5 request = Model action", fmt.Sprintf("%+v", a))
			}
		}
	}
	if okAll {
		ctx.TraceValidated()
	}

	// --- the property, on every head observed ---
	var secrets []struct{ kind, val string }
	for _, v := range cliPA {
		if v != "" {
			secrets = append(secrets, struct{ kind, val string }{"client Proxy-Authorization", v})
		}
	}
	if authNominated {
		for _, v := range cliAuth {
			if v != "" {
				secrets = append(secrets, struct{ kind, val string }{"client Authorization nominated in Connection (hop-by-hop)", v})
			}
		}
	}
	for _, hd := range ob.Heads {
		if _, inside := hd.Fields["x-inside"]; inside {
			continue
		}
		atProxy := isProxyPeer(hd.Peer)
		setup := hd.Method == "CONNECT"
		for k, vs := range hd.Fields {
			for _, v := range vs {
				// (1) the client's Proxy-Authorization goes nowhere
				for _, s := range secrets {
					if strings.Contains(v, s.val) {
						ctx.SpecFail("the client's Proxy-Authorization is never forwarded", "", one, impl, fmt.Sprintf("%s: %s: %s at %s", s.kind, k, v, hd.Peer))
					}
				}
				// (2) upstream credentials only in Proxy-Authorization of a message read by that proxy
				if upCred != nil && strings.Contains(v, b64cred(upCred.User, upCred.Pass)) {
					sameAsSite := site != nil && *site == *upCred
					if !(atProxy && k == "proxy-authorization") && !(sameAsSite && k == "authorization") {
						ctx.SpecFail("upstream-proxy credentials appear only in Proxy-Authorization of messages addressed to that proxy", "", one, impl,
							fmt.Sprintf("%s: %s at %s", k, v, hd.Peer))
					}
				}
				// (2') … and so for the credentials of every OTHER upstream proxy of the configuration: this request was not
				// routed to it, its credentials have no business in any message written on behalf of this request —
				// not at an origin, and not in the Proxy-Authorization of the proxy this request does go through,
				// unless the table (or URL) assigns that very credential to this proxy's host:port as well
				for _, m := range family {
					if m.cred == nil || m.hostport == upHost || sameCred(m.cred, upCred) {
						continue
					}
					b := b64cred(m.cred.User, m.cred.Pass)
					switch {
					case atProxy && k == "proxy-authorization":
						if v == "Basic "+b {
							ctx.SpecFail("a Proxy-Authorization value is only ever seen by the proxy whose host:port the --credentials table (or the proxy URL) assigns it to",
								"", one, impl, fmt.Sprintf("%s, selected for this request as %s, reads the credentials of %s: %s: %s", hd.Peer, upHost, m.hostport, k, v))
						}
					case strings.Contains(v, b):
						if !(site != nil && sameCred(site, m.cred) && k == "authorization") {
							ctx.SpecFail("upstream-proxy credentials appear only in Proxy-Authorization of messages addressed to that proxy", "", one, impl,
								fmt.Sprintf("credentials of %s (not selected for this request): %s: %s at %s", m.hostport, k, v, hd.Peer))
						}
					}
				}
			}
		}
		// (2b) the proxy gets the credential that belongs to it: URL userinfo, else the table entry
		if atProxy && len(fc.Base.ConnectRules) == 0 && proxyPeerFor(upScheme, upHost) == hd.Peer {
			gotPA := hd.Fields["proxy-authorization"]
			if upCred != nil {
				if want := "Basic " + b64cred(upCred.User, upCred.Pass); len(gotPA) != 1 || gotPA[0] != want {
					ctx.SpecFail("the upstream proxy is sent the credential configured for it (URL userinfo wins over the table)", "", one, impl,
						fmt.Sprintf("proxy-authorization %q want %q", gotPA, want))
				}
			} else if len(gotPA) != 0 {
				ctx.SpecFail("no Proxy-Authorization is sent to a proxy without configured credentials", "", one, impl, fmt.Sprintf("proxy-authorization %q", gotPA))
			}
		}
		// (3) site credentials
		got := hd.Fields["authorization"]
		switch {
		case setup:
			// a tunnel set-up message is addressed to the proxy: no site credential belongs there
			if site != nil && !cliAuthSupplied && len(got) > 0 && strings.Contains(strings.Join(got, " "), b64cred(site.User, site.Pass)) {
				// (a client CONNECT through an HTTP(S) upstream proxy was the known class F20 until setBasicAuth
				// learnt to leave CONNECT requests alone: a plain violation again)
				ctx.SpecFail("site credentials are attached only to messages addressed to the matching origin", "", one, impl,
					fmt.Sprintf("authorization %q in the CONNECT head read by %s", got, hd.Peer))
			}
		case cliAuthSupplied:
			if strings.Join(got, "\x00") != strings.Join(cliAuth, "\x00") {
				ctx.SpecFail("an Authorization the client supplied is never replaced", "", one, impl, fmt.Sprintf("got %q client sent %q", got, cliAuth))
			}
		case site != nil:
			want := "Basic " + b64cred(site.User, site.Pass)
			if len(got) != 1 || got[0] != want {
				ctx.SpecFail("site credentials are attached to a request whose target matches under the documented precedence", "", one, impl,
					fmt.Sprintf("got %q want %q", got, want))
			}
		default:
			if len(got) > 0 && !(len(cliAuth) > 0 && len(got) == len(cliAuth)) {
				ctx.SpecFail("no Authorization is attached when no entry matches", "", one, impl, fmt.Sprintf("got %q", got))
			}
		}
	}
	// (2s) a SOCKS5 server is presented the credentials that belong to its host:port, never another proxy's
	for _, sr := range ob.Socks {
		if sr.HasAuth && !(upScheme == "socks5" && upCred != nil && sr.User == upCred.User && sr.Pass == upCred.Pass) {
			ctx.SpecFail("a SOCKS5 proxy is presented only the credentials the --credentials table (or the proxy URL) assigns to its host:port", "", one, impl,
				fmt.Sprintf("user %q password %q presented; selected proxy %s %s", sr.User, sr.Pass, upScheme, upHost))
		}
	}
}

// want: a message head the model says a scripted hop reads on behalf of a request.
type want struct {
	peer string
	s    reqmodel.Sent
}

// modelWants: the heads (per scripted hop) and the SOCKS5 requests the model's answer for a request asks for.
func modelWants(out *reqmodel.Outcome, q *creq, scheme string) (wants []want, wantSocks []reqmodel.Action) {
	originPeer := "origin"
	if scheme == "https" || q.Kind == "connect" {
		originPeer = "tlsOrigin"
	}
	for _, a := range out.Actions {
		proxyPeer := proxyPeerFor(a.Via, a.HopAddr) // "": a proxy address none of the listeners stands for
		if a.Via == "socks5" {
			wantSocks = append(wantSocks, a)
		}
		for _, s := range a.Sent {
			switch s.Recv {
			case "proxy":
				if proxyPeer != "" {
					wants = append(wants, want{proxyPeer, s})
				}
			case "origin":
				if (a.Via == "direct" || proxyPeer != "" || a.Via == "socks5" && socksAt[a.HopAddr]) && routed(scheme, q.Authority) {
					wants = append(wants, want{originPeer, s})
				}
			}
		}
	}
	return wants, wantSocks
}

// askModel: the model's answer for one request under a configuration.
func askModel(ctx *core.Ctx, fc *reqmodel.FullCfg, q *creq) (out reqmodel.Outcome, scheme string) {
	mctx := reqmodel.Ctx{ClientIP: "127.0.0.1", Secure: q.Kind == "inner"}
	scheme = "http"
	switch q.Kind {
	case "connect":
		scheme = ""
		out = reqmodel.AskFullConnect(ctx.Model, fc, &mctx, &reqmodel.ConnectReq{Authority: q.Authority, Minor: 1, Fields: q.allFields()})
	default:
		if q.Kind == "inner" {
			scheme = "https"
		}
		out = reqmodel.AskFullRequest(ctx.Model, fc, &mctx, &reqmodel.Request{Method: q.Method, Minor: 1, Absolute: q.Absolute, Scheme: scheme, Authority: q.Authority,
			Path: "/c", Fields: q.allFields()})
	}
	return out, scheme
}

// requestHost: the host name the proxy function (the PAC script) is asked about for this request.
func requestHost(q *creq) string {
	scheme := "http"
	switch q.Kind {
	case "connect":
		scheme = ""
	case "inner":
		scheme = "https"
	}
	h, _, _ := targetHostPort(scheme, q.Authority)
	return h
}

func sameCred(a, b *reqmodel.Cred) bool {
	if a == nil || b == nil {
		return a == nil && b == nil
	}
	return a.User == b.User && a.Pass == b.Pass
}

// member is one upstream proxy a configuration can select, with the credentials that belong to it.
type member struct {
	scheme, hostport string
	cred             *reqmodel.Cred
}

// upstreamFamily: every upstream proxy the configuration selects for some target host (static: the one; PAC: the
// first entry of each answer of the script), each with the credentials the URL or the table assigns to its host:port.
func upstreamFamily(fc *reqmodel.FullCfg) []member {
	var out []member
	seen := map[string]bool{}
	add := func(host string) {
		sch, hp, c := upstreamSpec(fc, host)
		if hp == "" || seen[sch+"|"+hp] {
			return
		}
		seen[sch+"|"+hp] = true
		out = append(out, member{sch, hp, c})
	}
	switch fc.Route.Base {
	case "static":
		add("")
	case "pac":
		for _, e := range fc.Route.PacTable {
			add(e.Host)
		}
		add("\x00 no entry of the table") // the script's default answer
	}
	return out
}

func familyCred(fam []member, hostport string) *reqmodel.Cred {
	for _, m := range fam {
		if m.hostport == hostport {
			return m.cred
		}
	}
	return nil
}

// seqObs: what the hops read on behalf of one request of a case, with the case a finding on it is reported as.
type seqObs struct {
	cs any
	ob *observed
}

// checkSeq ties the sequence model (C06.pacCredSeq: one instance with a PAC script and a credentials table folded
// over the script's answers for the requests, in order) to what the selected proxies read, request by request.
func checkSeq(ctx *core.Ctx, cc *ccase, seq []seqObs) {
	if len(seq) == 0 {
		return
	}
	var items []string
	for i := range seq {
		r := cc.Route.PacDefault
		host := requestHost(&cc.Requests[i])
		for _, e := range cc.Route.PacTable {
			if e.Host == host {
				r = e.R
				break
			}
		}
		if r.Fail != "" {
			items = append(items, "fail")
		} else {
			items = append(items, core.JoinList([]string{"ok", core.HexS(r.Return)}))
		}
	}
	ans := ctx.Model.MustAsk("C06", "pacseq", reqmodel.CredsToken(cc.Creds), core.JoinList2(items))
	if ans == "rejected" {
		return
	}
	answers := core.SplitList2(strings.TrimPrefix(ans, "seq "))
	if len(answers) != len(seq) {
		core.Fatalf("pacseq: %d answers for %d requests: %q", len(answers), len(seq), ans)
	}
	ctx.Count("seq/instances-compared-with-pacCredSeq")
	for i, so := range seq {
		f := core.SplitList(answers[i])
		var want []string // the Proxy-Authorization values the selected proxy reads
		peer, socks := "", false
		var wantSocks *reqmodel.Cred
		if f[0] == "proxy" {
			scheme, hp := string(core.MustUnHex(f[1])), string(core.MustUnHex(f[2]))
			peer = proxyPeerFor(scheme, hp)
			socks = scheme == "socks5" && socksAt[hp]
			if len(f) == 5 {
				u, pw := string(core.MustUnHex(f[3])), string(core.MustUnHex(f[4]))
				want = []string{"Basic " + b64cred(u, pw)}
				wantSocks = &reqmodel.Cred{User: u, Pass: pw}
			}
		}
		okAll := true
		for _, hd := range so.ob.Heads {
			if _, inside := hd.Fields["x-inside"]; inside || !isProxyPeer(hd.Peer) {
				continue
			}
			if got := hd.Fields["proxy-authorization"]; hd.Peer != peer || strings.Join(got, "\x00") != strings.Join(want, "\x00") {
				okAll = false
				ctx.Disagree("k-th request of one instance: the proxy that reads a head and its Proxy-Authorization = Model pacCredSeq", so.cs, so.ob.String(),
					fmt.Sprintf("request %d: %s; proxy-authorization %q at %q", i, answers[i], want, peer))
			}
		}
		for _, sr := range so.ob.Socks {
			if !socks || sr.HasAuth != (wantSocks != nil) || wantSocks != nil && (sr.User != wantSocks.User || sr.Pass != wantSocks.Pass) {
				okAll = false
				ctx.Disagree("k-th request of one instance: SOCKS5 credentials = Model pacCredSeq", so.cs, so.ob.String(), fmt.Sprintf("request %d: %s", i, answers[i]))
			}
		}
		if okAll {
			ctx.TraceValidated()
		}
	}
}

// routed: the target is one the connect-to rules lead to a scripted origin.
func routed(scheme, authority string) bool {
	h, p, ok := targetHostPort(scheme, authority)
	if !ok {
		return false
	}
	switch h + ":" + p {
	case "origin.test:80", "origin.test:8080", "other.test:80", "origin.test:443", "secure.test:443", "secure.test:8443", "other.test:443",
		"secure.test:80", "fourth.test:80", "fourth.test:443":
		return true
	}
	return false
}

func Run(ctx *core.Ctx) {
	ctx.SetRule("generated credential tables (exact, *:port, host:*, *:*, overlapping) x upstream selection {none, static http/https/socks5 with or without " +
		"userinfo, PAC} x gate (proxy basic auth) x MITM, each started as a real proxy; client requests: plain (origin/absolute form, explicit/implicit port), " +
		"CONNECT (tunnelled through the upstream proxy to a TLS origin), requests inside an intercepted tunnel (https via the transport's own CONNECT); client " +
		"header shapes: Proxy-Authorization absent/single/repeated/mixed case/nominated by Connection, Authorization absent/present/empty; 30% of the requests are " +
		"protocol upgrades (Upgrade + Connection: Upgrade in token lists of every spelling) that also nominate Proxy-Authorization / Authorization / the standard " +
		"hop-by-hop set / managed and custom names with the nominated fields present; 45% of the other requests draw the Connection-field dimension " +
		"(reqmodel.GenConnShape): Connection absent / exactly one line with exactly one option (keep-alive or close as most clients send it, respellings, " +
		"upgrade, TE, a custom name, a name of the fixed list) / one option next to empty list elements / one line with several options / several lines / " +
		"empty value, crossed with the presence of each field of the fixed hop-by-hop list (Proxy-Authorization, Proxy-Authenticate, TE, Trailer, " +
		"Transfer-Encoding with an empty chunked body, Upgrade, Keep-Alive, Proxy-Connection) and with the gate on/off (distribution: connx/ and " +
		"connx-gate/ counts); every head every hop reads " +
		"is compared (forwarded requests: the credential fields and the fixed hop-by-hop list; CONNECT heads: all fields); 40% of the cases are PAC configurations with 2-4 upstream proxies that share a host name and differ in port (or share the port and differ " +
		"in host, or are spellings of one address), a credentials table with exact / host:* / *:port / *:* entries for some of them and none for the rest, and " +
		"a request sequence on one instance that visits them in every order: every Proxy-Authorization value (SOCKS5 credential) must be seen only by the proxy " +
		"whose host:port the table assigns it to, and the sequence model pacCredSeq is compared per case; " +
		"plus the exported CredentialsMatcher API against the model on generated tables and lookups, and with 4-32 goroutines looking a few host:ports with " +
		"differing answers up on one matcher at the same time (every answer = the model's for that lookup alone); " +
		"the CONCURRENCY family: one instance (PAC family whose targets select different upstream proxies with credentials of their own or none / static / " +
		"no upstream; a table with an entry for some target host:ports and none for the rest), 16-64 clients in flight at once over several rounds, " +
		"every head every hop reads attributed to its request (Case-Id; the transport's own CONNECT heads and SOCKS5 requests by hop and target) and " +
		"judged by the per-request model and clauses — the busy form sends 32 000 plain requests per instance over reused connections; " +
		"the CONSTRUCTION-HISTORY family: 2-4 proxies built in one process from a reused *HTTPProxyConfig / *url.URL / value copy / value copy " +
		"re-pointed at another upstream proxy / the same CredentialsMatcher, each with a table of its own, alive side by side, each judged by the model " +
		"for its own configuration as written, and the caller's UpstreamProxy URL (user information included) must read as written after every " +
		"NewHTTPProxy and after traffic; " +
		"non-trivial = a credential table, a client Proxy-Authorization or an upstream credential is involved; distinct = distinct (configuration, request)")
	for _, c := range core.LoadCorpus(ctx.Root, "C06") {
		Replay(ctx, c)
	}
	matcherAPI(ctx)
	matcherConcAPI(ctx)
	histRng := ctx.Rng.Sub()
	nCases, nHist := ctx.N(900, 7000), ctx.N(60, 400)
	jobs := make(chan any, 32)
	var wg sync.WaitGroup
	for w := 0; w < 10; w++ {
		wg.Add(1)
		go func(w int) {
			defer wg.Done()
			h, err := newHops(ctx, w)
			if err != nil {
				core.Fatalf("cannot start scripted hops: %v", err)
			}
			defer h.close()
			for j := range jobs {
				switch c := j.(type) {
				case *ccase:
					runCase(ctx, h, c)
				case *histCase:
					runHistory(ctx, h, c)
				}
			}
		}(w)
	}
	every := nCases / nHist
	for i, k := 0, 0; i < nCases; i++ {
		r := ctx.Rng.Sub()
		cc := genCase(r)
		if i < 3 {
			ctx.Sample(cc)
		}
		jobs <- cc
		if i%every == 0 && k < nHist {
			// the construction histories, among the other cases
			hc := genHistory(histRng.Sub())
			if k == 0 {
				ctx.Sample(hc)
			}
			k++
			jobs <- hc
		}
	}
	close(jobs)
	wg.Wait()
	concFamily(ctx)
}

func Replay(ctx *core.Ctx, raw json.RawMessage) {
	var k struct {
		Kind string `json:"kind"`
	}
	json.Unmarshal(raw, &k)
	var cc ccase
	switch k.Kind {
	case "one", "down":
		var o oneReq
		if err := json.Unmarshal(raw, &o); err != nil {
			core.Fatalf("bad C06 case: %v", err)
		}
		cc = ccase{Kind: "creds", Route: o.Route, Creds: o.Creds, Gate: o.Gate, MITM: o.MITM, CRules: o.CRules, Requests: []creq{o.Request}}
	case "matcher":
		replayMatcher(ctx, raw)
		return
	case "matcher-conc":
		var mc concMatcherCase
		if err := json.Unmarshal(raw, &mc); err != nil {
			core.Fatalf("bad C06 case: %v", err)
		}
		mc.Failing = nil
		runMatcherConc(ctx, &mc)
		return
	case "conc", "history":
		h, err := newHops(ctx, 98)
		if err != nil {
			core.Fatalf("cannot start scripted hops: %v", err)
		}
		defer h.close()
		if k.Kind == "conc" {
			var c concCase
			if err := json.Unmarshal(raw, &c); err != nil {
				core.Fatalf("bad C06 case: %v", err)
			}
			c.Failing, c.Note = nil, ""
			runConc(ctx, h, &c)
		} else {
			var c histCase
			if err := json.Unmarshal(raw, &c); err != nil {
				core.Fatalf("bad C06 case: %v", err)
			}
			c.Failing, c.Proxy = nil, nil
			runHistory(ctx, h, &c)
		}
		return
	default:
		if err := json.Unmarshal(raw, &cc); err != nil {
			core.Fatalf("bad C06 case: %v", err)
		}
	}
	h, err := newHops(ctx, 99)
	if err != nil {
		core.Fatalf("cannot start scripted hops: %v", err)
	}
	defer h.close()
	runCase(ctx, h, &cc)
}
