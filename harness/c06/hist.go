package c06

// The construction-history family: ONE process constructs several proxies, and the caller reuses what it hands to the
// constructor — the same *HTTPProxyConfig twice, the same *url.URL inside a fresh configuration, a value copy of the
// configuration (the URL pointer is shared), a value copy whose URL is a value copy pointed at ANOTHER upstream proxy
// (the User pointer travels with it), the same CredentialsMatcher — with a credentials table per proxy. The proxies
// stay alive side by side. Each proxy is judged by the model for ITS OWN configuration as the caller wrote it, and the
// caller's configuration must read after every construction (and after traffic) as the caller wrote it.

import (
	"fmt"
	"net"
	"net/url"
	"sort"
	"time"

	"github.com/saucelabs/forwarder"
	"github.com/saucelabs/forwarder/log"
	"github.com/saucelabs/forwarder/verifharness/core"
	"github.com/saucelabs/forwarder/verifharness/reqmodel"
	"github.com/saucelabs/forwarder/verifharness/rig"
)

type histStep struct {
	// From: "fresh" a new configuration with a new *url.URL | "same" the configuration object of step Of | "same-url" a new
	// configuration holding the *url.URL of step Of | "copy" a value copy of the configuration of step Of (URL pointer
	// shared) | "repoint" a value copy of the configuration whose URL is a value copy of step Of's pointed at Static.Host
	From string `json:"from"`
	Of   int    `json:"of,omitempty"`
	// Static: the upstream proxy URL of this proxy as the caller wrote it (for same/same-url/copy: that of step Of; for
	// repoint: that of step Of with the new host)
	Static      reqmodel.ProxyURL `json:"static"`
	Creds       []reqmodel.Cred   `json:"creds"`
	SameMatcher bool              `json:"same_matcher,omitempty"` // the CredentialsMatcher object of step Of is handed over (Creds = that step's)
}

// refers: the step uses something of step Of
func (s *histStep) refers() bool { return s.From != "fresh" || s.SameMatcher }

type histCase struct {
	Kind     string     `json:"kind"` // "history"
	MITM     bool       `json:"mitm,omitempty"`
	Steps    []histStep `json:"steps"`
	Requests []creq     `json:"requests"` // sent to every proxy alive after each construction
	// a finding: the proxy (step) and the request it is about
	Proxy   *int  `json:"proxy,omitempty"`
	Failing *creq `json:"failing,omitempty"`
}

// the scripted proxies by the scheme they are spoken to in
var histUpstreams = map[string][]string{
	"http":   {"proxya.test:3128", "gw.test:3128", "gw.test:3129", "gw.test:8080", "alt.test:3128"},
	"https":  {"proxyb.test:3129", "gw.test:3443"},
	"socks5": {"socks.test:1080", "gw.test:1080"},
}

// histCreds: a table for a proxy whose upstream is hostport: an entry for the upstream (exact or wildcard) or none, and
// entries for other addresses
func histCreds(r *core.Rand, hostport string, tag string, must bool) []reqmodel.Cred {
	var out []reqmodel.Cred
	seen := map[string]bool{}
	add := func(c reqmodel.Cred) {
		if k := c.Host + "|" + c.Port; !seen[k] {
			seen[k] = true
			out = append(out, c)
		}
	}
	h, p, _ := net.SplitHostPort(hostport)
	if must || r.Chance(60) {
		c := reqmodel.Cred{User: fmt.Sprintf("%s-%d", tag, r.Intn(1000)), Pass: core.Pick(r, []string{"pw", "p:w", "se cret", "x%y"}) + fmt.Sprint(r.Intn(100))}
		switch r.Intn(8) {
		case 0:
			c.Host, c.Port = h, "0"
		case 1:
			c.Host, c.Port = "*", p
		case 2:
			c.Host, c.Port = "*", "0"
		default:
			c.Host, c.Port = h, p
		}
		add(c)
	}
	for _, c := range genCreds(r, false) {
		if r.Chance(40) {
			add(c)
		}
	}
	core.Shuffle(r, out)
	return out
}

func genHistory(r *core.Rand) *histCase {
	hc := &histCase{Kind: "history", MITM: r.Chance(30)}
	scheme := core.Pick(r, []string{"http", "http", "http", "https", "socks5"})
	first := histStep{From: "fresh", Static: reqmodel.ProxyURL{Scheme: scheme, Host: core.Pick(r, histUpstreams[scheme])}}
	if r.Chance(20) {
		first.Static.User, first.Static.Pass = strp("urluser"), strp(core.Pick(r, []string{"url:pa ss%", "urlpw", ""}))
	}
	first.Creds = histCreds(r, first.Static.Host, "p0", r.Chance(75))
	hc.Steps = append(hc.Steps, first)
	n := r.Range(1, 3)
	for i := 1; i <= n; i++ {
		of := r.Intn(i)
		st := histStep{From: core.Pick(r, []string{"same", "same-url", "copy", "repoint", "repoint", "fresh"}), Of: of, Static: hc.Steps[of].Static}
		switch st.From {
		case "fresh":
			st.Of = 0
			st.Static = reqmodel.ProxyURL{Scheme: scheme, Host: core.Pick(r, histUpstreams[scheme])}
		case "repoint":
			others := []string{}
			for _, hp := range histUpstreams[st.Static.Scheme] {
				if hp != st.Static.Host {
					others = append(others, hp)
				}
			}
			st.Static.Host = core.Pick(r, others)
		}
		switch r.Intn(10) {
		case 0, 1, 2, 3:
			// no --credentials at all
		case 4, 5:
			st.Of = of // (a fresh configuration as well may be given the matcher of an earlier proxy)
			st.SameMatcher, st.Creds = true, hc.Steps[of].Creds
		default:
			st.Creds = histCreds(r, st.Static.Host, fmt.Sprintf("p%d", i), r.Chance(70))
		}
		hc.Steps = append(hc.Steps, st)
	}
	if r.Chance(30) {
		// the construction order permuted: the proxy that needs the table's entry is not the first one built from the URL
		// (a step may only refer to an earlier one, so only independent neighbours are swapped)
		for i := 1; i+1 < len(hc.Steps); i++ {
			if (!hc.Steps[i+1].refers() || hc.Steps[i+1].Of != i) && r.Bool() {
				hc.Steps[i], hc.Steps[i+1] = hc.Steps[i+1], hc.Steps[i]
				for k := i + 2; k < len(hc.Steps); k++ {
					switch {
					case !hc.Steps[k].refers():
					case hc.Steps[k].Of == i:
						hc.Steps[k].Of = i + 1
					case hc.Steps[k].Of == i+1:
						hc.Steps[k].Of = i
					}
				}
			}
		}
	}
	kinds := []string{"plain", "connect"}
	if hc.MITM {
		kinds = []string{"plain", "inner"}
	}
	for _, k := range kinds {
		id := fmt.Sprintf("c06h-%d", idSeq.Add(1))
		fs, lab := genClientFields(r, false, id)
		q := creq{Kind: k, Method: core.Pick(r, []string{"GET", "GET", "POST", "HEAD"}), Fields: fs, Label: lab + ",history"}
		switch k {
		case "plain":
			q.Authority = core.Pick(r, []string{"origin.test", "origin.test:80", "other.test", "origin.test:8080"})
			q.Absolute = r.Chance(40)
		case "inner":
			q.Authority = core.Pick(r, []string{"secure.test", "secure.test:443", "origin.test:443", "other.test"})
		case "connect":
			q.Method = "CONNECT"
			q.Authority = core.Pick(r, []string{"secure.test:443", "origin.test:443", "other.test:443"})
		}
		q.frame()
		hc.Requests = append(hc.Requests, q)
	}
	return hc
}

// exchange: one request through the proxy at addr, and everything the hops read meanwhile.
func exchange(h *hops, addr string, q *creq) *observed {
	ob := &observed{}
	h.reset()
	var c *rig.Client
	var err error
	if q.Kind == "inner" {
		if c, err = openTunnel(addr, false); err != nil {
			ob.Err = "intercepted tunnel: " + err.Error()
			return ob
		}
		h.reset()
	} else if c, err = rig.Dial(addr); err != nil {
		ob.Err = "dial: " + err.Error()
		return ob
	}
	c.Send(q.wire(), nil)
	res, rerr := c.ReadResponse(q.Method, 8*time.Second)
	if rerr != nil {
		ob.Err = rerr.Error()
	} else {
		ob.Status = res.Status
	}
	c.Close()
	settle(h)
	for name, peer := range h.peers() {
		for _, ex := range peer.Log() {
			if ex.Req == nil || ex.Err != nil {
				continue
			}
			ob.Heads = append(ob.Heads, head{Peer: name, Method: ex.Req.Method, Target: ex.Req.Target, Fields: ex.Req.FieldMap()})
		}
	}
	sort.SliceStable(ob.Heads, func(a, b int) bool { return ob.Heads[a].Peer < ob.Heads[b].Peer })
	ob.Socks = h.socks.Requests()
	return ob
}

func runHistory(ctx *core.Ctx, h *hops, hc *histCase) {
	type built struct {
		cfg *forwarder.HTTPProxyConfig
		u   *url.URL
		cm  *forwarder.CredentialsMatcher
		fc  reqmodel.FullCfg
		p   *rig.Proxy
	}
	var bs []*built
	defer func() {
		for _, b := range bs {
			if b.p != nil {
				b.p.Stop()
			}
		}
	}()
	report := func(i int, q *creq) any {
		c := *hc
		c.Proxy, c.Failing = &i, q
		return c
	}
	// the caller's URLs read as the caller wrote them
	unwritten := func(when string) bool {
		ok := true
		for i, b := range bs {
			want := hc.Steps[i].Static.URL()
			if b.cfg.UpstreamProxy != b.u || b.u.String() != want.String() || (b.u.User == nil) != (want.User == nil) {
				ok = false
				ctx.SpecFail("the configuration a constructor is handed is an input: the caller's UpstreamProxy URL (user information included) reads as the caller wrote it "+when,
					"", report(i, nil), fmt.Sprintf("URL of proxy %d reads %q (same object: %v)", i, b.u.String(), b.cfg.UpstreamProxy == b.u), fmt.Sprintf("written as %q", want.String()))
			}
		}
		return ok
	}
	ctx.Count(fmt.Sprintf("history/cases/%d-proxies", len(hc.Steps)))
	for i := range hc.Steps {
		st := &hc.Steps[i]
		if st.refers() && (st.Of < 0 || st.Of >= i) {
			core.Fatalf("history: step %d refers to step %d", i, st.Of)
		}
		b := &built{fc: reqmodel.FullCfg{
			Base:  reqmodel.Cfg{Name: "fwdverif", Tag: "unknown-tag", TimeAllowed: true, LocalNames: []string{"localhost", "0.0.0.0", "::"}, MITM: hc.MITM},
			Route: reqmodel.RouteCfg{Base: "static", Static: &st.Static},
			Creds: st.Creds,
		}}
		switch st.From {
		case "fresh":
			b.cfg, b.u = forwarder.DefaultHTTPProxyConfig(), st.Static.URL()
		case "same":
			b.cfg, b.u = bs[st.Of].cfg, bs[st.Of].u
		case "same-url":
			b.cfg, b.u = forwarder.DefaultHTTPProxyConfig(), bs[st.Of].u
		case "copy":
			c := *bs[st.Of].cfg
			b.cfg, b.u = &c, bs[st.Of].u
		case "repoint":
			c := *bs[st.Of].cfg
			u := *bs[st.Of].u
			u.Host = st.Static.Host
			b.cfg, b.u = &c, &u
		default:
			core.Fatalf("history: unknown step kind %q", st.From)
		}
		ctx.Count("history/step/" + st.From)
		if st.SameMatcher {
			b.cm = bs[st.Of].cm
			ctx.Count("history/step/same-matcher")
		} else {
			var hpus []*forwarder.HostPortUser
			for _, c := range st.Creds {
				hpus = append(hpus, &forwarder.HostPortUser{HostPort: forwarder.HostPort{Host: c.Host, Port: c.Port}, Userinfo: url.UserPassword(c.User, c.Pass)})
			}
			cm, err := forwarder.NewCredentialsMatcher(hpus, log.NopLogger)
			if err != nil {
				ctx.Crash("a valid credentials table is accepted", "", report(i, nil), err.Error())
				return
			}
			b.cm = cm
		}
		if _, _, c := upstreamSpec(&b.fc, ""); c != nil && st.Static.User == nil {
			ctx.Count("history/step/credentials-come-from-the-table")
		} else if c == nil {
			ctx.Count("history/step/no-upstream-credentials")
		}
		opts, err := reqmodel.ProxyOpts(&b.fc, nil, h.routes(), []string{h.caFile})
		if err != nil {
			ctx.Crash("proxy starts with a valid configuration", "", report(i, nil), err.Error())
			return
		}
		inner := opts.Configure
		u := b.u
		opts.Configure = func(cfg *forwarder.HTTPProxyConfig) {
			inner(cfg)
			cfg.UpstreamProxy = u
		}
		opts.Base, opts.Matcher = b.cfg, b.cm
		p, err := rig.StartProxy(opts)
		if err != nil {
			ctx.Crash("proxy starts with a valid configuration", "", report(i, nil), err.Error())
			return
		}
		b.p = p
		bs = append(bs, b)
		if !unwritten(fmt.Sprintf("after NewHTTPProxy (proxy %d built)", i)) {
			return
		}
		// every proxy alive is judged by its own configuration
		for j, pb := range bs {
			asCase := &ccase{Kind: "creds", Route: pb.fc.Route, Creds: pb.fc.Creds, MITM: hc.MITM}
			for k := range hc.Requests {
				q := hc.Requests[k].withCaseID(fmt.Sprintf("c06h-%d", idSeq.Add(1)))
				ob := exchange(h, pb.p.Addr, &q)
				judge(ctx, &pb.fc, asCase, report(j, &q), &q, ob, nil, true)
				ctx.Count("history/requests-judged")
				if j < i {
					ctx.Count("history/requests-to-a-proxy-built-before-another-construction")
				}
			}
		}
		if ctx.NumFindings() > 0 {
			return
		}
	}
	unwritten("after the proxies served requests")
}
