package c15

import (
	"bytes"
	"fmt"
	"runtime"
	"sort"
	"strings"
	"sync"
	"syscall"
	"time"

	"github.com/saucelabs/forwarder/verifharness/core"
)

// Crowds: "however many connections are stalled in any of these phases".
//
//	crowd    N peers stall in ONE phase of a stacking at the same time - inside / before the PROXY header, inside /
//	         before the listener's ClientHello, idle on a fresh connection, idle inside the (TLS / intercepted)
//	         session, inside a request head, inside a request body, silent after the 200 to an intercepted CONNECT,
//	         inside the ClientHello of the intercepted tunnel - or spread over all phases of the stacking ("mixed").
//	         N is far beyond any plausible fixed stock of slots, workers or tokens the proxy might serve connections
//	         from, and scales with the machine: 8, 64, 4*GOMAXPROCS+8, 8*GOMAXPROCS+32, max(300, 12*GOMAXPROCS).
//	         The peers are set up in parallel (each a well-behaved client up to its stall point). When all stall, a
//	         well-behaved client connects and does what the stacking asks of it (PROXY header, TLS handshake, CONNECT
//	         + handshake with the intercepting proxy, one request): it must be served within a bound that depends on
//	         the configuration only and is HALF the shortest limit (limits of these plans: 2.0-2.4 s, so the bound
//	         is >= 1 s; the same client alone takes milliseconds - a control probe is measured before the peers connect
//	         and reported). A proxy that serves connections, handshakes or requests from a finite stock which a
//	         stalled peer holds on to serves the client only when the first stalled peers have been cut off: a whole
//	         limit later. Every stalled peer is observed on its own clock and must be closed at ITS limit (+ slack <
//	         limit): peers that had to queue for the stock are closed a period late. The model answers as for every
//	         group: service start = arrival for every connection (Model.C15 serve; Theorems
//	         c15_good_client_start_independent_of_stalled_list, c15_handshake_begins_when_reached; the variant with a
//	         pool of handshake slots is refuted by c15_handshake_pool_refuted / _full_delays_to_first_cutoff).
type crowdCase struct {
	Kind  string `json:"kind"` // "crowd"
	Conf  Conf   `json:"conf"`
	Point string `json:"point"` // a crowd point of the stacking, or "mixed"
	N     int    `json:"n"`
	ID    string `json:"id"`
}

// crowdPointsFor: the phases a peer can stall in on a stacking. "fresh-idle"/"fresh-head" = on the connection as
// accepted (MITM: before CONNECT), "idle"/"head"/"body" = inside the session a well-behaved client has set up
// (after the listener's handshake / inside the intercepted tunnel).
func crowdPointsFor(stack string) []string {
	switch stack {
	case "plain":
		return []string{"idle", "head", "body"}
	case "tls":
		return []string{"tls-hello", "idle", "head", "body"}
	case "mitm":
		return []string{"fresh-idle", "fresh-head", "mitm-peek", "mitm-hello", "idle", "head", "body"}
	case "proxy":
		return []string{"proxy-header", "idle", "head", "body"}
	case "proxy+tls":
		return []string{"proxy-header", "tls-hello", "idle", "head", "body"}
	}
	return nil
}

// crowdSizes: far beyond any plausible fixed stock, scaled with the machine.
func crowdSizes() []int {
	p := runtime.GOMAXPROCS(0)
	big := 12 * p
	if big < 300 {
		big = 300
	}
	out := []int{8, 64, 4*p + 8, 8*p + 32, big}
	for i := range out {
		if out[i] > 1000 {
			out[i] = 1000
		}
	}
	return out
}

// peerOf derives peer i of a crowd (from the case alone).
func (cc *crowdCase) peerOf(i int) peerSpec {
	pt := cc.Point
	if pt == "mixed" {
		pts := crowdPointsFor(cc.Conf.Stack)
		pt = pts[i%len(pts)]
	}
	p := peerSpec{Point: pt, V2: cc.Conf.hasProxy() && i%3 == 1}
	// bytes of the unit sent before the stall: nothing, a few, most of it
	switch strings.TrimPrefix(pt, "fresh-") {
	case "proxy-header":
		p.K = []int{0, 5, 13, 1000}[i%4]
	case "tls-hello":
		p.K = []int{0, 1, 5, 43, 1000}[i%5]
	case "mitm-hello":
		p.K = []int{1, 5, 43, 1000}[i%4]
	case "head":
		p.K = []int{1, 16, 1000}[i%3]
	case "body":
		p.K = []int{0, 1, 700}[i%3]
	}
	return p
}

// crowdBoundUs: the bound on the well-behaved client's latency next to a crowd: half the shortest limit.
func (c Conf) crowdBoundUs() int64 { return int64(c.minLimit()) * 500 }

// ---- file descriptors: the crowds of all plans share one budget ----

var crowdBudget = struct {
	mu    sync.Mutex
	cond  *sync.Cond
	total int
	used  int
}{}

func crowdBudgetInit() {
	crowdBudget.mu.Lock()
	defer crowdBudget.mu.Unlock()
	if crowdBudget.cond != nil {
		return
	}
	crowdBudget.cond = sync.NewCond(&crowdBudget.mu)
	total := 6000
	var rl syscall.Rlimit
	if err := syscall.Getrlimit(syscall.RLIMIT_NOFILE, &rl); err == nil {
		// a stalled peer is two descriptors (both ends are in this process), one in a request body four
		if n := (int(rl.Cur) - 2000) / 3; n < total {
			total = n
		}
	}
	if total < 16 {
		total = 16
	}
	crowdBudget.total = total
}

// crowdAcquire takes n units of the budget (fewer when the whole budget is smaller) and returns what it got.
func crowdAcquire(n int) int {
	crowdBudgetInit()
	crowdBudget.mu.Lock()
	defer crowdBudget.mu.Unlock()
	if n > crowdBudget.total {
		n = crowdBudget.total
	}
	for crowdBudget.used+n > crowdBudget.total {
		crowdBudget.cond.Wait()
	}
	crowdBudget.used += n
	return n
}

func crowdRelease(n int) {
	crowdBudget.mu.Lock()
	crowdBudget.used -= n
	crowdBudget.mu.Unlock()
	crowdBudget.cond.Broadcast()
}

// ---- one crowd ----

var crowdSetup = make(chan struct{}, 2)

const (
	crowdPatience = 4 * time.Second // a peer of a crowd on its way to its stall point, per step
	crowdSetupMax = 5 * time.Second // no further peer is set up after that
)

// crowdStall drives s to the stall point of a crowd peer (a well-behaved client up to there).
func (s *sess) crowdStall(ps peerSpec) (anchor time.Time, inconclusive string, err error) {
	switch ps.Point {
	case "fresh-idle":
		return s.stallAt("idle", ps.K, 0, 0, ps.V2, true)
	case "fresh-head":
		return s.stallAt("head", ps.K, 0, 0, ps.V2, true)
	case "body":
		if _, err = s.prelude(ps.V2); err != nil {
			return
		}
		const total = 4096
		_, head := s.requestHead(total, 0)
		k := clampK(ps.K, total, 0)
		s.rest = bytes.Repeat([]byte{'b'}, total-k)
		anchor, err = s.write(append(head, bytes.Repeat([]byte{'b'}, k)...))
		s.ev(anchor, "hb")
		return
	}
	return s.stallAt(ps.Point, ps.K, 0, 0, ps.V2, false)
}

func crowdPointOf(point string) string { return strings.TrimPrefix(point, "fresh-") }

type crowdObs struct {
	peers     []*peerObs
	n         int // peers asked for, after the descriptor budget
	lat       time.Duration
	control   time.Duration
	arrive    int64
	hdrAt     int64
	perr      error
	pslow     bool
	setupMs   int64
	setupErr  error
	setupSlow int
	givenUp   int // peers not set up because the set-up had taken crowdSetupMax
}

func (e *env) crowdOnce(cc *crowdCase, attempt int) *crowdObs {
	g := &crowdObs{}
	weight := 1
	if cc.Point == "body" || cc.Point == "mixed" {
		weight = 2
	}
	got := crowdAcquire(cc.N * weight)
	defer crowdRelease(got)
	g.n = got / weight
	// control: the same client with no crowd of this case next to it (reported, not judged)
	g.control, _, _, _, _ = e.probe(time.Time{}, fmt.Sprintf("%s-a%d-control", cc.ID, attempt))
	// two crowds are set up at a time (a set-up is a burst of handshakes on both sides, in this process)
	crowdSetup <- struct{}{}
	setupDone := sync.OnceFunc(func() { <-crowdSetup })
	defer setupDone()
	base := time.Now()
	var (
		mu sync.Mutex
		wg sync.WaitGroup // observers
		sw sync.WaitGroup // set-up
	)
	defer func() {
		for _, p := range g.peers {
			p.s.close()
		}
	}()
	idx := make(chan int)
	for w := 0; w < 16; w++ {
		sw.Add(1)
		go func() {
			defer sw.Done()
			for i := range idx {
				if time.Since(base) > crowdSetupMax {
					// a proxy that lets the peers wait on their way to the stall point: the crowd is given up
					// (every wait of the scenario is bounded), the attempt says nothing about the client
					mu.Lock()
					g.givenUp++
					mu.Unlock()
					continue
				}
				ps := cc.peerOf(i)
				s, err := e.dial(base, fmt.Sprintf("%s-a%d-p%d", cc.ID, attempt, i))
				if err != nil {
					mu.Lock()
					if g.setupErr == nil {
						g.setupErr = fmt.Errorf("peer %d: dial: %w", i, err)
					}
					mu.Unlock()
					continue
				}
				s.patience = crowdPatience
				po := &peerObs{s: s, spec: ps}
				mu.Lock()
				g.peers = append(g.peers, po)
				mu.Unlock()
				began := time.Now()
				anchor, inconclusive, err := s.crowdStall(ps)
				if err != nil && time.Since(began) > crowdPatience/2 {
					s.slow = true // it waited for seconds: says nothing about this peer (the client next to the crowd is what is judged)
				}
				if err != nil && inconclusive == "" && !s.slow {
					mu.Lock()
					if g.setupErr == nil {
						g.setupErr = fmt.Errorf("peer %d (%s): %w", i, ps.Point, err)
					}
					mu.Unlock()
					po.skip = "set-up failed"
					continue
				}
				if err != nil || inconclusive != "" {
					po.skip = "client too slow"
					mu.Lock()
					g.setupSlow++
					mu.Unlock()
					continue
				}
				po.anchor = anchor
				po.limit = cc.Conf.limitAt(crowdPointOf(ps.Point))
				wait := time.Duration(po.limit)*time.Millisecond + e.slack
				if po.limit == 0 {
					wait = time.Duration(cc.Conf.maxLimit()+600) * time.Millisecond
				}
				po.until = anchor.Add(wait)
				wg.Add(1)
				go func() {
					defer wg.Done()
					po.closed, po.at = s.awaitClose(po.until)
				}()
			}
		}()
	}
	for i := 0; i < g.n; i++ {
		idx <- i
	}
	close(idx)
	sw.Wait()
	g.setupMs = time.Since(base).Milliseconds()
	setupDone()
	g.lat, g.arrive, g.hdrAt, g.pslow, g.perr = e.probe(base, fmt.Sprintf("%s-a%d-probe", cc.ID, attempt))
	wg.Wait()
	return g
}

func (e *env) runCrowd(ctx *core.Ctx, cc *crowdCase) {
	key := *cc
	key.ID = ""
	ctx.Case(canon(key), true)
	ctx.Count("stack/" + cc.Conf.Stack)
	ctx.Count(fmt.Sprintf("crowd/%s/%s", cc.Conf.Stack, cc.Point))
	ctx.Count("crowd-size/" + crowdBucket(cc.N))
	attempt := 0
	confirm(ctx, func(r *rec) {
		attempt++
		e.judgeCrowd(ctx, r, cc, attempt)
	})
}

func crowdBucket(n int) string {
	p := runtime.GOMAXPROCS(0)
	switch {
	case n < 4*p:
		return "n<4*GOMAXPROCS"
	case n < 8*p:
		return "4*GOMAXPROCS<=n<8*GOMAXPROCS"
	}
	return "n>=8*GOMAXPROCS"
}

const maxPeerReports = 3 // of the peers of one crowd that are found wrong, the first few are reported

func (e *env) judgeCrowd(ctx *core.Ctx, r *rec, cc *crowdCase, attempt int) {
	bound := cc.Conf.crowdBoundUs()
	g := e.crowdOnce(cc, attempt)
	if g.n < cc.N {
		ctx.Count("crowd-reduced/descriptor-budget")
	}
	if g.setupErr != nil {
		r.SpecFail(clauseServed, "", cc, "a peer of the crowd (a well-behaved client up to its stall point) could not reach its stall point: "+g.setupErr.Error(), "")
		return
	}
	// queue order = order of arrival (the peers were set up in parallel)
	sort.SliceStable(g.peers, func(i, j int) bool { return g.peers[i].s.t0.Before(g.peers[j].s.t0) })
	var wire []string
	for _, p := range g.peers {
		h := int64(-1)
		if cc.Conf.hasProxy() {
			h = p.s.hdrAt
		}
		wire = append(wire, fmt.Sprintf("%d:%s", p.s.us(p.s.t0), showOpt(h)))
	}
	ph := int64(-1)
	if cc.Conf.hasProxy() {
		ph = g.hdrAt
	}
	wire = append(wire, fmt.Sprintf("%d:%s", g.arrive, showOpt(ph)))
	slots := e.askAccept(ctx.Model, wire)
	if len(slots) != len(wire) {
		core.Fatalf("model answered %d slots for %d peers", len(slots), len(wire))
	}
	// --- every stalled peer on its own clock
	stalled, wrong := 0, 0
	for i, p := range g.peers {
		if p.skip != "" {
			ctx.Count("crowd-peer-skipped/" + p.skip)
			continue
		}
		one := map[string]any{"kind": "crowd-peer", "crowd": cc, "peer": i, "point": p.spec.Point, "k": p.spec.K}
		pr := &rec{}
		e.judgeClose(ctx, pr, one, p.s, crowdPointOf(p.spec.Point), p.limit, p.anchor, p.closed, p.at, p.until, slots[i].Start)
		if pr.inconclusive != "" {
			ctx.Count("crowd-peer-skipped/" + pr.inconclusive)
			continue
		}
		stalled++
		if pr.hard {
			if wrong++; wrong > maxPeerReports {
				continue
			}
		}
		r.reports = append(r.reports, pr.reports...)
		r.kinds = append(r.kinds, pr.kinds...)
		r.hard = r.hard || pr.hard
		r.validated += pr.validated
	}
	ctx.CountN("crowd-peers-judged", stalled)
	// --- the well-behaved client
	lat := g.lat.Microseconds()
	impl := fmt.Sprintf("latency of the well-behaved client %dus (the same client before the crowd connected: %dus), error=%v, %d peers stalled at %q (%d judged, %d of them not closed at their own limit), set up in %dms, bound %dus",
		lat, g.control.Microseconds(), g.perr, len(g.peers), cc.Point, stalled, wrong, g.setupMs, bound)
	last := slots[len(slots)-1]
	modelDelay := int64(-1)
	if last.Start >= 0 {
		modelDelay = last.Start - g.arrive
	}
	mdl := fmt.Sprintf("accept-loop delay of the well-behaved client %sus; service start of every connection = its arrival", showOpt(modelDelay))
	switch {
	case g.perr != nil && g.pslow && !r.hard:
		r.inconclusive = "probe client too slow in its prelude"
		return
	case !r.hard && (g.givenUp > 0 || g.setupMs > int64(cc.Conf.minLimit())/2 || 2*stalled < len(g.peers)):
		// the crowd was not there when the client came: says nothing (unless its peers were found wrong)
		r.inconclusive = "crowd set up too slowly"
		return
	case g.perr != nil:
		r.SpecFail(clauseProbe, "", cc, impl, "the well-behaved client was not served")
		r.Disagree("the well-behaved client is served (Model.C15 serve)", cc, impl, mdl)
	default:
		ok := true
		if modelDelay < 0 || lat+epsUs < modelDelay || lat > modelDelay+e.slack.Microseconds() {
			r.Disagree("delay of the well-behaved client in the accept loop: model − eps ≤ latency ≤ model + slack (Model.C15 serve)", cc, impl, mdl)
			ok = false
		}
		if lat > bound {
			r.SpecFail(clauseProbe, "", cc, impl, fmt.Sprintf("latency above the bound %dus (half the shortest limit), which does not depend on the number of stalled peers", bound))
			ok = false
		}
		if ok {
			r.validated++
		}
	}
}

// ---- generators ----

func genCrowdLimits(r *core.Rand) Limits {
	v := func() int { return 10 * r.Range(200, 240) }
	return Limits{Idle: v(), ReadHeader: v(), TLS: v(), ProxyHdr: v()}
}

// genCrowdJobs: quick - every phase of the stacking with one size beyond 4*GOMAXPROCS, and one mixed crowd of the
// largest size; thorough - the whole grid of sizes x phases.
func genCrowdJobs(ctx *core.Ctx, r *core.Rand, conf Conf, id func(kind string, i int) string) []job {
	var jobs []job
	sizes := crowdSizes()
	large := sizes[2:]
	n := 0
	add := func(point string, size int) {
		jobs = append(jobs, job{crowd: &crowdCase{Kind: "crowd", Conf: conf, Point: point, N: size, ID: id("c", n)}})
		n++
	}
	for _, pt := range append(crowdPointsFor(conf.Stack), "mixed") {
		switch {
		case !ctx.Quick():
			for _, sz := range sizes {
				add(pt, sz)
			}
		case pt == "mixed":
			add(pt, sizes[len(sizes)-1])
		case pt == "body":
			add(pt, large[0])
		default:
			add(pt, core.Pick(r, large))
		}
	}
	core.Shuffle(r, jobs)
	return jobs
}
