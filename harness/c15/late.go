package c15

import (
	"errors"
	"fmt"
	"net"
	"time"

	"github.com/saucelabs/forwarder/verifharness/core"
)

// One period, not two: what the proxy does with bytes that arrive AFTER the limit.
//
//	late     a client stalls at a point of a stacking (silent after the PROXY header / inside it, inside the
//	         listener's ClientHello, idle on a fresh connection or after served keep-alive requests, inside a
//	         request head, silent after the 200 to an intercepted CONNECT, inside the ClientHello of the
//	         intercepted tunnel), stays silent for ONE AND A HALF periods of the limit that governs the phase and
//	         only then sends the bytes that would have been progress (the rest of the header / hello / head, a
//	         complete request, a complete ClientHello). The limits of these plans are 600-800 ms, the upper slack
//	         on the close is 0.4 x limit. An expired wait ends the connection (Model.C15 expiryErr: handle returns
//	         errClose; Theorems c15_timeout_closes_never_rearms): the proxy has closed at anchor + limit, before
//	         the late bytes are sent, and answers them with nothing. A wait that is started over instead - the
//	         time-out handed to handleLoop as an error it does not close on (isCloseable excludes time-outs),
//	         readRequest arming a fresh idle deadline when the loop comes round - is still open at 1.4 x limit,
//	         reads the late bytes as a request head (a ClientHello is answered 400) and is closed after two
//	         periods.

type lateCase struct {
	Kind     string `json:"kind"` // "late"
	Conf     Conf   `json:"conf"`
	Point    string `json:"point"` // proxy-header | tls-hello | idle | head | mitm-peek | mitm-hello
	K        int    `json:"k"`
	Requests int    `json:"requests,omitempty"` // idle, head: complete exchanges before
	V2       bool   `json:"v2,omitempty"`
	ID       string `json:"id"`
}

const (
	clauseLateBytes = "a connection that made no progress for the applicable limit is closed then: bytes that arrive afterwards are not served"
	relExpiry       = "an expired wait ends the connection, what arrives afterwards is not looked at (Model.C15 run: closed at the deadline whatever follows)"
)

// drainUntil reads whatever the proxy sends until it closes the connection or until the deadline.
func (s *sess) drainUntil(until time.Time) (got []byte, closed bool) {
	buf := make([]byte, 4096)
	for {
		s.conn.SetReadDeadline(until)
		n, err := s.br.Read(buf)
		if len(got) < 512 {
			got = append(got, buf[:n]...)
		}
		if err != nil {
			var ne net.Error
			return got, !(errors.As(err, &ne) && ne.Timeout())
		}
	}
}

func (e *env) runLate(ctx *core.Ctx, lc *lateCase) {
	key := *lc
	key.ID = ""
	ctx.Case(canon(key), true)
	ctx.Count("stack/" + lc.Conf.Stack)
	ctx.Count("late-bytes/" + lc.Point + "/" + kBucket(lc.K))
	if lc.Requests > 0 {
		ctx.Count("late-bytes/" + lc.Point + "/between-requests")
	}
	limit := lc.Conf.limitAt(lc.Point)
	if limit <= 0 {
		return
	}
	n := 0
	confirm(ctx, func(r *rec) {
		n++
		s, err := e.dial(time.Time{}, fmt.Sprintf("%s.%d", lc.ID, n))
		if err != nil {
			r.Crash("proxy accepts a client connection", lc, err.Error())
			return
		}
		defer s.close()
		anchor, inconclusive, err := s.stallAt(lc.Point, lc.K, 0, lc.Requests, lc.V2, false)
		if inconclusive != "" {
			r.inconclusive = inconclusive
			return
		}
		if err != nil {
			if s.slow || e.slowClientExplains(ctx.Model, s, 0) {
				r.inconclusive = "client too slow on its way to the stall point"
				return
			}
			r.SpecFail(clauseServed, "", lc, "client could not reach its stall point: "+err.Error(), "")
			return
		}
		period := time.Duration(limit) * time.Millisecond
		slack := period * 4 / 10
		until := anchor.Add(period + slack)
		closed, at := s.awaitClose(until)
		// the would-be second period: the late bytes leave at anchor + 1.5 x limit, whatever was seen so far
		late := s.rest
		kind := "c"
		switch lc.Point {
		case "idle":
			_, late = s.requestHead(0, 0)
			kind = "hn"
		case "head":
			kind = "hn"
		case "mitm-peek", "mitm-hello":
			kind = "d"
		}
		if d := time.Until(anchor.Add(period * 3 / 2)); d > 0 {
			time.Sleep(d)
		}
		sentAt, werr := s.write(late)
		s.ev(sentAt, kind)
		var got []byte
		open2 := false
		if werr == nil {
			var c2 bool
			got, c2 = s.drainUntil(time.Now().Add(period * 3 / 10))
			open2 = !c2
		}
		if over := sentAt.Sub(anchor) - period*3/2; over > period*3/10 {
			r.inconclusive = "client overslept: the late bytes left after the second period"
			return
		}
		e.judgeCloseWithin(ctx, r, lc, s, lc.Point, limit, anchor, closed, at, until, 0, slack.Microseconds())
		if r.inconclusive != "" {
			return
		}
		mo := askDeadline(ctx.Model, e.conf, 0, s.events)
		impl := fmt.Sprintf("closed_before_late_bytes=%v late_bytes_sent_at=%dus (anchor %dus, limit %dms) write_error=%v answered_with=%q still_open_afterwards=%v events=%v",
			closed, s.us(sentAt), s.us(anchor), limit, werr, got, open2, s.events)
		switch {
		case len(got) > 0 && !closed:
			r.SpecFail(clauseLateBytes, "", lc, impl, fmt.Sprintf("%d ms after the phase began (limit %d ms) the connection was still open and the bytes sent then were answered", sentAt.Sub(anchor).Milliseconds(), limit))
			if mo.Closed && mo.At < s.us(sentAt) {
				r.Disagree(relExpiry, lc, impl, mo.Raw)
			}
		case open2 && !closed:
			r.SpecFail(clauseLateBytes, "", lc, impl, "the connection was still open after the late bytes: the wait was started over")
		}
	})
}

func latePointsFor(stack string) []lateCase {
	idle := []lateCase{{Point: "idle"}, {Point: "idle", Requests: 1}, {Point: "head"}, {Point: "head", Requests: 1}}
	switch stack {
	case "plain":
		return idle
	case "tls":
		return append([]lateCase{{Point: "tls-hello"}, {Point: "tls-hello"}}, idle...)
	case "mitm":
		return append([]lateCase{{Point: "mitm-peek"}, {Point: "mitm-peek"}, {Point: "mitm-hello"}, {Point: "mitm-hello"}}, idle...)
	case "proxy":
		return append([]lateCase{{Point: "proxy-header"}, {Point: "proxy-header", V2: true}}, idle...)
	case "proxy+tls":
		return append([]lateCase{{Point: "proxy-header"}, {Point: "proxy-header", V2: true}, {Point: "tls-hello"}}, idle...)
	}
	return nil
}

// genLateLimits: every limit 600-800 ms and pairwise different by at least 50 ms where two phases follow each other
// (a close at the limit of the NEXT phase's clock is then told apart from one at this phase's).
func genLateLimits(r *core.Rand) Limits {
	vals := []int{600, 650, 700, 750, 800}
	core.Shuffle(r, vals)
	return Limits{Idle: vals[0], ReadHeader: vals[1], TLS: vals[2], ProxyHdr: vals[3]}
}

func genLateJobs(ctx *core.Ctx, r *core.Rand, conf Conf, id func(kind string, i int) string) []job {
	var jobs []job
	pts := latePointsFor(conf.Stack)
	for i := 0; i < ctx.N(len(pts), 2*len(pts)); i++ {
		lc := pts[i%len(pts)]
		lc.Kind, lc.Conf, lc.ID = "late", conf, id("l", i)
		lc.K = genK(r, lc.Point, lc.V2)
		if i >= len(pts) && lc.Requests > 0 {
			lc.Requests = r.Range(1, 3)
		}
		jobs = append(jobs, job{late: &lc})
	}
	core.Shuffle(r, jobs)
	return jobs
}
