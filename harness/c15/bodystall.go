package c15

import (
	"bytes"
	"fmt"
	"strconv"
	"strings"
	"time"

	"github.com/saucelabs/forwarder/verifharness/core"
	"github.com/saucelabs/forwarder/verifharness/rig"
)

// Stalls inside a request BODY with ReadTimeout set (known finding F49).
//
// The body is read by the round trip under the whole-request deadline t0 + ReadTimeout. When it expires the
// failed read comes back as the round trip's error: the client is sent `504 Gateway Timeout` ("timed out
// connecting to remote host": the origin is blamed for the client's stall) without `Connection: close`, and
// handleLoop comes round - the connection is NOT closed at t0 + ReadTimeout, it idles from that instant and
// is closed idleTimeout() later (Model.C15 settle / timeoutsK). The model mirrors that; the property's clause
// ("closed once the applicable limit has elapsed", the limit being ReadTimeout counted from the first byte of
// the request) is evaluated as it reads, with an upper slack of half an idle timeout, and fails on exactly these
// inputs: class body-stall-answered-504-then-idle, decided from the input alone (a body stall with
// ReadTimeout set). Everything else about the observation is held to the model without a class: the 504 not
// before t0 + ReadTimeout and not later than + slack, no Connection: close, the close not before
// t0 + ReadTimeout + idle and not later than + slack. (A stall in the trailer section of a chunked body is
// answered 500 instead of 504: timeoutStatus; when one byte of the final CRLF has arrived it stays in the
// proxy's reader and is read as a request head when the loop comes round: closed readHeaderTimeout() - not
// idleTimeout() - after the 500, event `pk`, Model.C15 Ev.peeked.)

type bodyStallCase struct {
	Kind     string `json:"kind"` // "bodystall"
	Conf     Conf   `json:"conf"` // ReadTimeout set
	Requests int    `json:"requests,omitempty"`
	Chunked  bool   `json:"chunked,omitempty"`
	Body     int    `json:"body"` // bytes of content (Content-Length, or the total of the chunks)
	K        int    `json:"k"`    // bytes of the body as it is framed on the wire sent with the head (0 .. all but the last)
	ID       string `json:"id"`
}

const (
	classBodyStall = "body-stall-answered-504-then-idle"
	clauseBodyRT   = "a connection that makes no progress is closed once the applicable limit has elapsed (inside a request body: ReadTimeout from the first byte of the request)"
	relBody504     = "a request body still incomplete at t0 + ReadTimeout is answered 504 Gateway Timeout at that instant and the connection idles on (Model.C15 timeoutsK / settle)"
)

func askTimeouts(m *core.Model, conf Conf, accept int64, events []string) []int64 {
	ans := m.MustAsk("C15", "timeouts", conf.stackWire(), conf.limitsWire(), strconv.FormatInt(accept, 10), core.JoinList(events))
	var out []int64
	for _, a := range core.SplitList(ans) {
		out = append(out, optInt(a))
	}
	return out
}

// framedBody renders n bytes of content as they travel: plain, or in chunks of at most 700 bytes.
func framedBody(n int, chunked bool) []byte {
	content := bytes.Repeat([]byte{'b'}, n)
	if !chunked {
		return content
	}
	var b bytes.Buffer
	for len(content) > 0 {
		c := content
		if len(c) > 700 {
			c = c[:700]
		}
		fmt.Fprintf(&b, "%x\r\n%s\r\n", len(c), c)
		content = content[len(c):]
	}
	b.WriteString("0\r\n\r\n")
	return b.Bytes()
}

func (s *sess) bodyRequestHead(n int, chunked bool) (string, []byte) {
	if !chunked {
		return s.requestHead(n, 0)
	}
	s.nreq++
	rid := fmt.Sprintf("%s-%d", s.id, s.nreq)
	return rid, []byte(fmt.Sprintf("POST %s HTTP/1.1\r\nHost: origin.test\r\nCase-Id: %s\r\nTransfer-Encoding: chunked\r\n\r\n", s.target(), rid))
}

func (e *env) runBodyStall(ctx *core.Ctx, bc *bodyStallCase) {
	key := *bc
	key.ID = ""
	ctx.Case(canon(key), true)
	ctx.Count("stack/" + bc.Conf.Stack)
	ctx.Count("body-stall-read-timeout/" + map[bool]string{true: "chunked", false: "content-length"}[bc.Chunked] + "/" + kBucket(bc.K))
	if bc.Requests > 0 {
		ctx.Count("body-stall-read-timeout/between-requests")
	}
	n := 0
	confirm(ctx, func(r *rec) {
		n++
		s, err := e.dial(time.Time{}, fmt.Sprintf("%s.%d", bc.ID, n))
		if err != nil {
			r.Crash("proxy accepts a client connection", bc, err.Error())
			return
		}
		defer s.close()
		idleFrom, err := s.prelude(false)
		for i := 0; err == nil && i < bc.Requests; i++ {
			st, status, xerr := s.exchange(0, 0, 10*time.Second)
			if xerr != nil || status != 200 {
				err = fmt.Errorf("exchange %d: status %d: %v", i, status, xerr)
			}
			idleFrom = st
		}
		if err != nil {
			if s.slow || e.slowClientExplains(ctx.Model, s, 0) {
				r.inconclusive = "client too slow on its way to the stall point"
				return
			}
			r.SpecFail(clauseServed, "", bc, "client could not reach its stall point: "+err.Error(), "")
			return
		}
		_, head := s.bodyRequestHead(bc.Body, bc.Chunked)
		wire := framedBody(bc.Body, bc.Chunked)
		k := clampK(bc.K, len(wire), 0)
		t, werr := s.write(append(head, wire[:k]...))
		s.ev(t, "hb")
		if k > 0 {
			s.ev(t, "d")
		}
		if bc.Chunked && k == len(wire)-1 {
			// the first byte of the CRLF that ends the chunked body: readTrailer only peeks it, it is still in
			// the proxy's reader when the loop comes round after the 500 and is read as a request head
			s.ev(t, "pk")
		}
		if werr != nil {
			r.SpecFail(clauseServed, "", bc, "write: "+werr.Error(), "")
			return
		}
		if idle := e.conf.idleEff(); idle > 0 && t.Sub(idleFrom) > time.Duration(idle-40)*time.Millisecond {
			r.inconclusive = "client overslept: first head byte sent too close to the idle deadline"
			return
		}
		e.judgeBodyStall(ctx, r, bc, s, t, timeoutStatus(bc.Chunked, k, len(wire)))
	})
}

// timeoutStatus: the status of the error response that answers the failed body read. The transport's error is a
// time-out (504) - except when the stall is in the TRAILER section of a chunked body (the last-chunk line
// "0\r\n" has arrived, the final CRLF has not): net/http's body.readTrailer turns a short Peek into
// "http: unexpected EOF reading trailer", which is no time-out (500). Decided from the input alone.
func timeoutStatus(chunked bool, k, wireLen int) int {
	if chunked && k >= wireLen-2 {
		return 500
	}
	return 504
}

// judgeBodyStall observes a connection that stalled inside a request body whose head began at `anchor` (client-side
// lower bound) with ReadTimeout set, compares with the model and evaluates the clause.
func (e *env) judgeBodyStall(ctx *core.Ctx, r *rec, cs any, s *sess, anchor time.Time, wantStatus int) {
	readMs, idleMs := e.conf.L.Read, e.conf.idleEff()
	until := anchor.Add(time.Duration(readMs+idleMs)*time.Millisecond + e.slack)
	// --- observation: a response (if any), then the end of the connection
	s.conn.SetReadDeadline(until)
	res, rerr := rig.ReadResponse(s.br, "POST")
	tRes := time.Now()
	s.conn.SetReadDeadline(time.Time{})
	var closed bool
	var at time.Time
	switch {
	case res != nil && rerr == nil:
		closed, at = s.awaitClose(until)
	case tRes.Before(until):
		closed, at = true, tRes // the connection ended without a (complete) response
	default:
		closed, at = false, tRes
	}
	// --- model
	mo := askDeadline(ctx.Model, e.conf, 0, s.events)
	tm := askTimeouts(ctx.Model, e.conf, 0, s.events)
	mr := askDeadline(ctx.Model, e.conf.reduced(marginMs), 0, s.events)
	tr := askTimeouts(ctx.Model, e.conf.reduced(marginMs), 0, s.events)
	if !mo.Closed || (mo.Phase != "idle" && mo.Phase != "header") || len(tm) != 1 || mo.Anchor != tm[0] || mr.Phase != mo.Phase || len(tr) != 1 {
		r.inconclusive = "client too slow: by its own time stamps the request did not reach its body in time"
		return
	}
	A, O, R := s.us(anchor), s.us(at), s.us(tRes)
	slackUs := e.slack.Microseconds()
	status, connClose, errText := 0, false, ""
	if res != nil {
		status = res.Status
		for _, v := range res.Values("Connection") {
			if strings.Contains(strings.ToLower(v), "close") {
				connClose = true
			}
		}
		errText = res.Get("X-Forwarder-Error")
		if len(errText) > 120 {
			errText = errText[:120]
		}
	}
	impl := fmt.Sprintf("response status=%d at=%dus connection-close=%v error=%q; closed=%v observed_at=%dus; request began=%dus ReadTimeout=%dms idle=%dms events=%v",
		status, R, connClose, errText, closed, O, A, readMs, idleMs, s.events)
	ok := true
	// correspondence: the 504
	switch {
	case res == nil || rerr != nil || status != wantStatus:
		r.Disagree(relBody504, cs, impl, fmt.Sprintf("%d at %dus; %s", wantStatus, tm[0], mo.Raw))
		ok = false
	case R < tm[0]-epsUs || R > tm[0]+slackUs:
		r.Disagree(relBody504+": instant of the 504: model − eps ≤ observed ≤ model + slack", cs, impl, fmt.Sprintf("504 at %dus; %s", tm[0], mo.Raw))
		ok = false
	case connClose:
		r.Disagree(relBody504+": the 504 does not announce a close", cs, impl, fmt.Sprintf("504 at %dus; %s", tm[0], mo.Raw))
		ok = false
	}
	// correspondence: the close
	switch {
	case !closed:
		r.Disagree("whether the proxy closes the stalled connection (Model.C15 runK)", cs, impl, mo.Raw)
		ok = false
	case O < mo.At-epsUs || O > mo.At+slackUs:
		r.Disagree("instant of the close: model − eps ≤ observed ≤ model + slack (Model.C15 runK)", cs, impl, mo.Raw)
		ok = false
	default:
		noteDelta(O - mo.At)
	}
	// clauses
	elapsed := O - A
	if !closed {
		elapsed = s.us(until) - A + 1
	}
	if closed && elapsed+epsUs < int64(readMs)*1000 {
		r.SpecFail(clauseEarly, "", cs, impl, fmt.Sprintf("closed %dus after the request began; ReadTimeout is %dus", elapsed, readMs*1000))
		ok = false
	}
	// the clause as it reads: closed at bodyStart + ReadTimeout; upper slack = half an idle timeout
	half := int64(idleMs) * 500
	switch v := ctx.Model.MustAsk("C15", "holds", "close", strconv.Itoa(readMs*1000), strconv.FormatInt(elapsed, 10), strconv.Itoa(epsUs), strconv.FormatInt(half, 10)); v {
	case "true", "false early": // early: reported above
	case "false late":
		d := fmt.Sprintf("stalled inside a request body: still open %dus after the request began (ReadTimeout %dus) - answered %d instead of closed, the connection idles on", elapsed, readMs*1000, status)
		r.SpecFail(clauseBodyRT, classBodyStall, cs, impl, d)
	default:
		core.Fatalf("unexpected model answer %q", v)
	}
	if ok {
		r.validated++
	}
}

// ---- generator ----

func genBodyStalls(ctx *core.Ctx, r *core.Rand, conf Conf, id func(kind string, i int) string, quick, thorough int) []job {
	var jobs []job
	if conf.L.Read <= 0 {
		return nil
	}
	for i := 0; i < ctx.N(quick, thorough); i++ {
		bc := &bodyStallCase{Kind: "bodystall", Conf: conf, ID: id("bs", i), Chunked: i%2 == 1, Body: core.Pick(r, []int{1, 10, r.Range(2, 3000), r.Range(2, 3000)})}
		if i >= 2 { // the first two: nothing of the body (Content-Length, chunked)
			n := len(framedBody(bc.Body, bc.Chunked))
			bc.K = core.Pick(r, []int{1, n - 1, r.Intn(n), r.Intn(n)})
			if bc.Chunked { // around the end of the last-chunk line: before it 504, in the trailer section 500
				bc.K = core.Pick(r, []int{1, n - 1, n - 2, n - 3, r.Intn(n), r.Intn(n)})
			}
		}
		if r.Chance(35) {
			bc.Requests = r.Range(1, 2)
		}
		jobs = append(jobs, job{bodystall: bc})
	}
	return jobs
}
