package c15

import (
	"bytes"
	"fmt"
	"time"

	"github.com/saucelabs/forwarder/verifharness/core"
)

// Keep-alive connections whose client writes AHEAD, and peers that DRIBBLE.
//
//	pipe     1-3 requests are served on one connection; then the client stalls inside the next unit - k bytes
//	         of a request head (1, a few, most of it, all but the last CRLF / LF), or a complete head and part of
//	         its body. The stalled bytes reach the proxy (a) in the SAME segment as the previous complete
//	         request(s) - HTTP pipelining: they sit in the proxy's bufio reader while that request is served, for
//	         as long as the origin takes -, (b) right after the previous response, (c) after an idle gap.
//	         readRequest arms its deadlines every time the loop comes round, whatever the reader holds; for bytes
//	         that are already there the head has begun at that instant (Peek returns at once, t0 = now). Hence
//	         (Model.C15 runK): closed at loopRound + readHeaderTimeout() in (a) - the client-side lower bound of
//	         loopRound is the instant the origin began to write the previous response -, at firstByte +
//	         readHeaderTimeout() in (b) and (c); a partial body is under loopRound + ReadTimeout (never cut when
//	         ReadTimeout is unset: the rest of the body is then sent and the request must be answered; with
//	         ReadTimeout set: bodystall.go, known finding F49).
//	dribble  the unit of a phase whose limit bounds a whole operation of many reads - PROXY header (v1, v2),
//	         listener ClientHello, request head (also on a kept-alive connection), ClientHello inside an
//	         intercepted tunnel - arrives piece by piece, every pause shorter than the limit, for longer than
//	         limit + slack, and is never completed. The deadline is fixed once, when the phase begins
//	         (Model.C15: a piece that does not complete the phase is no progress): cut at phaseStart + limit,
//	         never earlier, however steadily the bytes arrive; meanwhile a well-behaved client is served.

type pipeCase struct {
	Kind    string `json:"kind"` // "pipe"
	Conf    Conf   `json:"conf"`
	Served  int    `json:"served"`             // complete requests answered before the stalled unit
	Burst   int    `json:"burst"`              // mode segment: how many of them (the last ones) share the segment with the stalled bytes
	Mode    string `json:"mode"`               // segment | response | gap
	GapMs   int    `json:"gap_ms,omitempty"`   // mode gap: idle wait before the stalled bytes
	Unit    string `json:"unit"`               // head | body
	K       int    `json:"k"`                  // head: bytes of the head, < 0 = counted from its end (-1: all but the last LF, -2: all but the last CRLF); body: bytes of the body
	Body    int    `json:"body,omitempty"`     // unit body: Content-Length
	SleepMs int    `json:"sleep_ms,omitempty"` // latency of the origin for the last served request
	ID      string `json:"id"`
}

type dribbleCase struct {
	Kind     string `json:"kind"` // "dribble"
	Conf     Conf   `json:"conf"`
	Point    string `json:"point"` // proxy-header | tls-hello | head | mitm-hello
	V2       bool   `json:"v2,omitempty"`
	Requests int    `json:"requests,omitempty"` // head: complete exchanges before
	First    int    `json:"first"`              // bytes of the unit written at the start of the phase
	Piece    int    `json:"piece"`              // bytes per piece
	GapMs    int    `json:"gap_ms"`             // pause before every piece (shorter than the limit)
	Probe    bool   `json:"probe,omitempty"`    // a well-behaved client connects while the peer dribbles
	ID       string `json:"id"`
}

const relLoop = "the next request on a kept-alive connection is under the limits from the instant the loop comes round, whatever the reader holds (Model.C15 runK)"

// a PROXY v2 header long enough to be dribbled for seconds: TCP4 addresses + one NOOP TLV of 48 bytes
var proxyV2Long = func() []byte {
	b := append([]byte("\r\n\r\n\x00\r\nQUIT\n"), 0x21, 0x11, 0x00, 12+3+48)
	b = append(b, 192, 0, 2, 7, 198, 51, 100, 9, 0x9c, 0x40, 0x01, 0xbb)
	b = append(b, 0x04, 0x00, 48)
	return append(b, make([]byte, 48)...)
}()

func cutHead(head []byte, k int) []byte {
	n := len(head)
	if k < 0 {
		k = n + k
	}
	if k > n-1 {
		k = n - 1
	}
	if k < 1 {
		k = 1
	}
	return head[:k]
}

// ---- pipe ----

func (e *env) runPipe(ctx *core.Ctx, pc *pipeCase) {
	key := *pc
	key.ID = ""
	ctx.Case(canon(key), true)
	ctx.Count("stack/" + pc.Conf.Stack)
	ctx.Count(fmt.Sprintf("keep-alive-stall/%s/%s/served=%d", pc.Mode, pc.Unit, pc.Served))
	if pc.Mode == "segment" {
		ctx.Count(fmt.Sprintf("keep-alive-stall/segment/burst=%d", pc.Burst))
		if pc.SleepMs > 0 {
			ctx.Count("keep-alive-stall/segment/origin-slow")
		}
	}
	if pc.Unit == "head" {
		switch {
		case pc.K < 0:
			ctx.Count("keep-alive-stall/head/all-but-the-end")
		default:
			ctx.Count("keep-alive-stall/head/" + kBucket(pc.K))
		}
	}
	n := 0
	confirm(ctx, func(r *rec) {
		n++
		e.pipeOnce(ctx, r, pc, n)
	})
}

func (e *env) pipeOnce(ctx *core.Ctx, r *rec, pc *pipeCase, attempt int) {
	s, err := e.dial(time.Time{}, fmt.Sprintf("%s.%d", pc.ID, attempt))
	if err != nil {
		r.Crash("proxy accepts a client connection", pc, err.Error())
		return
	}
	defer s.close()
	fail := func(what string, err error) {
		if s.slow || e.slowClientExplains(ctx.Model, s, 0) {
			r.inconclusive = "client too slow on its way to the stall point"
			return
		}
		r.SpecFail(clauseServed, "", pc, fmt.Sprintf("%s: %v (events %v)", what, err, s.events), "")
	}
	idleFrom, err := s.prelude(false)
	if err != nil {
		fail("prelude", err)
		return
	}
	served, burst := pc.Served, 0
	if pc.Mode == "segment" {
		burst = pc.Burst
		if burst < 1 {
			burst = 1
		}
		if burst > served {
			burst = served
		}
	}
	for i := 0; i < served-burst; i++ {
		st, status, xerr := s.exchange(0, 0, 10*time.Second)
		if xerr != nil || status != 200 {
			fail(fmt.Sprintf("exchange %d: status %d", i, status), xerr)
			return
		}
		idleFrom = st
	}
	// the stalled unit
	var unit, rest []byte
	var unitRid string
	switch pc.Unit {
	case "head":
		_, head := s.requestHead(0, 0)
		unit = cutHead(head, pc.K)
	case "body":
		rid, head := s.requestHead(pc.Body, 0)
		body := bytes.Repeat([]byte{'b'}, pc.Body)
		k := clampK(pc.K, pc.Body+1, 0)
		unit = append(append([]byte{}, head...), body[:k]...)
		rest, unitRid = body[k:], rid
	default:
		core.Fatalf("C15 pipe: unknown unit %q", pc.Unit)
	}
	unitEvents := func(t time.Time) {
		if pc.Unit == "body" {
			s.ev(t, "hb")
			if len(rest) < pc.Body {
				s.ev(t, "d")
			}
		} else {
			s.ev(t, "d")
		}
	}
	var anchor time.Time
	if burst > 0 {
		// one segment: the last `burst` requests and the stalled bytes behind them
		var msg []byte
		var rids []string
		for i := 0; i < burst; i++ {
			sleep := 0
			if i == burst-1 {
				sleep = pc.SleepMs
			}
			// the stalled unit was rendered first: its Case-Id is lower, which nothing depends on
			rid, head := s.requestHead(0, sleep)
			rids = append(rids, rid)
			msg = append(msg, head...)
		}
		msg = append(msg, unit...)
		t, werr := s.write(msg)
		if werr != nil {
			fail("write", werr)
			return
		}
		if idle := e.conf.idleEff(); idle > 0 && t.Sub(idleFrom) > time.Duration(idle-40)*time.Millisecond {
			r.inconclusive = "client overslept: segment sent too close to the idle deadline"
			return
		}
		for range rids {
			s.ev(t, "hn")
		}
		unitEvents(t)
		for i, rid := range rids {
			st, status, xerr := s.readResponse("GET", rid, time.Duration(pc.SleepMs)*time.Millisecond+10*time.Second)
			if xerr != nil || status != 200 {
				// a pipelined request that is not answered: the connection was given up while requests were queued
				if s.slow || e.slowClientExplainsBefore(ctx.Model, s, 0, t) {
					r.inconclusive = "client too slow on its way to the stall point"
					return
				}
				impl := fmt.Sprintf("pipelined request %d of %d: status=%d err=%v events=%v", i+1, burst, status, xerr, s.events)
				r.SpecFail(clauseServed, "", pc, impl, "a complete pipelined request was not answered")
				r.Disagree(relLoop, pc, impl, askDeadline(ctx.Model, e.conf, 0, s.events).Raw)
				return
			}
			anchor = st
		}
	} else {
		if pc.Mode == "gap" && pc.GapMs > 0 {
			time.Sleep(time.Duration(pc.GapMs) * time.Millisecond)
		}
		t, werr := s.write(unit)
		if werr != nil {
			fail("write", werr)
			return
		}
		if idle := e.conf.idleEff(); idle > 0 && t.Sub(idleFrom) > time.Duration(idle-40)*time.Millisecond {
			r.inconclusive = "client overslept: first head byte sent too close to the idle deadline"
			return
		}
		unitEvents(t)
		anchor = t
	}
	point, limit := "head", e.conf.headerEff()
	if pc.Unit == "body" {
		point, limit = "body", e.conf.L.Read
		if limit > 0 {
			e.judgeBodyStall(ctx, r, pc, s, anchor, 504)
			return
		}
	}
	var until time.Time
	if limit > 0 {
		until = anchor.Add(time.Duration(limit)*time.Millisecond + e.slack)
	} else {
		until = time.Now().Add(time.Duration(e.conf.maxLimit()+600) * time.Millisecond)
	}
	closed, at := s.awaitClose(until)
	before := r.validated
	e.judgeClose(ctx, r, pc, s, point, limit, anchor, closed, at, until, 0)
	if pc.Unit != "body" || limit > 0 || closed || r.validated == before {
		return
	}
	// the body has no limit: the rest arrives after a pause longer than every limit and the request is answered
	t, werr := s.write(rest)
	s.ev(t, "c")
	var status int
	if werr == nil {
		_, status, werr = s.readResponse("POST", unitRid, 10*time.Second)
	}
	if werr != nil || status != 200 {
		impl := fmt.Sprintf("status=%d err=%v (body %d bytes, %d behind the pipelined head; limits %+v) events=%v", status, werr, pc.Body, pc.Body-len(rest), e.conf.L, s.events)
		r.SpecFail(clauseBody, "", pc, impl, "the pipelined request was cut off during the pause in its body")
		r.validated = before
	}
}

// ---- dribble ----

func (e *env) dribbleUnit(dc *dribbleCase, s *sess) []byte {
	switch dc.Point {
	case "proxy-header":
		if dc.V2 {
			return proxyV2Long
		}
		return []byte(proxyV1)
	case "tls-hello", "mitm-hello":
		return e.hello
	case "head":
		_, head := s.requestHeadX(0, 0, "X-Padding: "+string(bytes.Repeat([]byte{'p'}, 60)))
		return head
	}
	core.Fatalf("C15 dribble: unknown point %q", dc.Point)
	return nil
}

func (e *env) runDribble(ctx *core.Ctx, dc *dribbleCase) {
	key := *dc
	key.ID = ""
	ctx.Case(canon(key), true)
	ctx.Count("stack/" + dc.Conf.Stack)
	pt := dc.Point
	if pt == "proxy-header" {
		pt += map[bool]string{true: "/v2", false: "/v1"}[dc.V2]
	}
	ctx.Count("dribble/" + pt)
	if dc.Requests > 0 {
		ctx.Count("dribble/" + pt + "/between-requests")
	}
	if dc.Probe {
		ctx.Count("dribble/with-probe")
	}
	n := 0
	confirm(ctx, func(r *rec) {
		n++
		e.dribbleOnce(ctx, r, dc, n)
	})
}

func (e *env) dribbleOnce(ctx *core.Ctx, r *rec, dc *dribbleCase, attempt int) {
	s, err := e.dial(time.Time{}, fmt.Sprintf("%s.%d", dc.ID, attempt))
	if err != nil {
		r.Crash("proxy accepts a client connection", dc, err.Error())
		return
	}
	defer s.close()
	limit := dc.Conf.limitAt(dc.Point)
	// to the start of the phase, with the first bytes of the unit (head and mitm-hello begin with their first byte)
	unit := []byte(nil)
	sent := 0
	var anchor time.Time
	var inconclusive string
	switch dc.Point {
	case "head":
		// the unit is rendered after the exchanges (its Case-Id), so the steps of stallAt are spelled out
		if anchor, err = s.prelude(dc.V2); err == nil {
			for i := 0; i < dc.Requests && err == nil; i++ {
				st, status, xerr := s.exchange(0, 0, 10*time.Second)
				if xerr != nil || status != 200 {
					err = fmt.Errorf("exchange %d: status %d: %v", i, status, xerr)
				}
				anchor = st
			}
		}
		if err == nil {
			unit = e.dribbleUnit(dc, s)
			sent = clampK(dc.First, len(unit), 1)
			t, werr := s.write(unit[:sent])
			s.ev(t, "d")
			err = werr
			if idle := e.conf.idleEff(); idle > 0 && t.Sub(anchor) > time.Duration(idle-40)*time.Millisecond {
				inconclusive = "client overslept: first head byte sent too close to the idle deadline"
			}
			anchor = t
		}
	case "proxy-header":
		// stallAt cuts the 28-byte v2 header; the long one is cut here
		anchor = s.t0
		unit = e.dribbleUnit(dc, s)
		if sent = clampK(dc.First, len(unit), 0); sent > 0 {
			t, werr := s.write(unit[:sent])
			s.ev(t, "d")
			err = werr
		}
	default:
		unit = e.dribbleUnit(dc, s)
		min := 0
		if dc.Point == "mitm-hello" {
			min = 1
		}
		sent = clampK(dc.First, len(unit), min)
		anchor, inconclusive, err = s.stallAt(dc.Point, sent, 0, 0, dc.V2, false)
	}
	if inconclusive != "" {
		r.inconclusive = inconclusive
		return
	}
	if err != nil {
		if s.slow || e.slowClientExplains(ctx.Model, s, 0) {
			r.inconclusive = "client too slow on its way to the stall point"
			return
		}
		r.SpecFail(clauseServed, "", dc, "client could not reach the phase it dribbles in: "+err.Error(), "")
		return
	}
	var until time.Time
	if limit > 0 {
		until = anchor.Add(time.Duration(limit)*time.Millisecond + e.slack)
	} else {
		until = time.Now().Add(time.Duration(dc.Conf.maxLimit()+600) * time.Millisecond)
	}
	type obs struct {
		closed bool
		at     time.Time
	}
	done := make(chan obs, 1)
	go func() {
		c, at := s.awaitClose(until)
		done <- obs{c, at}
	}()
	type probeObs struct {
		lat  time.Duration
		slow bool
		err  error
	}
	var probeCh chan probeObs
	if dc.Probe {
		probeCh = make(chan probeObs, 1)
		go func() {
			time.Sleep(time.Duration(dc.GapMs/2) * time.Millisecond)
			lat, _, _, slow, perr := e.probe(time.Time{}, fmt.Sprintf("%s.%d-probe", dc.ID, attempt))
			probeCh <- probeObs{lat, slow, perr}
		}()
	}
	// the pieces: never the last byte of the unit
	piece := dc.Piece
	if piece < 1 {
		piece = 1
	}
	var o obs
	pieces := 0
	gap := time.NewTimer(time.Duration(dc.GapMs) * time.Millisecond)
	defer gap.Stop()
dribbling:
	for {
		select {
		case o = <-done:
			break dribbling
		case <-gap.C:
			if n := len(unit) - 1 - sent; n > 0 {
				if n > piece {
					n = piece
				}
				t, werr := s.write(unit[sent : sent+n])
				if werr == nil {
					s.ev(t, "d")
					sent += n
					pieces++
				}
			}
			gap.Reset(time.Duration(dc.GapMs) * time.Millisecond)
		}
	}
	ctx.Count("dribble/pieces/" + kBucket(pieces))
	e.judgeClose(ctx, r, dc, s, dc.Point, limit, anchor, o.closed, o.at, until, 0)
	if probeCh == nil {
		return
	}
	p := <-probeCh
	bound := dc.Conf.probeBoundUs()
	impl := fmt.Sprintf("probe latency %dus, error=%v, next to a peer dribbling its %s (one piece every %dms), bound %dus", p.lat.Microseconds(), p.err, dc.Point, dc.GapMs, bound)
	switch {
	case p.err != nil && p.slow:
		if r.inconclusive == "" && !r.hard {
			r.inconclusive = "probe client too slow in its prelude"
		}
	case p.err != nil:
		r.SpecFail(clauseProbe, "", dc, impl, "the probe was not served")
	case p.lat.Microseconds() > bound:
		r.SpecFail(clauseProbe, "", dc, impl, fmt.Sprintf("latency above the bound %dus", bound))
	default:
		r.validated++
	}
}

// ---- generators ----

func genPipe(r *core.Rand, conf Conf, id string, mode, unit string) *pipeCase {
	// A stall inside a body: with ReadTimeout unset no limit applies (the request must survive), with it set
	// the failed body read is answered with a 504 and the connection idles on (F49: judgeBodyStall).
	pc := &pipeCase{Kind: "pipe", Conf: conf, ID: id, Mode: mode, Unit: unit, Served: r.Range(1, 3)}
	switch mode {
	case "segment":
		pc.Burst = r.Range(1, pc.Served)
		if r.Chance(60) {
			pc.SleepMs = r.Range(40, 250)
		}
	case "gap":
		if room := conf.idleEff() - 130; room >= 50 {
			pc.GapMs = r.Range(40, room)
		} else if conf.idleEff() == 0 {
			pc.GapMs = r.Range(40, 400)
		}
	}
	switch unit {
	case "head":
		pc.K = core.Pick(r, []int{1, 1, 2, 3, 4, 16, 1 + r.Intn(60), 1 + r.Intn(60), -1, -2, -2, -3, -4 - r.Intn(20)})
	case "body":
		pc.Body = r.Range(2, 3000)
		pc.K = core.Pick(r, []int{0, 1, r.Intn(pc.Body), pc.Body - 1})
	}
	return pc
}

func dribblePointsFor(stack string) []dribbleCase {
	switch stack {
	case "plain":
		return []dribbleCase{{Point: "head"}, {Point: "head", Requests: 1}}
	case "tls":
		return []dribbleCase{{Point: "tls-hello"}, {Point: "head"}}
	case "mitm":
		return []dribbleCase{{Point: "mitm-hello"}, {Point: "head"}}
	case "proxy":
		return []dribbleCase{{Point: "proxy-header"}, {Point: "proxy-header", V2: true}, {Point: "head"}}
	case "proxy+tls":
		return []dribbleCase{{Point: "proxy-header"}, {Point: "proxy-header", V2: true}, {Point: "tls-hello"}}
	}
	return nil
}

// genDribble: pauses of a quarter to a half of the limit (at least 30 ms), so that a limit armed anew by every
// piece would never expire; the unit is long enough for the pieces to go on beyond limit + slack.
func genDribble(r *core.Rand, conf Conf, id string, tmpl dribbleCase, slackMs int) *dribbleCase {
	dc := tmpl
	dc.Kind, dc.Conf, dc.ID = "dribble", conf, id
	dc.Piece = 1
	lim := conf.limitAt(dc.Point)
	if lim <= 0 {
		lim = 200
	}
	lo, hi := lim/4, lim/2
	if lo < 30 {
		lo = 30
	}
	if hi < lo {
		hi = lo
	}
	dc.GapMs = r.Range(lo, hi)
	switch dc.Point {
	case "proxy-header":
		dc.First = core.Pick(r, []int{0, 0, 1, 5, 12})
	case "tls-hello":
		dc.First = core.Pick(r, []int{0, 0, 1, 5, 9})
	default:
		dc.First = core.Pick(r, []int{1, 1, 3, 4})
	}
	// the pieces must go on beyond limit + slack (the shortest units: 45 bytes of a v1 header, 79 of the long v2 one)
	unitLen := 130
	if dc.Point == "proxy-header" {
		unitLen = map[bool]int{true: len(proxyV2Long), false: len(proxyV1)}[dc.V2]
	}
	if need := lim + slackMs + 300; (unitLen-1-dc.First)*dc.GapMs < need {
		dc.First = map[bool]int{true: 1, false: 0}[dc.Point == "head" || dc.Point == "mitm-hello"]
		if g := need/(unitLen-1-dc.First) + 1; g > dc.GapMs {
			dc.GapMs = g
		}
		if max := lim * 6 / 10; dc.GapMs > max {
			dc.GapMs = max
		}
	}
	if dc.Point == "head" && dc.Requests == 0 && r.Chance(40) {
		dc.Requests = r.Range(1, 2)
	}
	dc.Probe = dc.Point != "head" || r.Chance(30)
	return &dc
}

// genAheadJobs: the keep-alive stalls and the dribbling peers of one plan. Every plan has pipelined partial
// heads (mode segment) and, on the PROXY stackings, a dribbled v1 and v2 header - whatever the seed.
func genAheadJobs(ctx *core.Ctx, r *core.Rand, conf Conf, id func(kind string, i int) string) []job {
	var jobs []job
	shapes := [][2]string{{"segment", "head"}, {"segment", "head"}, {"segment", "head"}, {"response", "head"}, {"gap", "head"}, {"segment", "body"}}
	for i := 0; i < ctx.N(len(shapes), 30); i++ {
		sh := shapes[i%len(shapes)]
		if i >= len(shapes) && r.Chance(25) {
			sh = [2]string{core.Pick(r, []string{"response", "gap"}), "body"}
		}
		jobs = append(jobs, job{pipe: genPipe(r, conf, id("p", i), sh[0], sh[1])})
	}
	pts := dribblePointsFor(conf.Stack)
	for i := 0; i < ctx.N(len(pts), 3*len(pts)); i++ {
		jobs = append(jobs, job{dribble: genDribble(r, conf, id("d", i), pts[i%len(pts)], int(slackFor(ctx).Milliseconds()))})
	}
	return jobs
}
