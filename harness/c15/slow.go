package c15

import (
	"fmt"
	"io"
	"net"
	"strings"
	"time"

	"github.com/saucelabs/forwarder/verifharness/core"
	"github.com/saucelabs/forwarder/verifharness/rig"
)

// Cases in which somebody other than the client's request is slow. In all of them EVERY client-side limit
// that is configured (IdleTimeout, ReadHeaderTimeout, ReadTimeout, WriteTimeout, the handshake time-outs) is
// shorter than the latency of the origin side; a correct proxy arms none of them while it waits for the
// origin (Model.C15: waitingForOrigin carries no deadline of any kind) and arms the write deadline only when it
// starts writing the response (writeStart).
//
//	connect   CONNECT to a target that is slow to be connected: a dial that takes long, a listener whose accept
//	          queue is full (the SYN is retransmitted after 1 s), an upstream proxy that delays its 200; the
//	          tunnel is then used across a pause longer than every client-side limit
//	tunnel    CONNECT / 101-upgrade tunnels with fast and slow targets, used for longer than every limit
//	resp      response head at once (optionally after a sleep), body in pieces with pauses: relayed completely
//	          when it ends within WriteTimeout of writeStart; the write deadline is one absolute instant
//	          (Model.C15: phase writing), so a body that takes longer is cut off at writeStart + WriteTimeout -
//	          never earlier; that the client does not get the complete response is known finding F45
//	sink      the dual: the CLIENT does not take a 1 GiB response. It is cut off WriteTimeout after the proxy
//	          started writing (measured at the origin, whose connection the proxy drops at that instant),
//	          never earlier - however long the origin took before it answered; never when WriteTimeout is unset

type connectCase struct {
	Kind    string `json:"kind"` // "connect"
	Conf    Conf   `json:"conf"`
	Via     string `json:"via"`      // dial | accept | upstream
	DelayMs int    `json:"delay_ms"` // dial, upstream: the delay; accept: instant the accept queue is released (the dial completes about 1 s after it began)
	ID      string `json:"id"`
}

// tunnelCase: a tunnel (CONNECT, or a 101 upgrade - the only kind behind an intercepting proxy) that is used
// across pauses longer than every client-side limit, ReadTimeout included, or steadily for longer than that:
// no request limit applies to tunnelled traffic (Model.C15: phase tunnel, empty deadline set).
type tunnelCase struct {
	Kind    string `json:"kind"` // "tunnel"
	Conf    Conf   `json:"conf"`
	Open    string `json:"open"`     // connect | upgrade
	DelayMs int    `json:"delay_ms"` // the target side takes that long to connect / to answer 101 (0: at once)
	Pauses  []int  `json:"pauses"`   // ms between the echo rounds
	ID      string `json:"id"`
}

type respCase struct {
	Kind       string `json:"kind"` // "resp"
	Conf       Conf   `json:"conf"`
	SleepMs    int    `json:"sleep_ms"` // before the response head
	Pieces     int    `json:"pieces"`
	GapMs      int    `json:"gap_ms"`
	PieceBytes int    `json:"piece_bytes"`
	Chunked    bool   `json:"chunked,omitempty"`
	ID         string `json:"id"`
}

type sinkCase struct {
	Kind    string `json:"kind"` // "sink"
	Conf    Conf   `json:"conf"`
	SleepMs int    `json:"sleep_ms"` // before the response head
	ID      string `json:"id"`
}

const (
	clauseTunnel = "an established tunnel (CONNECT, upgrade) is not cut by a request limit: it relays data as long as its peers keep it open"
	relTunnel    = "no deadline of any kind on a tunnel (Model.C15 run, phase tunnel)"
	// F45: the write deadline is one absolute instant per response; decided from the input alone - a
	// slow-body case whose configured WriteTimeout is shorter than the duration of the body
	classSlowBody = "write-deadline-absolute-slow-body"
	relWaiting   = "no deadline of any kind while waiting for the origin (Model.C15 run, armed)"
	relAbsolute  = "the write deadline is one absolute instant armed at writeStart: a response still being relayed WriteTimeout later is abandoned (Model.C15 run, phase writing)"
)

// originFailed judges a request that was completely received but not answered to the client: either the
// client was too slow on its way (decided from its own time stamps and the model alone) or the proxy gave
// the connection up while only the origin was slow.
func (e *env) originFailed(ctx *core.Ctx, r *rec, cs any, s *sess, sent time.Time, impl string) {
	mo := askDeadline(ctx.Model, e.conf, 0, s.events)
	if mo.Closed || mo.Phase != "waitingForOrigin" || e.slowClientExplainsBefore(ctx.Model, s, 0, sent) {
		r.inconclusive = "client too slow: by its own time stamps an earlier limit had expired"
		return
	}
	r.SpecFail(clauseOrigin, "", cs, impl, "the client did not get the origin's answer")
	r.Disagree(relWaiting, cs, impl, mo.Raw)
}

func (s *sess) echo(tag string, wait time.Duration) error {
	msg := []byte("ping-" + tag + "\n")
	if _, err := s.write(msg); err != nil {
		return fmt.Errorf("write: %w", err)
	}
	buf := make([]byte, len(msg))
	s.conn.SetReadDeadline(time.Now().Add(wait))
	n, err := io.ReadFull(s.br, buf)
	s.conn.SetReadDeadline(time.Time{})
	if err != nil {
		return fmt.Errorf("read %d of %d echoed bytes: %w", n, len(msg), err)
	}
	if string(buf) != string(msg) {
		return fmt.Errorf("echo differs: %q", buf)
	}
	return nil
}

func (e *env) runConnect(ctx *core.Ctx, cc *connectCase) {
	key := *cc
	key.ID = ""
	ctx.Case(canon(key), true)
	ctx.Count("stack/" + cc.Conf.Stack)
	ctx.Count("slow-connect/" + cc.Via + "/" + limitsSet(cc.Conf))
	n := 0
	confirm(ctx, func(r *rec) {
		n++
		var sa *rig.SlowAccept
		target := fmt.Sprintf("slow-%d.test:443", cc.DelayMs)
		expect := time.Duration(cc.DelayMs) * time.Millisecond
		if cc.Via == "accept" {
			var err error
			if sa, err = rig.NewSlowAccept(func(c net.Conn) { io.Copy(c, c) }); err != nil {
				r.inconclusive = "rig: no listener with a full accept queue"
				return
			}
			defer sa.Close()
			target = fmt.Sprintf("acc-%s-%d.test:443", strings.ToLower(strings.NewReplacer("+", "x", ".", "-", "_", "-").Replace(cc.ID)), n)
			e.routes.Store(target, sa.Addr)
			defer e.routes.Delete(target)
			expect = time.Second // retransmission of the dropped SYN
		}
		s, err := e.dial(time.Time{}, fmt.Sprintf("%s.%d", cc.ID, n))
		if err != nil {
			r.Crash("proxy accepts a client connection", cc, err.Error())
			return
		}
		defer s.close()
		if _, err := s.prelude(false); err != nil {
			if s.slow || e.slowClientExplains(ctx.Model, s, 0) {
				r.inconclusive = "client too slow in its prelude"
				return
			}
			r.SpecFail(clauseServed, "", cc, "prelude: "+err.Error(), "")
			return
		}
		sent, err := s.write([]byte("CONNECT " + target + " HTTP/1.1\r\nHost: " + target + "\r\n\r\n"))
		s.ev(sent, "hn")
		if err != nil {
			e.originFailed(ctx, r, cc, s, sent, "CONNECT could not be sent: "+err.Error())
			return
		}
		if sa != nil {
			rel := time.AfterFunc(time.Duration(cc.DelayMs)*time.Millisecond, sa.Release)
			defer rel.Stop()
		}
		s.conn.SetReadDeadline(time.Now().Add(expect + 10*time.Second))
		res, rerr := rig.ReadResponse(s.br, "CONNECT")
		s.conn.SetReadDeadline(time.Time{})
		took := time.Since(sent)
		if rerr != nil || res == nil || res.Status != 200 {
			st := 0
			if res != nil {
				st = res.Status
			}
			e.originFailed(ctx, r, cc, s, sent, fmt.Sprintf("CONNECT %s: status=%d err=%v after %dms (target connected after about %dms; limits %+v)",
				target, st, rerr, took.Milliseconds(), expect.Milliseconds(), cc.Conf.L))
			return
		}
		if took < expect*9/10 {
			r.inconclusive = "rig: the target was not slow"
			return
		}
		// the tunnel works, also after a pause longer than every client-side limit, ReadTimeout included
		// (nothing is left armed on it)
		s.ev(sent, "tu")
		e.judgeTunnel(ctx, r, cc, s, fmt.Sprintf("%s-%d", cc.ID, n), "CONNECT "+target, []int{cc.Conf.maxClientLimit()*13/10 + 20})
	})
}

// judgeTunnel: echo rounds through an established tunnel, separated by the given pauses.
func (e *env) judgeTunnel(ctx *core.Ctx, r *rec, cs any, s *sess, tag, what string, pauses []int) {
	up := time.Now()
	for i := 0; ; i++ {
		if err := s.echo(fmt.Sprintf("%s-%d", tag, i), 5*time.Second); err != nil {
			mo := askDeadline(ctx.Model, e.conf, 0, s.events)
			if mo.Closed || mo.Phase != "tunnel" {
				r.inconclusive = "client too slow: by its own time stamps an earlier limit had expired"
				return
			}
			impl := fmt.Sprintf("%s: echo round %d, %dms after the tunnel was up (pauses %v): %v (limits %+v); events=%v", what, i, time.Since(up).Milliseconds(), pauses, err, e.conf.L, s.events)
			r.SpecFail(clauseTunnel, "", cs, impl, "the tunnel was cut although both peers kept it open")
			r.Disagree(relTunnel, cs, impl, mo.Raw)
			return
		}
		if i >= len(pauses) {
			break
		}
		time.Sleep(time.Duration(pauses[i]) * time.Millisecond)
	}
	r.validated++
}

func (e *env) runTunnel(ctx *core.Ctx, tc *tunnelCase) {
	key := *tc
	key.ID = ""
	ctx.Case(canon(key), true)
	ctx.Count("stack/" + tc.Conf.Stack)
	ctx.Count(fmt.Sprintf("tunnel/%s/target-slow=%v/%s", tc.Open, tc.DelayMs > 0, limitsSet(tc.Conf)))
	n := 0
	confirm(ctx, func(r *rec) {
		n++
		s, err := e.dial(time.Time{}, fmt.Sprintf("%s.%d", tc.ID, n))
		if err != nil {
			r.Crash("proxy accepts a client connection", tc, err.Error())
			return
		}
		defer s.close()
		if _, err := s.prelude(false); err != nil {
			if s.slow || e.slowClientExplains(ctx.Model, s, 0) {
				r.inconclusive = "client too slow in its prelude"
				return
			}
			r.SpecFail(clauseServed, "", tc, "prelude: "+err.Error(), "")
			return
		}
		var head []byte
		method, want, what := "CONNECT", 200, ""
		if tc.Open == "upgrade" {
			method, want = "GET", 101
			_, head = s.requestHeadX(0, tc.DelayMs, "Connection: Upgrade", "Upgrade: echo", "X-Upgrade: 1")
			what = "GET " + s.target() + " (Upgrade: echo)"
		} else {
			target := fmt.Sprintf("slow-%d.test:443", tc.DelayMs)
			head = []byte("CONNECT " + target + " HTTP/1.1\r\nHost: " + target + "\r\n\r\n")
			what = "CONNECT " + target
		}
		sent, err := s.write(head)
		s.ev(sent, "hn")
		if err != nil {
			e.originFailed(ctx, r, tc, s, sent, what+" could not be sent: "+err.Error())
			return
		}
		s.conn.SetReadDeadline(time.Now().Add(time.Duration(tc.DelayMs)*time.Millisecond + 10*time.Second))
		res, rerr := rig.ReadResponse(s.br, method)
		s.conn.SetReadDeadline(time.Time{})
		if rerr != nil || res == nil || res.Status != want {
			st := 0
			if res != nil {
				st = res.Status
			}
			e.originFailed(ctx, r, tc, s, sent, fmt.Sprintf("%s: status=%d err=%v after %dms (target side answers after %dms; limits %+v)",
				what, st, rerr, time.Since(sent).Milliseconds(), tc.DelayMs, tc.Conf.L))
			return
		}
		s.ev(sent, "tu")
		e.judgeTunnel(ctx, r, tc, s, fmt.Sprintf("%s-%d", tc.ID, n), what, tc.Pauses)
	})
}

func (e *env) runResp(ctx *core.Ctx, rc *respCase) {
	key := *rc
	key.ID = ""
	ctx.Case(canon(key), true)
	ctx.Count("stack/" + rc.Conf.Stack)
	W := rc.Conf.L.Write
	total := rc.Pieces * rc.GapMs
	expectCut := W > 0 && total > W
	ctx.Count(fmt.Sprintf("slow-body/%s/%s", map[bool]string{true: "longer-than-write-timeout", false: "within-write-timeout-or-unset"}[expectCut],
		map[bool]string{true: "chunked", false: "content-length"}[rc.Chunked]))
	n := 0
	confirm(ctx, func(r *rec) {
		n++
		s, err := e.dial(time.Time{}, fmt.Sprintf("%s.%d", rc.ID, n))
		if err != nil {
			r.Crash("proxy accepts a client connection", rc, err.Error())
			return
		}
		defer s.close()
		if _, err := s.prelude(false); err != nil {
			if s.slow || e.slowClientExplains(ctx.Model, s, 0) {
				r.inconclusive = "client too slow in its prelude"
				return
			}
			r.SpecFail(clauseServed, "", rc, "prelude: "+err.Error(), "")
			return
		}
		extra := []string{fmt.Sprintf("X-Trickle: %d,%d,%d", rc.Pieces, rc.GapMs, rc.PieceBytes)}
		if rc.Chunked {
			extra = append(extra, "X-Chunked: 1")
		}
		rid, head := s.requestHeadX(0, rc.SleepMs, extra...)
		sent, err := s.write(head)
		s.ev(sent, "hn")
		if err != nil {
			e.originFailed(ctx, r, rc, s, sent, "request could not be sent: "+err.Error())
			return
		}
		s.conn.SetReadDeadline(time.Now().Add(time.Duration(rc.SleepMs+total)*time.Millisecond + 10*time.Second))
		res, rerr := rig.ReadResponse(s.br, "GET")
		at := time.Now()
		s.conn.SetReadDeadline(time.Time{})
		complete := rerr == nil && res != nil && res.Status == 200 && res.Complete && len(res.Body) == rc.Pieces*rc.PieceBytes
		got := 0
		if res != nil {
			got = len(res.Body)
		}
		var stamp time.Time
		if v, ok := e.stamps.Load(rid); ok {
			stamp = v.(time.Time)
		}
		impl := fmt.Sprintf("complete=%v err=%v body=%d/%d bytes, ended %dms after the request was sent (origin: head after %dms, then %d pieces every %dms; limits %+v)",
			complete, rerr, got, rc.Pieces*rc.PieceBytes, at.Sub(sent).Milliseconds(), rc.SleepMs, rc.Pieces, rc.GapMs, rc.Conf.L)
		if !expectCut {
			if complete {
				r.validated++
				return
			}
			if fin, ok := e.fins.Load(rid); W > 0 && !stamp.IsZero() && (!ok || fin.(time.Time).Sub(stamp) > time.Duration(W-30)*time.Millisecond) {
				r.inconclusive = "origin overslept: its body did not end well within WriteTimeout"
				return
			}
			e.originFailed(ctx, r, rc, s, sent, impl)
			return
		}
		// The origin's body takes longer than WriteTimeout: by the model the response is abandoned at
		// writeStart + WriteTimeout. Never earlier - and not much later than the origin's next piece.
		if stamp.IsZero() {
			e.originFailed(ctx, r, rc, s, sent, impl+" (the origin never began to answer)")
			return
		}
		s.ev(stamp, "rs")
		mo := askDeadline(ctx.Model, e.conf, 0, s.events)
		if !mo.Closed || mo.Phase != "writing" {
			r.inconclusive = "client too slow: by its own time stamps an earlier limit had expired"
			return
		}
		elapsed := at.Sub(stamp).Microseconds()
		impl += fmt.Sprintf("; response ended %dus after the origin began to write it, events=%v", elapsed, s.events)
		if !complete {
			// the clause itself: only the origin is slow, so the client should have received the complete
			// response. Known finding F45 for exactly this input class; never for an early cut (below)
			r.SpecFail(clauseOrigin, classSlowBody, rc, impl, "the response was abandoned WriteTimeout after the proxy began to write it although the client took every byte it was sent: only the origin's body was slow")
		}
		switch {
		case complete:
			r.Disagree(relAbsolute, rc, impl, mo.Raw)
		case elapsed+epsUs < int64(W)*1000 || s.us(at)+epsUs < mo.At:
			r.SpecFail(clauseEarly, "", rc, impl, fmt.Sprintf("the response was cut off %dus after the proxy can have started writing it; WriteTimeout is %dus", elapsed, W*1000))
			r.Disagree(relAbsolute, rc, impl, mo.Raw)
		case elapsed > int64(total)*1000+e.slack.Microseconds():
			r.SpecFail(clauseLate, "", rc, impl, "the response was neither completed nor abandoned")
		default:
			r.validated++
		}
	})
}

func (e *env) runSink(ctx *core.Ctx, sc *sinkCase) {
	key := *sc
	key.ID = ""
	ctx.Case(canon(key), true)
	ctx.Count("stack/" + sc.Conf.Stack)
	W := sc.Conf.L.Write
	ctx.Count(fmt.Sprintf("client-does-not-read/write-timeout-set=%v/origin-slow=%v", W > 0, sc.SleepMs > 0))
	n := 0
	confirm(ctx, func(r *rec) {
		n++
		s, err := e.dial(time.Time{}, fmt.Sprintf("%s.%d", sc.ID, n))
		if err != nil {
			r.Crash("proxy accepts a client connection", sc, err.Error())
			return
		}
		defer s.close()
		if _, err := s.prelude(false); err != nil {
			if s.slow || e.slowClientExplains(ctx.Model, s, 0) {
				r.inconclusive = "client too slow in its prelude"
				return
			}
			r.SpecFail(clauseServed, "", sc, "prelude: "+err.Error(), "")
			return
		}
		rid, head := s.requestHeadX(0, sc.SleepMs, "X-Endless: 1")
		cut := make(chan time.Time, 1)
		e.cuts.Store(rid, cut)
		defer e.cuts.Delete(rid)
		sent, err := s.write(head)
		s.ev(sent, "hn")
		if err != nil {
			e.originFailed(ctx, r, sc, s, sent, "request could not be sent: "+err.Error())
			return
		}
		// the client reads nothing. The proxy drops the origin's connection when it abandons the response:
		// the instant the origin's write fails is an upper bound of the instant the client was cut off
		wait := time.Duration(sc.SleepMs+W)*time.Millisecond + e.slack + 500*time.Millisecond
		if W == 0 {
			wait = time.Duration(sc.SleepMs+sc.Conf.maxClientLimit()+600) * time.Millisecond
		}
		closed, at := false, time.Time{}
		select {
		case at = <-cut:
			closed = true
		case <-time.After(wait):
			at = time.Now()
		}
		v, ok := e.stamps.Load(rid)
		if !ok {
			e.originFailed(ctx, r, sc, s, sent, fmt.Sprintf("the origin did not begin to answer within %dms (it sleeps %dms; limits %+v)", wait.Milliseconds(), sc.SleepMs, sc.Conf.L))
			return
		}
		stamp := v.(time.Time)
		s.ev(stamp, "rs")
		until := at
		if W > 0 {
			until = stamp.Add(time.Duration(W)*time.Millisecond + e.slack)
			if !closed && at.Before(until) {
				r.inconclusive = "origin overslept: the observation window ended before writeStart + WriteTimeout + slack"
				return
			}
		}
		e.judgeClose(ctx, r, sc, s, "writing", W, stamp, closed, at, until, 0)
	})
}

func limitsSet(c Conf) string {
	var on []string
	for _, x := range []struct {
		n string
		v int
	}{{"idle", c.L.Idle}, {"rh", c.L.ReadHeader}, {"read", c.L.Read}, {"write", c.L.Write}, {"connect", c.L.Connect}} {
		if x.v > 0 {
			on = append(on, x.n)
		}
	}
	return strings.Join(on, "+")
}

// ---- generators ----

// latency: 1.5-4 times the longest client-side limit
func genLatency(r *core.Rand, conf Conf) int {
	return conf.maxClientLimit() * r.Range(150, 400) / 100
}

func genSlowJobs(ctx *core.Ctx, r *core.Rand, conf Conf, id func(kind string, i int) string, scale int) []job {
	var jobs []job
	n := func(quick, thorough int) int { return ctx.N(quick, thorough) * scale }
	// slow response head, every limit shorter than the origin's latency
	for i := 0; i < n(2, 5); i++ {
		oc := &originCase{Kind: "origin", Conf: conf, ID: id("ol", i), SleepMs: genLatency(r, conf)}
		if r.Chance(40) {
			oc.Body = r.Range(1, 3000)
		}
		if r.Chance(50) {
			oc.RespBytes = core.Pick(r, []int{0, 1, 4095, 4097, 70_000, r.Range(1, 300_000)})
		}
		jobs = append(jobs, job{origin: oc})
	}
	// slow CONNECT target (an intercepting proxy answers CONNECT itself: its slow origin is the case above)
	if !conf.hasMITM() {
		for i := 0; i < n(2, 5); i++ {
			cc := &connectCase{Kind: "connect", Conf: conf, ID: id("c", i), Via: "dial", DelayMs: genLatency(r, conf)}
			switch {
			case conf.Upstream:
				cc.Via = "upstream"
			case i == 0 || r.Chance(25):
				cc.Via, cc.DelayMs = "accept", r.Range(200, 500)
			}
			jobs = append(jobs, job{connect: cc})
		}
	}
	// tunnels that outlive every request limit (behind an intercepting proxy: upgrades inside the session)
	for i := 0; i < n(2, 6); i++ {
		tc := &tunnelCase{Kind: "tunnel", Conf: conf, ID: id("t", i), Open: "connect"}
		if conf.hasMITM() || r.Chance(40) {
			tc.Open = "upgrade"
		}
		if i%2 == 1 {
			tc.DelayMs = genLatency(r, conf)
		}
		long := func() int { return conf.maxClientLimit()*r.Range(110, 160)/100 + 20 }
		switch r.Intn(3) {
		case 0:
			tc.Pauses = []int{long()}
		case 1:
			tc.Pauses = []int{r.Range(20, 120), long(), long()}
		default: // steadily active for longer than every limit
			for sum, lim := 0, conf.maxClientLimit()*r.Range(150, 250)/100; sum < lim; {
				p := r.Range(40, 110)
				tc.Pauses = append(tc.Pauses, p)
				sum += p
			}
		}
		jobs = append(jobs, job{tunnel: tc})
	}
	// slow response body
	for i := 0; i < n(2, 6); i++ {
		rc := &respCase{Kind: "resp", Conf: conf, ID: id("r", i), Pieces: r.Range(2, 5), PieceBytes: core.Pick(r, []int{1, 100, 1500, 5000}), Chunked: r.Chance(50)}
		if r.Chance(50) {
			rc.SleepMs = genLatency(r, conf)
		}
		W := conf.L.Write
		switch {
		case W == 0: // no write deadline: the body may take longer than every other limit
			rc.GapMs = genLatency(r, conf) / rc.Pieces
		case i%2 == 0 && W >= 200: // ends well within WriteTimeout
			rc.Pieces = 2
			rc.GapMs = (W - 100) / 2
		default: // every pause is longer than WriteTimeout
			rc.Pieces = r.Range(2, 3)
			rc.GapMs = W * r.Range(120, 200) / 100
		}
		jobs = append(jobs, job{resp: rc})
	}
	// the client does not take the response
	for i := 0; i < n(2, 4); i++ {
		sc := &sinkCase{Kind: "sink", Conf: conf, ID: id("k", i)}
		if i%2 == 0 {
			sc.SleepMs = genLatency(r, conf)
		}
		jobs = append(jobs, job{sink: sc})
	}
	return jobs
}
