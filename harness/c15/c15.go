// Package c15 ties the deadline automaton and the accept-loop model of Model/C15.lean to the real proxy:
// clients stall at generated points of every listener stacking (plain, TLS, PROXY protocol, PROXY+TLS,
// MITM) and the instant at which the proxy closes their socket is measured on the wall clock; groups of
// 1-50 simultaneously stalled peers are accompanied by a well-behaved probe whose latency is measured.
//
// All instants are microseconds on the monotonic clock of this process (the proxy runs in-process, so
// both sides read the same clock).  The instant a phase begins at the proxy is never earlier than the
// instant at which this client performed the action that makes it begin; that client-side instant (taken
// BEFORE the action) is the anchor.  Hence  observedClose − anchor ≥ limit  holds on a correct
// implementation whatever the scheduling: the "never earlier than the limit" side is checked sharply
// (eps = clock granularity), the other side with a generous slack.
package c15

import (
	"bufio"
	"bytes"
	"crypto/tls"
	"crypto/x509"
	"encoding/json"
	"errors"
	"fmt"
	"io"
	"net"
	"strconv"
	"strings"
	"sync"
	"time"

	"github.com/prometheus/client_golang/prometheus"
	"github.com/saucelabs/forwarder"
	"github.com/saucelabs/forwarder/verifharness/core"
	"github.com/saucelabs/forwarder/verifharness/rig"
)

func init() { core.Register("C15", core.Scenario{Run: Run, Replay: Replay}) }

// No known-finding class is open for this property: F8 (the accept loop waited for the PROXY header of
// every connection) and F32 (no deadline for the first tunnel byte after an intercepted CONNECT) are
// repaired in the tree. The inputs that showed them - groups of peers stalled in their PROXY header next to
// a probe, a client silent after the 200 to CONNECT - are generated on every run and kept in the corpus;
// what they find is a VIOLATION.
const epsUs = 1000 // clock granularity allowed on the sharp side (1 ms)

// Limits are the configured limits in milliseconds (0 = not set).
type Limits struct {
	Idle       int `json:"idle"`
	ReadHeader int `json:"read_header"`
	Read       int `json:"read"`
	TLS        int `json:"tls"`
	ProxyHdr   int `json:"proxy_hdr"`
}

// Conf is one proxy configuration: listener stacking + limits.
type Conf struct {
	Stack string `json:"stack"` // "plain" | "tls" | "mitm" | "proxy" | "proxy+tls"
	L     Limits `json:"limits"`
}

func (c Conf) hasProxy() bool { return c.Stack == "proxy" || c.Stack == "proxy+tls" }
func (c Conf) hasTLS() bool   { return c.Stack == "tls" || c.Stack == "proxy+tls" }
func (c Conf) hasMITM() bool  { return c.Stack == "mitm" }

func (c Conf) stackWire() string {
	return core.B01(c.hasProxy()) + core.B01(c.hasTLS()) + core.B01(c.hasMITM())
}

// limitsWire renders the limits in microseconds.
func (c Conf) limitsWire() string {
	l := c.L
	return fmt.Sprintf("%d,%d,%d,%d,%d", l.Idle*1000, l.ReadHeader*1000, l.Read*1000, l.TLS*1000, l.ProxyHdr*1000)
}

// limits named by the property, by stall point (independent of the model): ms, 0 = none
func (c Conf) idleEff() int {
	if c.L.Idle > 0 {
		return c.L.Idle
	}
	return c.L.Read
}

func (c Conf) headerEff() int {
	if c.L.ReadHeader > 0 {
		return c.L.ReadHeader
	}
	return c.L.Read
}

func (c Conf) limitAt(point string) int {
	switch point {
	case "proxy-header":
		return c.L.ProxyHdr
	case "tls-hello", "mitm-hello":
		return c.L.TLS
	case "idle", "mitm-peek": // handleMITM arms the idle deadline anew for the first tunnel byte
		return c.idleEff()
	case "head":
		return c.headerEff()
	}
	return 0
}

func (c Conf) positive() []int {
	var out []int
	for _, v := range []int{c.idleEff(), c.headerEff(), c.L.TLS} {
		if v > 0 {
			out = append(out, v)
		}
	}
	if c.hasProxy() && c.L.ProxyHdr > 0 {
		out = append(out, c.L.ProxyHdr)
	}
	return out
}

func (c Conf) maxLimit() int {
	m := 0
	for _, v := range c.positive() {
		if v > m {
			m = v
		}
	}
	return m
}

func (c Conf) minLimit() int {
	m := 0
	for _, v := range c.positive() {
		if m == 0 || v < m {
			m = v
		}
	}
	return m
}

// probeBoundUs is the bound on the probe's latency: a function of the configuration only (never of the
// number of stalled peers), well below the smallest limit an accept loop that waits for a stalled peer
// would add.
func (c Conf) probeBoundUs() int64 {
	b := int64(c.minLimit()) * 600
	if b < 90_000 {
		b = 90_000
	}
	return b
}

// ---- environment: one real proxy + its origin ----

type env struct {
	conf   Conf
	proxy  *rig.Proxy
	origin *rig.Peer
	ca     *rig.CA
	roots  *x509.CertPool
	hello  []byte
	stamps sync.Map // Case-Id → time.Time at which the origin began writing its response
	slack  time.Duration
}

const (
	proxyV1 = "PROXY TCP4 192.0.2.7 198.51.100.9 40000 443\r\n"
)

var proxyV2 = append(append([]byte("\r\n\r\n\x00\r\nQUIT\n"), 0x21, 0x11, 0x00, 0x0c),
	192, 0, 2, 7, 198, 51, 100, 9, 0x9c, 0x40, 0x01, 0xbb)

func proxyHeader(v2 bool) []byte {
	if v2 {
		return proxyV2
	}
	return []byte(proxyV1)
}

func newEnv(ctx *core.Ctx, conf Conf) (*env, error) {
	e := &env{conf: conf, slack: slackFor(ctx)}
	var err error
	if e.ca, err = rig.NewCA("verif C15 origin CA"); err != nil {
		return nil, err
	}
	if conf.hasMITM() {
		leaf, err := e.ca.ValidLeaf("origin.test")
		if err != nil {
			return nil, err
		}
		e.origin, err = rig.NewTLSPeer("tls-origin", &tls.Config{Certificates: []tls.Certificate{leaf}}, e.respond)
		if err != nil {
			return nil, err
		}
	} else if e.origin, err = rig.NewPeer("origin", e.respond); err != nil {
		return nil, err
	}
	caFile, err := e.ca.WriteFile(ctx.Root+"/.work", fmt.Sprintf("c15-ca-%d.pem", time.Now().UnixNano()))
	if err != nil {
		e.origin.Close()
		return nil, err
	}
	ms := func(n int) time.Duration { return time.Duration(n) * time.Millisecond }
	e.proxy, err = rig.StartProxy(rig.ProxyOpts{
		ConnectTo: []forwarder.HostPortPair{rig.Route("origin.test", "80", e.origin.Addr), rig.Route("origin.test", "443", e.origin.Addr)},
		Transport: func(tc *forwarder.HTTPTransportConfig) { tc.CACertFiles = []string{caFile} },
		Configure: func(cfg *forwarder.HTTPProxyConfig) {
			cfg.Name = "fwdverif"
			cfg.PromRegistry = prometheus.NewRegistry()
			cfg.IdleTimeout = ms(conf.L.Idle)
			cfg.ReadHeaderTimeout = ms(conf.L.ReadHeader)
			cfg.ReadTimeout = ms(conf.L.Read)
			cfg.TLSServerConfig.HandshakeTimeout = ms(conf.L.TLS)
			if conf.hasProxy() {
				cfg.ProxyProtocolConfig = &forwarder.ProxyProtocolConfig{ReadHeaderTimeout: ms(conf.L.ProxyHdr)}
			}
			if conf.hasTLS() {
				cfg.Protocol = forwarder.HTTPSScheme // self-signed certificate
			}
			if conf.hasMITM() {
				cfg.MITM = forwarder.DefaultMITMConfig()
			}
		},
	})
	if err != nil {
		e.origin.Close()
		return nil, err
	}
	e.roots = e.ca.Pool()
	if c := e.proxy.CACert(); c != nil {
		e.roots.AddCert(c)
	}
	e.hello = captureHello("origin.test")
	return e, nil
}

func (e *env) close() {
	if e.proxy != nil {
		e.proxy.Stop()
	}
	if e.origin != nil {
		e.origin.Close()
	}
}

// respond is the origin: optional sleep, then a small 200; the instant just before the write is recorded.
func (e *env) respond(w *rig.PeerConn, ex *rig.Exchange) bool {
	if s := ex.Req.Get("X-Sleep-Ms"); s != "" {
		if n, err := strconv.Atoi(s); err == nil {
			time.Sleep(time.Duration(n) * time.Millisecond)
		}
	}
	b := rig.Head("HTTP/1.1 200 OK", []rig.Field{{Name: "Content-Length", Value: "2"}, {Name: "Content-Type", Value: "text/plain"}})
	b = append(b, "ok"...)
	if id := ex.Req.Get("Case-Id"); id != "" {
		e.stamps.Store(id, time.Now())
	}
	w.Write(b)
	return true
}

// captureHello returns the bytes of a real ClientHello (first flight of crypto/tls).
func captureHello(serverName string) []byte {
	c := &captureConn{}
	tc := tls.Client(c, &tls.Config{ServerName: serverName, InsecureSkipVerify: true})
	tc.Handshake() // fails on the read; the first flight has been written
	return c.buf.Bytes()
}

type captureConn struct{ buf bytes.Buffer }

func (c *captureConn) Read([]byte) (int, error)         { return 0, io.EOF }
func (c *captureConn) Write(b []byte) (int, error)      { return c.buf.Write(b) }
func (c *captureConn) Close() error                     { return nil }
func (c *captureConn) LocalAddr() net.Addr              { return &net.TCPAddr{} }
func (c *captureConn) RemoteAddr() net.Addr             { return &net.TCPAddr{} }
func (c *captureConn) SetDeadline(time.Time) error      { return nil }
func (c *captureConn) SetReadDeadline(time.Time) error  { return nil }
func (c *captureConn) SetWriteDeadline(time.Time) error { return nil }

// stampConn records the instant just before the most recent Write.
type stampConn struct {
	net.Conn
	mu   sync.Mutex
	last time.Time
}

func (c *stampConn) Write(b []byte) (int, error) {
	c.mu.Lock()
	c.last = time.Now()
	c.mu.Unlock()
	return c.Conn.Write(b)
}

func (c *stampConn) lastWrite() time.Time {
	c.mu.Lock()
	defer c.mu.Unlock()
	return c.last
}

// ---- one client connection ----

type sess struct {
	e      *env
	base   time.Time // origin of the time axis reported to the model
	t0     time.Time // just before the dial
	sc     *stampConn
	conn   net.Conn // top layer
	br     *bufio.Reader
	events []string
	id     string
	nreq   int
	hdrAt  int64 // instant the complete PROXY header was sent (µs from base), -1 = never
	slow   bool  // a step of the well-behaved client failed after taking more than half the limit that governs it
}

func (s *sess) us(t time.Time) int64 { return t.Sub(s.base).Microseconds() }

func (s *sess) ev(t time.Time, kind string) {
	u := s.us(t)
	if u < 0 {
		u = 0
	}
	s.events = append(s.events, fmt.Sprintf("%d:%s", u, kind))
}

func (e *env) dial(base time.Time, id string) (*sess, error) {
	s := &sess{e: e, id: id, hdrAt: -1}
	s.t0 = time.Now()
	if base.IsZero() {
		base = s.t0
	}
	s.base = base
	c, err := net.DialTimeout("tcp", e.proxy.Addr, 5*time.Second)
	if err != nil {
		return nil, err
	}
	s.sc = &stampConn{Conn: c}
	s.conn = s.sc
	s.br = bufio.NewReaderSize(s.conn, 16<<10)
	return s, nil
}

func (s *sess) close() { s.sc.Conn.Close() }

// write sends b on the top layer and returns the instant just before the write.
func (s *sess) write(b []byte) (time.Time, error) {
	t := time.Now()
	s.conn.SetWriteDeadline(t.Add(5 * time.Second))
	_, err := s.conn.Write(b)
	return t, err
}

func (s *sess) sendProxyHeader(v2 bool) (time.Time, error) {
	t, err := s.write(proxyHeader(v2))
	s.ev(t, "c")
	s.hdrAt = s.us(t)
	return t, err
}

// handshake performs a TLS client handshake on top of the TCP connection; the anchor of what follows is
// the instant of the client's last handshake write (the server cannot finish before it).
func (s *sess) handshake(inner bool) (time.Time, error) {
	conf := &tls.Config{ServerName: "origin.test", NextProtos: []string{"http/1.1"}}
	if inner {
		conf.RootCAs = s.e.roots
	} else {
		conf.InsecureSkipVerify = true // listener certificate is self-signed
	}
	tc := tls.Client(s.sc, conf)
	begin := time.Now()
	tc.SetDeadline(begin.Add(15 * time.Second))
	if err := tc.Handshake(); err != nil {
		// a handshake the proxy gave up on because this client was too slow for the limit says nothing
		if lim := s.e.conf.L.TLS; lim > 0 && time.Since(begin) > time.Duration(lim)*time.Millisecond/2 {
			s.slow = true
		}
		return time.Time{}, fmt.Errorf("tls handshake: %w", err)
	}
	tc.SetDeadline(time.Time{})
	t := s.sc.lastWrite()
	s.ev(t, "c")
	s.conn = tc
	s.br = bufio.NewReaderSize(tc, 16<<10)
	return t, nil
}

func (s *sess) target() string {
	if s.e.conf.hasMITM() {
		return "/"
	}
	return "http://origin.test/"
}

func (s *sess) requestHead(bodyLen, sleepMs int) (string, []byte) {
	s.nreq++
	rid := fmt.Sprintf("%s-%d", s.id, s.nreq)
	method := "GET"
	if bodyLen > 0 {
		method = "POST"
	}
	var b bytes.Buffer
	fmt.Fprintf(&b, "%s %s HTTP/1.1\r\nHost: origin.test\r\nCase-Id: %s\r\n", method, s.target(), rid)
	if sleepMs > 0 {
		fmt.Fprintf(&b, "X-Sleep-Ms: %d\r\n", sleepMs)
	}
	if bodyLen > 0 {
		fmt.Fprintf(&b, "Content-Length: %d\r\n", bodyLen)
	}
	b.WriteString("\r\n")
	return rid, b.Bytes()
}

// exchange sends one complete request and reads the response; the response's event carries the instant
// the origin began writing it (a lower bound of the instant the proxy became idle again).
func (s *sess) exchange(bodyLen, sleepMs int, wait time.Duration) (time.Time, int, error) {
	rid, head := s.requestHead(bodyLen, sleepMs)
	method := "GET"
	msg := head
	if bodyLen > 0 {
		method = "POST"
		msg = append(msg, bytes.Repeat([]byte{'b'}, bodyLen)...)
	}
	t, err := s.write(msg)
	if err != nil {
		return t, 0, err
	}
	if bodyLen > 0 {
		s.ev(t, "hb")
		s.ev(t, "c")
	} else {
		s.ev(t, "hn")
	}
	return s.readResponse(method, rid, wait)
}

func (s *sess) readResponse(method, rid string, wait time.Duration) (time.Time, int, error) {
	s.conn.SetReadDeadline(time.Now().Add(wait))
	res, err := rig.ReadResponse(s.br, method)
	s.conn.SetReadDeadline(time.Time{})
	if err != nil || res == nil {
		if err == nil {
			err = io.ErrUnexpectedEOF
		}
		return time.Now(), 0, err
	}
	st := time.Now()
	if v, ok := s.e.stamps.Load(rid); ok {
		st = v.(time.Time)
		s.e.stamps.Delete(rid)
	}
	if res.Status == 200 {
		s.ev(st, "c")
	}
	return st, res.Status, nil
}

// connectMITM sends CONNECT and reads the 200 (intercepting proxy).
func (s *sess) connectMITM() (time.Time, error) {
	t, err := s.write([]byte("CONNECT origin.test:443 HTTP/1.1\r\nHost: origin.test:443\r\n\r\n"))
	if err != nil {
		return t, err
	}
	s.ev(t, "hm")
	s.conn.SetReadDeadline(time.Now().Add(10 * time.Second))
	res, err := rig.ReadResponse(s.br, "CONNECT")
	s.conn.SetReadDeadline(time.Time{})
	if err != nil || res == nil || res.Status != 200 {
		return t, fmt.Errorf("CONNECT not answered with 200: %v %v", res, err)
	}
	return t, nil
}

// prelude does what a well-behaved client does up to the point at which it can send requests; the
// returned instant is the anchor of the idle phase that follows.
func (s *sess) prelude(v2 bool) (time.Time, error) {
	anchor := s.t0
	var err error
	if s.e.conf.hasProxy() {
		if anchor, err = s.sendProxyHeader(v2); err != nil {
			return anchor, err
		}
	}
	if s.e.conf.hasTLS() {
		if anchor, err = s.handshake(false); err != nil {
			return anchor, err
		}
	}
	if s.e.conf.hasMITM() {
		if _, err = s.connectMITM(); err != nil {
			return anchor, err
		}
		// the first tunnel byte (ClientHello) starts the MITM handshake
		s.ev(time.Now(), "d")
		if anchor, err = s.handshake(true); err != nil {
			return anchor, err
		}
	}
	return anchor, nil
}

// awaitClose waits until the proxy closes the connection (EOF, reset, TLS alert) or until limit.
func (s *sess) awaitClose(until time.Time) (bool, time.Time) {
	buf := make([]byte, 4096)
	for {
		s.conn.SetReadDeadline(until)
		_, err := s.br.Read(buf)
		now := time.Now()
		if err != nil {
			var ne net.Error
			if errors.As(err, &ne) && ne.Timeout() {
				return false, now
			}
			return true, now
		}
	}
}

// probe is the well-behaved client: everything up to a 200 from the origin.
func (e *env) probe(base time.Time, id string) (lat time.Duration, arrive int64, hdrAt int64, slow bool, err error) {
	s, err := e.dial(base, id)
	if err != nil {
		return 0, 0, -1, false, err
	}
	defer s.close()
	arrive = s.us(s.t0)
	if _, err = s.prelude(false); err != nil {
		return time.Since(s.t0), arrive, s.hdrAt, s.slow, err
	}
	_, st, err := s.exchange(0, 0, 30*time.Second)
	lat = time.Since(s.t0)
	if err == nil && st != 200 {
		err = fmt.Errorf("probe got status %d", st)
	}
	return lat, arrive, s.hdrAt, false, err
}

// ---- model ----

type modelOutcome struct {
	Closed bool
	At     int64
	Phase  string
	Anchor int64
	Raw    string
}

func askDeadline(m *core.Model, conf Conf, accept int64, events []string) modelOutcome {
	ans := m.MustAsk("C15", "deadline", conf.stackWire(), conf.limitsWire(), strconv.FormatInt(accept, 10), core.JoinList(events))
	f := strings.Fields(ans)
	out := modelOutcome{Raw: ans}
	switch {
	case len(f) == 4 && f[0] == "closed":
		out.Closed = true
		out.At, _ = strconv.ParseInt(f[1], 10, 64)
		out.Phase = f[2]
		out.Anchor, _ = strconv.ParseInt(f[3], 10, 64)
	case len(f) == 2 && f[0] == "open":
		out.Phase = f[1]
	default:
		core.Fatalf("unexpected model answer %q", ans)
	}
	return out
}

type slot struct{ Accept, Start int64 } // instant Accept returned the connection, instant its goroutine started

func (e *env) askAccept(m *core.Model, peers []string) []slot {
	ans := m.MustAsk("C15", "accept", e.conf.stackWire(), e.conf.limitsWire(), "0", core.JoinList(peers))
	var out []slot
	for _, a := range core.SplitList(ans) {
		p := strings.Split(a, ":")
		if len(p) != 2 {
			core.Fatalf("unexpected model answer %q", ans)
		}
		out = append(out, slot{optInt(p[0]), optInt(p[1])})
	}
	return out
}

func optInt(s string) int64 {
	if s == "x" {
		return -1
	}
	n, err := strconv.ParseInt(s, 10, 64)
	if err != nil {
		core.Fatalf("bad number from model: %q", s)
	}
	return n
}

func showOpt(n int64) string {
	if n < 0 {
		return "x"
	}
	return strconv.FormatInt(n, 10)
}

func phaseOfPoint(point string) string {
	switch point {
	case "proxy-header":
		return "proxyHeader"
	case "tls-hello":
		return "tlsHandshake"
	case "idle":
		return "idle"
	case "head":
		return "header"
	case "mitm-peek":
		return "mitmPeek"
	case "mitm-hello":
		return "mitmHandshake"
	}
	return "?"
}

func slackFor(ctx *core.Ctx) time.Duration {
	if ctx.Quick() {
		return 1200 * time.Millisecond
	}
	return 2000 * time.Millisecond
}

func canon(v any) string {
	b, _ := json.Marshal(v)
	return string(b)
}

func kBucket(k int) string {
	switch {
	case k == 0:
		return "k=0"
	case k <= 5:
		return "k=1-5"
	case k <= 13:
		return "k=6-13"
	case k <= 50:
		return "k=14-50"
	}
	return "k>50"
}
