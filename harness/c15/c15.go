// Package c15 ties the deadline automaton and the accept-loop model of Model/C15.lean to the real proxy:
// clients stall at generated points of every listener stacking (plain, TLS, PROXY protocol, PROXY+TLS,
// MITM) and the instant at which the proxy closes their socket is measured on the wall clock; groups of
// 1-50 simultaneously stalled peers are accompanied by a well-behaved probe whose latency is measured.
// The other half of the property - a client is never closed merely because the ORIGIN is slow - is
// exercised with every client-side limit configured (WriteTimeout included) and SHORTER than the
// origin's latency: slow response heads, slow CONNECT targets (delayed dial, full accept queue, an
// upstream proxy that delays its 200), slow response bodies; and the dual, a client that does not
// take a large response, which is cut off WriteTimeout after the proxy started writing (slow.go).
//
// All instants are microseconds on the monotonic clock of this process (the proxy runs in-process, so
// both sides read the same clock).  The instant a phase begins at the proxy is never earlier than the
// instant at which this client performed the action that makes it begin; that client-side instant (taken
// BEFORE the action) is the anchor.  Hence  observedClose − anchor ≥ limit  holds on a correct
// implementation whatever the scheduling: the "never earlier than the limit" side is checked sharply
// (eps = clock granularity), the other side with a slack that is generous but always below the limit itself
// (slackUsFor: a close after TWO periods of a limit is late whatever the limit; late.go sends bytes after a limit
// has expired and expects them to be answered with nothing).
package c15

import (
	"bufio"
	"bytes"
	"crypto/tls"
	"crypto/x509"
	"encoding/json"
	"errors"
	"fmt"
	"io"
	"net"
	"strconv"
	"strings"
	"sync"
	"time"

	"github.com/prometheus/client_golang/prometheus"
	"github.com/saucelabs/forwarder"
	"github.com/saucelabs/forwarder/verifharness/core"
	"github.com/saucelabs/forwarder/verifharness/rig"
)

func init() { core.Register("C15", core.Scenario{Run: Run, Replay: Replay}) }

// Two known-finding classes are open for this property: F45 (slow.go, classSlowBody - the write deadline is one
// absolute instant, a response whose body the origin delivers over more than WriteTimeout is cut off) and F49
// (bodystall.go, classBodyStall - a stall inside a request body under ReadTimeout is answered 504 and the
// connection idles on instead of being closed).
// F8 (the accept loop waited for the PROXY header of every connection), F32 (no deadline for the first
// tunnel byte after an intercepted CONNECT) and F46 (the request's read deadline stayed armed on tunnels) are
// repaired in the tree. The inputs that showed them - groups of peers stalled in their PROXY header next to
// a probe, a client silent after the 200 to CONNECT, tunnels used for longer than ReadTimeout - are
// generated on every run and kept in the corpus; what they find is a VIOLATION.
const epsUs = 1000 // clock granularity allowed on the sharp side (1 ms)

// Limits are the configured limits in milliseconds (0 = not set).
type Limits struct {
	Idle       int `json:"idle"`
	ReadHeader int `json:"read_header"`
	Read       int `json:"read"`
	TLS        int `json:"tls"`
	ProxyHdr   int `json:"proxy_hdr"`
	Write      int `json:"write,omitempty"`   // WriteTimeout
	Connect    int `json:"connect,omitempty"` // ConnectTimeout (origin side: CONNECT through an upstream proxy); 0 = default (60 s)
}

// Conf is one proxy configuration: listener stacking + limits.
type Conf struct {
	Stack    string `json:"stack"` // "plain" | "tls" | "mitm" | "proxy" | "proxy+tls"
	L        Limits `json:"limits"`
	Upstream bool   `json:"upstream,omitempty"` // requests and CONNECTs go through a scripted upstream HTTP proxy
}

func (c Conf) hasProxy() bool { return c.Stack == "proxy" || c.Stack == "proxy+tls" }
func (c Conf) hasTLS() bool   { return c.Stack == "tls" || c.Stack == "proxy+tls" }
func (c Conf) hasMITM() bool  { return c.Stack == "mitm" }

func (c Conf) stackWire() string {
	return core.B01(c.hasProxy()) + core.B01(c.hasTLS()) + core.B01(c.hasMITM())
}

// limitsWire renders the limits in microseconds.
func (c Conf) limitsWire() string {
	l := c.L
	return fmt.Sprintf("%d,%d,%d,%d,%d,%d", l.Idle*1000, l.ReadHeader*1000, l.Read*1000, l.TLS*1000, l.ProxyHdr*1000, l.Write*1000)
}

// limits named by the property, by stall point (independent of the model): ms, 0 = none
func (c Conf) idleEff() int {
	if c.L.Idle > 0 {
		return c.L.Idle
	}
	return c.L.Read
}

func (c Conf) headerEff() int {
	if c.L.ReadHeader > 0 {
		return c.L.ReadHeader
	}
	return c.L.Read
}

func (c Conf) limitAt(point string) int {
	switch point {
	case "proxy-header":
		return c.L.ProxyHdr
	case "tls-hello", "mitm-hello":
		return c.L.TLS
	case "idle", "mitm-peek": // handleMITM arms the idle deadline anew for the first tunnel byte
		return c.idleEff()
	case "head":
		return c.headerEff()
	case "writing":
		return c.L.Write
	case "body": // the whole-request deadline, counted from the first byte of the head
		return c.L.Read
	}
	return 0
}

func (c Conf) positive() []int {
	var out []int
	for _, v := range []int{c.idleEff(), c.headerEff(), c.L.TLS} {
		if v > 0 {
			out = append(out, v)
		}
	}
	if c.hasProxy() && c.L.ProxyHdr > 0 {
		out = append(out, c.L.ProxyHdr)
	}
	return out
}

func (c Conf) maxLimit() int {
	m := 0
	for _, v := range c.positive() {
		if v > m {
			m = v
		}
	}
	return m
}

// maxClientLimit: the longest limit that could close the client connection, WriteTimeout included.
func (c Conf) maxClientLimit() int {
	m := c.maxLimit()
	for _, v := range []int{c.L.Write, c.L.Read} {
		if v > m {
			m = v
		}
	}
	return m
}

func (c Conf) minLimit() int {
	m := 0
	for _, v := range c.positive() {
		if m == 0 || v < m {
			m = v
		}
	}
	return m
}

// probeBoundUs is the bound on the probe's latency: a function of the configuration only (never of the
// number of stalled peers), well below the smallest limit an accept loop that waits for a stalled peer
// would add.
func (c Conf) probeBoundUs() int64 {
	b := int64(c.minLimit()) * 600
	if b < 90_000 {
		b = 90_000
	}
	return b
}

// ---- environment: one real proxy + its origin ----

type env struct {
	conf   Conf
	proxy  *rig.Proxy
	origin *rig.Peer
	ca     *rig.CA
	roots  *x509.CertPool
	hello  []byte
	stamps sync.Map // Case-Id → time.Time at which the origin began writing its response
	slack  time.Duration

	echo     *rig.Peer // raw tunnel target: echoes what it receives
	upstream *rig.Peer // scripted upstream HTTP proxy (conf.Upstream)
	routes   sync.Map  // "host:port" → loopback address of a per-case listener (slow-accept targets)
	fins     sync.Map  // Case-Id → time.Time at which the origin had written its whole response
	cuts     sync.Map  // Case-Id → chan time.Time: instant at which a write of the origin failed
}

const (
	proxyV1 = "PROXY TCP4 192.0.2.7 198.51.100.9 40000 443\r\n"
)

var proxyV2 = append(append([]byte("\r\n\r\n\x00\r\nQUIT\n"), 0x21, 0x11, 0x00, 0x0c),
	192, 0, 2, 7, 198, 51, 100, 9, 0x9c, 0x40, 0x01, 0xbb)

func proxyHeader(v2 bool) []byte {
	if v2 {
		return proxyV2
	}
	return []byte(proxyV1)
}

func newEnv(ctx *core.Ctx, conf Conf) (*env, error) {
	e := &env{conf: conf, slack: slackFor(ctx)}
	var err error
	if e.ca, err = rig.NewCA("verif C15 origin CA"); err != nil {
		return nil, err
	}
	if conf.hasMITM() {
		leaf, err := e.ca.ValidLeaf("origin.test")
		if err != nil {
			return nil, err
		}
		e.origin, err = rig.NewTLSPeer("tls-origin", &tls.Config{Certificates: []tls.Certificate{leaf}}, e.respond)
		if err != nil {
			return nil, err
		}
	} else if e.origin, err = rig.NewPeer("origin", e.respond); err != nil {
		return nil, err
	}
	caFile, err := e.ca.WriteFile(ctx.Root+"/.work", fmt.Sprintf("c15-ca-%d.pem", time.Now().UnixNano()))
	if err != nil {
		e.origin.Close()
		return nil, err
	}
	if e.echo, err = rig.NewRawPeer("echo", func(pc *rig.PeerConn) { io.Copy(pc.Conn, pc.BR) }); err != nil {
		e.origin.Close()
		return nil, err
	}
	routes := []forwarder.HostPortPair{rig.Route("origin.test", "80", e.origin.Addr), rig.Route("origin.test", "443", e.origin.Addr)}
	if conf.Upstream {
		if e.upstream, err = rig.NewRawPeer("upstream", e.upstreamConn); err != nil {
			e.close()
			return nil, err
		}
		routes = append(routes, rig.Route("upstream.test", "3128", e.upstream.Addr))
	}
	ms := func(n int) time.Duration { return time.Duration(n) * time.Millisecond }
	e.proxy, err = rig.StartProxy(rig.ProxyOpts{
		ConnectTo: routes,
		Transport: func(tc *forwarder.HTTPTransportConfig) {
			tc.CACertFiles = []string{caFile}
			// slow CONNECT targets: "slow-<ms>.test" is a dial that takes <ms> longer (a slow resolver or
			// network path), anything in e.routes a per-case listener; everything stays on loopback
			base := tc.RedirectFunc
			tc.RedirectFunc = func(network, address string) (string, string) {
				if a, ok := e.routes.Load(address); ok {
					return network, a.(string)
				}
				if d, ok := slowTarget(address); ok {
					time.Sleep(d)
					return network, e.echo.Addr
				}
				return base(network, address)
			}
		},
		Configure: func(cfg *forwarder.HTTPProxyConfig) {
			cfg.Name = "fwdverif"
			cfg.PromRegistry = prometheus.NewRegistry()
			cfg.IdleTimeout = ms(conf.L.Idle)
			cfg.ReadHeaderTimeout = ms(conf.L.ReadHeader)
			cfg.ReadTimeout = ms(conf.L.Read)
			cfg.WriteTimeout = ms(conf.L.Write)
			if conf.L.Connect > 0 {
				cfg.ConnectTimeout = ms(conf.L.Connect)
			}
			if conf.Upstream {
				cfg.UpstreamProxy = rig.MustURL("http://upstream.test:3128")
			}
			cfg.TLSServerConfig.HandshakeTimeout = ms(conf.L.TLS)
			if conf.hasProxy() {
				cfg.ProxyProtocolConfig = &forwarder.ProxyProtocolConfig{ReadHeaderTimeout: ms(conf.L.ProxyHdr)}
			}
			if conf.hasTLS() {
				cfg.Protocol = forwarder.HTTPSScheme // self-signed certificate
			}
			if conf.hasMITM() {
				cfg.MITM = forwarder.DefaultMITMConfig()
			}
		},
	})
	if err != nil {
		e.close()
		return nil, err
	}
	e.roots = e.ca.Pool()
	if c := e.proxy.CACert(); c != nil {
		e.roots.AddCert(c)
	}
	e.hello = captureHello("origin.test")
	return e, nil
}

func (e *env) close() {
	if e.proxy != nil {
		e.proxy.Stop()
	}
	if e.origin != nil {
		e.origin.Close()
	}
	if e.echo != nil {
		e.echo.Close()
	}
	if e.upstream != nil {
		e.upstream.Close()
	}
}

// respond is the origin: optional sleep, then a 200; the instant just before the first write is recorded.
//
//	X-Sleep-Ms: n          sleep before the response head
//	X-Body: n              body of n bytes (default: "ok")
//	X-Trickle: p,gap,n     head at once, then p pieces of n bytes, each after a pause of gap ms
//	X-Chunked: 1           (with X-Trickle) chunked framing, one chunk per piece
//	X-Endless: 1           Content-Length 1 GiB, written until a write fails; that instant is recorded
//	X-Upgrade: 1           101 Switching Protocols (Upgrade: echo), then everything received is echoed
func (e *env) respond(w *rig.PeerConn, ex *rig.Exchange) bool {
	if s := ex.Req.Get("X-Sleep-Ms"); s != "" {
		if n, err := strconv.Atoi(s); err == nil {
			time.Sleep(time.Duration(n) * time.Millisecond)
		}
	}
	id := ex.Req.Get("Case-Id")
	stamp := func() {
		if id != "" {
			e.stamps.Store(id, time.Now())
		}
	}
	ct := rig.Field{Name: "Content-Type", Value: "text/plain"}
	switch {
	case ex.Req.Get("X-Upgrade") != "":
		stamp()
		if _, err := w.Write(rig.Head("HTTP/1.1 101 Switching Protocols", []rig.Field{{Name: "Connection", Value: "Upgrade"}, {Name: "Upgrade", Value: "echo"}})); err == nil {
			io.Copy(w.Conn, w.BR)
		}
		return false
	case ex.Req.Get("X-Endless") != "":
		const total = 1 << 30
		block := bytes.Repeat([]byte{'z'}, 64<<10)
		stamp()
		_, err := w.Write(rig.Head("HTTP/1.1 200 OK", []rig.Field{{Name: "Content-Length", Value: strconv.Itoa(total)}, ct}))
		for n := 0; err == nil && n < total; n += len(block) {
			_, err = w.Write(block)
		}
		if cut := time.Now(); err != nil {
			if ch, ok := e.cuts.Load(id); ok {
				select {
				case ch.(chan time.Time) <- cut:
				default:
				}
			}
		}
		return false
	case ex.Req.Get("X-Trickle") != "":
		var pieces, gap, n int
		fmt.Sscanf(ex.Req.Get("X-Trickle"), "%d,%d,%d", &pieces, &gap, &n)
		chunked := ex.Req.Get("X-Chunked") != ""
		piece := bytes.Repeat([]byte{'t'}, n)
		stamp()
		if chunked {
			w.Write(rig.Head("HTTP/1.1 200 OK", []rig.Field{{Name: "Transfer-Encoding", Value: "chunked"}, ct}))
		} else {
			w.Write(rig.Head("HTTP/1.1 200 OK", []rig.Field{{Name: "Content-Length", Value: strconv.Itoa(pieces * n)}, ct}))
		}
		for i := 0; i < pieces; i++ {
			time.Sleep(time.Duration(gap) * time.Millisecond)
			var err error
			if chunked {
				_, err = fmt.Fprintf(w, "%x\r\n%s\r\n", n, piece)
			} else {
				_, err = w.Write(piece)
			}
			if err != nil {
				return false
			}
		}
		if chunked {
			w.Write([]byte("0\r\n\r\n"))
		}
		if id != "" {
			e.fins.Store(id, time.Now())
		}
		return true
	}
	body := []byte("ok")
	if s := ex.Req.Get("X-Body"); s != "" {
		if n, err := strconv.Atoi(s); err == nil && n >= 0 {
			body = bytes.Repeat([]byte{'r'}, n)
		}
	}
	b := rig.Head("HTTP/1.1 200 OK", []rig.Field{{Name: "Content-Length", Value: strconv.Itoa(len(body))}, ct})
	b = append(b, body...)
	stamp()
	w.Write(b)
	return true
}

// slowTarget parses "slow-<ms>.test:<port>".
func slowTarget(address string) (time.Duration, bool) {
	host, _, err := net.SplitHostPort(address)
	if err != nil || !strings.HasPrefix(host, "slow-") || !strings.HasSuffix(host, ".test") {
		return 0, false
	}
	n, err := strconv.Atoi(strings.TrimSuffix(strings.TrimPrefix(host, "slow-"), ".test"))
	if err != nil || n < 0 {
		return 0, false
	}
	return time.Duration(n) * time.Millisecond, true
}

// upstreamConn is the scripted upstream HTTP proxy: CONNECT is answered with 200 - after <ms> when the
// target is "slow-<ms>.test" - and everything that follows is echoed; any other request is answered the
// way the origin answers it.
func (e *env) upstreamConn(pc *rig.PeerConn) {
	for i := 0; ; i++ {
		req, err := rig.ReadRequest(pc.BR)
		if err != nil {
			return
		}
		if req.Method == "CONNECT" {
			if d, ok := slowTarget(req.Target); ok {
				time.Sleep(d)
			}
			if _, err := pc.Write([]byte("HTTP/1.1 200 Connection established\r\n\r\n")); err != nil {
				return
			}
			io.Copy(pc.Conn, pc.BR)
			return
		}
		if !e.respond(pc, &rig.Exchange{ConnID: pc.ID, Index: i, Req: req, At: time.Now()}) {
			return
		}
	}
}

// captureHello returns the bytes of a real ClientHello (first flight of crypto/tls).
func captureHello(serverName string) []byte {
	c := &captureConn{}
	tc := tls.Client(c, &tls.Config{ServerName: serverName, InsecureSkipVerify: true})
	tc.Handshake() // fails on the read; the first flight has been written
	return c.buf.Bytes()
}

type captureConn struct{ buf bytes.Buffer }

func (c *captureConn) Read([]byte) (int, error)         { return 0, io.EOF }
func (c *captureConn) Write(b []byte) (int, error)      { return c.buf.Write(b) }
func (c *captureConn) Close() error                     { return nil }
func (c *captureConn) LocalAddr() net.Addr              { return &net.TCPAddr{} }
func (c *captureConn) RemoteAddr() net.Addr             { return &net.TCPAddr{} }
func (c *captureConn) SetDeadline(time.Time) error      { return nil }
func (c *captureConn) SetReadDeadline(time.Time) error  { return nil }
func (c *captureConn) SetWriteDeadline(time.Time) error { return nil }

// stampConn records the instant just before the most recent Write.
type stampConn struct {
	net.Conn
	mu   sync.Mutex
	last time.Time
}

func (c *stampConn) Write(b []byte) (int, error) {
	c.mu.Lock()
	c.last = time.Now()
	c.mu.Unlock()
	return c.Conn.Write(b)
}

func (c *stampConn) lastWrite() time.Time {
	c.mu.Lock()
	defer c.mu.Unlock()
	return c.last
}

// ---- one client connection ----

type sess struct {
	e      *env
	base   time.Time // origin of the time axis reported to the model
	t0     time.Time // just before the dial
	sc     *stampConn
	conn   net.Conn // top layer
	br     *bufio.Reader
	events []string
	id     string
	nreq   int
	hdrAt  int64 // instant the complete PROXY header was sent (µs from base), -1 = never
	slow   bool  // a step of the well-behaved client failed after taking more than half the limit that governs it

	rest []byte // stallAt: what is left of the unit the client stalls in (the bytes that would complete it)

	patience time.Duration // how long this client waits for the proxy in a step of its prelude (0: 15 s / 10 s)
}

func (s *sess) us(t time.Time) int64 { return t.Sub(s.base).Microseconds() }

func (s *sess) ev(t time.Time, kind string) {
	u := s.us(t)
	if u < 0 {
		u = 0
	}
	s.events = append(s.events, fmt.Sprintf("%d:%s", u, kind))
}

func (e *env) dial(base time.Time, id string) (*sess, error) {
	s := &sess{e: e, id: id, hdrAt: -1}
	s.t0 = time.Now()
	if base.IsZero() {
		base = s.t0
	}
	s.base = base
	c, err := net.DialTimeout("tcp", e.proxy.Addr, 5*time.Second)
	if err != nil {
		return nil, err
	}
	s.sc = &stampConn{Conn: c}
	s.conn = s.sc
	s.br = bufio.NewReaderSize(s.conn, 16<<10)
	return s, nil
}

func (s *sess) close() { s.sc.Conn.Close() }

// write sends b on the top layer and returns the instant just before the write.
func (s *sess) write(b []byte) (time.Time, error) {
	t := time.Now()
	s.conn.SetWriteDeadline(t.Add(5 * time.Second))
	_, err := s.conn.Write(b)
	return t, err
}

func (s *sess) sendProxyHeader(v2 bool) (time.Time, error) {
	t, err := s.write(proxyHeader(v2))
	s.ev(t, "c")
	s.hdrAt = s.us(t)
	return t, err
}

// handshake performs a TLS client handshake on top of the TCP connection; the anchor of what follows is
// the instant of the client's last handshake write (the server cannot finish before it).
func (s *sess) handshake(inner bool) (time.Time, error) {
	conf := &tls.Config{ServerName: "origin.test", NextProtos: []string{"http/1.1"}}
	if inner {
		conf.RootCAs = s.e.roots
	} else {
		conf.InsecureSkipVerify = true // listener certificate is self-signed
	}
	tc := tls.Client(s.sc, conf)
	begin := time.Now()
	wait := 15 * time.Second
	if s.patience > 0 {
		wait = s.patience
	}
	tc.SetDeadline(begin.Add(wait))
	if err := tc.Handshake(); err != nil {
		// a handshake the proxy gave up on because this client was too slow for the limit says nothing
		if lim := s.e.conf.L.TLS; lim > 0 && time.Since(begin) > time.Duration(lim)*time.Millisecond/2 {
			s.slow = true
		}
		return time.Time{}, fmt.Errorf("tls handshake: %w", err)
	}
	tc.SetDeadline(time.Time{})
	t := s.sc.lastWrite()
	s.ev(t, "c")
	s.conn = tc
	s.br = bufio.NewReaderSize(tc, 16<<10)
	return t, nil
}

func (s *sess) target() string {
	if s.e.conf.hasMITM() {
		return "/"
	}
	return "http://origin.test/"
}

func (s *sess) requestHead(bodyLen, sleepMs int) (string, []byte) {
	return s.requestHeadX(bodyLen, sleepMs)
}

// requestHeadX: extra = further field lines ("Name: value") understood by the scripted origin.
func (s *sess) requestHeadX(bodyLen, sleepMs int, extra ...string) (string, []byte) {
	s.nreq++
	rid := fmt.Sprintf("%s-%d", s.id, s.nreq)
	method := "GET"
	if bodyLen > 0 {
		method = "POST"
	}
	var b bytes.Buffer
	fmt.Fprintf(&b, "%s %s HTTP/1.1\r\nHost: origin.test\r\nCase-Id: %s\r\n", method, s.target(), rid)
	if sleepMs > 0 {
		fmt.Fprintf(&b, "X-Sleep-Ms: %d\r\n", sleepMs)
	}
	if bodyLen > 0 {
		fmt.Fprintf(&b, "Content-Length: %d\r\n", bodyLen)
	}
	for _, x := range extra {
		b.WriteString(x + "\r\n")
	}
	b.WriteString("\r\n")
	return rid, b.Bytes()
}

// exchange sends one complete request and reads the response; the response's event carries the instant
// the origin began writing it (a lower bound of the instant the proxy became idle again).
func (s *sess) exchange(bodyLen, sleepMs int, wait time.Duration, extra ...string) (time.Time, int, error) {
	rid, head := s.requestHeadX(bodyLen, sleepMs, extra...)
	method := "GET"
	msg := head
	if bodyLen > 0 {
		method = "POST"
		msg = append(msg, bytes.Repeat([]byte{'b'}, bodyLen)...)
	}
	t, err := s.write(msg)
	if err != nil {
		return t, 0, err
	}
	if bodyLen > 0 {
		s.ev(t, "hb")
		s.ev(t, "c")
	} else {
		s.ev(t, "hn")
	}
	return s.readResponse(method, rid, wait)
}

func (s *sess) readResponse(method, rid string, wait time.Duration) (time.Time, int, error) {
	s.conn.SetReadDeadline(time.Now().Add(wait))
	res, err := rig.ReadResponse(s.br, method)
	s.conn.SetReadDeadline(time.Time{})
	if err != nil || res == nil {
		if err == nil {
			err = io.ErrUnexpectedEOF
		}
		return time.Now(), 0, err
	}
	st := time.Now()
	if v, ok := s.e.stamps.Load(rid); ok {
		st = v.(time.Time)
		s.e.stamps.Delete(rid)
	}
	if res.Status == 200 {
		s.ev(st, "c")
	}
	return st, res.Status, nil
}

// connectMITM sends CONNECT and reads the 200 (intercepting proxy).
func (s *sess) connectMITM() (time.Time, error) {
	t, err := s.write([]byte("CONNECT origin.test:443 HTTP/1.1\r\nHost: origin.test:443\r\n\r\n"))
	if err != nil {
		return t, err
	}
	s.ev(t, "hm")
	wait := 10 * time.Second
	if s.patience > 0 {
		wait = s.patience
	}
	s.conn.SetReadDeadline(time.Now().Add(wait))
	res, err := rig.ReadResponse(s.br, "CONNECT")
	s.conn.SetReadDeadline(time.Time{})
	if err != nil || res == nil || res.Status != 200 {
		return t, fmt.Errorf("CONNECT not answered with 200: %v %v", res, err)
	}
	return t, nil
}

// prelude does what a well-behaved client does up to the point at which it can send requests; the
// returned instant is the anchor of the idle phase that follows.
func (s *sess) prelude(v2 bool) (time.Time, error) {
	anchor := s.t0
	var err error
	if s.e.conf.hasProxy() {
		if anchor, err = s.sendProxyHeader(v2); err != nil {
			return anchor, err
		}
	}
	if s.e.conf.hasTLS() {
		if anchor, err = s.handshake(false); err != nil {
			return anchor, err
		}
	}
	if s.e.conf.hasMITM() {
		if _, err = s.connectMITM(); err != nil {
			return anchor, err
		}
		// the first tunnel byte (ClientHello) starts the MITM handshake
		s.ev(time.Now(), "d")
		if anchor, err = s.handshake(true); err != nil {
			return anchor, err
		}
	}
	return anchor, nil
}

// awaitClose waits until the proxy closes the connection (EOF, reset, TLS alert) or until limit.
func (s *sess) awaitClose(until time.Time) (bool, time.Time) {
	buf := make([]byte, 4096)
	for {
		s.conn.SetReadDeadline(until)
		_, err := s.br.Read(buf)
		now := time.Now()
		if err != nil {
			var ne net.Error
			if errors.As(err, &ne) && ne.Timeout() {
				return false, now
			}
			return true, now
		}
	}
}

// probe is the well-behaved client: everything up to a 200 from the origin.
func (e *env) probe(base time.Time, id string) (lat time.Duration, arrive int64, hdrAt int64, slow bool, err error) {
	s, err := e.dial(base, id)
	if err != nil {
		return 0, 0, -1, false, err
	}
	defer s.close()
	arrive = s.us(s.t0)
	if _, err = s.prelude(false); err != nil {
		return time.Since(s.t0), arrive, s.hdrAt, s.slow, err
	}
	_, st, err := s.exchange(0, 0, 30*time.Second)
	lat = time.Since(s.t0)
	if err == nil && st != 200 {
		err = fmt.Errorf("probe got status %d", st)
	}
	return lat, arrive, s.hdrAt, false, err
}

// ---- model ----

type modelOutcome struct {
	Closed bool
	At     int64
	Phase  string
	Anchor int64
	Raw    string
}

func askDeadline(m *core.Model, conf Conf, accept int64, events []string) modelOutcome {
	ans := m.MustAsk("C15", "deadline", conf.stackWire(), conf.limitsWire(), strconv.FormatInt(accept, 10), core.JoinList(events))
	f := strings.Fields(ans)
	out := modelOutcome{Raw: ans}
	switch {
	case len(f) == 4 && f[0] == "closed":
		out.Closed = true
		out.At, _ = strconv.ParseInt(f[1], 10, 64)
		out.Phase = f[2]
		out.Anchor, _ = strconv.ParseInt(f[3], 10, 64)
	case len(f) == 2 && f[0] == "open":
		out.Phase = f[1]
	default:
		core.Fatalf("unexpected model answer %q", ans)
	}
	return out
}

type slot struct{ Accept, Start int64 } // instant Accept returned the connection, instant its goroutine started

func (e *env) askAccept(m *core.Model, peers []string) []slot {
	ans := m.MustAsk("C15", "accept", e.conf.stackWire(), e.conf.limitsWire(), "0", core.JoinList(peers))
	var out []slot
	for _, a := range core.SplitList(ans) {
		p := strings.Split(a, ":")
		if len(p) != 2 {
			core.Fatalf("unexpected model answer %q", ans)
		}
		out = append(out, slot{optInt(p[0]), optInt(p[1])})
	}
	return out
}

func optInt(s string) int64 {
	if s == "x" {
		return -1
	}
	n, err := strconv.ParseInt(s, 10, 64)
	if err != nil {
		core.Fatalf("bad number from model: %q", s)
	}
	return n
}

func showOpt(n int64) string {
	if n < 0 {
		return "x"
	}
	return strconv.FormatInt(n, 10)
}

func phaseOfPoint(point string) string {
	switch point {
	case "proxy-header":
		return "proxyHeader"
	case "tls-hello":
		return "tlsHandshake"
	case "idle":
		return "idle"
	case "head":
		return "header"
	case "mitm-peek":
		return "mitmPeek"
	case "mitm-hello":
		return "mitmHandshake"
	case "writing":
		return "writing"
	case "body":
		return "body"
	}
	return "?"
}

func slackFor(ctx *core.Ctx) time.Duration {
	if ctx.Quick() {
		return 1200 * time.Millisecond
	}
	return 2000 * time.Millisecond
}

func canon(v any) string {
	b, _ := json.Marshal(v)
	return string(b)
}

func kBucket(k int) string {
	switch {
	case k == 0:
		return "k=0"
	case k <= 5:
		return "k=1-5"
	case k <= 13:
		return "k=6-13"
	case k <= 50:
		return "k=14-50"
	}
	return "k>50"
}
