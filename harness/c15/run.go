package c15

import (
	"encoding/json"
	"fmt"
	"sort"
	"strconv"
	"sync"
	"time"

	"github.com/saucelabs/forwarder/verifharness/core"
)

// ---- cases ----

// stallCase: one connection that stalls at one point.
type stallCase struct {
	Kind     string `json:"kind"` // "stall"
	Conf     Conf   `json:"conf"`
	Point    string `json:"point"`    // proxy-header | tls-hello | idle | head | mitm-peek | mitm-hello
	K        int    `json:"k"`        // bytes of the unit sent before the stall
	WaitMs   int    `json:"wait_ms"`  // pause before those bytes (head, mitm-hello)
	Requests int    `json:"requests"` // complete exchanges before (idle, head)
	V2       bool   `json:"v2,omitempty"`
	ID       string `json:"id"`
}

// originCase: a complete request whose origin sleeps longer than every limit; then the connection idles.
type originCase struct {
	Kind      string `json:"kind"` // "origin"
	Conf      Conf   `json:"conf"`
	Body      int    `json:"body"`
	SleepMs   int    `json:"sleep_ms"`
	RespBytes int    `json:"resp_bytes,omitempty"` // size of the origin's response body (0: "ok")
	ID        string `json:"id"`
}

// bodyCase: request head + part of the body, a pause longer than every limit, then the rest.
type bodyCase struct {
	Kind    string `json:"kind"` // "body"
	Conf    Conf   `json:"conf"`
	Body    int    `json:"body"`
	Sent    int    `json:"sent"`
	StallMs int    `json:"stall_ms"`
	ID      string `json:"id"`
}

type peerSpec struct {
	Point string `json:"point"`
	K     int    `json:"k"`
	V2    bool   `json:"v2,omitempty"`
}

// groupCase: N peers that stall at once + a well-behaved probe issued at the same time.
type groupCase struct {
	Kind  string     `json:"kind"` // "group"
	Conf  Conf       `json:"conf"`
	Peers []peerSpec `json:"peers"`
	ID    string     `json:"id"`
}

func (g *groupCase) headerStalled() int {
	n := 0
	for _, p := range g.Peers {
		if p.Point == "proxy-header" {
			n++
		}
	}
	return n
}

// ---- attempts: every verdict about timing is confirmed by repetition ----

// rec collects what one attempt of a case found. A deterministic defect of the deadline arithmetic shows
// on every attempt; an artefact of a loaded machine (the harness's own client descheduled for hundreds of
// milliseconds) does not repeat.
type rec struct {
	reports      []func(ctx *core.Ctx)
	hard         bool   // an unexplained finding
	inconclusive string // the client did not manage to play its script in time
	validated    int
	kinds        []string
}

func (r *rec) SpecFail(clause, class string, cs any, impl, detail string) {
	r.reports = append(r.reports, func(ctx *core.Ctx) { ctx.SpecFail(clause, class, cs, impl, detail) })
	if class == "" {
		r.hard = true
		k := clause
		if len(k) > 60 {
			k = k[:60]
		}
		r.kinds = append(r.kinds, "spec: "+k)
	}
}

func (r *rec) Disagree(rel string, cs any, impl, model string) {
	r.reports = append(r.reports, func(ctx *core.Ctx) { ctx.Disagree(rel, cs, impl, model) })
	r.hard = true
	r.kinds = append(r.kinds, "correspondence")
}

func (r *rec) Crash(clause string, cs any, detail string) {
	r.reports = append(r.reports, func(ctx *core.Ctx) { ctx.Crash(clause, "", cs, detail) })
	r.hard = true
	r.kinds = append(r.kinds, "crash")
}

const attempts = 3

func confirm(ctx *core.Ctx, run func(r *rec)) {
	var last *rec
	for a := 0; a < attempts; a++ {
		last = &rec{}
		run(last)
		if !last.hard && last.inconclusive == "" {
			break
		}
		if a < attempts-1 {
			if last.hard {
				ctx.Count("unconfirmed-on-first-attempt/" + last.kinds[0])
			} else {
				ctx.Count("retried/inconclusive")
			}
		}
	}
	if !last.hard && last.inconclusive != "" {
		ctx.Count("inconclusive/" + last.inconclusive)
	}
	for _, f := range last.reports {
		f(ctx)
	}
	for i := 0; i < last.validated; i++ {
		ctx.TraceValidated()
	}
}

// ---- single stall ----

const (
	clauseEarly  = "a stalled connection is never closed before the applicable limit has elapsed"
	clauseLate   = "a connection that makes no progress is closed once the applicable limit has elapsed"
	clauseOrigin = "a connection is not closed merely because the origin is slow to answer a request the proxy has fully received"
	clauseBody   = "read-header-timeout applies only until the request head is complete (a request body is not cut off when ReadTimeout is unset)"
	clauseProbe  = "however many connections are stalled, a well-behaved client connecting at the same time is accepted and served without waiting for them"
	clauseServed = "a well-behaved client is accepted and served"
)

func clampK(k, n int, min int) int {
	if n <= 1 {
		return 0
	}
	if k > n-1 {
		k = n - 1
	}
	if k < min {
		k = min
	}
	return k
}

// stallAt drives s to its stall point. group = only non-blocking steps (used for simultaneous peers).
// It returns the anchor (client-side lower bound of the instant the stalled phase began).
func (s *sess) stallAt(point string, k, waitMs, requests int, v2, group bool) (anchor time.Time, inconclusive string, err error) {
	e := s.e
	anchor = s.t0
	switch point {
	case "proxy-header":
		h := proxyHeader(v2)
		k = clampK(k, len(h), 0)
		s.rest = h[k:]
		if k > 0 {
			t, werr := s.write(h[:k])
			s.ev(t, "d")
			err = werr
		}
	case "tls-hello":
		if e.conf.hasProxy() {
			if anchor, err = s.sendProxyHeader(v2); err != nil {
				return
			}
		}
		k = clampK(k, len(e.hello), 0)
		s.rest = e.hello[k:]
		if k > 0 {
			t, werr := s.write(e.hello[:k])
			s.ev(t, "d")
			err = werr
		}
	case "idle", "head":
		if group {
			if e.conf.hasProxy() {
				if anchor, err = s.sendProxyHeader(v2); err != nil {
					return
				}
			}
		} else {
			if anchor, err = s.prelude(v2); err != nil {
				return
			}
			for i := 0; i < requests; i++ {
				st, status, xerr := s.exchange(0, 0, 10*time.Second)
				if xerr != nil || status != 200 {
					err = fmt.Errorf("exchange %d: status %d: %v", i, status, xerr)
					return
				}
				anchor = st
			}
		}
		if point == "head" {
			if waitMs > 0 {
				time.Sleep(time.Duration(waitMs) * time.Millisecond)
			}
			var head []byte
			if group && e.conf.hasMITM() {
				head = []byte("CONNECT origin.test:443 HTTP/1.1\r\nHost: origin.test:443\r\n\r\n")
			} else {
				_, head = s.requestHead(0, 0)
			}
			k = clampK(k, len(head), 1)
			s.rest = head[k:]
			t, werr := s.write(head[:k])
			s.ev(t, "d")
			err = werr
			if idle := e.conf.idleEff(); idle > 0 && t.Sub(anchor) > time.Duration(idle-40)*time.Millisecond {
				inconclusive = "client overslept: first head byte sent too close to the idle deadline"
			}
			anchor = t
		}
	case "mitm-peek":
		s.rest = e.hello
		anchor, err = s.connectMITM()
	case "mitm-hello":
		var t200 time.Time
		if t200, err = s.connectMITM(); err != nil {
			return
		}
		if waitMs > 0 {
			time.Sleep(time.Duration(waitMs) * time.Millisecond)
		}
		k = clampK(k, len(e.hello), 1)
		s.rest = e.hello[k:]
		t, werr := s.write(e.hello[:k])
		s.ev(t, "d")
		err = werr
		// the wait for the first tunnel byte is under the idle deadline, armed when the 200 was written
		if idle := e.conf.idleEff(); idle > 0 && t.Sub(t200) > time.Duration(idle-40)*time.Millisecond {
			inconclusive = "client overslept: first tunnel byte sent too close to the idle deadline"
		}
		anchor = t
	default:
		err = fmt.Errorf("unknown stall point %q", point)
	}
	return
}

func (e *env) runStall(ctx *core.Ctx, sc *stallCase) {
	key := *sc
	key.ID = ""
	ctx.Case(canon(key), true)
	ctx.Count("stack/" + sc.Conf.Stack)
	ctx.Count("stall/" + sc.Point + "/" + kBucket(sc.K))
	if sc.WaitMs > 0 {
		ctx.Count("stall/" + sc.Point + "/after-idle-wait")
	}
	if sc.Requests > 0 {
		ctx.Count("stall/" + sc.Point + "/between-requests")
	}
	n := 0
	confirm(ctx, func(r *rec) {
		n++
		s, err := e.dial(time.Time{}, fmt.Sprintf("%s.%d", sc.ID, n))
		if err != nil {
			r.Crash("proxy accepts a client connection", sc, err.Error())
			return
		}
		defer s.close()
		anchor, inconclusive, err := s.stallAt(sc.Point, sc.K, sc.WaitMs, sc.Requests, sc.V2, false)
		if inconclusive != "" {
			r.inconclusive = inconclusive
			return
		}
		if err != nil {
			if s.slow || e.slowClientExplains(ctx.Model, s, 0) {
				r.inconclusive = "client too slow on its way to the stall point"
				return
			}
			r.SpecFail(clauseServed, "", sc, "client could not reach its stall point: "+err.Error(), "")
			return
		}
		limit := sc.Conf.limitAt(sc.Point)
		var until time.Time
		if limit > 0 {
			until = anchor.Add(time.Duration(limit)*time.Millisecond + e.slack)
		} else {
			until = time.Now().Add(time.Duration(sc.Conf.maxLimit()+600) * time.Millisecond)
		}
		closed, at := s.awaitClose(until)
		e.judgeClose(ctx, r, sc, s, sc.Point, limit, anchor, closed, at, until, 0)
	})
}

// slowClientExplains: with every limit 60 ms shorter the model, fed with the client's own time stamps, has the
// connection closed by now — the failure of a step of the well-behaved client says nothing about the proxy.
func (e *env) slowClientExplains(m *core.Model, s *sess, accept int64) bool {
	return e.slowClientExplainsBefore(m, s, accept, time.Now())
}

func (e *env) slowClientExplainsBefore(m *core.Model, s *sess, accept int64, t time.Time) bool {
	mr := askDeadline(m, e.conf.reduced(marginMs), accept, s.events)
	return mr.Closed && mr.At <= s.us(t)
}

// reduced: every positive limit shortened by marginMs (at least 1 ms stays)
func (c Conf) reduced(marginMs int) Conf {
	f := func(v int) int {
		if v <= 0 {
			return v
		}
		if v-marginMs < 1 {
			return 1
		}
		return v - marginMs
	}
	c.L = Limits{Idle: f(c.L.Idle), ReadHeader: f(c.L.ReadHeader), Read: f(c.L.Read), TLS: f(c.L.TLS), ProxyHdr: f(c.L.ProxyHdr),
		Write: f(c.L.Write), Connect: c.L.Connect}
	return c
}

const marginMs = 60

// judgeClose compares one observed close (or its absence) with the model and evaluates the clauses.
func (e *env) judgeClose(ctx *core.Ctx, r *rec, cs any, s *sess, point string, limitMs int, anchor time.Time, closed bool, at, until time.Time, accept int64) {
	e.judgeCloseWithin(ctx, r, cs, s, point, limitMs, anchor, closed, at, until, accept, e.slackUsFor(limitMs))
}

// slackUsFor: the upper slack allowed on a close under a limit of limitMs. It is ALWAYS smaller than the limit
// itself (by twice the clock granularity): a connection whose expired wait is started over - the time-out
// handed to the connection loop as an error it does not close on, the deadline armed anew when the loop comes
// round - is closed after TWO periods of the limit at the earliest, and limit + slack < 2 x limit - eps puts
// that beyond the bound whatever the limit is (Theorems/C15 c15_verdict_excludes_second_period).
func (e *env) slackUsFor(limitMs int) int64 {
	slackUs := e.slack.Microseconds()
	if one := int64(limitMs)*1000 - 2*epsUs; limitMs > 0 && one < slackUs {
		slackUs = one
	}
	return slackUs
}

// judgeCloseWithin: judgeClose with the upper slack given (until must not be earlier than anchor + limit + slack).
func (e *env) judgeCloseWithin(ctx *core.Ctx, r *rec, cs any, s *sess, point string, limitMs int, anchor time.Time, closed bool, at, until time.Time, accept int64, slackUs int64) {
	O, A := s.us(at), s.us(anchor)
	elapsed := O - A
	if !closed {
		elapsed = s.us(until) - A + 1
	}
	mo := askDeadline(ctx.Model, e.conf, accept, s.events)
	// Did the client play its script in time? Decided from the client's own time stamps and the model
	// alone (never from what the implementation did): the stall must be in the intended phase, also
	// with every limit 60 ms shorter (an event that close to an earlier deadline may have reached the
	// proxy after it).
	if mo.Phase != phaseOfPoint(point) {
		r.inconclusive = "client too slow: by its own time stamps an earlier limit had expired"
		return
	}
	if mr := askDeadline(ctx.Model, e.conf.reduced(marginMs), accept, s.events); mr.Phase != mo.Phase || mr.Anchor != mo.Anchor {
		r.inconclusive = "client too slow: an event within 60ms of an earlier deadline"
		return
	}
	impl := fmt.Sprintf("closed=%v observed_at=%dus anchor=%dus elapsed=%dus limit=%dms events=%v", closed, O, A, elapsed, limitMs, s.events)
	ok := true
	if closed && mo.Closed {
		noteDelta(O - mo.At)
	}
	// correspondence with the model
	switch {
	case mo.Closed != closed:
		r.Disagree("whether the proxy closes the stalled connection (Model.C15 run)", cs, impl, mo.Raw)
		ok = false
	case closed && (O < mo.At-epsUs || O > mo.At+slackUs):
		r.Disagree("instant of the close: model − eps ≤ observed ≤ model + slack (Model.C15 run)", cs, impl, mo.Raw)
		ok = false
	}
	// the clauses themselves
	switch {
	case limitMs > 0:
		v := ctx.Model.MustAsk("C15", "holds", "close", strconv.Itoa(limitMs*1000), strconv.FormatInt(elapsed, 10), strconv.Itoa(epsUs), strconv.FormatInt(slackUs, 10))
		switch v {
		case "true":
		case "false early":
			r.SpecFail(clauseEarly, "", cs, impl, fmt.Sprintf("closed %dus after the phase began at the earliest; the limit is %dus", elapsed, limitMs*1000))
			ok = false
		case "false late":
			d := "not closed within limit + slack"
			if point == "mitm-peek" {
				d = "silent after the 200 to an intercepted CONNECT: not closed within idle timeout + slack (is a deadline armed for the first tunnel byte?)"
			}
			if closed {
				d = fmt.Sprintf("closed %dus after the phase began; limit %dus + slack %dus", elapsed, limitMs*1000, slackUs)
			}
			r.SpecFail(clauseLate, "", cs, impl, d)
			ok = false
		default:
			core.Fatalf("unexpected model answer %q", v)
		}
	case closed:
		r.SpecFail(clauseEarly, "", cs, impl, "closed although no limit applies to this phase")
		ok = false
	}
	if ok {
		r.validated++
	}
}

// ---- slow origin ----

func (e *env) runOrigin(ctx *core.Ctx, oc *originCase) {
	key := *oc
	key.ID = ""
	ctx.Case(canon(key), true)
	ctx.Count("stack/" + oc.Conf.Stack)
	ctx.Count("origin-sleeps/" + map[bool]string{true: "with-body", false: "no-body"}[oc.Body > 0])
	n := 0
	confirm(ctx, func(r *rec) {
		n++
		s, err := e.dial(time.Time{}, fmt.Sprintf("%s.%d", oc.ID, n))
		if err != nil {
			r.Crash("proxy accepts a client connection", oc, err.Error())
			return
		}
		defer s.close()
		if _, err := s.prelude(false); err != nil {
			if s.slow || e.slowClientExplains(ctx.Model, s, 0) {
				r.inconclusive = "client too slow in its prelude"
				return
			}
			r.SpecFail(clauseServed, "", oc, "prelude: "+err.Error(), "")
			return
		}
		t1 := time.Now()
		var extra []string
		if oc.RespBytes > 0 {
			extra = append(extra, fmt.Sprintf("X-Body: %d", oc.RespBytes))
		}
		st, status, err := s.exchange(oc.Body, oc.SleepMs, time.Duration(oc.SleepMs)*time.Millisecond+10*time.Second, extra...)
		took := time.Since(t1)
		if err != nil || status != 200 {
			mo := askDeadline(ctx.Model, e.conf, 0, s.events)
			if mo.Closed || mo.Phase != "waitingForOrigin" || e.slowClientExplainsBefore(ctx.Model, s, 0, t1) {
				r.inconclusive = "client too slow: by its own time stamps an earlier limit had expired"
				return
			}
			impl := fmt.Sprintf("status=%d err=%v after %dms (origin sleeps %dms; limits %+v)", status, err, took.Milliseconds(), oc.SleepMs, oc.Conf.L)
			r.SpecFail(clauseOrigin, "", oc, impl, "the client did not get the origin's answer")
			r.Disagree(relWaiting, oc, impl, mo.Raw)
			return
		}
		limit := oc.Conf.idleEff()
		until := st.Add(time.Duration(limit)*time.Millisecond + e.slack)
		if limit == 0 {
			until = time.Now().Add(time.Duration(oc.Conf.maxLimit()+600) * time.Millisecond)
		}
		closed, at := s.awaitClose(until)
		e.judgeClose(ctx, r, oc, s, "idle", limit, st, closed, at, until, 0)
	})
}

// ---- slow request body ----

func (e *env) runBody(ctx *core.Ctx, bc *bodyCase) {
	key := *bc
	key.ID = ""
	ctx.Case(canon(key), true)
	ctx.Count("stack/" + bc.Conf.Stack)
	ctx.Count("body-stall")
	n := 0
	confirm(ctx, func(r *rec) {
		n++
		s, err := e.dial(time.Time{}, fmt.Sprintf("%s.%d", bc.ID, n))
		if err != nil {
			r.Crash("proxy accepts a client connection", bc, err.Error())
			return
		}
		defer s.close()
		if _, err := s.prelude(false); err != nil {
			if s.slow || e.slowClientExplains(ctx.Model, s, 0) {
				r.inconclusive = "client too slow in its prelude"
				return
			}
			r.SpecFail(clauseServed, "", bc, "prelude: "+err.Error(), "")
			return
		}
		rid, head := s.requestHead(bc.Body, 0)
		body := make([]byte, bc.Body)
		for i := range body {
			body[i] = 'b'
		}
		sent := clampK(bc.Sent, bc.Body+1, 0)
		t, err := s.write(append(head, body[:sent]...))
		s.ev(t, "hb")
		if err == nil {
			mo := askDeadline(ctx.Model, e.conf, 0, s.events)
			if mo.Phase != "body" {
				r.inconclusive = "client too slow: by its own time stamps an earlier limit had expired"
				return
			}
			if mo.Closed {
				r.Disagree("no deadline on a request body when ReadTimeout is unset (Model.C15 run)", bc, "stalled in the body", mo.Raw)
			}
			time.Sleep(time.Duration(bc.StallMs) * time.Millisecond)
			t, err = s.write(body[sent:])
			s.ev(t, "c")
		}
		var status int
		var st time.Time
		if err == nil {
			st, status, err = s.readResponse("POST", rid, 10*time.Second)
		}
		if err != nil || status != 200 {
			impl := fmt.Sprintf("status=%d err=%v (body %d bytes, %d sent, pause %dms; limits %+v)", status, err, bc.Body, sent, bc.StallMs, bc.Conf.L)
			r.SpecFail(clauseBody, "", bc, impl, "the request was cut off during the pause in its body")
			r.Disagree("no deadline on a request body when ReadTimeout is unset (Model.C15 run)", bc, impl, askDeadline(ctx.Model, e.conf, 0, s.events).Raw)
			return
		}
		limit := bc.Conf.idleEff()
		until := st.Add(time.Duration(limit)*time.Millisecond + e.slack)
		closed, at := s.awaitClose(until)
		e.judgeClose(ctx, r, bc, s, "idle", limit, st, closed, at, until, 0)
	})
}

// ---- group of simultaneously stalled peers + probe ----

type peerObs struct {
	s      *sess
	spec   peerSpec
	anchor time.Time
	limit  int
	closed bool
	at     time.Time
	until  time.Time
	skip   string
}

type groupObs struct {
	peers   []*peerObs
	lat     time.Duration
	arrive  int64
	hdrAt   int64
	perr    error
	pslow   bool
	setupMs int64
}

func (e *env) groupOnce(gc *groupCase, attempt int) (*groupObs, error) {
	base := time.Now()
	g := &groupObs{}
	var wg sync.WaitGroup
	defer func() {
		for _, p := range g.peers {
			p.s.close()
		}
	}()
	for i, ps := range gc.Peers {
		s, err := e.dial(base, fmt.Sprintf("%s-a%d-p%d", gc.ID, attempt, i))
		if err != nil {
			wg.Wait()
			return g, fmt.Errorf("peer %d: dial: %w", i, err)
		}
		po := &peerObs{s: s, spec: ps}
		g.peers = append(g.peers, po)
		anchor, inconclusive, err := s.stallAt(ps.Point, ps.K, 0, 0, ps.V2, true)
		if err != nil && inconclusive == "" && !s.slow {
			wg.Wait()
			return g, fmt.Errorf("peer %d: %w", i, err)
		}
		if err != nil || inconclusive != "" {
			po.skip = "client too slow"
			continue
		}
		po.anchor = anchor
		po.limit = gc.Conf.limitAt(ps.Point)
		// every peer is on its own clock: it is observed until its own limit + slack, however many peers
		// stall before it
		wait := time.Duration(po.limit)*time.Millisecond + e.slack
		if po.limit == 0 {
			wait = time.Duration(gc.Conf.maxLimit()+600) * time.Millisecond
		}
		po.until = anchor.Add(wait)
		wg.Add(1)
		go func() {
			defer wg.Done()
			po.closed, po.at = s.awaitClose(po.until)
		}()
	}
	g.setupMs = time.Since(base).Milliseconds()
	g.lat, g.arrive, g.hdrAt, g.pslow, g.perr = e.probe(base, fmt.Sprintf("%s-a%d-probe", gc.ID, attempt))
	wg.Wait()
	return g, nil
}

func (e *env) runGroup(ctx *core.Ctx, gc *groupCase) {
	key := *gc
	key.ID = ""
	ctx.Case(canon(key), true)
	ctx.Count("stack/" + gc.Conf.Stack)
	ctx.Count(fmt.Sprintf("group/%s/n=%d", gc.Conf.Stack, len(gc.Peers)))
	for _, p := range gc.Peers {
		ctx.Count("group-peer/" + p.Point + "/" + kBucket(p.K))
	}
	attempt := 0
	confirm(ctx, func(r *rec) {
		attempt++
		e.judgeGroup(ctx, r, gc, attempt)
	})
}

func (e *env) judgeGroup(ctx *core.Ctx, r *rec, gc *groupCase, attempt int) {
	bound := gc.Conf.probeBoundUs()
	g, err := e.groupOnce(gc, attempt)
	if err != nil {
		r.SpecFail(clauseServed, "", gc, "stalled peer could not reach its stall point: "+err.Error(), "")
		return
	}
	// --- model
	var wire []string
	for _, p := range g.peers {
		h := int64(-1)
		if gc.Conf.hasProxy() {
			h = p.s.hdrAt
		}
		wire = append(wire, fmt.Sprintf("%d:%s", p.s.us(p.s.t0), showOpt(h)))
	}
	ph := int64(-1)
	if gc.Conf.hasProxy() {
		ph = g.hdrAt
	}
	wire = append(wire, fmt.Sprintf("%d:%s", g.arrive, showOpt(ph)))
	slots := e.askAccept(ctx.Model, wire)
	if len(slots) != len(wire) {
		core.Fatalf("model answered %d slots for %d peers", len(slots), len(wire))
	}
	// --- stalled peers
	for i, p := range g.peers {
		if p.skip != "" {
			ctx.Count("group-peer-skipped/" + p.skip)
			continue
		}
		one := map[string]any{"kind": "group-peer", "group": gc, "peer": i}
		pr := &rec{}
		e.judgeClose(ctx, pr, one, p.s, p.spec.Point, p.limit, p.anchor, p.closed, p.at, p.until, slots[i].Start)
		if pr.inconclusive != "" {
			ctx.Count("group-peer-skipped/" + pr.inconclusive)
			continue
		}
		r.reports = append(r.reports, pr.reports...)
		r.kinds = append(r.kinds, pr.kinds...)
		r.hard = r.hard || pr.hard
		r.validated += pr.validated
	}
	// --- probe
	lat := g.lat.Microseconds()
	impl := fmt.Sprintf("probe latency %dus, error=%v, %d stalled peers (%d in the PROXY header), set up in %dms, bound %dus", lat, g.perr, len(gc.Peers), gc.headerStalled(), g.setupMs, bound)
	last := slots[len(slots)-1]
	modelDelay := int64(-1)
	if last.Start >= 0 {
		modelDelay = last.Start - g.arrive
	}
	mdl := fmt.Sprintf("accept-loop delay of the probe %sus (slots %v)", showOpt(modelDelay), slots)
	slackUs := e.slack.Microseconds()
	ok := true
	switch {
	case g.perr != nil && g.pslow:
		r.inconclusive = "probe client too slow in its prelude"
		return
	case g.perr != nil:
		r.SpecFail(clauseProbe, "", gc, impl, "the probe was not served")
		r.Disagree("the probe is served (Model.C15 serve)", gc, impl, mdl)
		ok = false
	default:
		if modelDelay < 0 || lat+epsUs < modelDelay || lat > modelDelay+slackUs {
			r.Disagree("delay of the probe in the accept loop: model − eps ≤ latency ≤ model + slack (Model.C15 serve)", gc, impl, mdl)
			ok = false
		}
		if lat > bound {
			r.SpecFail(clauseProbe, "", gc, impl, fmt.Sprintf("latency above the bound %dus, which does not depend on the number of stalled peers", bound))
			ok = false
		}
	}
	if ok {
		r.validated++
	}
}

// ---- generators ----

func pointsFor(stack string, group bool) []string {
	switch stack {
	case "plain":
		return []string{"idle", "head", "head"}
	case "tls":
		if group {
			return []string{"tls-hello"}
		}
		return []string{"tls-hello", "tls-hello", "idle", "head"}
	case "mitm":
		if group {
			return []string{"idle", "head", "mitm-hello", "mitm-peek"}
		}
		return []string{"idle", "head", "mitm-hello", "mitm-hello", "mitm-peek"}
	case "proxy":
		return []string{"proxy-header", "proxy-header", "idle", "head"}
	case "proxy+tls":
		if group {
			return []string{"proxy-header", "tls-hello"}
		}
		return []string{"proxy-header", "proxy-header", "tls-hello", "tls-hello", "idle", "head"}
	}
	return nil
}

func genK(r *core.Rand, point string, v2 bool) int {
	switch point {
	case "proxy-header":
		n := len(proxyHeader(v2))
		return core.Pick(r, []int{0, 0, 1, 5, 6, 12, 13, 14, 16, n - 2, n - 1, r.Intn(n), r.Intn(n), r.Intn(n)})
	case "tls-hello":
		return core.Pick(r, []int{0, 0, 1, 3, 5, 6, 9, 43, r.Intn(600), r.Intn(600), r.Intn(600)})
	case "mitm-hello":
		return core.Pick(r, []int{1, 1, 3, 5, 6, 9, 43, 1 + r.Intn(600), 1 + r.Intn(600)})
	case "head":
		return core.Pick(r, []int{1, 1, 3, 4, 16, 30, 1 + r.Intn(90), 1 + r.Intn(90), 1000})
	}
	return 0
}

func genStall(r *core.Rand, conf Conf, id string) *stallCase {
	sc := &stallCase{Kind: "stall", Conf: conf, ID: id, Point: core.Pick(r, pointsFor(conf.Stack, false))}
	sc.V2 = conf.hasProxy() && r.Chance(40)
	sc.K = genK(r, sc.Point, sc.V2)
	switch sc.Point {
	case "idle", "head":
		if r.Chance(45) {
			sc.Requests = r.Range(1, 2)
		}
		if sc.Point == "head" && r.Chance(70) {
			if room := conf.idleEff() - 130; room >= 50 {
				sc.WaitMs = r.Range(40, room)
			} else if conf.idleEff() == 0 {
				sc.WaitMs = r.Range(40, 400)
			}
		}
	case "mitm-hello":
		// the pause after the 200 must end well before the idle deadline of the first tunnel byte
		if r.Chance(60) {
			if room := conf.idleEff() - 130; room >= 40 {
				sc.WaitMs = r.Range(20, room)
			} else if conf.idleEff() == 0 {
				sc.WaitMs = r.Range(20, 350)
			}
		}
	}
	return sc
}

func genGroup(r *core.Rand, conf Conf, n int, id string) *groupCase {
	gc := &groupCase{Kind: "group", Conf: conf, ID: id}
	pts := pointsFor(conf.Stack, true)
	for i := 0; i < n; i++ {
		p := peerSpec{Point: core.Pick(r, pts)}
		p.V2 = conf.hasProxy() && r.Chance(40)
		p.K = genK(r, p.Point, p.V2)
		gc.Peers = append(gc.Peers, p)
	}
	return gc
}

func genLimits(r *core.Rand) Limits {
	v := func() int { return 10 * r.Range(15, 40) }
	l := Limits{Idle: v(), ReadHeader: v(), TLS: v(), ProxyHdr: v()}
	// room for an idle wait before the first head byte
	if l.Idle < 260 && r.Chance(70) {
		l.Idle = 10 * r.Range(26, 40)
	}
	if r.Chance(80) {
		l.Write = v()
	}
	return l
}

type job struct {
	stall   *stallCase
	origin  *originCase
	body    *bodyCase
	group   *groupCase
	connect *connectCase
	resp    *respCase
	sink    *sinkCase
	tunnel  *tunnelCase
	pipe    *pipeCase
	dribble *dribbleCase

	bodystall *bodyStallCase
	late      *lateCase
	crowd     *crowdCase
}

func (e *env) do(ctx *core.Ctx, j job) {
	switch {
	case j.stall != nil:
		e.runStall(ctx, j.stall)
	case j.origin != nil:
		e.runOrigin(ctx, j.origin)
	case j.body != nil:
		e.runBody(ctx, j.body)
	case j.group != nil:
		e.runGroup(ctx, j.group)
	case j.connect != nil:
		e.runConnect(ctx, j.connect)
	case j.resp != nil:
		e.runResp(ctx, j.resp)
	case j.sink != nil:
		e.runSink(ctx, j.sink)
	case j.tunnel != nil:
		e.runTunnel(ctx, j.tunnel)
	case j.pipe != nil:
		e.runPipe(ctx, j.pipe)
	case j.dribble != nil:
		e.runDribble(ctx, j.dribble)
	case j.bodystall != nil:
		e.runBodyStall(ctx, j.bodystall)
	case j.late != nil:
		e.runLate(ctx, j.late)
	case j.crowd != nil:
		e.runCrowd(ctx, j.crowd)
	}
}

func genJobs(ctx *core.Ctx, r *core.Rand, conf Conf, tag string) []job {
	var jobs []job
	id := func(kind string, i int) string { return fmt.Sprintf("%s-%s%d", tag, kind, i) }
	nStall := ctx.N(36, 220)
	for i := 0; i < nStall; i++ {
		jobs = append(jobs, job{stall: genStall(r, conf, id("s", i))})
	}
	if conf.hasMITM() {
		for i := 0; i < ctx.N(1, 3); i++ {
			jobs = append(jobs, job{stall: &stallCase{Kind: "stall", Conf: conf, Point: "mitm-peek", ID: id("m", i)}})
		}
	}
	jobs = append(jobs, genSlowJobs(ctx, r, conf, id, 1)...)
	for i := 0; i < ctx.N(3, 8); i++ {
		oc := &originCase{Kind: "origin", Conf: conf, ID: id("o", i), SleepMs: conf.maxClientLimit() + r.Range(150, 350)}
		if r.Chance(40) {
			oc.Body = r.Range(1, 3000)
		}
		jobs = append(jobs, job{origin: oc})
	}
	if conf.L.Read == 0 {
		for i := 0; i < ctx.N(2, 6); i++ {
			bc := &bodyCase{Kind: "body", Conf: conf, ID: id("b", i), Body: r.Range(2, 4000), StallMs: conf.maxLimit() + r.Range(150, 300)}
			bc.Sent = r.Intn(bc.Body)
			jobs = append(jobs, job{body: bc})
		}
	}
	// groups: 1-50 simultaneously stalled peers, the same sizes for every stacking (on the PROXY stackings
	// about half of them stall in their PROXY header: the regression target of F8)
	ns := []int{1, 3, 8, 20, 50}
	if !ctx.Quick() {
		ns = []int{1, 2, 3, 5, 8, 13, 20, 35, 50, 50}
	}
	core.Shuffle(r, ns)
	nGroup := ctx.N(3, 8)
	if nGroup > len(ns) {
		nGroup = len(ns)
	}
	if conf.L.Read > 0 {
		nGroup = 1
	}
	for i := 0; i < nGroup; i++ {
		jobs = append(jobs, job{group: genGroup(r, conf, ns[i], id("g", i))})
	}
	// kept-alive connections whose client writes ahead (pipelined partial heads and bodies), dribbling peers
	jobs = append(jobs, genAheadJobs(ctx, r, conf, id)...)
	// stalls inside a request body with ReadTimeout set (F49)
	jobs = append(jobs, genBodyStalls(ctx, r, conf, id, 4, 12)...)
	core.Shuffle(r, jobs)
	return jobs
}

var stacks = []string{"plain", "tls", "mitm", "proxy", "proxy+tls"}

// observed close instant − model close instant (µs), over all closes of the run
var deltas struct {
	mu sync.Mutex
	v  []int64
}

func noteDelta(d int64) {
	deltas.mu.Lock()
	deltas.v = append(deltas.v, d)
	deltas.mu.Unlock()
}

func reportDeltas(ctx *core.Ctx) {
	deltas.mu.Lock()
	defer deltas.mu.Unlock()
	if len(deltas.v) == 0 {
		return
	}
	v := append([]int64(nil), deltas.v...)
	sort.Slice(v, func(i, j int) bool { return v[i] < v[j] })
	ctx.Extra("observed_close_minus_model_us", map[string]any{
		"n": len(v), "min": v[0], "median": v[len(v)/2], "p99": v[len(v)*99/100], "max": v[len(v)-1],
		"note": "model instant computed from client-side anchors (lower bounds); a negative value beyond -1000 would be a close before the limit",
	})
}

func Run(ctx *core.Ctx) {
	ctx.SetRule("real proxy per (listener stacking ∈ {plain, tls, mitm, proxy, proxy+tls}, limits 150-400 ms); cases: one client stalling before any byte / after k bytes of a " +
		"PROXY header (v1, v2), TLS ClientHello, request head (optionally after an idle wait and after 0-2 complete exchanges), after CONNECT 200 silent or with k bytes of a ClientHello; " +
		"origin sleeping longer than every limit; pause longer than every limit inside a request body; groups of 1-50 simultaneously stalled peers + a probe; " +
		"slow origin side with every configured client-side limit (idle, read-header, read, WRITE, handshake) 1.5-4x shorter than its latency: response head, CONNECT target (slow dial, full accept queue, " +
		"upstream proxy delaying its 200; ConnectTimeout longer), response body in pieces with pauses shorter / longer than WriteTimeout; client not taking a 1 GiB response (cut at writeStart + WriteTimeout, never when unset); " +
		"tunnels (CONNECT; 101 upgrade, also inside an intercepted session) with fast and slow targets, echoed across pauses longer than every client-side limit incl. ReadTimeout or steadily for longer than that; " +
		"kept-alive connections after 1-3 served requests stalling after k bytes of the next head (1 .. all but the last CRLF) or inside the body behind a complete head, the bytes sent in the SAME segment as the previous request(s) " +
		"(pipelined, waiting in the proxy's reader while a fast or slow origin answers), right after the previous response, or after an idle gap; peers DRIBBLING a PROXY header (v1, v2), ClientHello, request head or the " +
		"ClientHello inside an intercepted tunnel byte by byte with pauses of a quarter to a half of the limit for longer than limit + slack (cut at phaseStart + limit), a probe next to them; " +
		"stalls inside a request body with ReadTimeout set on every stacking (Content-Length and chunked, k framed body bytes incl. 0, also after served requests and behind a pipelined head): 504 at t0 + ReadTimeout, closed one idle timeout later (F49); " +
		"the upper slack of every judged close is below the limit itself (a close after two periods of the limit is late); plans with limits of 600-800 ms per stacking: every stall point held for 1.5 periods " +
		"(closed by 1.4), then the bytes that would have been progress (rest of the header / hello / head, a complete request, a ClientHello after the intercepted CONNECT's 200) are sent and must be answered with nothing; " +
		"crowds per stacking with limits of 2.0-2.4 s: N ∈ {8, 64, 4*GOMAXPROCS+8, 8*GOMAXPROCS+32, max(300, 12*GOMAXPROCS)} peers stalled at once in ONE phase (in / before the PROXY header, in / before the listener's ClientHello, " +
		"idle on the fresh connection and inside the TLS / intercepted session, in a request head, in a request body, silent after CONNECT 200, in the tunnel's ClientHello) or spread over all of them, a well-behaved client " +
		"(PROXY header, TLS, CONNECT + intercepted handshake as the stacking asks) served within half the shortest limit and every peer closed at its own limit (quick: every phase with one N ≥ 4*GOMAXPROCS+8 and one mixed crowd of the largest N; thorough: the whole grid); " +
		"every case is non-trivial; distinct = distinct (configuration, case parameters)")
	ctx.Assume("wall clock sampled: close instants and probe latencies are measured on the monotonic clock of the harness process; lower side sharp (1 ms), upper side with slack")
	for _, c := range core.LoadCorpus(ctx.Root, "C15") {
		Replay(ctx, c)
	}
	type plan struct {
		conf Conf
		jobs []job
	}
	var plans []plan
	nSets := ctx.N(2, 8)
	for si := 0; si < nSets; si++ {
		for _, st := range stacks {
			r := ctx.Rng.Sub()
			conf := Conf{Stack: st, L: genLimits(r)}
			if st == "proxy+tls" {
				// the limits of two phases that follow each other, in both orders (and never equal): the PROXY
				// header wait must end at ITS limit also when the handshake's is shorter, and the other way round
				if conf.L.TLS == conf.L.ProxyHdr {
					conf.L.ProxyHdr += 60
				}
				if (si%2 == 0) != (conf.L.TLS < conf.L.ProxyHdr) {
					conf.L.TLS, conf.L.ProxyHdr = conf.L.ProxyHdr, conf.L.TLS
				}
				if d := conf.L.TLS - conf.L.ProxyHdr; d > -60 && d < 60 {
					if d < 0 {
						conf.L.ProxyHdr += 60
					} else {
						conf.L.TLS += 60
					}
				}
			}
			plans = append(plans, plan{conf, genJobs(ctx, r, conf, fmt.Sprintf("%s%d", st, si))})
		}
	}
	// ReadTimeout set, IdleTimeout / ReadHeaderTimeout unset: both fall back to ReadTimeout; waiting for
	// the origin is still unlimited
	for i := 0; i < ctx.N(1, 2); i++ {
		r := ctx.Rng.Sub()
		conf := Conf{Stack: "plain", L: Limits{Read: 10 * r.Range(20, 40), TLS: 300}}
		if r.Chance(50) {
			conf.L.Write = 10 * r.Range(15, 40)
		}
		plans = append(plans, plan{conf, genJobs(ctx, r, conf, fmt.Sprintf("rt%d", i))})
	}
	// slow origins only. Every stacking with EVERY limit set (ReadTimeout and WriteTimeout next to the idle,
	// header and handshake limits), and non-intercepting stackings behind an upstream proxy that delays its 200
	// (ConnectTimeout longer than the delay, or the default)
	slowOnly := func(conf Conf, tag string, r *core.Rand) {
		id := func(kind string, i int) string { return fmt.Sprintf("%s-%s%d", tag, kind, i) }
		jobs := genSlowJobs(ctx, r, conf, id, 1)
		// (every stacking with ReadTimeout set) stalls inside a request body: F49
		jobs = append(jobs, genBodyStalls(ctx, r, conf, id, 3, 8)...)
		if conf.L.Read > 0 {
			jobs = append(jobs, job{pipe: genPipe(r, conf, id("pb", 0), "segment", "body")})
		}
		core.Shuffle(r, jobs)
		plans = append(plans, plan{conf, jobs})
	}
	for si := 0; si < ctx.N(1, 3); si++ {
		for _, st := range stacks {
			r := ctx.Rng.Sub()
			conf := Conf{Stack: st, L: genLimits(r)}
			conf.L.Read = 10 * r.Range(15, 40)
			conf.L.Write = 10 * r.Range(15, 40)
			slowOnly(conf, fmt.Sprintf("all-%s%d", st, si), r)
		}
	}
	for i := 0; i < ctx.N(1, 4); i++ {
		r := ctx.Rng.Sub()
		conf := Conf{Stack: core.Pick(r, []string{"plain", "tls", "proxy", "proxy+tls"}), L: genLimits(r), Upstream: true}
		conf.L.Write = 10 * r.Range(15, 40)
		if r.Chance(60) {
			conf.L.Connect = 4*conf.maxClientLimit() + r.Range(800, 1500)
		}
		slowOnly(conf, fmt.Sprintf("up%d", i), r)
	}
	// one period, not two (late.go): every stacking with limits of 600-800 ms, each stall point of the stacking held
	// for one and a half periods, then the bytes that would have been progress
	for si := 0; si < ctx.N(1, 2); si++ {
		for _, st := range stacks {
			r := ctx.Rng.Sub()
			conf := Conf{Stack: st, L: genLateLimits(r)}
			tag := fmt.Sprintf("late-%s%d", st, si)
			plans = append(plans, plan{conf, genLateJobs(ctx, r, conf, func(kind string, i int) string { return fmt.Sprintf("%s-%s%d", tag, kind, i) })})
		}
	}
	// crowds (crowd.go): every stacking with limits of 2.0-2.4 s, every phase of the stacking with far more
	// simultaneously stalled peers than any fixed stock could serve, a well-behaved client next to them
	var crowds []plan
	for _, st := range stacks {
		r := ctx.Rng.Sub()
		conf := Conf{Stack: st, L: genCrowdLimits(r)}
		tag := "crowd-" + st
		crowds = append(crowds, plan{conf, genCrowdJobs(ctx, r, conf, func(kind string, i int) string { return fmt.Sprintf("%s-%s%d", tag, kind, i) })})
	}
	if len(crowds[0].jobs) > 0 {
		ctx.Sample(crowds[0].jobs[0].crowd)
	}
	plans = append(crowds, plans...) // the longest plans are started first
	for i, p := range plans {
		if i >= len(crowds) && i < len(crowds)+3 && len(p.jobs) > 0 {
			j := p.jobs[0]
			switch {
			case j.stall != nil:
				ctx.Sample(j.stall)
			case j.origin != nil:
				ctx.Sample(j.origin)
			case j.body != nil:
				ctx.Sample(j.body)
			case j.group != nil:
				ctx.Sample(j.group)
			case j.connect != nil:
				ctx.Sample(j.connect)
			case j.resp != nil:
				ctx.Sample(j.resp)
			case j.sink != nil:
				ctx.Sample(j.sink)
			case j.tunnel != nil:
				ctx.Sample(j.tunnel)
			case j.pipe != nil:
				ctx.Sample(j.pipe)
			case j.dribble != nil:
				ctx.Sample(j.dribble)
			case j.bodystall != nil:
				ctx.Sample(j.bodystall)
			case j.late != nil:
				ctx.Sample(j.late)
			}
		}
	}
	// the crowds first and alone: setting up thousands of peers is a burst of work in this process (the proxies
	// run in it), which the cases with limits of 150-400 ms must not be measured next to
	runAll := func(ps []plan, workers int) {
		sem := make(chan struct{}, 12)
		var wg sync.WaitGroup
		for _, p := range ps {
			wg.Add(1)
			sem <- struct{}{}
			go func() {
				defer wg.Done()
				defer func() { <-sem }()
				runPlan(ctx, p.conf, p.jobs, workers)
			}()
		}
		wg.Wait()
	}
	runAll(plans[:len(crowds)], 10)
	runAll(plans[len(crowds):], 5)
	reportDeltas(ctx)
}

// warmup: one well-behaved client (certificate caches, transport connection); also shows the environment works.
func (e *env) warmup() error {
	var err error
	for a := 0; a < 4; a++ {
		if _, _, _, _, err = e.probe(time.Time{}, fmt.Sprintf("warmup%d", a)); err == nil {
			return nil
		}
	}
	return err
}

func runPlan(ctx *core.Ctx, conf Conf, jobs []job, workers int) {
	e, err := newEnv(ctx, conf)
	if err != nil {
		ctx.Crash("proxy starts with a valid configuration", "", conf, err.Error())
		return
	}
	defer e.close()
	if err := e.warmup(); err != nil {
		ctx.SpecFail(clauseServed, "", map[string]any{"kind": "warmup", "conf": conf}, err.Error(), "")
		return
	}
	// every stacking alike: no case can hold up the listener for another
	ch := make(chan job)
	var wg sync.WaitGroup
	for w := 0; w < workers; w++ {
		wg.Add(1)
		go func() {
			defer wg.Done()
			for j := range ch {
				e.do(ctx, j)
			}
		}()
	}
	for _, j := range jobs {
		ch <- j
	}
	close(ch)
	wg.Wait()
}

// Replay re-runs one recorded case on a fresh proxy.
func Replay(ctx *core.Ctx, raw json.RawMessage) {
	var k struct {
		Kind  string          `json:"kind"`
		Conf  Conf            `json:"conf"`
		Group json.RawMessage `json:"group"`
		Crowd json.RawMessage `json:"crowd"`
	}
	if err := json.Unmarshal(raw, &k); err != nil {
		core.Fatalf("C15 replay: %v", err)
	}
	if k.Kind == "group-peer" { // a finding about one peer of a group: re-run the group
		Replay(ctx, k.Group)
		return
	}
	if k.Kind == "crowd-peer" { // a finding about one peer of a crowd: re-run the crowd
		Replay(ctx, k.Crowd)
		return
	}
	var j job
	switch k.Kind {
	case "crowd":
		j.crowd = &crowdCase{}
		json.Unmarshal(raw, j.crowd)
	case "stall":
		j.stall = &stallCase{}
		json.Unmarshal(raw, j.stall)
	case "origin":
		j.origin = &originCase{}
		json.Unmarshal(raw, j.origin)
	case "body":
		j.body = &bodyCase{}
		json.Unmarshal(raw, j.body)
	case "group":
		j.group = &groupCase{}
		json.Unmarshal(raw, j.group)
	case "connect":
		j.connect = &connectCase{}
		json.Unmarshal(raw, j.connect)
	case "resp":
		j.resp = &respCase{}
		json.Unmarshal(raw, j.resp)
	case "sink":
		j.sink = &sinkCase{}
		json.Unmarshal(raw, j.sink)
	case "tunnel":
		j.tunnel = &tunnelCase{}
		json.Unmarshal(raw, j.tunnel)
	case "pipe":
		j.pipe = &pipeCase{}
		json.Unmarshal(raw, j.pipe)
	case "dribble":
		j.dribble = &dribbleCase{}
		json.Unmarshal(raw, j.dribble)
	case "bodystall":
		j.bodystall = &bodyStallCase{}
		json.Unmarshal(raw, j.bodystall)
	case "late":
		j.late = &lateCase{}
		json.Unmarshal(raw, j.late)
	case "warmup":
		j.group = &groupCase{Kind: "group", Conf: k.Conf, ID: "warmup"}
	default:
		core.Fatalf("C15 replay: unknown case kind %q", k.Kind)
	}
	e, err := newEnv(ctx, k.Conf)
	if err != nil {
		ctx.Crash("proxy starts with a valid configuration", "", k.Conf, err.Error())
		return
	}
	defer e.close()
	if err := e.warmup(); err != nil {
		ctx.SpecFail(clauseServed, "", map[string]any{"kind": "warmup", "conf": k.Conf}, err.Error(), "")
		return
	}
	e.do(ctx, j)
}
